import PycommModel
namespace Pycomm.C09
theorem placeholder : True := trivial
end Pycomm.C09
