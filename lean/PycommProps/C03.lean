import PycommModel
namespace Pycomm.C03
theorem placeholder : True := trivial
end Pycomm.C03
