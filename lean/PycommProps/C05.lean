import PycommModel
namespace Pycomm.C05
theorem placeholder : True := trivial
end Pycomm.C05
