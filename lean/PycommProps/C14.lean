import PycommModel
namespace Pycomm.C14
theorem placeholder : True := trivial
end Pycomm.C14
