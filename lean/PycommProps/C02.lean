import PycommModel
namespace Pycomm.C02
theorem placeholder : True := trivial
end Pycomm.C02
