import PycommModel
namespace Pycomm.C18
theorem placeholder : True := trivial
end Pycomm.C18
