import PycommModel
namespace Pycomm.C15
theorem placeholder : True := trivial
end Pycomm.C15
