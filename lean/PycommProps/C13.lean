import PycommModel
namespace Pycomm.C13
theorem placeholder : True := trivial
end Pycomm.C13
