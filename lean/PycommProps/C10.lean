import PycommModel
namespace Pycomm.C10
theorem placeholder : True := trivial
end Pycomm.C10
