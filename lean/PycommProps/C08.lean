import PycommModel
namespace Pycomm.C08
theorem placeholder : True := trivial
end Pycomm.C08
