import PycommModel
namespace Pycomm.C11
theorem placeholder : True := trivial
end Pycomm.C11
