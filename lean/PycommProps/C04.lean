import PycommModel
namespace Pycomm.C04
theorem placeholder : True := trivial
end Pycomm.C04
