import PycommModel
namespace Pycomm.C01
theorem placeholder : True := trivial
end Pycomm.C01
