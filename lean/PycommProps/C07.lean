import PycommModel
namespace Pycomm.C07
theorem placeholder : True := trivial
end Pycomm.C07
