import PycommModel
namespace Pycomm.C06
theorem placeholder : True := trivial
end Pycomm.C06
