/-
  C06 — data-type codecs round-trip every value.
  Only property statements live here; proofs are in PycommProofs/CodecRoundTrip.lean.
-/
import PycommProofs.CodecRoundTrip
namespace Pycomm.C06
open Pycomm

/-- Every canonical in-domain value of every tail-safe type (elementary, strings, bit strings, byte
    placeholders, fixed arrays, all-named structures, Logix fixed-capacity strings, nested to any depth)
    encodes, and decoding the encoding followed by ANY further bytes returns the value and leaves
    exactly those further bytes: values compose in structures and arrays. -/
theorem decode_encode (t : Ty) (v : PyVal) (h : Canon t v) :
    ∃ bs, encode t v = .ok bs ∧ ∀ rest, decode t (bs ++ rest) = .ok (v, rest) :=
  Pycomm.decode_encode t v h

/-- An unbounded array over a buffer holding exactly the encodings of its elements decodes to those
    elements and consumes the whole buffer (element type tail-safe and never zero-width). -/
theorem decode_encode_unbounded (t : Ty) (vs : List PyVal) (hb : t.isBits = none)
    (hw : PosWidth t) (h : ∀ x ∈ vs, Canon t x) :
    ∃ bs, encode (.arr .all t) (.list vs) = .ok bs ∧ decode (.arr .all t) bs = .ok (.list vs, []) :=
  Pycomm.decode_encode_unbounded t vs hb hw h

/-- Length-prefixed arrays: the documented contract is asymmetric (encode writes no prefix);
    a buffer holding the count in the length type followed by the encoded elements decodes to them. -/
theorem decode_encode_prefixed (k : IntK) (t : Ty) (vs : List PyVal) (hb : t.isBits = none)
    (hw : PosWidth t) (hk : k.signed = false) (hn : (vs.length : Int) ≤ k.hi) (h : ∀ x ∈ vs, Canon t x) :
    ∃ bs, encode (.arr (.pref k) t) (.list vs) = .ok bs ∧
      ∀ rest, decode (.arr (.pref k) t) (leBytes k.size vs.length ++ bs ++ rest) = .ok (.list vs, rest) :=
  Pycomm.decode_encode_prefixed k t vs hb hw hk hn h

/-- Over-long inputs to a fixed array are truncated to the array length. -/
theorem encode_fixed_truncates (n : Nat) (t : Ty) (vs extra : List PyVal) (hb : t.isBits = none)
    (hn : vs.length = n) :
    encode (.arr (.fixed n) t) (.list (vs ++ extra)) = encode (.arr (.fixed n) t) (.list vs) :=
  Pycomm.encode_fixed_truncates n t vs extra hb hn

/-- A tuple is as good as a list. -/
theorem encode_tuple_eq_list (l : ArrLen) (t : Ty) (vs : List PyVal) :
    encode (.arr l t) (.tuple vs) = encode (.arr l t) (.list vs) :=
  Pycomm.encode_tuple_eq_list l t vs

/-- Encoding a structure from its canonical dict or from the positional sequence of the same values
    gives identical bytes. -/
theorem struct_dict_eq_seq (ms : Members) (kvs : List (Name × PyVal)) (h : CanonMembers ms kvs) :
    encode (.struct ms) (.dict kvs) = encode (.struct ms) (.list (kvs.map (·.2))) :=
  Pycomm.struct_dict_eq_seq ms kvs h

/-- Bit strings: 8·size bools round-trip, least significant bit first. -/
theorem bits_roundtrip (k : IntK) (hk : k.signed = false) (bs : List Bool) (h : bs.length = 8 * k.size)
    (rest : Bytes) :
    ∃ enc, encode (.bits k) (.list (bs.map PyVal.bool)) = .ok enc ∧
      decode (.bits k) (enc ++ rest) = .ok (.list (bs.map PyVal.bool), rest) :=
  Pycomm.bits_roundtrip k hk bs h rest

/-! non-vacuity: concrete non-trivial values satisfy the hypotheses -/
example : Canon (.arr (.fixed 2) (.struct (.cons (some [97]) (.int .int) (.cons (some [98]) (.str .uint .latin1) .nil))))
    (.list [.dict [([97], .int (-2)), ([98], .str [104, 105])], .dict [([97], .int 7), ([98], .str [])]]) := by
  simp [Canon, CanonMembers, Members.names, IntK.lo, IntK.hi, IntK.signed, IntK.size, TextOk, Ty.isBits]

example : PosWidth (.struct (.cons none (.arr (.fixed 0) .bool) (.cons (some [97]) (.int .dint) .nil))) := by
  simp [PosWidth, PosWidthMembers]

end Pycomm.C06
