/-
  C12 — reply frames survive any TCP segmentation.  Statements only; proofs in PycommProofs/SocketProofs.lean.
  Scope: exactly one frame is in flight (request/response discipline of the driver), which is why
  "the bytes of one frame" needs no de-framing of a following message.
-/
import PycommProofs.SocketProofs
namespace Pycomm.C12
open Pycomm Pycomm.Sock

theorem receive_any_split (f : Bytes) (hf : WfFrame f) (chunks : List Bytes)
    (hj : chunks.flatten = f) (hne : ∀ c ∈ chunks, c ≠ []) (tail : List Ev) :
    receive (chunks.map Ev.chunk ++ tail) = .ok f :=
  Sock.receive_any_split f hf chunks hj hne tail

theorem receive_short_fault (f : Bytes) (hf : WfFrame f) (chunks : List Bytes) (p : Bytes)
    (hj : chunks.flatten = p) (hne : ∀ c ∈ chunks, c ≠ []) (hp : p <+: f) (hlt : p.length < f.length)
    (fault : List Ev) (hfault : fault = [] ∨ (∃ r, fault = Ev.closed :: r) ∨ (∃ r, fault = Ev.error :: r)) :
    receive (chunks.map Ev.chunk ++ fault) = .error .comm :=
  Sock.receive_short_fault f hf chunks p hj hne hp hlt fault hfault

theorem receive_terminates (s : List Ev) : receive s ≠ .error .hang :=
  Sock.receive_terminates s

theorem send_all (script : List (Option Nat)) (msg : Bytes)
    (h : ∀ a ∈ script, ∃ n, a = some n ∧ 0 < n) :
    sendMsg script msg = .ok (msg, msg.length) :=
  Sock.send_all script msg h

theorem send_broken (pre : List (Option Nat)) (bad : Option Nat) (post : List (Option Nat)) (msg : Bytes)
    (hpre : ∀ a ∈ pre, ∃ n, a = some n ∧ 0 < n)
    (hsum : (pre.map (fun a => a.getD 0)).sum < msg.length)
    (hbad : bad = none ∨ bad = some 0) :
    sendMsg (pre ++ bad :: post) msg = .error .comm :=
  Sock.send_broken pre bad post msg hpre hsum hbad

/-! non-vacuity -/
example : WfFrame ([0x65, 0, 2, 0] ++ List.replicate 20 0 ++ [7, 8]) := by
  unfold WfFrame; decide

end Pycomm.C12
