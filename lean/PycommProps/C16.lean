import PycommModel
namespace Pycomm.C16
theorem placeholder : True := trivial
end Pycomm.C16
