import PycommProps.C18
#print axioms Pycomm.C18.parse_word
#print axioms Pycomm.C18.parse_bit
#print axioms Pycomm.C18.parse_count
#print axioms Pycomm.C18.parse_binary_bit
#print axioms Pycomm.C18.reject_out_of_range
#print axioms Pycomm.C18.reject_bit_out_of_range
#print axioms Pycomm.C18.reject_binary_bit_out_of_range
#print axioms Pycomm.C18.reject_unknown_type
#print axioms Pycomm.C18.bit_write_value
#print axioms Pycomm.C18.mask_word_bit
#print axioms Pycomm.C18.write_then_read
#print axioms Pycomm.C18.write_frame
