import PycommProps.C03
#print axioms Pycomm.C03.target_unpacks_packed
#print axioms Pycomm.C03.client_unpacks_packed
#print axioms Pycomm.C03.plan_partition
#print axioms Pycomm.C03.plan_no_empty_group
#print axioms Pycomm.C03.multi_e2e
#print axioms Pycomm.C03.multi_reply_count
#print axioms Pycomm.C03.multi_isolation
