import PycommProps.C03
#print axioms Pycomm.C03.target_unpacks_packed
#print axioms Pycomm.C03.client_unpacks_packed
#print axioms Pycomm.C03.plan_partition
#print axioms Pycomm.C03.plan_no_empty_group
