import PycommProps.C06
#print axioms Pycomm.C06.decode_encode
#print axioms Pycomm.C06.encode_ne_nil
#print axioms Pycomm.C06.decode_nil_of_canon
#print axioms Pycomm.C06.decode_encode_unbounded
#print axioms Pycomm.C06.decode_encode_unbounded_of_ne_nil
#print axioms Pycomm.C06.decode_encode_prefixed
#print axioms Pycomm.C06.encode_fixed_truncates
#print axioms Pycomm.C06.encode_tuple_eq_list
#print axioms Pycomm.C06.struct_dict_eq_seq
#print axioms Pycomm.C06.bits_roundtrip
