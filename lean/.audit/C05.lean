import PycommProps.C05
#print axioms Pycomm.C05.typeword_struct
#print axioms Pycomm.C05.typeword_atomic
#print axioms Pycomm.C05.alias_flag
#print axioms Pycomm.C05.upload_complete
#print axioms Pycomm.C05.record_roundtrip
#print axioms Pycomm.C05.records_roundtrip
#print axioms Pycomm.C05.next_instance_after_page
#print axioms Pycomm.C05.template_roundtrip
