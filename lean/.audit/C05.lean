import PycommProps.C05
#print axioms Pycomm.C05.typeword_struct
#print axioms Pycomm.C05.typeword_atomic
#print axioms Pycomm.C05.alias_flag
#print axioms Pycomm.C05.upload_complete
