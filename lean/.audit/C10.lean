import PycommProps.C10
#print axioms Pycomm.C10.placeholder
