import PycommProps.C10
#print axioms Pycomm.C10.failures_are_library
#print axioms Pycomm.C10.after_close_driver
#print axioms Pycomm.C10.after_close_target
#print axioms Pycomm.C10.no_unit_data_before_open
#print axioms Pycomm.C10.fo_order
#print axioms Pycomm.C10.reopen_works
#print axioms Pycomm.C10.reachable_idle
#print axioms Pycomm.C10.reopen_after_any_history
