import PycommProps.C01
#print axioms Pycomm.C01.bool_index
#print axioms Pycomm.C01.bool_read_window
#print axioms Pycomm.C01.bool_read_slice
#print axioms Pycomm.C01.client_unpacks_packed
#print axioms Pycomm.C01.read_fragments_tile
#print axioms Pycomm.C01.read_e2e
#print axioms Pycomm.C01.read_reply_decodes
#print axioms Pycomm.C01.read_reply_decodes_scalar
#print axioms Pycomm.C01.read_frag_e2e
#print axioms Pycomm.C01.read_atomic_scalar_e2e
#print axioms Pycomm.C01.read_atomic_scalar_e2e_encoded
#print axioms Pycomm.C01.read_atomic_scalar_e2e_db
