import PycommProps.C01
#print axioms Pycomm.C01.bool_index
#print axioms Pycomm.C01.bool_read_window
#print axioms Pycomm.C01.bool_read_slice
#print axioms Pycomm.C01.client_unpacks_packed
#print axioms Pycomm.C01.read_fragments_tile
