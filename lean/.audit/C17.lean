import PycommProps.C17
#print axioms Pycomm.C17.draws_length
#print axioms Pycomm.C17.draws_getElem
#print axioms Pycomm.C17.nth_eq_closed
#print axioms Pycomm.C17.nth_range
#print axioms Pycomm.C17.nth_consecutive_ne
#print axioms Pycomm.C17.nth_eq_iff
#print axioms Pycomm.C17.nth_ne_of_close
#print axioms Pycomm.C17.sends_adjacent_differ
#print axioms Pycomm.C17.seq_never_repeats
#print axioms Pycomm.C17.seq_never_repeats_logix
#print axioms Pycomm.C17.seq_never_repeats_logix_static
