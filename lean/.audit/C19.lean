import PycommProps.C19
#print axioms Pycomm.C19.getItem_casing
#print axioms Pycomm.C19.get_casing
#print axioms Pycomm.C19.contains_casing
#print axioms Pycomm.C19.contains_iff_getItem
#print axioms Pycomm.C19.get_of_getItem
#print axioms Pycomm.C19.get_default
#print axioms Pycomm.C19.lower_upper
#print axioms Pycomm.C19.lower_lower
#print axioms Pycomm.C19.tables_names_resolve
#print axioms Pycomm.C19.tables_codes_resolve
#print axioms Pycomm.C19.tables_names_ascii
#print axioms Pycomm.C19.member_any_case
#print axioms Pycomm.C19.status_text_total
#print axioms Pycomm.C19.ext_status_total
#print axioms Pycomm.C19.ext_status_unknown_is_none
