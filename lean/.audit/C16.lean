import PycommProps.C16
#print axioms Pycomm.C16.hex8_spec
#print axioms Pycomm.C16.lookupId_spec
#print axioms Pycomm.C16.module_identity_decode_spec
#print axioms Pycomm.C16.list_identity_decode_spec
#print axioms Pycomm.C16.identity_encode_decode
#print axioms Pycomm.C16.list_identity_e2e
#print axioms Pycomm.C16.discover_reply_e2e
#print axioms Pycomm.C16.get_module_info_e2e
#print axioms Pycomm.C16.get_plc_info_e2e
#print axioms Pycomm.C16.identify_then_info_e2e
#print axioms Pycomm.C16.identity_changes_e2e
