import PycommProps.C16
#print axioms Pycomm.C16.hex8_spec
#print axioms Pycomm.C16.lookupId_spec
#print axioms Pycomm.C16.module_identity_decode_spec
#print axioms Pycomm.C16.list_identity_decode_spec
#print axioms Pycomm.C16.identity_encode_decode
