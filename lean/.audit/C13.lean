import PycommProps.C13
#print axioms Pycomm.C13.valid_iff
#print axioms Pycomm.C13.short_never_valid
#print axioms Pycomm.C13.none_never_valid
#print axioms Pycomm.C13.invalid_has_error
#print axioms Pycomm.C13.valid_has_no_error
#print axioms Pycomm.C13.status_text_nonempty
#print axioms Pycomm.C13.error_names_status
#print axioms Pycomm.C13.typed_valid_decodes
#print axioms Pycomm.C13.untyped_value_is_data
#print axioms Pycomm.C13.register_valid_iff
#print axioms Pycomm.C13.tag_reply_error_falsy
#print axioms Pycomm.C13.multi_packet_error_fails_all_read
#print axioms Pycomm.C13.multi_packet_error_fails_all_write
#print axioms Pycomm.C13.multi_packet_error_never_success
