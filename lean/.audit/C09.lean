import PycommProps.C09
#print axioms Pycomm.C09.logical_tables_wf
#print axioms Pycomm.C09.logical_roundtrip
#print axioms Pycomm.C09.port_roundtrip_slot
#print axioms Pycomm.C09.port_roundtrip_ip
#print axioms Pycomm.C09.symbol_roundtrip
#print axioms Pycomm.C09.epath_wordcount
#print axioms Pycomm.C09.request_path_denotes
#print axioms Pycomm.C09.pyInt_decRender
#print axioms Pycomm.C09.findTagIndex_render
#print axioms Pycomm.C09.tag_path_denotes
#print axioms Pycomm.C09.tag_path_instance
