import PycommProps.C04
#print axioms Pycomm.C04.overhead_value
#print axioms Pycomm.C04.plan_groups_fit
#print axioms Pycomm.C04.read_reply_fits
#print axioms Pycomm.C04.write_request_fits
#print axioms Pycomm.C04.write_fragments_tile
#print axioms Pycomm.C04.read_fragments_tile
#print axioms Pycomm.C04.read_frag_e2e
