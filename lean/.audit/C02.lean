import PycommProps.C02
#print axioms Pycomm.C02.mask_bytes_size
#print axioms Pycomm.C02.rmw_law
#print axioms Pycomm.C02.rmw_in_range
#print axioms Pycomm.C02.bool_write_aligned
#print axioms Pycomm.C02.write_fragments_tile
#print axioms Pycomm.C02.write_e2e
#print axioms Pycomm.C02.splice_frame
#print axioms Pycomm.C02.written_frame
#print axioms Pycomm.C02.write_then_read
#print axioms Pycomm.C02.write_frag_e2e
#print axioms Pycomm.C02.rmw_e2e
#print axioms Pycomm.C02.write_atomic_scalar_e2e
#print axioms Pycomm.C02.write_atomic_scalar_effect
#print axioms Pycomm.C02.write_then_read_atomic_e2e
#print axioms Pycomm.C02.write_atomic_scalar_e2e_db
#print axioms Pycomm.C02.ldw_bit_law
#print axioms Pycomm.C02.write_bit_e2e
