import PycommProps.C15
#print axioms Pycomm.C15.route_of_spelling
#print axioms Pycomm.C15.shortcut_bare
#print axioms Pycomm.C15.shortcut_slot
#print axioms Pycomm.C15.odd_segments_rejected
#print axioms Pycomm.C15.unknown_port_rejected
#print axioms Pycomm.C15.bad_link_rejected
#print axioms Pycomm.C15.bad_tcp_port_rejected
#print axioms Pycomm.C15.separators_interchangeable
