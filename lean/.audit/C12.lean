import PycommProps.C12
#print axioms Pycomm.C12.receive_any_split
#print axioms Pycomm.C12.receive_short_fault
#print axioms Pycomm.C12.receive_terminates
#print axioms Pycomm.C12.send_all
#print axioms Pycomm.C12.send_broken
