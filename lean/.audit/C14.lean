import PycommProps.C14
#print axioms Pycomm.C14.request_delivered
#print axioms Pycomm.C14.ucs_path
#print axioms Pycomm.C14.ucs_unwrap
#print axioms Pycomm.C14.time_roundtrip
#print axioms Pycomm.C14.time_reply_decodes
#print axioms Pycomm.C14.set_time_request
#print axioms Pycomm.C14.reply_data_returned
#print axioms Pycomm.C14.generic_connected_e2e
#print axioms Pycomm.C14.generic_connected_generic_object_e2e
#print axioms Pycomm.C14.generic_unconnected_e2e
#print axioms Pycomm.C14.generic_ucs_e2e
#print axioms Pycomm.C14.generic_ucs_hops_e2e
#print axioms Pycomm.C14.generic_typed_e2e
#print axioms Pycomm.C14.set_then_get_plc_time_e2e
#print axioms Pycomm.C14.set_then_get_plc_time_ops
