import PycommProps.C14
#print axioms Pycomm.C14.request_delivered
#print axioms Pycomm.C14.ucs_path
#print axioms Pycomm.C14.ucs_unwrap
#print axioms Pycomm.C14.time_roundtrip
#print axioms Pycomm.C14.time_reply_decodes
#print axioms Pycomm.C14.set_time_request
#print axioms Pycomm.C14.reply_data_returned
