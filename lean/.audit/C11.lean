import PycommProps.C11
#print axioms Pycomm.C11.parseFrame_sound
#print axioms Pycomm.C11.parseCpf_sound
#print axioms Pycomm.C11.frame_wf
#print axioms Pycomm.C11.cpf_rr_wf
#print axioms Pycomm.C11.cpf_unit_wf
#print axioms Pycomm.C11.register_frame
#print axioms Pycomm.C11.bodyless_frames
#print axioms Pycomm.C11.build_fails_only_on_overflow
