import PycommProps.C06
import PycommProps.C07
import PycommProps.C08
