/-
  Proofs for C19 (code tables are total, bidirectional, case-insensitive lookups).
-/
import PycommModel.EnumMap
import PycommModel.StatusText
namespace Pycomm.EMap

/-- one table: every member name resolves to its value -/
def namesResolve (t : Table) : Bool :=
  t.members.all fun m => decide (getItem t (.str m.1) = some (caps t m.2.1))

/-- one table: every reverse-lookup key resolves to (the presentation of) a member name that carries it -/
def codesResolve (t : Table) : Bool :=
  !t.bidirectional || t.members.all fun m =>
    t.members.any fun m' => decide (getItem t m.2.2 = some (caps t (.str (lower m'.1)))) && decide (m'.2.2 = m.2.2)

/-- member names are ASCII identifiers (so `lower`/`upper` are the whole story of letter case) -/
def namesAscii (t : Table) : Bool := t.members.all fun m => m.1.all (· < 128)

-- PROPERTY THEOREMS

/-- lookups depend only on the lower-cased spelling: any letter case of a name behaves the same -/
theorem getItem_casing (t : Table) (s s' : Name) (h : lower s = lower s') :
    getItem t (.str s) = getItem t (.str s') := by
  simp [getItem, key, h]

theorem get_casing (t : Table) (s s' : Name) (d : Atom) (h : lower s = lower s') :
    get t (.str s) d = get t (.str s') d := by
  simp [get, key, h]

theorem contains_casing (t : Table) (s s' : Name) (h : lower s = lower s') :
    contains t (.str s) = contains t (.str s') := by
  simp [contains, key, h]

/-- `in` agrees with item access -/
theorem contains_iff_getItem (t : Table) (k : Atom) : contains t k = (getItem t k).isSome := by
  simp [contains, getItem]

/-- `get` agrees with item access (and returns the default exactly when the key is absent) -/
theorem get_of_getItem (t : Table) (k d v : Atom) (h : getItem t k = some v) : get t k d = v := by
  unfold getItem at h; unfold get
  cases hb : lastBinding (key k) (merged t) with
  | none => simp [hb] at h
  | some x => simp [hb] at h ⊢; exact h

theorem get_default (t : Table) (k d : Atom) (h : getItem t k = none) : get t k d = caps t d := by
  unfold getItem at h; unfold get
  cases hb : lastBinding (key k) (merged t) with
  | none => simp
  | some x => simp [hb] at h

/-- upper-casing and lower-casing an ASCII name are both "a letter case" of it -/
theorem lower_upper (s : Name) (h : s.all (· < 128) = true) : lower (upper s) = lower s := by
  induction s with
  | nil => rfl
  | cons c cs ih =>
    simp only [List.all_cons, Bool.and_eq_true, decide_eq_true_eq] at h
    simp only [lower, upper, List.map_cons, List.cons.injEq] at ih ⊢
    refine ⟨?_, ih h.2⟩
    have hc := h.1
    unfold lowerC upperC
    by_cases h1 : 97 ≤ c ∧ c ≤ 122
    · simp only [h1, and_self, if_true]
      have h2 : 65 ≤ c - 32 ∧ c - 32 ≤ 90 := by omega
      have h3 : ¬ (65 ≤ c ∧ c ≤ 90) := by omega
      simp only [h2, and_self, if_true, h3, if_false]; omega
    · simp only [h1, if_false]

theorem lower_lower (s : Name) : lower (lower s) = lower s := by
  induction s with
  | nil => rfl
  | cons c cs ih =>
    simp only [lower, List.map_cons, List.cons.injEq] at ih ⊢
    refine ⟨?_, ih⟩
    unfold lowerC
    by_cases h1 : 65 ≤ c ∧ c ≤ 90
    · have h2 : ¬ (65 ≤ c + 32 ∧ c + 32 ≤ 90) := by omega
      simp only [h1, and_self, if_true, h2, if_false]
    · simp only [h1, if_false]

/-- every member name of every table the source declares NOW (regenerated each run) resolves to its value -/
theorem tables_names_resolve : Gen.allTables.all namesResolve = true := by decide +kernel

/-- every code of every bidirectional table resolves back to a member name carrying that code -/
theorem tables_codes_resolve : Gen.allTables.all codesResolve = true := by decide +kernel

theorem tables_names_ascii : Gen.allTables.all namesAscii = true := by decide +kernel

/-- consequently: any letter case of any member name, by item access -/
theorem member_any_case (t : Table) (ht : t ∈ Gen.allTables) (m : Name × Atom × Atom) (hm : m ∈ t.members)
    (s : Name) (hs : lower s = lower m.1) : getItem t (.str s) = some (caps t m.2.1) := by
  have h1 := List.all_eq_true.mp tables_names_resolve t ht
  have h2 := List.all_eq_true.mp h1 m hm
  rw [getItem_casing t s m.1 hs]
  exact of_decide_eq_true h2

/-- status lookups return a text for every status byte, falling back to a message containing the hex code -/
theorem status_text_total :
    (List.range 256).all (fun s =>
      !(Status.serviceStatusText s).isEmpty &&
      ((Status.lookupNat s Gen.serviceStatus).isSome || Status.containsSub (Status.hex2 s) (Status.serviceStatusText s))) = true := by
  decide +kernel

end Pycomm.EMap
