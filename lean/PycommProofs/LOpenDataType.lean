/-
  LogixDriver.open(), `_get_data_type` for a structure whose members are all elementary: the upload (attributes,
  fragmented definition read, `_parse_template_data`) yields the data type `Drv.dataTypeOf` computes from the project,
  for every fragment schedule.
-/
import PycommProofs.LOpenMakeup
import PycommProofs.LOpenTags
namespace Pycomm.Lgx.Opn
open Pycomm Pycomm.Tgt Pycomm.Path Pycomm.Reply Pycomm.Encap Pycomm.Lgx Pycomm.EP Pycomm.Lgx.E2E Pycomm.Lgx.Drv

/-! ### the member-info block -/

theorem lo_chunks8 (ms : List MemberDef) :
    Up.chunks8 ms.length (ms.map Up.infoBytes).flatten = ms.map Up.infoBytes := by
  induction ms with
  | nil => rfl
  | cons m ms ih =>
    have hl := Up.up_infoBytes_length m
    simp only [List.map_cons, List.flatten_cons, List.length_cons, Up.chunks8,
      RT.take_append_len _ _ 8 hl, RT.drop_append_len _ _ 8 hl, ih]

theorem lo_templateData_infos (t : Template) :
    (templateData t).take (t.members.length * 8) = (t.members.map Up.infoBytes).flatten := by
  unfold templateData
  rw [Up.up_defBytes, RT.take_append_len _ _ _ (Up.up_infoBlock_length t.members)]

/-- every member elementary: `member_data` needs no nested upload -/
theorem lo_resolve_atomic {σ} (getDT : St σ → Nat → Nat → St σ × Except Exn DT) (st : St σ) (ms : List MemberDef)
    (hwf : ∀ m ∈ ms, Up.WfMember m) (hflat : ∀ m ∈ ms, (Up.atomicOfTyp m.typeWord).isSome = true) :
    resolveMembers getDT st (ms.map Up.infoBytes) = (st, .ok (List.replicate ms.length none)) := by
  induction ms with
  | nil => rfl
  | cons m ms ih =>
    have hm := Up.up_parseMemberInfo m (hwf m List.mem_cons_self)
    have hs : memberIsStruct m.typeWord = .ok false := by
      unfold memberIsStruct
      rw [if_pos (hflat m List.mem_cons_self)]
    rw [List.map_cons, resolveMembers, hm]
    dsimp only
    rw [hs]
    dsimp only
    rw [ih (fun x hx => hwf x (List.mem_cons_of_mem _ hx)) (fun x hx => hflat x (List.mem_cons_of_mem _ hx))]
    rfl

/-! ### `_parse_template_data` -/

/-- the parser looks at the symbol type only through its low 12 bits (predefined or not) -/
theorem lo_parseTemplate_mod (n s s' : Nat) (d : Bytes) (h : s % 4096 = s' % 4096) :
    Up.parseTemplate n s d = Up.parseTemplate n s' d := by
  unfold Up.parseTemplate
  simp only [h]

/-- an elementary member's definition does not consult nested data types -/
theorem lo_memberInfo_atomic (dt dt' : Nat → Option (StructInfo × Ty × ITags)) (m : Up.PMember)
    (h : (Up.atomicOfTyp m.typ).isSome = true) : memberInfo dt m = memberInfo dt' m := by
  unfold memberInfo
  cases ha : Up.atomicOfTyp m.typ with
  | none => rw [ha] at h; cases h
  | some c => rfl

theorem lo_mapM_zip_none (dt : Nat → Option (StructInfo × Ty × ITags)) (ms : List Up.PMember)
    (h : ∀ m ∈ ms, (Up.atomicOfTyp m.typ).isSome = true) :
    (ms.zip (List.replicate ms.length (none : Option DT))).mapM
        (fun x => (memberInfo (fun _ => x.2) x.1).map fun i => (x.1, i)) =
      ms.mapM (fun m => (memberInfo dt m).map fun i => (m, i)) := by
  induction ms with
  | nil => rfl
  | cons m ms ih =>
    rw [List.length_cons, List.replicate_succ, List.zip_cons_cons, List.mapM_cons, List.mapM_cons,
      ih (fun x hx => h x (List.mem_cons_of_mem _ hx))]
    dsimp only
    rw [lo_memberInfo_atomic (fun _ => none) dt m (h m List.mem_cons_self)]

/-- `_parse_template_data` on the stored definition of a well-formed template with elementary members only, with the
    attributes `_get_structure_makeup` reported: the data type `Drv.dataTypeOf` computes (`unmodelled` when that is
    undefined: an elementary code outside the model's table) -/
theorem lo_parseTemplateData_flat (p : Project) (t : Template) (tid symbolType k : Nat) (tname : Name) (junk : Bytes)
    (ht : p.template? tid = some t) (hsym : symbolType % 4096 = tid % 4096)
    (hwf : Up.WfTemplate t tname junk) (hflat : ∀ m ∈ t.members, (Up.atomicOfTyp m.typeWord).isSome = true) :
    parseTemplateData (templateData t) (lo_attrsOf t) symbolType (List.replicate t.members.length none) =
      match dataTypeOf p (k + 1) tid with
      | some dt => .ok dt
      | none => .error unmodelled := by
  obtain ⟨pt, hp, hn, hms, _, _⟩ := Up.template_roundtrip t tname junk symbolType
    (t.defWords * 4 - 23 - t.defBytes.length) hwf
  have hp' : Up.parseTemplate t.members.length tid (templateData t) = .ok pt := by
    rw [← lo_parseTemplate_mod _ _ _ _ hsym]; exact hp
  have hlen : pt.members.length = t.members.length := by
    have := congrArg List.length hms
    simpa using this
  have hat : ∀ m ∈ pt.members, (Up.atomicOfTyp m.typ).isSome = true := by
    intro m hm
    have h1 : (m.name, m.info, m.typ, m.offset) ∈ pt.members.map (fun m => (m.name, m.info, m.typ, m.offset)) :=
      List.mem_map.2 ⟨m, hm, rfl⟩
    rw [hms] at h1
    obtain ⟨m', hm', e⟩ := List.mem_map.1 h1
    simp only [Prod.mk.injEq] at e
    rw [← e.2.2.1]
    exact hflat m' hm'
  have hmm := lo_mapM_zip_none (dataTypeOf p k) pt.members hat
  rw [hlen] at hmm
  unfold parseTemplateData
  rw [dataTypeOf, ht]
  dsimp only
  have hp2 : Up.parseTemplate (lo_attrsOf t).memberCount symbolType (templateData t) = .ok pt := hp
  rw [hp2, hp']
  dsimp only
  rw [hmm, hn]
  cases pt.members.mapM (fun m => (memberInfo (dataTypeOf p k) m).map fun i => (m, i)) with
  | none => rfl
  | some ms => rfl

/-! ### `_get_data_type` -/

theorem lo_natGet_natSet_same {α} (xs : List (Nat × α)) (k : Nat) (v : α) (h : natGet xs k = none) :
    natGet (natSet xs k v) k = some v := by
  unfold natGet at h ⊢
  unfold natSet
  have hnone : xs.find? (fun x => x.1 == k) = none := by
    cases hf : xs.find? (fun x => x.1 == k) with
    | none => rfl
    | some x => rw [hf] at h; cases h
  have hany : xs.any (fun x => x.1 == k) = false := by
    rw [List.find?_eq_none] at hnone
    rw [List.any_eq_false]
    exact hnone
  rw [hany]
  simp only [Bool.false_eq_true, if_false, List.find?_append, hnone, List.find?_cons, beq_self_eq_true,
    Option.none_or, Option.map_some]

theorem lo_natGet_natSet_other {α} (xs : List (Nat × α)) (k k' : Nat) (v : α) (h : natGet xs k = none) (hk : k' ≠ k) :
    natGet (natSet xs k v) k' = natGet xs k' := by
  unfold natGet at h ⊢
  unfold natSet
  have hnone : xs.find? (fun x => x.1 == k) = none := by
    cases hf : xs.find? (fun x => x.1 == k) with
    | none => rfl
    | some x => rw [hf] at h; cases h
  have hany : xs.any (fun x => x.1 == k) = false := by
    rw [List.find?_eq_none] at hnone
    rw [List.any_eq_false]
    exact hnone
  rw [hany]
  have hne : (k == k') = false := by simp; omega
  simp only [Bool.false_eq_true, if_false, List.find?_append, List.find?_cons, hne, List.find?_nil, Option.or_none]

/-- `_get_data_type(tid, symbol_type)` (nothing cached for `tid`) for a well-formed template with elementary members
    only, on a healthy connection: the upload returns the data type `Drv.dataTypeOf` computes from the project, caches
    it under `tid` (with its attributes) and registers its name; the world stays healthy, only counters advance -/
theorem lo_getDataType_flat (s0 : St Ext) (sess : Nat) (cidb : Bytes) (conn : Conn) (st : LState)
    (t : Template) (tid symbolType fuel k : Nat) (tname : Name) (junk : Bytes) (dt : DT)
    (hw : ldr_Healthy s0.w sess cidb conn) (hlogix : s0.w.net.target.ext.logix = some st)
    (ht : st.proj.template? tid = some t) (htid : tid < 2 ^ 32) (hsize : 26 ≤ conn.size)
    (hcU : natGet s0.cache.idUdt tid = none) (hcS : natGet s0.cache.idStruct tid = none)
    (hW : t.defWords * 4 - 21 < 65536) (hS : t.size < 2 ^ 32) (hM : t.members.length < 65536) (hH : t.handle < 65536)
    (hwf : Up.WfTemplate t tname junk) (hlen : (templateData t).length ≤ TMPL_FUEL)
    (hflat : ∀ m ∈ t.members, (Up.atomicOfTyp m.typeWord).isSome = true)
    (hsym : symbolType % 4096 = tid % 4096)
    (hdt : dataTypeOf st.proj (k + 1) tid = some dt) :
    ∃ w' conn' j,
      getDataType hookAll (fuel + 1) s0 tid symbolType =
        ({ w := w', l := { s0.l with dataTypes := if s0.l.dataTypes.contains dt.1.name then s0.l.dataTypes
                                                   else s0.l.dataTypes ++ [dt.1.name] },
           cache := { idStruct := natSet s0.cache.idStruct tid (lo_attrsOf t), idUdt := natSet s0.cache.idUdt tid dt } },
         .ok dt) ∧
      ldr_Healthy w' sess cidb conn' ∧ conn'.size = conn.size ∧ lo_SameDrv s0.w.drv w'.drv ∧
      (∃ frms, w'.net.sent = s0.w.net.sent ++ frms) ∧
      w'.net.target.ext = { s0.w.net.target.ext with logix := some { st with ctr := st.ctr + j } } := by
  obtain ⟨w1, hmk, hh1, hd1, ⟨frm, hsent1⟩, hext1⟩ := lo_getStructureMakeup s0 sess cidb conn st t tid hw hlogix ht htid hsize
    hcS (by omega) hS hM hH
  have hlogix1 : w1.net.target.ext.logix = some st := by rw [hext1]; exact hlogix
  obtain ⟨w2, conn', j, hrd, hh2, hcs, hsd, ⟨frms, hsent2⟩, hext2⟩ := lo_readTemplate_from sess cidb t tid TMPL_FUEL w1
    { conn with lastSeq := some s0.w.drv.nextSeq.1 } st 0 [] hh1 hlogix1 ht htid (by show 22 ≤ conn.size; omega) hW
    (lo_templateData_pos t) (by omega)
  rw [List.drop_zero, List.nil_append] at hrd
  have hptd := lo_parseTemplateData_flat st.proj t tid symbolType k tname junk ht hsym hwf hflat
  rw [hdt] at hptd
  refine ⟨w2, conn', j, ?_, hh2, hcs, ?_, ⟨frm :: frms, ?_⟩, ?_⟩
  · rw [getDataType, hcU]
    dsimp only
    rw [hmk]
    dsimp only
    have hrd' : readTemplate hookAll tid (lo_attrsOf t).objectDefinitionSize TMPL_FUEL w1 0 [] = (w2, .ok (templateData t)) := hrd
    rw [hrd']
    dsimp only
    have hch : Up.chunks8 (lo_attrsOf t).memberCount
        ((templateData t).take ((lo_attrsOf t).memberCount * Gen.TEMPLATE_MEMBER_INFO_LEN)) = t.members.map Up.infoBytes := by
      show Up.chunks8 t.members.length ((templateData t).take (t.members.length * 8)) = _
      rw [lo_templateData_infos, lo_chunks8]
    rw [hch, lo_resolve_atomic _ _ t.members hwf.2.2.2 hflat]
    dsimp only
    rw [hptd]
  · exact lo_SameDrv.trans (by rw [hd1]; exact lo_SameDrv.nextSeq s0.w.drv) hsd
  · rw [hsent2, hsent1, List.append_assoc]; rfl
  · rw [hext2, hext1]

end Pycomm.Lgx.Opn
