/-
  C13 at the driver level for ARBITRARY reply bytes, fragmented requests, part 2: what `_send_read_fragmented` makes of
  a list of arbitrary replies (the analysis of the pure function `ldaf_readFragPure`), and the Tag `_send_requests`
  records for it.

    * `ldaf_assembled`: the bytes `final_response.parse_value()` sees — the type bytes of the last reply read, then
      the value bytes of all replies read (`ldaf_assembled_eq`);
    * `ldaf_ReadFragOk`: EVERY reply read has OK status words and the assembled bytes parse;
    * `ldaf_readFragFinal_cases`, `ldaf_readFragPure_cases`: the response object the loop hands back;
    * `ldaf_readFragOutcome`, `ldaf_readFragOutcome_cases`: the Tag of the request — a good table entry for
      `ldaf_ReadFragOk` (`lda_GoodEntry`), or BufferEmptyError / DataError out of `response.error` of the last reply.
-/
import PycommProofs.LDAnyF1
namespace Pycomm.Lgx.Drv
open Pycomm Pycomm.Tgt Pycomm.Path Pycomm.Reply Pycomm.Encap Pycomm.RP

/-- the bytes `final_response.parse_value()` parses: `acc` = value bytes before the replies `raws` -/
def ldaf_assembled : List Bytes → Bytes → Bytes
  | [], acc => acc
  | raw :: more, acc =>
      if ldaf_continues raw then ldaf_assembled more (acc ++ ldaf_valueBytes raw)
      else ldaf_typeBytes raw ++ acc ++ ldaf_valueBytes raw

theorem ldaf_stops_ne_nil (raws : List Bytes) (h : ldaf_stops raws = true) : ldaf_consumed raws ≠ [] := by
  cases raws with
  | nil => cases h
  | cons raw more =>
    have := ldaf_consumed_pos raw more
    intro h0
    rw [h0] at this
    simp at this

/-- … in closed form: the type bytes of the LAST reply read, the bytes before, the value bytes of ALL replies read -/
theorem ldaf_assembled_eq : ∀ (raws : List Bytes) (acc : Bytes), ldaf_stops raws = true →
    ldaf_assembled raws acc =
      ldaf_typeBytes ((ldaf_consumed raws).getLast?.getD []) ++ acc ++ ((ldaf_consumed raws).map ldaf_valueBytes).flatten := by
  intro raws
  induction raws with
  | nil => intro acc h; cases h
  | cons raw more ih =>
    intro acc h
    unfold ldaf_stops at h
    unfold ldaf_assembled ldaf_consumed
    by_cases hc : ldaf_continues raw = true
    · rw [if_pos hc] at h
      rw [if_pos hc, if_pos hc, ih _ h]
      have hne := ldaf_stops_ne_nil more h
      obtain ⟨c, cs, hcs⟩ : ∃ c cs, ldaf_consumed more = c :: cs := by
        cases hcm : ldaf_consumed more with
        | nil => exact absurd hcm hne
        | cons c cs => exact ⟨c, cs, rfl⟩
      rw [hcs, List.getLast?_cons_cons, List.map_cons, List.map_cons, List.flatten_cons, List.flatten_cons,
        List.map_cons, List.flatten_cons]
      simp only [List.append_assoc]
    · rw [if_neg hc, if_neg hc]
      simp

/-- every reply the loop read has OK status words (general status 0, or 6 for the replies before the last: Read Tag
    Fragmented is a service that legitimately continues) and the assembled bytes parse -/
def ldaf_ReadFragOk (req : ReadReq) (raws : List Bytes) : Prop :=
  (∀ raw ∈ ldaf_consumed raws, StatusWordsOk .connected raw) ∧
  ∃ v dt, parseReadReply (ldaf_assembled raws []) req.info req.elements = .ok (v, dt)

theorem ldaf_parseFailed_error (r : Resp) :
    ({ r with p := { r.p with err := some .parseFailed }, valid := false } : Resp).error = .ok (some (.reply .parseFailed)) := by
  simp [Resp.error, errorCip, Except.map]

/-- the exit of the loop on the reply `raw`: `response.error` of `raw` raises (then its status words are not OK), or a
    valid response carrying the parsed value (then everything before was OK, `raw` has OK status words and the bytes
    parse), or a response that is not valid, without value, whose error is the fixed text of the driver or the parse
    failure -/
theorem ldaf_readFragFinal_cases (req : ReadReq) (acc : Bytes) (allOk : Bool) (raw : Bytes) :
    ((ldaf_readFragFinal req acc allOk raw = .error .bufferEmpty ∨ ldaf_readFragFinal req acc allOk raw = .error .data) ∧
      ¬ StatusWordsOk .connected raw) ∨
    ∃ resp v dt, ldaf_readFragFinal req acc allOk raw = .ok (resp, v, dt) ∧
      ((resp.valid = true ∧ resp.error = .ok none ∧ allOk = true ∧ StatusWordsOk .connected raw ∧
          ∃ dt', dt = some dt' ∧
            parseReadReply (ldaf_typeBytes raw ++ acc ++ ldaf_valueBytes raw) req.info req.elements = .ok (v, dt')) ∨
       (resp.valid = false ∧ v = .none ∧ dt = none ∧
          ((resp.error = .ok (some ldaf_fragFailed) ∧ (allOk = false ∨ ¬ StatusWordsOk .connected raw)) ∨
           (resp.error = .ok (some (.reply .parseFailed)) ∧ allOk = true ∧ StatusWordsOk .connected raw ∧
              ∃ err, parseReadReply (ldaf_typeBytes raw ++ acc ++ ldaf_valueBytes raw) req.info req.elements = .error err)))) := by
  unfold ldaf_readFragFinal
  rcases lda_tagResp_cases raw with ⟨hv, hok, he⟩ | ⟨hv, hnok, he⟩
  · rw [he]
    dsimp only
    rw [hv, Bool.and_true]
    cases allOk with
    | false =>
      simp only [Bool.false_eq_true, if_false]
      exact .inr ⟨_, _, _, rfl, .inr ⟨rfl, rfl, rfl, .inl ⟨ldaf_failedResp_error, .inl (by trivial)⟩⟩⟩
    | true =>
      simp only [if_true]
      cases hp : parseReadReply (ldaf_typeBytes raw ++ acc ++ ldaf_valueBytes raw) req.info req.elements with
      | ok x =>
        obtain ⟨v, dt⟩ := x
        exact .inr ⟨_, _, _, rfl, .inl ⟨hv, he, by trivial, hok, dt, rfl, rfl⟩⟩
      | error err =>
        exact .inr ⟨_, _, _, rfl, .inr ⟨rfl, rfl, rfl, .inr ⟨ldaf_parseFailed_error _, by trivial, hok, err, rfl⟩⟩⟩
  · rcases he with ⟨e, he, _⟩ | he | he
    · rw [he]
      dsimp only
      rw [hv, Bool.and_false]
      simp only [Bool.false_eq_true, if_false]
      exact .inr ⟨_, _, _, rfl, .inr ⟨rfl, rfl, rfl, .inl ⟨ldaf_failedResp_error, .inr hnok⟩⟩⟩
    · rw [he]
      exact .inl ⟨.inl rfl, hnok⟩
    · rw [he]
      exact .inl ⟨.inr rfl, hnok⟩

/-- `_send_read_fragmented` over arbitrary replies, with the bytes `acc` and the flag `allOk` of the rounds before -/
theorem ldaf_readFragPure_cases (req : ReadReq) : ∀ (raws : List Bytes) (acc : Bytes) (allOk : Bool)
    (out : Except Exn (Resp × PyVal × Option Name)), ldaf_readFragPure req raws acc allOk = some out →
    ((out = .error .bufferEmpty ∨ out = .error .data) ∧ ∃ raw ∈ ldaf_consumed raws, ¬ StatusWordsOk .connected raw) ∨
    ∃ resp v dt, out = .ok (resp, v, dt) ∧
      ((resp.valid = true ∧ resp.error = .ok none ∧ allOk = true ∧
          (∀ raw ∈ ldaf_consumed raws, StatusWordsOk .connected raw) ∧
          ∃ dt', dt = some dt' ∧ parseReadReply (ldaf_assembled raws acc) req.info req.elements = .ok (v, dt')) ∨
       (resp.valid = false ∧ v = .none ∧ dt = none ∧
          ((resp.error = .ok (some ldaf_fragFailed) ∧
              (allOk = false ∨ ∃ raw ∈ ldaf_consumed raws, ¬ StatusWordsOk .connected raw)) ∨
           (resp.error = .ok (some (.reply .parseFailed)) ∧ allOk = true ∧
              (∀ raw ∈ ldaf_consumed raws, StatusWordsOk .connected raw) ∧
              ∃ err, parseReadReply (ldaf_assembled raws acc) req.info req.elements = .error err)))) := by
  intro raws
  induction raws with
  | nil => intro acc allOk out h; cases h
  | cons raw more ih =>
    intro acc allOk out h
    unfold ldaf_readFragPure at h
    unfold ldaf_consumed ldaf_assembled
    by_cases hc : ldaf_continues raw = true
    · rw [if_pos hc] at h
      rw [if_pos hc, if_pos hc]
      have hvalid : (tagResp (some raw)).valid = true ↔ StatusWordsOk .connected raw := valid_iff .connected raw
      rcases ih _ _ _ h with ⟨he, r', hr', hbad⟩ | ⟨resp, v, dt, ho, hcase⟩
      · exact .inl ⟨he, r', List.mem_cons_of_mem _ hr', hbad⟩
      · refine .inr ⟨resp, v, dt, ho, ?_⟩
        rcases hcase with ⟨h1, h2, h3, h4, h5⟩ | ⟨h1, h2, h3, hwhy⟩
        · rw [Bool.and_eq_true] at h3
          refine .inl ⟨h1, h2, h3.1, ?_, h5⟩
          intro r' hr'
          rcases List.mem_cons.1 hr' with rfl | hr'
          · exact hvalid.1 h3.2
          · exact h4 r' hr'
        · refine .inr ⟨h1, h2, h3, ?_⟩
          rcases hwhy with ⟨h4, h5⟩ | ⟨h4, h5, h6, h7⟩
          · refine .inl ⟨h4, ?_⟩
            rcases h5 with h5 | ⟨r', hr', hbad⟩
            · rw [Bool.and_eq_false_iff] at h5
              rcases h5 with h5 | h5
              · exact .inl h5
              · refine .inr ⟨raw, List.mem_cons_self, fun hok => ?_⟩
                rw [hvalid.2 hok] at h5
                cases h5
            · exact .inr ⟨r', List.mem_cons_of_mem _ hr', hbad⟩
          · rw [Bool.and_eq_true] at h5
            refine .inr ⟨h4, h5.1, ?_, h7⟩
            intro r' hr'
            rcases List.mem_cons.1 hr' with rfl | hr'
            · exact hvalid.1 h5.2
            · exact h6 r' hr'
    · rw [if_neg hc] at h
      rw [if_neg hc, if_neg hc]
      cases h
      rcases ldaf_readFragFinal_cases req acc allOk raw with ⟨he, hbad⟩ | ⟨resp, v, dt, ho, hcase⟩
      · exact .inl ⟨he, raw, List.mem_singleton.2 rfl, hbad⟩
      · refine .inr ⟨resp, v, dt, ho, ?_⟩
        rcases hcase with ⟨h1, h2, h3, h4, h5⟩ | ⟨h1, h2, h3, hwhy⟩
        · exact .inl ⟨h1, h2, h3, fun r' hr' => by rw [List.mem_singleton.1 hr']; exact h4, h5⟩
        · refine .inr ⟨h1, h2, h3, ?_⟩
          rcases hwhy with ⟨h4, h5⟩ | ⟨h4, h5, h6, h7⟩
          · refine .inl ⟨h4, ?_⟩
            rcases h5 with h5 | h5
            · exact .inl h5
            · exact .inr ⟨raw, List.mem_singleton.2 rfl, h5⟩
          · exact .inr ⟨h4, h5, fun r' hr' => by rw [List.mem_singleton.1 hr']; exact h6, h7⟩

/-! ### the Tag `_send_requests` records for a fragmented read answered by arbitrary replies -/

/-- the Tag of a Read Tag Fragmented request `req` whose rounds are answered by `raws` (the loop, then `readTag`);
    `none` = the replies given do not end the loop -/
def ldaf_readFragOutcome (req : ReadReq) (raws : List Bytes) : Option (Except Exn LTag) :=
  (ldaf_readFragPure req raws [] true).map fun out =>
    match out with
    | .error e => .error e
    | .ok (resp, v, dt) => readTag req resp v dt

/-- a fragmented read answered by arbitrary replies: `response.error` of the last reply raises BufferEmptyError /
    DataError (then that reply's status words are not OK), or the Tag is named after the request and
      * has no error — then EVERY reply read had OK status words and the Tag carries the value parsed from the
        assembled bytes, with its type string —, or
      * has no value and no type and its error is the driver's text "One or more fragment responses failed" (exactly
        when some reply read had bad status words) or the parse failure (all status words OK, the assembled bytes do not
        parse) -/
theorem ldaf_readFragOutcome_cases (req : ReadReq) (raws : List Bytes) (o : Except Exn LTag)
    (h : ldaf_readFragOutcome req raws = some o) :
    ((o = .error .bufferEmpty ∨ o = .error .data) ∧ ∃ raw ∈ ldaf_consumed raws, ¬ StatusWordsOk .connected raw) ∨
    ∃ t, o = .ok t ∧ t.tag = req.tag ∧
      ((t.error = none ∧ (∀ raw ∈ ldaf_consumed raws, StatusWordsOk .connected raw) ∧
          ∃ dt, parseReadReply (ldaf_assembled raws []) req.info req.elements = .ok (t.value, dt) ∧ t.type = some dt) ∨
       (t.value = .none ∧ t.type = none ∧
          ((t.error = some ldaf_fragFailed ∧ ∃ raw ∈ ldaf_consumed raws, ¬ StatusWordsOk .connected raw) ∨
           (t.error = some (.reply .parseFailed) ∧ (∀ raw ∈ ldaf_consumed raws, StatusWordsOk .connected raw) ∧
              ∃ err, parseReadReply (ldaf_assembled raws []) req.info req.elements = .error err)))) := by
  unfold ldaf_readFragOutcome at h
  cases hp : ldaf_readFragPure req raws [] true with
  | none => rw [hp] at h; cases h
  | some out =>
    rw [hp] at h
    simp only [Option.map_some, Option.some.injEq] at h
    subst h
    rcases ldaf_readFragPure_cases req raws [] true out hp with ⟨he, hbad⟩ | ⟨resp, v, dt, ho, hcase⟩
    · rcases he with rfl | rfl
      · exact .inl ⟨.inl rfl, hbad⟩
      · exact .inl ⟨.inr rfl, hbad⟩
    · subst ho
      dsimp only
      unfold readTag
      rcases hcase with ⟨h1, h2, _, h4, dt', rfl, h5⟩ | ⟨h1, rfl, rfl, hwhy⟩
      · rw [h2]
        dsimp only
        rw [h1]
        exact .inr ⟨_, rfl, rfl, .inl ⟨rfl, h4, dt', h5, rfl⟩⟩
      · rcases hwhy with ⟨h4, h5⟩ | ⟨h4, _, h6, h7⟩
        · rw [h4]
          dsimp only
          rw [h1]
          refine .inr ⟨_, rfl, rfl, .inr ⟨rfl, rfl, .inl ⟨rfl, ?_⟩⟩⟩
          rcases h5 with h5 | h5
          · cases h5
          · exact h5
        · rw [h4]
          dsimp only
          rw [h1]
          exact .inr ⟨_, rfl, rfl, .inr ⟨rfl, rfl, .inr ⟨rfl, h6, h7⟩⟩⟩

/-- … hence a good table entry for the claim `ldaf_ReadFragOk` -/
theorem ldaf_readFragOutcome_good (req : ReadReq) (raws : List Bytes) (t : LTag)
    (h : ldaf_readFragOutcome req raws = some (.ok t)) : lda_GoodEntry (ldaf_ReadFragOk req raws) t := by
  rcases ldaf_readFragOutcome_cases req raws _ h with ⟨he, _⟩ | ⟨t', ht, _, hcase⟩
  · rcases he with he | he <;> cases he
  · cases ht
    rcases hcase with ⟨h1, h2, dt, h3, _⟩ | ⟨h1, _, hwhy⟩
    · exact .inl ⟨h1, ⟨h2, _, _, h3⟩, lda_parseReadReply_solid _ _ _ _ _ h3⟩
    · rcases hwhy with ⟨h2, _⟩ | ⟨h2, _⟩
      · exact .inr ⟨_, h2, ldaf_fragFailed_text, h1⟩
      · exact .inr ⟨_, h2, trivial, h1⟩

end Pycomm.Lgx.Drv
