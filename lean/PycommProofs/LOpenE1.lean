/-
  LogixDriver.open(), end to end, part 1: `CIPDriver.open()` on a closed driver (RegisterSession, as an equation on the
  whole world) and one direct (UCMM) `generic_message` whose route is given as bytes — the transport of the Forward Open —
  for an arbitrary fuel.
-/
import PycommProofs.GMe2eCore
import PycommProofs.LCBasic
namespace Pycomm.Cli
open Pycomm.Tgt Pycomm.Encap Pycomm.Path Pycomm.Reply Pycomm.EN Pycomm.EP

/-! ### RegisterSession -/

/-- the target on a well-formed RegisterSession request, when it accepts sessions: the whole new state -/
theorem loe_handle_register {σ} (hook : ObjHook σ) (t : Target σ) (raw c : Bytes)
    (hp : parseFrame raw = some { command := CMD_REGISTER, session := 0, status := 0, context := c, options := 0,
                                  body := [1, 0, 0, 0] })
    (hpol : t.base.policy.sessionOk = true) :
    handle hook t raw =
      ({ t with base := { t.base with sessions := t.base.sessions ++ [t.base.nextSession],
                                      nextSession := nextHandle t.base.nextSession }.event
                          (.encap CMD_REGISTER t.base.nextSession true) },
       some (frame CMD_REGISTER t.base.nextSession 0 c [1, 0, 0, 0])) := by
  unfold handle
  rw [hp]
  simp only [hpol]
  rw [if_neg (by simp), if_pos trivial, if_neg (by simp), if_neg (by simp), if_neg (by simp)]

/-- the world after `CIPDriver.open()` registered session `s` with frame `frm` -/
def loe_opened {σ} (w : World σ) (rnd frm : Bytes) : World σ :=
  { drv := { w.drv with hasSock := true, connectionOpened := true, cid := rnd.take 4, vsn := (rnd.drop 4).take 4,
                        session := some w.net.target.base.nextSession },
    net := { w.net with
      tcpOpen := true, nSend := w.net.nSend + 1, nRecv := w.net.nRecv + 1, sent := w.net.sent ++ [frm], pending := [],
      target := { w.net.target with
        base := { w.net.target.base with sessions := w.net.target.base.sessions ++ [w.net.target.base.nextSession],
                                         nextSession := nextHandle w.net.target.base.nextSession }.event
                  (.encap CMD_REGISTER w.net.target.base.nextSession true) } } }

/-- `CIPDriver.open()` on a closed driver, healthy transport, target accepting sessions: one frame (RegisterSession),
    the handle the target grants is stored; everything else is as before -/
theorem loe_openDrv {σ} (hook : ObjHook σ) (w : World σ) (rnd : Bytes)
    (h1 : w.drv.connectionOpened = false) (h2 : w.drv.session = some 0) (h3 : w.drv.hasSock = false)
    (hc : w.drv.context.length = 8) (ho : w.drv.option = 0) (hf : w.net.faults = [])
    (hpol : w.net.target.base.policy.sessionOk = true) (hns : w.net.target.base.nextSession < 2 ^ 32) :
    ∃ frm, openDrv hook w rnd = (loe_opened w rnd frm, .ok true) := by
  obtain ⟨w1, hw1⟩ : ∃ w1 : World σ, w1 =
      { drv := { w.drv with hasSock := true, connectionOpened := true, cid := rnd.take 4, vsn := (rnd.drop 4).take 4 },
        net := { w.net with tcpOpen := true, pending := [] } } := ⟨_, rfl⟩
  replace hw1 := hw1.symm
  have g2 : w1.drv.session = some 0 := by rw [← hw1]; exact h2
  have gc : w1.drv.context.length = 8 := by rw [← hw1]; exact hc
  have go : w1.drv.option = 0 := by rw [← hw1]; exact ho
  obtain ⟨frm, hb⟩ := lc_build_register w1.drv.ctx g2 go
  obtain ⟨s, common, hs', hco, _, hp⟩ := parse_built _ w1.drv.ctx frm gc hb
  have hs0 : s = 0 := by
    have : w1.drv.ctx.session = some 0 := g2
    rw [this] at hs'; cases hs'; rfl
  subst hs0
  have hco' : common = [1, 0, 0, 0] := hco
  subst hco'
  have ho' : w1.drv.ctx.option = 0 := go
  rw [ho'] at hp
  have hh := loe_handle_register hook w1.net.target frm w1.drv.ctx.context hp (by rw [← hw1]; exact hpol)
  have hsend := gme_sendReq_eq hook w1 _ frm _ _ (by rw [← hw1]) (by rw [← hw1]; exact hf) (by rw [← hw1]) hb hh
  obtain ⟨v1, v2⟩ := lc_parseRegister_reply w1.net.target.base.nextSession w1.drv.ctx.context [1, 0, 0, 0]
    (by rw [← hw1]; exact hns)
  refine ⟨frm, ?_⟩
  unfold openDrv
  simp only [h1, h3, Bool.false_eq_true, if_false]
  rw [hw1]
  unfold registerSession
  rw [g2]
  simp only [ne_eq, not_true_eq_false, if_false]
  rw [hsend]
  simp only [v1, v2, if_true]
  subst hw1
  rfl

/-- the opened world holds a registered session -/
theorem loe_opened_session {σ} (w : World σ) (rnd frm : Bytes)
    (hc : w.drv.context.length = 8) (ho : w.drv.option = 0) (hf : w.net.faults = [])
    (hns : w.net.target.base.nextSession < 2 ^ 32) :
    gme_Session (loe_opened w rnd frm) w.net.target.base.nextSession :=
  { sock := rfl, ctx8 := hc, opt0 := ho, session := rfl, session32 := hns,
    sessionReg := by
      show w.net.target.base.nextSession ∈ w.net.target.base.sessions ++ [w.net.target.base.nextSession]
      simp,
    pend := rfl, faults := hf }

/-! ### a direct UCMM `generic_message` with the route given as bytes (the Forward Open), any fuel -/

/-- `generic_message(connected=False, unconnected_send=False, route_path=<bytes>)` on a registered session, whole stack,
    any object, ANY fuel ≥ 1: exactly one frame — a SendRRData carrying the request followed by the route bytes, which
    the target's message router reads as request data -/
theorem loe_direct_bytes {σ} (hook : ObjHook σ) (fuel : Nat) (w : World σ) (sess : Nat) (a : GenArgs) (c i : Nat)
    (oa : Option Nat) (rb : Bytes)
    (hw : gme_Session w sess) (hconn : a.connected = false) (hu : a.unconnectedSend = false) (hroute : a.route = .bytes rb)
    (hsvc : a.service < 256) (hcls : gme_Id a.cls c) (hinst : gme_Id a.inst i) (hattr : gme_AttrId a.attr oa)
    (hnot : ¬ (a.service = 0x52 ∧ c = 6 ∧ i = 1 ∧ oa = none)) (hbig : a.data.length + rb.length ≤ 65000) :
    ∃ frm value err,
      genericMessage hook (fuel + 1) w a =
        (gme_after w w.drv frm
          (gme_dispatch hook
            (gme_rrIn w.net.target sess false { service := a.service, path := gme_wantPath c i oa, data := a.data ++ rb } [])
            sess none false { service := a.service, path := gme_wantPath c i oa, data := a.data ++ rb }).1,
         .ok { name := a.name, value := value, error := err }) ∧
      gme_TagOf .unconnected a.service
        (gme_dispatch hook
          (gme_rrIn w.net.target sess false { service := a.service, path := gme_wantPath c i oa, data := a.data ++ rb } [])
          sess none false { service := a.service, path := gme_wantPath c i oa, data := a.data ++ rb }).2
        a.dataType value err := by
  obtain ⟨rp, hrp, hrpl, hpm⟩ := gme_request_delivered a.service a.cls a.inst a.attr c i oa (a.data ++ rb) hsvc hcls hinst hattr
  have hml : ([UInt8.ofNat a.service] ++ rp ++ (a.data ++ rb)).length = 1 + rp.length + (a.data.length + rb.length) := by
    simp; omega
  have hucs := gme_isUcs_none _ _ c i oa hpm rfl hnot
  obtain ⟨frm, f, hb, hf, hcmd, hfs, hcpf, hsend⟩ := gme_sendRR_direct hook w sess ([UInt8.ofNat a.service] ++ rp ++ (a.data ++ rb)) hw
    (by omega) hucs
  rw [gme_execMR_eq hook _ sess none false false [] _ _ hpm] at hsend
  generalize hD : gme_dispatch hook
      { base := (w.net.target.base.event (.encap CMD_SEND_RR sess true)).event
          (.mr false false { service := a.service, path := gme_wantPath c i oa, data := a.data ++ rb } []),
        ext := w.net.target.ext } sess none false
      { service := a.service, path := gme_wantPath c i oa, data := a.data ++ rb } = D at hsend
  have hD' : gme_dispatch hook
      (gme_rrIn w.net.target sess false { service := a.service, path := gme_wantPath c i oa, data := a.data ++ rb } [])
      sess none false { service := a.service, path := gme_wantPath c i oa, data := a.data ++ rb } = D := hD
  rw [hD']
  have hr : gme_route w.drv a.route = .ok rb := by rw [hroute]; rfl
  have hgm := gme_gm_direct hook fuel w a hconn hu rp rb hrp hr
  have hassoc : [UInt8.ofNat a.service] ++ rp ++ a.data ++ rb = [UInt8.ofNat a.service] ++ rp ++ (a.data ++ rb) := by
    simp
  rw [hassoc] at hgm
  dsimp only at hsend
  rw [hsend] at hgm
  obtain ⟨err, herr, htag⟩ := gme_reply .unconnected a.service sess 0 0 w.drv.context D.2 a.dataType hw.ctx8 _ rfl
  dsimp only at herr htag
  rw [gme_finish_ok a .unconnected _ _ err herr] at hgm
  exact ⟨frm, _, err, hgm, htag⟩

end Pycomm.Cli
