/-
  The mutual induction behind the C06 round-trip theorems.
-/
import PycommProofs.RTLemmas
import PycommProofs.RTExt
namespace Pycomm.RT
open Pycomm

/-- dict lookup in member order agrees with positional encoding -/
theorem membersDict_eq_seq : (ms : Members) → (kvs pre : List (Name × PyVal)) → CanonMembers ms kvs →
    (∀ p ∈ pre, some p.1 ∉ ms.names) →
    encodeMembersDict ms (pre ++ kvs) = encodeMembersSeq ms (kvs.map (·.2))
  | .nil, kvs, pre, _, _ => by simp [encodeMembersDict, encodeMembersSeq]
  | .cons none t rest, kvs, pre, h, _ => by simp [CanonMembers] at h
  | .cons (some nm) t rest, [], pre, h, _ => by simp [CanonMembers] at h
  | .cons (some nm) t rest, (k, v) :: kvs, pre, h, hpre => by
    simp only [CanonMembers] at h
    obtain ⟨rfl, hne, hfresh, _, hrest⟩ := h
    have hg : dictGet (pre ++ (k, v) :: kvs) k = some v := by
      apply dictGet_fresh
      intro a ha e
      have := hpre a ha
      simp [Members.names, e] at this
    have ih := membersDict_eq_seq rest kvs (pre ++ [(k, v)]) hrest (by
      intro p hp
      simp only [List.mem_append, List.mem_singleton] at hp
      rcases hp with hp | rfl
      · have := hpre p hp
        simp only [Members.names, List.mem_cons, not_or] at this
        exact this.2
      · exact hfresh)
    simp only [List.append_assoc, List.singleton_append] at ih
    simp only [encodeMembersDict, encodeMembersSeq, List.map_cons, hg, ih]

/-- round trip, plus: a positive-width type encodes to at least one byte and raises BufferEmptyError
    on an empty buffer; any other type (in the canonical fragment) encodes to nothing -/
def Full (t : Ty) (v : PyVal) : Prop :=
  ∃ bs, encode t v = .ok bs ∧ (∀ rest, decode t (bs ++ rest) = .ok (v, rest)) ∧
    (PosWidth t → bs ≠ [] ∧ decode t [] = .error .bufferEmpty) ∧ (¬ PosWidth t → bs = [])

theorem Leaf.full {t v} (h : Leaf t v) (hp : PosWidth t) : Full t v :=
  let ⟨bs, a, b, c, d⟩ := h; ⟨bs, a, b, fun _ => ⟨c, d⟩, fun hn => absurd hp hn⟩

theorem list_full (P : Prop) (f : PyVal → R Bytes) (g : Bytes → R (PyVal × Bytes)) (vs : List PyVal)
    (h : ∀ x ∈ vs, ∃ bs, f x = .ok bs ∧ (∀ rest, g (bs ++ rest) = .ok (x, rest)) ∧
      (P → bs ≠ []) ∧ (¬ P → bs = [])) :
    ∃ bs, encodeList f vs = .ok bs ∧ (∀ rest, decodeN g vs.length (bs ++ rest) = .ok (vs, rest)) ∧
      (P → vs ≠ [] → bs ≠ []) ∧ (¬ P → bs = []) := by
  induction vs with
  | nil => exact ⟨[], rfl, fun rest => rfl, fun _ h => absurd rfl h, fun _ => rfl⟩
  | cons x xs ih =>
    obtain ⟨a, ha, hda, hpa, hna⟩ := h x (List.mem_cons_self)
    obtain ⟨r, hr, hdr, _, hnr⟩ := ih (fun y hy => h y (List.mem_cons_of_mem _ hy))
    refine ⟨a ++ r, ?_, ?_, ?_, ?_⟩
    · simp [encodeList, ha, hr, bind, Except.bind]
    · intro rest
      simp [decodeN, List.append_assoc, hda, hdr, bind, Except.bind]
    · intro hp _
      have := hpa hp
      simp [this]
    · intro hn
      simp [hna hn, hnr hn]

theorem decodeN_nil (g : Bytes → R (PyVal × Bytes)) (n : Nat) (hn : 0 < n)
    (h : g [] = .error .bufferEmpty) : decodeN g n [] = .error .bufferEmpty := by
  cases n with
  | zero => omega
  | succ n => simp only [decodeN, h]; rfl

mutual
theorem full : (t : Ty) → (v : PyVal) → Canon t v → Full t v
  | .bool, v, h => (leaf_bool v h).full (by simp [PosWidth])
  | .int k, v, h => (leaf_int k v h).full (by simp [PosWidth])
  | .real, v, h => (leaf_real v h).full (by simp [PosWidth])
  | .lreal, v, h => (leaf_lreal v h).full (by simp [PosWidth])
  | .dateAndTime, v, h => (leaf_dt v h).full (by simp [PosWidth])
  | .str lenK enc, v, h => (leaf_str lenK enc v h).full (by simp [PosWidth])
  | .stringN c, v, h => (rtx_leaf_stringN c v h).full (by simp [PosWidth])
  | .stringI, _, h => by simp [Canon] at h
  | .bits k, v, h => (leaf_bits k v h).full (by simp [PosWidth])
  | .nbytes n, v, h => (leaf_nbytes n v h).full (by
      obtain ⟨bs, _, hn, _⟩ := h
      simp only [PosWidth]; omega)
  | .arr (.fixed n) t, v, h => by
    simp only [Canon] at h
    obtain ⟨vs, rfl, hlen, hb, hall⟩ := h
    obtain ⟨bs, he, hd, hp, hnp⟩ := list_full (PosWidth t) (encode t) (decode t) vs (fun x hx => by
      obtain ⟨bs, h1, h2, h3, h4⟩ := full t x (hall x hx)
      exact ⟨bs, h1, h2, fun p => (h3 p).1, h4⟩)
    subst hlen
    refine ⟨bs, ?_, ?_, ?_, ?_⟩
    · simp [encode, PyVal.len?, PyVal.seq?, hb, encodeList_argOf_canon t vs hall, he]
    · intro rest
      simp [decode, hd rest, hb]
    · simp only [PosWidth]
      intro ⟨hn, hpt⟩
      have hne : vs ≠ [] := by intro e; subst e; simp at hn
      refine ⟨hp hpt hne, ?_⟩
      obtain ⟨x, hx⟩ := List.exists_mem_of_ne_nil vs hne
      obtain ⟨_, _, _, h3, _⟩ := full t x (hall x hx)
      simp only [decode, decodeN_nil (decode t) vs.length hn (h3 hpt).2]
    · simp only [PosWidth]
      intro hn
      by_cases hpt : PosWidth t
      · have : vs = [] := by
          cases vs with
          | nil => rfl
          | cons _ _ => exact absurd ⟨by simp, hpt⟩ hn
        subst this
        simpa [encodeList] using he.symm
      · exact hnp hpt
  | .arr (.pref _) _, _, h => by simp [Canon] at h
  | .arr .all _, _, h => by simp [Canon] at h
  | .struct ms, v, h => by
    simp only [Canon] at h
    obtain ⟨kvs, rfl, hm⟩ := h
    obtain ⟨bs, he, hd, hp, hnp⟩ := fullm ms kvs hm
    have heq := membersDict_eq_seq ms kvs [] hm (by simp)
    simp only [List.nil_append] at heq
    refine ⟨bs, ?_, ?_, ?_, ?_⟩
    · simp only [encode, heq, he]
    · intro rest
      have := hd rest [] (by simp)
      simp only [decode, this, List.nil_append]
    · simp only [PosWidth]
      intro hpm
      refine ⟨(hp hpm).1, ?_⟩
      simp only [decode, (hp hpm).2 []]
    · simpa only [PosWidth] using hnp
  | .fixedStr size lenK, v, h => (leaf_fixedStr size lenK v h).full (by simp [PosWidth])
  | .structTag _ _ _ _, _, h => by simp [Canon] at h
  | .ipAddr, v, h => (rtx_leaf_ip v h).full (by simp [PosWidth])
theorem fullm : (ms : Members) → (kvs : List (Name × PyVal)) → CanonMembers ms kvs →
    ∃ bs, encodeMembersSeq ms (kvs.map (·.2)) = .ok bs ∧
      (∀ rest acc, (∀ a ∈ acc, some a.1 ∉ ms.names) →
        decodeMembers ms (bs ++ rest) acc = .ok (acc ++ kvs, rest)) ∧
      (PosWidthMembers ms → bs ≠ [] ∧ ∀ acc, decodeMembers ms [] acc = .error .bufferEmpty) ∧
      (¬ PosWidthMembers ms → bs = [])
  | .nil, kvs, h => by
    simp only [CanonMembers] at h
    subst h
    exact ⟨[], by simp [encodeMembersSeq], by intro rest acc _; simp [decodeMembers],
      by simp [PosWidthMembers], fun _ => rfl⟩
  | .cons none t rest, kvs, h => by simp [CanonMembers] at h
  | .cons (some nm) t rest, [], h => by simp [CanonMembers] at h
  | .cons (some nm) t rest, (k, v) :: kvs, h => by
    simp only [CanonMembers] at h
    obtain ⟨rfl, hne, hfresh, hc, hrest⟩ := h
    obtain ⟨a, ha, hda, hpa, hna⟩ := full t v hc
    obtain ⟨r, hr, hdr, hpr, hnr⟩ := fullm rest kvs hrest
    have hemp : k.isEmpty = false := by
      cases k with
      | nil => exact absurd rfl hne
      | cons _ _ => rfl
    refine ⟨a ++ r, ?_, ?_, ?_, ?_⟩
    · simp [encodeMembersSeq, argOf_of_canon t v hc, ha, hr, bind, Except.bind]
    · intro rest' acc hacc
      have hset : dictSet acc k v = acc ++ [(k, v)] := by
        apply dictSet_fresh
        intro x hx e
        have := hacc x hx
        simp [Members.names, e] at this
      have := hdr rest' (acc ++ [(k, v)]) (by
        intro p hp
        simp only [List.mem_append, List.mem_singleton] at hp
        rcases hp with hp | rfl
        · have := hacc p hp
          simp only [Members.names, List.mem_cons, not_or] at this
          exact this.2
        · exact hfresh)
      simp only [decodeMembers, List.append_assoc, hda, bind, Except.bind, hemp, hset, this]
      simp
    · simp only [PosWidthMembers]
      intro hor
      by_cases hpt : PosWidth t
      · obtain ⟨h1, h2⟩ := hpa hpt
        refine ⟨by simp [h1], ?_⟩
        intro acc
        simp only [decodeMembers, h2]; rfl
      · have hpm : PosWidthMembers rest := hor.resolve_left hpt
        obtain ⟨h1, h2⟩ := hpr hpm
        have ha0 := hna hpt
        subst ha0
        refine ⟨by simp [h1], ?_⟩
        intro acc
        have := hda []
        simp only [List.append_nil] at this
        simp only [decodeMembers, this, bind, Except.bind, hemp, h2]
        simp
    · simp only [PosWidthMembers, not_or]
      intro ⟨h1, h2⟩
      simp [hna h1, hnr h2]
end

theorem encodeList_len (f : PyVal → R Bytes) (vs : List PyVal)
    (h : ∀ x ∈ vs, ∀ a, f x = .ok a → a ≠ []) :
    ∀ bs, encodeList f vs = .ok bs → vs.length ≤ bs.length := by
  induction vs with
  | nil => intro bs _; simp
  | cons x xs ih =>
    intro bs hb
    simp only [encodeList, bind, Except.bind] at hb
    split at hb
    · cases hb
    · rename_i a ha
      split at hb
      · cases hb
      · rename_i r hr
        cases hb
        have h1 := h x (List.mem_cons_self) a ha
        have h2 := ih (fun y hy => h y (List.mem_cons_of_mem _ hy)) r hr
        have : 1 ≤ a.length := by
          cases a with
          | nil => exact absurd rfl h1
          | cons _ _ => simp
        simp; omega

end Pycomm.RT
