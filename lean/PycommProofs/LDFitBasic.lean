/-
  Helper lemmas for C04 at the level of the Logix driver model (LogixDriverFit.lean), part 1:
  lengths of the request messages, bounds on the request path, sums over request lists.
-/
import PycommProofs.LDShape
import PycommProofs.LogixPlanProofs
import PycommProofs.LBMulti
import PycommProofs.EPBasic
namespace Pycomm.Lgx.Drv
open Pycomm.Tgt Pycomm.Path Pycomm.Reply

/-! ### lengths of the messages -/

theorem ldf_le_length (w n : Nat) : (le w n).length = w := EN.leBytes_length w n

theorem ldf_readMsg_length (path : Bytes) (n : Nat) : (Cl.readMsg path n).length = path.length + 3 := by
  simp only [Cl.readMsg, List.length_append, ldf_le_length, List.length_cons, List.length_nil]; omega

theorem ldf_readFragMsg_length (path : Bytes) (n off : Nat) : (Cl.readFragMsg path n off).length = path.length + 7 := by
  simp only [Cl.readFragMsg, List.length_append, ldf_le_length, List.length_cons, List.length_nil]; omega

theorem ldf_writeMsg_length (path ty : Bytes) (n : Nat) (v : Bytes) :
    (Cl.writeMsg path ty n v).length = 1 + path.length + ty.length + 2 + v.length := by
  simp only [Cl.writeMsg, List.length_append, ldf_le_length, List.length_cons, List.length_nil]

theorem ldf_writeFragMsg_length (path ty : Bytes) (n off : Nat) (v : Bytes) :
    (Cl.writeFragMsg path ty n off v).length = 1 + path.length + ty.length + 2 + 4 + v.length := by
  simp only [Cl.writeFragMsg, List.length_append, ldf_le_length, List.length_cons, List.length_nil]

theorem ldf_maskBytes_length (w m : Nat) : (K.maskBytes w m).length = min w 8 := by
  simp only [K.maskBytes, List.length_take, EN.leBytes_length]

theorem ldf_rmwMsg_length (path : Bytes) (size : Nat) (m : K.Masks) :
    (Cl.rmwMsg path size m).length = 1 + path.length + 2 + 2 * min size 8 := by
  simp only [Cl.rmwMsg, List.length_append, ldf_le_length, ldf_maskBytes_length, List.length_cons, List.length_nil]
  omega

theorem ldf_flatten_le2_length (xs : List Nat) : ((xs.map (leBytes 2)).flatten).length = 2 * xs.length := by
  rw [LB.flatten_chunks_length 2 _ (by
    intro x hx
    obtain ⟨y, _, rfl⟩ := List.mem_map.1 hx
    exact EN.leBytes_length 2 y)]
  simp

theorem ldf_packMulti_length (msgs : List Bytes) :
    (K.packMulti msgs).length = 2 + 2 * msgs.length + (msgs.map (·.length)).sum := by
  unfold K.packMulti
  dsimp only
  rw [List.length_append, List.length_append, EN.leBytes_length, ldf_flatten_le2_length, List.length_map,
    List.length_range, List.length_flatten]

/-- the multi-service request: service, class 2 / instance 1 path with its word count (6 bytes), count (2),
    one offset (2) per message, the messages -/
theorem ldf_multiMsg_length (msgs : List Bytes) :
    (Cl.multiMsg msgs).length = 8 + ((msgs.map fun m => 2 + m.length)).sum := by
  have h : ∀ l : List Bytes, ((l.map fun m => 2 + m.length)).sum = 2 * l.length + (l.map (·.length)).sum := by
    intro l
    induction l with
    | nil => rfl
    | cons a t ih => simp only [List.map_cons, List.sum_cons, List.length_cons, ih]; omega
  simp only [Cl.multiMsg, List.length_append, ldf_packMulti_length, List.length_cons, List.length_nil, h]
  omega

theorem ldf_ReadReq_messageLen (r : ReadReq) : r.messageLen = r.path.length + 5 := by
  simp only [ReadReq.messageLen, ldf_readMsg_length]; omega

theorem ldf_WriteReq_messageLen (r : WriteReq) :
    r.messageLen = 2 + (1 + r.path.length + r.typeBytes.length + 2 + r.value.length) := by
  simp only [WriteReq.messageLen, ldf_writeMsg_length]

/-! ### the request path: word count byte + at least one segment, at most 255 words -/

theorem ldf_encLogical_len (v : LVal) (t : Name) (p : Bool) (a : Bytes) (h : encLogical v t p = .ok a) : 1 ≤ a.length := by
  unfold encLogical at h
  split at h
  · cases h
  · dsimp only at h
    split at h
    · cases h
    · split at h
      · cases h
      · simp only [Except.ok.injEq] at h
        subst h
        split <;> simp

theorem ldf_encDataStr_len (s : Name) (a : Bytes) (h : encDataStr s = .ok a) : 2 ≤ a.length := by
  unfold encDataStr at h
  split at h
  · cases h
  · split at h
    · next a' l' ha hl =>
      simp only [Except.ok.injEq] at h
      subst h
      obtain ⟨_, _, rfl⟩ := EP.usint_ok_inv _ _ ha
      obtain ⟨_, _, rfl⟩ := EP.usint_ok_inv _ _ hl
      simp
    · cases h

theorem ldf_encSegs_cons (p : Bool) (s : Seg) (rest : List Seg) (bs : Bytes) (h : encSegs p (s :: rest) = .ok bs) :
    ∃ a r, encSeg p s = .ok a ∧ encSegs p rest = .ok r ∧ bs = a ++ r := by
  rw [encSegs] at h
  cases ha : encSeg p s with
  | error e => rw [ha] at h; cases h
  | ok a =>
    cases hr : encSegs p rest with
    | error e => rw [ha, hr] at h; cases h
    | ok r =>
      rw [ha, hr] at h
      exact ⟨a, r, rfl, rfl, by cases h; rfl⟩

/-- a built tag request path has at least 3 bytes (word count + one segment of two bytes or more) and at most 512
    (the word count is a USINT; the model keeps the byte `USINT.encode(len // 2)`, the path itself is ≤ 511 bytes) -/
theorem ldf_tagRequestPath_len (tag : Name) (inst : Option Nat) (useIds : Bool) (bs : Bytes)
    (h : tagRequestPath tag inst useIds = .ok (some bs)) : 3 ≤ bs.length ∧ bs.length ≤ 512 := by
  unfold tagRequestPath at h
  split at h
  · cases h
  · next base attrs _ =>
    dsimp only at h
    split at h
    · cases h
    · cases h
    · next is as _ _ =>
      split at h
      · next out henc =>
        simp only [Except.ok.injEq, Option.some.injEq] at h
        subst h
        unfold encEpath at henc
        split at henc
        · cases henc
        · next path hsegs =>
          simp only [if_true] at henc
          split at henc
          · next l hl =>
            simp only [Except.ok.injEq] at henc
            subst henc
            obtain ⟨_, hle, rfl⟩ := EP.usint_ok_inv _ _ hl
            have hlow : 2 ≤ path.length := by
              split at hsegs
              · -- symbol instance addressing
                simp only [List.cons_append, List.nil_append] at hsegs
                obtain ⟨a, r, ha, hr, rfl⟩ := ldf_encSegs_cons _ _ _ _ hsegs
                obtain ⟨a2, r2, ha2, _, rfl⟩ := ldf_encSegs_cons _ _ _ _ hr
                simp only [encSeg] at ha ha2
                have h1 := ldf_encLogical_len _ _ _ _ ha
                have h2 := ldf_encLogical_len _ _ _ _ ha2
                simp only [List.length_append]; omega
              · simp only [List.cons_append, List.nil_append] at hsegs
                obtain ⟨a, r, ha, _, rfl⟩ := ldf_encSegs_cons _ _ _ _ hsegs
                simp only [encSeg] at ha
                have h1 := ldf_encDataStr_len _ _ ha
                simp only [List.length_append]; omega
            simp only [Bool.false_eq_true, if_false, List.append_nil, List.length_append, List.length_cons,
              List.length_nil]
            omega
          · cases henc
      · cases h

theorem ldf_requestPathOf_len (cfg : Cfg) (tag : Name) (info : TagInfo) (path : Bytes)
    (h : requestPathOf cfg tag info = .ok path) : 3 ≤ path.length ∧ path.length ≤ 512 := by
  unfold requestPathOf at h
  split at h
  · cases h
  · cases h
  · next p hp =>
    cases h
    exact ldf_tagRequestPath_len _ _ _ _ hp

/-! ### sums -/

theorem ldf_sum_map_le {α} (l : List α) (f g : α → Nat) (h : ∀ x ∈ l, f x ≤ g x) : (l.map f).sum ≤ (l.map g).sum := by
  induction l with
  | nil => simp
  | cons a t ih =>
    simp only [List.map_cons, List.sum_cons]
    have := h a List.mem_cons_self
    have := ih (fun x hx => h x (List.mem_cons_of_mem _ hx))
    omega

theorem ldf_sum_map_eq {α} (l : List α) (f g : α → Nat) (h : ∀ x ∈ l, f x = g x) : (l.map f).sum = (l.map g).sum := by
  induction l with
  | nil => simp
  | cons a t ih =>
    simp only [List.map_cons, List.sum_cons]
    rw [h a List.mem_cons_self, ih (fun x hx => h x (List.mem_cons_of_mem _ hx))]

end Pycomm.Lgx.Drv
