/-
  Shared lemmas for the end-to-end laws of the Logix tag services (LogixE2ERead / LogixE2EWrite):
  what the reference controller does with a tag-service message whose path resolves.
-/
import PycommProofs.LE2EDefs
import PycommProofs.GenericProofs
namespace Pycomm.Lgx.E2E
open Pycomm Pycomm.Tgt Pycomm.Path Pycomm.Lgx Pycomm.Lgx.Cl

/-- the message router parses service ++ path ++ data into its parts -/
theorem parseMR_msg (svc : UInt8) (path data : Bytes) (segs : List PSeg) (hp : Denotes path segs) :
    parseMR ([svc] ++ path ++ data) = some { service := svc.toNat, path := segs, data := data } := by
  have h := Cli.parseRequestPath_append path data segs hp
  have e : ([svc] ++ path ++ data : Bytes) = svc :: (path ++ data) := by simp
  rw [e, parseMR, h]

/-- a path that does not start with a symbol name or the symbol class is no tag address -/
theorem resolve_not_tag (p : Project) (segs : List PSeg) (h1 : ∀ nm rest, segs ≠ .symbol nm :: rest)
    (h2 : ∀ i rest, segs ≠ .logical 0 0x6B :: .logical 4 i :: rest) : resolve p segs = .error 5 := by
  unfold resolve
  split
  rename_i heq
  split at heq
  · exact absurd rfl (h1 _ _)
  · cases heq
    simp only

/-- a path that resolves starts with a symbol name or with the symbol class and an instance -/
theorem tagPath_of_resolve (p : Project) (segs : List PSeg) (loc : Loc) (hr : resolve p segs = .ok loc) :
    (∃ nm rest, segs = .symbol nm :: rest) ∨ (∃ i rest, segs = .logical 0 0x6B :: .logical 4 i :: rest) := by
  by_cases h1 : ∃ nm rest, segs = .symbol nm :: rest
  · exact .inl h1
  · by_cases h2 : ∃ i rest, segs = .logical 0 0x6B :: .logical 4 i :: rest
    · exact .inr h2
    · rw [resolve_not_tag p segs (fun nm rest e => h1 ⟨nm, rest, e⟩) (fun i rest e => h2 ⟨i, rest, e⟩)] at hr
      cases hr

def tagAnswer (st : LState) (loc : Loc) (svc : Nat) (d : Bytes) (cap : Nat) : LState × MRReply :=
  if svc = 0x4C then readTag st loc d cap false
  else if svc = 0x52 then readTag st loc d cap true
  else if svc = 0x4D then writeTag st loc d false
  else if svc = 0x53 then writeTag st loc d true
  else rmwTag st loc d

theorem tagService_of_resolve (st : LState) (req : MRReq) (cap : Nat) (loc : Loc)
    (hr : resolve st.proj req.path = .ok loc)
    (hs : req.service = 0x4C ∨ req.service = 0x52 ∨ req.service = 0x4D ∨ req.service = 0x53 ∨ req.service = 0x4E) :
    tagService st req cap = some (tagAnswer st loc req.service req.data cap) := by
  have ht := tagPath_of_resolve _ _ _ hr
  obtain ⟨svc, path, data⟩ := req
  simp only at hr hs ht ⊢
  unfold tagService tagAnswer
  simp only
  rw [if_neg (by simp; omega)]
  rcases ht with ⟨nm, rest, e⟩ | ⟨i, rest, e⟩ <;> subst e <;> simp only [hr] <;>
    simp only [Bool.not_true, Bool.false_eq_true, if_false] <;> (repeat' split) <;> rfl

theorem single_of_resolve (st : LState) (req : MRReq) (cap : Nat) (loc : Loc)
    (hr : resolve st.proj req.path = .ok loc)
    (hs : req.service = 0x4C ∨ req.service = 0x52 ∨ req.service = 0x4D ∨ req.service = 0x53 ∨ req.service = 0x4E) :
    single st req cap = some (tagAnswer st loc req.service req.data cap) := by
  have ht := tagPath_of_resolve _ _ _ hr
  have hts := tagService_of_resolve st req cap loc hr hs
  unfold single
  split
  · rw [if_neg (by omega)]; exact hts
  · rw [if_neg (by omega)]; exact hts
  · rename_i tid e
    rcases ht with ⟨nm, rest, e'⟩ | ⟨i, rest, e'⟩ <;> rw [e] at e' <;> cases e'
  · exact hts

/-- the controller's answer to a tag-service message whose path resolves -/
theorem exchange_tag (st : LState) (cap : Nat) (svc : UInt8) (path data : Bytes) (segs : List PSeg) (loc : Loc)
    (hp : Denotes path segs) (hr : resolve st.proj segs = .ok loc)
    (hs : svc.toNat = 0x4C ∨ svc.toNat = 0x52 ∨ svc.toNat = 0x4D ∨ svc.toNat = 0x53 ∨ svc.toNat = 0x4E) :
    exchange st cap ([svc] ++ path ++ data) = tagAnswer st loc svc.toNat data cap := by
  unfold exchange
  rw [parseMR_msg svc path data segs hp]
  simp only [logixService, Option.getD_some]
  rw [if_neg (by omega), single_of_resolve st _ cap loc hr hs]

/-! ### little-endian fields at the head of the service data -/

theorem leAt_head (w n : Nat) (X : Bytes) (h : n < 256 ^ w) : leAt (le w n ++ X) 0 w = n := by
  have hl : (le w n).length = w := RT.leBytes_length w n
  rw [leAt, List.drop_zero, List.take_append_of_le_length (by omega), List.take_of_length_le (by omega)]
  exact RT.leVal_leBytes w n h

theorem leAt_second (w1 n1 w n : Nat) (X : Bytes) (h : n < 256 ^ w) : leAt (le w1 n1 ++ (le w n ++ X)) w1 w = n := by
  have hl : (le w1 n1).length = w1 := RT.leBytes_length w1 n1
  have := leAt_head w n X h
  rw [leAt, List.drop_zero] at this
  have e : (le w1 n1 ++ (le w n ++ X)).drop w1 = le w n ++ X := by
    conv => lhs; arg 1; rw [← hl]
    exact List.drop_left
  rw [leAt, e, this]

end Pycomm.Lgx.E2E
