/-
  LogixDriver.read of any number of requests: the two kinds of requests of the property theorems as entries —
  a controller-scope elementary scalar tag (answered with its memory) and an element beyond a one-dimensional array
  (refused with status 0xFF / 0x2105).
-/
import PycommProofs.LDReadN4
namespace Pycomm.Lgx.Drv
open Pycomm Pycomm.Tgt Pycomm.Path Pycomm.Reply Pycomm.Encap Pycomm.Lgx Pycomm.Lgx.E2E

/-- the request path bytes the driver builds for a request (empty when it cannot) -/
def ldrn_pathOf (cfg : Cfg) (tag : Name) (info : TagInfo) : Bytes :=
  match requestPathOf cfg tag info with
  | .ok p => p
  | .error _ => []

/-- the driver's estimate of the reply to the one-element read of `tag` (`_tag_return_size(tag_data)` +
    `len(request.message)` + 2), the number the grouping loop of `_read_build_multi_requests` adds up -/
def readEstimate (cfg : Cfg) (tag : Name) (info : TagInfo) : Nat := ldr2_estimate info (ldrn_pathOf cfg tag info)

theorem ldrn_den_pos (p : Bytes) (segs : List PSeg) (h : Denotes p segs) : 1 ≤ p.length := by
  cases p with
  | nil => simp [Denotes, parseRequestPath] at h
  | cons _ _ => simp

/-! ### a controller-scope elementary scalar tag -/

/-- a scalar tag of the call: symbol, tag-database entry, type code / size / name / codec type, the decoded value -/
structure ldrn_Scalar where
  s : Symbol
  info : TagInfo
  c : Nat
  sz : Nat
  name : Name
  t : Ty
  v : PyVal
  rest : Bytes

/-- the hypotheses of `read_atomic_scalar_e2e` on one tag -/
structure ldrn_ScalarOk (cfg : Cfg) (st : LState) (x : ldrn_Scalar) : Prop where
  /-- the symbol is a controller-scope symbol of the project … -/
  mem : x.s ∈ st.proj.controller
  /-- … with a unique name and a unique instance id -/
  uniqN : ∀ s' ∈ st.proj.controller, s'.name = x.s.name → s' = x.s
  uniqI : ∀ s' ∈ st.proj.controller, s'.inst = x.s.inst → s' = x.s
  /-- its name is a plain identifier, its instance id a 32-bit number -/
  ident : PlainIdent x.s.name
  inst32 : x.s.inst < 2 ^ 32
  /-- it is an elementary (non-bit-string) scalar of type code `c`, `sz` bytes -/
  ty : elTyOfWord x.s.symbolType = .atomic x.c
  atomic : atomicOfCode x.c = some (x.name, x.t)
  notBits : x.t.isBits = none
  size : atomicSize x.c = some x.sz
  memLen : x.s.mem.length = x.sz
  /-- the tag database maps the name to an atomic entry of that type with the symbol's instance id -/
  get : cfg.tags.get? x.s.name = some x.info
  infoOf : ldr_InfoOf x.info x.name x.t x.s.inst
  /-- `v` is what the codec decodes from the symbol's memory -/
  dec : decode x.t x.s.mem = .ok (x.v, x.rest)

/-- the Tag `read` returns for it -/
def ldrn_Scalar.out (x : ldrn_Scalar) : LTag := { tag := x.s.name, value := x.v, type := some x.name, error := none }

def ldrn_entScalar (cfg : Cfg) (x : ldrn_Scalar) : ldrn_Ent :=
  { tag := x.s.name, info := x.info, path := ldrn_pathOf cfg x.s.name x.info,
    segs := ldr_segs x.s.name x.s.inst cfg.useInstanceIds,
    reply := { status := 0, data := le 2 x.c ++ x.s.mem }, adv := 1, res := x.out }

theorem ldrn_scalar_est (cfg : Cfg) (st : LState) (x : ldrn_Scalar) (h : ldrn_ScalarOk cfg st x) :
    readEstimate cfg x.s.name x.info = x.sz + (ldrn_pathOf cfg x.s.name x.info).length + 7 ∧
    1 ≤ (ldrn_pathOf cfg x.s.name x.info).length ∧
    (ldrn_pathOf cfg x.s.name x.info).length ≤ x.s.name.length + 13 := by
  obtain ⟨_, hentry, _, _, _⟩ := ldr_atomic_table x.c x.sz x.name x.t h.atomic h.notBits h.size
  obtain ⟨pa, hpa, hpl, hden⟩ := ldr_requestPath cfg x.s.name x.info x.s.inst h.ident h.infoOf.instanceId h.inst32
  have hpo : ldrn_pathOf cfg x.s.name x.info = pa := by unfold ldrn_pathOf; rw [hpa]
  have hrs : tagReturnSize x.info 1 = x.sz := by simp [tagReturnSize, h.infoOf.struct, h.infoOf.typeName, hentry]
  have hml : (Cl.readMsg pa 1).length = pa.length + 3 := by simp [Cl.readMsg, le, RT.leBytes_length]
  have := ldrn_den_pos pa _ hden
  unfold readEstimate ldr2_estimate
  rw [hpo, hrs, hml]
  refine ⟨by omega, this, hpl⟩

theorem ldrn_scalar_ok (cfg : Cfg) (st : LState) (cap : Nat) (x : ldrn_Scalar)
    (hbytes : ∀ s' ∈ st.proj.controller, ∀ ch ∈ s'.name, ch < 256)
    (h : ldrn_ScalarOk cfg st x) (hcap : x.sz + 6 ≤ cap) : ldrn_EntOk cfg st cap (ldrn_entScalar cfg x) := by
  obtain ⟨haty, hentry, hndw, hpos, hle8⟩ := ldr_atomic_table x.c x.sz x.name x.t h.atomic h.notBits h.size
  have hnd : isDword x.info = false := by
    have : (x.name == nm "DWORD") = false := by simpa using hndw
    simp [isDword, h.infoOf.typeName, this]
  obtain ⟨pa, hpa, hpl, hden⟩ := ldr_requestPath cfg x.s.name x.info x.s.inst h.ident h.infoOf.instanceId h.inst32
  have hpo : ldrn_pathOf cfg x.s.name x.info = pa := by unfold ldrn_pathOf; rw [hpa]
  have hest := ldrn_scalar_est cfg st x h
  refine ⟨?_, ?_, ?_, ?_, ?_, ?_, ?_⟩
  · intro rid
    exact ldr_parse_plain cfg.tags false rid x.s.name x.info h.ident h.get hnd
  · show requestPathOf cfg x.s.name x.info = .ok (ldrn_pathOf cfg x.s.name x.info)
    rw [hpo]; exact hpa
  · show Denotes (ldrn_pathOf cfg x.s.name x.info) _
    rw [hpo]; exact hden
  · intro k
    show Cl.exchange { st with ctr := st.ctr + k } cap (Cl.readMsg (ldrn_pathOf cfg x.s.name x.info) 1) = _
    rw [hpo]
    exact ldr_exchange { st with ctr := st.ctr + k } cap x.s x.c x.sz cfg.useInstanceIds pa h.ident h.mem hbytes h.uniqN
      h.uniqI h.ty h.size h.memLen hpos hden hcap
  · show (encMRReply 0x4C { status := 0, data := le 2 x.c ++ x.s.mem }).length + 2 ≤ readEstimate cfg x.s.name x.info
    rw [ldx_encMRReply_length, hest.1]
    simp only [List.length_nil, List.length_append, le, RT.leBytes_length, h.memLen]
    omega
  · intro rs q rest htag hinfo hel
    have hp := ldr_parseReadReply x.info x.c x.t x.name x.s.mem x.rest x.v h.infoOf.ty h.infoOf.typeName hndw haty h.notBits h.dec
    have hrp := ldr2_readResp_padded q (le 2 x.c ++ x.s.mem) x.v x.name (by rw [hinfo, hel]; exact hp)
    show multiReadResults rs ((q, some (List.replicate 46 0 ++ encMRReply 0x4C { status := 0, data := le 2 x.c ++ x.s.mem })) :: rest) = _
    rw [multiReadResults]
    simp only [hrp.1, hrp.2, if_true]
    rw [htag]
    rfl
  · intro rid rs hget
    exact ldr2_readResult_get (ldr2_parsedAt rid x.s.name x.info) x.info x.out rs rfl rfl rfl
      (by rw [h.infoOf.typeName]; exact hndw) (ldr_decode_not_none x.c x.t haty h.notBits x.s.mem x.rest x.v h.dec) rfl hget

/-! ### an element beyond a one-dimensional array -/

/-- an array-element request of the call: symbol, tag-database entry, type code / element size / dimension, index -/
structure ldrn_Elem where
  s : Symbol
  info : TagInfo
  c : Nat
  sz : Nat
  dim : Nat
  i : Nat
  name : Name
  t : Ty

/-- the hypotheses of `read_oob_element_e2e` (LogixDriverFail): the index is beyond the array -/
structure ldrn_ElemOob (cfg : Cfg) (st : LState) (y : ldrn_Elem) : Prop where
  mem : y.s ∈ st.proj.controller
  uniqN : ∀ s' ∈ st.proj.controller, s'.name = y.s.name → s' = y.s
  uniqI : ∀ s' ∈ st.proj.controller, s'.inst = y.s.inst → s' = y.s
  ident : PlainIdent y.s.name
  inst32 : y.s.inst < 2 ^ 32
  ty : elTyOfWord y.s.symbolType = .atomic y.c
  atomic : atomicOfCode y.c = some (y.name, y.t)
  notBits : y.t.isBits = none
  size : atomicSize y.c = some y.sz
  /-- one dimension of `dim` elements -/
  dims : y.s.dims.filter (· != 0) = [y.dim]
  memLen : y.s.mem.length = y.dim * y.sz
  get : cfg.tags.get? y.s.name = some y.info
  infoOf : ldr_InfoOf y.info y.name (.arr (.fixed y.dim) y.t) y.s.inst
  /-- the index is beyond the array (and a 32-bit number) -/
  oob : y.dim ≤ y.i
  i32 : y.i < 2 ^ 32

/-- the request string `name[i]` -/
def ldrn_Elem.request (y : ldrn_Elem) : Name := renderLevel ⟨y.s.name, [y.i]⟩

def ldrn_entOob (cfg : Cfg) (y : ldrn_Elem) : ldrn_Ent :=
  { tag := y.request, info := y.info, path := ldrn_pathOf cfg y.request y.info,
    segs := ldr_segs y.s.name y.s.inst cfg.useInstanceIds ++ [PSeg.logical 8 y.i],
    reply := ldx_refusal 0xFF, adv := 0, res := ldx_oobTag y.request }

theorem ldrn_elem_est (cfg : Cfg) (st : LState) (y : ldrn_Elem) (h : ldrn_ElemOob cfg st y) :
    readEstimate cfg y.request y.info = y.sz + (ldrn_pathOf cfg y.request y.info).length + 7 ∧
    1 ≤ (ldrn_pathOf cfg y.request y.info).length ∧
    (ldrn_pathOf cfg y.request y.info).length ≤ y.s.name.length + 19 := by
  obtain ⟨_, hentry, hndw, _, _⟩ := ldr_atomic_table y.c y.sz y.name y.t h.atomic h.notBits h.size
  have hl : ldr2_Level ⟨y.s.name, [y.i]⟩ := ⟨h.ident, by simp, by simp [h.i32]⟩
  obtain ⟨pb, hpb, hplb, hden⟩ := ldr2_requestPath cfg ⟨y.s.name, [y.i]⟩ y.info y.s.inst hl h.infoOf.instanceId h.inst32
  have hpo : ldrn_pathOf cfg y.request y.info = pb := by unfold ldrn_pathOf ldrn_Elem.request; rw [hpb]
  have hrs : tagReturnSize y.info 1 = y.sz := by simp [tagReturnSize, h.infoOf.struct, h.infoOf.typeName, hentry]
  have hml : (Cl.readMsg pb 1).length = pb.length + 3 := by simp [Cl.readMsg, le, RT.leBytes_length]
  have := ldrn_den_pos pb _ hden
  have hplb' : pb.length ≤ y.s.name.length + 13 + 6 * 1 := hplb
  unfold readEstimate ldr2_estimate
  rw [hpo, hrs, hml]
  refine ⟨by omega, this, by omega⟩

theorem ldrn_oob_ok (cfg : Cfg) (st : LState) (cap : Nat) (y : ldrn_Elem)
    (hbytes : ∀ s' ∈ st.proj.controller, ∀ ch ∈ s'.name, ch < 256)
    (h : ldrn_ElemOob cfg st y) : ldrn_EntOk cfg st cap (ldrn_entOob cfg y) := by
  obtain ⟨haty, hentry, hndw, hpos, hle8⟩ := ldr_atomic_table y.c y.sz y.name y.t h.atomic h.notBits h.size
  have hl : ldr2_Level ⟨y.s.name, [y.i]⟩ := ⟨h.ident, by simp, by simp [h.i32]⟩
  obtain ⟨pb, hpb, hplb, hden⟩ := ldr2_requestPath cfg ⟨y.s.name, [y.i]⟩ y.info y.s.inst hl h.infoOf.instanceId h.inst32
  have hpo : ldrn_pathOf cfg y.request y.info = pb := by unfold ldrn_pathOf ldrn_Elem.request; rw [hpb]
  have hest := ldrn_elem_est cfg st y h
  have hdim : y.dim ≠ 0 := by
    intro h0
    have : y.dim ∈ y.s.dims.filter (· != 0) := by rw [h.dims]; simp
    have := (List.mem_filter.1 this).2
    simp [h0] at this
  have hmem : y.s.mem ≠ [] := by
    intro hm
    have hlen := h.memLen
    rw [hm, List.length_nil] at hlen
    have : 0 < y.dim * y.sz := Nat.mul_pos (by omega) hpos
    omega
  have hrb : resolve st.proj (ldr_segs y.s.name y.s.inst cfg.useInstanceIds ++ [PSeg.logical 8 y.i]) = .error 0xFF :=
    ldx_resolve_oob st.proj y.s y.c y.sz cfg.useInstanceIds y.i y.dim h.ident h.mem hbytes h.uniqN h.uniqI h.ty h.size hmem
      h.dims h.oob
  refine ⟨?_, ?_, ?_, ?_, ?_, ?_, ?_⟩
  · intro rid
    exact (ldx_parse_elem cfg false rid y.s.name y.i y.info y.name _ y.s.inst h.ident h.i32 h.get h.infoOf hndw).2
  · show requestPathOf cfg y.request y.info = .ok (ldrn_pathOf cfg y.request y.info)
    rw [hpo]; exact hpb
  · show Denotes (ldrn_pathOf cfg y.request y.info) _
    rw [hpo]; exact hden
  · intro k
    show Cl.exchange { st with ctr := st.ctr + k } cap (Cl.readMsg (ldrn_pathOf cfg y.request y.info) 1) = _
    rw [hpo]
    exact ldx_exchange_refused { st with ctr := st.ctr + k } cap 0x4C pb (le 2 1) _ 0xFF hden hrb (Or.inl rfl)
      (ldx_tagPath_segs y.s.name y.s.inst cfg.useInstanceIds [PSeg.logical 8 y.i])
  · show (encMRReply 0x4C (ldx_refusal 0xFF)).length + 2 ≤ readEstimate cfg y.request y.info
    rw [ldx_encMRReply_length, hest.1]
    have := hest.2.1
    simp only [ldx_refusal, if_true, List.length_cons, List.length_nil]
    omega
  · intro rs q rest htag hinfo hel
    have hrp := ldx_readResp_refused_padded q (ldx_refusal 0xFF) (by decide) (by decide) (by decide)
    show multiReadResults rs ((q, some (List.replicate 46 0 ++ encMRReply 0x4C (ldx_refusal 0xFF))) :: rest) = _
    rw [multiReadResults]
    simp only [hrp.1, hrp.2, Bool.false_eq_true, if_false]
    rw [htag]
    rfl
  · intro rid rs hget
    exact ldx_readResult_falsy (ldr2_parsedAt rid y.request y.info) y.info (ldx_oobTag y.request) rs rfl rfl hget rfl

end Pycomm.Lgx.Drv
