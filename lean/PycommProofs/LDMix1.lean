/-
  LogixDriver.read of ANY number of requests of MIXED shapes in one call — driver side, lists. Generalises LDReadN1 /
  LDReadN2 from plain one-element requests to requests with an element count, a bit number, a BOOL-array window and a
  `plc_tag` that differs from the request string:
  `_parse_requested_tags`, `_read_build_multi_requests` (first loop, grouping by `K.plan`, sequence numbers of the
  multi-service packets), facts about the groups.

  Every request is described by an entry `ldmx_Ent` (request string, what `_parse_tag_request` makes of it, tag-database
  entry, request path, the controller's answer, the Tag recorded for it and the Tag `read` returns).
-/
import PycommProofs.LDReadN5
namespace Pycomm.Lgx.Drv
open Pycomm Pycomm.Tgt Pycomm.Path Pycomm.Reply Pycomm.Encap Pycomm.Lgx Pycomm.Lgx.E2E

/-- one request of the call, with what the layers compute for it -/
structure ldmx_Ent where
  /-- the request string as the caller wrote it (`request_tag`) -/
  tag : Name
  /-- `user_tag`: the request string without the element count -/
  user : Name
  /-- `plc_tag`: the tag the Read Tag service addresses -/
  plc : Name
  /-- the bit number (integer bit, BOOL-array index) -/
  bit : Option Int
  /-- the element count of the Read Tag service -/
  els : Nat
  /-- `bool_elements` -/
  boolEls : Option Int
  /-- the tag-database entry -/
  info : TagInfo
  /-- the request path bytes -/
  path : Bytes
  /-- what the controller's parser reads them as -/
  segs : List PSeg
  /-- the controller's answer to the embedded Read Tag request -/
  reply : MRReply
  /-- by how much the answer advances the controller's schedule counter -/
  adv : Nat
  /-- the Tag `_send_requests` records for the request -/
  rcd : LTag
  /-- the Tag `read` returns for the request -/
  res : LTag

/-- the parsed request of an entry at position `rid` -/
def ldmx_parsedAt (rid : Nat) (e : ldmx_Ent) : Parsed :=
  { requestId := rid, requestTag := e.tag, userTag := e.user, plcTag := e.plc, bit := e.bit, elements := (e.els : Int),
    info := some e.info, boolElements := e.boolEls }

/-- the driver's estimate of the reply: `_tag_return_size(tag_data)` + `len(request.message)` + 2 -/
def ldmx_estE (e : ldmx_Ent) : Nat := tagReturnSize e.info e.els + (2 + (Cl.readMsg e.path e.els).length) + 2

/-- the parsed requests of the entries, request ids from `k` -/
def ldmx_parsed : Nat → List ldmx_Ent → List Parsed
  | _, [] => []
  | k, e :: es => ldmx_parsedAt k e :: ldmx_parsed (k + 1) es

theorem ldmx_parsed_length (k : Nat) (es : List ldmx_Ent) : (ldmx_parsed k es).length = es.length := by
  induction es generalizing k with
  | nil => rfl
  | cons e es ih => simp [ldmx_parsed, ih]

/-- the Read Tag packets built for them: one sequence number each, request ids from `k` -/
def ldmx_reqs : Cli.Drv → Nat → List ldmx_Ent → List ReadReq
  | _, _, [] => []
  | d, k, e :: es =>
      { seq := d.nextSeq.1, tag := e.plc, elements := e.els, info := e.info, rid := k, path := e.path } ::
        ldmx_reqs d.nextSeq.2 (k + 1) es

theorem ldmx_reqs_length (d : Cli.Drv) (k : Nat) (es : List ldmx_Ent) : (ldmx_reqs d k es).length = es.length := by
  induction es generalizing d k with
  | nil => rfl
  | cons e es ih => simp [ldmx_reqs, ih]

/-! ### (a) parsing -/

theorem ldmx_parse_aux (db : TagDb) (es : List ldmx_Ent)
    (h : ∀ e ∈ es, ∀ rid, parseTagRequest db false rid e.tag = ldmx_parsedAt rid e) (k : Nat) :
    ((List.range' k es.length).zip (es.map (·.tag))).map (fun x => parseTagRequest db false x.1 x.2) = ldmx_parsed k es := by
  induction es generalizing k with
  | nil => rfl
  | cons e es ih =>
    rw [List.length_cons, List.range'_succ, List.map_cons, List.zip_cons_cons, List.map_cons, ldmx_parsed,
      ih (fun e' he' => h e' (List.mem_cons_of_mem _ he')) (k + 1), h e List.mem_cons_self k]

/-- (a) `_parse_requested_tags` of the request strings: the i-th request gets request id i -/
theorem ldmx_parse (db : TagDb) (es : List ldmx_Ent)
    (h : ∀ e ∈ es, ∀ rid, parseTagRequest db false rid e.tag = ldmx_parsedAt rid e) :
    parseRequestedTags db false (es.map (·.tag)) = ldmx_parsed 0 es := by
  unfold parseRequestedTags
  rw [List.length_map, List.range_eq_range']
  exact ldmx_parse_aux db es h 0

/-! ### (b) the first loop of `_read_build_multi_requests` -/

theorem ldmx_buildLive (cfg : Cfg) (C : Nat) (es : List ldmx_Ent) (d : Cli.Drv) (k : Nat)
    (hp : ∀ e ∈ es, requestPathOf cfg e.plc e.info = .ok e.path)
    (hel : ∀ e ∈ es, e.els ≤ 65535)
    (hf : ∀ e ∈ es, ldmx_estE e + K.OVERHEAD ≤ C) :
    readBuildLive cfg C true d (ldmx_parsed k es) =
      (ldrn_adv es.length d, .ok ((ldmx_reqs d k es).map fun r => (r, r.returnSize, false))) := by
  induction es generalizing d k with
  | nil => rfl
  | cons e es ih =>
    have hpe := hp e List.mem_cons_self
    have hfe : ¬ (tagReturnSize e.info e.els + (2 + (Cl.readMsg e.path e.els).length) + 2 + K.OVERHEAD > C) := by
      have := hf e List.mem_cons_self
      unfold ldmx_estE at this
      omega
    have hel' : elementsNat (e.els : Int) = .ok e.els := by
      have := hel e List.mem_cons_self
      unfold elementsNat
      rw [if_pos (by omega)]; rfl
    have ih' := ih d.nextSeq.2 (k + 1) (fun e' he' => hp e' (List.mem_cons_of_mem _ he'))
      (fun e' he' => hel e' (List.mem_cons_of_mem _ he'))
      (fun e' he' => hf e' (List.mem_cons_of_mem _ he'))
    rw [ldmx_parsed, readBuildLive]
    simp only [ldmx_parsedAt, mkReadReq, hpe, hel', ReadReq.returnSize, ReadReq.messageLen, hfe, decide_false,
      Bool.false_eq_true, if_false, if_true]
    rw [ih']
    simp only [Except.map, ldmx_reqs, List.map_cons, List.length_cons, ldrn_adv, ReadReq.returnSize, ReadReq.messageLen]

/-! ### (b) the grouping -/

/-- the items the grouping loop sees -/
def ldmx_kitems (rs : List ReadReq) : List K.Item :=
  rs.map fun r => { id := r.rid, error := false, size := r.returnSize }

/-- the groups of requests `_read_build_multi_requests` forms -/
def ldmx_groups (C : Nat) (rs : List ReadReq) : List (List ReadReq) :=
  (K.plan C (ldmx_kitems rs)).groups.map fun g => g.filterMap fun id => rs.find? (·.rid == id)

/-- (b) `_read_build_requests` for any number (≠ 1) of error-free requests none of which needs the fragmented
    service: one sequence number per request, then one per multi-service packet -/
theorem ldmx_build (cfg : Cfg) (d : Cli.Drv) (es : List ldmx_Ent) (hmicro : cfg.micro800 = false)
    (hlen : es.length ≠ 1)
    (hp : ∀ e ∈ es, requestPathOf cfg e.plc e.info = .ok e.path)
    (hel : ∀ e ∈ es, e.els ≤ 65535)
    (hf : ∀ e ∈ es, ldmx_estE e + K.OVERHEAD ≤ d.connectionSize) :
    readBuildRequests cfg d (ldmx_parsed 0 es) =
      (ldrn_adv (ldmx_groups d.connectionSize (ldmx_reqs d 0 es)).length (ldrn_adv es.length d),
       .ok (ldrn_seqd (ldrn_adv es.length d) (ldmx_groups d.connectionSize (ldmx_reqs d 0 es)))) := by
  have hfind : ∀ (rs : List ReadReq) (id : Nat),
      ((rs.map fun r => (r, r.returnSize, false)).find? (fun x => x.1.rid == id)).map (·.1) = rs.find? (·.rid == id) := by
    intro rs id
    induction rs with
    | nil => rfl
    | cons r rs ih =>
      rw [List.map_cons, List.find?_cons, List.find?_cons]
      cases h : (r.rid == id) with
      | true => rfl
      | false => exact ih
  have hfrag : ∀ (rs : List ReadReq), (rs.map fun r => (r, r.returnSize, false)).filter (·.2.2) = [] := by
    intro rs
    rw [List.filter_eq_nil_iff]
    intro x hx
    obtain ⟨r, _, rfl⟩ := List.mem_map.1 hx
    simp
  unfold readBuildRequests
  rw [ldmx_parsed_length, if_pos ⟨hlen, by rw [hmicro]; rfl⟩]
  simp only [ldmx_buildLive cfg d.connectionSize es d 0 hp hel hf, hfrag, List.map_nil, List.append_nil, List.map_map]
  have hitems : (ldmx_reqs d 0 es).map ((fun x : ReadReq × Nat × Bool => ({ id := x.1.rid, error := false, size := x.2.1 } : K.Item)) ∘
      fun r => (r, r.returnSize, false)) = ldmx_kitems (ldmx_reqs d 0 es) := rfl
  rw [hitems]
  have hgroups : (K.plan d.connectionSize (ldmx_kitems (ldmx_reqs d 0 es))).groups.map (fun g => g.filterMap fun id =>
      (((ldmx_reqs d 0 es).map fun r => (r, r.returnSize, false)).find? (fun x => x.1.rid == id)).map (·.1)) =
      ldmx_groups d.connectionSize (ldmx_reqs d 0 es) := by
    unfold ldmx_groups
    apply List.map_congr_left
    intro g _
    have : (fun id => (((ldmx_reqs d 0 es).map fun r => (r, r.returnSize, false)).find? (fun x => x.1.rid == id)).map (·.1)) =
        (fun id => (ldmx_reqs d 0 es).find? (·.rid == id)) := funext (hfind _)
    rw [this]
  rw [hgroups]
  obtain ⟨h1, h2⟩ := ldrn_drawSeqs (ldrn_adv es.length d) (ldmx_groups d.connectionSize (ldmx_reqs d 0 es))
  rw [← h1, ← h2]

/-! ### facts about the groups (as LDReadN2) -/

theorem ldmx_reqs_rid (d : Cli.Drv) (k : Nat) (es : List ldmx_Ent) :
    (ldmx_reqs d k es).map (·.rid) = List.range' k es.length := by
  induction es generalizing d k with
  | nil => rfl
  | cons e es ih => rw [ldmx_reqs, List.map_cons, ih, List.length_cons, List.range'_succ]

theorem ldmx_reqs_nodup (d : Cli.Drv) (k : Nat) (es : List ldmx_Ent) : ((ldmx_reqs d k es).map (·.rid)).Nodup := by
  rw [ldmx_reqs_rid]; exact List.nodup_range'

theorem ldmx_reqs_est (d : Cli.Drv) (k : Nat) (es : List ldmx_Ent) :
    (ldmx_reqs d k es).map (·.returnSize) = es.map ldmx_estE := by
  induction es generalizing d k with
  | nil => rfl
  | cons e es ih => rw [ldmx_reqs, List.map_cons, ih, List.map_cons]; rfl

theorem ldmx_kitems_filter (C : Nat) (rs : List ReadReq) (hf : ∀ r ∈ rs, r.returnSize + K.OVERHEAD ≤ C) :
    ((ldmx_kitems rs).filter (!·.error)).filter (fun i => !(i.size + K.OVERHEAD > C)) = ldmx_kitems rs := by
  have h1 : (ldmx_kitems rs).filter (!·.error) = ldmx_kitems rs := by
    rw [List.filter_eq_self]
    intro x hx
    obtain ⟨r, _, rfl⟩ := List.mem_map.1 hx
    rfl
  rw [h1, List.filter_eq_self]
  intro x hx
  obtain ⟨r, hr, rfl⟩ := List.mem_map.1 hx
  have := hf r hr
  simp only [Bool.not_eq_eq_eq_not, Bool.not_true, decide_eq_false_iff_not]
  omega

theorem ldmx_kitems_ids (rs : List ReadReq) : (ldmx_kitems rs).map (·.id) = rs.map (·.rid) := by
  unfold ldmx_kitems; rw [List.map_map]; rfl

/-- the groups partition the requests, in request order -/
theorem ldmx_groups_flatten (C : Nat) (rs : List ReadReq) (hn : (rs.map (·.rid)).Nodup)
    (hf : ∀ r ∈ rs, r.returnSize + K.OVERHEAD ≤ C) : (ldmx_groups C rs).flatten = rs := by
  unfold ldmx_groups
  rw [ldrn_flatten_filterMap, (K.plan_partition C (ldmx_kitems rs)).1, ldmx_kitems_filter C rs hf, ldmx_kitems_ids,
    List.filterMap_map]
  exact ldrn_filterMap_self _ rs (fun r hr => ldrn_find_self rs hn r hr)

/-- the ids of the groups of the plan are request ids -/
theorem ldmx_plan_ids (C : Nat) (rs : List ReadReq) (hf : ∀ r ∈ rs, r.returnSize + K.OVERHEAD ≤ C)
    (g : List Nat) (hg : g ∈ (K.plan C (ldmx_kitems rs)).groups) (id : Nat) (hid : id ∈ g) : id ∈ rs.map (·.rid) := by
  have : id ∈ (K.plan C (ldmx_kitems rs)).groups.flatten := List.mem_flatten.2 ⟨g, hg, hid⟩
  rw [(K.plan_partition C (ldmx_kitems rs)).1, ldmx_kitems_filter C rs hf, ldmx_kitems_ids] at this
  exact this

/-- no group is empty -/
theorem ldmx_groups_nonempty (C : Nat) (rs : List ReadReq) (hf : ∀ r ∈ rs, r.returnSize + K.OVERHEAD ≤ C) :
    ∀ g ∈ ldmx_groups C rs, g ≠ [] := by
  intro g hg
  unfold ldmx_groups at hg
  obtain ⟨g0, hg0, rfl⟩ := List.mem_map.1 hg
  have hne := K.plan_no_empty_group C (ldmx_kitems rs) g0 hg0
  cases g0 with
  | nil => exact absurd rfl hne
  | cons id t =>
    have hid := ldmx_plan_ids C rs hf _ hg0 id List.mem_cons_self
    obtain ⟨r, hr, hrid⟩ := List.mem_map.1 hid
    have hsome : (rs.find? (·.rid == id)).isSome = true := by
      rw [List.find?_isSome]
      exact ⟨r, hr, by simp [hrid]⟩
    obtain ⟨r', hr'⟩ := Option.isSome_iff_exists.1 hsome
    rw [List.filterMap_cons, hr']
    exact List.cons_ne_nil _ _

theorem ldmx_sizeOf (rs : List ReadReq) (id : Nat) :
    K.sizeOf (ldmx_kitems rs) id = ((rs.find? (·.rid == id)).map (·.returnSize)).getD 0 := by
  unfold K.sizeOf ldmx_kitems
  induction rs with
  | nil => rfl
  | cons r rs ih =>
    rw [List.map_cons, List.find?_cons, List.find?_cons]
    cases h : (r.rid == id) with
    | true => rfl
    | false => exact ih

theorem ldmx_sum_filterMap (rs : List ReadReq) (g : List Nat) :
    ((g.filterMap fun id => rs.find? (·.rid == id)).map (·.returnSize)).sum = (g.map (K.sizeOf (ldmx_kitems rs))).sum := by
  induction g with
  | nil => rfl
  | cons id t ih =>
    rw [List.filterMap_cons, List.map_cons, List.sum_cons, ldmx_sizeOf]
    cases h : rs.find? (·.rid == id) with
    | none => simp only [Option.map_none, Option.getD_none, Nat.zero_add]; exact ih
    | some r => simp only [List.map_cons, List.sum_cons, Option.map_some, Option.getD_some, ih]

/-- each group fits the connection size by the loop's accounting -/
theorem ldmx_groups_fit (C : Nat) (rs : List ReadReq) (hn : (rs.map (·.rid)).Nodup) :
    ∀ g ∈ ldmx_groups C rs, K.OVERHEAD + (g.map (·.returnSize)).sum ≤ C := by
  intro g hg
  unfold ldmx_groups at hg
  obtain ⟨g0, hg0, rfl⟩ := List.mem_map.1 hg
  have hu : K.UniqueIds (ldmx_kitems rs) := by
    unfold K.UniqueIds; rw [ldmx_kitems_ids]; exact hn
  have := K.plan_groups_fit C (ldmx_kitems rs) hu g0 hg0
  rw [K.sumSizes_eq] at this
  rw [ldmx_sum_filterMap]
  exact this

/-- when all requests together fit one packet by the loop's accounting there is exactly one group: all of them -/
theorem ldmx_groups_one (C : Nat) (rs : List ReadReq) (hn : (rs.map (·.rid)).Nodup) (hne : rs ≠ [])
    (hfit : K.OVERHEAD + (rs.map (·.returnSize)).sum ≤ C) : ldmx_groups C rs = [rs] := by
  have hf : ∀ r ∈ rs, r.returnSize + K.OVERHEAD ≤ C := by
    intro r hr
    have : r.returnSize ≤ (rs.map (·.returnSize)).sum := ldrn_le_sum (·.returnSize) rs r hr
    omega
  unfold ldmx_groups
  rw [K.plan_eq]
  simp only []
  rw [ldmx_kitems_filter C rs hf]
  have hsum : ((ldmx_kitems rs).map fun i => (i.id, i.size)).map (·.2) = rs.map (·.returnSize) := by
    unfold ldmx_kitems; rw [List.map_map, List.map_map]; rfl
  have hids : ((ldmx_kitems rs).map fun i => (i.id, i.size)).map (·.1) = rs.map (·.rid) := by
    unfold ldmx_kitems; rw [List.map_map, List.map_map]; rfl
  rw [ldrn_fold_fit C _ [] [] K.OVERHEAD (by rw [hsum]; exact hfit), hids]
  simp only [List.append_nil, List.reverse_reverse, List.reverse_cons, List.reverse_nil, List.nil_append]
  have hne' : rs.map (·.rid) ≠ [] := by
    intro h; exact hne (List.map_eq_nil_iff.1 h)
  rw [List.filter_cons, if_pos (by simpa using hne'), List.filter_nil, List.map_cons, List.map_nil, List.filterMap_map]
  rw [show ((fun id => List.find? (fun x => x.rid == id) rs) ∘ fun x : ReadReq => x.rid) =
      (fun r => rs.find? (·.rid == r.rid)) from rfl,
    ldrn_filterMap_self _ rs (fun r hr => ldrn_find_self rs hn r hr)]

end Pycomm.Lgx.Drv
