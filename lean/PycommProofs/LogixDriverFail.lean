/-
  C03 / C13 at the driver level, CONTROLLER-side failures: `LogixDriver.read` / `LogixDriver.write` of a request that
  parses against the tag database (so a packet is sent) but that the reference controller refuses — an array
  element beyond the array — alone and next to a good request in the same call, through the whole stack of the
  model (tag-string parsing, request building, `CIPDriver.send`, encapsulation, the reference target's
  encapsulation layer / message router / Logix services, reply framing, response classes, result assembly).

  Layers (lemmas usable on their own):
    (e) LDFailReply  `ldx_parseCip_status`, `ldx_extendedStatus_ok`, `ldx_errText`, `ldx_errText_prefix`,
                     `ldx_tagResp_raw`, `ldx_tagResp_refused`, `ldx_tagResp_refused_padded`, `ldx_readTag_refused`,
                     `ldx_writeTag_refused`, `ldx_readResp_refused_padded`, `ldx_readResult_falsy`, `ldx_oob_text`
    (d) LDFailSend   `ldx_tagService_refused`, `ldx_single_refused`, `ldx_logixService_refused`, `ldx_exchange_refused`,
                     `ldx_resolve_oob`, `ldx_sendUnit_refused`
    read:  LDFailRead  `ldx_read_single_status`, `ldx_parse_elem`, `ldx_read_oob`
           LDFailMulti `ldx_multi_data`, `ldx_sendRequest_multi_two`, `ldx_read_two_general`
           LDFailMixed `ldx_read_good_bad`, `ldx_read_bad_good`
    write: LDFailWrite  `ldx_encode_one`, `ldx_encodeValue_elem`, `ldx_writeResult_get`, `ldx_write_single_refused`
           LDFailWrite2 `ldx_wbuild_two`, `ldx_sendRequest_mwrite_two`, `ldx_write_two_general`,
                        `ldx_other_after_write`, `ldx_write_good_bad`
-/
import PycommProofs.LDFailMixed
import PycommProofs.LDFailWrite2
import PycommProofs.LogixDriverRead2
namespace Pycomm.Lgx.Drv
open Pycomm Pycomm.Tgt Pycomm.Path Pycomm.Reply Pycomm.Encap Pycomm.Lgx Pycomm.Lgx.E2E Pycomm.Status

/-- the message-router reply with which the reference controller refuses an element beyond the array:
    general status 0xFF, extended status 0x2105 -/
def oobReply : MRReply := { status := 0xFF, ext := [0x2105] }

/-- the `Tag.error` of a request refused that way -/
def oobError : TagErr := .reply (.text (ldx_errText oobReply))

/-- the error text of a refused request names the CIP status the controller answered: it is not empty and starts
    with `get_service_status(status)` (the table text, or "Unknown Error (xx)") -/
theorem refused_text_names_status (r : MRReply) :
    serviceStatusText r.status <+: ldx_errText r ∧ ldx_errText r ≠ [] :=
  ⟨ldx_errText_prefix r, ldx_errText_nonempty r⟩

/-- … and is what the response class (`Reply.errorCip` over the parsed reply frame, behind `Resp.error`) computes for
    the connected reply frame the controller sends -/
theorem refused_text_is_response_error (svc s toId seq : Nat) (ctx : Bytes) (r : MRReply) (hc : ctx.length = 8)
    (hst : r.status ≠ 0) (hst8 : r.status < 256) (hext : r.ext.length < 256) (h6 : r.status ≠ 6 ∨ ldx_PlainSvc svc) :
    errorCip (some (frame CMD_SEND_UNIT s 0 ctx (cpfReplyConnected toId seq (encMRReply svc r)))) .connected
      (parseCip (some (frame CMD_SEND_UNIT s 0 ctx (cpfReplyConnected toId seq (encMRReply svc r)))) .connected)
      (validCip .connected
        (parseCip (some (frame CMD_SEND_UNIT s 0 ctx (cpfReplyConnected toId seq (encMRReply svc r)))) .connected)) =
      .ok (some (.text (ldx_errText r))) := by
  obtain ⟨h1, h2, _⟩ := ldx_tagResp_refused svc s toId seq ctx r hc hst hst8 hext h6
  unfold tagResp at h1
  simp only at h1
  unfold Resp.error tagResp at h2
  simp only at h2
  rw [h1] at h2 ⊢
  cases hx : errorCip (some (frame CMD_SEND_UNIT s 0 ctx (cpfReplyConnected toId seq (encMRReply svc r)))) .connected
      (parseCip (some (frame CMD_SEND_UNIT s 0 ctx (cpfReplyConnected toId seq (encMRReply svc r)))) .connected) false with
  | error e => rw [hx] at h2; cases h2
  | ok o =>
    rw [hx] at h2
    cases o with
    | none => cases h2
    | some e =>
      simp only [Except.map, Option.map_some, Except.ok.injEq, Option.some.injEq, TagErr.reply.injEq] at h2
      rw [h2]

theorem oob_text : ldx_errText oobReply =
    Drv.nm "General Error (see extended status) - Access beyond end of the object  (ff, 2105)" := ldx_oob_text

theorem truthy_of_value (t : LTag) (hv : t.value ≠ .none) (he : t.error = none) : t.truthy = true := by
  unfold LTag.truthy
  rw [he]
  cases hval : t.value <;> simp_all

theorem elemStr (name : Name) (i : Nat) : renderLevel ⟨name, [i]⟩ = name ++ [91] ++ decRender i ++ [93] :=
  ldr2_renderLevel_elem name i

-- PROPERTY THEOREMS

/-- C13, driver level, tag services: `read` of ONE request that parses against the tag database (parsed request `p`
    without error, entry `info`, `n` elements), is sent as one plain Read Tag service on a healthy connected driver,
    and is answered by the Logix services of the controller with ANY reply `r` whose CIP general status is not 0 —
    6 included: Read Tag is not one of the services that legitimately continue — yields, without an exception,
    exactly one Tag named as requested, without value and type, falsy, whose error is a non-empty text that starts
    with the text of that status (`get_service_status`), followed by the extended status when the table knows it.
    One frame is written, one sequence number drawn; the Logix state of the controller is the state `st'` the
    service left; the world is healthy again.

    Hypotheses: `hw`, `hlogix` as in `read_atomic_scalar_e2e`; `hparse` … `hrid` the parse of the request string;
    `hpath`, `hden`, `hpl` its request path and the segments it denotes for the controller's parser; `hlp` the path is
    one the message router hands to the Logix services; `hls` the answer of the Logix services; `hst`, `hst8`,
    `hext` it carries an error status that fits the byte, and fewer than 256 extended-status words; `hC`, `hT` the
    small request fits the connection. -/
theorem tag_reply_error_falsy (cfg : Cfg) (w : Cli.World Ext) (sess : Nat) (cidb : Bytes) (conn : Conn)
    (st st' : LState) (tag0 : Name) (p : Drv.Parsed) (info : TagInfo) (path : Bytes) (segs : List PSeg) (n : Nat) (r : MRReply)
    (hw : ldr_Healthy w sess cidb conn) (hlogix : w.net.target.ext.logix = some st)
    (hparse : parseTagRequest cfg.tags false 0 tag0 = p)
    (hperr : p.error = none) (hpinfo : p.info = some info) (hpel : p.elements = (n : Int)) (hn : n ≤ 65535)
    (hrid : p.requestId = 0)
    (hpath : requestPathOf cfg p.plcTag info = .ok path) (hden : Denotes path segs) (hpl : path.length ≤ 600)
    (hlp : ldr2_LogixPath segs)
    (hls : logixService st { service := 0x4C, path := segs, data := le 2 n } (some (conn.size - 2)) = some (st', r))
    (hst : r.status ≠ 0) (hst8 : r.status < 256) (hext : r.ext.length < 256)
    (hC : tagReturnSize info n + path.length + 7 ≤ w.drv.connectionSize)
    (hT : path.length + 5 ≤ conn.size) :
    ∃ w' frm t, read hookAll cfg w [tag0] = (w', .ok [t]) ∧
      t = { tag := p.userTag, value := .none, type := none, error := some (.reply (.text (ldx_errText r))) } ∧
      t.truthy = false ∧ serviceStatusText r.status <+: ldx_errText r ∧ ldx_errText r ≠ [] ∧
      w'.drv = w.drv.nextSeq.2 ∧ w'.net.sent = w.net.sent ++ [frm] ∧
      w'.net.target.ext = { w.net.target.ext with logix := some st' } ∧
      ldr_Healthy w' sess cidb { conn with lastSeq := some w.drv.nextSeq.1 } := by
  obtain ⟨w', frm, h1, h2, h3, h4, h5⟩ := ldx_read_single_status cfg w sess cidb conn st st' tag0 p info path segs n r hw
    hlogix hparse hperr hpinfo hpel hn hrid hpath hden hpl hlp hls hst hst8 hext hC hT
  exact ⟨w', frm, _, h1, rfl, rfl, ldx_errText_prefix r, ldx_errText_nonempty r, h2, h3, h4, h5⟩

/-- C03 / C13, driver level, a request the controller refuses: reading ONE element `name[i]` with `i` BEYOND a
    controller-scope one-dimensional array of `dim` elements of an elementary (non-bit-string) type (`dim ≤ i`; the
    tag database knows the tag as an array, so the request parses and a packet is sent) on a healthy connected driver
    returns — no exception — exactly one Tag named `name[i]` with `value = None`, `type = None` and the error
    "General Error (see extended status) - Access beyond end of the object  (ff, 2105)": a non-empty text that
    starts with the text of the CIP status 0xFF the controller answered. The Tag is falsy. One frame is written, one
    sequence number drawn; the target's extension state — project, memory, write log, schedule counter — is
    unchanged; the resulting world is healthy again.

    Hypotheses: exactly those of `read_atomic_element_e2e`, with `hi : dim ≤ i` instead of `i < dim` and without the
    decoding hypothesis. -/
theorem read_refused_single_e2e (cfg : Cfg) (w : Cli.World Ext) (sess : Nat) (cidb : Bytes) (conn : Conn)
    (st : LState) (s : Symbol) (info : TagInfo) (c sz dim i : Nat) (name : Name) (t : Ty)
    (hw : ldr_Healthy w sess cidb conn) (hlogix : w.net.target.ext.logix = some st)
    (hs : s ∈ st.proj.controller)
    (hbytes : ∀ s' ∈ st.proj.controller, ∀ ch ∈ s'.name, ch < 256)
    (huniqN : ∀ s' ∈ st.proj.controller, s'.name = s.name → s' = s)
    (huniqI : ∀ s' ∈ st.proj.controller, s'.inst = s.inst → s' = s)
    (hid : PlainIdent s.name) (hinst : s.inst < 2 ^ 32)
    (hty : elTyOfWord s.symbolType = .atomic c) (hat : atomicOfCode c = some (name, t)) (hb : t.isBits = none)
    (hsz : atomicSize c = some sz)
    (hdims : s.dims.filter (· != 0) = [dim]) (hlen : s.mem.length = dim * sz)
    (hget : cfg.tags.get? s.name = some info) (hinfo : ldr_InfoOf info name (.arr (.fixed dim) t) s.inst)
    (hi : dim ≤ i) (hi32 : i < 2 ^ 32)
    (hC : s.name.length + 34 ≤ w.drv.connectionSize) (hT : s.name.length + 34 ≤ conn.size) :
    ∃ w' frm tg, read hookAll cfg w [s.name ++ [91] ++ decRender i ++ [93]] = (w', .ok [tg]) ∧
      tg = { tag := s.name ++ [91] ++ decRender i ++ [93], value := .none, type := none, error := some oobError } ∧
      tg.truthy = false ∧
      serviceStatusText 0xFF <+: ldx_errText oobReply ∧ ldx_errText oobReply ≠ [] ∧
      w'.drv = w.drv.nextSeq.2 ∧ w'.net.sent = w.net.sent ++ [frm] ∧
      w'.net.target.ext = w.net.target.ext ∧
      ldr_Healthy w' sess cidb { conn with lastSeq := some w.drv.nextSeq.1 } := by
  obtain ⟨w', frm, h1, h2, h3, h4, h5⟩ := ldx_read_oob cfg w sess cidb conn st s info c sz dim i name t hw hlogix hs hbytes
    huniqN huniqI hid hinst hty hat hb hsz hdims hlen hget hinfo hi hi32 hC hT
  rw [elemStr] at h1
  exact ⟨w', frm, _, h1, rfl, rfl, ldx_errText_prefix oobReply, ldx_errText_nonempty oobReply, h2, h3, h4, h5⟩

/-- the same with the tag database the driver really holds after `open()` (`cfg.tags` is `tagDbOf` of the controller's
    project): the hypotheses on the entry are replaced by hypotheses on the symbol as in `read_atomic_element_e2e_db` -/
theorem read_refused_single_e2e_db (cfg : Cfg) (w : Cli.World Ext) (sess : Nat) (cidb : Bytes) (conn : Conn)
    (st : LState) (s : Symbol) (sz dim i : Nat) (name : Name) (t : Ty) (programTags : Bool)
    (hw : ldr_Healthy w sess cidb conn) (hlogix : w.net.target.ext.logix = some st)
    (hs : s ∈ st.proj.controller)
    (hbytes : ∀ s' ∈ st.proj.controller, ∀ ch ∈ s'.name, ch < 256)
    (huniqN : ∀ s' ∈ st.proj.controller, s'.name = s.name → s' = s)
    (huniqI : ∀ s' ∈ st.proj.controller, s'.inst = s.inst → s' = s)
    (hid : PlainIdent s.name) (hinst : s.inst < 2 ^ 32)
    (hstruct : s.symbolType / 32768 % 2 = 0) (hd1 : s.symbolType / 8192 % 4 = 1)
    (hat : atomicOfCode (s.symbolType % 256) = some (name, t)) (hb : t.isBits = none)
    (hsz : atomicSize (s.symbolType % 256) = some sz)
    (hdims : s.dims = [dim, 0, 0]) (hdim : dim ≠ 0) (hlen : s.mem.length = dim * sz)
    (hkeep : K.keepSymbol s.name s.symbolType = true) (hdb : tagDbOf st.proj programTags = some cfg.tags)
    (hi : dim ≤ i) (hi32 : i < 2 ^ 32)
    (hC : s.name.length + 34 ≤ w.drv.connectionSize) (hT : s.name.length + 34 ≤ conn.size) :
    ∃ w' frm tg, read hookAll cfg w [s.name ++ [91] ++ decRender i ++ [93]] = (w', .ok [tg]) ∧
      tg = { tag := s.name ++ [91] ++ decRender i ++ [93], value := .none, type := none, error := some oobError } ∧
      tg.truthy = false ∧
      serviceStatusText 0xFF <+: ldx_errText oobReply ∧ ldx_errText oobReply ≠ [] ∧
      w'.drv = w.drv.nextSeq.2 ∧ w'.net.sent = w.net.sent ++ [frm] ∧
      w'.net.target.ext = w.net.target.ext ∧
      ldr_Healthy w' sess cidb { conn with lastSeq := some w.drv.nextSeq.1 } := by
  obtain ⟨info, hc1, hinfo⟩ := ldr2_createTag_array st.proj s name t dim hstruct hd1 hdims hat
  obtain ⟨i', hc2, hget⟩ := ldr_tagDb_get st.proj programTags cfg.tags s hdb hs hkeep huniqN
    (ldr_plain_not_mem s.name hid 58 (by omega))
  rw [hc1] at hc2
  cases hc2
  have hty : elTyOfWord s.symbolType = .atomic (s.symbolType % 256) := by
    unfold elTyOfWord
    rw [if_neg (by omega)]
  have hdf : s.dims.filter (· != 0) = [dim] := by rw [hdims]; simp [hdim]
  exact read_refused_single_e2e cfg w sess cidb conn st s info _ sz dim i name t hw hlogix hs hbytes huniqN huniqI hid
    hinst hty hat hb hsz hdf hlen hget hinfo hi hi32 hC hT

/-- C03, driver level, failure isolation inside a multi-service packet: `read(good, bad)` and `read(bad, good)` where
    `good` is a controller-scope elementary (non-bit-string) scalar tag and `bad` an element beyond a one-dimensional
    array (as in `read_refused_single_e2e`), on a healthy connected driver that is not a Micro800. Each call returns
    — no exception — two Tags in the order of the request: for `good` EXACTLY the Tag that `read(good)` alone returns
    (`tg`: name, decoded value, type name, no error), for `bad` EXACTLY the falsy Tag that `read(bad)` alone returns
    (`tb`: no value, no type, the status text of 0xFF / 0x2105). Both requests travel in ONE Multiple Service Packet
    (one frame, three sequence numbers); its outer status 0x1E ("embedded service error") does not spoil the good
    result. The controller's project is unchanged (the schedule counter advances by the one successful read).

    Hypotheses: for `good` (suffix `a`) those of `read_atomic_scalar_e2e`, for `bad` (suffix `b`) those of
    `read_refused_single_e2e`; `hmicro`; `hC`, `hT`: both estimated replies and the multi-service overhead fit the
    connection (`name lengths + 72` bytes suffice). The two symbols may coincide. -/
theorem read_mixed_two_e2e (cfg : Cfg) (w : Cli.World Ext) (sess : Nat) (cidb : Bytes) (conn : Conn) (st : LState)
    (sa sb : Symbol) (ia ib : TagInfo) (ca cb sza szb dim i : Nat) (na nb : Name) (ta tb : Ty) (va : PyVal) (ra : Bytes)
    (hw : ldr_Healthy w sess cidb conn) (hlogix : w.net.target.ext.logix = some st) (hmicro : cfg.micro800 = false)
    (hbytes : ∀ s' ∈ st.proj.controller, ∀ ch ∈ s'.name, ch < 256)
    (hsa : sa ∈ st.proj.controller) (hsb : sb ∈ st.proj.controller)
    (huniqNa : ∀ s' ∈ st.proj.controller, s'.name = sa.name → s' = sa)
    (huniqNb : ∀ s' ∈ st.proj.controller, s'.name = sb.name → s' = sb)
    (huniqIa : ∀ s' ∈ st.proj.controller, s'.inst = sa.inst → s' = sa)
    (huniqIb : ∀ s' ∈ st.proj.controller, s'.inst = sb.inst → s' = sb)
    (hida : PlainIdent sa.name) (hidb : PlainIdent sb.name) (hinsta : sa.inst < 2 ^ 32) (hinstb : sb.inst < 2 ^ 32)
    (htya : elTyOfWord sa.symbolType = .atomic ca) (htyb : elTyOfWord sb.symbolType = .atomic cb)
    (hata : atomicOfCode ca = some (na, ta)) (hatb : atomicOfCode cb = some (nb, tb))
    (hba : ta.isBits = none) (hbb : tb.isBits = none)
    (hsza : atomicSize ca = some sza) (hszb : atomicSize cb = some szb)
    (hlena : sa.mem.length = sza)
    (hdimsb : sb.dims.filter (· != 0) = [dim]) (hlenb : sb.mem.length = dim * szb)
    (hgeta : cfg.tags.get? sa.name = some ia) (hgetb : cfg.tags.get? sb.name = some ib)
    (hinfoa : ldr_InfoOf ia na ta sa.inst) (hinfob : ldr_InfoOf ib nb (.arr (.fixed dim) tb) sb.inst)
    (hdeca : decode ta sa.mem = .ok (va, ra))
    (hi : dim ≤ i) (hi32 : i < 2 ^ 32)
    (hC : sa.name.length + sb.name.length + 72 ≤ w.drv.connectionSize)
    (hT : sa.name.length + sb.name.length + 72 ≤ conn.size) :
    ∃ tg tb' : LTag,
      tg = { tag := sa.name, value := va, type := some na, error := none } ∧
      tb' = { tag := sb.name ++ [91] ++ decRender i ++ [93], value := .none, type := none, error := some oobError } ∧
      tg.truthy = true ∧ tb'.truthy = false ∧
      -- each request alone
      (∃ wg, read hookAll cfg w [sa.name] = (wg, .ok [tg])) ∧
      (∃ wb, read hookAll cfg w [sb.name ++ [91] ++ decRender i ++ [93]] = (wb, .ok [tb'])) ∧
      -- good first
      (∃ w' frm, read hookAll cfg w [sa.name, sb.name ++ [91] ++ decRender i ++ [93]] = (w', .ok [tg, tb']) ∧
        w'.drv = w.drv.nextSeq.2.nextSeq.2.nextSeq.2 ∧ w'.net.sent = w.net.sent ++ [frm] ∧
        w'.net.target.ext = { w.net.target.ext with logix := some { st with ctr := st.ctr + 1 } } ∧
        ldr_Healthy w' sess cidb { conn with lastSeq := some w.drv.nextSeq.2.nextSeq.2.nextSeq.1 }) ∧
      -- bad first
      (∃ w' frm, read hookAll cfg w [sb.name ++ [91] ++ decRender i ++ [93], sa.name] = (w', .ok [tb', tg]) ∧
        w'.drv = w.drv.nextSeq.2.nextSeq.2.nextSeq.2 ∧ w'.net.sent = w.net.sent ++ [frm] ∧
        w'.net.target.ext = { w.net.target.ext with logix := some { st with ctr := st.ctr + 1 } } ∧
        ldr_Healthy w' sess cidb { conn with lastSeq := some w.drv.nextSeq.2.nextSeq.2.nextSeq.1 }) := by
  obtain ⟨hatya, _, _, _, _⟩ := ldr_atomic_table ca sza na ta hata hba hsza
  have hnl := hida.2.1
  have hnlb := hidb.2.1
  refine ⟨_, _, rfl, rfl, ?_, rfl, ?_, ?_, ?_, ?_⟩
  · exact truthy_of_value _ (ldr_decode_not_none ca ta hatya hba sa.mem ra va hdeca) rfl
  · obtain ⟨wg, _, h, _⟩ := read_atomic_scalar_e2e cfg w sess cidb conn st sa ia ca sza na ta va ra hw hlogix hsa hbytes
      huniqNa huniqIa hida hinsta htya hata hba hsza hlena hgeta hinfoa hdeca (by omega) (by omega)
    exact ⟨wg, h⟩
  · obtain ⟨wb, _, h, _⟩ := ldx_read_oob cfg w sess cidb conn st sb ib cb szb dim i nb tb hw hlogix hsb hbytes
      huniqNb huniqIb hidb hinstb htyb hatb hbb hszb hdimsb hlenb hgetb hinfob hi hi32 (by omega) (by omega)
    rw [elemStr] at h
    exact ⟨wb, h⟩
  · obtain ⟨w', frm, h, hrest⟩ := ldx_read_good_bad cfg w sess cidb conn st sa sb ia ib ca cb sza szb dim i na nb ta tb va ra
      hw hlogix hmicro hbytes hsa hsb huniqNa huniqNb huniqIa huniqIb hida hidb hinsta hinstb htya htyb hata hatb hba hbb
      hsza hszb hlena hdimsb hlenb hgeta hgetb hinfoa hinfob hdeca hi hi32 hC hT
    rw [elemStr] at h
    exact ⟨w', frm, h, hrest⟩
  · obtain ⟨w', frm, h, hrest⟩ := ldx_read_bad_good cfg w sess cidb conn st sa sb ia ib ca cb sza szb dim i na nb ta tb va ra
      hw hlogix hmicro hbytes hsa hsb huniqNa huniqNb huniqIa huniqIb hida hidb hinsta hinstb htya htyb hata hatb hba hbb
      hsza hszb hlena hdimsb hlenb hgeta hgetb hinfoa hinfob hdeca hi hi32 hC hT
    rw [elemStr] at h
    exact ⟨w', frm, h, hrest⟩

/-- C03 / C13, driver level, a write the controller refuses: writing ONE element `name[i]` with `i` BEYOND a
    controller-scope one-dimensional array of an elementary (non-bit-string) type with a canonical value of the
    element type on a healthy connected driver returns — no exception — exactly one Tag named `name[i]` that carries
    the caller's value and the type name (as the result loop of `write` always does) and the error text of status
    0xFF / 0x2105, so the Tag is FALSY (`Tag.__bool__` requires `error is None`). One frame is written, one sequence
    number drawn; the target's extension state is unchanged: NO memory was written, the write log has no new entry.

    Hypotheses: those of `read_refused_single_e2e`, and `hcanon`, `henc` (the value is canonical for the element type,
    `bytes` its encoding); `hC`: the request stays below the fragmentation threshold of the single-request path, which
    counts the value twice (`name length + 2·size + 26`); `hT`: it fits the size the target granted. -/
-- STATEMENT CHANGED: "falsy Tag" for a refused WRITE does not mean `value = None`: the result loop of `write`
-- (logix_driver.py:1077-1101) always hands the caller's value and the type string back, also for a failed request;
-- only `error` tells the failure (the Tag is still falsy because `Tag.__bool__` tests `error is None`).
-- `#eval` in `Ex` below: `write(("arr[9]", 5))` → `Tag("arr[9]", 5, "DINT", "General Error … (ff, 2105)")`.
theorem write_refused_single_e2e (cfg : Cfg) (w : Cli.World Ext) (sess : Nat) (cidb : Bytes) (conn : Conn)
    (st : LState) (s : Symbol) (info : TagInfo) (c sz dim i : Nat) (name : Name) (t : Ty) (v : PyVal) (bytes : Bytes)
    (hw : ldr_Healthy w sess cidb conn) (hlogix : w.net.target.ext.logix = some st)
    (hs : s ∈ st.proj.controller)
    (hbytes : ∀ s' ∈ st.proj.controller, ∀ ch ∈ s'.name, ch < 256)
    (huniqN : ∀ s' ∈ st.proj.controller, s'.name = s.name → s' = s)
    (huniqI : ∀ s' ∈ st.proj.controller, s'.inst = s.inst → s' = s)
    (hid : PlainIdent s.name) (hinst : s.inst < 2 ^ 32)
    (hty : elTyOfWord s.symbolType = .atomic c) (hat : atomicOfCode c = some (name, t)) (hb : t.isBits = none)
    (hsz : atomicSize c = some sz)
    (hdims : s.dims.filter (· != 0) = [dim]) (hlen : s.mem.length = dim * sz)
    (hget : cfg.tags.get? s.name = some info) (hinfo : ldr_InfoOf info name (.arr (.fixed dim) t) s.inst)
    (hi : dim ≤ i) (hi32 : i < 2 ^ 32)
    (hcanon : Canon t v) (henc : encode t v = .ok bytes)
    (hC : s.name.length + 2 * sz + 26 ≤ w.drv.connectionSize) (hT : s.name.length + sz + 26 ≤ conn.size) :
    ∃ w' frm tg, write hookAll cfg w [(s.name ++ [91] ++ decRender i ++ [93], v)] = (w', .ok [tg]) ∧
      tg = { tag := s.name ++ [91] ++ decRender i ++ [93], value := v, type := some name, error := some oobError } ∧
      tg.truthy = false ∧
      serviceStatusText 0xFF <+: ldx_errText oobReply ∧ ldx_errText oobReply ≠ [] ∧
      w'.drv = w.drv.nextSeq.2 ∧ w'.net.sent = w.net.sent ++ [frm] ∧
      w'.net.target.ext = w.net.target.ext ∧
      ldr_Healthy w' sess cidb { conn with lastSeq := some w.drv.nextSeq.1 } := by
  obtain ⟨haty, hentry, hndw, hpos, hle8⟩ := ldr_atomic_table c sz name t hat hb hsz
  have hshape := ldr_atomicTy_shape c t haty hb
  have hbl : bytes.length = sz := ldw_encode_length c sz t v bytes haty hb hsz hcanon henc
  obtain ⟨hl, hparse⟩ := ldx_parse_elem cfg true 0 s.name i info name _ s.inst hid hi32 hget hinfo hndw
  obtain ⟨hnb, hseq⟩ := ldx_canon_scalar t v hshape hcanon
  have hencv : encodeValue (ldx_wparsed 0 (renderLevel ⟨s.name, [i]⟩) info v) info =
      (ldx_wparsed 0 (renderLevel ⟨s.name, [i]⟩) info v, some bytes) :=
    ldx_encodeValue_elem (ldx_wparsed 0 (renderLevel ⟨s.name, [i]⟩) info v) info dim t bytes hnb hseq
      (by rw [hinfo.typeName]; exact hndw) hinfo.ty hb rfl rfl
      (by show encode t (argOf t v) = _; rw [RT.argOf_of_canon t v hcanon]; exact henc)
  obtain ⟨path, hpath, hpl, hden⟩ := ldr2_requestPath cfg ⟨s.name, [i]⟩ info s.inst hl hinfo.instanceId hinst
  have hpl' : path.length ≤ s.name.length + 19 := by
    have : path.length ≤ s.name.length + 13 + 6 * 1 := hpl
    omega
  have hpt : packedTypeOf info = le 2 c := ldw_packedType info name c sz hinfo.struct hinfo.typeName hentry
  have hptl : (packedTypeOf info).length = 2 := by rw [hpt, le_length]
  have hmem : s.mem ≠ [] := by
    intro h
    rw [h, List.length_nil] at hlen
    have hdim : dim ≠ 0 := by
      intro h0
      have : dim ∈ s.dims.filter (· != 0) := by rw [hdims]; simp
      have := (List.mem_filter.1 this).2
      simp [h0] at this
    have : 0 < dim * sz := Nat.mul_pos (by omega) hpos
    omega
  have hr : resolve st.proj (ldr_segs s.name s.inst cfg.useInstanceIds ++ [PSeg.logical 8 i]) = .error 0xFF :=
    ldx_resolve_oob st.proj s c sz cfg.useInstanceIds i dim hid hs hbytes huniqN huniqI hty hsz hmem hdims hi
  have hnl := hid.2.1
  obtain ⟨w', frm, h1, h2, h3, h4, h5⟩ := ldx_write_single_refused cfg w sess cidb conn st (renderLevel ⟨s.name, [i]⟩) info v
    path bytes _ 0xFF hw hlogix hparse hencv hpath hden (by omega) hr
    (ldx_tagPath_segs s.name s.inst cfg.useInstanceIds [PSeg.logical 8 i]) (by decide) (by decide) (by omega) (by omega)
    (by rw [hptl, hbl]; omega) (by rw [hptl, hbl]; omega)
  rw [elemStr, hinfo.typeName] at h1
  exact ⟨w', frm, _, h1, rfl, ldx_falsy_of_error _ _ rfl, ldx_errText_prefix oobReply, ldx_errText_nonempty oobReply,
    h2, h3, h4, h5⟩

/-- C03, driver level, failure isolation for writes: `write((good, va), (bad, vb))` where `good` is a controller-scope
    elementary (non-bit-string) scalar tag written with a canonical value and `bad` an element beyond a
    one-dimensional array of ANOTHER symbol, on a healthy connected driver that is not a Micro800, returns — no
    exception — two Tags in the order of the request: the error-free Tag of the good write (name, caller's value, type
    name: exactly the Tag `write_atomic_scalar_e2e` states for the write alone) and the falsy Tag of the refused one
    (as in `write_refused_single_e2e`). Both requests travel in ONE Multiple Service Packet (one frame, three sequence
    numbers). The good value is written EXACTLY ONCE: the controller's project afterwards is
    `written st.proj loc 0 ba` — by `write_atomic_scalar_effect` the symbol's memory replaced by the encoding, ONE more
    write-log entry, everything else unchanged; the refused request leaves no trace.

    Hypotheses: for `good` those of `write_atomic_scalar_e2e`, for `bad` those of `write_refused_single_e2e`;
    `hne` the two symbols are different; `hmicro`; `hC`, `hT` both messages and the multi-service overhead fit. -/
theorem write_mixed_two_e2e (cfg : Cfg) (w : Cli.World Ext) (sess : Nat) (cidb : Bytes) (conn : Conn) (st : LState)
    (sa sb : Symbol) (ia ib : TagInfo) (ca cb sza szb dim i : Nat) (na nb : Name) (ta tb : Ty) (va vb : PyVal)
    (ba bb : Bytes)
    (hw : ldr_Healthy w sess cidb conn) (hlogix : w.net.target.ext.logix = some st) (hmicro : cfg.micro800 = false)
    (hbytes : ∀ s' ∈ st.proj.controller, ∀ ch ∈ s'.name, ch < 256)
    (hsa : sa ∈ st.proj.controller) (hsb : sb ∈ st.proj.controller) (hne : sa.inst ≠ sb.inst)
    (huniqNa : ∀ s' ∈ st.proj.controller, s'.name = sa.name → s' = sa)
    (huniqNb : ∀ s' ∈ st.proj.controller, s'.name = sb.name → s' = sb)
    (huniqIa : ∀ s' ∈ st.proj.controller, s'.inst = sa.inst → s' = sa)
    (huniqIb : ∀ s' ∈ st.proj.controller, s'.inst = sb.inst → s' = sb)
    (hida : PlainIdent sa.name) (hidb : PlainIdent sb.name) (hinsta : sa.inst < 2 ^ 32) (hinstb : sb.inst < 2 ^ 32)
    (htya : elTyOfWord sa.symbolType = .atomic ca) (htyb : elTyOfWord sb.symbolType = .atomic cb)
    (hata : atomicOfCode ca = some (na, ta)) (hatb : atomicOfCode cb = some (nb, tb))
    (hba : ta.isBits = none) (hbb : tb.isBits = none)
    (hsza : atomicSize ca = some sza) (hszb : atomicSize cb = some szb)
    (hlena : sa.mem.length = sza)
    (hdimsb : sb.dims.filter (· != 0) = [dim]) (hlenb : sb.mem.length = dim * szb)
    (hgeta : cfg.tags.get? sa.name = some ia) (hgetb : cfg.tags.get? sb.name = some ib)
    (hinfoa : ldr_InfoOf ia na ta sa.inst) (hinfob : ldr_InfoOf ib nb (.arr (.fixed dim) tb) sb.inst)
    (hcanona : Canon ta va) (henca : encode ta va = .ok ba)
    (hcanonb : Canon tb vb) (hencb : encode tb vb = .ok bb)
    (hi : dim ≤ i) (hi32 : i < 2 ^ 32)
    (hC : sa.name.length + sb.name.length + sza + szb + 56 ≤ w.drv.connectionSize)
    (hT : sa.name.length + sb.name.length + sza + szb + 56 ≤ conn.size) :
    ∃ w' frm tg tb',
      write hookAll cfg w [(sa.name, va), (sb.name ++ [91] ++ decRender i ++ [93], vb)] = (w', .ok [tg, tb']) ∧
      tg = { tag := sa.name, value := va, type := some na, error := none } ∧
      tb' = { tag := sb.name ++ [91] ++ decRender i ++ [93], value := vb, type := some nb, error := some oobError } ∧
      tb'.truthy = false ∧
      w'.drv = w.drv.nextSeq.2.nextSeq.2.nextSeq.2 ∧ w'.net.sent = w.net.sent ++ [frm] ∧
      w'.net.target.ext =
        { w.net.target.ext with logix := some { st with proj := written st.proj (ldr_loc sa ca) 0 ba } } ∧
      written st.proj (ldr_loc sa ca) 0 ba = ldw_proj st.proj sa ba ∧
      (ldw_proj st.proj sa ba).writeLog = st.proj.writeLog ++ [(sa.inst, 0, sza)] ∧
      ldr_Healthy w' sess cidb { conn with lastSeq := some w.drv.nextSeq.2.nextSeq.2.nextSeq.1 } := by
  obtain ⟨hatya, _, _, _, _⟩ := ldr_atomic_table ca sza na ta hata hba hsza
  have hbla : ba.length = sza := ldw_encode_length ca sza ta va ba hatya hba hsza hcanona henca
  obtain ⟨w', frm, h1, h2, h3, h4, h5⟩ := ldx_write_good_bad cfg w sess cidb conn st sa sb ia ib ca cb sza szb dim i na nb
    ta tb va vb ba bb hw hlogix hmicro hbytes hsa hsb hne huniqNa huniqNb huniqIa huniqIb hida hidb hinsta hinstb htya htyb
    hata hatb hba hbb hsza hszb hlena hdimsb hlenb hgeta hgetb hinfoa hinfob hcanona henca hcanonb hencb hi hi32 hC hT
  rw [elemStr] at h1
  refine ⟨w', frm, _, _, h1, rfl, rfl, ldx_falsy_of_error _ _ rfl, h2, h3, h4, ldw_written_eq st.proj sa ca ba hsa huniqIa (by omega), ?_, h5⟩
  rw [← hbla]; rfl

/-! ### non-vacuity: all hypotheses instantiated on the concrete project of `LogixDriverRead2` (`arr : DINT[4]`,
    `abc : DINT = 42`), request `arr[9]` -/

namespace Ex

def str (n : Name) : String := String.ofList (n.map Char.ofNat)

def showErr : Option TagErr → String
  | none => "None"
  | some (.text s) => str s
  | some (.reply (.text s)) => str s
  | some (.reply e) => reprStr e
  | some (.invalid s) => "Invalid tag request - " ++ s

def showTag (t : LTag) : String :=
  "Tag(" ++ str t.tag ++ ", " ++ reprStr t.value ++ ", " ++ reprStr (t.type.map str) ++ ", " ++ showErr t.error ++ ")"

def showRes (r : Except Exn (List LTag)) : String :=
  match r with
  | .ok ts => toString (ts.map showTag)
  | .error e => "EXCEPTION " ++ reprStr e

-- the concrete runs (interpreter), with the concrete error text
#eval showRes (read hookAll cfg2 world2 [Drv.nm "arr[9]"]).2
#eval showRes (read hookAll cfg2 world2 [Drv.nm "abc", Drv.nm "arr[9]"]).2
#eval showRes (read hookAll cfg2 world2 [Drv.nm "arr[9]", Drv.nm "abc"]).2
#eval showRes (write hookAll cfg2 world2 [(Drv.nm "arr[9]", .int 5)]).2
#eval showRes (write hookAll cfg2 world2 [(Drv.nm "abc", .int 5), (Drv.nm "arr[9]", .int 6)]).2

def oobText : Name := Drv.nm "General Error (see extended status) - Access beyond end of the object  (ff, 2105)"

def isOob (t : LTag) (tag : String) : Bool :=
  t.tag == Drv.nm tag && t.error == some (.reply (.text oobText)) && !t.truthy

def isAbc (t : LTag) (v : Int) : Bool :=
  t.tag == Drv.nm "abc" && t.type == some (Drv.nm "DINT") && t.error.isNone && t.truthy &&
    (match t.value with | .int x => x == v | _ => false)

def logixOf (w : Cli.World Ext) : Option (List Bytes × List (Nat × Nat × Nat) × Nat) :=
  w.net.target.ext.logix.map fun s => (s.proj.controller.map (·.mem), s.proj.writeLog, s.ctr)

#guard (match read hookAll cfg2 world2 [Drv.nm "arr[9]"] with
        | (w', .ok [t]) => isOob t "arr[9]" && (match t.value, t.type with | .none, none => true | _, _ => false) &&
                           logixOf w' == logixOf world2 && w'.net.sent.length == world2.net.sent.length + 1
        | _ => false)
#guard (match read hookAll cfg2 world2 [Drv.nm "abc", Drv.nm "arr[9]"] with
        | (w', .ok [t, u]) => isAbc t 42 && isOob u "arr[9]" && w'.net.sent.length == world2.net.sent.length + 1
        | _ => false)
#guard (match read hookAll cfg2 world2 [Drv.nm "arr[9]", Drv.nm "abc"] with
        | (w', .ok [u, t]) => isAbc t 42 && isOob u "arr[9]" && w'.net.sent.length == world2.net.sent.length + 1
        | _ => false)
-- a refused write: the caller's value and the type come back, the error makes the Tag falsy; nothing is written
#guard (match write hookAll cfg2 world2 [(Drv.nm "arr[9]", .int 5)] with
        | (w', .ok [t]) => isOob t "arr[9]" && t.type == some (Drv.nm "DINT") &&
                           (match t.value with | .int 5 => true | _ => false) && logixOf w' == logixOf world2
        | _ => false)
#guard (match write hookAll cfg2 world2 [(Drv.nm "abc", .int 5), (Drv.nm "arr[9]", .int 6)] with
        | (w', .ok [t, u]) => isAbc t 5 && isOob u "arr[9]" && w'.net.sent.length == world2.net.sent.length + 1 &&
            logixOf w' == some ([[5, 0, 0, 0], [1, 0, 0, 0, 2, 0, 0, 0, 0xFF, 0xFF, 0xFF, 0xFF, 4, 0, 0, 0], [0x05, 0x80],
                                 [0x05, 0, 0, 0x80, 1, 0, 0, 0]], [(7, 0, 4)], 0)
        | _ => false)

theorem arr9 : symArr.name ++ [91] ++ decRender 9 ++ [93] = Drv.nm "arr[9]" := by
  rw [ldr2_decRender_small 9 (by omega)]; rfl

theorem oobError_eq : oobError = .reply (.text oobText) := by
  unfold oobError; rw [oob_text]; rfl

theorem ne_abc_arr : sym.inst ≠ symArr.inst := by decide

/-- every hypothesis of `read_refused_single_e2e` holds for the concrete world: `read("arr[9]")` -/
example : ∃ w' frm, read hookAll cfg2 world2 [Drv.nm "arr[9]"] =
      (w', .ok [{ tag := Drv.nm "arr[9]", value := .none, type := none, error := some (.reply (.text oobText)) }]) ∧
    w'.drv = world2.drv.nextSeq.2 ∧ w'.net.sent = world2.net.sent ++ [frm] ∧
    w'.net.target.ext = world2.net.target.ext ∧
    ldr_Healthy w' 4097 [238, 255, 192, 0] { conn with lastSeq := some world2.drv.nextSeq.1 } := by
  obtain ⟨w', frm, tg, h1, h2, _, _, _, h6, h7, h8, h9⟩ :=
    read_refused_single_e2e cfg2 world2 4097 [238, 255, 192, 0] conn state2 symArr infoArr 0xC4 4 4 9 (Drv.nm "DINT")
      (.int .dint)
      healthy2 (by rfl) hsArr bytes2 (uniqN2 symArr hsArr) (uniqI2 symArr hsArr)
      ⟨by decide, by decide, by decide⟩ (by decide)
      (by decide) rfl rfl rfl                                    -- hty hat hb hsz
      (by decide) (by decide)                                    -- hdims hlen
      (by rfl) ⟨rfl, rfl, rfl, rfl, rfl⟩                         -- hget hinfo
      (by decide) (by decide)                                    -- hi hi32
      (by decide +kernel) (by decide)                            -- hC hT
  rw [arr9] at h1 h2
  rw [h2, oobError_eq] at h1
  exact ⟨w', frm, h1, h6, h7, h8, h9⟩

/-- … and of `read_refused_single_e2e_db`, with the tag database computed from the project -/
example : ∃ w' frm, read hookAll cfg2 world2 [Drv.nm "arr[9]"] =
      (w', .ok [{ tag := Drv.nm "arr[9]", value := .none, type := none, error := some (.reply (.text oobText)) }]) ∧
    w'.net.sent = world2.net.sent ++ [frm] ∧ w'.net.target.ext = world2.net.target.ext := by
  obtain ⟨w', frm, tg, h1, h2, _, _, _, _, h7, h8, _⟩ :=
    read_refused_single_e2e_db cfg2 world2 4097 [238, 255, 192, 0] conn state2 symArr 4 4 9 (Drv.nm "DINT") (.int .dint) false
      healthy2 (by rfl) hsArr bytes2 (uniqN2 symArr hsArr) (uniqI2 symArr hsArr)
      ⟨by decide, by decide, by decide⟩ (by decide)
      (by decide) (by decide) rfl rfl rfl rfl (by decide) rfl     -- hstruct hd1 hat hb hsz hdims hdim hlen
      (by decide) (by rfl)                                        -- hkeep hdb
      (by decide) (by decide) (by decide +kernel) (by decide)
  rw [arr9] at h1 h2
  rw [h2, oobError_eq] at h1
  exact ⟨w', frm, h1, h7, h8⟩

/-- … of `read_mixed_two_e2e`: `read("abc", "arr[9]")` and `read("arr[9]", "abc")` -/
example :
    (∃ w' frm, read hookAll cfg2 world2 [Drv.nm "abc", Drv.nm "arr[9]"] =
      (w', .ok [{ tag := Drv.nm "abc", value := .int 42, type := some (Drv.nm "DINT"), error := none },
                { tag := Drv.nm "arr[9]", value := .none, type := none, error := some (.reply (.text oobText)) }]) ∧
      w'.net.sent = world2.net.sent ++ [frm] ∧
      w'.net.target.ext = { world2.net.target.ext with logix := some { state2 with ctr := state2.ctr + 1 } }) ∧
    (∃ w' frm, read hookAll cfg2 world2 [Drv.nm "arr[9]", Drv.nm "abc"] =
      (w', .ok [{ tag := Drv.nm "arr[9]", value := .none, type := none, error := some (.reply (.text oobText)) },
                { tag := Drv.nm "abc", value := .int 42, type := some (Drv.nm "DINT"), error := none }]) ∧
      w'.net.sent = world2.net.sent ++ [frm] ∧
      w'.net.target.ext = { world2.net.target.ext with logix := some { state2 with ctr := state2.ctr + 1 } }) := by
  obtain ⟨tg, tb, h1, h2, _, _, _, _, ⟨w1, f1, a1, _, a3, a4, _⟩, ⟨w2, f2, b1, _, b3, b4, _⟩⟩ :=
    read_mixed_two_e2e cfg2 world2 4097 [238, 255, 192, 0] conn state2 sym symArr info infoArr 0xC4 0xC4 4 4 4 9
      (Drv.nm "DINT") (Drv.nm "DINT") (.int .dint) (.int .dint) (.int 42) []
      healthy2 (by rfl) rfl bytes2 hsAbc hsArr (uniqN2 sym hsAbc) (uniqN2 symArr hsArr) (uniqI2 sym hsAbc) (uniqI2 symArr hsArr)
      ⟨by decide, by decide, by decide⟩ ⟨by decide, by decide, by decide⟩ (by decide) (by decide)
      (by decide) (by decide) rfl rfl rfl rfl rfl rfl             -- hty hat hb hsz
      rfl (by decide) (by decide)                                 -- hlena hdimsb hlenb
      (by rfl) (by rfl) ⟨rfl, rfl, rfl, rfl, rfl⟩ ⟨rfl, rfl, rfl, rfl, rfl⟩
      (by rfl) (by decide) (by decide) (by decide +kernel) (by decide)
  rw [arr9] at h2 a1 b1
  rw [h1, h2, oobError_eq] at a1 b1
  exact ⟨⟨w1, f1, a1, a3, a4⟩, ⟨w2, f2, b1, b3, b4⟩⟩

/-- … of `write_refused_single_e2e`: `write(("arr[9]", 5))` -/
example : ∃ w' frm, write hookAll cfg2 world2 [(Drv.nm "arr[9]", .int 5)] =
      (w', .ok [{ tag := Drv.nm "arr[9]", value := .int 5, type := some (Drv.nm "DINT"),
                  error := some (.reply (.text oobText)) }]) ∧
    w'.net.sent = world2.net.sent ++ [frm] ∧ w'.net.target.ext = world2.net.target.ext := by
  obtain ⟨w', frm, tg, h1, h2, _, _, _, _, h7, h8, _⟩ :=
    write_refused_single_e2e cfg2 world2 4097 [238, 255, 192, 0] conn state2 symArr infoArr 0xC4 4 4 9 (Drv.nm "DINT")
      (.int .dint) (.int 5) [5, 0, 0, 0]
      healthy2 (by rfl) hsArr bytes2 (uniqN2 symArr hsArr) (uniqI2 symArr hsArr)
      ⟨by decide, by decide, by decide⟩ (by decide)
      (by decide) rfl rfl rfl (by decide) (by decide) (by rfl) ⟨rfl, rfl, rfl, rfl, rfl⟩
      (by decide) (by decide)
      ⟨5, rfl, by decide, by decide⟩ (by rfl)
      (by decide +kernel) (by decide)
  rw [arr9] at h1 h2
  rw [h2, oobError_eq] at h1
  exact ⟨w', frm, h1, h7, h8⟩

/-- … of `write_mixed_two_e2e`: `write(("abc", 5), ("arr[9]", 6))`: `abc` is written once, `arr` untouched -/
example : ∃ w' frm, write hookAll cfg2 world2 [(Drv.nm "abc", .int 5), (Drv.nm "arr[9]", .int 6)] =
      (w', .ok [{ tag := Drv.nm "abc", value := .int 5, type := some (Drv.nm "DINT"), error := none },
                { tag := Drv.nm "arr[9]", value := .int 6, type := some (Drv.nm "DINT"),
                  error := some (.reply (.text oobText)) }]) ∧
    w'.net.sent = world2.net.sent ++ [frm] ∧
    w'.net.target.ext =
      { world2.net.target.ext with logix := some { state2 with proj := ldw_proj state2.proj sym [5, 0, 0, 0] } } ∧
    (ldw_proj state2.proj sym [5, 0, 0, 0]).writeLog = state2.proj.writeLog ++ [(7, 0, 4)] := by
  obtain ⟨w', frm, tg, tb, h1, h2, h3, _, _, h6, h7, h8, h9, _⟩ :=
    write_mixed_two_e2e cfg2 world2 4097 [238, 255, 192, 0] conn state2 sym symArr info infoArr 0xC4 0xC4 4 4 4 9
      (Drv.nm "DINT") (Drv.nm "DINT") (.int .dint) (.int .dint) (.int 5) (.int 6) [5, 0, 0, 0] [6, 0, 0, 0]
      healthy2 (by rfl) rfl bytes2 hsAbc hsArr ne_abc_arr (uniqN2 sym hsAbc) (uniqN2 symArr hsArr) (uniqI2 sym hsAbc)
      (uniqI2 symArr hsArr)
      ⟨by decide, by decide, by decide⟩ ⟨by decide, by decide, by decide⟩ (by decide) (by decide)
      (by decide) (by decide) rfl rfl rfl rfl rfl rfl
      rfl (by decide) (by decide)
      (by rfl) (by rfl) ⟨rfl, rfl, rfl, rfl, rfl⟩ ⟨rfl, rfl, rfl, rfl, rfl⟩
      ⟨5, rfl, by decide, by decide⟩ (by rfl) ⟨6, rfl, by decide, by decide⟩ (by rfl)
      (by decide) (by decide) (by decide +kernel) (by decide)
  rw [arr9] at h1 h3
  rw [h2, h3, oobError_eq] at h1
  rw [h8] at h7
  exact ⟨w', frm, h1, h6, h7, h9⟩

end Ex


end Pycomm.Lgx.Drv
