/-
  Helper lemmas for C10 over histories that contain `LogixDriver.read` / `LogixDriver.write` calls
  (model: PycommModel/Logix/Driver.lean).  Part 1: the shape of a read / write after its `@with_forward_open`
  decorator — the request builders change nothing but the state of the sequence counter, and everything that is
  sent goes through `Cli.sendReq … (.sendUnit seq msg) false`.
-/
import PycommModel.Logix.Driver
import PycommProofs.LCInv
namespace Pycomm.Lgx.Drv
open Pycomm.Tgt Pycomm.Path Pycomm.Reply

/-! ### the builders only draw sequence numbers -/

/-- `d'` is `d` with another state of the sequence counter -/
def lcl_SeqOnly (d d' : Cli.Drv) : Prop := ∃ v, d' = { d with seqVal := v }

theorem lcl_SeqOnly_refl (d : Cli.Drv) : lcl_SeqOnly d d := ⟨d.seqVal, rfl⟩

theorem lcl_SeqOnly_trans {a b c : Cli.Drv} (h1 : lcl_SeqOnly a b) (h2 : lcl_SeqOnly b c) : lcl_SeqOnly a c := by
  obtain ⟨v1, rfl⟩ := h1
  obtain ⟨v2, rfl⟩ := h2
  exact ⟨v2, rfl⟩

theorem lcl_SeqOnly_next (d : Cli.Drv) : lcl_SeqOnly d d.nextSeq.2 := ⟨_, rfl⟩

theorem lcl_mkReadReq_seq (cfg : Cfg) (d : Cli.Drv) (p : Parsed) (info : TagInfo) :
    lcl_SeqOnly d (mkReadReq cfg d p info).1 := by
  unfold mkReadReq
  dsimp only
  split <;> exact lcl_SeqOnly_next d

theorem lcl_mkWriteReq_seq (cfg : Cfg) (d : Cli.Drv) (p : Parsed) (info : TagInfo) (v : Bytes) :
    lcl_SeqOnly d (mkWriteReq cfg d p info v).1 := by
  unfold mkWriteReq
  dsimp only
  split <;> exact lcl_SeqOnly_next d

theorem lcl_mkRmwReq_seq (cfg : Cfg) (d : Cli.Drv) (p : Parsed) (info : TagInfo) (rid : Int) :
    lcl_SeqOnly d (mkRmwReq cfg d p info rid).1 := by
  unfold mkRmwReq
  dsimp only
  split
  · exact lcl_SeqOnly_next d
  · split <;> exact lcl_SeqOnly_next d

theorem lcl_refresh_read_seq (b : Bool) (d : Cli.Drv) (r : ReadReq) :
    lcl_SeqOnly d (if b = true then r.refresh d else (d, r)).1 := by
  cases b
  · exact lcl_SeqOnly_refl d
  · exact lcl_SeqOnly_next d

theorem lcl_refresh_write_seq (b : Bool) (d : Cli.Drv) (r : WriteReq) :
    lcl_SeqOnly d (if b = true then r.refresh d else (d, r)).1 := by
  cases b
  · exact lcl_SeqOnly_refl d
  · exact lcl_SeqOnly_next d

theorem lcl_readBuildLive_seq (cfg : Cfg) (C : Nat) (multi : Bool) (ps : List Parsed) :
    ∀ d : Cli.Drv, lcl_SeqOnly d (readBuildLive cfg C multi d ps).1 := by
  induction ps with
  | nil => intro d; simp only [readBuildLive]; exact lcl_SeqOnly_refl d
  | cons p rest ih =>
    intro d
    rw [readBuildLive]
    split
    · next info he hi =>
      have h1 := lcl_mkReadReq_seq cfg d p info
      rcases hm : mkReadReq cfg d p info with ⟨d1, r⟩
      rw [hm] at h1
      dsimp only at h1 ⊢
      cases r with
      | error e => exact h1
      | ok req =>
        dsimp only
        have h2 := lcl_refresh_read_seq
          (if multi = true then decide (req.returnSize + K.OVERHEAD > C) else decide (req.returnSize > C)) d1 req
        generalize (if (if multi = true then decide (req.returnSize + K.OVERHEAD > C) else decide (req.returnSize > C)) = true
          then req.refresh d1 else (d1, req)) = fr at h2 ⊢
        obtain ⟨d2, req2⟩ := fr
        dsimp only at h2 ⊢
        have h3 := ih d2
        rcases hrec : readBuildLive cfg C multi d2 rest with ⟨d3, more⟩
        rw [hrec] at h3
        exact lcl_SeqOnly_trans (lcl_SeqOnly_trans h1 h2) h3
    · exact ih d

theorem lcl_drawSeqs_seq {α} (xs : List α) : ∀ d : Cli.Drv, lcl_SeqOnly d (drawSeqs d xs).1 := by
  induction xs with
  | nil => intro d; exact lcl_SeqOnly_refl d
  | cons x rest ih =>
    intro d
    simp only [drawSeqs]
    exact lcl_SeqOnly_trans (lcl_SeqOnly_next d) (ih _)

theorem lcl_readBuildRequests_seq (cfg : Cfg) (d : Cli.Drv) (ps : List Parsed) :
    lcl_SeqOnly d (readBuildRequests cfg d ps).1 := by
  unfold readBuildRequests
  dsimp only
  split
  · have h1 := lcl_readBuildLive_seq cfg d.connectionSize true ps d
    rcases hl : readBuildLive cfg d.connectionSize true d ps with ⟨d1, live⟩
    rw [hl] at h1
    dsimp only at h1 ⊢
    cases live with
    | error e => exact h1
    | ok items =>
      dsimp only
      exact lcl_SeqOnly_trans h1 (lcl_drawSeqs_seq _ d1)
  · have h1 := lcl_readBuildLive_seq cfg d.connectionSize false ps d
    rcases hl : readBuildLive cfg d.connectionSize false d ps with ⟨d1, live⟩
    rw [hl] at h1
    exact h1

theorem lcl_writeBuildLive_seq (cfg : Cfg) (C : Nat) (ps : List Parsed) :
    ∀ (d : Cli.Drv) (acc : WriteBuild), lcl_SeqOnly d (writeBuildLive cfg C d acc ps).1 := by
  induction ps with
  | nil => intro d acc; simp only [writeBuildLive]; exact lcl_SeqOnly_refl d
  | cons p rest ih =>
    intro d acc
    rw [writeBuildLive]
    split
    · next info he hi =>
      split
      · split
        · exact ih _ _
        · have h1 := lcl_mkRmwReq_seq cfg d p info (-(1 + (acc.rmws.length : Int)))
          rcases hm : mkRmwReq cfg d p info (-(1 + (acc.rmws.length : Int))) with ⟨d1, r⟩
          rw [hm] at h1
          dsimp only at h1 ⊢
          cases r with
          | error e => exact h1
          | ok r => exact lcl_SeqOnly_trans h1 (ih _ _)
      · rcases henc : encodeValue p info with ⟨p1, enc⟩
        dsimp only
        cases enc with
        | none => exact ih _ _
        | some value =>
          dsimp only
          have h1 := lcl_mkWriteReq_seq cfg d p1 info value
          rcases hm : mkWriteReq cfg d p1 info value with ⟨d1, r⟩
          rw [hm] at h1
          dsimp only at h1 ⊢
          cases r with
          | error e => exact h1
          | ok req =>
            dsimp only
            have h2 := lcl_refresh_write_seq (decide (req.messageLen + K.OVERHEAD > C)) d1 req
            generalize (if decide (req.messageLen + K.OVERHEAD > C) = true then req.refresh d1 else (d1, req)) = fr at h2 ⊢
            obtain ⟨d2, req2⟩ := fr
            dsimp only at h2 ⊢
            exact lcl_SeqOnly_trans (lcl_SeqOnly_trans h1 h2) (ih _ _)
    · exact ih _ _

theorem lcl_writeBuildSingles_seq (cfg : Cfg) (C : Nat) (ps : List Parsed) :
    ∀ (d : Cli.Drv) (acc : List Parsed), lcl_SeqOnly d (writeBuildSingles cfg C d acc ps).1 := by
  induction ps with
  | nil => intro d acc; simp only [writeBuildSingles]; exact lcl_SeqOnly_refl d
  | cons p rest ih =>
    intro d acc
    rw [writeBuildSingles]
    split
    · next info he hi =>
      split
      · have h1 := lcl_mkRmwReq_seq cfg d p info (-(1 + (p.requestId : Int)))
        rcases hm : mkRmwReq cfg d p info (-(1 + (p.requestId : Int))) with ⟨d1, r⟩
        rw [hm] at h1
        dsimp only at h1 ⊢
        cases r with
        | error e => exact h1
        | ok r =>
          dsimp only
          have h3 := ih d1 acc
          rcases hrec : writeBuildSingles cfg C d1 acc rest with ⟨d2, more⟩
          rw [hrec] at h3
          exact lcl_SeqOnly_trans h1 h3
      · rcases henc : encodeValue p info with ⟨p1, enc⟩
        dsimp only
        cases enc with
        | none => exact ih _ _
        | some value =>
          dsimp only
          have h1 := lcl_mkWriteReq_seq cfg d p1 info value
          rcases hm : mkWriteReq cfg d p1 info value with ⟨d1, r⟩
          rw [hm] at h1
          dsimp only at h1 ⊢
          cases r with
          | error e => exact h1
          | ok req =>
            dsimp only
            have h2 := lcl_refresh_write_seq (decide (value.length + req.messageLen > C)) d1 req
            generalize (if decide (value.length + req.messageLen > C) = true then req.refresh d1 else (d1, req)) = fr at h2 ⊢
            obtain ⟨d2, req2⟩ := fr
            dsimp only at h2 ⊢
            have h3 := ih d2 (replaceParsed acc p1)
            rcases hrec : writeBuildSingles cfg C d2 (replaceParsed acc p1) rest with ⟨d3, more⟩
            rw [hrec] at h3
            exact lcl_SeqOnly_trans (lcl_SeqOnly_trans h1 h2) h3
    · exact ih _ _

theorem lcl_writeBuildRequests_seq (cfg : Cfg) (d : Cli.Drv) (ps : List Parsed) :
    lcl_SeqOnly d (writeBuildRequests cfg d ps).1 := by
  unfold writeBuildRequests
  dsimp only
  split
  · have h1 := lcl_writeBuildLive_seq cfg d.connectionSize ps d { parsed := ps }
    rcases hl : writeBuildLive cfg d.connectionSize d { parsed := ps } ps with ⟨d1, b⟩
    rw [hl] at h1
    dsimp only at h1 ⊢
    cases b with
    | error e => exact h1
    | ok b =>
      dsimp only
      exact lcl_SeqOnly_trans h1 (lcl_drawSeqs_seq _ d1)
  · exact lcl_writeBuildSingles_seq cfg d.connectionSize ps d ps

/-! ### what is reachable by drawing sequence numbers and sending connected requests -/

/-- `w'` is reached from `w` by steps that change the state of the sequence counter and by sends of connected
    requests through `CIPDriver.send` -/
inductive lcl_Reach {σ} (hook : ObjHook σ) : Cli.World σ → Cli.World σ → Prop
  | refl (w : Cli.World σ) : lcl_Reach hook w w
  | draw {w w' : Cli.World σ} (v : Nat) : lcl_Reach hook w w' →
      lcl_Reach hook w { w' with drv := { w'.drv with seqVal := v } }
  | send {w w' : Cli.World σ} (seq : Nat) (msg : Bytes) : lcl_Reach hook w w' →
      lcl_Reach hook w (Cli.sendReq hook w' (.sendUnit seq msg) false).1

theorem lcl_Reach_trans {σ} {hook : ObjHook σ} {a b c : Cli.World σ} (h1 : lcl_Reach hook a b)
    (h2 : lcl_Reach hook b c) : lcl_Reach hook a c := by
  induction h2 with
  | refl => exact h1
  | draw v _ ih => exact .draw v ih
  | send seq msg _ ih => exact .send seq msg ih

theorem lcl_Reach_seqOnly {σ} {hook : ObjHook σ} {w w' : Cli.World σ} (d : Cli.Drv) (h : lcl_Reach hook w w')
    (hd : lcl_SeqOnly w'.drv d) : lcl_Reach hook w { w' with drv := d } := by
  obtain ⟨v, rfl⟩ := hd
  exact .draw v h

theorem lcl_Reach_next {σ} {hook : ObjHook σ} {w w' : Cli.World σ} (h : lcl_Reach hook w w') :
    lcl_Reach hook w { w' with drv := w'.drv.nextSeq.2 } :=
  lcl_Reach_seqOnly _ h (lcl_SeqOnly_next _)

theorem lcl_Reach_sendUnit {σ} {hook : ObjHook σ} {w w' : Cli.World σ} (seq : Nat) (msg : Bytes)
    (h : lcl_Reach hook w w') : lcl_Reach hook w (sendUnit hook w' seq msg).1 := .send seq msg h

theorem lcl_readFragLoop_reach {σ} (hook : ObjHook σ) (req : ReadReq) (fuel : Nat) :
    ∀ (w : Cli.World σ) (seq off : Nat) (acc : Bytes) (allOk : Bool),
      lcl_Reach hook w (readFragLoop hook req fuel w seq off acc allOk).1 := by
  induction fuel with
  | zero => intro w seq off acc allOk; simp only [readFragLoop]; exact .refl w
  | succ n ih =>
    intro w seq off acc allOk
    rw [readFragLoop]
    have h1 : lcl_Reach hook w (sendUnit hook w seq (Cl.readFragMsg req.path req.elements off)).1 :=
      lcl_Reach_sendUnit _ _ (.refl w)
    rcases hs : sendUnit hook w seq (Cl.readFragMsg req.path req.elements off) with ⟨w1, r⟩
    rw [hs] at h1
    dsimp only at h1 ⊢
    cases r with
    | error e => exact h1
    | ok raw =>
      dsimp only
      split
      · split <;> exact h1
      · split
        · exact lcl_Reach_trans (lcl_Reach_next h1) (ih _ _ _ _ _)
        · split
          · exact h1
          · split
            · split <;> exact h1
            · exact h1

theorem lcl_writeFragSend_reach {σ} (hook : ObjHook σ) (req : WriteReq) (segs : List (Nat × Bytes)) :
    ∀ (w : Cli.World σ) (allOk : Bool) (last : Option Resp),
      lcl_Reach hook w (writeFragSend hook req w segs allOk last).1 := by
  induction segs with
  | nil => intro w allOk last; simp only [writeFragSend]; exact .refl w
  | cons x rest ih =>
    intro w allOk last
    obtain ⟨off, seg⟩ := x
    rw [writeFragSend]
    dsimp only
    have h1 : lcl_Reach hook w (sendUnit hook { w with drv := w.drv.nextSeq.2 } w.drv.nextSeq.1
        (Cl.writeFragMsg req.path req.typeBytes req.elements off seg)).1 :=
      lcl_Reach_sendUnit _ _ (lcl_Reach_next (.refl w))
    rcases hs : sendUnit hook { w with drv := w.drv.nextSeq.2 } w.drv.nextSeq.1
        (Cl.writeFragMsg req.path req.typeBytes req.elements off seg) with ⟨w1, r⟩
    rw [hs] at h1
    dsimp only at h1 ⊢
    cases r with
    | error e => exact h1
    | ok raw => exact lcl_Reach_trans h1 (ih _ _ _)

theorem lcl_sendWriteFragmented_reach {σ} (hook : ObjHook σ) (w : Cli.World σ) (req : WriteReq) :
    lcl_Reach hook w (sendWriteFragmented hook w req).1 := by
  unfold sendWriteFragmented
  dsimp only
  split
  · exact .refl w
  · split
    · exact .refl w
    · split
      · exact .refl w
      · have h1 := lcl_writeFragSend_reach hook req
          (K.writeFragments (Cl.writeSegSize w.drv.connectionSize req.path req.typeBytes) req.value) w true none
        rcases hw : writeFragSend hook req w
          (K.writeFragments (Cl.writeSegSize w.drv.connectionSize req.path req.typeBytes) req.value) true none with ⟨w1, r⟩
        rw [hw] at h1
        dsimp only at h1 ⊢
        cases r with
        | error e => exact h1
        | ok x =>
          obtain ⟨allOk, lastr⟩ := x
          dsimp only
          split <;> exact h1

theorem lcl_sendRequest_reach {σ} (hook : ObjHook σ) (w : Cli.World σ) (rs : Results) (q : Request) :
    lcl_Reach hook w (sendRequest hook w rs q).1 := by
  have su : ∀ (seq : Nat) (msg : Bytes), lcl_Reach hook w (sendUnit hook w seq msg).1 :=
    fun seq msg => lcl_Reach_sendUnit seq msg (.refl w)
  cases q with
  | read req =>
    have := su req.seq (Cl.readMsg req.path req.elements)
    rw [sendRequest]
    generalize sendUnit hook w req.seq (Cl.readMsg req.path req.elements) = res at this ⊢
    obtain ⟨w1, r⟩ := res
    cases r <;> exact this
  | readFrag req =>
    have := lcl_readFragLoop_reach hook req FRAG_FUEL w req.seq 0 [] true
    rw [sendRequest]
    generalize readFragLoop hook req FRAG_FUEL w req.seq 0 [] true = res at this ⊢
    obtain ⟨w1, r⟩ := res
    cases r with
    | error e => exact this
    | ok x => obtain ⟨resp, v, dt⟩ := x; exact this
  | write req =>
    have := su req.seq (Cl.writeMsg req.path req.typeBytes req.elements req.value)
    rw [sendRequest]
    generalize sendUnit hook w req.seq (Cl.writeMsg req.path req.typeBytes req.elements req.value) = res at this ⊢
    obtain ⟨w1, r⟩ := res
    cases r <;> exact this
  | writeFrag req =>
    have := lcl_sendWriteFragmented_reach hook w req
    rw [sendRequest]
    generalize sendWriteFragmented hook w req = res at this ⊢
    obtain ⟨w1, r⟩ := res
    cases r <;> exact this
  | rmw req =>
    rw [sendRequest]
    cases hm : rmwMessage req with
    | error e => exact .refl w
    | ok msg =>
      dsimp only
      have := su req.seq msg
      generalize sendUnit hook w req.seq msg = res at this ⊢
      obtain ⟨w1, r⟩ := res
      cases r <;> exact this
  | multiRead seq reqs =>
    have := su seq (Cl.multiMsg (reqs.map fun q => Cl.readMsg q.path q.elements))
    rw [sendRequest]
    generalize sendUnit hook w seq (Cl.multiMsg (reqs.map fun q => Cl.readMsg q.path q.elements)) = res at this ⊢
    obtain ⟨w1, r⟩ := res
    cases r with
    | error e => exact this
    | ok raw => dsimp only; split <;> exact this
  | multiWrite seq reqs =>
    have := su seq (Cl.multiMsg (reqs.map fun q => Cl.writeMsg q.path q.typeBytes q.elements q.value))
    rw [sendRequest]
    generalize sendUnit hook w seq (Cl.multiMsg (reqs.map fun q => Cl.writeMsg q.path q.typeBytes q.elements q.value)) = res at this ⊢
    obtain ⟨w1, r⟩ := res
    cases r with
    | error e => exact this
    | ok raw => dsimp only; split <;> exact this

theorem lcl_sendRequests_reach {σ} (hook : ObjHook σ) (reqs : List Request) :
    ∀ (w : Cli.World σ) (rs : Results), lcl_Reach hook w (sendRequests hook w rs reqs).1 := by
  induction reqs with
  | nil => intro w rs; exact .refl w
  | cons q rest ih =>
    intro w rs
    rw [sendRequests]
    have h1 := lcl_sendRequest_reach hook w rs q
    generalize sendRequest hook w rs q = res at h1 ⊢
    obtain ⟨w1, r⟩ := res
    dsimp only at h1 ⊢
    cases r with
    | error e => exact h1
    | ok rs1 => exact lcl_Reach_trans h1 (ih w1 rs1)

/-- `read`: the world after the call is the world the `@with_forward_open` decorator left when the decorator
    raised; otherwise it is reached from that world by draws of sequence numbers and sends of connected requests -/
theorem lcl_read_reach {σ} (hook : ObjHook σ) (cfg : Cfg) (w : Cli.World σ) (tags : List Name)
    (r0 : Cli.World σ × Except Exn Unit) (h0 : Cli.ensureForwardOpen hook Cli.FUEL w = r0) :
    (∀ e, r0.2 = .error e → (read hook cfg w tags).1 = r0.1) ∧
    (∀ u, r0.2 = .ok u → lcl_Reach hook r0.1 (read hook cfg w tags).1) := by
  unfold read
  rw [h0]
  obtain ⟨w0, pre⟩ := r0
  dsimp only
  cases pre with
  | error e => exact ⟨fun _ _ => rfl, fun u h => nomatch h⟩
  | ok u =>
    refine ⟨(fun e h => nomatch h), fun _ _ => ?_⟩
    dsimp only
    have hb := lcl_readBuildRequests_seq cfg w0.drv (parseRequestedTags cfg.tags false tags)
    rcases hbr : readBuildRequests cfg w0.drv (parseRequestedTags cfg.tags false tags) with ⟨d1, reqs⟩
    rw [hbr] at hb
    dsimp only at hb ⊢
    have h1 : lcl_Reach hook w0 { w0 with drv := d1 } := lcl_Reach_seqOnly d1 (.refl w0) hb
    cases reqs with
    | error e => exact h1
    | ok reqs =>
      dsimp only
      have h2 := lcl_sendRequests_reach hook reqs { w0 with drv := d1 } []
      rcases hs : sendRequests hook { w0 with drv := d1 } [] reqs with ⟨w2, rs⟩
      rw [hs] at h2
      dsimp only at h2 ⊢
      cases rs with
      | error e => exact lcl_Reach_trans h1 h2
      | ok rs =>
        dsimp only
        split <;> exact lcl_Reach_trans h1 h2

/-- `write`: the same -/
theorem lcl_write_reach {σ} (hook : ObjHook σ) (cfg : Cfg) (w : Cli.World σ) (tvs : List (Name × PyVal))
    (r0 : Cli.World σ × Except Exn Unit) (h0 : Cli.ensureForwardOpen hook Cli.FUEL w = r0) :
    (∀ e, r0.2 = .error e → (write hook cfg w tvs).1 = r0.1) ∧
    (∀ u, r0.2 = .ok u → lcl_Reach hook r0.1 (write hook cfg w tvs).1) := by
  unfold write
  rw [h0]
  obtain ⟨w0, pre⟩ := r0
  dsimp only
  cases pre with
  | error e => exact ⟨fun _ _ => rfl, fun u h => nomatch h⟩
  | ok u =>
    refine ⟨(fun e h => nomatch h), fun _ _ => ?_⟩
    dsimp only
    generalize ((parseRequestedTags cfg.tags true (tvs.map (·.1))).zip (tvs.map (·.2)) |>.map
      fun x => ({ x.1 with value := x.2 } : Parsed)) = parsed
    have hb := lcl_writeBuildRequests_seq cfg w0.drv parsed
    rcases hbr : writeBuildRequests cfg w0.drv parsed with ⟨d1, built⟩
    rw [hbr] at hb
    dsimp only at hb ⊢
    have h1 : lcl_Reach hook w0 { w0 with drv := d1 } := lcl_Reach_seqOnly d1 (.refl w0) hb
    cases built with
    | error e => exact h1
    | ok x =>
      obtain ⟨parsed', reqs⟩ := x
      dsimp only
      have h2 := lcl_sendRequests_reach hook reqs { w0 with drv := d1 } []
      rcases hs : sendRequests hook { w0 with drv := d1 } [] reqs with ⟨w2, rs⟩
      rw [hs] at h2
      dsimp only at h2 ⊢
      cases rs with
      | error e => exact lcl_Reach_trans h1 h2
      | ok rs =>
        dsimp only
        split
        · exact lcl_Reach_trans h1 h2
        · split <;> exact lcl_Reach_trans h1 h2

end Pycomm.Lgx.Drv
