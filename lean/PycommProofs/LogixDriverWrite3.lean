/-
  C02 at the driver level, third part: structure members, strings, whole structures.
  `LogixDriver.write` through the whole stack of the model (tag-string parsing, tag database, `encode_value`, request
  building, `CIPDriver.send`, encapsulation, the reference target's encapsulation layer / message router / Logix
  services, reply framing, response classes, result assembly) for
    * an elementary member `udt.member` of a structure tag: exactly the member's bytes change;
    * a string tag (LEN/DATA structure recognised as a string type) with a `str`: LEN, the characters, ZERO padding
      up to the capacity — the whole tag memory is rewritten; characters beyond the capacity are dropped silently;
    * a whole structure tag with a dict: the tag memory becomes the structure encoding (padding and hidden members
      zeroed);
    * a packed BOOL member `udt.flag`: one plain Write Tag of type BOOL, the controller changes exactly that bit of the
      host byte;
    * a string / structure tag too large for one packet: Write Tag Fragmented, the value arrives once;
  and the read-back of each through the theorems of LogixDriverRead3.

  Layers (lemmas usable on their own):
    LDWrite3A  `ldw3_encodeValue`, `ldw3_packedType_struct`, `ldw3_typeBytes_struct`, `ldw3_write_single` (any type
               marker, any accepted controller transition)
    LDWrite3B  `ldw3_write_member`, `ldw3_write_structTag`, `ldw3_proj_whole`
    LDWrite3C  `ldw3_strBytes`, `ldw3_encode_fixedStr`, `ldw3_strBytes_len` / `_data` / `_pad` / `_read`
    LDWrite3E  `ldw3_frag_loop`, `ldw3_sendWriteFragmented`, `ldw3_write_single_frag` (Write Tag Fragmented for any type
               marker), `ldw3_write_structTag_frag`, `ldw3_segSize`
    LDWrite3D  `ldw3_resolve_boolMember`, `ldw3_bitByte`, `ldw3_bitByte_law`, `ldw3_exchange_bool`, `ldw3_write_boolMember`
-/
import PycommProofs.LDWrite3C
import PycommProofs.LDWrite3D
import PycommProofs.LDWrite3E
namespace Pycomm.Lgx.Drv
open Pycomm Pycomm.Tgt Pycomm.Path Pycomm.Reply Pycomm.Encap Pycomm.Lgx Pycomm.Lgx.E2E

/-- a `str` is not a `bytes` object -/
theorem ldw3_str_not_bytes (cs : Name) (b : Bytes) : PyVal.str cs ≠ .bytes b := by simp

/-- a dict is not a `bytes` object -/
theorem ldw3_dict_not_bytes (kvs : List (Name × PyVal)) (b : Bytes) : PyVal.dict kvs ≠ .bytes b := by simp

/-- the memory after a write inside it, from the first written byte on: the written bytes, then the old tail -/
theorem ldw3_splice_drop0 (m b : Bytes) (o : Nat) (ho : o + b.length ≤ m.length) :
    (splice m o b).drop o = b ++ m.drop (o + b.length) := by
  have := ldw2_splice_drop m b o 0 ho (Nat.zero_le _)
  simpa using this

/-- only a dict is encoded by a `StructTag` -/
theorem ldw3_structTag_dict (ms : TMembers) (bits : List (Name × Nat × Nat)) (priv : List Name) (size : Nat) (v : PyVal)
    (bytes : Bytes) (h : encode (.structTag ms bits priv size) v = .ok bytes) : ∃ kvs, v = .dict kvs := by
  cases v with
  | dict kvs => exact ⟨kvs, rfl⟩
  | _ => simp [encode] at h

/-- a string that fits the capacity is kept whole -/
theorem ldw3_take_fits (cap : Nat) (cs : Name) (h : cs.length ≤ cap) : cs.take cap = cs :=
  List.take_of_length_le h

-- PROPERTY THEOREMS

/-- C02, driver level, structure member: writing `udt.member`, where `udt` is a controller-scope structure tag and
    `member` an elementary (non-BOOL, non-bit-string) scalar member of its template, with a canonical value of the
    member's type on a healthy connected driver returns exactly one error-free (truthy) Tag named `udt.member`
    carrying the caller's value and the member's type name. One plain Write Tag request is sent whose request path is
    SYMBOLIC — the two names — whatever `use_instance_ids` says, carrying the member's type code and the codec's
    encoding `bytes` of the value (`sz` bytes); one frame, one sequence number. The controller's project afterwards
    is `written st.proj loc m.offset bytes` for the location `loc` of the member inside the tag: by
    `write_struct_member_effect` exactly the bytes `[m.offset, m.offset + sz)` of the TAG's memory hold `bytes`,
    every other byte of the tag, every other symbol, the templates and the program scopes are unchanged, and ONE
    write-log entry `(instance, m.offset, sz)` is appended. The resulting world is healthy again.

    Hypotheses: those of `read_struct_member_e2e` on the world, the symbol, the template, the member and the tag
    database (`hw` … `hminfo`), and
    * `hcanon`, `henc`  `v` is a canonical value of the member's type and `bytes` its encoding;
    * `hC`   the request stays below the fragmentation threshold of the single-request path, which counts the value
             twice (logix_driver.py:1225): `name lengths + 2·size + 14` bytes suffice;
    * `hT`   the request fits the size the target granted (`name lengths + size + 14` bytes suffice). -/
theorem write_struct_member_e2e (cfg : Cfg) (w : Cli.World Ext) (sess : Nat) (cidb : Bytes) (conn : Conn)
    (st : LState) (s : Symbol) (tid : Nat) (tm : Template) (m : MemberDef) (info minfo : TagInfo)
    (c sz : Nat) (name : Name) (t : Ty) (v : PyVal) (bytes : Bytes)
    (hw : ldr_Healthy w sess cidb conn) (hlogix : w.net.target.ext.logix = some st)
    (hs : s ∈ st.proj.controller)
    (hbytes : ∀ s' ∈ st.proj.controller, ∀ ch ∈ s'.name, ch < 256)
    (huniqN : ∀ s' ∈ st.proj.controller, s'.name = s.name → s' = s)
    (huniqI : ∀ s' ∈ st.proj.controller, s'.inst = s.inst → s' = s)
    (hid : PlainIdent s.name)
    (hty : elTyOfWord s.symbolType = .struct tid) (htm : st.proj.template? tid = some tm)
    (hm : m ∈ tm.members) (hmbytes : ∀ m' ∈ tm.members, ∀ ch ∈ m'.name, ch < 256)
    (hmuniq : ∀ m' ∈ tm.members, m'.name = m.name → m' = m)
    (hmid : PlainIdent m.name) (hnum : PyStr.isDigit m.name = false) (hnl : s.name.length + m.name.length ≤ 500)
    (hmty : elTyOfWord m.typeWord = .atomic c) (hnb : c ≠ 0xC1) (hscalar : m.info = 0)
    (hat : atomicOfCode c = some (name, t)) (hb : t.isBits = none) (hsz : atomicSize c = some sz)
    (hin : m.offset + sz ≤ s.mem.length)
    (hget : cfg.tags.get? s.name = some info) (hk : info.core.tagType = .struct)
    (hmget : info.members.get? m.name = some minfo) (hminfo : ldr3_MemberOf minfo name t)
    (hcanon : Canon t v) (henc : encode t v = .ok bytes)
    (hC : s.name.length + m.name.length + 2 * sz + 14 ≤ w.drv.connectionSize)
    (hT : s.name.length + m.name.length + sz + 14 ≤ conn.size) :
    ∃ w' frm, write hookAll cfg w [(s.name ++ [46] ++ m.name, v)] =
        (w', .ok [{ tag := s.name ++ [46] ++ m.name, value := v, type := some name, error := none }]) ∧
      (({ tag := s.name ++ [46] ++ m.name, value := v, type := some name, error := none } : LTag).truthy = true) ∧
      w'.drv = w.drv.nextSeq.2 ∧ w'.net.sent = w.net.sent ++ [frm] ∧
      w'.net.target.ext =
        { w.net.target.ext with
          logix := some { st with proj := written st.proj (ldr3_locMember s m c) m.offset bytes } } ∧
      bytes.length = sz ∧
      ldr_Healthy w' sess cidb { conn with lastSeq := some w.drv.nextSeq.1 } := by
  obtain ⟨w', frm, h1, h2, h3, h4, h5, h6⟩ := ldw3_write_member cfg w sess cidb conn st s tid tm m info minfo c sz name t v
    bytes hw hlogix hs hbytes huniqN huniqI hid hty htm hm hmbytes hmuniq hmid hnum hnl hmty hnb hscalar hat hb hsz hin hget
    hk hmget hminfo hcanon henc hC hT
  obtain ⟨haty, _, _, _, _⟩ := ldr_atomic_table c sz name t hat hb hsz
  have hvn : v ≠ .none := by
    rcases ldr_atomicTy_shape c t haty hb with rfl | ⟨k, rfl⟩ | rfl | rfl
    · obtain ⟨x, rfl⟩ := hcanon; simp
    · obtain ⟨x, rfl, _⟩ := hcanon; simp
    · obtain ⟨x, _, rfl, _⟩ := hcanon; simp
    · obtain ⟨x, rfl, _⟩ := hcanon; simp
  refine ⟨w', frm, h1, ?_, h2, h3, h4, h5, h6⟩
  unfold LTag.truthy
  cases v <;> simp at hvn ⊢

/-- C02, what `written p loc m.offset bytes` of `write_struct_member_e2e` means, for the location `loc` of the member
    `m` (offset `m.offset`, `sz` bytes) inside the controller-scope structure symbol `s`: the project afterwards is
    `ldw2_proj p s m.offset bytes`, in which
    * templates, program scopes, the number and order of the controller-scope symbols are unchanged;
    * every other controller-scope symbol is unchanged byte for byte, and `s` is the only symbol with its instance id;
    * the changed symbol keeps name, instance id, type word, dimensions and the length of its memory;
    * its memory holds exactly `bytes` at the member's bytes `[m.offset, m.offset + sz)`, and EVERY other byte of the
      structure — every other member, every padding byte — is unchanged;
    * ONE write-log entry `(instance, m.offset, sz)` was appended: the write was applied exactly once. -/
theorem write_struct_member_effect (p : Project) (s : Symbol) (m : MemberDef) (c sz : Nat) (bytes : Bytes)
    (huniqI : ∀ s' ∈ p.controller, s'.inst = s.inst → s' = s)
    (hin : m.offset + sz ≤ s.mem.length) (hbl : bytes.length = sz) :
    written p (ldr3_locMember s m c) m.offset bytes = ldw2_proj p s m.offset bytes ∧
    (ldw2_proj p s m.offset bytes).templates = p.templates ∧ (ldw2_proj p s m.offset bytes).programs = p.programs ∧
    (ldw2_proj p s m.offset bytes).controller.length = p.controller.length ∧
    (∀ (j : Nat) (x : Symbol), p.controller[j]? = some x →
        (ldw2_proj p s m.offset bytes).controller[j]? =
          some (if x.inst = s.inst then ldw2_sym s m.offset bytes else x) ∧
        (x.inst = s.inst → x = s)) ∧
    ((ldw2_sym s m.offset bytes).inst = s.inst ∧ (ldw2_sym s m.offset bytes).name = s.name ∧
      (ldw2_sym s m.offset bytes).symbolType = s.symbolType ∧ (ldw2_sym s m.offset bytes).dims = s.dims) ∧
    (ldw2_sym s m.offset bytes).mem.length = s.mem.length ∧
    ((ldw2_sym s m.offset bytes).mem.drop m.offset).take sz = bytes ∧
    (∀ j, (j < m.offset ∨ m.offset + sz ≤ j) → (ldw2_sym s m.offset bytes).mem[j]? = s.mem[j]?) ∧
    (ldw2_proj p s m.offset bytes).writeLog = p.writeLog ++ [(s.inst, m.offset, sz)] := by
  obtain ⟨h1, h2, h3, h4, h5, h6, h7, h8, h9⟩ := ldw2_effect p s m.offset bytes huniqI (by omega)
  rw [hbl] at h7 h8 h9
  exact ⟨ldw2_written_eq p s _ _ bytes rfl rfl, h1, h2, h3, h4, h5, h6, h7, h8, h9⟩

/-- C02, driver level, strings: writing a controller-scope STRING-like structure tag (a LEN/DATA template the upload
    recognised as a string type: the `type_class` of the entry is `FixedSizeString(cap)` with a 4-byte length) by its
    plain name with a `str` value `cs` returns exactly one error-free (truthy) Tag carrying the tag name, the CALLER's
    value `cs` (all of it, also when it is longer than the capacity) and the NAME of the string type. One plain Write
    Tag request is sent carrying the structure marker `A0 02` + handle and `ldw3_strBytes cap cs`, the whole
    structure: LEN = the number of characters kept (`min |cs| cap` — `value[:size]`, custom_types.py:71), the
    characters kept as Latin-1 bytes, and ZERO bytes up to the capacity. The controller's project afterwards is
    `written st.proj loc 0 (ldw3_strBytes cap cs)` for the location `loc` of the whole tag: by `write_string_effect`
    the tag's memory IS those bytes — in particular every byte of DATA beyond the new length is zero, whatever it
    held before —, nothing else changes, and ONE write-log entry `(instance, 0, 4 + cap)` is appended.

    Hypotheses: those of `read_string_e2e` on the world, the symbol and the tag database, and
    * `h64`    the structure has at most 64000 bytes (one encapsulation packet);
    * `hh`     the structure handle in the tag database is the template's handle (the controller checks it);
    * `hchars` the characters kept are Latin-1 (`value.encode("iso-8859-1")` succeeds);
    * `hC`     the request stays below the fragmentation threshold of the single-request path, which counts the value
               twice: `2·structure size + name length + 22` bytes suffice;
    * `hT`     the request fits the size the target granted (`structure size + name length + 22` bytes suffice). -/
theorem write_string_e2e (cfg : Cfg) (w : Cli.World Ext) (sess : Nat) (cidb : Bytes) (conn : Conn)
    (st : LState) (s : Symbol) (tid : Nat) (tm : Template) (info : TagInfo) (si : StructInfo) (cap : Nat) (cs : Name)
    (hw : ldr_Healthy w sess cidb conn) (hlogix : w.net.target.ext.logix = some st)
    (hs : s ∈ st.proj.controller)
    (hbytes : ∀ s' ∈ st.proj.controller, ∀ ch ∈ s'.name, ch < 256)
    (huniqN : ∀ s' ∈ st.proj.controller, s'.name = s.name → s' = s)
    (huniqI : ∀ s' ∈ st.proj.controller, s'.inst = s.inst → s' = s)
    (hid : PlainIdent s.name) (hinst : s.inst < 2 ^ 32)
    (hty : elTyOfWord s.symbolType = .struct tid) (htm : st.proj.template? tid = some tm)
    (hlen : s.mem.length = tm.size) (htsz : tm.size = 4 + cap) (hcap : 1 ≤ cap) (h64 : tm.size ≤ 64000)
    (hget : cfg.tags.get? s.name = some info) (hinfo : ldr3_StructOf info si (.fixedStr cap .udint) s.inst)
    (hnd : si.name ≠ Drv.nm "DWORD") (hh : si.handle = tm.handle)
    (hchars : ∀ ch ∈ cs.take cap, ch < 256)
    (hC : 2 * tm.size + s.name.length + 22 ≤ w.drv.connectionSize) (hT : tm.size + s.name.length + 22 ≤ conn.size) :
    ∃ w' frm, write hookAll cfg w [(s.name, .str cs)] =
        (w', .ok [{ tag := s.name, value := .str cs, type := some si.name, error := none }]) ∧
      (({ tag := s.name, value := .str cs, type := some si.name, error := none } : LTag).truthy = true) ∧
      w'.drv = w.drv.nextSeq.2 ∧ w'.net.sent = w.net.sent ++ [frm] ∧
      w'.net.target.ext =
        { w.net.target.ext with
          logix := some { st with proj := written st.proj (ldr3_locStruct s tid) 0 (ldw3_strBytes cap cs) } } ∧
      ldr_Healthy w' sess cidb { conn with lastSeq := some w.drv.nextSeq.1 } := by
  obtain ⟨henc, hbl⟩ := ldw3_encode_fixedStr cap cs (by omega) hchars
  obtain ⟨w', frm, h1, h2, h3, h4, h5⟩ := ldw3_write_structTag cfg w sess cidb conn st s tid tm info si _ (.str cs)
    (ldw3_strBytes cap cs) hw hlogix hs hbytes huniqN huniqI hid hinst hty htm hlen (by omega) h64 hget hinfo hnd hh
    (ldw3_str_not_bytes cs) (by intro n t'; simp) henc (by rw [hbl, htsz]) hC hT
  exact ⟨w', frm, h1, rfl, h2, h3, h4, h5⟩

/-- C02, what `written p loc 0 (ldw3_strBytes cap cs)` of `write_string_e2e` means, for the location `loc` of the
    whole controller-scope string symbol `s` (4 + `cap` bytes): the project afterwards is
    `ldw_proj p s (ldw3_strBytes cap cs)` — the old project with the memory of `s` REPLACED by those bytes — in which
    * templates, program scopes, the number and order of the controller-scope symbols are unchanged, every other
      controller-scope symbol is unchanged byte for byte;
    * the new memory has the old length 4 + `cap`;
    * LEN (bytes 0–3) is the little-endian number `k = min |cs| cap` of characters kept;
    * DATA[0:k] are the first `k` characters of `cs`, one byte each;
    * DATA[k:cap] — every byte beyond the new length — is ZERO: a shorter string leaves nothing of a longer old one;
    * ONE write-log entry `(instance, 0, 4 + cap)` was appended. -/
theorem write_string_effect (p : Project) (s : Symbol) (tid cap : Nat) (cs : Name)
    (huniqI : ∀ s' ∈ p.controller, s'.inst = s.inst → s' = s) (hlen : s.mem.length = 4 + cap) :
    written p (ldr3_locStruct s tid) 0 (ldw3_strBytes cap cs) = ldw_proj p s (ldw3_strBytes cap cs) ∧
    (ldw_proj p s (ldw3_strBytes cap cs)).templates = p.templates ∧
    (ldw_proj p s (ldw3_strBytes cap cs)).programs = p.programs ∧
    (ldw_proj p s (ldw3_strBytes cap cs)).controller.length = p.controller.length ∧
    (∀ (i : Nat) (x : Symbol), p.controller[i]? = some x →
        (ldw_proj p s (ldw3_strBytes cap cs)).controller[i]? =
          some (if x.inst = s.inst then { s with mem := ldw3_strBytes cap cs } else x) ∧
        (x.inst = s.inst → x = s)) ∧
    (ldw3_strBytes cap cs).length = 4 + cap ∧
    (cs.take cap).length = min cs.length cap ∧
    (ldw3_strBytes cap cs).take 4 = le 4 (cs.take cap).length ∧
    ((ldw3_strBytes cap cs).drop 4).take (cs.take cap).length = (cs.take cap).map UInt8.ofNat ∧
    (∀ j, 4 + (cs.take cap).length ≤ j → j < 4 + cap → (ldw3_strBytes cap cs)[j]? = some 0) ∧
    (ldw_proj p s (ldw3_strBytes cap cs)).writeLog = p.writeLog ++ [(s.inst, 0, 4 + cap)] := by
  have hk : (cs.take cap).length ≤ cap := by rw [ldw3_take_len]; omega
  have hbl : (ldw3_strBytes cap cs).length = 4 + cap := by
    simp only [ldw3_strBytes, List.length_append, le_length, List.length_map, zeros, List.length_replicate]; omega
  refine ⟨?_, rfl, rfl, ?_, ?_, hbl, ldw3_take_len cap cs, ldw3_strBytes_len cap cs, ldw3_strBytes_data cap cs,
    ldw3_strBytes_pad cap cs, ?_⟩
  · rw [ldw2_written_eq p s _ 0 _ rfl rfl, ldw3_proj_whole p s _ huniqI (by omega)]
  · simp [ldw_proj, ldw_ctl]
  · intro i x hx
    exact ldw_ctl_other p.controller s _ huniqI i x hx
  · rw [← hbl]; rfl

-- STATEMENT CHANGED: whole-structure writes are stated for DICT values only, not "dict/list": `StructTag._encode`
-- (custom_types.py:210) needs `values.items()`; a list value makes `encode_value` fail and `write` returns a falsy Tag
-- "Invalid Tag Request - RequestError('Unable to create a writable value')" without sending anything (counterexample
-- evaluated in `ExW3` below; `ldw3_structTag_dict`: whatever the codec encodes is a dict).
/-- C02, driver level, whole structures: writing a controller-scope structure tag by its plain name with a value `v`
    that the `type_class` of the tag (a `StructTag`) encodes to `structure_size` bytes (`henc`, `hbl`; for a dict
    over a well-formed layout see `write_struct_e2e_dict`) returns exactly one error-free (truthy) Tag carrying the
    tag name, the caller's value and the name of the structure type. One plain Write Tag request is sent carrying the
    structure marker `A0 02` + handle and `bytes`; one frame, one sequence number. The controller's project afterwards
    is `written st.proj loc 0 bytes` for the location `loc` of the whole tag: by `write_struct_effect` the tag's
    memory IS the structure encoding `bytes`, nothing else changes, ONE write-log entry `(instance, 0, size)` is
    appended.

    Hypotheses: those of `read_struct_e2e` on the world, the symbol and the tag database, `h64`, `hh`, `hC`, `hT` as
    in `write_string_e2e`, and
    * `henc`, `hbl`   the codec encodes `v` to `bytes`, as many as the structure has (only a dict is encoded:
                      `ldw3_structTag_dict`; a `bytes` value, which `encode_value` would send raw, is excluded by that). -/
theorem write_struct_e2e (cfg : Cfg) (w : Cli.World Ext) (sess : Nat) (cidb : Bytes) (conn : Conn)
    (st : LState) (s : Symbol) (tid : Nat) (tm : Template) (info : TagInfo) (si : StructInfo)
    (ms : TMembers) (bits : List (Name × Nat × Nat)) (priv : List Name) (size : Nat) (v : PyVal) (bytes : Bytes)
    (hw : ldr_Healthy w sess cidb conn) (hlogix : w.net.target.ext.logix = some st)
    (hs : s ∈ st.proj.controller)
    (hbytes : ∀ s' ∈ st.proj.controller, ∀ ch ∈ s'.name, ch < 256)
    (huniqN : ∀ s' ∈ st.proj.controller, s'.name = s.name → s' = s)
    (huniqI : ∀ s' ∈ st.proj.controller, s'.inst = s.inst → s' = s)
    (hid : PlainIdent s.name) (hinst : s.inst < 2 ^ 32)
    (hty : elTyOfWord s.symbolType = .struct tid) (htm : st.proj.template? tid = some tm)
    (hlen : s.mem.length = tm.size) (hpos : 0 < tm.size) (h64 : tm.size ≤ 64000)
    (hget : cfg.tags.get? s.name = some info) (hinfo : ldr3_StructOf info si (.structTag ms bits priv size) s.inst)
    (hnd : si.name ≠ Drv.nm "DWORD") (hh : si.handle = tm.handle)
    (henc : encode (.structTag ms bits priv size) v = .ok bytes) (hbl : bytes.length = tm.size)
    (hC : 2 * tm.size + s.name.length + 22 ≤ w.drv.connectionSize) (hT : tm.size + s.name.length + 22 ≤ conn.size) :
    ∃ w' frm, write hookAll cfg w [(s.name, v)] =
        (w', .ok [{ tag := s.name, value := v, type := some si.name, error := none }]) ∧
      (({ tag := s.name, value := v, type := some si.name, error := none } : LTag).truthy = true) ∧
      w'.drv = w.drv.nextSeq.2 ∧ w'.net.sent = w.net.sent ++ [frm] ∧
      w'.net.target.ext =
        { w.net.target.ext with logix := some { st with proj := written st.proj (ldr3_locStruct s tid) 0 bytes } } ∧
      ldr_Healthy w' sess cidb { conn with lastSeq := some w.drv.nextSeq.1 } := by
  obtain ⟨kvs, rfl⟩ := ldw3_structTag_dict ms bits priv size v bytes henc
  obtain ⟨w', frm, h1, h2, h3, h4, h5⟩ := ldw3_write_structTag cfg w sess cidb conn st s tid tm info si _ (.dict kvs) bytes hw
    hlogix hs hbytes huniqN huniqI hid hinst hty htm hlen hpos h64 hget hinfo hnd hh (ldw3_dict_not_bytes kvs)
    (by intro n t'; simp) henc hbl hC hT
  exact ⟨w', frm, h1, rfl, h2, h3, h4, h5⟩

/-- C02, driver level, whole structures, dict values: for a well-formed template layout (`TagLayout`: members at
    non-decreasing offsets without overlap, of fixed width, inside the structure; bit aliases inside hidden hosts —
    `structTag_roundtrip`) whose size is the template's, and a dict with exactly the visible members (in member
    order, then the bit aliases) whose values are canonical (`TagDict Canon`), `write((name, dict))` succeeds as in
    `write_struct_e2e` with the structure encoding `bytes` of the dict — which has exactly `structure_size` bytes and
    from which the codec decodes the same dict again. -/
theorem write_struct_e2e_dict (cfg : Cfg) (w : Cli.World Ext) (sess : Nat) (cidb : Bytes) (conn : Conn)
    (st : LState) (s : Symbol) (tid : Nat) (tm : Template) (info : TagInfo) (si : StructInfo)
    (ms : TMembers) (bits : List (Name × Nat × Nat)) (priv : List Name) (size : Nat) (kvs : List (Name × PyVal))
    (hw : ldr_Healthy w sess cidb conn) (hlogix : w.net.target.ext.logix = some st)
    (hs : s ∈ st.proj.controller)
    (hbytes : ∀ s' ∈ st.proj.controller, ∀ ch ∈ s'.name, ch < 256)
    (huniqN : ∀ s' ∈ st.proj.controller, s'.name = s.name → s' = s)
    (huniqI : ∀ s' ∈ st.proj.controller, s'.inst = s.inst → s' = s)
    (hid : PlainIdent s.name) (hinst : s.inst < 2 ^ 32)
    (hty : elTyOfWord s.symbolType = .struct tid) (htm : st.proj.template? tid = some tm)
    (hlen : s.mem.length = tm.size) (h64 : tm.size ≤ 64000)
    (hget : cfg.tags.get? s.name = some info) (hinfo : ldr3_StructOf info si (.structTag ms bits priv size) s.inst)
    (hnd : si.name ≠ Drv.nm "DWORD") (hh : si.handle = tm.handle)
    (hsize : size = tm.size) (hl : TagLayout ms bits priv size) (hk : TagDict Canon ms bits priv kvs)
    (hC : 2 * tm.size + s.name.length + 22 ≤ w.drv.connectionSize) (hT : tm.size + s.name.length + 22 ≤ conn.size) :
    ∃ w' frm bytes, write hookAll cfg w [(s.name, .dict kvs)] =
        (w', .ok [{ tag := s.name, value := .dict kvs, type := some si.name, error := none }]) ∧
      (({ tag := s.name, value := .dict kvs, type := some si.name, error := none } : LTag).truthy = true) ∧
      encode (.structTag ms bits priv size) (.dict kvs) = .ok bytes ∧ bytes.length = tm.size ∧
      (∀ rest, decode (.structTag ms bits priv size) (bytes ++ rest) = .ok (.dict kvs, rest)) ∧
      w'.drv = w.drv.nextSeq.2 ∧ w'.net.sent = w.net.sent ++ [frm] ∧
      w'.net.target.ext =
        { w.net.target.ext with logix := some { st with proj := written st.proj (ldr3_locStruct s tid) 0 bytes } } ∧
      ldr_Healthy w' sess cidb { conn with lastSeq := some w.drv.nextSeq.1 } := by
  obtain ⟨bytes, henc, hbl, hdec⟩ := structTag_roundtrip ms bits priv size hl kvs hk
  have hpos : 0 < tm.size := by rw [← hsize]; exact hl.size_pos
  obtain ⟨w', frm, h1, h1', h2, h3, h4, h5⟩ := write_struct_e2e cfg w sess cidb conn st s tid tm info si ms bits priv size
    (.dict kvs) bytes hw hlogix hs hbytes huniqN huniqI hid hinst hty htm hlen hpos h64 hget hinfo hnd hh
    henc (by rw [hbl, hsize]) hC hT
  exact ⟨w', frm, bytes, h1, h1', henc, by rw [hbl, hsize], hdec, h2, h3, h4, h5⟩

/-- C02, what `written p loc 0 bytes` of `write_struct_e2e` means, for the location `loc` of the whole
    controller-scope structure symbol `s` and as many bytes as its memory has: the project afterwards is
    `ldw_proj p s bytes` — the old project with the memory of `s` REPLACED by the structure encoding — in which
    templates, program scopes, the number and order of the controller-scope symbols are unchanged, every other
    controller-scope symbol is unchanged byte for byte, the changed symbol keeps name, instance id, type word and
    dimensions, and ONE write-log entry `(instance, 0, size)` was appended. -/
theorem write_struct_effect (p : Project) (s : Symbol) (tid : Nat) (bytes : Bytes)
    (huniqI : ∀ s' ∈ p.controller, s'.inst = s.inst → s' = s) (hbl : bytes.length = s.mem.length) :
    written p (ldr3_locStruct s tid) 0 bytes = ldw_proj p s bytes ∧
    (ldw_proj p s bytes).templates = p.templates ∧ (ldw_proj p s bytes).programs = p.programs ∧
    (ldw_proj p s bytes).controller.length = p.controller.length ∧
    (∀ (i : Nat) (x : Symbol), p.controller[i]? = some x →
        (ldw_proj p s bytes).controller[i]? = some (if x.inst = s.inst then { s with mem := bytes } else x) ∧
        (x.inst = s.inst → x = s)) ∧
    (ldw_proj p s bytes).writeLog = p.writeLog ++ [(s.inst, 0, s.mem.length)] := by
  refine ⟨?_, rfl, rfl, ?_, ?_, ?_⟩
  · rw [ldw2_written_eq p s _ 0 _ rfl rfl, ldw3_proj_whole p s _ huniqI hbl]
  · simp [ldw_proj, ldw_ctl]
  · intro i x hx
    exact ldw_ctl_other p.controller s _ huniqI i x hx
  · rw [← hbl]; rfl

/-- C02, what the structure encoding of `write_struct_e2e_dict` is byte by byte, for a layout WITHOUT bit aliases
    (a flat definition): it has `size` bytes; every visible member's value, encoded by the member's type, sits at the
    member's offset; and EVERY byte outside the visible members — padding between members, hidden members — is ZERO,
    whatever the tag held there before. -/
theorem write_struct_bytes (ms : TMembers) (priv : List Name) (size : Nat) (kvs : List (Name × PyVal)) (bytes : Bytes)
    (hl : TagLayout ms [] priv size) (hk : TagDict Canon ms [] priv kvs)
    (henc : encode (.structTag ms [] priv size) (.dict kvs) = .ok bytes) :
    bytes.length = size ∧
    (∀ m ∈ ms.toList, m.1 ∉ priv → ∀ wd, fixedWidth m.2.1 = some wd →
      ∃ v enc, dictGet kvs m.1 = some v ∧ encode m.2.1 v = .ok enc ∧ enc.length = wd ∧
        m.2.2 + enc.length ≤ bytes.length ∧ ∀ i, i < enc.length → bytes[m.2.2 + i]? = enc[i]?) ∧
    (∀ j, j < size → (∀ m ∈ ms.toList, m.1 ∉ priv → ∀ wd, fixedWidth m.2.1 = some wd → ¬ (m.2.2 ≤ j ∧ j < m.2.2 + wd)) →
      bytes[j]? = some 0) := by
  obtain ⟨_, hvis, _⟩ := hk
  have hzl : (zeros size).length = size := by simp [zeros]
  obtain ⟨v1, he1, hl1, hout, hsl1⟩ := rtx_encTM priv size kvs ms 0 (zeros size) hl.members hzl
    (fun m hm hmp wd hw => by
      obtain ⟨v, hg, hp⟩ := hvis m hm hmp
      obtain ⟨enc, h1, h2, h3⟩ := canon_fixed_roundtrip _ _ _ hp hw
      exact ⟨v, enc, hg, h1, h2, h3⟩)
  have e : encode (.structTag ms [] priv size) (.dict kvs) = .ok v1 := by
    simp only [encode, he1, encodeTagBits]
  rw [e] at henc
  cases henc
  refine ⟨hl1, ?_, ?_⟩
  · intro m hm hmp wd hw
    obtain ⟨v, enc, ⟨h1, h2, h3, _⟩, h5, h6⟩ := hsl1 m hm hmp wd hw
    exact ⟨v, enc, h1, h2, h3, h5, h6⟩
  · intro j hj hnot
    rw [hout j hnot]
    simp [zeros, hj]

/-- C02, driver level, packed BOOL members: writing `udt.flag`, where `flag` is a BOOL member of the template of the
    controller-scope structure tag `udt` (packed into bit `m.info` of the host byte at offset `m.offset`), with ANY
    value that is not a `bytes` object returns exactly one error-free Tag named `udt.flag` carrying the caller's value
    and the type "BOOL". The driver does NOT use Read-Modify-Write here: ONE plain Write Tag request of type BOOL
    (0xC1) goes to the symbolic address `udt.flag` with the single byte 0xFF / 0x00 (`bool(value)`); one frame, one
    sequence number. The controller's project afterwards is `written st.proj loc m.offset [new]` for the host byte's
    location, where `new` is the old host byte with bit `m.info` set to the truth value of the caller's value and every
    other bit unchanged (the two last-but-one conjuncts); by `write_bool_member_effect` only that one byte of the
    tag's memory can differ and ONE write-log entry `(instance, m.offset, 1)` is appended.

    Hypotheses: those of `write_struct_member_e2e` on the world, the symbol, the template and the tag database, with
    * `hmty`, `hbit`  the member is a BOOL (type code 0xC1) whose bit number is below 8;
    * `hin`           the host byte lies inside the tag's memory;
    * `hminfo`        the member's entry in the tag database is an atomic "BOOL" entry;
    * `hnbv`          the value is not a `bytes` object (`encode_value` would send those raw);
    * `hC`, `hT`      `name lengths + 16` / `+ 15` bytes fit. -/
theorem write_bool_member_e2e (cfg : Cfg) (w : Cli.World Ext) (sess : Nat) (cidb : Bytes) (conn : Conn)
    (st : LState) (s : Symbol) (tid : Nat) (tm : Template) (m : MemberDef) (info minfo : TagInfo) (v : PyVal)
    (hw : ldr_Healthy w sess cidb conn) (hlogix : w.net.target.ext.logix = some st)
    (hs : s ∈ st.proj.controller)
    (hbytes : ∀ s' ∈ st.proj.controller, ∀ ch ∈ s'.name, ch < 256)
    (huniqN : ∀ s' ∈ st.proj.controller, s'.name = s.name → s' = s)
    (huniqI : ∀ s' ∈ st.proj.controller, s'.inst = s.inst → s' = s)
    (hid : PlainIdent s.name)
    (hty : elTyOfWord s.symbolType = .struct tid) (htm : st.proj.template? tid = some tm)
    (hm : m ∈ tm.members) (hmbytes : ∀ m' ∈ tm.members, ∀ ch ∈ m'.name, ch < 256)
    (hmuniq : ∀ m' ∈ tm.members, m'.name = m.name → m' = m)
    (hmid : PlainIdent m.name) (hnum : PyStr.isDigit m.name = false) (hnl : s.name.length + m.name.length ≤ 500)
    (hmty : elTyOfWord m.typeWord = .atomic 0xC1) (hbit : m.info < 8) (hin : m.offset < s.mem.length)
    (hget : cfg.tags.get? s.name = some info) (hk : info.core.tagType = .struct)
    (hmget : info.members.get? m.name = some minfo) (hminfo : ldr3_MemberOf minfo (Drv.nm "BOOL") .bool)
    (hnbv : ∀ b, v ≠ .bytes b)
    (hC : s.name.length + m.name.length + 16 ≤ w.drv.connectionSize)
    (hT : s.name.length + m.name.length + 15 ≤ conn.size) :
    ∃ w' frm, write hookAll cfg w [(s.name ++ [46] ++ m.name, v)] =
        (w', .ok [{ tag := s.name ++ [46] ++ m.name, value := v, type := some (Drv.nm "BOOL"), error := none }]) ∧
      w'.drv = w.drv.nextSeq.2 ∧ w'.net.sent = w.net.sent ++ [frm] ∧
      w'.net.target.ext =
        { w.net.target.ext with
          logix := some
            { st with
              proj := written st.proj (ldw3_locBool s m) m.offset
                        [UInt8.ofNat (ldw3_bitByte (s.mem.getD m.offset 0).toNat m.info v.truthy)] } } ∧
      ldw3_bitByte (s.mem.getD m.offset 0).toNat m.info v.truthy < 256 ∧
      (∀ i, i < 8 → (ldw3_bitByte (s.mem.getD m.offset 0).toNat m.info v.truthy).testBit i =
        if i = m.info then v.truthy else (s.mem.getD m.offset 0).toNat.testBit i) ∧
      ldr_Healthy w' sess cidb { conn with lastSeq := some w.drv.nextSeq.1 } := by
  obtain ⟨w', frm, h1, h2, h3, h4, h5⟩ := ldw3_write_boolMember cfg w sess cidb conn st s tid tm m info minfo v hw hlogix hs
    hbytes huniqN huniqI hid hty htm hm hmbytes hmuniq hmid hnum hnl hmty hin hget hk hmget hminfo hnbv hC hT
  obtain ⟨hl1, hl2⟩ := ldw3_bitByte_law (s.mem.getD m.offset 0).toNat m.info v.truthy (UInt8.toNat_lt _) hbit
  exact ⟨w', frm, h1, h2, h3, h4, hl1, hl2, h5⟩

/-- C02, what `written p loc m.offset [x]` of `write_bool_member_e2e` means, for the location `loc` of the host byte
    of the packed BOOL member `m` inside the controller-scope structure symbol `s`: the project afterwards is
    `ldw2_proj p s m.offset [x]`, in which templates, program scopes, the number and order of the controller-scope
    symbols are unchanged, every other controller-scope symbol is unchanged byte for byte, the changed symbol keeps
    name, instance id, type word, dimensions and the length of its memory, its memory holds `x` at byte `m.offset`
    and EVERY other byte of it is unchanged, and ONE write-log entry `(instance, m.offset, 1)` was appended. -/
theorem write_bool_member_effect (p : Project) (s : Symbol) (m : MemberDef) (x : UInt8)
    (huniqI : ∀ s' ∈ p.controller, s'.inst = s.inst → s' = s) (hin : m.offset < s.mem.length) :
    written p (ldw3_locBool s m) m.offset [x] = ldw2_proj p s m.offset [x] ∧
    (ldw2_proj p s m.offset [x]).templates = p.templates ∧ (ldw2_proj p s m.offset [x]).programs = p.programs ∧
    (ldw2_proj p s m.offset [x]).controller.length = p.controller.length ∧
    (∀ (j : Nat) (y : Symbol), p.controller[j]? = some y →
        (ldw2_proj p s m.offset [x]).controller[j]? = some (if y.inst = s.inst then ldw2_sym s m.offset [x] else y) ∧
        (y.inst = s.inst → y = s)) ∧
    ((ldw2_sym s m.offset [x]).inst = s.inst ∧ (ldw2_sym s m.offset [x]).name = s.name ∧
      (ldw2_sym s m.offset [x]).symbolType = s.symbolType ∧ (ldw2_sym s m.offset [x]).dims = s.dims) ∧
    (ldw2_sym s m.offset [x]).mem.length = s.mem.length ∧
    (ldw2_sym s m.offset [x]).mem[m.offset]? = some x ∧
    (∀ j, j ≠ m.offset → (ldw2_sym s m.offset [x]).mem[j]? = s.mem[j]?) ∧
    (ldw2_proj p s m.offset [x]).writeLog = p.writeLog ++ [(s.inst, m.offset, 1)] := by
  obtain ⟨h1, h2, h3, h4, h5, h6, h7, h8, h9⟩ := ldw2_effect p s m.offset [x] huniqI
    (by simp only [List.length_cons, List.length_nil]; omega)
  refine ⟨ldw2_written_eq p s _ _ [x] rfl rfl, h1, h2, h3, h4, h5, h6, ?_, ?_, h9⟩
  · have hlt : m.offset < (ldw2_sym s m.offset [x]).mem.length := by rw [h6]; exact hin
    have e : ((ldw2_sym s m.offset [x]).mem.drop m.offset).take 1 = [x] := h7
    rw [List.take_one, List.head?_drop] at e
    cases hg : (ldw2_sym s m.offset [x]).mem[m.offset]? with
    | none => rw [hg] at e; cases e
    | some y =>
      rw [hg] at e
      simp only [Option.toList_some, List.cons.injEq, and_true] at e
      rw [e]
  · intro j hj
    apply h8 j
    simp only [List.length_cons, List.length_nil]
    omega

/-- C02, driver level: `write` of an elementary member of a structure tag followed by `read` of the same member
    returns the written value; both Tags are error-free. Hypotheses as in `write_struct_member_e2e`; the sizes
    `name lengths + 30` (driver) and `name lengths + 22` (target) cover both requests. The controller's project after
    both calls is the one after the write (`ldw2_proj`: the member's bytes hold `bytes`, one write logged); two
    frames were written. -/
theorem write_then_read_member_e2e (cfg : Cfg) (w : Cli.World Ext) (sess : Nat) (cidb : Bytes) (conn : Conn)
    (st : LState) (s : Symbol) (tid : Nat) (tm : Template) (m : MemberDef) (info minfo : TagInfo)
    (c sz : Nat) (name : Name) (t : Ty) (v : PyVal) (bytes : Bytes)
    (hw : ldr_Healthy w sess cidb conn) (hlogix : w.net.target.ext.logix = some st)
    (hs : s ∈ st.proj.controller)
    (hbytes : ∀ s' ∈ st.proj.controller, ∀ ch ∈ s'.name, ch < 256)
    (huniqN : ∀ s' ∈ st.proj.controller, s'.name = s.name → s' = s)
    (huniqI : ∀ s' ∈ st.proj.controller, s'.inst = s.inst → s' = s)
    (hid : PlainIdent s.name)
    (hty : elTyOfWord s.symbolType = .struct tid) (htm : st.proj.template? tid = some tm)
    (hm : m ∈ tm.members) (hmbytes : ∀ m' ∈ tm.members, ∀ ch ∈ m'.name, ch < 256)
    (hmuniq : ∀ m' ∈ tm.members, m'.name = m.name → m' = m)
    (hmid : PlainIdent m.name) (hnum : PyStr.isDigit m.name = false) (hnl : s.name.length + m.name.length ≤ 500)
    (hmty : elTyOfWord m.typeWord = .atomic c) (hnb : c ≠ 0xC1) (hscalar : m.info = 0)
    (hat : atomicOfCode c = some (name, t)) (hb : t.isBits = none) (hsz : atomicSize c = some sz)
    (hin : m.offset + sz ≤ s.mem.length)
    (hget : cfg.tags.get? s.name = some info) (hk : info.core.tagType = .struct)
    (hmget : info.members.get? m.name = some minfo) (hminfo : ldr3_MemberOf minfo name t)
    (hcanon : Canon t v) (henc : encode t v = .ok bytes)
    (hC : s.name.length + m.name.length + 30 ≤ w.drv.connectionSize)
    (hT : s.name.length + m.name.length + 22 ≤ conn.size) :
    ∃ w1 w2 frm1 frm2,
      write hookAll cfg w [(s.name ++ [46] ++ m.name, v)] =
        (w1, .ok [{ tag := s.name ++ [46] ++ m.name, value := v, type := some name, error := none }]) ∧
      read hookAll cfg w1 [s.name ++ [46] ++ m.name] =
        (w2, .ok [{ tag := s.name ++ [46] ++ m.name, value := v, type := some name, error := none }]) ∧
      w2.net.sent = w.net.sent ++ [frm1, frm2] ∧
      w2.net.target.ext =
        { w.net.target.ext with
          logix := some { st with proj := ldw2_proj st.proj s m.offset bytes, ctr := st.ctr + 1 } } ∧
      ldr_Healthy w2 sess cidb { conn with lastSeq := some w.drv.nextSeq.2.nextSeq.1 } := by
  obtain ⟨haty, _, _, _, hle8⟩ := ldr_atomic_table c sz name t hat hb hsz
  obtain ⟨w1, frm1, hwr, _, hd1, hsent1, hext1, hbl, hh1⟩ := write_struct_member_e2e cfg w sess cidb conn st s tid tm m info
    minfo c sz name t v bytes hw hlogix hs hbytes huniqN huniqI hid hty htm hm hmbytes hmuniq hmid hnum hnl hmty hnb hscalar
    hat hb hsz hin hget hk hmget hminfo hcanon henc (by omega) (by omega)
  rw [ldw2_written_eq st.proj s _ m.offset bytes rfl rfl] at hext1
  have hlogix1 : w1.net.target.ext.logix = some { st with proj := ldw2_proj st.proj s m.offset bytes } := by rw [hext1]
  have hcs : w1.drv.connectionSize = w.drv.connectionSize := by rw [hd1, (Cli.lcs_nextSeq w.drv).2]
  have hfit : m.offset + bytes.length ≤ s.mem.length := by omega
  have hml : (ldw2_sym s m.offset bytes).mem.length = s.mem.length := (splice_frame s.mem bytes m.offset hfit).1
  obtain ⟨enc, he, _, hd⟩ := canon_fixed_roundtrip t v sz hcanon (ldw_atomic_width c sz t haty hb hsz).1
  rw [henc] at he
  cases he
  have hdec : decode t ((ldw2_sym s m.offset bytes).mem.drop m.offset) = .ok (v, s.mem.drop (m.offset + bytes.length)) := by
    show decode t ((splice s.mem m.offset bytes).drop m.offset) = _
    rw [ldw3_splice_drop0 s.mem bytes m.offset hfit]
    exact hd _
  obtain ⟨w2, frm2, hrd, hd2, hsent2, hext2, hh2⟩ := read_struct_member_e2e cfg w1 sess cidb
    { conn with lastSeq := some w.drv.nextSeq.1 } { st with proj := ldw2_proj st.proj s m.offset bytes }
    (ldw2_sym s m.offset bytes) tid tm m info minfo c sz name t v _ hh1 hlogix1
    (ldw2_mem_ctl st.proj.controller s m.offset bytes hs)
    (ldw2_ctl_bytes st.proj.controller s.inst m.offset bytes hbytes)
    (ldw2_ctl_uniqN st.proj.controller s m.offset bytes huniqN)
    (ldw2_ctl_uniqI st.proj.controller s m.offset bytes huniqI) hid hty htm hm hmbytes hmuniq hmid hnum hnl hmty hnb hscalar
    hat hb hsz (by rw [hml]; exact hin) hget hk hmget hminfo hdec
    (by rw [hcs]; show s.name.length + m.name.length + 22 ≤ _; omega) hT
  refine ⟨w1, w2, frm1, frm2, hwr, hrd, ?_, ?_, ?_⟩
  · rw [hsent2, hsent1, List.append_assoc]; rfl
  · rw [hext2, hext1]
  · rw [hd1] at hh2; exact hh2

-- STATEMENT CHANGED: "read-back returns the written value" is false of the model for strings longer than the tag's
-- capacity: `FixedSizeString._encode` (custom_types.py:71) cuts the value to `value[:size]` without any error, the Tag
-- of the write carries the caller's full string and is truthy, and the following read returns the first `cap`
-- characters only. Counterexample evaluated in `ExW3` below: `write(("s1", "HiHiHiHiHi"))` on the 8-character string
-- `s1` reports success with the 10 characters, `read("s1")` then returns "HiHiHiHi". The theorem states what IS read
-- back, `cs[:cap]`, which is `cs` whenever `|cs| ≤ cap` (`ldw3_take_fits`).
/-- C02, driver level: `write` of a string tag with the `str` `cs` followed by `read` of the same tag returns the
    characters KEPT, `cs[:cap]` — the written string itself when it fits the capacity (`ldw3_take_fits`),
    a silently truncated one otherwise, although the Tag of the write carried all of `cs` without error. Hypotheses
    as in `write_string_e2e`, and `hss`: the structure size in the tag database is the template's. The controller's
    project after both calls is the one after the write; two frames were written. -/
theorem write_then_read_string_e2e (cfg : Cfg) (w : Cli.World Ext) (sess : Nat) (cidb : Bytes) (conn : Conn)
    (st : LState) (s : Symbol) (tid : Nat) (tm : Template) (info : TagInfo) (si : StructInfo) (cap : Nat) (cs : Name)
    (hw : ldr_Healthy w sess cidb conn) (hlogix : w.net.target.ext.logix = some st)
    (hs : s ∈ st.proj.controller)
    (hbytes : ∀ s' ∈ st.proj.controller, ∀ ch ∈ s'.name, ch < 256)
    (huniqN : ∀ s' ∈ st.proj.controller, s'.name = s.name → s' = s)
    (huniqI : ∀ s' ∈ st.proj.controller, s'.inst = s.inst → s' = s)
    (hid : PlainIdent s.name) (hinst : s.inst < 2 ^ 32)
    (hty : elTyOfWord s.symbolType = .struct tid) (htm : st.proj.template? tid = some tm)
    (hlen : s.mem.length = tm.size) (htsz : tm.size = 4 + cap) (hcap : 1 ≤ cap) (h64 : tm.size ≤ 64000)
    (hget : cfg.tags.get? s.name = some info) (hinfo : ldr3_StructOf info si (.fixedStr cap .udint) s.inst)
    (hnd : si.name ≠ Drv.nm "DWORD") (hh : si.handle = tm.handle) (hss : si.size = tm.size)
    (hchars : ∀ ch ∈ cs.take cap, ch < 256)
    (hC : 2 * tm.size + s.name.length + 22 ≤ w.drv.connectionSize) (hT : tm.size + s.name.length + 22 ≤ conn.size) :
    ∃ w1 w2 frm1 frm2,
      write hookAll cfg w [(s.name, .str cs)] =
        (w1, .ok [{ tag := s.name, value := .str cs, type := some si.name, error := none }]) ∧
      read hookAll cfg w1 [s.name] =
        (w2, .ok [{ tag := s.name, value := .str (cs.take cap), type := some si.name, error := none }]) ∧
      w2.net.sent = w.net.sent ++ [frm1, frm2] ∧
      w2.net.target.ext =
        { w.net.target.ext with
          logix := some { st with proj := ldw_proj st.proj s (ldw3_strBytes cap cs), ctr := st.ctr + 1 } } ∧
      ldr_Healthy w2 sess cidb { conn with lastSeq := some w.drv.nextSeq.2.nextSeq.1 } := by
  obtain ⟨_, hbl⟩ := ldw3_encode_fixedStr cap cs (by omega) hchars
  obtain ⟨w1, frm1, hwr, _, hd1, hsent1, hext1, hh1⟩ := write_string_e2e cfg w sess cidb conn st s tid tm info si cap cs hw
    hlogix hs hbytes huniqN huniqI hid hinst hty htm hlen htsz hcap h64 hget hinfo hnd hh hchars hC hT
  rw [ldw2_written_eq st.proj s _ 0 _ rfl rfl, ldw3_proj_whole st.proj s _ huniqI (by omega)] at hext1
  have hlogix1 : w1.net.target.ext.logix = some { st with proj := ldw_proj st.proj s (ldw3_strBytes cap cs) } := by
    rw [hext1]
  have hcs : w1.drv.connectionSize = w.drv.connectionSize := by rw [hd1, (Cli.lcs_nextSeq w.drv).2]
  obtain ⟨w2, frm2, hrd, hd2, hsent2, hext2, hh2⟩ := read_string_e2e cfg w1 sess cidb
    { conn with lastSeq := some w.drv.nextSeq.1 } { st with proj := ldw_proj st.proj s (ldw3_strBytes cap cs) }
    (ldw_sym s (ldw3_strBytes cap cs)) tid tm info si cap hh1 hlogix1
    (ldw_mem_ctl st.proj.controller s _ hs)
    (ldw_ctl_bytes st.proj.controller s.inst _ hbytes)
    (ldw_ctl_uniqN st.proj.controller s _ huniqN)
    (ldw_ctl_uniqI st.proj.controller s _ huniqI) hid hinst hty htm (by show (ldw3_strBytes cap cs).length = _; omega)
    htsz hcap hget hinfo hnd
    (by show si.size + s.name.length + 20 ≤ w1.drv.connectionSize; rw [hcs, hss]; omega)
    (by show tm.size + s.name.length + 20 ≤ conn.size; omega)
  have hval : (((ldw_sym s (ldw3_strBytes cap cs)).mem.drop 4).take (leVal ((ldw_sym s (ldw3_strBytes cap cs)).mem.take 4))).map
      (·.toNat) = cs.take cap := ldw3_strBytes_read cap cs (by omega) hchars
  rw [hval] at hrd
  refine ⟨w1, w2, frm1, frm2, hwr, hrd, ?_, ?_, ?_⟩
  · rw [hsent2, hsent1, List.append_assoc]; rfl
  · rw [hext2, hext1]
  · rw [hd1] at hh2; exact hh2

/-- C02, driver level: `write` of a whole structure tag with a dict over a well-formed layout followed by `read` of the
    same tag returns the written dict (re-keyed by the visible attributes of the data type, which for a flat
    definition are the dict's own keys: `hkeys`, `hnodup`). Hypotheses as in `write_struct_e2e_dict` and `hss`. -/
theorem write_then_read_struct_e2e (cfg : Cfg) (w : Cli.World Ext) (sess : Nat) (cidb : Bytes) (conn : Conn)
    (st : LState) (s : Symbol) (tid : Nat) (tm : Template) (info : TagInfo) (si : StructInfo)
    (ms : TMembers) (bits : List (Name × Nat × Nat)) (priv : List Name) (size : Nat) (kvs : List (Name × PyVal))
    (hw : ldr_Healthy w sess cidb conn) (hlogix : w.net.target.ext.logix = some st)
    (hs : s ∈ st.proj.controller)
    (hbytes : ∀ s' ∈ st.proj.controller, ∀ ch ∈ s'.name, ch < 256)
    (huniqN : ∀ s' ∈ st.proj.controller, s'.name = s.name → s' = s)
    (huniqI : ∀ s' ∈ st.proj.controller, s'.inst = s.inst → s' = s)
    (hid : PlainIdent s.name) (hinst : s.inst < 2 ^ 32)
    (hty : elTyOfWord s.symbolType = .struct tid) (htm : st.proj.template? tid = some tm)
    (hlen : s.mem.length = tm.size) (h64 : tm.size ≤ 64000)
    (hget : cfg.tags.get? s.name = some info) (hinfo : ldr3_StructOf info si (.structTag ms bits priv size) s.inst)
    (hnd : si.name ≠ Drv.nm "DWORD") (hh : si.handle = tm.handle) (hss : si.size = tm.size)
    (hsize : size = tm.size) (hl : TagLayout ms bits priv size) (hk : TagDict Canon ms bits priv kvs)
    (hkeys : kvs.map (·.1) = si.attributes) (hnodup : si.attributes.Nodup)
    (hC : 2 * tm.size + s.name.length + 22 ≤ w.drv.connectionSize) (hT : tm.size + s.name.length + 22 ≤ conn.size) :
    ∃ w1 w2 frm1 frm2 bytes,
      write hookAll cfg w [(s.name, .dict kvs)] =
        (w1, .ok [{ tag := s.name, value := .dict kvs, type := some si.name, error := none }]) ∧
      read hookAll cfg w1 [s.name] =
        (w2, .ok [{ tag := s.name, value := .dict kvs, type := some si.name, error := none }]) ∧
      encode (.structTag ms bits priv size) (.dict kvs) = .ok bytes ∧
      w2.net.sent = w.net.sent ++ [frm1, frm2] ∧
      w2.net.target.ext =
        { w.net.target.ext with logix := some { st with proj := ldw_proj st.proj s bytes, ctr := st.ctr + 1 } } ∧
      ldr_Healthy w2 sess cidb { conn with lastSeq := some w.drv.nextSeq.2.nextSeq.1 } := by
  obtain ⟨w1, frm1, bytes, hwr, _, henc, hbl, hdec, hd1, hsent1, hext1, hh1⟩ := write_struct_e2e_dict cfg w sess cidb conn st
    s tid tm info si ms bits priv size kvs hw hlogix hs hbytes huniqN huniqI hid hinst hty htm hlen h64 hget hinfo hnd hh
    hsize hl hk hC hT
  rw [ldw2_written_eq st.proj s _ 0 _ rfl rfl, ldw3_proj_whole st.proj s _ huniqI (by omega)] at hext1
  have hlogix1 : w1.net.target.ext.logix = some { st with proj := ldw_proj st.proj s bytes } := by rw [hext1]
  have hcs : w1.drv.connectionSize = w.drv.connectionSize := by rw [hd1, (Cli.lcs_nextSeq w.drv).2]
  have hpos : 0 < tm.size := by rw [← hsize]; exact hl.size_pos
  have hdec' : decode (.structTag ms bits priv size) (ldw_sym s bytes).mem = .ok (.dict kvs, []) := by
    have := hdec []
    rwa [List.append_nil] at this
  obtain ⟨w2, frm2, hrd, hd2, hsent2, hext2, hh2⟩ := read_struct_e2e_flat cfg w1 sess cidb
    { conn with lastSeq := some w.drv.nextSeq.1 } { st with proj := ldw_proj st.proj s bytes }
    (ldw_sym s bytes) tid tm info si ms bits priv size (.dict kvs) kvs [] hh1 hlogix1
    (ldw_mem_ctl st.proj.controller s _ hs)
    (ldw_ctl_bytes st.proj.controller s.inst _ hbytes)
    (ldw_ctl_uniqN st.proj.controller s _ huniqN)
    (ldw_ctl_uniqI st.proj.controller s _ huniqI) hid hinst hty htm hbl hpos hget hinfo hnd hdec' rfl hkeys hnodup
    (by show si.size + s.name.length + 20 ≤ w1.drv.connectionSize; rw [hcs, hss]; omega)
    (by show tm.size + s.name.length + 20 ≤ conn.size; omega)
  refine ⟨w1, w2, frm1, frm2, bytes, hwr, hrd, henc, ?_, ?_, ?_⟩
  · rw [hsent2, hsent1, List.append_assoc]; rfl
  · rw [hext2, hext1]
  · rw [hd1] at hh2; exact hh2

/-- C02 (and C04), driver level, a structure too large for one packet: writing a controller-scope structure tag by its
    plain name with a value the `type_class` encodes to `structure_size` bytes, when the encoded value does not pass
    the size test of the single-request path (`len(value) + len(request.message) > connection size`; `hfrag`:
    `2·size + path length + 9 > connection size`): the value goes out as Write Tag Fragmented requests carrying the
    structure marker `A0 02` + handle, one frame per segment of
    `K.writeFragments (connection size − (path length + 13)) bytes` — the segments are non-empty, at most the segment
    size, their byte offsets are the running sums of the lengths before them (contiguous, non-overlapping, starting
    at 0) and together they are exactly the value —, every segment is accepted, and `write` returns one error-free
    Tag carrying the tag name, the caller's value and the name of the structure type. The controller's project
    afterwards is `ldw2_projFrag st.proj s 0 bytes segments`: the structure encoding in place of the tag's memory
    ONCE (`ldw3_proj_whole`, `write_struct_effect`), nothing else changed, and the write log shows the tiling, one
    entry per segment (`write_fragmented_effect`). `2 + number of segments` sequence numbers are drawn; the resulting
    world is healthy again.

    `path` is the request path of the tag (`requestPathOf`; at most `name length + 13` bytes).
    Hypotheses: those of `write_struct_e2e` without `h64`, `hC`, `hT`, and
    * `h32`      the structure has fewer than 2^32 bytes (the byte offset field);
    * `hfrag`    the connection leaves room for at least one value byte per segment (`path length + 14`), and the
                 value is too large for the single-request path;
    * `hCT`, `hC16`  the driver's connection size is at most the size the target granted and at most 65400. -/
theorem write_struct_fragmented_e2e (cfg : Cfg) (w : Cli.World Ext) (sess : Nat) (cidb : Bytes) (conn : Conn)
    (st : LState) (s : Symbol) (tid : Nat) (tm : Template) (info : TagInfo) (si : StructInfo)
    (ms : TMembers) (bits : List (Name × Nat × Nat)) (priv : List Name) (size : Nat) (v : PyVal) (bytes : Bytes)
    (hw : ldr_Healthy w sess cidb conn) (hlogix : w.net.target.ext.logix = some st)
    (hs : s ∈ st.proj.controller)
    (hbytes : ∀ s' ∈ st.proj.controller, ∀ ch ∈ s'.name, ch < 256)
    (huniqN : ∀ s' ∈ st.proj.controller, s'.name = s.name → s' = s)
    (huniqI : ∀ s' ∈ st.proj.controller, s'.inst = s.inst → s' = s)
    (hid : PlainIdent s.name) (hinst : s.inst < 2 ^ 32)
    (hty : elTyOfWord s.symbolType = .struct tid) (htm : st.proj.template? tid = some tm)
    (hlen : s.mem.length = tm.size) (hpos : 0 < tm.size) (h32 : tm.size < 2 ^ 32)
    (hget : cfg.tags.get? s.name = some info) (hinfo : ldr3_StructOf info si (.structTag ms bits priv size) s.inst)
    (hnd : si.name ≠ Drv.nm "DWORD") (hh : si.handle = tm.handle)
    (henc : encode (.structTag ms bits priv size) v = .ok bytes) (hbl : bytes.length = tm.size)
    (hfrag : ∀ path, requestPathOf cfg s.name info = .ok path →
      path.length + 14 ≤ w.drv.connectionSize ∧ w.drv.connectionSize < 2 * tm.size + path.length + 9)
    (hCT : w.drv.connectionSize ≤ conn.size) (hC16 : w.drv.connectionSize ≤ 65400) :
    ∃ (w' : Cli.World Ext) (fs : List Bytes) (ls : Option Nat) (path : Bytes),
      requestPathOf cfg s.name info = .ok path ∧ path.length ≤ s.name.length + 13 ∧
      write hookAll cfg w [(s.name, v)] =
        (w', .ok [{ tag := s.name, value := v, type := some si.name, error := none }]) ∧
      w'.drv = { w.drv with seqVal := w'.drv.seqVal } ∧ w'.net.sent = w.net.sent ++ fs ∧
      fs.length = (K.writeFragments (ldw3_segSize w.drv.connectionSize path) bytes).length ∧
      w'.net.target.ext =
        { w.net.target.ext with
          logix := some { st with
            proj := ldw2_projFrag st.proj s 0 bytes (K.writeFragments (ldw3_segSize w.drv.connectionSize path) bytes) } } ∧
      1 ≤ ldw3_segSize w.drv.connectionSize path ∧
      ((K.writeFragments (ldw3_segSize w.drv.connectionSize path) bytes).map (·.2)).flatten = bytes ∧
      (∀ f ∈ K.writeFragments (ldw3_segSize w.drv.connectionSize path) bytes,
        f.2 ≠ [] ∧ f.2.length ≤ ldw3_segSize w.drv.connectionSize path) ∧
      (∀ k (hk : k < (K.writeFragments (ldw3_segSize w.drv.connectionSize path) bytes).length),
        ((K.writeFragments (ldw3_segSize w.drv.connectionSize path) bytes)[k]).1 =
          (((K.writeFragments (ldw3_segSize w.drv.connectionSize path) bytes).take k).map (·.2.length)).sum) ∧
      ldr_Healthy w' sess cidb { conn with lastSeq := ls } := by
  obtain ⟨kvs, rfl⟩ := ldw3_structTag_dict ms bits priv size v bytes henc
  obtain ⟨w', fs, ls, path, hpath, hpl, h1, h2, h3, h4, h5, h6⟩ := ldw3_write_structTag_frag cfg w sess cidb conn st s tid tm
    info si _ (.dict kvs) bytes hw hlogix hs hbytes huniqN huniqI hid hinst hty htm hlen hpos h32 hget hinfo hnd hh
    (ldw3_dict_not_bytes kvs) (by intro n t'; simp) henc hbl hfrag hCT hC16
  have hsg : 1 ≤ ldw3_segSize w.drv.connectionSize path := by
    have := (hfrag path hpath).1
    unfold ldw3_segSize; omega
  obtain ⟨t1, t2, t3⟩ := K.write_fragments_tile (ldw3_segSize w.drv.connectionSize path) hsg bytes
  refine ⟨w', fs, ls, path, hpath, hpl, h1, h2, h3, h4, h5, hsg, t1, t2, ?_, h6⟩
  intro k hk
  rw [t3 k hk, K.fsum_eq]

/-- C02 (and C04), driver level, a string too large for one packet: the same for a string tag and a `str` value: the
    bytes `ldw3_strBytes cap cs` (LEN, the characters kept, zero padding) go out as Write Tag Fragmented requests and
    replace the tag's memory once. Hypotheses as in `write_string_e2e` / `write_struct_fragmented_e2e`. -/
theorem write_string_fragmented_e2e (cfg : Cfg) (w : Cli.World Ext) (sess : Nat) (cidb : Bytes) (conn : Conn)
    (st : LState) (s : Symbol) (tid : Nat) (tm : Template) (info : TagInfo) (si : StructInfo) (cap : Nat) (cs : Name)
    (hw : ldr_Healthy w sess cidb conn) (hlogix : w.net.target.ext.logix = some st)
    (hs : s ∈ st.proj.controller)
    (hbytes : ∀ s' ∈ st.proj.controller, ∀ ch ∈ s'.name, ch < 256)
    (huniqN : ∀ s' ∈ st.proj.controller, s'.name = s.name → s' = s)
    (huniqI : ∀ s' ∈ st.proj.controller, s'.inst = s.inst → s' = s)
    (hid : PlainIdent s.name) (hinst : s.inst < 2 ^ 32)
    (hty : elTyOfWord s.symbolType = .struct tid) (htm : st.proj.template? tid = some tm)
    (hlen : s.mem.length = tm.size) (htsz : tm.size = 4 + cap) (hcap : 1 ≤ cap) (h32 : tm.size < 2 ^ 32)
    (hget : cfg.tags.get? s.name = some info) (hinfo : ldr3_StructOf info si (.fixedStr cap .udint) s.inst)
    (hnd : si.name ≠ Drv.nm "DWORD") (hh : si.handle = tm.handle)
    (hchars : ∀ ch ∈ cs.take cap, ch < 256)
    (hfrag : ∀ path, requestPathOf cfg s.name info = .ok path →
      path.length + 14 ≤ w.drv.connectionSize ∧ w.drv.connectionSize < 2 * tm.size + path.length + 9)
    (hCT : w.drv.connectionSize ≤ conn.size) (hC16 : w.drv.connectionSize ≤ 65400) :
    ∃ (w' : Cli.World Ext) (fs : List Bytes) (ls : Option Nat) (path : Bytes),
      requestPathOf cfg s.name info = .ok path ∧ path.length ≤ s.name.length + 13 ∧
      write hookAll cfg w [(s.name, .str cs)] =
        (w', .ok [{ tag := s.name, value := .str cs, type := some si.name, error := none }]) ∧
      w'.drv = { w.drv with seqVal := w'.drv.seqVal } ∧ w'.net.sent = w.net.sent ++ fs ∧
      fs.length = (K.writeFragments (ldw3_segSize w.drv.connectionSize path) (ldw3_strBytes cap cs)).length ∧
      w'.net.target.ext =
        { w.net.target.ext with
          logix := some { st with
            proj := ldw2_projFrag st.proj s 0 (ldw3_strBytes cap cs)
              (K.writeFragments (ldw3_segSize w.drv.connectionSize path) (ldw3_strBytes cap cs)) } } ∧
      1 ≤ ldw3_segSize w.drv.connectionSize path ∧
      ((K.writeFragments (ldw3_segSize w.drv.connectionSize path) (ldw3_strBytes cap cs)).map (·.2)).flatten =
        ldw3_strBytes cap cs ∧
      ldr_Healthy w' sess cidb { conn with lastSeq := ls } := by
  obtain ⟨henc, hbl⟩ := ldw3_encode_fixedStr cap cs (by omega) hchars
  obtain ⟨w', fs, ls, path, hpath, hpl, h1, h2, h3, h4, h5, h6⟩ := ldw3_write_structTag_frag cfg w sess cidb conn st s tid tm
    info si _ (.str cs) (ldw3_strBytes cap cs) hw hlogix hs hbytes huniqN huniqI hid hinst hty htm hlen (by omega) h32 hget
    hinfo hnd hh (ldw3_str_not_bytes cs) (by intro n t'; simp) henc (by rw [hbl, htsz]) hfrag hCT hC16
  have hsg : 1 ≤ ldw3_segSize w.drv.connectionSize path := by
    have := (hfrag path hpath).1
    unfold ldw3_segSize; omega
  obtain ⟨t1, _, _⟩ := K.write_fragments_tile (ldw3_segSize w.drv.connectionSize path) hsg (ldw3_strBytes cap cs)
  exact ⟨w', fs, ls, path, hpath, hpl, h1, h2, h3, h4, h5, hsg, t1, h6⟩

/-! ### non-vacuity: all hypotheses instantiated on the concrete project and world of `LogixDriverRead3.Ex3` (a structure
    tag `p1 : Pt`, a string tag `s1 : STR8`; the world is obtained by running the model) and on a project with a
    packed-BOOL template -/

namespace ExW3
open Pycomm.Lgx.Drv.Ex3

/-- what a `write` did: per Tag (name, type, error-free, truthy); frames written; write log; memories of the symbols -/
def outcome (cfg : Cfg) (w : Cli.World Ext) (tvs : List (Name × PyVal)) :
    Option (List (Name × Option Name × Bool × Bool) × Nat × List (Nat × Nat × Nat) × List Bytes) :=
  match write hookAll cfg w tvs with
  | (w', .ok ts) =>
      w'.net.target.ext.logix.map fun (st' : LState) =>
        (ts.map (fun (t : LTag) => (t.tag, t.type, t.error.isNone, t.truthy)), w'.net.sent.length - w.net.sent.length,
         st'.proj.writeLog, st'.proj.controller.map (fun (x : Symbol) => x.mem))
  | _ => none

def memY : MemberDef := ⟨Drv.nm "y", 0, 0xC3, 4⟩

-- evaluation checks of the run (interpreter): member, string (shorter than the old one; longer than the capacity), dict
#guard outcome Ex3.cfg3 (world3 []) [(Drv.nm "p1.y", .int 5)] ==
  some ([(Drv.nm "p1.y", some (Drv.nm "INT"), true, true)], 1, [(21, 4, 2)],
        [Ex.sym.mem, Ex3.symBig.mem, [7, 0, 0, 0, 5, 0, 0, 0], symS1.mem])
#guard outcome Ex3.cfg3 (world3 []) [(Drv.nm "s1", .str [72, 105])] ==
  some ([(Drv.nm "s1", some (Drv.nm "STR8"), true, true)], 1, [(22, 0, 12)],
        [Ex.sym.mem, Ex3.symBig.mem, symP1.mem, [2, 0, 0, 0, 72, 105, 0, 0, 0, 0, 0, 0]])
#guard outcome Ex3.cfg3 (world3 []) [(Drv.nm "s1", .str (Drv.nm "HiHiHiHiHi"))] ==
  some ([(Drv.nm "s1", some (Drv.nm "STR8"), true, true)], 1, [(22, 0, 12)],
        [Ex.sym.mem, Ex3.symBig.mem, symP1.mem, [8, 0, 0, 0, 72, 105, 72, 105, 72, 105, 72, 105]])
#guard outcome Ex3.cfg3 (world3 []) [(Drv.nm "p1", .dict [(Drv.nm "x", .int 9), (Drv.nm "y", .int 3)])] ==
  some ([(Drv.nm "p1", some (Drv.nm "Pt"), true, true)], 1, [(21, 0, 8)],
        [Ex.sym.mem, Ex3.symBig.mem, [9, 0, 0, 0, 3, 0, 0, 0], symS1.mem])

-- STATEMENT CHANGED: the task asked for whole-structure writes "with a dict/list value". A LIST value is not
-- accepted: `StructTag._encode` (custom_types.py:210) iterates `values.items()`, a list has none, the codec raises,
-- `encode_value` turns that into a RequestError and `write` returns a falsy Tag with the error
-- "Invalid Tag Request - RequestError('Unable to create a writable value')" WITHOUT sending anything. Counterexample
-- evaluated below; `write_struct_e2e` / `write_struct_e2e_dict` are therefore stated for dict values.
#guard outcome Ex3.cfg3 (world3 []) [(Drv.nm "p1", .list [.int 9, .int 3])] ==
  some ([(Drv.nm "p1", none, false, false)], 0, [], [Ex.sym.mem, Ex3.symBig.mem, symP1.mem, symS1.mem])
#guard (match (write hookAll Ex3.cfg3 (world3 []) [(Drv.nm "p1", .list [.int 9, .int 3])]).2 with
        | .ok [t] => t.error == some (.text (Drv.nm "Invalid Tag Request - RequestError('Unable to create a writable value')"))
        | _ => false)
-- a dict whose keys come in another order is accepted all the same (the codec looks the members up by name)
#guard outcome Ex3.cfg3 (world3 []) [(Drv.nm "p1", .dict [(Drv.nm "y", .int 3), (Drv.nm "x", .int 9)])] ==
  some ([(Drv.nm "p1", some (Drv.nm "Pt"), true, true)], 1, [(21, 0, 8)],
        [Ex.sym.mem, Ex3.symBig.mem, [9, 0, 0, 0, 3, 0, 0, 0], symS1.mem])

private theorem memY_mem : memY ∈ tmplPt.members := by simp [tmplPt, memY]

private theorem pt_bytes (m' : MemberDef) (hm' : m' ∈ tmplPt.members) : ∀ ch ∈ m'.name, ch < 256 := by
  rcases mem_pt m' hm' with rfl | rfl <;> decide

private theorem pt_uniqY (m' : MemberDef) (hm' : m' ∈ tmplPt.members) (e : m'.name = memY.name) : m' = memY := by
  rcases mem_pt m' hm' with rfl | rfl
  · exfalso; revert e; decide
  · rfl

/-- every hypothesis of `write_struct_member_e2e` holds for the concrete world: `write(("p1.y", 5))` succeeds and the
    project afterwards is `written proj loc 4 [05 00]` -/
example : ∃ w' frm, write hookAll Ex3.cfg3 (world3 []) [(Drv.nm "p1.y", .int 5)] =
      (w', .ok [{ tag := Drv.nm "p1.y", value := .int 5, type := some (Drv.nm "INT"), error := none }]) ∧
    w'.drv = (world3 []).drv.nextSeq.2 ∧ w'.net.sent = (world3 []).net.sent ++ [frm] ∧
    w'.net.target.ext =
      { (world3 []).net.target.ext with
        logix := some { state3 [] with proj := written (state3 []).proj (ldr3_locMember symP1 memY 0xC3) 4 [5, 0] } } ∧
    ldr_Healthy w' 4097 [238, 255, 192, 0] { Ex.conn with lastSeq := some (world3 []).drv.nextSeq.1 } := by
  obtain ⟨w', frm, h1, _, h2, h3, h4, _, h5⟩ := write_struct_member_e2e Ex3.cfg3 (world3 []) 4097 [238, 255, 192, 0] Ex.conn
      (state3 []) symP1 0x201 tmplPt memY infoP1 minfoY 0xC3 2 (Drv.nm "INT") (.int .int) (.int 5) [5, 0]
      healthy3 (by rfl) (hsP1 []) (bytes3 []) (uniqN3 [] symP1 (hsP1 [])) (uniqI3 [] symP1 (hsP1 []))
      ⟨by decide, by decide, by decide⟩
      (by decide) (by rfl)                                       -- hty htm
      memY_mem pt_bytes pt_uniqY                                 -- hm hmbytes hmuniq
      ⟨by decide, by decide, by decide⟩ (by decide) (by decide)  -- hmid hnum hnl
      (by decide) (by decide) rfl rfl rfl rfl                    -- hmty hnb hscalar hat hb hsz
      (by decide)                                                -- hin
      (by rfl) rfl (by rfl) ⟨rfl, rfl, rfl, rfl, rfl⟩           -- hget hk hmget hminfo
      ⟨5, rfl, by decide, by decide⟩ (by rfl)                    -- hcanon henc
      (by decide +kernel) (by decide)                            -- hC hT
  exact ⟨w', frm, h1, h2, h3, h4, h5⟩

/-- … and of `write_struct_member_effect`; the memory afterwards: only bytes 4–5 of `p1` changed, one write logged -/
example : written (state3 []).proj (ldr3_locMember symP1 memY 0xC3) 4 [5, 0] = ldw2_proj (state3 []).proj symP1 4 [5, 0] :=
  (write_struct_member_effect (state3 []).proj symP1 memY 0xC3 2 [5, 0] (uniqI3 [] symP1 (hsP1 [])) (by decide) rfl).1

example : ldw2_proj (state3 []).proj symP1 4 [5, 0] =
    { proj3 [] with controller := [Ex.sym, Ex3.symBig, { symP1 with mem := [7, 0, 0, 0, 5, 0, 0, 0] }, symS1],
                    writeLog := [(21, 4, 2)] } := rfl

/-- … of `write_then_read_member_e2e`: the following `read("p1.y")` returns 5 -/
example : ∃ w1 w2 frm1 frm2,
    write hookAll Ex3.cfg3 (world3 []) [(Drv.nm "p1.y", .int 5)] =
      (w1, .ok [{ tag := Drv.nm "p1.y", value := .int 5, type := some (Drv.nm "INT"), error := none }]) ∧
    read hookAll Ex3.cfg3 w1 [Drv.nm "p1.y"] =
      (w2, .ok [{ tag := Drv.nm "p1.y", value := .int 5, type := some (Drv.nm "INT"), error := none }]) ∧
    w2.net.sent = (world3 []).net.sent ++ [frm1, frm2] ∧
    w2.net.target.ext =
      { (world3 []).net.target.ext with
        logix := some { state3 [] with proj := ldw2_proj (state3 []).proj symP1 4 [5, 0], ctr := (state3 []).ctr + 1 } } ∧
    ldr_Healthy w2 4097 [238, 255, 192, 0] { Ex.conn with lastSeq := some (world3 []).drv.nextSeq.2.nextSeq.1 } :=
  write_then_read_member_e2e Ex3.cfg3 (world3 []) 4097 [238, 255, 192, 0] Ex.conn
    (state3 []) symP1 0x201 tmplPt memY infoP1 minfoY 0xC3 2 (Drv.nm "INT") (.int .int) (.int 5) [5, 0]
    healthy3 (by rfl) (hsP1 []) (bytes3 []) (uniqN3 [] symP1 (hsP1 [])) (uniqI3 [] symP1 (hsP1 []))
    ⟨by decide, by decide, by decide⟩ (by decide) (by rfl) memY_mem pt_bytes pt_uniqY
    ⟨by decide, by decide, by decide⟩ (by decide) (by decide)
    (by decide) (by decide) rfl rfl rfl rfl (by decide)
    (by rfl) rfl (by rfl) ⟨rfl, rfl, rfl, rfl, rfl⟩
    ⟨5, rfl, by decide, by decide⟩ (by rfl)
    (by decide +kernel) (by decide)

/-- every hypothesis of `write_string_e2e` holds for the concrete world: `write(("s1", "Hi"))` on `s1` = "ABé" (DATA
    "ABéDE\0\0\0") succeeds and the memory afterwards is LEN 2, "Hi", six zero bytes -/
example : ∃ w' frm, write hookAll Ex3.cfg3 (world3 []) [(Drv.nm "s1", .str [72, 105])] =
      (w', .ok [{ tag := Drv.nm "s1", value := .str [72, 105], type := some (Drv.nm "STR8"), error := none }]) ∧
    w'.drv = (world3 []).drv.nextSeq.2 ∧ w'.net.sent = (world3 []).net.sent ++ [frm] ∧
    w'.net.target.ext =
      { (world3 []).net.target.ext with
        logix := some { state3 [] with
          proj := written (state3 []).proj (ldr3_locStruct symS1 0x202) 0 [2, 0, 0, 0, 72, 105, 0, 0, 0, 0, 0, 0] } } ∧
    ldr_Healthy w' 4097 [238, 255, 192, 0] { Ex.conn with lastSeq := some (world3 []).drv.nextSeq.1 } := by
  obtain ⟨w', frm, h1, _, h2, h3, h4, h5⟩ := write_string_e2e Ex3.cfg3 (world3 []) 4097 [238, 255, 192, 0] Ex.conn (state3 [])
      symS1 0x202 tmplStr infoS1 siStr 8 [72, 105]
      healthy3 (by rfl) (hsS1 []) (bytes3 []) (uniqN3 [] symS1 (hsS1 [])) (uniqI3 [] symS1 (hsS1 []))
      ⟨by decide, by decide, by decide⟩ (by decide)
      (by decide) (by rfl) (by decide) (by decide) (by decide) (by decide)   -- hty htm hlen htsz hcap h64
      (by rfl) ⟨rfl, rfl, rfl, rfl, rfl⟩ (by decide) rfl           -- hget hinfo hnd hh
      (by decide)                                                  -- hchars
      (by decide +kernel) (by decide)
  rw [show ldw3_strBytes 8 [72, 105] = [2, 0, 0, 0, 72, 105, 0, 0, 0, 0, 0, 0] from by decide] at h4
  exact ⟨w', frm, h1, h2, h3, h4, h5⟩

/-- … and of `write_string_effect`: the project afterwards is the old one with `s1` holding exactly those bytes -/
example : written (state3 []).proj (ldr3_locStruct symS1 0x202) 0 (ldw3_strBytes 8 [72, 105]) =
    ldw_proj (state3 []).proj symS1 (ldw3_strBytes 8 [72, 105]) :=
  (write_string_effect (state3 []).proj symS1 0x202 8 [72, 105] (uniqI3 [] symS1 (hsS1 [])) (by decide)).1

example : ldw_proj (state3 []).proj symS1 [2, 0, 0, 0, 72, 105, 0, 0, 0, 0, 0, 0] =
    { proj3 [] with controller := [Ex.sym, Ex3.symBig, symP1, { symS1 with mem := [2, 0, 0, 0, 72, 105, 0, 0, 0, 0, 0, 0] }],
                    writeLog := [(22, 0, 12)] } := rfl

/-- … of `write_then_read_string_e2e` with a string LONGER than the capacity: `write(("s1", "HiHiHiHiHi"))` reports
    success with the 10 characters, the following `read("s1")` returns the 8 characters kept -/
example : ∃ w1 w2 frm1 frm2,
    write hookAll Ex3.cfg3 (world3 []) [(Drv.nm "s1", .str (Drv.nm "HiHiHiHiHi"))] =
      (w1, .ok [{ tag := Drv.nm "s1", value := .str (Drv.nm "HiHiHiHiHi"), type := some (Drv.nm "STR8"), error := none }]) ∧
    read hookAll Ex3.cfg3 w1 [Drv.nm "s1"] =
      (w2, .ok [{ tag := Drv.nm "s1", value := .str (Drv.nm "HiHiHiHi"), type := some (Drv.nm "STR8"), error := none }]) ∧
    w2.net.sent = (world3 []).net.sent ++ [frm1, frm2] := by
  obtain ⟨w1, w2, frm1, frm2, h1, h2, h3, _, _⟩ := write_then_read_string_e2e Ex3.cfg3 (world3 []) 4097 [238, 255, 192, 0]
      Ex.conn (state3 []) symS1 0x202 tmplStr infoS1 siStr 8 (Drv.nm "HiHiHiHiHi")
      healthy3 (by rfl) (hsS1 []) (bytes3 []) (uniqN3 [] symS1 (hsS1 [])) (uniqI3 [] symS1 (hsS1 []))
      ⟨by decide, by decide, by decide⟩ (by decide)
      (by decide) (by rfl) (by decide) (by decide) (by decide) (by decide)
      (by rfl) ⟨rfl, rfl, rfl, rfl, rfl⟩ (by decide) rfl rfl
      (by decide)
      (by decide +kernel) (by decide)
  exact ⟨w1, w2, frm1, frm2, h1, h2, h3⟩

def msPt : TMembers := .cons (Drv.nm "x") (.int .dint) 0 (.cons (Drv.nm "y") (.int .int) 4 .nil)
def kvsPt : List (Name × PyVal) := [(Drv.nm "x", .int 9), (Drv.nm "y", .int 3)]

private theorem layoutPt : TagLayout msPt [] [] 8 where
  size_pos := by omega
  members := by
    simp [msPt, TagMembersOk, fixedWidth, IntK.size, TMembers.names, TMembers.toList]
    decide
  hidden_total := by intro m _ hp; simp at hp
  priv_members := by simp
  bit_names_nodup := by simp
  bit_names_fresh := by simp
  bit_range := by simp
  bit_pos_nodup := by simp
  bit_hidden := by simp

private theorem dictPt : TagDict Canon msPt [] [] kvsPt := by
  refine ⟨by simp [TMembers.visible, msPt, kvsPt, TMembers.toList], ?_, by simp⟩
  intro m hm hp
  simp only [msPt, TMembers.toList, List.mem_cons, List.not_mem_nil, or_false] at hm
  rcases hm with rfl | rfl
  · exact ⟨.int 9, by rfl, 9, rfl, by decide, by decide⟩
  · exact ⟨.int 3, by rfl, 3, rfl, by decide, by decide⟩

/-- every hypothesis of `write_struct_e2e_dict` holds for the concrete world: `write(("p1", {"x": 9, "y": 3}))` succeeds
    and the memory afterwards is the structure encoding 09 00 00 00 03 00 00 00 -/
example : ∃ w' frm, write hookAll Ex3.cfg3 (world3 []) [(Drv.nm "p1", .dict kvsPt)] =
      (w', .ok [{ tag := Drv.nm "p1", value := .dict kvsPt, type := some (Drv.nm "Pt"), error := none }]) ∧
    w'.drv = (world3 []).drv.nextSeq.2 ∧ w'.net.sent = (world3 []).net.sent ++ [frm] ∧
    w'.net.target.ext =
      { (world3 []).net.target.ext with
        logix := some { state3 [] with
          proj := written (state3 []).proj (ldr3_locStruct symP1 0x201) 0 [9, 0, 0, 0, 3, 0, 0, 0] } } ∧
    ldr_Healthy w' 4097 [238, 255, 192, 0] { Ex.conn with lastSeq := some (world3 []).drv.nextSeq.1 } := by
  obtain ⟨w', frm, bytes, h1, _, henc, _, _, h2, h3, h4, h5⟩ := write_struct_e2e_dict Ex3.cfg3 (world3 []) 4097
      [238, 255, 192, 0] Ex.conn (state3 []) symP1 0x201 tmplPt infoP1 siPt msPt [] [] 8 kvsPt
      healthy3 (by rfl) (hsP1 []) (bytes3 []) (uniqN3 [] symP1 (hsP1 [])) (uniqI3 [] symP1 (hsP1 []))
      ⟨by decide, by decide, by decide⟩ (by decide)
      (by decide) (by rfl) (by decide) (by decide)                 -- hty htm hlen h64
      (by rfl) ⟨rfl, rfl, rfl, rfl, rfl⟩ (by decide) rfl           -- hget hinfo hnd hh
      rfl layoutPt dictPt                                          -- hsize hl hk
      (by decide +kernel) (by decide)
  have e : encode (.structTag msPt [] [] 8) (.dict kvsPt) = .ok [9, 0, 0, 0, 3, 0, 0, 0] := by rfl
  rw [e] at henc
  cases henc
  exact ⟨w', frm, h1, h2, h3, h4, h5⟩

/-- … of `write_struct_effect` and `write_struct_bytes` -/
example : written (state3 []).proj (ldr3_locStruct symP1 0x201) 0 [9, 0, 0, 0, 3, 0, 0, 0] =
    ldw_proj (state3 []).proj symP1 [9, 0, 0, 0, 3, 0, 0, 0] :=
  (write_struct_effect (state3 []).proj symP1 0x201 [9, 0, 0, 0, 3, 0, 0, 0] (uniqI3 [] symP1 (hsP1 [])) (by decide)).1

example : ([9, 0, 0, 0, 3, 0, 0, 0] : Bytes).length = 8 :=
  (write_struct_bytes msPt [] 8 kvsPt [9, 0, 0, 0, 3, 0, 0, 0] layoutPt dictPt (by rfl)).1

/-- … of `write_then_read_struct_e2e`: the following `read("p1")` returns the dict -/
example : ∃ w1 w2 frm1 frm2,
    write hookAll Ex3.cfg3 (world3 []) [(Drv.nm "p1", .dict kvsPt)] =
      (w1, .ok [{ tag := Drv.nm "p1", value := .dict kvsPt, type := some (Drv.nm "Pt"), error := none }]) ∧
    read hookAll Ex3.cfg3 w1 [Drv.nm "p1"] =
      (w2, .ok [{ tag := Drv.nm "p1", value := .dict kvsPt, type := some (Drv.nm "Pt"), error := none }]) ∧
    w2.net.sent = (world3 []).net.sent ++ [frm1, frm2] := by
  obtain ⟨w1, w2, frm1, frm2, _, h1, h2, _, h3, _, _⟩ := write_then_read_struct_e2e Ex3.cfg3 (world3 []) 4097
      [238, 255, 192, 0] Ex.conn (state3 []) symP1 0x201 tmplPt infoP1 siPt msPt [] [] 8 kvsPt
      healthy3 (by rfl) (hsP1 []) (bytes3 []) (uniqN3 [] symP1 (hsP1 [])) (uniqI3 [] symP1 (hsP1 []))
      ⟨by decide, by decide, by decide⟩ (by decide)
      (by decide) (by rfl) (by decide) (by decide)
      (by rfl) ⟨rfl, rfl, rfl, rfl, rfl⟩ (by decide) rfl rfl
      rfl layoutPt dictPt (by rfl) (by decide)
      (by decide +kernel) (by decide)
  exact ⟨w1, w2, frm1, frm2, h1, h2, h3⟩

/-! #### a template with packed BOOLs: `Fl {ZZZZZZZZZZFl0 : SINT @0 (hidden host), a : BOOL @0.0, b : BOOL @0.1, n : INT @2}` -/

def tmplFl : Template :=
  { id := 0x203, handle := 0x5555, size := 4, nameField := [70, 108, 59, 110],
    members := [⟨Drv.nm "ZZZZZZZZZZFl0", 0, 0xC2, 0⟩, ⟨Drv.nm "a", 0, 0xC1, 0⟩, ⟨Drv.nm "b", 1, 0xC1, 0⟩,
                ⟨Drv.nm "n", 0, 0xC3, 2⟩] }
/-- `f1 : Fl` = host byte 0b101 (a = 1, b = 0, an unnamed bit 2 set), pad byte AA, n = 9 -/
def symF1 : Symbol :=
  { inst := 23, name := Drv.nm "f1", symbolType := 0x8203, dims := [0, 0, 0], attr3 := 0, attr5 := 0, attr6 := 2 ^ 26,
    access := 0, mem := [0x05, 0xAA, 9, 0] }
def proj4 : Project :=
  { templates := [tmplPt, tmplStr, tmplFl], controller := [Ex.sym, symP1, symS1, symF1], programs := [] }
def state4 : LState := { proj := proj4 }
def world04 : Cli.World Ext := { drv := {}, net := { target := { base := Ex.base, ext := { logix := some state4 } } } }
def world4 : Cli.World Ext :=
  (Cli.ensureForwardOpen hookAll Cli.FUEL (Cli.openDrv hookAll world04 [1, 2, 3, 4, 5, 6, 7, 8]).1).1
def cfg4 : Cfg := { tags := (tagDbOf proj4 false).getD [] }
def memB : MemberDef := ⟨Drv.nm "b", 1, 0xC1, 0⟩

def minfoHost : TagInfo :=
  .mk { tagType := .atomic, dataTypeName := Drv.nm "SINT", ty := .int .sint, offset := some 0, array := some 0 } .nil
def minfoA : TagInfo :=
  .mk { tagType := .atomic, dataTypeName := Drv.nm "BOOL", ty := .bool, offset := some 0, bit := some 0 } .nil
def minfoB : TagInfo :=
  .mk { tagType := .atomic, dataTypeName := Drv.nm "BOOL", ty := .bool, offset := some 0, bit := some 1 } .nil
def minfoN : TagInfo :=
  .mk { tagType := .atomic, dataTypeName := Drv.nm "INT", ty := .int .int, offset := some 2, array := some 0 } .nil
def siFl : StructInfo :=
  { name := Drv.nm "Fl", attributes := [Drv.nm "a", Drv.nm "b", Drv.nm "n"], size := 4, handle := 0x5555, string := none }
def tyFl : Ty :=
  .structTag (.cons (Drv.nm "ZZZZZZZZZZFl0") (.int .sint) 0 (.cons (Drv.nm "n") (.int .int) 2 .nil))
    [(Drv.nm "a", 0, 0), (Drv.nm "b", 0, 1)] [Drv.nm "ZZZZZZZZZZFl0"] 4
def infoF1 : TagInfo :=
  .mk { tagType := .struct, dataTypeName := Drv.nm "Fl", ty := tyFl, dim := 0, dimensions := [0, 0, 0],
        instanceId := some 23, struct := some siFl }
    (.cons (Drv.nm "ZZZZZZZZZZFl0") minfoHost (.cons (Drv.nm "a") minfoA (.cons (Drv.nm "b") minfoB
      (.cons (Drv.nm "n") minfoN .nil))))

-- evaluation checks of the run (interpreter)
#guard world4.drv.targetIsConnected && world4.net.target.base.conns == [Ex.conn]
#guard outcome cfg4 world4 [(Drv.nm "f1.b", .bool true)] ==
  some ([(Drv.nm "f1.b", some (Drv.nm "BOOL"), true, true)], 1, [(23, 0, 1)],
        [Ex.sym.mem, symP1.mem, symS1.mem, [0x07, 0xAA, 9, 0]])
#guard outcome cfg4 world4 [(Drv.nm "f1.a", .int 0)] ==
  some ([(Drv.nm "f1.a", some (Drv.nm "BOOL"), true, true)], 1, [(23, 0, 1)],
        [Ex.sym.mem, symP1.mem, symS1.mem, [0x04, 0xAA, 9, 0]])
-- a whole-structure write of `f1`: the pad byte AA and the unnamed bit 2 of the hidden host byte are ZEROED
#guard outcome cfg4 world4 [(Drv.nm "f1", .dict [(Drv.nm "a", .bool true), (Drv.nm "b", .bool false), (Drv.nm "n", .int 9)])] ==
  some ([(Drv.nm "f1", some (Drv.nm "Fl"), true, true)], 1, [(23, 0, 4)],
        [Ex.sym.mem, symP1.mem, symS1.mem, [0x01, 0x00, 9, 0]])

private theorem healthy4 : ldr_Healthy world4 4097 [238, 255, 192, 0] Ex.conn :=
  ⟨by decide +kernel, by decide +kernel, by decide +kernel, by decide +kernel, by decide +kernel, by decide,
   by decide +kernel, by decide +kernel, by decide, by decide +kernel, by decide +kernel, by decide +kernel⟩

private theorem mem_ctl4 (s' : Symbol) (h : s' ∈ proj4.controller) : s' = Ex.sym ∨ s' = symP1 ∨ s' = symS1 ∨ s' = symF1 := by
  simpa [proj4] using h

private theorem bytes4 (s' : Symbol) (h : s' ∈ state4.proj.controller) : ∀ ch ∈ s'.name, ch < 256 := by
  rcases mem_ctl4 s' h with rfl | rfl | rfl | rfl <;> decide

private theorem hsF1 : symF1 ∈ state4.proj.controller := by simp [state4, proj4]

private theorem uniqN4 (s' : Symbol) (h : s' ∈ state4.proj.controller) (e : s'.name = symF1.name) : s' = symF1 := by
  rcases mem_ctl4 s' h with rfl | rfl | rfl | rfl <;> first | rfl | (exfalso; revert e; decide)

private theorem uniqI4 (s' : Symbol) (h : s' ∈ state4.proj.controller) (e : s'.inst = symF1.inst) : s' = symF1 := by
  rcases mem_ctl4 s' h with rfl | rfl | rfl | rfl <;> first | rfl | (exfalso; revert e; decide)

private theorem mem_fl (m' : MemberDef) (h : m' ∈ tmplFl.members) :
    m' = ⟨Drv.nm "ZZZZZZZZZZFl0", 0, 0xC2, 0⟩ ∨ m' = ⟨Drv.nm "a", 0, 0xC1, 0⟩ ∨ m' = memB ∨ m' = ⟨Drv.nm "n", 0, 0xC3, 2⟩ := by
  simpa [tmplFl, memB] using h

/-- every hypothesis of `write_bool_member_e2e` holds for the concrete world: `write(("f1.b", True))` goes out as one
    Write Tag of type BOOL and turns the host byte 0b101 into 0b111 -/
example : ∃ w' frm, write hookAll cfg4 world4 [(Drv.nm "f1.b", .bool true)] =
      (w', .ok [{ tag := Drv.nm "f1.b", value := .bool true, type := some (Drv.nm "BOOL"), error := none }]) ∧
    w'.drv = world4.drv.nextSeq.2 ∧ w'.net.sent = world4.net.sent ++ [frm] ∧
    w'.net.target.ext =
      { world4.net.target.ext with
        logix := some { state4 with proj := written state4.proj (ldw3_locBool symF1 memB) 0 [7] } } ∧
    ldr_Healthy w' 4097 [238, 255, 192, 0] { Ex.conn with lastSeq := some world4.drv.nextSeq.1 } := by
  obtain ⟨w', frm, h1, h2, h3, h4, _, _, h5⟩ := write_bool_member_e2e cfg4 world4 4097 [238, 255, 192, 0] Ex.conn state4 symF1
      0x203 tmplFl memB infoF1 minfoB (.bool true)
      healthy4 (by rfl) hsF1 bytes4 uniqN4 uniqI4
      ⟨by decide, by decide, by decide⟩
      (by decide) (by rfl)                                       -- hty htm
      (by simp [tmplFl, memB])                                   -- hm
      (by intro m' hm'; rcases mem_fl m' hm' with rfl | rfl | rfl | rfl <;> decide)
      (by intro m' hm' e; rcases mem_fl m' hm' with rfl | rfl | rfl | rfl <;> first | rfl | (exfalso; revert e; decide))
      ⟨by decide, by decide, by decide⟩ (by decide) (by decide)  -- hmid hnum hnl
      (by decide) (by decide) (by decide)                        -- hmty hbit hin
      (by rfl) rfl (by rfl) ⟨rfl, rfl, rfl, rfl, rfl⟩           -- hget hk hmget hminfo
      (by intro b; simp)                                         -- hnbv
      (by decide +kernel) (by decide)
  rw [show [UInt8.ofNat (ldw3_bitByte (symF1.mem.getD memB.offset 0).toNat memB.info (PyVal.bool true).truthy)] = ([7] : Bytes)
    from by decide] at h4
  exact ⟨w', frm, h1, h2, h3, h4, h5⟩

/-- … and of `write_bool_member_effect`: only byte 0 of `f1` changed, one write logged -/
example : written state4.proj (ldw3_locBool symF1 memB) 0 [7] = ldw2_proj state4.proj symF1 0 [7] :=
  (write_bool_member_effect state4.proj symF1 memB 7 uniqI4 (by decide)).1

example : ldw2_proj state4.proj symF1 0 [7] =
    { proj4 with controller := [Ex.sym, symP1, symS1, { symF1 with mem := [7, 0xAA, 9, 0] }], writeLog := [(23, 0, 1)] } := rfl

def msFl : TMembers := .cons (Drv.nm "ZZZZZZZZZZFl0") (.int .sint) 0 (.cons (Drv.nm "n") (.int .int) 2 .nil)
def bitsFl : List (Name × Nat × Nat) := [(Drv.nm "a", 0, 0), (Drv.nm "b", 0, 1)]
def kvsFl : List (Name × PyVal) := [(Drv.nm "n", .int 9), (Drv.nm "a", .bool true), (Drv.nm "b", .bool false)]

private theorem layoutFl : TagLayout msFl bitsFl [Drv.nm "ZZZZZZZZZZFl0"] 4 where
  size_pos := by omega
  members := by
    simp [msFl, TagMembersOk, fixedWidth, IntK.size, TMembers.names, TMembers.toList]
    decide
  hidden_total := by
    intro m hm hp w hw
    simp only [msFl, TMembers.toList, List.mem_cons, List.not_mem_nil, or_false] at hm
    rcases hm with rfl | rfl
    · simp only [fixedWidth, Option.some.injEq] at hw; subst hw; exact rtx_total_int .sint
    · exfalso; revert hp; decide
  priv_members := by
    intro p hp
    simp only [List.mem_singleton] at hp
    subst hp
    simp [msFl, TMembers.names, TMembers.toList]
  bit_names_nodup := by decide
  bit_names_fresh := by
    intro b hb
    simp only [bitsFl, List.mem_cons, List.not_mem_nil, or_false] at hb
    rcases hb with rfl | rfl <;> decide
  bit_range := by
    intro b hb
    simp only [bitsFl, List.mem_cons, List.not_mem_nil, or_false] at hb
    rcases hb with rfl | rfl <;> decide
  bit_pos_nodup := by decide
  bit_hidden := by
    intro b hb m hm hp w hw
    simp only [msFl, TMembers.toList, List.mem_cons, List.not_mem_nil, or_false] at hm
    simp only [bitsFl, List.mem_cons, List.not_mem_nil, or_false] at hb
    rcases hm with rfl | rfl
    · exfalso; revert hp; decide
    · simp only [fixedWidth, Option.some.injEq] at hw
      subst hw
      rcases hb with rfl | rfl <;> decide

private theorem dictFl : TagDict Canon msFl bitsFl [Drv.nm "ZZZZZZZZZZFl0"] kvsFl := by
  refine ⟨by decide, ?_, ?_⟩
  · intro m hm hp
    simp only [msFl, TMembers.toList, List.mem_cons, List.not_mem_nil, or_false] at hm
    rcases hm with rfl | rfl
    · exfalso; revert hp; decide
    · exact ⟨.int 9, by rfl, 9, rfl, by decide, by decide⟩
  · intro b hb
    simp only [bitsFl, List.mem_cons, List.not_mem_nil, or_false] at hb
    rcases hb with rfl | rfl
    · exact ⟨true, by rfl⟩
    · exact ⟨false, by rfl⟩

/-- every hypothesis of `write_struct_e2e_dict` holds for a template WITH packed BOOLs: `write(("f1", {"n": 9, "a": True,
    "b": False}))` succeeds; the memory afterwards is 01 00 09 00 — the pad byte AA and the unnamed bit 2 of the
    hidden host byte are gone -/
example : ∃ w' frm, write hookAll cfg4 world4 [(Drv.nm "f1", .dict kvsFl)] =
      (w', .ok [{ tag := Drv.nm "f1", value := .dict kvsFl, type := some (Drv.nm "Fl"), error := none }]) ∧
    w'.net.sent = world4.net.sent ++ [frm] ∧
    w'.net.target.ext =
      { world4.net.target.ext with
        logix := some { state4 with proj := written state4.proj (ldr3_locStruct symF1 0x203) 0 [1, 0, 9, 0] } } := by
  obtain ⟨w', frm, bytes, h1, _, henc, _, _, _, h3, h4, _⟩ := write_struct_e2e_dict cfg4 world4 4097
      [238, 255, 192, 0] Ex.conn state4 symF1 0x203 tmplFl infoF1 siFl msFl bitsFl [Drv.nm "ZZZZZZZZZZFl0"] 4 kvsFl
      healthy4 (by rfl) hsF1 bytes4 uniqN4 uniqI4
      ⟨by decide, by decide, by decide⟩ (by decide)
      (by decide) (by rfl) (by decide) (by decide)                 -- hty htm hlen h64
      (by rfl) ⟨rfl, rfl, rfl, rfl, rfl⟩ (by decide) rfl           -- hget hinfo hnd hh
      rfl layoutFl dictFl                                          -- hsize hl hk
      (by decide +kernel) (by decide)
  have e : encode (.structTag msFl bitsFl [Drv.nm "ZZZZZZZZZZFl0"] 4) (.dict kvsFl) = .ok [1, 0, 9, 0] := by rfl
  rw [e] at henc
  cases henc
  exact ⟨w', frm, h1, h3, h4⟩

/-! #### the fragmented writes: the world of `Ex3` with a driver connection of 19 bytes -/

-- a driver connection of 19 bytes: 2·8 + 5 + 9 = 30 > 19, the structure goes out as Write Tag Fragmented, 1 byte per segment
#guard outcome Ex3.cfg3 (small3 [3] 19) [(Drv.nm "p1", .dict kvsPt)] ==
  some ([(Drv.nm "p1", some (Drv.nm "Pt"), true, true)], 8,
        [(21, 0, 1), (21, 1, 1), (21, 2, 1), (21, 3, 1), (21, 4, 1), (21, 5, 1), (21, 6, 1), (21, 7, 1)],
        [Ex.sym.mem, Ex3.symBig.mem, [9, 0, 0, 0, 3, 0, 0, 0], symS1.mem])
#guard (outcome Ex3.cfg3 (small3 [3] 19) [(Drv.nm "s1", .str [72, 105])]).map (fun r => (r.1, r.2.1, r.2.2.2)) ==
  some ([(Drv.nm "s1", some (Drv.nm "STR8"), true, true)], 12,
        [Ex.sym.mem, Ex3.symBig.mem, symP1.mem, [2, 0, 0, 0, 72, 105, 0, 0, 0, 0, 0, 0]])

/-- every hypothesis of `write_struct_fragmented_e2e` holds for the concrete world (driver connection size 19):
    `write(("p1", {"x": 9, "y": 3}))` goes out in 8 one-byte segments and leaves the structure encoding -/
example : ∃ (w' : Cli.World Ext) (fs : List Bytes) (ls : Option Nat),
    write hookAll Ex3.cfg3 (small3 [3] 19) [(Drv.nm "p1", .dict kvsPt)] =
      (w', .ok [{ tag := Drv.nm "p1", value := .dict kvsPt, type := some (Drv.nm "Pt"), error := none }]) ∧
    w'.net.sent = (small3 [3] 19).net.sent ++ fs ∧ fs.length = 8 ∧
    w'.net.target.ext =
      { (small3 [3] 19).net.target.ext with
        logix := some { state3 [3] with
          proj := ldw2_projFrag (state3 [3]).proj symP1 0 [9, 0, 0, 0, 3, 0, 0, 0]
            (K.writeFragments 1 [9, 0, 0, 0, 3, 0, 0, 0]) } } ∧
    ldr_Healthy w' 4097 [238, 255, 192, 0] { Ex.conn with lastSeq := ls } := by
  obtain ⟨w', fs, ls, path, hpath, _, h1, _, h3, h4, h5, _, _, _, _, h6⟩ := write_struct_fragmented_e2e Ex3.cfg3 (small3 [3] 19)
      4097 [238, 255, 192, 0] Ex.conn (state3 [3]) symP1 0x201 tmplPt infoP1 siPt msPt [] [] 8 (.dict kvsPt)
      [9, 0, 0, 0, 3, 0, 0, 0]
      healthy3t (by rfl) (hsP1 [3]) (bytes3 [3]) (uniqN3 [3] symP1 (hsP1 [3])) (uniqI3 [3] symP1 (hsP1 [3]))
      ⟨by decide, by decide, by decide⟩ (by decide)
      (by decide) (by rfl) (by decide) (by decide) (by decide)     -- hty htm hlen hpos h32
      (by rfl) ⟨rfl, rfl, rfl, rfl, rfl⟩ (by decide) rfl           -- hget hinfo hnd hh
      (by rfl) (by decide)                                         -- henc hbl
      (by intro path hp                                            -- hfrag: the request path has 5 bytes
          have e : requestPathOf Ex3.cfg3 symP1.name infoP1 = .ok [2, 32, 107, 36, 21] := by rfl
          rw [e] at hp
          cases hp
          decide)
      (by decide) (by decide)
  have e : requestPathOf Ex3.cfg3 symP1.name infoP1 = .ok [2, 32, 107, 36, 21] := by rfl
  rw [e] at hpath
  cases hpath
  have hsg : ldw3_segSize (small3 [3] 19).drv.connectionSize [2, 32, 107, 36, 21] = 1 := by decide
  rw [hsg] at h4 h5
  rw [show (K.writeFragments 1 ([9, 0, 0, 0, 3, 0, 0, 0] : Bytes)).length = 8 from by decide] at h4
  exact ⟨w', fs, ls, h1, h3, h4, h5, h6⟩

/-- … and of `write_string_fragmented_e2e`: `write(("s1", "Hi"))` on the 19-byte connection: 12 one-byte segments -/
example : ∃ (w' : Cli.World Ext) (fs : List Bytes) (ls : Option Nat),
    write hookAll Ex3.cfg3 (small3 [3] 19) [(Drv.nm "s1", .str [72, 105])] =
      (w', .ok [{ tag := Drv.nm "s1", value := .str [72, 105], type := some (Drv.nm "STR8"), error := none }]) ∧
    w'.net.sent = (small3 [3] 19).net.sent ++ fs ∧ fs.length = 12 ∧
    ldr_Healthy w' 4097 [238, 255, 192, 0] { Ex.conn with lastSeq := ls } := by
  obtain ⟨w', fs, ls, path, hpath, _, h1, _, h3, h4, _, _, _, h6⟩ := write_string_fragmented_e2e Ex3.cfg3 (small3 [3] 19)
      4097 [238, 255, 192, 0] Ex.conn (state3 [3]) symS1 0x202 tmplStr infoS1 siStr 8 [72, 105]
      healthy3t (by rfl) (hsS1 [3]) (bytes3 [3]) (uniqN3 [3] symS1 (hsS1 [3])) (uniqI3 [3] symS1 (hsS1 [3]))
      ⟨by decide, by decide, by decide⟩ (by decide)
      (by decide) (by rfl) (by decide) (by decide) (by decide) (by decide)   -- hty htm hlen htsz hcap h32
      (by rfl) ⟨rfl, rfl, rfl, rfl, rfl⟩ (by decide) rfl           -- hget hinfo hnd hh
      (by decide)                                                  -- hchars
      (by intro path hp
          have e : requestPathOf Ex3.cfg3 symS1.name infoS1 = .ok [2, 32, 107, 36, 22] := by rfl
          rw [e] at hp
          cases hp
          decide)
      (by decide) (by decide)
  have e : requestPathOf Ex3.cfg3 symS1.name infoS1 = .ok [2, 32, 107, 36, 22] := by rfl
  rw [e] at hpath
  cases hpath
  rw [show (K.writeFragments (ldw3_segSize (small3 [3] 19).drv.connectionSize [2, 32, 107, 36, 22])
    (ldw3_strBytes 8 [72, 105])).length = 12 from by decide] at h4
  exact ⟨w', fs, ls, h1, h3, h4, h6⟩

end ExW3

end Pycomm.Lgx.Drv
