/-
  Proofs for C13 (replies are classified by their status words; bad replies cannot pass or crash).
-/
import PycommModel.Reply
import PycommProofs.RPBasic
namespace Pycomm.Reply
open Pycomm.RP

/-- byte i of a reply -/
def byteAt (raw : Bytes) (i : Nat) : Nat := (raw.getD i 0).toNat

/-- the status words say "success" -/
def StatusWordsOk (tr : Transport) (raw : Bytes) : Prop :=
  tr.off + 3 ≤ raw.length ∧
  leVal (slice raw 8 12) = 0 ∧
  128 ≤ byteAt raw tr.off ∧
  (byteAt raw (tr.off + 2) = 0 ∨
   (byteAt raw (tr.off + 2) = 6 ∧ tr = .connected ∧
    ∃ svc, serviceFromReply [UInt8.ofNat (byteAt raw tr.off)] = .ok (some svc) ∧ isMultiPacket (some svc) = true))

/-- "some request service is answered by this reply byte and it is a multi-packet one", given the
    outcome of the service lookup -/
theorem multi_iff (x : Bytes) (svc : Option Bytes) (hs : serviceFromReply x = .ok svc) :
    (∃ s, serviceFromReply x = .ok (some s) ∧ isMultiPacket (some s) = true) ↔ isMultiPacket svc = true := by
  rw [hs]
  cases svc with
  | none => simp [isMultiPacket]
  | some b =>
    constructor
    · rintro ⟨s, h1, h2⟩
      cases h1; exact h2
    · intro h; exact ⟨b, rfl, h⟩

/-- `validCip` on a fully parsed reply -/
theorem validCip_record (tr : Transport) (cmd : Bytes) (cs : Int) (svc : Option Bytes) (st : Nat) (d : Bytes) :
    validCip tr { err := none, command := some cmd, commandStatus := some cs, service := svc,
                  serviceStatus := some st, data := some d } = true ↔
    cs = 0 ∧ (st = 0 ∨ (st = 6 ∧ tr = .connected ∧ isMultiPacket svc = true)) := by
  cases tr <;> simp [validCip, validBase]

/-- a reply whose parse recorded an error is not valid -/
theorem validCip_err (tr : Transport) (p : Parsed) (e : Err) (h : p.err = some e) : validCip tr p = false := by
  simp [validCip, validBase, h]

/-- `errorCip` (with valid = false) on a fully parsed reply: the encapsulation status decides first, then
    the CIP general status -/
theorem errorCip_record (tr : Transport) (raw cmd : Bytes) (cs : Int) (svc : Option Bytes) (st : Nat) (d : Bytes) :
    errorCip (some raw) tr
        { err := none, command := some cmd, commandStatus := some cs, service := svc,
          serviceStatus := some st, data := some d } false =
      if cs ≠ 0 then (extendedText raw tr cs).map fun t => some (.text t)
      else if st ≠ 0 then (extendedText raw tr (st : Nat)).map fun t => some (.text t)
      else .ok (some .unknownError) := by
  simp [errorCip]

-- PROPERTY THEOREMS

/-- the services that may legitimately answer general status 6 ("more to come"), regenerated from
    `MULTI_PACKET_SERVICES` on every run, are exactly Get Attribute List (0x03), Multiple Service Packet (0x0A),
    Read Tag Fragmented (0x52), Write Tag Fragmented (0x53) and Get Instance Attribute List (0x55) -/
theorem continuing_services_table : Gen.multiPacketServices = [[3], [10], [82], [83], [85]] := by decide

/-- A reply counts as success EXACTLY when its encapsulation status is 0 and its CIP general status is 0
    (or 6 for a connected reply to one of the services that legitimately continue), for every byte string. -/
theorem valid_iff (tr : Transport) (raw : Bytes) :
    validCip tr (parseCip (some raw) tr) = true ↔ StatusWordsOk tr raw := by
  unfold StatusWordsOk byteAt
  by_cases hg : tr.off + 3 ≤ raw.length ∧ 128 ≤ (raw.getD tr.off 0).toNat
  · obtain ⟨h1, h2⟩ := hg
    obtain ⟨svc, hs, hp⟩ := parseCip_good tr raw h1 h2
    have ho := off_ge tr
    rw [hp, validCip_record, multi_iff _ _ hs, encStatus_zero_iff raw (by omega)]
    constructor
    · rintro ⟨a, b⟩; exact ⟨h1, a, h2, b⟩
    · rintro ⟨_, a, _, b⟩; exact ⟨a, b⟩
  · have he := parseCip_bad tr raw hg
    constructor
    · intro h
      rw [validCip_err tr _ _ he] at h; cases h
    · rintro ⟨a, _, b, _⟩; exact absurd ⟨a, b⟩ hg

/-- a reply too short to contain its status words is never reported as success -/
theorem short_never_valid (tr : Transport) (raw : Bytes) (h : raw.length < tr.off + 3) :
    validCip tr (parseCip (some raw) tr) = false := by
  apply validCip_err tr _ .parseFailed
  apply parseCip_bad
  omega

/-- no reply at all is a failure with the text "No response data received" -/
theorem none_never_valid (tr : Transport) :
    validCip tr (parseCip none tr) = false ∧
    errorCip none tr (parseCip none tr) false = .ok (some .noResponse) := by
  constructor
  · exact validCip_err tr _ .noResponse rfl
  · rfl

/-- every invalid reply carries an error (or the error accessor raises a library exception for a reply cut
    inside its status words); the error is never absent -/
theorem invalid_has_error (tr : Transport) (raw : Option Bytes) (valid : Bool)
    (hv : valid = validCip tr (parseCip raw tr)) (h : valid = false) :
    (∃ e, errorCip raw tr (parseCip raw tr) valid = .ok (some e)) ∨
    errorCip raw tr (parseCip raw tr) valid = .error .bufferEmpty ∨
    errorCip raw tr (parseCip raw tr) valid = .error .data := by
  subst h
  cases raw with
  | none => exact .inl ⟨_, rfl⟩
  | some raw =>
    by_cases hg : tr.off + 3 ≤ raw.length ∧ 128 ≤ (raw.getD tr.off 0).toNat
    · obtain ⟨svc, _, hp⟩ := parseCip_good tr raw hg.1 hg.2
      rw [hp, errorCip_record]
      have key : ∀ s : Int,
          (∃ e, (extendedText raw tr s).map (fun t => some (Err.text t)) = .ok (some e)) ∨
          (extendedText raw tr s).map (fun t => some (Err.text t)) = .error .bufferEmpty ∨
          (extendedText raw tr s).map (fun t => some (Err.text t)) = .error .data := by
        intro s
        rcases extendedText_cases raw tr s with ⟨t, ht, _⟩ | ⟨e, he, hc⟩
        · rw [ht]; exact .inl ⟨_, rfl⟩
        · rw [he]; rcases hc with rfl | rfl
          · exact .inr (.inl rfl)
          · exact .inr (.inr rfl)
      split
      · exact key _
      · split
        · exact key _
        · exact .inl ⟨_, rfl⟩
    · have he := parseCip_bad tr raw hg
      left
      exact ⟨.parseFailed, by simp [errorCip, he]⟩

/-- a valid reply has no error -/
theorem valid_has_no_error (tr : Transport) (raw : Option Bytes) (h : validCip tr (parseCip raw tr) = true) :
    errorCip raw tr (parseCip raw tr) true = .ok none := by
  have _ := h
  simp [errorCip]

/-- error texts are never empty -/
theorem status_text_nonempty (i : Int) : serviceStatusTextI i ≠ [] := by
  unfold serviceStatusTextI
  split
  · split
    · next t ht => exact serviceStatus_texts_nonempty _ (lookupNat_mem _ _ _ ht)
    · exact unknown_nonempty _ _
  · exact unknown_nonempty _ _

/-- for a CIP error status (encapsulation status 0, well-formed service fields, general status s ≠ 0 that is
    not a legitimate partial transfer) the error text starts with the text of that status — the known text, or
    "Unknown Error (<hex>)" — followed by the extended status when present -/
theorem error_names_status (tr : Transport) (raw : Bytes)
    (hlen : tr.off + 4 ≤ raw.length) (henc : leVal (slice raw 8 12) = 0) (hsvc : 128 ≤ byteAt raw tr.off)
    (hst : byteAt raw (tr.off + 2) ≠ 0)
    (hinv : validCip tr (parseCip (some raw) tr) = false) :
    (∃ t, errorCip (some raw) tr (parseCip (some raw) tr) false = .ok (some (.text t)) ∧
          serviceStatusTextI (byteAt raw (tr.off + 2)) <+: t) ∨
    (∃ e, errorCip (some raw) tr (parseCip (some raw) tr) false = .error e ∧ (e = .bufferEmpty ∨ e = .data)) := by
  have _ := hinv
  unfold byteAt at *
  obtain ⟨svc, _, hp⟩ := parseCip_good tr raw (by omega) hsvc
  have ho := off_ge tr
  have h0 : toSigned 4 (leVal (slice raw 8 12)) = 0 := (encStatus_zero_iff raw (by omega)).2 henc
  rw [hp, errorCip_record, h0]
  simp only [ne_eq, not_true_eq_false, if_false, hst, not_false_eq_true, if_true]
  rcases extendedText_cases raw tr ((raw.getD (tr.off + 2) 0).toNat : Nat) with ⟨t, ht, hpre⟩ | ⟨e, he, hc⟩
  · rw [ht]; exact .inl ⟨t, rfl, hpre⟩
  · rw [he]; exact .inr ⟨e, rfl, hc⟩

/-- with a data type, "valid" additionally means the payload decoded -/
theorem typed_valid_decodes (tr : Transport) (raw : Bytes) (ty : Ty) (v : PyVal) (p : Reply.Parsed)
    (h : parseGeneric (some raw) tr (some ty) = (v, p, true)) :
    StatusWordsOk tr raw ∧ ∃ rest, decode ty (raw.drop (tr.off + 4)) = .ok (v, rest) := by
  simp only [parseGeneric] at h
  split at h
  · next hvalid =>
    have hw := (valid_iff tr raw).1 hvalid
    refine ⟨hw, ?_⟩
    obtain ⟨h1, _, h2, _⟩ := hw
    obtain ⟨svc, _, hp⟩ := parseCip_good tr raw h1 h2
    rw [hp] at h
    simp only [Option.getD_some] at h
    split at h
    · next v' r hd =>
      simp only [Prod.mk.injEq] at h
      obtain ⟨rfl, _⟩ := h
      exact ⟨r, hd⟩
    · simp at h
  · simp at h

/-- without a data type the value is the reply data, unchanged -/
theorem untyped_value_is_data (tr : Transport) (raw : Bytes) (h : StatusWordsOk tr raw) :
    parseGeneric (some raw) tr none = (.bytes (raw.drop (tr.off + 4)), parseCip (some raw) tr, true) := by
  have hvalid := (valid_iff tr raw).2 h
  obtain ⟨h1, _, h2, _⟩ := h
  obtain ⟨svc, _, hp⟩ := parseCip_good tr raw h1 h2
  simp only [parseGeneric, hvalid]
  rw [hp]

/-- RegisterSession: valid exactly when status is 0 and the 4 handle bytes are present -/
theorem register_valid_iff (raw : Bytes) :
    (parseRegister (some raw)).valid = true ↔ (12 ≤ raw.length ∧ leVal (slice raw 8 12) = 0) := by
  by_cases hl : 12 ≤ raw.length
  · have h48 : IntK.udint.size ≤ (slice raw 4 8).length := by rw [slice_length]; simp [IntK.size]; omega
    simp only [parseRegister, parseBase, dint_slice_ok raw hl, decodeIntNat_ok _ _ h48, RegReply.valid, validBase]
    simp [hl, encStatus_zero_iff raw hl]
  · obtain ⟨e, he⟩ := dint_slice_err raw (by omega)
    simp only [parseRegister, parseBase, he, RegReply.valid, validBase]
    split <;> simp [hl]

end Pycomm.Reply
