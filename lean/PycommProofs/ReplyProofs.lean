/-
  Proofs for C13 (replies are classified by their status words; bad replies cannot pass or crash).
-/
import PycommModel.Reply
namespace Pycomm.Reply

/-- byte i of a reply -/
def byteAt (raw : Bytes) (i : Nat) : Nat := (raw.getD i 0).toNat

/-- the status words say "success" -/
def StatusWordsOk (tr : Transport) (raw : Bytes) : Prop :=
  tr.off + 3 ≤ raw.length ∧
  leVal (slice raw 8 12) = 0 ∧
  128 ≤ byteAt raw tr.off ∧
  (byteAt raw (tr.off + 2) = 0 ∨
   (byteAt raw (tr.off + 2) = 6 ∧ tr = .connected ∧
    ∃ svc, serviceFromReply [UInt8.ofNat (byteAt raw tr.off)] = .ok (some svc) ∧ isMultiPacket (some svc) = true))

-- PROPERTY THEOREMS

/-- A reply counts as success EXACTLY when its encapsulation status is 0 and its CIP general status is 0
    (or 6 for a connected reply to one of the services that legitimately continue), for every byte string. -/
theorem valid_iff (tr : Transport) (raw : Bytes) :
    validCip tr (parseCip (some raw) tr) = true ↔ StatusWordsOk tr raw := by
  sorry

/-- a reply too short to contain its status words is never reported as success -/
theorem short_never_valid (tr : Transport) (raw : Bytes) (h : raw.length < tr.off + 3) :
    validCip tr (parseCip (some raw) tr) = false := by
  sorry

/-- no reply at all is a failure with the text "No response data received" -/
theorem none_never_valid (tr : Transport) :
    validCip tr (parseCip none tr) = false ∧
    errorCip none tr (parseCip none tr) false = .ok (some .noResponse) := by
  sorry

/-- every invalid reply carries an error (or the error accessor raises a library exception for a reply cut
    inside its status words); the error is never absent -/
theorem invalid_has_error (tr : Transport) (raw : Option Bytes) (valid : Bool)
    (hv : valid = validCip tr (parseCip raw tr)) (h : valid = false) :
    (∃ e, errorCip raw tr (parseCip raw tr) valid = .ok (some e)) ∨
    errorCip raw tr (parseCip raw tr) valid = .error .bufferEmpty ∨
    errorCip raw tr (parseCip raw tr) valid = .error .data := by
  sorry

/-- a valid reply has no error -/
theorem valid_has_no_error (tr : Transport) (raw : Option Bytes) (h : validCip tr (parseCip raw tr) = true) :
    errorCip raw tr (parseCip raw tr) true = .ok none := by
  sorry

/-- error texts are never empty -/
theorem status_text_nonempty (i : Int) : serviceStatusTextI i ≠ [] := by
  sorry

/-- for a CIP error status (encapsulation status 0, well-formed service fields, general status s ≠ 0 that is
    not a legitimate partial transfer) the error text starts with the text of that status — the known text, or
    "Unknown Error (<hex>)" — followed by the extended status when present -/
theorem error_names_status (tr : Transport) (raw : Bytes)
    (hlen : tr.off + 4 ≤ raw.length) (henc : leVal (slice raw 8 12) = 0) (hsvc : 128 ≤ byteAt raw tr.off)
    (hst : byteAt raw (tr.off + 2) ≠ 0)
    (hinv : validCip tr (parseCip (some raw) tr) = false) :
    (∃ t, errorCip (some raw) tr (parseCip (some raw) tr) false = .ok (some (.text t)) ∧
          serviceStatusTextI (byteAt raw (tr.off + 2)) <+: t) ∨
    (∃ e, errorCip (some raw) tr (parseCip (some raw) tr) false = .error e ∧ (e = .bufferEmpty ∨ e = .data)) := by
  sorry

/-- with a data type, "valid" additionally means the payload decoded -/
theorem typed_valid_decodes (tr : Transport) (raw : Bytes) (ty : Ty) (v : PyVal) (p : Parsed)
    (h : parseGeneric (some raw) tr (some ty) = (v, p, true)) :
    StatusWordsOk tr raw ∧ ∃ rest, decode ty (raw.drop (tr.off + 4)) = .ok (v, rest) := by
  sorry

/-- without a data type the value is the reply data, unchanged -/
theorem untyped_value_is_data (tr : Transport) (raw : Bytes) (h : StatusWordsOk tr raw) :
    parseGeneric (some raw) tr none = (.bytes (raw.drop (tr.off + 4)), parseCip (some raw) tr, true) := by
  sorry

/-- RegisterSession: valid exactly when status is 0 and the 4 handle bytes are present -/
theorem register_valid_iff (raw : Bytes) :
    (parseRegister (some raw)).valid = true ↔ (12 ≤ raw.length ∧ leVal (slice raw 8 12) = 0) := by
  sorry

end Pycomm.Reply
