/-
  C10 (connection lifecycle is safe under any call history and failure point) over the full call alphabet of the
  property: open / close / generic_message AND `LogixDriver.read` / `LogixDriver.write`
  (model of read / write: PycommModel/Logix/Driver.lean; helper lemmas: LCLogix1.lean, LCLogix2.lean).

  The tag database and the options a read / write call works with (`cfg`) are arbitrary per call: the theorems hold
  whatever the driver believes about the controller's tags.
-/
import PycommProofs.LifecycleProofs
import PycommProofs.LCLogix2
import PycommProofs.LogixDriverShape
import PycommProofs.LogixDriverRead
import PycommProofs.SeqClientProofs
import PycommProofs.LCLogix6
import PycommProofs.LCLogix8
namespace Pycomm.Cli
open Pycomm.Tgt Pycomm.Encap Pycomm.Path

/-- the public calls of the connection lifecycle, with the tag reads and writes of the LogixDriver -/
inductive LCall where
  | open (rnd : Bytes)
  | close
  | generic (a : GenArgs)
  | read (cfg : Lgx.Drv.Cfg) (tags : List Name)
  | write (cfg : Lgx.Drv.Cfg) (tvs : List (Name × PyVal))

/-- one call against the world -/
def lcallStep {σ} (hook : ObjHook σ) (w : World σ) : LCall → World σ × Outcome
  | .open rnd => match openDrv hook w rnd with
      | (w', .ok _) => (w', .ok)
      | (w', .error e) => (w', .raised e)
  | .close => match closeDrv hook w with
      | (w', .ok _) => (w', .ok)
      | (w', .error e) => (w', .raised e)
  | .generic a => match genericMessage hook FUEL w a with
      | (w', .ok _) => (w', .ok)
      | (w', .error e) => (w', .raised e)
  | .read cfg tags => match Lgx.Drv.read hook cfg w tags with
      | (w', .ok _) => (w', .ok)
      | (w', .error e) => (w', .raised e)
  | .write cfg tvs => match Lgx.Drv.write hook cfg w tvs with
      | (w', .ok _) => (w', .ok)
      | (w', .error e) => (w', .raised e)

def lrun {σ} (hook : ObjHook σ) (w : World σ) : List LCall → World σ
  | [] => w
  | c :: cs => lrun hook (lcallStep hook w c).1 cs

/-- the old alphabet inside the new one -/
def LCall.ofCall : Call → LCall
  | .open rnd => .open rnd
  | .close => .close
  | .generic a => .generic a

theorem lcallStep_ofCall {σ} (hook : ObjHook σ) (w : World σ) (c : Call) :
    lcallStep hook w (LCall.ofCall c) = call hook w c := by
  cases c <;> rfl

theorem lrun_ofCall {σ} (hook : ObjHook σ) (calls : List Call) :
    ∀ w : World σ, lrun hook w (calls.map LCall.ofCall) = run hook w calls := by
  induction calls with
  | nil => intro w; rfl
  | cons c cs ih => intro w; simp only [List.map_cons, lrun, run, lcallStep_ofCall]; exact ih _

theorem lrun_append {σ} (hook : ObjHook σ) (a b : List LCall) :
    ∀ w : World σ, lrun hook w (a ++ b) = lrun hook (lrun hook w a) b := by
  induction a with
  | nil => intro w; rfl
  | cons c cs ih => intro w; simp only [List.cons_append, lrun]; exact ih _

/-- evaluable checks on a history: every generic_message call avoids the Connection Manager / every open() gets
    8 random bytes -/
def lhistAvoidsCM : List LCall → Bool
  | [] => true
  | .generic a :: cs => AvoidsCM a && lhistAvoidsCM cs
  | _ :: cs => lhistAvoidsCM cs

def lhistRnd8 : List LCall → Bool
  | [] => true
  | .open rnd :: cs => decide (rnd.length = 8) && lhistRnd8 cs
  | _ :: cs => lhistRnd8 cs

theorem lhistAvoidsCM_spec (calls : List LCall) (h : lhistAvoidsCM calls = true) :
    ∀ a, LCall.generic a ∈ calls → AvoidsCM a = true := by
  induction calls with
  | nil => intro a ha; cases ha
  | cons c cs ih =>
    intro a ha
    cases c with
    | generic b =>
      simp only [lhistAvoidsCM, Bool.and_eq_true] at h
      rcases List.mem_cons.1 ha with e | ha
      · cases e; exact h.1
      · exact ih h.2 a ha
    | «open» _ | close | read _ _ | write _ _ =>
      rcases List.mem_cons.1 ha with e | ha
      · cases e
      · exact ih h a ha

theorem lhistRnd8_spec (calls : List LCall) (h : lhistRnd8 calls = true) :
    ∀ rnd, LCall.open rnd ∈ calls → rnd.length = 8 := by
  induction calls with
  | nil => intro a ha; cases ha
  | cons c cs ih =>
    intro a ha
    cases c with
    | «open» b =>
      simp only [lhistRnd8, Bool.and_eq_true, decide_eq_true_eq] at h
      rcases List.mem_cons.1 ha with e | ha
      · cases e; exact h.1
      · exact ih h.2 a ha
    | generic _ | close | read _ _ | write _ _ =>
      rcases List.mem_cons.1 ha with e | ha
      · cases e
      · exact ih h a ha

/-- the invariant of LCInv.lean is preserved by every call of the extended alphabet -/
theorem lcl_call_inv {σ} (hook : ObjHook σ) (hh : HookOk hook) (S : Prop) (w : World σ) (c : LCall)
    (ho : ∀ rnd, c = .open rnd → S → rnd.length = 8) (hg : ∀ a, c = .generic a → AvoidsCM a = true)
    (hi : lci_Inv S w) (hc : lci_Conn w) : lci_Inv S (lcallStep hook w c).1 ∧ lci_Conn (lcallStep hook w c).1 := by
  cases c with
  | «open» rnd => exact lci_call_inv hook hh S w (.open rnd) (fun r e => ho r (by cases e; rfl)) (fun a e => by cases e) hi hc
  | close => exact lci_call_inv hook hh S w .close (fun r e => by cases e) (fun a e => by cases e) hi hc
  | generic a => exact lci_call_inv hook hh S w (.generic a) (fun r e => by cases e) (fun b e => hg b (by cases e; rfl)) hi hc
  | read cfg tags =>
    have := Lgx.Drv.lcl_read_inv hook hh S cfg w tags hi hc
    simp only [lcallStep]
    generalize Lgx.Drv.read hook cfg w tags = r at this ⊢
    obtain ⟨w', o⟩ := r
    cases o <;> exact this
  | write cfg tvs =>
    have := Lgx.Drv.lcl_write_inv hook hh S cfg w tvs hi hc
    simp only [lcallStep]
    generalize Lgx.Drv.write hook cfg w tvs = r at this ⊢
    obtain ⟨w', o⟩ := r
    cases o <;> exact this

theorem lcl_run_inv {σ} (hook : ObjHook σ) (hh : HookOk hook) (S : Prop) (calls : List LCall) :
    ∀ (w : World σ), (∀ rnd, LCall.open rnd ∈ calls → S → rnd.length = 8) →
      (∀ a, LCall.generic a ∈ calls → AvoidsCM a = true) → lci_Inv S w → lci_Conn w →
      lci_Inv S (lrun hook w calls) ∧ lci_Conn (lrun hook w calls) := by
  induction calls with
  | nil => intro w _ _ hi hc; exact ⟨hi, hc⟩
  | cons c cs ih =>
    intro w ho hg hi hc
    obtain ⟨h1, h2⟩ := lcl_call_inv hook hh S w c
      (fun rnd e => ho rnd (e ▸ List.mem_cons_self)) (fun a e => hg a (e ▸ List.mem_cons_self)) hi hc
    exact ih _ (fun rnd h => ho rnd (List.mem_cons_of_mem _ h)) (fun a h => hg a (List.mem_cons_of_mem _ h)) h1 h2

/-- every call keeps the idle invariant of LCIdle.lean -/
theorem lcl_call_net {σ} (hook : ObjHook σ) (hh : HookOk hook) (F : List Fault) (P : Policy) (w : World σ) (c : LCall)
    (hi : lci_Inv False w) (hn : lci_Net F P w) : lci_Net F P (lcallStep hook w c).1 := by
  cases c with
  | «open» rnd =>
    have := lci_Net_open hook hh w rnd hn
    simp only [lcallStep]
    generalize openDrv hook w rnd = r at this ⊢
    obtain ⟨w', o⟩ := r
    cases o <;> exact this
  | close =>
    have := lci_Net_close hook w hi.ctx8 hn
    simp only [lcallStep]
    generalize closeDrv hook w = r at this ⊢
    obtain ⟨w', o⟩ := r
    cases o <;> exact this
  | generic a =>
    have := lci_Net_step hn ((lci_NStep_mutual hook hh FUEL).2.2 w a)
    simp only [lcallStep]
    generalize genericMessage hook FUEL w a = r at this ⊢
    obtain ⟨w', o⟩ := r
    cases o <;> exact this
  | read cfg tags =>
    have := lci_Net_step hn (Lgx.Drv.lcl_read_nstep hook hh cfg w tags)
    simp only [lcallStep]
    generalize Lgx.Drv.read hook cfg w tags = r at this ⊢
    obtain ⟨w', o⟩ := r
    cases o <;> exact this
  | write cfg tvs =>
    have := lci_Net_step hn (Lgx.Drv.lcl_write_nstep hook hh cfg w tvs)
    simp only [lcallStep]
    generalize Lgx.Drv.write hook cfg w tvs = r at this ⊢
    obtain ⟨w', o⟩ := r
    cases o <;> exact this

theorem lcl_run_net {σ} (hook : ObjHook σ) (hh : HookOk hook) (F : List Fault) (P : Policy) (calls : List LCall) :
    ∀ (w : World σ), (∀ a, LCall.generic a ∈ calls → AvoidsCM a = true) →
      lci_Inv False w → lci_Conn w → lci_Net F P w →
      lci_Inv False (lrun hook w calls) ∧ lci_Net F P (lrun hook w calls) := by
  induction calls with
  | nil => intro w _ hi _ hn; exact ⟨hi, hn⟩
  | cons c cs ih =>
    intro w hg hi hc hn
    obtain ⟨h1, h2⟩ := lcl_call_inv hook hh False w c (fun _ _ h => h.elim)
      (fun a e => hg a (e ▸ List.mem_cons_self)) hi hc
    exact ih _ (fun a h => hg a (List.mem_cons_of_mem _ h)) h1 h2 (lcl_call_net hook hh F P w c hi hn)

/-- the full target's object hook (Logix services, PCCC object) satisfies `HookOk`: it only touches its own state -/
theorem hookAll_base (t : Target Ext) (cs : Option Nat) (req : MRReq) (t' : Target Ext) (r : MRReply)
    (h : hookAll t cs req = some (t', r)) : t'.base = t.base := by
  unfold hookAll at h
  split at h
  · simp only [Option.some.injEq, Prod.mk.injEq] at h
    rw [← h.1]
  · split at h
    · cases h
    · split at h
      · cases h
      · simp only [Option.some.injEq, Prod.mk.injEq] at h
        rw [← h.1]

theorem hookAll_ok : HookOk hookAll := by
  intro t cs req t' r h
  rw [hookAll_base t cs req t' r h]
  exact ⟨rfl, rfl, rfl, rfl, rfl, [], rfl, fun e he => nomatch he⟩

theorem lcl_rmwMessage_err (r : Lgx.Drv.RmwReq) (e : Exn) (h : Lgx.Drv.rmwMessage r = .error e) : e = .data := by
  unfold Lgx.Drv.rmwMessage at h
  split at h
  · cases h; rfl
  · split at h
    · next e' hp =>
      simp only [Except.error.injEq] at h
      subst h
      unfold packInt at hp
      split at hp
      · split at hp
        · cases hp
        · cases hp; rfl
      · cases hp; rfl
    · cases h

/-! ### C17 over the extended alphabet: budgets -/

/-- the sequence numbers a call may draw without sending them, and its fragment-loop slack: three per requested
    tag (request packet, fragmented re-issue, multi-service packet) plus one -/
def LCall.budget : LCall → Nat
  | .read _ tags => 3 * tags.length + 1
  | .write _ tvs => 3 * tvs.length + 1
  | _ => 0

/-- the largest budget spent between two close() calls; `cur` = spent since the last close() -/
def lbudget : Nat → List LCall → Nat
  | cur, [] => cur
  | cur, .close :: cs => max cur (lbudget 0 cs)
  | cur, c :: cs => lbudget (cur + c.budget) cs

theorem lbudget_ge (calls : List LCall) : ∀ cur, cur ≤ lbudget cur calls := by
  induction calls with
  | nil => intro cur; exact Nat.le_refl _
  | cons c cs ih =>
    intro cur
    cases c with
    | close => simp only [lbudget]; omega
    | «open» _ => simp only [lbudget]; exact Nat.le_trans (Nat.le_add_right _ _) (ih _)
    | generic _ => simp only [lbudget]; exact Nat.le_trans (Nat.le_add_right _ _) (ih _)
    | read _ _ => simp only [lbudget]; exact Nat.le_trans (Nat.le_add_right _ _) (ih _)
    | write _ _ => simp only [lbudget]; exact Nat.le_trans (Nat.le_add_right _ _) (ih _)

theorem lbudget_mono (calls : List LCall) : ∀ cur cur', cur ≤ cur' → lbudget cur calls ≤ lbudget cur' calls := by
  induction calls with
  | nil => intro cur cur' h; exact h
  | cons c cs ih =>
    intro cur cur' h
    cases c with
    | close => simp only [lbudget]; omega
    | «open» _ => simp only [lbudget]; exact ih _ _ (by omega)
    | generic _ => simp only [lbudget]; exact ih _ _ (by omega)
    | read _ _ => simp only [lbudget]; exact ih _ _ (by omega)
    | write _ _ => simp only [lbudget]; exact ih _ _ (by omega)

/-- a read / write that returned at least one Tag without an error: the controller has answered it -/
def lgood {σ} (hook : ObjHook σ) (w : World σ) : LCall → Bool
  | .read cfg tags =>
      match (Lgx.Drv.read hook cfg w tags).2 with
      | .ok res => res.any (fun t => t.error.isNone)
      | .error _ => false
  | .write cfg tvs =>
      match (Lgx.Drv.write hook cfg w tvs).2 with
      | .ok res => res.any (fun t => t.error.isNone)
      | .error _ => false
  | _ => false

/-- the budget along the run: a close() starts a new segment at 0, an answered read / write (`lgood`) starts a new
    segment at its own budget; `cur` = spent in the current segment -/
def lbudgetR {σ} (hook : ObjHook σ) : Nat → World σ → List LCall → Nat
  | cur, _, [] => cur
  | cur, w, .close :: cs => max cur (lbudgetR hook 0 (lcallStep hook w .close).1 cs)
  | cur, w, c :: cs =>
      if lgood hook w c then max (cur + c.budget) (lbudgetR hook c.budget (lcallStep hook w c).1 cs)
      else lbudgetR hook (cur + c.budget) (lcallStep hook w c).1 cs

theorem lbudgetR_step {σ} (hook : ObjHook σ) (cur : Nat) (w : World σ) (c : LCall) (cs : List LCall)
    (hc : c ≠ .close) :
    lbudgetR hook cur w (c :: cs) =
      if lgood hook w c then max (cur + c.budget) (lbudgetR hook c.budget (lcallStep hook w c).1 cs)
      else lbudgetR hook (cur + c.budget) (lcallStep hook w c).1 cs := by
  cases c with
  | close => exact absurd rfl hc
  | «open» _ | generic _ | read _ _ | write _ _ => rfl

/-- the budget along the run never exceeds the static budget -/
theorem lbudgetR_le {σ} (hook : ObjHook σ) (calls : List LCall) :
    ∀ (cur : Nat) (w : World σ), lbudgetR hook cur w calls ≤ lbudget cur calls := by
  induction calls with
  | nil => intro cur w; exact Nat.le_refl _
  | cons c cs ih =>
    intro cur w
    by_cases hc : c = .close
    · subst hc
      simp only [lbudgetR, lbudget]
      have := ih 0 (lcallStep hook w .close).1
      omega
    · rw [lbudgetR_step hook cur w c cs hc]
      have hl : lbudget cur (c :: cs) = lbudget (cur + c.budget) cs := by
        cases c with
        | close => exact absurd rfl hc
        | «open» _ | generic _ | read _ _ | write _ _ => rfl
      rw [hl]
      split
      · have h1 := ih c.budget (lcallStep hook w c).1
        have h2 := lbudget_mono cs c.budget (cur + c.budget) (by omega)
        have h3 := lbudget_ge cs (cur + c.budget)
        omega
      · exact ih _ _

theorem lbudgetR_ge {σ} (hook : ObjHook σ) (calls : List LCall) :
    ∀ (cur : Nat) (w : World σ), cur ≤ lbudgetR hook cur w calls := by
  induction calls with
  | nil => intro cur w; exact Nat.le_refl _
  | cons c cs ih =>
    intro cur w
    by_cases hc : c = .close
    · subst hc
      simp only [lbudgetR]
      omega
    · rw [lbudgetR_step hook cur w c cs hc]
      split
      · omega
      · exact Nat.le_trans (Nat.le_add_right _ _) (ih _ _)

/-- the packets a read / write call builds keep every packet that is sent by a fragment loop (a fragmented read
    or write) in the last position — whatever the state of the driver, as long as its connection size is the
    configured 4000 or the 500 of the standard Forward Open -/
def LCall.LoopsLast : LCall → Prop
  | .read cfg tags => ∀ d, lcl_Sz d → ∀ d1 reqs,
      Lgx.Drv.readBuildRequests cfg d (Lgx.Drv.parseRequestedTags cfg.tags false tags) = (d1, .ok reqs) →
        Lgx.Drv.lcl_loopLast reqs = true
  | .write cfg tvs => ∀ d, lcl_Sz d → ∀ d1 ps' reqs,
      Lgx.Drv.writeBuildRequests cfg d (Lgx.Drv.lds_wparse cfg.tags tvs) = (d1, .ok (ps', reqs)) →
        Lgx.Drv.lcl_loopLast reqs = true
  | _ => True

/-- a read of a single tag builds at most one packet -/
theorem loopsLast_read_single (cfg : Lgx.Drv.Cfg) (tags : List Name) (h : tags.length = 1) :
    (LCall.read cfg tags).LoopsLast := by
  intro d _ d1 reqs hb
  apply Lgx.Drv.lcl_loopLast_short
  exact Lgx.Drv.lcl_readBuild_single cfg d (Lgx.Drv.parseRequestedTags cfg.tags false tags)
    (by rw [Lgx.Drv.lds_parse_length]; exact h) reqs (by rw [hb])

/-- a write of a single (tag, value) pair builds at most one packet -/
theorem loopsLast_write_single (cfg : Lgx.Drv.Cfg) (tvs : List (Name × PyVal)) (h : tvs.length = 1) :
    (LCall.write cfg tvs).LoopsLast := by
  intro d _ d1 ps' reqs hb
  apply Lgx.Drv.lcl_loopLast_short
  exact Lgx.Drv.lcl_writeBuild_single cfg d (Lgx.Drv.lds_wparse cfg.tags tvs)
    (by rw [Lgx.Drv.lds_wparse_length]; exact h) (ps', reqs) (by rw [hb])

/-- evaluable: no request of a read / write call is fragmented, neither on a connection of 4000 nor of 500 bytes
    (decided from the reply size of every read request / the message size of every write request) -/
def LCall.noFrag : LCall → Bool
  | .read cfg tags =>
      Lgx.Drv.lcl_readNoFragC cfg 4000 (Lgx.Drv.parseRequestedTags cfg.tags false tags) &&
      Lgx.Drv.lcl_readNoFragC cfg 500 (Lgx.Drv.parseRequestedTags cfg.tags false tags)
  | .write cfg tvs =>
      Lgx.Drv.lcl_writeNoFragC cfg 4000 (Lgx.Drv.lds_wparse cfg.tags tvs) &&
      Lgx.Drv.lcl_writeNoFragC cfg 500 (Lgx.Drv.lds_wparse cfg.tags tvs)
  | _ => true

/-- a call none of whose requests is fragmented builds no packet that is sent by a loop -/
theorem loopsLast_of_noFrag (c : LCall) (h : c.noFrag = true) : c.LoopsLast := by
  cases c with
  | read cfg tags =>
    simp only [LCall.noFrag, Bool.and_eq_true] at h
    intro d hsz d1 reqs hb
    apply Lgx.Drv.lcl_loopLast_of_noloop
    refine Lgx.Drv.lcl_readBuild_nofrag cfg d _ reqs ?_ (by rw [hb])
    rcases hsz with hsz | hsz <;> rw [hsz]
    · exact h.1
    · exact h.2
  | write cfg tvs =>
    simp only [LCall.noFrag, Bool.and_eq_true] at h
    intro d hsz d1 ps' reqs hb
    apply Lgx.Drv.lcl_loopLast_of_noloop
    refine Lgx.Drv.lcl_writeBuild_nofrag cfg d _ (ps', reqs) ?_ (by rw [hb])
    rcases hsz with hsz | hsz <;> rw [hsz]
    · exact h.1
    · exact h.2
  | «open» _ | close | generic _ => exact trivial

/-- evaluable: every read / write of the history has a single request or no fragmented request -/
def lhistLoopsLast : List LCall → Bool
  | [] => true
  | .read cfg tags :: cs => (decide (tags.length = 1) || (LCall.read cfg tags).noFrag) && lhistLoopsLast cs
  | .write cfg tvs :: cs => (decide (tvs.length = 1) || (LCall.write cfg tvs).noFrag) && lhistLoopsLast cs
  | _ :: cs => lhistLoopsLast cs

/-- evaluable: every read / write of the history has exactly one request -/
def lhistSingle : List LCall → Bool
  | [] => true
  | .read _ tags :: cs => decide (tags.length = 1) && lhistSingle cs
  | .write _ tvs :: cs => decide (tvs.length = 1) && lhistSingle cs
  | _ :: cs => lhistSingle cs

theorem lhistSingle_spec (calls : List LCall) (h : lhistSingle calls = true) : ∀ c ∈ calls, c.LoopsLast := by
  induction calls with
  | nil => intro c hc; cases hc
  | cons c cs ih =>
    intro c' hc'
    cases c with
    | read cfg tags =>
      simp only [lhistSingle, Bool.and_eq_true, decide_eq_true_eq] at h
      rcases List.mem_cons.1 hc' with rfl | hc'
      · exact loopsLast_read_single cfg tags h.1
      · exact ih h.2 c' hc'
    | write cfg tvs =>
      simp only [lhistSingle, Bool.and_eq_true, decide_eq_true_eq] at h
      rcases List.mem_cons.1 hc' with rfl | hc'
      · exact loopsLast_write_single cfg tvs h.1
      · exact ih h.2 c' hc'
    | «open» _ | close | generic _ =>
      rcases List.mem_cons.1 hc' with rfl | hc'
      · exact trivial
      · exact ih h c' hc'

theorem lhistLoopsLast_spec (calls : List LCall) (h : lhistLoopsLast calls = true) : ∀ c ∈ calls, c.LoopsLast := by
  induction calls with
  | nil => intro c hc; cases hc
  | cons c cs ih =>
    intro c' hc'
    cases c with
    | read cfg tags =>
      simp only [lhistLoopsLast, Bool.and_eq_true, Bool.or_eq_true, decide_eq_true_eq] at h
      rcases List.mem_cons.1 hc' with rfl | hc'
      · rcases h.1 with h1 | h1
        · exact loopsLast_read_single cfg tags h1
        · exact loopsLast_of_noFrag _ h1
      · exact ih h.2 c' hc'
    | write cfg tvs =>
      simp only [lhistLoopsLast, Bool.and_eq_true, Bool.or_eq_true, decide_eq_true_eq] at h
      rcases List.mem_cons.1 hc' with rfl | hc'
      · rcases h.1 with h1 | h1
        · exact loopsLast_write_single cfg tvs h1
        · exact loopsLast_of_noFrag _ h1
      · exact ih h.2 c' hc'
    | «open» _ | close | generic _ =>
      rcases List.mem_cons.1 hc' with rfl | hc'
      · exact trivial
      · exact ih h c' hc'

/-- every call keeps the connection size at 4000 or 500 -/
theorem lcl_call_sz {σ} (hook : ObjHook σ) (w : World σ) (c : LCall) (h : lcl_Sz w.drv) :
    lcl_Sz (lcallStep hook w c).1.drv := by
  cases c with
  | «open» rnd =>
    have := lcl_Sz_step h (lcl_SzStep_open hook w rnd)
    simp only [lcallStep]
    generalize openDrv hook w rnd = r at this ⊢
    obtain ⟨w', o⟩ := r
    cases o <;> exact this
  | close =>
    have := lcl_Sz_step h (lcl_SzStep_close hook w)
    simp only [lcallStep]
    generalize closeDrv hook w = r at this ⊢
    obtain ⟨w', o⟩ := r
    cases o <;> exact this
  | generic a =>
    have := lcl_Sz_step h ((lcl_SzStep_mutual hook FUEL).2.2 w a)
    simp only [lcallStep]
    generalize genericMessage hook FUEL w a = r at this ⊢
    obtain ⟨w', o⟩ := r
    cases o <;> exact this
  | read cfg tags =>
    have := lcl_Sz_step h (lcl_SzStep_read hook cfg w tags)
    simp only [lcallStep]
    generalize Lgx.Drv.read hook cfg w tags = r at this ⊢
    obtain ⟨w', o⟩ := r
    cases o <;> exact this
  | write cfg tvs =>
    have := lcl_Sz_step h (lcl_SzStep_write hook cfg w tvs)
    simp only [lcallStep]
    generalize Lgx.Drv.write hook cfg w tvs = r at this ⊢
    obtain ⟨w', o⟩ := r
    cases o <;> exact this

/-- lifecycle, idle, size and sequence invariants along every history of the extended alphabet -/
theorem lcl_run_seq {σ} (hook : ObjHook σ) (hh : HookOk hook) (hn : HookQuietSeq hook) (F : List Fault) (P : Policy)
    (calls : List LCall) :
    ∀ (w : World σ) (B : Nat), (∀ a, LCall.generic a ∈ calls → AvoidsCM a = true) →
      (∀ a, LCall.generic a ∈ calls → a.connected = true → SizeOk a = true) →
      (∀ c ∈ calls, c.LoopsLast) →
      lci_Inv False w → lci_Conn w → lci_Net F P w → lcl_Sz w.drv → lcl_SeqB B w →
      F.length + lbudgetR hook B w calls < 65534 → ∃ B', lcl_SeqB B' (lrun hook w calls) := by
  induction calls with
  | nil => intro w B _ _ _ _ _ _ _ hq _; exact ⟨B, hq⟩
  | cons c cs ih =>
    intro w B hg hs hl hi hc hnet hsz hq hb
    obtain ⟨h1, h2⟩ := lcl_call_inv hook hh False w c (fun _ _ h => h.elim)
      (fun a e => hg a (e ▸ List.mem_cons_self)) hi hc
    have h3 := lcl_call_net hook hh F P w c hi hnet
    have h4 := lcl_call_sz hook w c hsz
    have hF : w.net.faults = F := hnet.faults
    have next : ∀ B1, lcl_SeqB B1 (lcallStep hook w c).1 → F.length + lbudgetR hook B1 (lcallStep hook w c).1 cs < 65534 →
        ∃ B', lcl_SeqB B' (lrun hook w (c :: cs)) := by
      intro B1 hq1 hb1
      exact ih _ B1 (fun a h => hg a (List.mem_cons_of_mem _ h)) (fun a h => hs a (List.mem_cons_of_mem _ h))
        (fun c' h => hl c' (List.mem_cons_of_mem _ h)) h1 h2 h3 h4 hq1 hb1
    cases c with
    | «open» rnd =>
      refine next B ?_ (by simpa [lbudgetR, lgood, LCall.budget] using hb)
      have := lcl_openDrv_seq hook hh hn B w rnd hq
      simp only [lcallStep]
      generalize openDrv hook w rnd = r at this ⊢
      obtain ⟨w', o⟩ := r
      cases o <;> exact this
    | close =>
      have hb' : F.length + lbudgetR hook 0 (lcallStep hook w .close).1 cs < 65534 := by
        simp only [lbudgetR] at hb
        omega
      refine next 0 ?_ hb'
      have := lcl_closeDrv_seq hook hh hn F P B 0 w hnet hq (by rw [hF]; omega)
      simp only [lcallStep]
      generalize closeDrv hook w = r at this ⊢
      obtain ⟨w', o⟩ := r
      cases o <;> exact this
    | generic a =>
      refine next B ?_ (by simpa [lbudgetR, lgood, LCall.budget] using hb)
      have := lcl_generic_seq hook hh hn False B FUEL w a
        (fun hcn => lcs_size_of_check a (hs a List.mem_cons_self hcn)) hi hc hq
      simp only [lcallStep]
      generalize genericMessage hook FUEL w a = r at this ⊢
      obtain ⟨w', o⟩ := r
      cases o <;> exact this
    | read cfg tags =>
      rw [lbudgetR_step hook B w _ cs (by intro h; cases h)] at hb
      have hw' : (lcallStep hook w (.read cfg tags)).1 = (Lgx.Drv.read hook cfg w tags).1 := by
        simp only [lcallStep]
        generalize Lgx.Drv.read hook cfg w tags = r
        obtain ⟨w', o⟩ := r
        cases o <;> rfl
      have hfl : w.net.faults.length + (B + 3 * tags.length + 1) < 65534 := by
        rw [hF]
        by_cases hgd : lgood hook w (.read cfg tags) = true
        · rw [if_pos hgd] at hb
          simp only [LCall.budget] at hb
          omega
        · rw [if_neg hgd] at hb
          have := lbudgetR_ge hook cs (B + (LCall.read cfg tags).budget) (lcallStep hook w (.read cfg tags)).1
          simp only [LCall.budget] at this hb
          omega
      obtain ⟨k1, k2⟩ := Lgx.Drv.lcl_read_seq hook hh hn False B cfg w tags hi hc hq hsz (hl _ List.mem_cons_self) hfl
      by_cases hgd : lgood hook w (.read cfg tags) = true
      · rw [if_pos hgd] at hb
        refine next (3 * tags.length + 1) ?_ (by simp only [LCall.budget] at hb; omega)
        rw [hw']
        simp only [lgood] at hgd
        cases hres : (Lgx.Drv.read hook cfg w tags).2 with
        | error e => rw [hres] at hgd; cases hgd
        | ok res => rw [hres] at hgd; exact k2 res hres hgd
      · rw [if_neg hgd] at hb
        refine next (B + 3 * tags.length + 1) ?_ (by simpa [LCall.budget, Nat.add_assoc] using hb)
        rw [hw']
        exact k1
    | write cfg tvs =>
      rw [lbudgetR_step hook B w _ cs (by intro h; cases h)] at hb
      have hw' : (lcallStep hook w (.write cfg tvs)).1 = (Lgx.Drv.write hook cfg w tvs).1 := by
        simp only [lcallStep]
        generalize Lgx.Drv.write hook cfg w tvs = r
        obtain ⟨w', o⟩ := r
        cases o <;> rfl
      have hfl : w.net.faults.length + (B + 3 * tvs.length + 1) < 65534 := by
        rw [hF]
        by_cases hgd : lgood hook w (.write cfg tvs) = true
        · rw [if_pos hgd] at hb
          simp only [LCall.budget] at hb
          omega
        · rw [if_neg hgd] at hb
          have := lbudgetR_ge hook cs (B + (LCall.write cfg tvs).budget) (lcallStep hook w (.write cfg tvs)).1
          simp only [LCall.budget] at this hb
          omega
      obtain ⟨k1, k2⟩ := Lgx.Drv.lcl_write_seq hook hh hn False B cfg w tvs hi hc hq hsz (hl _ List.mem_cons_self) hfl
      by_cases hgd : lgood hook w (.write cfg tvs) = true
      · rw [if_pos hgd] at hb
        refine next (3 * tvs.length + 1) ?_ (by simp only [LCall.budget] at hb; omega)
        rw [hw']
        simp only [lgood] at hgd
        cases hres : (Lgx.Drv.write hook cfg w tvs).2 with
        | error e => rw [hres] at hgd; cases hgd
        | ok res => rw [hres] at hgd; exact k2 res hres hgd
      · rw [if_neg hgd] at hb
        refine next (B + 3 * tvs.length + 1) ?_ (by simpa [LCall.budget, Nat.add_assoc] using hb)
        rw [hw']
        exact k1

theorem hookAll_quietSeq : HookQuietSeq hookAll := by
  intro t cs req t' r h extra hx e he
  rw [hookAll_base t cs req t' r h] at hx
  have : extra = [] := by
    have := congrArg List.length hx
    simp only [List.length_append] at this
    exact List.eq_nil_of_length_eq_zero (by omega)
  subst this
  cases he

-- PROPERTY THEOREMS

/-- `LogixDriver.read` preserves the lifecycle invariant of LCInv.lean — whatever tag database `cfg` the driver
    holds, whatever the tags, the fault plan, the target policy, and whether the call returns or raises.
    (Every frame it sends goes through the `@with_forward_open` decorator first and then through
    `CIPDriver.send` of a connected request on the open connection; between the sends only the sequence counter
    of the driver changes.) -/
theorem read_preserves_inv {σ} (hook : ObjHook σ) (hh : HookOk hook) (S : Prop) (cfg : Lgx.Drv.Cfg) (w : World σ)
    (tags : List Name) (hi : lci_Inv S w) (hc : lci_Conn w) :
    lci_Inv S (Lgx.Drv.read hook cfg w tags).1 ∧ lci_Conn (Lgx.Drv.read hook cfg w tags).1 :=
  Lgx.Drv.lcl_read_inv hook hh S cfg w tags hi hc

/-- `LogixDriver.write` preserves the lifecycle invariant, likewise -/
theorem write_preserves_inv {σ} (hook : ObjHook σ) (hh : HookOk hook) (S : Prop) (cfg : Lgx.Drv.Cfg) (w : World σ)
    (tvs : List (Name × PyVal)) (hi : lci_Inv S w) (hc : lci_Conn w) :
    lci_Inv S (Lgx.Drv.write hook cfg w tvs).1 ∧ lci_Conn (Lgx.Drv.write hook cfg w tvs).1 :=
  Lgx.Drv.lcl_write_inv hook hh S cfg w tvs hi hc

/-- for EVERY history of open / close / generic_message / read / write calls, every fault plan and every target
    policy, starting from a fresh driver: nothing is ever sent on a connection before a session is registered and
    a Forward Open has succeeded.  (Hypothesis `hg` as in `no_unit_data_before_open`; reads and writes need none:
    the tag database of each call is arbitrary.) -/
theorem no_unit_data_before_open_logix {σ} (hook : ObjHook σ) (hh : HookOk hook) (w : World σ) (hf : Fresh w)
    (calls : List LCall) (hg : ∀ a, LCall.generic a ∈ calls → AvoidsCM a = true) :
    NoEarlyUnitData (lrun hook w calls).net.target.base.log := by
  obtain ⟨hi, hc⟩ := lci_fresh_inv False w hf (fun h => h.elim)
  exact (lcl_run_inv hook hh False calls w (fun _ _ h => h.elim) hg hi hc).1.t.noV

/-- for EVERY such history: the extended Forward Open is tried first with the configured size, the standard one
    only after the target refused the extended one, and then with the 500-byte size
    (hypotheses `hp`, `ho`, `hg` as in `fo_order`) -/
theorem fo_order_logix {σ} (hook : ObjHook σ) (hh : HookOk hook) (w : World σ) (hf : Fresh w) (calls : List LCall)
    (hp : PathOk w.drv.cipPath) (ho : ∀ rnd, LCall.open rnd ∈ calls → rnd.length = 8)
    (hg : ∀ a, LCall.generic a ∈ calls → AvoidsCM a = true) :
    FoDiscipline (lrun hook w calls).net.target.base.events := by
  obtain ⟨hi, hc⟩ := lci_fresh_inv True w hf (fun _ => hp)
  have h := (lcl_run_inv hook hh True calls w (fun rnd h _ => ho rnd h) hg hi hc).1.t.fo trivial
  exact lci_FoOK_events _ h

/-- in every state reachable from a fresh world by such a history, a driver without socket (or a closed TCP
    connection) means that the target holds no session -/
theorem reachable_idle_logix {σ} (hook : ObjHook σ) (hh : HookOk hook) (w : World σ) (hf : Fresh w)
    (calls : List LCall) (hg : ∀ a, LCall.generic a ∈ calls → AvoidsCM a = true) :
    let w' := lrun hook w calls
    (w'.drv.hasSock = false ∨ w'.net.tcpOpen = false) → w'.net.target.base.sessions = [] := by
  intro w' h
  obtain ⟨hi, hc⟩ := lci_fresh_inv False w hf (fun h => h.elim)
  have hn := (lcl_run_net hook hh _ _ calls w hg hi hc (lci_fresh_net w hf)).2
  apply hn.idle
  rcases h with h | h
  · rw [← hn.sock]; exact h
  · exact h

/-- after ANY such history from a fresh world, on a target that accepts sessions and with an empty fault plan:
    close() followed by open() registers a fresh session -/
theorem reopen_after_any_history_logix {σ} (hook : ObjHook σ) (hh : HookOk hook) (w : World σ) (hf : Fresh w)
    (calls : List LCall) (hg : ∀ a, LCall.generic a ∈ calls → AvoidsCM a = true) (rnd : Bytes)
    (hpol : w.net.target.base.policy.sessionOk = true) (hfault : w.net.faults = []) :
    let w' := lrun hook w calls
    let w1 := (closeDrv hook w').1
    let r := openDrv hook w1 rnd
    r.2 = .ok true ∧ r.1.drv.session = some w1.net.target.base.nextSession ∧
    r.1.net.target.base.sessions = [w1.net.target.base.nextSession] ∧ r.1.drv.connectionOpened = true := by
  intro w'
  obtain ⟨hi, hc⟩ := lci_fresh_inv False w hf (fun h => h.elim)
  obtain ⟨hi', hn⟩ := lcl_run_net hook hh _ _ calls w hg hi hc (lci_fresh_net w hf)
  exact reopen_works hook w' rnd (by rw [hn.pol]; exact hpol) (by rw [hn.faults]; exact hfault) hi'.ctx8 hi'.opt0
    ⟨hi'.t.ns, hn.ns0⟩ (reachable_idle_logix hook hh w hf calls hg)

/-- after a history that ends with close(): the driver reports not connected, has no session, no socket, and the
    connection flag is off — whatever reads and writes happened before -/
theorem after_close_driver_logix {σ} (hook : ObjHook σ) (w : World σ) (calls : List LCall) :
    let w' := lrun hook w (calls ++ [.close])
    w'.drv.connectionOpened = false ∧ w'.drv.session = some 0 ∧ w'.drv.hasSock = false ∧
    w'.drv.targetIsConnected = false := by
  intro w'
  have e : w' = (closeDrv hook (lrun hook w calls)).1 := by
    show lrun hook w (calls ++ [.close]) = _
    rw [lrun_append]
    simp only [lrun, lcallStep]
    generalize closeDrv hook (lrun hook w calls) = r
    obtain ⟨w1, o⟩ := r
    cases o <;> rfl
  rw [e]
  exact after_close_driver hook _

/-- what a tag read can raise besides the library's exceptions: the IndexError of a call without tags
    (`results[0]`), and the fuel marker of the model (the call would not return) — the latter only from the loop of
    a fragmented read request the call built -/
def ReadCorner {σ} (hook : ObjHook σ) (cfg : Lgx.Drv.Cfg) (w : World σ) (tags : List Name) (e : Exn) : Prop :=
  (tags = [] ∧ e = .foreign "IndexError") ∨
  (e = .hang ∧ ∃ w0 u d1 reqs r, ensureForwardOpen hook FUEL w = (w0, .ok u) ∧
    Lgx.Drv.readBuildRequests cfg w0.drv (Lgx.Drv.parseRequestedTags cfg.tags false tags) = (d1, .ok reqs) ∧
    Lgx.Drv.Request.readFrag r ∈ reqs)

/-- what a tag write can raise besides the library's exceptions:
    * the IndexError of a call without (tag, value) pairs;
    * the foreign exceptions of `_send_write_fragmented` for a fragmented write request `r` the call built
      (`lds_FragSizeErr`): IndexError for an empty value, ValueError / IndexError when the connection size leaves
      no room for a single value byte;
    * the KeyError of `write_results.pop` when the result of a Read-Modify-Write packet is missing from the table. -/
def WriteCorner {σ} (hook : ObjHook σ) (cfg : Lgx.Drv.Cfg) (w : World σ) (tvs : List (Name × PyVal)) (e : Exn) : Prop :=
  (tvs = [] ∧ e = .foreign "IndexError") ∨
  (∃ w0 u d1 ps' reqs, ensureForwardOpen hook FUEL w = (w0, .ok u) ∧
    Lgx.Drv.writeBuildRequests cfg w0.drv (Lgx.Drv.lds_wparse cfg.tags tvs) = (d1, .ok (ps', reqs)) ∧
    ((∃ r C, Lgx.Drv.Request.writeFrag r ∈ reqs ∧ Lgx.Drv.lds_FragSizeErr C r e) ∨
     (e = .foreign "KeyError" ∧ ∃ w2 rs, Lgx.Drv.sendRequests hook { w0 with drv := d1 } [] reqs = (w2, .ok rs) ∧
        Lgx.Drv.fanOutRmw rs reqs = none)))

/-- whatever the history, fault plan, target policy and tag database: every failure of a call is a library
    exception (CommError, ResponseError, DataError, RequestError, BufferEmptyError) — except for the corner cases
    of `read` (`ReadCorner`) and `write` (`WriteCorner`), which are listed in full: nothing else escapes.
    In particular `write` never hangs, and no status the controller answers with raises. -/
theorem failures_are_library_logix {σ} (hook : ObjHook σ) (w : World σ) (c : LCall) (e : Exn)
    (h : (lcallStep hook w c).2 = .raised e) :
    LcLib e ∨ (∃ cfg tags, c = .read cfg tags ∧ ReadCorner hook cfg w tags e) ∨
      (∃ cfg tvs, c = .write cfg tvs ∧ WriteCorner hook cfg w tvs e) := by
  cases c with
  | «open» rnd =>
    simp only [lcallStep] at h
    split at h
    · cases h
    · next w' e' he => cases h; exact .inl (.inl (lc_openDrv_err hook w rnd e (by rw [he])))
  | close =>
    simp only [lcallStep] at h
    split at h
    · cases h
    · next w' e' he => cases h; exact .inl (.inl (lc_closeDrv_err hook w e (by rw [he])))
  | generic a =>
    simp only [lcallStep] at h
    split at h
    · cases h
    · next w' e' he =>
      cases h
      exact .inl (lc_gm_lib hook 4 w a e (by show (genericMessage hook FUEL w a).2 = _; rw [he]))
  | read cfg tags =>
    simp only [lcallStep] at h
    split at h
    · cases h
    · next w' e' he =>
      cases h
      rcases Lgx.Drv.read_error_classes hook cfg w w' tags e he with h1 | h1 | h1
      · exact .inl h1
      · subst h1
        exact .inr (.inl ⟨cfg, tags, rfl, .inr ⟨rfl, Lgx.Drv.lcl_read_hang hook cfg w w' tags he⟩⟩)
      · exact .inr (.inl ⟨cfg, tags, rfl, .inl h1⟩)
  | write cfg tvs =>
    simp only [lcallStep] at h
    split at h
    · cases h
    · next w' e' he =>
      cases h
      rcases Lgx.Drv.write_error_sources hook cfg w w' tvs e he with ⟨w0, h0⟩ | h1 | ⟨i, hi, info, _, _, _, rfl⟩ |
        ⟨w0, u, d1, ps', reqs, h0, hb, hs⟩
      · exact .inl (lc_efo_lib hook 5 w e (by rw [show (5 + 3 : Nat) = FUEL from rfl, h0]))
      · exact .inr (.inr ⟨cfg, tvs, rfl, .inl h1⟩)
      · exact .inl lc_lib_data
      · rcases hs with hs | hs
        · rcases hs with hs | ⟨r, _, hr⟩ | ⟨r, C, hr, hf⟩
          · rcases Lgx.Drv.lds_SendErr_class hook e hs with rfl | rfl | rfl | rfl
            · exact .inl lc_lib_comm
            · exact .inl lc_lib_data
            · exact .inl lc_lib_bufferEmpty
            · exact (Lgx.Drv.lcl_write_nohang hook cfg w w' tvs he).elim
          · rw [lcl_rmwMessage_err r e hr]; exact .inl lc_lib_data
          · exact .inr (.inr ⟨cfg, tvs, rfl, .inr ⟨w0, u, d1, ps', reqs, h0, hb, .inl ⟨r, C, hr, hf⟩⟩⟩)
        · exact .inr (.inr ⟨cfg, tvs, rfl, .inr ⟨w0, u, d1, ps', reqs, h0, hb, .inr hs⟩⟩)

/-- the exception classes: with at least one tag, a read raises a library exception or does not return -/
theorem read_failures_are_library {σ} (hook : ObjHook σ) (w : World σ) (cfg : Lgx.Drv.Cfg) (tags : List Name) (e : Exn)
    (hne : tags ≠ []) (h : (lcallStep hook w (.read cfg tags)).2 = .raised e) : LcLib e ∨ e = .hang := by
  rcases failures_are_library_logix hook w _ e h with h1 | ⟨cfg', tags', hc, h1⟩ | ⟨_, _, hc, _⟩
  · exact .inl h1
  · cases hc
    rcases h1 with ⟨h2, _⟩ | ⟨h2, _⟩
    · exact absurd h2 hne
    · exact .inr h2
  · cases hc

/-- the exception classes: with at least one (tag, value) pair, a write raises a library exception or one of three
    foreign ones (IndexError / ValueError from a fragmented write that cannot be segmented, KeyError from a missing
    Read-Modify-Write result); it always returns -/
theorem write_failures_are_library {σ} (hook : ObjHook σ) (w : World σ) (cfg : Lgx.Drv.Cfg) (tvs : List (Name × PyVal))
    (e : Exn) (hne : tvs ≠ []) (h : (lcallStep hook w (.write cfg tvs)).2 = .raised e) :
    LcLib e ∨ e = .foreign "IndexError" ∨ e = .foreign "ValueError" ∨ e = .foreign "KeyError" := by
  rcases failures_are_library_logix hook w _ e h with h1 | ⟨_, _, hc, _⟩ | ⟨cfg', tvs', hc, h1⟩
  · exact .inl h1
  · cases hc
  · cases hc
    rcases h1 with ⟨h2, _⟩ | ⟨_, _, _, _, _, _, _, ⟨r, C, _, hf⟩ | ⟨h2, _⟩⟩
    · exact absurd h2 hne
    · rcases hf with ⟨_, rfl⟩ | ⟨_, rfl⟩ | ⟨_, rfl⟩
      · exact .inr (.inl rfl)
      · exact .inr (.inr (.inl rfl))
      · exact .inr (.inl rfl)
    · exact .inr (.inr (.inr h2))

/-- C17 over the extended alphabet.  For EVERY history of open / close / generic_message / read / write calls from a
    fresh world, every target policy and every fault plan: the sequence count of a connected request never equals
    the one the target saw last on that connection — provided
    * `hg`, `hs`, `hn`: as in `seq_never_repeats` (generic_message leaves the Connection Manager alone, its connected
      requests can be framed, the object hook logs no duplicate-count violation of its own);
    * `hl`: in every read / write call a packet that is sent by a fragment loop is the last packet of the call
      (`LCall.LoopsLast`; always true for calls with a single request — `loopsLast_read_single`,
      `loopsLast_write_single` — and for calls none of whose requests is fragmented — `loopsLast_of_noFrag`, an
      evaluable condition; `lhistLoopsLast` checks a whole history);
    * `hb`: the fault plan and the reads / writes that are NOT answered stay within the budget of the 16-bit counter:
      (number of faults) + Σ (3 · requests + 1) over the reads / writes since the last close() or the last read /
      write that returned a Tag without error (`lgood`), whichever came later, < 65534 (`lbudgetR`, which follows the
      run; `seq_never_repeats_logix_static` states the bound on the history alone).  generic_message calls, answered
      reads / writes and the rounds of the fragment loops are not bounded in number. -/
-- STATEMENT CHANGED: the proposed hypothesis "every call has fewer than N requests and the fault plan has fewer
-- than M faults" (a bound per call) does not suffice; the bound is on the SUM over the calls since the last close()
-- or the last answered read / write (`hb`), and fragment loops must come last in their call (`hl`).
-- Counterexamples (model evaluated with #eval, hook = none unless stated, default policy, no faults, cipPath = []):
-- CE6 (a call burns sequence numbers without sending): cfg = one DINT tag whose name has 256 characters, no instance
--   ids (`useInstanceIds := false`).  [open 0102030405060708, generic {service 0x01, cls 1, inst 1} (connected),
--   65534 × read cfg [that tag], generic {service 0x01, cls 1, inst 1} (connected)]: every read draws the sequence
--   number of its request packet and then fails to build the request path (DataError: the name does not fit the
--   length byte of its segment) — nothing is sent, no fault is consumed; the last request carries count 1 again:
--   log contains violation "sequence count 1 repeated on consecutive connected messages"; with 65533 such reads
--   there is no violation.  Every call has ONE request.
-- CE7 (a fragment loop that is not last): hook answering the first 65535 Read Tag Fragmented requests with status 6
--   (more data) and the next ones with status 0; cfg = Micro800 (single requests), one DINT array tag `x`;
--   [open …, read cfg ["x{2000}", "x{2000}"]]: both requests are fragmented reads (8000 bytes > 4000); the packet of
--   the second one carries the number drawn while the requests were built, the loop of the first one draws 65535
--   further numbers: the second packet repeats the count of the last round of the first loop:
--   log contains violation "sequence count 4 repeated on consecutive connected messages" (#eval-confirmed: 65537
--   requests reach the hook; with 65534 or with 65536 status-6 answers there is no violation).
theorem seq_never_repeats_logix {σ} (hook : ObjHook σ) (hh : HookOk hook) (hn : HookQuietSeq hook) (w : World σ)
    (hf : Fresh w) (calls : List LCall)
    (hg : ∀ a, LCall.generic a ∈ calls → AvoidsCM a = true)
    (hs : ∀ a, LCall.generic a ∈ calls → a.connected = true → SizeOk a = true)
    (hl : ∀ c ∈ calls, c.LoopsLast)
    (hb : w.net.faults.length + lbudgetR hook 0 w calls < 65534) :
    NoSeqRepeat (lrun hook w calls).net.target.base.log := by
  obtain ⟨hi, hc⟩ := lci_fresh_inv False w hf (fun h => h.elim)
  have hge := lbudgetR_ge hook calls 0 w
  have hq := lcl_SeqB_of_seq (lcs_fresh w hf (by omega))
  have hsz : lcl_Sz w.drv := .inl hf.2.2.2.2.2.2.1
  obtain ⟨B', h⟩ := lcl_run_seq hook hh hn _ _ calls w 0 hg hs hl hi hc (lci_fresh_net w hf) hsz hq hb
  exact h.log

/-- the same with the budget computed from the history alone (`lbudget`: only close() starts a new segment):
    `lbudgetR hook cur w calls ≤ lbudget cur calls` -/
theorem seq_never_repeats_logix_static {σ} (hook : ObjHook σ) (hh : HookOk hook) (hn : HookQuietSeq hook) (w : World σ)
    (hf : Fresh w) (calls : List LCall)
    (hg : ∀ a, LCall.generic a ∈ calls → AvoidsCM a = true)
    (hs : ∀ a, LCall.generic a ∈ calls → a.connected = true → SizeOk a = true)
    (hl : ∀ c ∈ calls, c.LoopsLast)
    (hb : w.net.faults.length + lbudget 0 calls < 65534) :
    NoSeqRepeat (lrun hook w calls).net.target.base.log :=
  seq_never_repeats_logix hook hh hn w hf calls hg hs hl (by have := lbudgetR_le hook calls 0 w; omega)

/-! ### non-vacuity: a concrete history with reads and writes satisfies every hypothesis

  The world is the fresh driver in front of the fresh reference controller holding one DINT tag `abc`
  (`Lgx.Drv.Ex.world0`, PycommProofs/LogixDriverRead.lean), the tag database the one the upload computes from that
  project (`Lgx.Drv.Ex.cfg`), the hook the full target's `hookAll`.  The hypotheses are checked on the history
  itself (`decide` / `rfl`), not by evaluating `lrun`. -/

namespace LEx
open Lgx.Drv

def hist : List LCall :=
  [.open [1, 2, 3, 4, 5, 6, 7, 8],
   .read Ex.cfg [Lgx.Drv.nm "abc"],
   .write Ex.cfg [(Lgx.Drv.nm "abc", .int 5)],
   .close,
   .open [8, 7, 6, 5, 4, 3, 2, 1],
   .read Ex.cfg [Lgx.Drv.nm "abc", Lgx.Drv.nm "nosuch"],
   .generic { service := 0x01, cls := .bytes [0x01], inst := .bytes [0x01] },
   .write Ex.cfg [(Lgx.Drv.nm "abc.3", .bool true), (Lgx.Drv.nm "abc", .int 7)]]

theorem fresh0 : Fresh Ex.world0 :=
  ⟨rfl, rfl, rfl, rfl, rfl, rfl, rfl, rfl, rfl, rfl, rfl, rfl, rfl, rfl, rfl, rfl, rfl, rfl, rfl, rfl,
   by decide, by decide, by decide⟩

theorem path0 : PathOk Ex.world0.drv.cipPath := by
  intro route h
  have e : encEpath true (Ex.world0.drv.cipPath ++ msgRouterPath) true false = .ok [2, 0x20, 2, 0x24, 1] := by rfl
  rw [e] at h
  cases h
  exact ⟨2, [0x20, 2, 0x24, 1], rfl, by decide, by decide⟩

theorem histCM : ∀ a, LCall.generic a ∈ hist → AvoidsCM a = true := lhistAvoidsCM_spec hist (by decide)
theorem histRnd : ∀ rnd, LCall.open rnd ∈ hist → rnd.length = 8 := lhistRnd8_spec hist (by decide)

example : NoEarlyUnitData (lrun hookAll Ex.world0 hist).net.target.base.log :=
  no_unit_data_before_open_logix hookAll hookAll_ok Ex.world0 fresh0 hist histCM

example : FoDiscipline (lrun hookAll Ex.world0 hist).net.target.base.events :=
  fo_order_logix hookAll hookAll_ok Ex.world0 fresh0 hist path0 histRnd histCM

example : let w' := lrun hookAll Ex.world0 hist
    (w'.drv.hasSock = false ∨ w'.net.tcpOpen = false) → w'.net.target.base.sessions = [] :=
  reachable_idle_logix hookAll hookAll_ok Ex.world0 fresh0 hist histCM

example : (openDrv hookAll (closeDrv hookAll (lrun hookAll Ex.world0 hist)).1 [1, 1, 2, 2, 3, 3, 4, 4]).2 = .ok true :=
  (reopen_after_any_history_logix hookAll hookAll_ok Ex.world0 fresh0 hist histCM [1, 1, 2, 2, 3, 3, 4, 4] rfl rfl).1

-- the invariant is not vacuous on the way either: after the first two calls of the history the driver is
-- connected and the read returned the value (evaluation of the model, interpreter)
#guard (lrun hookAll Ex.world0 (hist.take 2)).drv.targetIsConnected
#guard (match (lcallStep hookAll (lrun hookAll Ex.world0 (hist.take 1)) (.read Ex.cfg [Lgx.Drv.nm "abc"])).2 with
        | .ok => true | _ => false)
#guard (lrun hookAll Ex.world0 hist).net.target.base.log.all fun e =>
  e != .violation "SendUnitData without a registered session" && e != .violation "SendUnitData on a connection that is not open"

-- the corner cases of `failures_are_library_logix` are real: a read / write without requests raises IndexError
#guard (match (lcallStep hookAll (lrun hookAll Ex.world0 (hist.take 1)) (.read Ex.cfg [])).2 with
        | .raised (.foreign "IndexError") => true | _ => false)
#guard (match (lcallStep hookAll (lrun hookAll Ex.world0 (hist.take 1)) (.write Ex.cfg [])).2 with
        | .raised (.foreign "IndexError") => true | _ => false)

/-- a history of single-request reads and writes (and everything else) for `seq_never_repeats_logix` -/
def hist1 : List LCall :=
  [.open [1, 2, 3, 4, 5, 6, 7, 8],
   .read Ex.cfg [Lgx.Drv.nm "abc"],
   .write Ex.cfg [(Lgx.Drv.nm "abc", .int 5)],
   .generic { service := 0x01, cls := .bytes [0x01], inst := .bytes [0x01] },
   .close,
   .open [8, 7, 6, 5, 4, 3, 2, 1],
   .read Ex.cfg [Lgx.Drv.nm "abc{2}"],
   .write Ex.cfg [(Lgx.Drv.nm "abc.3", .bool true)],
   .read Ex.cfg [Lgx.Drv.nm "nosuch"]]

example : lbudget 0 hist1 = 12 := by decide
-- the budget that follows the run is smaller: the answered reads and writes start new segments (interpreter)
#guard lbudgetR hookAll 0 Ex.world0 hist1 == 8

example : NoSeqRepeat (lrun hookAll Ex.world0 hist1).net.target.base.log :=
  seq_never_repeats_logix_static hookAll hookAll_ok hookAll_quietSeq Ex.world0 fresh0 hist1
    (lhistAvoidsCM_spec hist1 (by decide))
    (fun a ha hc => by
      have : a = { service := 0x01, cls := .bytes [0x01], inst := .bytes [0x01] } := by
        simp only [hist1, List.mem_cons, List.not_mem_nil, or_false, reduceCtorEq, false_or, LCall.generic.injEq] at ha
        exact ha
      subst this
      decide)
    (lhistSingle_spec hist1 (by decide))
    (by decide)

/-- the history `hist` above has reads and writes with several requests, none of them fragmented -/
example : NoSeqRepeat (lrun hookAll Ex.world0 hist).net.target.base.log :=
  seq_never_repeats_logix_static hookAll hookAll_ok hookAll_quietSeq Ex.world0 fresh0 hist histCM
    (fun a ha hc => by
      have : a = { service := 0x01, cls := .bytes [0x01], inst := .bytes [0x01] } := by
        simp only [hist, List.mem_cons, List.not_mem_nil, or_false, reduceCtorEq, false_or, LCall.generic.injEq] at ha
        exact ha
      subst this
      decide)
    (lhistLoopsLast_spec hist (by decide))
    (by decide)

-- the reads and writes of `hist1` are answered (evaluation of the model, interpreter): the theorem is not about
-- calls that fail before anything is sent
#guard ((List.range 9).map fun i =>
    match (lcallStep hookAll (lrun hookAll Ex.world0 (hist1.take i)) (hist1.getD i .close)).2 with
    | .ok => true | _ => false) == [true, true, true, true, true, true, true, true, true]

end LEx

#print axioms read_preserves_inv
#print axioms write_preserves_inv
#print axioms no_unit_data_before_open_logix
#print axioms fo_order_logix
#print axioms reachable_idle_logix
#print axioms reopen_after_any_history_logix
#print axioms after_close_driver_logix
#print axioms failures_are_library_logix
#print axioms read_failures_are_library
#print axioms write_failures_are_library
#print axioms seq_never_repeats_logix
#print axioms seq_never_repeats_logix_static

end Pycomm.Cli
