/-
  C13 at the driver level for ARBITRARY reply bytes, second round: the calls of `LogixDriver.read` / `LogixDriver.write`
  that read SEVERAL replies — a fragmented read (`_send_read_fragmented`: one reply per round of the loop), a
  fragmented write (`_send_write_fragmented`: one reply per segment), and a call that sends several packets (k Multiple
  Service Packets, or k single packets) — when EVERY reply the driver reads is an arbitrary byte string.
  `LogixDriverAnyReply` covers the calls that read exactly one reply.

  How the arbitrary replies enter the model (no change to it): the transport's queue `w.net.pending` starts with
  `raws.map some`, so `_receive` returns `raws[0]`, `raws[1]`, … for the successive requests (`Net.sockReceive` takes the
  head of the queue; the target's own answers are queued behind and never looked at while arbitrary replies remain).

  Helpers (lemma prefix `ldaf_`):
    LDAnyF1  the transport with several replies waiting (`ldaf_sendReq_queue`), `_send_read_fragmented` as a pure
             function of the replies (`ldaf_readFragPure`, `ldaf_consumed`), the model's loop IS that function
             (`ldaf_readFragLoop_spec`), the fuel (`ldaf_readFragLoop_hang`)
    LDAnyF2  the analysis of that function (`ldaf_readFragPure_cases`), the Tag recorded (`ldaf_readFragOutcome_cases`)
    LDAnyF3  `_send_write_fragmented` (`ldaf_writeFragSend_spec`, `ldaf_sendRequest_writeFrag`, `ldaf_writeFragOutcome`)
    LDAnyF4  k non-fragmented packets, k replies (`ldaf_sendRequests_queue`, `ldaf_applyAll`, `ldaf_PacketsOk`)
    LDAnyF5  the parsed request of a single fragmented write (`ldaf_writeBuild_frag_parsed`)

  Findings while proving (none is a `.foreign` outcome or a success over bad status words):
    * fragmented read: the loop has no bound of its own — a peer that answers EVERY round with general status 6 ("more to
      come") keeps `read` asking forever (the model's fuel marker `.hang`, `read_frag_any_replies_hang`); the value
      bytes may even be empty each time, so the offset never grows;
    * fragmented read: `response.error` of the LAST reply is evaluated for a log line and may raise BufferEmptyError /
      DataError (a reply cut inside its extended status) — out of `read`, as for the single read; the replies BEFORE the
      last are only asked `is_valid()`: a bad one yields the fixed text "One or more fragment responses failed", its own
      status text is lost;
    * fragmented write: the driver does not stop at the first refusal — every segment is sent whatever the replies are
      (`write_frag_any_replies`: frames written = segments); `response.error` of the individual replies is never
      evaluated, so no BufferEmptyError can come out of a fragmented write; the Tag's error is the fixed text.
-/
import PycommProofs.LDAnyF5
import PycommProofs.LogixDriverAnyReply
import PycommProofs.LogixDriverRead3
import PycommProofs.LogixDriverWrite2
import PycommProofs.LogixDriverReadN
namespace Pycomm.Lgx.Drv
open Pycomm Pycomm.Tgt Pycomm.Path Pycomm.Reply Pycomm.Encap Pycomm.RP Pycomm.Lgx Pycomm.Lgx.E2E

/-! ### the replies the read loop reads -/

theorem ldaf_stops_of_exists : ∀ (raws : List Bytes), (∃ raw ∈ raws, ldaf_continues raw = false) → ldaf_stops raws = true := by
  intro raws
  induction raws with
  | nil => intro ⟨_, h, _⟩; cases h
  | cons raw more ih =>
    intro ⟨r, hr, hc⟩
    unfold ldaf_stops
    by_cases hcr : ldaf_continues raw = true
    · rw [if_pos hcr]
      rcases List.mem_cons.1 hr with rfl | hr
      · rw [hcr] at hc; cases hc
      · exact ih ⟨r, hr, hc⟩
    · rw [if_neg hcr]

theorem ldaf_consumed_length_le : ∀ (raws : List Bytes), (ldaf_consumed raws).length ≤ raws.length := by
  intro raws
  induction raws with
  | nil => exact Nat.le_refl _
  | cons raw more ih =>
    unfold ldaf_consumed
    split
    · simp only [List.length_cons]; omega
    · simp

/-- the replies read are the first ones waiting: all but the last say "more to come", the last does not -/
theorem ldaf_consumed_shape : ∀ (raws : List Bytes), ldaf_stops raws = true →
    ∃ pre last, ldaf_consumed raws = pre ++ [last] ∧ (pre ++ [last]) <+: raws ∧
      (∀ raw ∈ pre, ldaf_continues raw = true) ∧ ldaf_continues last = false := by
  intro raws
  induction raws with
  | nil => intro h; cases h
  | cons raw more ih =>
    intro h
    unfold ldaf_stops at h
    unfold ldaf_consumed
    by_cases hc : ldaf_continues raw = true
    · rw [if_pos hc] at h
      rw [if_pos hc]
      obtain ⟨pre, last, h1, h2, h3, h4⟩ := ih h
      refine ⟨raw :: pre, last, by rw [h1]; rfl, ?_, ?_, h4⟩
      · obtain ⟨t, ht⟩ := h2
        exact ⟨t, by rw [← ht]; rfl⟩
      · intro r hr
        rcases List.mem_cons.1 hr with rfl | hr
        · exact hc
        · exact h3 r hr
    · rw [if_neg hc]
      refine ⟨[], raw, rfl, ⟨more, rfl⟩, ?_, ?_⟩
      · intro r hr
        cases hr
      · simpa using hc

/-- a reply with OK status words after which the loop asks again has general status 6, one after which it does not has
    general status 0 -/
theorem ldaf_status_of_ok (raw : Bytes) (hok : StatusWordsOk .connected raw) :
    (ldaf_continues raw = true → byteAt raw 48 = 6) ∧ (ldaf_continues raw = false → byteAt raw 48 = 0) := by
  obtain ⟨svc, _, hp⟩ := parseCip_good .connected raw hok.1 hok.2.2.1
  have hc : ldaf_continues raw = ((some (raw.getD 48 0).toNat : Option Nat) == some Gen.INSUFFICIENT_PACKETS) := by
    unfold ldaf_continues
    have hpp : (tagResp (some raw)).p = parseCip (some raw) .connected := rfl
    rw [hpp, hp]
    rfl
  rw [hc]
  have hst := hok.2.2.2
  unfold byteAt at hst ⊢
  constructor
  · intro h
    simpa [Gen.INSUFFICIENT_PACKETS] using h
  · intro h
    rcases hst with h0 | ⟨h6, _⟩
    · exact h0
    · exfalso
      have h6' : (raw.getD 48 0).toNat = 6 := h6
      rw [h6'] at h
      revert h
      decide

theorem ldaf_exists_of_stops : ∀ (raws : List Bytes), ldaf_stops raws = true → ∃ raw ∈ raws, ldaf_continues raw = false := by
  intro raws
  induction raws with
  | nil => intro h; cases h
  | cons raw more ih =>
    intro h
    unfold ldaf_stops at h
    by_cases hc : ldaf_continues raw = true
    · rw [if_pos hc] at h
      obtain ⟨r, hr, hcr⟩ := ih h
      exact ⟨r, List.mem_cons_of_mem _ hr, hcr⟩
    · exact ⟨raw, List.mem_cons_self, by simpa using hc⟩

/-- `all(responses)` is false: some reply has bad status words -/
theorem ldaf_exists_bad (raws : List Bytes) (h : ldaf_allValid raws = false) :
    ∃ raw ∈ raws, ¬ StatusWordsOk .connected raw := by
  unfold ldaf_allValid at h
  rw [List.all_eq_false] at h
  obtain ⟨raw, hr, hv⟩ := h
  exact ⟨raw, hr, fun hok => hv ((valid_iff .connected raw).2 hok)⟩

/-! ### "its own packet": the packet a request travels in -/

/-- a packet whose reply says "success for request `k`" carries request `k` -/
theorem ldaf_PacketOk_carried (q : Request) (raw : Bytes) (k : Int) (h : ldaf_PacketOk q raw k) :
    ∃ c ∈ q.lds_carried, (c.1 : Int) = k := by
  cases q with
  | read req => exact ⟨(req.rid, req.tag), List.mem_singleton.2 rfl, h.1⟩
  | write req => exact ⟨(req.rid, req.tag), List.mem_singleton.2 rfl, h.1⟩
  | multiRead seq reqs =>
    obtain ⟨_, p, hp, hk, _⟩ := h
    exact ⟨(p.1.rid, p.1.tag), List.mem_map.2 ⟨p.1, (List.of_mem_zip hp).1, rfl⟩, hk⟩
  | multiWrite seq reqs =>
    obtain ⟨_, p, hp, hk, _⟩ := h
    exact ⟨(p.1.rid, p.1.tag), List.mem_map.2 ⟨p.1, (List.of_mem_zip hp).1, rfl⟩, hk⟩
  | readFrag _ => cases h
  | writeFrag _ => cases h
  | rmw _ => cases h

/-- when no request id travels in two packets (what the driver's grouping delivers: every request is put into exactly
    one packet) and request `k` travels in packet `j`, the claim `ldaf_PacketsOk` is the claim about packet `j` and ITS
    reply `raws[j]` alone: no other reply can make request `k` succeed or fail -/
theorem ldaf_PacketsOk_own (qs : List Request) (raws : List Bytes) (k : Int) (j : Nat) (hj : j < qs.length)
    (hr : j < raws.length)
    (hdisj : ∀ (i : Nat) (hi : i < qs.length), i ≠ j → ∀ a ∈ qs[i].lds_carried, ∀ b ∈ qs[j].lds_carried, a.1 ≠ b.1)
    (hcarry : ∃ c ∈ qs[j].lds_carried, (c.1 : Int) = k) :
    ldaf_PacketsOk qs raws k ↔ ldaf_PacketOk qs[j] raws[j] k := by
  constructor
  · intro ⟨p, hp, hok⟩
    obtain ⟨i, hi, rfl⟩ := List.mem_iff_getElem.1 hp
    rw [List.getElem_zip] at hok
    have hi1 : i < qs.length := by rw [List.length_zip] at hi; omega
    by_cases hij : i = j
    · subst hij; exact hok
    · exfalso
      obtain ⟨a, ha, hak⟩ := ldaf_PacketOk_carried _ _ _ hok
      obtain ⟨b, hb, hbk⟩ := hcarry
      apply hdisj i hi1 hij a ha b hb
      have : (a.1 : Int) = (b.1 : Int) := by rw [hak, hbk]
      exact Int.ofNat.inj this
  · intro hok
    refine ⟨(qs[j], raws[j]), ?_, hok⟩
    rw [List.mem_iff_getElem]
    exact ⟨j, by rw [List.length_zip]; omega, by rw [List.getElem_zip]⟩

/-! ### evaluation checks for the non-vacuity section: a build result is one fragmented packet / k packets of a kind -/

def ldaf_isSingleReadFrag (x : Cli.Drv × Except Exn (List Request)) : Bool :=
  match x.2 with | .ok [.readFrag _] => true | _ => false

theorem ldaf_of_isSingleReadFrag (x : Cli.Drv × Except Exn (List Request)) (h : ldaf_isSingleReadFrag x = true) :
    ∃ d1 req, x = (d1, .ok [.readFrag req]) := by
  obtain ⟨d1, r⟩ := x
  unfold ldaf_isSingleReadFrag at h
  dsimp only at h
  split at h
  · exact ⟨d1, _, rfl⟩
  · cases h

/-- … one Write Tag Fragmented packet whose value is not empty, over a connection that leaves room for at least one value
    byte per segment, in exactly `n` segments -/
def ldaf_isSingleWriteFrag (n : Nat) (x : Cli.Drv × Except Exn (List Drv.Parsed × List Request)) : Bool :=
  match x.2 with
  | .ok (_, [.writeFrag req]) =>
      !req.value.isEmpty && decide (ldaf_writeOverhead req < x.1.connectionSize) &&
        (ldaf_segments x.1.connectionSize req).length == n
  | _ => false

theorem ldaf_of_isSingleWriteFrag (n : Nat) (x : Cli.Drv × Except Exn (List Drv.Parsed × List Request))
    (h : ldaf_isSingleWriteFrag n x = true) :
    ∃ d1 ps' req, x = (d1, .ok (ps', [.writeFrag req])) ∧ req.value ≠ [] ∧ ldaf_writeOverhead req < d1.connectionSize ∧
      (ldaf_segments d1.connectionSize req).length = n := by
  obtain ⟨d1, r⟩ := x
  unfold ldaf_isSingleWriteFrag at h
  dsimp only at h
  split at h
  · next ps' req =>
    simp only [Bool.and_eq_true, Bool.not_eq_true', decide_eq_true_eq, beq_iff_eq] at h
    refine ⟨d1, ps', req, rfl, ?_, h.1.2, h.2⟩
    intro h0
    rw [h0] at h
    simp at h
  · cases h

def ldaf_isReadPackets (k : Nat) (x : Cli.Drv × Except Exn (List Request)) : Bool :=
  match x.2 with | .ok qs => qs.all (·.ldaf_readKind) && qs.length == k | _ => false

theorem ldaf_of_isReadPackets (k : Nat) (x : Cli.Drv × Except Exn (List Request)) (h : ldaf_isReadPackets k x = true) :
    ∃ d1 qs, x = (d1, .ok qs) ∧ (∀ q ∈ qs, q.ldaf_readKind = true) ∧ qs.length = k := by
  obtain ⟨d1, r⟩ := x
  unfold ldaf_isReadPackets at h
  dsimp only at h
  split at h
  · next qs =>
    simp only [Bool.and_eq_true, List.all_eq_true, beq_iff_eq] at h
    exact ⟨d1, qs, rfl, h.1, h.2⟩
  · cases h

def ldaf_isWritePackets (k : Nat) (x : Cli.Drv × Except Exn (List Drv.Parsed × List Request)) : Bool :=
  match x.2 with | .ok (_, qs) => qs.all (·.ldaf_writeKind) && qs.length == k | _ => false

theorem ldaf_of_isWritePackets (k : Nat) (x : Cli.Drv × Except Exn (List Drv.Parsed × List Request))
    (h : ldaf_isWritePackets k x = true) :
    ∃ d1 ps' qs, x = (d1, .ok (ps', qs)) ∧ (∀ q ∈ qs, q.ldaf_writeKind = true) ∧ qs.length = k := by
  obtain ⟨d1, r⟩ := x
  unfold ldaf_isWritePackets at h
  dsimp only at h
  split at h
  · next ps' qs =>
    simp only [Bool.and_eq_true, List.all_eq_true, beq_iff_eq] at h
    exact ⟨d1, ps', qs, rfl, h.1, h.2⟩
  · cases h

-- PROPERTY THEOREMS

/-- C13, driver level, ANY replies to a FRAGMENTED read: `read(tag)` on a driver that believes it is connected, when the
    request parses and builds to ONE Read Tag Fragmented packet (`hbuild`) and the replies the driver receives are the
    ARBITRARY byte strings `raws`, in this order (`hpend`: they wait at the head of the transport's queue). The loop of
    `_send_read_fragmented` reads `ldaf_consumed raws`: the replies up to and including the first one that does not say
    "general status 6, more to come" (`ldaf_continues`). Hypotheses about the replies alone: one of them ends the loop
    (`hstop` — otherwise the loop would go on to whatever comes after `raws`), within the model's fuel (`hfuel`;
    `FRAG_FUEL` = 70000 rounds). Whatever the replies are:
    (i)   the call returns exactly one Tag — and then one request frame was written per reply read —, or raises
          CommError / DataError / BufferEmptyError (library exceptions: the transport failed, or `response.error` of the
          last reply raised while rendering the extended status of a reply cut inside it; BufferEmptyError only when a
          reply read has bad status words) — never a foreign exception, never the fuel marker;
    (ii)  the Tag is truthy ONLY IF EVERY reply read has OK status words (`StatusWordsOk`: encapsulation status 0, a
          reply service byte, general status 0 — or 6 for the Read Tag Fragmented reply service, which legitimately
          continues: 6 for all but the last, 0 for the last, `read_frag_status_pattern`) AND the assembled bytes — the
          type bytes of the last reply, then the value bytes of all replies read, `ldaf_assembled_eq` — parse
          (`ldaf_ReadFragOk`);
    (iii) ANY reply read with bad status words — an error status, encapsulation status not 0, too short to contain its
          status words, garbage —, in whatever round, makes the Tag falsy with `value = None` and a non-empty error text;
    (iv)  a falsy Tag always carries a non-empty error text.
    No hypothesis on the target, the hook, the session or the rest of the queue is needed. -/
theorem read_frag_any_replies {σ} (hook : ObjHook σ) (cfg : Cfg) (w w' : Cli.World σ) (raws : List Bytes)
    (rest : List (Option Bytes)) (tag : Name) (d1 : Cli.Drv) (req : ReadReq) (r : Except Exn (List LTag))
    (hconn : w.drv.targetIsConnected = true) (hpend : w.net.pending = raws.map some ++ rest)
    (hbuild : readBuildRequests cfg w.drv (parseRequestedTags cfg.tags false [tag]) = (d1, .ok [.readFrag req]))
    (hstop : ∃ raw ∈ raws, ldaf_continues raw = false) (hfuel : (ldaf_consumed raws).length ≤ FRAG_FUEL)
    (h : read hook cfg w [tag] = (w', r)) :
    (∃ t, r = .ok [t] ∧ w'.net.sent.length = w.net.sent.length + (ldaf_consumed raws).length ∧
      (t.truthy = true → ldaf_ReadFragOk req raws) ∧
      (¬ ldaf_ReadFragOk req raws → t.value = .none ∧ ∃ e, t.error = some e ∧ lda_ErrText e) ∧
      ((∃ raw ∈ ldaf_consumed raws, ¬ StatusWordsOk .connected raw) →
        t.value = .none ∧ ∃ e, t.error = some e ∧ lda_ErrText e) ∧
      (t.truthy = false → ∃ e, t.error = some e ∧ lda_ErrText e)) ∨
    (∃ e, r = .error e ∧ lda_ReplyExn e ∧ e.isLibrary = true ∧
      (e = .bufferEmpty → ∃ raw ∈ ldaf_consumed raws, ¬ StatusWordsOk .connected raw)) := by
  have hst := ldaf_stops_of_exists raws hstop
  obtain ⟨out, hout⟩ := ldaf_readFragPure_stops req raws [] true hst
  have ho : ∃ o, ldaf_readFragOutcome req raws = some o := by
    unfold ldaf_readFragOutcome
    rw [hout]
    exact ⟨_, rfl⟩
  obtain ⟨o, ho⟩ := ho
  have h2 := lda_read_single hook cfg w tag d1 (.readFrag req) hconn hbuild
  have h3 := (ldaf_read_packets hook cfg w [tag] d1 [.readFrag req] hconn (by simp) hbuild).2
  rw [ldaf_sendRequests_single_world] at h3
  rw [h] at h2 h3
  dsimp only at h2 h3
  have hp' : ({ w with drv := d1 } : Cli.World σ).net.pending = raws.map some ++ rest := hpend
  rcases ldaf_sendRequest_readFrag hook { w with drv := d1 } [] req raws rest o hp' ho hfuel with ⟨hs, hsent⟩ | hs | hs
  · rw [hs] at h2
    rw [hsent] at h3
    rcases ldaf_readFragOutcome_cases req raws o ho with ⟨he, hbad⟩ | ⟨t0, rfl, _, _⟩
    · right
      rcases he with rfl | rfl
      · exact ⟨_, h2, .inr (.inr rfl), rfl, fun _ => hbad⟩
      · exact ⟨_, h2, .inr (.inl rfl), rfl, fun he => by cases he⟩
    · left
      have hgood := ldaf_readFragOutcome_good req raws t0 ho
      refine ⟨_, h2, h3, ?_⟩
      have hg := lda_readResult_good (parseTagRequest cfg.tags false 0 tag) (Results.set [] req.rid t0)
        (ldaf_ReadFragOk req raws) (fun e he => lda_ErrText_of_lds e (lds_parse_err _ _ _ _ e he).2) (by
          intro result hg
          have hres := lda_single_get _ _ _ _ hg
          subst hres
          exact hgood)
      exact ⟨hg.1, hg.2.1, fun ⟨raw, hr, hbad⟩ => hg.2.1 (fun hok => hbad (hok.1 raw hr)), hg.2.2⟩
  · rw [hs] at h2
    exact .inr ⟨_, h2, .inl rfl, rfl, fun he => by cases he⟩
  · rw [hs] at h2
    exact .inr ⟨_, h2, .inr (.inl rfl), rfl, fun he => by cases he⟩

/-- … and the replies read really are what decides: unless the transport fails (CommError / DataError), the result of
    `read(tag)` is a FUNCTION of the replies read alone — the Tag `_send_read_fragmented` makes of them
    (`ldaf_readFragOutcome`, analysed in `ldaf_readFragOutcome_cases`: without error and carrying the value parsed from
    the assembled bytes when all status words are OK; else `None` with the text "One or more fragment responses failed",
    or "Failed to parse reply" when only the parse fails; or BufferEmptyError / DataError out of `response.error` of
    the last reply), put through the result loop. The target's own answers are not looked at. -/
theorem read_frag_any_replies_exact {σ} (hook : ObjHook σ) (cfg : Cfg) (w : Cli.World σ) (raws : List Bytes)
    (rest : List (Option Bytes)) (tag : Name) (d1 : Cli.Drv) (req : ReadReq)
    (hconn : w.drv.targetIsConnected = true) (hpend : w.net.pending = raws.map some ++ rest)
    (hbuild : readBuildRequests cfg w.drv (parseRequestedTags cfg.tags false [tag]) = (d1, .ok [.readFrag req]))
    (hstop : ∃ raw ∈ raws, ldaf_continues raw = false) (hfuel : (ldaf_consumed raws).length ≤ FRAG_FUEL) :
    (∃ o, ldaf_readFragOutcome req raws = some o ∧
      (read hook cfg w [tag]).2 =
        o.map fun t => [readResult (parseTagRequest cfg.tags false 0 tag) (Results.set [] req.rid t)]) ∨
    (read hook cfg w [tag]).2 = .error .comm ∨ (read hook cfg w [tag]).2 = .error .data := by
  have hst := ldaf_stops_of_exists raws hstop
  obtain ⟨out, hout⟩ := ldaf_readFragPure_stops req raws [] true hst
  have ho : ∃ o, ldaf_readFragOutcome req raws = some o := by
    unfold ldaf_readFragOutcome
    rw [hout]
    exact ⟨_, rfl⟩
  obtain ⟨o, ho⟩ := ho
  rw [lda_read_single hook cfg w tag d1 (.readFrag req) hconn hbuild]
  have hp' : ({ w with drv := d1 } : Cli.World σ).net.pending = raws.map some ++ rest := hpend
  rcases ldaf_sendRequest_readFrag hook { w with drv := d1 } [] req raws rest o hp' ho hfuel with ⟨hs, _⟩ | hs | hs
  · left
    refine ⟨o, ho, ?_⟩
    rw [hs]
    cases o with
    | error e => rfl
    | ok t => rfl
  · rw [hs]; exact .inr (.inl rfl)
  · rw [hs]; exact .inr (.inr rfl)

/-- the fuel marker of the model, exactly: when the first `FRAG_FUEL` (70000) replies waiting ALL say "general status 6,
    more to come", `read(tag)` of a fragmented request ends with the marker `.hang` (or the transport fails before).
    The real loop has no bound: it asks again for as long as the peer answers so — `read` does not return.
    Together with `read_frag_any_replies` (some reply within the fuel ends the loop ⇒ no marker): over arbitrary
    replies the marker appears only this way. -/
theorem read_frag_any_replies_hang {σ} (hook : ObjHook σ) (cfg : Cfg) (w w' : Cli.World σ) (raws : List Bytes)
    (rest : List (Option Bytes)) (tag : Name) (d1 : Cli.Drv) (req : ReadReq) (r : Except Exn (List LTag))
    (hconn : w.drv.targetIsConnected = true) (hpend : w.net.pending = raws.map some ++ rest)
    (hbuild : readBuildRequests cfg w.drv (parseRequestedTags cfg.tags false [tag]) = (d1, .ok [.readFrag req]))
    (hlen : FRAG_FUEL ≤ raws.length) (hall : ∀ raw ∈ raws.take FRAG_FUEL, ldaf_continues raw = true)
    (h : read hook cfg w [tag] = (w', r)) :
    r = .error .hang ∨ r = .error .comm ∨ r = .error .data := by
  have h2 := lda_read_single hook cfg w tag d1 (.readFrag req) hconn hbuild
  rw [h] at h2
  dsimp only at h2
  have hp' : ({ w with drv := d1 } : Cli.World σ).net.pending = raws.map some ++ rest := hpend
  rcases ldaf_sendRequest_readFrag_hang hook { w with drv := d1 } [] req raws rest hp' hlen hall with hs | hs | hs <;>
    rw [hs] at h2
  · exact .inl h2
  · exact .inr (.inl h2)
  · exact .inr (.inr h2)

/-- the status pattern of a fragmented read that succeeds: when every reply read has OK status words, the replies read
    are `pre ++ [last]` — the first replies waiting —, every reply of `pre` has general status 6 and `last` has general
    status 0 -/
theorem read_frag_status_pattern (raws : List Bytes) (hstop : ∃ raw ∈ raws, ldaf_continues raw = false)
    (hok : ∀ raw ∈ ldaf_consumed raws, StatusWordsOk .connected raw) :
    ∃ pre last, ldaf_consumed raws = pre ++ [last] ∧ (pre ++ [last]) <+: raws ∧
      (∀ raw ∈ pre, byteAt raw 48 = 6) ∧ byteAt last 48 = 0 := by
  obtain ⟨pre, last, h1, h2, h3, h4⟩ := ldaf_consumed_shape raws (ldaf_stops_of_exists raws hstop)
  refine ⟨pre, last, h1, h2, ?_, ?_⟩
  · intro raw hr
    exact (ldaf_status_of_ok raw (hok raw (by rw [h1]; exact List.mem_append_left _ hr))).1 (h3 raw hr)
  · exact (ldaf_status_of_ok last (hok last (by rw [h1]; simp))).2 h4

/-- C13, driver level, ANY replies to a FRAGMENTED write: `write((tag, v))` on a driver that believes it is connected,
    when the request parses and builds to ONE Write Tag Fragmented packet (`hbuild`) whose value is not empty and whose
    connection leaves room for at least one value byte per segment (`hv`, `hC` — otherwise `_send_write_fragmented`
    raises IndexError / ValueError before anything is sent, whatever the replies: `lds_FragSizeErr`, LogixDriverShape),
    and the replies the driver receives are the ARBITRARY byte strings `raws`, at least one per segment (`hlen`;
    `ldaf_segments`: the segments are determined by the request and the connection size alone). Whatever the replies are:
    (i)   the call returns exactly one Tag, or raises CommError / DataError (the transport) — never a foreign exception,
          never BufferEmptyError (`response.error` of the individual replies is never evaluated), never a hang;
    (ii)  when it returns, EVERY segment was sent — frames written = number of segments, whatever the replies are: the
          driver does not stop at the first refusal — and the replies read are the first `n` waiting (one per segment);
    (iii) the Tag is WITHOUT ERROR exactly when ALL replies read have OK status words ("all(responses)"), hence truthy
          only then; otherwise its error is the fixed text "One or more fragment responses failed" (`ldaf_fragFailed`)
          — the status text of the refusing reply is lost;
    (iv)  the Tag's value is the caller's value in both cases (`write` echoes it). -/
theorem write_frag_any_replies {σ} (hook : ObjHook σ) (cfg : Cfg) (w w' : Cli.World σ) (raws : List Bytes)
    (rest : List (Option Bytes)) (tag : Name) (v : PyVal) (d1 : Cli.Drv) (ps' : List Drv.Parsed) (req : WriteReq)
    (r : Except Exn (List LTag))
    (hconn : w.drv.targetIsConnected = true) (hpend : w.net.pending = raws.map some ++ rest)
    (hbuild : writeBuildRequests cfg w.drv [{ parseTagRequest cfg.tags true 0 tag with value := v }] =
      (d1, .ok (ps', [.writeFrag req])))
    (hv : req.value ≠ []) (hC : ldaf_writeOverhead req < d1.connectionSize)
    (hlen : (ldaf_segments d1.connectionSize req).length ≤ raws.length)
    (h : write hook cfg w [(tag, v)] = (w', r)) :
    (∃ t, r = .ok [t] ∧
      w'.net.sent.length = w.net.sent.length + (ldaf_segments d1.connectionSize req).length ∧
      t.value = v ∧
      (t.error = none ↔
        ∀ raw ∈ raws.take (ldaf_segments d1.connectionSize req).length, StatusWordsOk .connected raw) ∧
      (t.error = none ∨ t.error = some ldaf_fragFailed) ∧
      (t.truthy = true →
        ∀ raw ∈ raws.take (ldaf_segments d1.connectionSize req).length, StatusWordsOk .connected raw)) ∨
    (∃ e, r = .error e ∧ (e = .comm ∨ e = .data) ∧ e.isLibrary = true) := by
  have h2 := lda_write_single hook cfg w tag v d1 ps' (.writeFrag req) hconn hbuild
  have h3 := (ldaf_write_packets hook cfg w [(tag, v)] d1 ps' [.writeFrag req] hconn (by simp) hbuild).2
  rw [ldaf_sendRequests_single_world] at h3
  rw [h] at h2 h3
  dsimp only at h2 h3
  obtain ⟨p', info, rfl, hperr, hprid, hrid, hpval, hpinfo⟩ := ldaf_writeBuild_frag_parsed cfg w.drv d1 _ ps' req hbuild
  have hrid0 : req.rid = 0 := by rw [hrid]; exact lds_parse_rid _ _ _ _
  have hprid0 : p'.requestId = 0 := by rw [hprid]; exact lds_parse_rid _ _ _ _
  have hpv : p'.value = v := hpval
  have hp' : ({ w with drv := d1 } : Cli.World σ).net.pending = raws.map some ++ rest := hpend
  rcases ldaf_sendRequest_writeFrag hook { w with drv := d1 } [] req raws rest hp' hv hC hlen with ⟨hs, hsent⟩ | hs | hs
  · rw [hs] at h2
    rw [hsent] at h3
    dsimp only at h2
    have hfan : ∀ rs, fanOutRmw rs [.writeFrag req] = some rs := fun rs => rfl
    rw [hfan] at h2
    dsimp only at h2
    left
    refine ⟨writeResult p' (Results.set [] (req.rid : Int) (ldaf_writeFragOutcome req.tag (.bytes req.value)
      req.info.core.dataTypeName (raws.take (ldaf_segments d1.connectionSize req).length))), h2, h3, ?_⟩
    -- the Tag of the result loop
    have hget : (Results.set [] (req.rid : Int) (ldaf_writeFragOutcome req.tag (.bytes req.value) req.info.core.dataTypeName
        (raws.take (ldaf_segments d1.connectionSize req).length))).get? (p'.requestId : Int) =
        some (ldaf_writeFragOutcome req.tag (.bytes req.value) req.info.core.dataTypeName
          (raws.take (ldaf_segments d1.connectionSize req).length)) := by
      rw [hprid0, hrid0]
      exact lme_get_set_self _ _ _
    have hval : (writeResult p' (Results.set [] (req.rid : Int) (ldaf_writeFragOutcome req.tag (.bytes req.value)
        req.info.core.dataTypeName (raws.take (ldaf_segments d1.connectionSize req).length)))).value = v := by
      unfold writeResult
      rw [hperr]
      dsimp only
      rw [hget, hpinfo]
      exact hpv
    have herr : (writeResult p' (Results.set [] (req.rid : Int) (ldaf_writeFragOutcome req.tag (.bytes req.value)
        req.info.core.dataTypeName (raws.take (ldaf_segments d1.connectionSize req).length)))).error =
        (ldaf_writeFragOutcome req.tag (.bytes req.value) req.info.core.dataTypeName
          (raws.take (ldaf_segments d1.connectionSize req).length)).error := by
      unfold writeResult
      rw [hperr]
      dsimp only
      rw [hget, hpinfo]
    have hcases : ((ldaf_writeFragOutcome req.tag (.bytes req.value) req.info.core.dataTypeName
          (raws.take (ldaf_segments d1.connectionSize req).length)).error = none ∧
        ∀ raw ∈ raws.take (ldaf_segments d1.connectionSize req).length, StatusWordsOk .connected raw) ∨
        ((ldaf_writeFragOutcome req.tag (.bytes req.value) req.info.core.dataTypeName
          (raws.take (ldaf_segments d1.connectionSize req).length)).error = some ldaf_fragFailed ∧
        ¬ ∀ raw ∈ raws.take (ldaf_segments d1.connectionSize req).length, StatusWordsOk .connected raw) := by
      unfold ldaf_writeFragOutcome
      cases hall : ldaf_allValid (raws.take (ldaf_segments d1.connectionSize req).length) with
      | true => exact .inl ⟨rfl, (ldaf_allValid_iff _).1 hall⟩
      | false =>
        refine .inr ⟨rfl, fun hok => ?_⟩
        rw [(ldaf_allValid_iff _).2 hok] at hall
        cases hall
    refine ⟨hval, ?_, ?_, ?_⟩
    · rw [herr]
      rcases hcases with ⟨h1, h2'⟩ | ⟨h1, h2'⟩
      · exact ⟨fun _ => h2', fun _ => h1⟩
      · exact ⟨fun hn => (by rw [h1] at hn; cases hn), fun hok => absurd hok h2'⟩
    · rw [herr]
      rcases hcases with ⟨h1, _⟩ | ⟨h1, _⟩
      · exact .inl h1
      · exact .inr h1
    · intro ht
      have hnone := lda_truthy_error _ ht
      rw [herr] at hnone
      rcases hcases with ⟨_, h2'⟩ | ⟨h1, _⟩
      · exact h2'
      · rw [h1] at hnone; cases hnone
  · rw [hs] at h2
    exact .inr ⟨_, h2, .inl rfl, rfl⟩
  · rw [hs] at h2
    exact .inr ⟨_, h2, .inr rfl, rfl⟩

/-- C13, driver level, SEVERAL packets of a `read`, each answered by its own ARBITRARY reply: `read(*tags)` of n ≥ 1
    requests on a driver that believes it is connected, when the requests build to the k non-fragmented packets `qs` —
    k Multiple Service Packets of Read Tag requests (the driver's grouping of many tags over a small connection,
    `readPackets` of LogixDriverReadN), or k single Read Tag packets (a Micro800) — and the replies the driver receives
    are the ARBITRARY byte strings `raws`, at least one per packet (`hlen`). Packet j is answered by reply j. Whatever the
    replies are:
    (i)   the call returns one Tag per request — and then exactly k frames were written —, or raises CommError /
          DataError / BufferEmptyError — never a foreign exception, never a hang;
    (ii)  the i-th Tag is truthy ONLY IF the packet that carries request i was answered by ITS OWN reply with success
          for request i (`ldaf_PacketsOk`: for some j, packet j carries the request and reply j says so —
          `ldaf_PacketOk`: a single Read Tag packet of that request whose reply has OK status words; or a Multiple
          Service Packet whose reply has encapsulation status 0 and pairs the request with an embedded reply whose OWN
          status words are OK, `lda_PairOk` for packet j and reply j); no reply of ANOTHER packet can make it succeed
          (`ldaf_PacketsOk_own`: when no request id travels in two packets the claim is about the request's packet and
          its reply alone); otherwise the Tag has `value = None` and a non-empty error text;
    (iii) a falsy Tag always carries a non-empty error text. -/
theorem several_packets_any_replies {σ} (hook : ObjHook σ) (cfg : Cfg) (w w' : Cli.World σ) (raws : List Bytes)
    (rest : List (Option Bytes)) (tags : List Name) (d1 : Cli.Drv) (qs : List Request) (r : Except Exn (List LTag))
    (hconn : w.drv.targetIsConnected = true) (hpend : w.net.pending = raws.map some ++ rest) (hne : tags ≠ [])
    (hbuild : readBuildRequests cfg w.drv (parseRequestedTags cfg.tags false tags) = (d1, .ok qs))
    (hkind : ∀ q ∈ qs, q.ldaf_readKind = true) (hlen : qs.length ≤ raws.length)
    (h : read hook cfg w tags = (w', r)) :
    (∃ ts, r = .ok ts ∧ ts.length = tags.length ∧ w'.net.sent.length = w.net.sent.length + qs.length ∧
      ∀ (i : Nat) (hi : i < ts.length),
      (ts[i].truthy = true → ldaf_PacketsOk qs raws i) ∧
      (¬ ldaf_PacketsOk qs raws i → ts[i].value = .none ∧ ∃ e, ts[i].error = some e ∧ lda_ErrText e) ∧
      (ts[i].truthy = false → ∃ e, ts[i].error = some e ∧ lda_ErrText e)) ∨
    (∃ e, r = .error e ∧ lda_ReplyExn e ∧ e.isLibrary = true) := by
  obtain ⟨h2, h3⟩ := ldaf_read_packets hook cfg w tags d1 qs hconn hne hbuild
  rw [h] at h2 h3
  dsimp only at h2 h3
  have hp' : ({ w with drv := d1 } : Cli.World σ).net.pending = raws.map some ++ rest := hpend
  rcases ldaf_sendRequests_queue hook qs raws { w with drv := d1 } [] rest
    (fun q hq => ldaf_readKind_plain q (hkind q hq)) hp' hlen with ⟨hs, hsent⟩ | hs | hs
  · cases ha : ldaf_applyAll [] (qs.zip raws) with
    | error e =>
      rw [hs, ha] at h2
      right
      refine ⟨e, h2, ?_⟩
      have hcls : lda_ReplyExn e := by
        rcases ldaf_applyAll_err (qs.zip raws) [] e
          (fun p hp => .inl (hkind p.1 (List.of_mem_zip hp).1)) ha with rfl | rfl
        · exact .inr (.inr rfl)
        · exact .inr (.inl rfl)
      exact ⟨hcls, lda_ReplyExn_library e hcls⟩
    | ok rs =>
      have hsent' := hsent rs (by rw [hs, ha])
      rw [hs, ha] at h2
      dsimp only at h2
      left
      refine ⟨_, h2, by rw [List.length_map, lds_parse_length], by rw [h3, hsent'], ?_⟩
      intro i hi
      have hi' : i < (parseRequestedTags cfg.tags false tags).length := by rwa [List.length_map] at hi
      have hit : i < tags.length := by rwa [lds_parse_length] at hi'
      rw [List.getElem_map]
      have hpi := lds_parse_getElem cfg.tags false tags i hit
      have hrid : ((parseRequestedTags cfg.tags false tags)[i]).requestId = i := lds_parse_idsPos cfg.tags false tags i hi'
      apply lda_readResult_good _ rs (ldaf_PacketsOk qs raws i)
      · intro e he
        rw [hpi] at he
        exact lda_ErrText_of_lds e (lds_parse_err _ _ _ _ e he).2
      · intro result hg
        rw [hrid] at hg
        rcases ldaf_applyAll_read_table (qs.zip raws) [] rs
          (fun p hp => hkind p.1 (List.of_mem_zip hp).1) ha _ (lds_get?_mem _ _ _ hg) with h1 | h1
        · cases h1
        · exact h1
  · rw [hs] at h2
    exact .inr ⟨_, h2, .inl rfl, rfl⟩
  · rw [hs] at h2
    exact .inr ⟨_, h2, .inr (.inl rfl), rfl⟩

/-- C13, driver level, SEVERAL packets of a `write`, each answered by its own ARBITRARY reply: `write(*tags_values)` of
    n ≥ 1 pairs on a driver that believes it is connected, when the requests build to the k non-fragmented packets `qs` —
    k Multiple Service Packets of Write Tag requests, or k single Write Tag packets (a Micro800); no bit writes, whose
    Read-Modify-Write packets are covered one at a time by `write_single_any_reply` — and the replies the driver receives
    are the ARBITRARY byte strings `raws`, at least one per packet. Packet j is answered by reply j. Whatever the replies are:
    (i)   the call returns one Tag per pair — and then exactly k frames were written —, or raises CommError / DataError /
          BufferEmptyError — never a foreign exception (the fan-out `write_results.pop` has nothing to do), never a hang;
    (ii)  the i-th Tag is WITHOUT ERROR (hence truthy) only if the packet that carries request i was answered by ITS OWN
          reply with success for request i (`ldaf_PacketsOk`); otherwise it carries a non-empty error text;
    (iii) a falsy Tag carries a non-empty error text, unless the caller's value itself is `None`. -/
theorem several_packets_any_replies_write {σ} (hook : ObjHook σ) (cfg : Cfg) (w w' : Cli.World σ) (raws : List Bytes)
    (rest : List (Option Bytes)) (tvs : List (Name × PyVal)) (d1 : Cli.Drv) (ps' : List Drv.Parsed) (qs : List Request)
    (r : Except Exn (List LTag))
    (hconn : w.drv.targetIsConnected = true) (hpend : w.net.pending = raws.map some ++ rest) (hne : tvs ≠ [])
    (hbuild : writeBuildRequests cfg w.drv (lds_wparse cfg.tags tvs) = (d1, .ok (ps', qs)))
    (hkind : ∀ q ∈ qs, q.ldaf_writeKind = true) (hlen : qs.length ≤ raws.length)
    (h : write hook cfg w tvs = (w', r)) :
    (∃ ts, r = .ok ts ∧ ts.length = tvs.length ∧ w'.net.sent.length = w.net.sent.length + qs.length ∧
      ∀ (i : Nat) (hi : i < ts.length) (hv : i < tvs.length),
      (ts[i].error = none → ldaf_PacketsOk qs raws i) ∧
      (ts[i].truthy = true → ldaf_PacketsOk qs raws i) ∧
      (¬ ldaf_PacketsOk qs raws i → ∃ e, ts[i].error = some e ∧ lda_ErrText e) ∧
      (ts[i].truthy = false → tvs[i].2 ≠ .none → ∃ e, ts[i].error = some e ∧ lda_ErrText e)) ∨
    (∃ e, r = .error e ∧ lda_ReplyExn e ∧ e.isLibrary = true) := by
  obtain ⟨h2, h3⟩ := ldaf_write_packets hook cfg w tvs d1 ps' qs hconn hne hbuild
  rw [h] at h2 h3
  dsimp only at h2 h3
  have hp' : ({ w with drv := d1 } : Cli.World σ).net.pending = raws.map some ++ rest := hpend
  obtain ⟨⟨hplen, hst⟩, _⟩ := lds_writeBuild_inv cfg w.drv d1 _ ps' _ (lds_wparse_idsPos cfg.tags tvs) hbuild
  rw [lds_wparse_length] at hplen
  rcases ldaf_sendRequests_queue hook qs raws { w with drv := d1 } [] rest
    (fun q hq => ldaf_writeKind_plain q (hkind q hq)) hp' hlen with ⟨hs, hsent⟩ | hs | hs
  · cases ha : ldaf_applyAll [] (qs.zip raws) with
    | error e =>
      rw [hs, ha] at h2
      right
      refine ⟨e, h2, ?_⟩
      have hcls : lda_ReplyExn e := by
        rcases ldaf_applyAll_err (qs.zip raws) [] e
          (fun p hp => .inr (hkind p.1 (List.of_mem_zip hp).1)) ha with rfl | rfl
        · exact .inr (.inr rfl)
        · exact .inr (.inl rfl)
      exact ⟨hcls, lda_ReplyExn_library e hcls⟩
    | ok rs =>
      have hsent' := hsent rs (by rw [hs, ha])
      rw [hs, ha] at h2
      dsimp only at h2
      have hfan : fanOutRmw rs qs = some rs := ldaf_fanOut_none qs rs (by
        intro q hq r' hr'
        have := hkind q hq
        rw [hr'] at this
        cases this)
      rw [hfan] at h2
      dsimp only at h2
      left
      refine ⟨_, h2, by rw [List.length_map, hplen], by rw [h3, hsent'], ?_⟩
      intro i hi hv
      have hi' : i < ps'.length := by rwa [List.length_map] at hi
      have hiw : i < (lds_wparse cfg.tags tvs).length := by rw [lds_wparse_length]; exact hv
      rw [List.getElem_map]
      have hstab := hst i hiw hi'
      have hwp := lds_wparse_getElem cfg.tags tvs i hv
      have hrid : ps'[i].requestId = i := by
        rw [hstab.rid, hwp]; exact lds_parse_rid _ _ _ _
      have hval : ps'[i].value = tvs[i].2 := by rw [hstab.value, hwp]
      have hg := lda_writeResult_good ps'[i] rs (ldaf_PacketsOk qs raws i) (by
        intro e he
        rcases hstab.errs e he with h1 | h1
        · rw [hwp] at h1
          exact lda_ErrText_of_lds e (lds_parse_err cfg.tags true i tvs[i].1 e h1).2
        · exact lda_ErrText_of_lds e h1) (by
        intro result hg
        rw [hrid] at hg
        rcases ldaf_applyAll_write_table (qs.zip raws) [] rs
          (fun p hp => hkind p.1 (List.of_mem_zip hp).1) ha _ (lds_get?_mem _ _ _ hg) with h1 | h1
        · cases h1
        · exact h1)
      rw [hval] at hg
      exact hg
  · rw [hs] at h2
    exact .inr ⟨_, h2, .inl rfl, rfl⟩
  · rw [hs] at h2
    exact .inr ⟨_, h2, .inr (.inl rfl), rfl⟩

/-! ### non-vacuity: worlds obtained by RUNNING the model (open, register session, Forward Open), queues made of the
    healthy replies — obtained by running the model's own loops against the reference controller — with one reply
    replaced by: general status 5, encapsulation status 0x65, a cut at 47 bytes, garbage. Every hypothesis of every
    theorem is discharged, and the model is run on every variant. -/

namespace FragEx

/-- a world whose transport queue holds exactly the replies `raws` -/
def withQ (w : Cli.World Ext) (raws : List Bytes) : Cli.World Ext :=
  { w with net := { w.net with pending := raws.map some } }

private theorem withQ_pending (w : Cli.World Ext) (raws : List Bytes) : (withQ w raws).net.pending = raws.map some ++ [] :=
  (List.append_nil _).symm

/-- the reply with general status `st` (and no extended status) -/
def withStatus (st : UInt8) (raw : Bytes) : Bytes := raw.take 48 ++ [st, 0] ++ raw.drop 50
/-- the k-th reply replaced -/
def setAt (raws : List Bytes) (k : Nat) (f : Bytes → Bytes) : List Bytes :=
  (List.range raws.length).zip raws |>.map fun x => if x.1 == k then f x.2 else x.2
/-- the four ways a reply is spoilt: status 5, encapsulation status 0x65, cut at 47 bytes, garbage -/
def spoil : List (Bytes → Bytes) := [withStatus 5, AnyEx.with65, fun r => r.take 47, fun _ => AnyEx.garbage]

def tagSame (a b : LTag) : Bool := a.tag == b.tag && a.truthy == b.truthy && a.error == b.error && a.type == b.type
def sameOutcome (a b : Except Exn (List LTag)) : Bool :=
  match a, b with
  | .ok [x], .ok [y] => tagSame x y
  | .error e, .error e' => e == e'
  | _, _ => false
/-- one Tag, falsy, without value, with the given error -/
def failedWith (r : Except Exn (List LTag)) (err : TagErr) : Bool :=
  match r with
  | .ok [t] => !t.truthy && t.error == some err && (match t.value with | .none => true | _ => false)
  | _ => false
def isIntList (v : PyVal) (a n : Nat) : Bool :=
  match v with
  | .list xs => xs.length == n && (List.range n).all fun k =>
      (match xs[k]? with | some (.int j) => j == ((a + k : Nat) : Int) | _ => false)
  | _ => false

/-! #### (1) the fragmented read: `read("big{12}")` of `big : DINT[40]` over a 59-byte connection, the controller
    delivering 7 value bytes per fragment (the world `small3 [7] 59` of LogixDriverRead3): 7 rounds -/

def wR : Cli.World Ext := Ex3.small3 [7] 59
def cfgR : Cfg := Ex3.cfg3
def tagR : Name := Drv.nm "big{12}"

/-- the model's fragment loop run against the reference controller, recording the replies -/
def collectR (req : ReadReq) : Nat → Cli.World Ext → Nat → Nat → List Bytes
  | 0, _, _, _ => []
  | fuel + 1, w, seq, off =>
      match sendUnit hookAll w seq (Cl.readFragMsg req.path req.elements off) with
      | (w1, .ok (some raw)) =>
          raw :: (if ldaf_continues raw then
                    collectR req fuel { w1 with drv := w1.drv.nextSeq.2 } w1.drv.nextSeq.1 (off + (ldaf_valueBytes raw).length)
                  else [])
      | _ => []

/-- the 7 replies the reference controller gives to the 7 rounds of `read("big{12}")` -/
def healthyR : List Bytes :=
  match readBuildRequests cfgR wR.drv (parseRequestedTags cfgR.tags false [tagR]) with
  | (d1, .ok [.readFrag req]) => collectR req 100 { wR with drv := d1 } req.seq 0
  | _ => []
def reqR : Option ReadReq :=
  match readBuildRequests cfgR wR.drv (parseRequestedTags cfgR.tags false [tagR]) with
  | (_, .ok [.readFrag req]) => some req
  | _ => none

#guard healthyR.map (·.length) == [59, 59, 59, 59, 59, 59, 58]
-- general status 6 six times, then 0; every reply has OK status words
#guard healthyR.map (fun r => byteAt r 48) == [6, 6, 6, 6, 6, 6, 0] && healthyR.all (fun r => (tagResp (some r)).valid)
#guard ldaf_consumed healthyR == healthyR && ldaf_stops healthyR
-- the healthy queue gives what the run against the controller gives: [1, …, 12], in 7 frames
#guard sameOutcome (read hookAll cfgR (withQ wR healthyR) [tagR]).2 (read hookAll cfgR wR [tagR]).2
#guard (match (read hookAll cfgR (withQ wR healthyR) [tagR]).2 with
        | .ok [t] => t.truthy && isIntList t.value 1 12 && t.type == some (Drv.nm "DINT[12]") | _ => false)
#guard (read hookAll cfgR (withQ wR healthyR) [tagR]).1.net.sent.length == wR.net.sent.length + 7
-- EVERY reply of the 7, spoilt in EVERY of the 4 ways: one falsy Tag without value carrying the driver's fixed text —
-- never a success, never a foreign exception
#guard (List.range 7).all fun k => spoil.all fun f =>
  failedWith (read hookAll cfgR (withQ wR (setAt healthyR k f)) [tagR]).2 ldaf_fragFailed
-- the frames written = the replies read: a spoilt reply that still says "status 6" (encapsulation status 0x65 on a
-- continuing reply) does not end the loop, the others end it at once
#guard (List.range 7).all fun k =>
  (read hookAll cfgR (withQ wR (setAt healthyR k (withStatus 5))) [tagR]).1.net.sent.length == wR.net.sent.length + k + 1 &&
  (read hookAll cfgR (withQ wR (setAt healthyR k AnyEx.with65)) [tagR]).1.net.sent.length == wR.net.sent.length + 7 &&
  (read hookAll cfgR (withQ wR (setAt healthyR k (fun r => r.take 47))) [tagR]).1.net.sent.length == wR.net.sent.length + k + 1
-- … and in every case the result is the function of the replies `read_frag_any_replies_exact` states
#guard (List.range 7).all fun k => (spoil ++ [id]).all fun f =>
  match reqR with
  | some req =>
      (match ldaf_readFragOutcome req (setAt healthyR k f) with
       | some o => sameOutcome (read hookAll cfgR (withQ wR (setAt healthyR k f)) [tagR]).2
           (o.map fun t => [readResult (parseTagRequest cfgR.tags false 0 tagR) (Results.set [] req.rid t)])
       | none => false)
  | none => false
-- the last reply cut inside its extended status (general status 5, nothing behind): `response.error` raises
#guard (match (read hookAll cfgR (withQ wR (setAt healthyR 6 (fun r => r.take 48 ++ [5]))) [tagR]).2 with
        | .error .bufferEmpty => true | _ => false)
-- … the same cut on an earlier reply ends the loop there, with the same exception
#guard (match (read hookAll cfgR (withQ wR (setAt healthyR 2 (fun r => r.take 48 ++ [5]))) [tagR]).2 with
        | .error .bufferEmpty => true | _ => false)
-- all status words OK but the assembled bytes do not parse (the last reply loses its last value byte): parse failure
#guard failedWith (read hookAll cfgR (withQ wR (setAt healthyR 6 (fun r => r.take 57))) [tagR]).2 (.reply .parseFailed)
-- a status-6 reply of a service that does not continue (reply service 0xCC, Read Tag): not valid, the loop still goes on
#guard failedWith (read hookAll cfgR (withQ wR (setAt healthyR 1 (fun r => r.take 46 ++ [0xCC] ++ r.drop 47))) [tagR]).2 ldaf_fragFailed
-- why `hstop` is needed: with only the six status-6 replies waiting, the loop reads on into what follows them in the
-- queue — here the answers the reference controller gave MEANWHILE to the six requests (offsets 0, 7, …), which are
-- stale for the rounds they are read in: 13 frames, and a Tag assembled from fragments that do not belong together
-- (`read_frag_any_replies` then applies to the longer list of replies actually read); with 70000 status-6 replies the
-- fuel marker (`read_frag_any_replies_hang`)
#guard (read hookAll cfgR (withQ wR (healthyR.take 6)) [tagR]).1.net.sent.length == wR.net.sent.length + 13

-- the fuel of the model's loop: 5 rounds of fuel, 5 replies that all say "more to come" — the marker
#guard (match reqR with
        | some req => (match (readFragLoop hookAll req 5 (withQ wR (List.replicate 5 ((healthyR.headD []).take 52))) req.seq 0 [] true).2 with
                       | .error .hang => true | _ => false)
        | none => false)

private theorem hconnR (raws : List Bytes) : (withQ wR raws).drv.targetIsConnected = true := by
  show wR.drv.targetIsConnected = true
  decide +kernel

/-- `read_frag_any_replies` applies to `read("big{12}")` over ANY queue of replies one of which ends the loop -/
example (raws : List Bytes) (w' : Cli.World Ext) (r : Except Exn (List LTag))
    (hstop : ∃ raw ∈ raws, ldaf_continues raw = false) (hfuel : raws.length ≤ FRAG_FUEL)
    (h : read hookAll cfgR (withQ wR raws) [tagR] = (w', r)) :
    ∃ req : ReadReq,
    (∃ t, r = .ok [t] ∧ w'.net.sent.length = wR.net.sent.length + (ldaf_consumed raws).length ∧
      (t.truthy = true → ldaf_ReadFragOk req raws) ∧
      (¬ ldaf_ReadFragOk req raws → t.value = .none ∧ ∃ e, t.error = some e ∧ lda_ErrText e) ∧
      ((∃ raw ∈ ldaf_consumed raws, ¬ StatusWordsOk .connected raw) →
        t.value = .none ∧ ∃ e, t.error = some e ∧ lda_ErrText e) ∧
      (t.truthy = false → ∃ e, t.error = some e ∧ lda_ErrText e)) ∨
    (∃ e, r = .error e ∧ lda_ReplyExn e ∧ e.isLibrary = true ∧
      (e = .bufferEmpty → ∃ raw ∈ ldaf_consumed raws, ¬ StatusWordsOk .connected raw)) := by
  obtain ⟨d1, req, hb⟩ := ldaf_of_isSingleReadFrag
    (readBuildRequests cfgR wR.drv (parseRequestedTags cfgR.tags false [tagR])) (by decide +kernel)
  exact ⟨req, read_frag_any_replies hookAll cfgR (withQ wR raws) w' raws [] tagR d1 req r (hconnR raws)
    (withQ_pending wR raws) hb hstop (Nat.le_trans (ldaf_consumed_length_le raws) hfuel) h⟩

/-- the status-5 variant of the third reply: the hypotheses about the replies hold (the third reply ends the loop: 3
    replies read), its status words are bad — so the Tag has no value and a non-empty error text, or the transport failed -/
example (w' : Cli.World Ext) (r : Except Exn (List LTag))
    (h : read hookAll cfgR (withQ wR (setAt healthyR 2 (withStatus 5))) [tagR] = (w', r)) :
    (∃ t, r = .ok [t] ∧ w'.net.sent.length = wR.net.sent.length + 3 ∧ t.value = .none ∧
      ∃ e, t.error = some e ∧ lda_ErrText e) ∨
    (∃ e, r = .error e ∧ lda_ReplyExn e ∧ e.isLibrary = true) := by
  obtain ⟨d1, req, hb⟩ := ldaf_of_isSingleReadFrag
    (readBuildRequests cfgR wR.drv (parseRequestedTags cfgR.tags false [tagR])) (by decide +kernel)
  have hst : ldaf_stops (setAt healthyR 2 (withStatus 5)) = true := by decide +kernel
  have hcons : (ldaf_consumed (setAt healthyR 2 (withStatus 5))).length = 3 := by decide +kernel
  have hbad : ldaf_allValid (ldaf_consumed (setAt healthyR 2 (withStatus 5))) = false := by decide +kernel
  have hstop := ldaf_exists_of_stops _ hst
  have hbad' := ldaf_exists_bad _ hbad
  rcases read_frag_any_replies hookAll cfgR (withQ wR (setAt healthyR 2 (withStatus 5))) w' _ [] tagR d1 req r (hconnR _)
    (withQ_pending wR _) hb hstop (by rw [hcons]; decide) h with ⟨t, h1, h2, _, _, h5, _⟩ | ⟨e, h1, h2, h3, _⟩
  · rw [hcons] at h2
    exact .inl ⟨t, h1, h2, (h5 hbad').1, (h5 hbad').2⟩
  · exact .inr ⟨e, h1, h2, h3⟩

/-- `read_frag_any_replies_exact` applies as well -/
example (raws : List Bytes) (hstop : ∃ raw ∈ raws, ldaf_continues raw = false) (hfuel : raws.length ≤ FRAG_FUEL) :
    ∃ req : ReadReq,
    (∃ o, ldaf_readFragOutcome req raws = some o ∧
      (read hookAll cfgR (withQ wR raws) [tagR]).2 =
        o.map fun t => [readResult (parseTagRequest cfgR.tags false 0 tagR) (Results.set [] req.rid t)]) ∨
    (read hookAll cfgR (withQ wR raws) [tagR]).2 = .error .comm ∨
    (read hookAll cfgR (withQ wR raws) [tagR]).2 = .error .data := by
  obtain ⟨d1, req, hb⟩ := ldaf_of_isSingleReadFrag
    (readBuildRequests cfgR wR.drv (parseRequestedTags cfgR.tags false [tagR])) (by decide +kernel)
  exact ⟨req, read_frag_any_replies_exact hookAll cfgR (withQ wR raws) raws [] tagR d1 req (hconnR raws)
    (withQ_pending wR raws) hb hstop (Nat.le_trans (ldaf_consumed_length_le raws) hfuel)⟩

/-- a reply that says "status 6, more to come" without any value bytes (the first healthy reply cut after its type bytes) -/
def moreToCome : Bytes := (healthyR.headD []).take 52
#guard ldaf_continues moreToCome && (ldaf_valueBytes moreToCome).isEmpty && (tagResp (some moreToCome)).valid

/-- `read_frag_any_replies_hang` applies to a queue of `FRAG_FUEL` such replies: the fuel marker (the real loop would
    not return) — or the transport fails -/
example (w' : Cli.World Ext) (r : Except Exn (List LTag))
    (h : read hookAll cfgR (withQ wR (List.replicate FRAG_FUEL moreToCome)) [tagR] = (w', r)) :
    r = .error .hang ∨ r = .error .comm ∨ r = .error .data := by
  obtain ⟨d1, req, hb⟩ := ldaf_of_isSingleReadFrag
    (readBuildRequests cfgR wR.drv (parseRequestedTags cfgR.tags false [tagR])) (by decide +kernel)
  have hc : ldaf_continues moreToCome = true := by decide +kernel
  exact read_frag_any_replies_hang hookAll cfgR (withQ wR (List.replicate FRAG_FUEL moreToCome)) w' _ [] tagR d1 req r
    (hconnR _) (withQ_pending wR _) hb (by rw [List.length_replicate]; exact Nat.le_refl _)
    (fun raw hr => by rw [List.eq_of_mem_replicate (List.mem_of_mem_take hr)]; exact hc) h

/-- `read_frag_status_pattern` on the healthy replies: six replies with status 6, the last with status 0 -/
example : ∃ pre last, ldaf_consumed healthyR = pre ++ [last] ∧ (pre ++ [last]) <+: healthyR ∧
    (∀ raw ∈ pre, byteAt raw 48 = 6) ∧ byteAt last 48 = 0 := by
  have hall : healthyR.all (fun raw => (tagResp (some raw)).valid && true) = true := by decide +kernel
  have hcons : ldaf_consumed healthyR = healthyR := by decide +kernel
  have hlast : (healthyR.getLast?.map ldaf_continues) = some false := by decide +kernel
  apply read_frag_status_pattern
  · cases hg : healthyR.getLast? with
    | none => rw [hg] at hlast; cases hlast
    | some l =>
      rw [hg] at hlast
      exact ⟨l, List.mem_of_getLast? hg, by simpa using hlast⟩
  · intro raw hr
    rw [hcons] at hr
    have := List.all_eq_true.1 hall raw hr
    have hv : (tagResp (some raw)).valid = true := by simpa using this
    exact (valid_iff .connected raw).1 hv

/-! #### (2) the fragmented write: `write(("big[0]{16}", [0, …, 15]))` of `big : DINT[16]` over a 40-byte connection
    (the world `world3c 40` of LogixDriverWrite2): 64 bytes in 3 segments -/

def wW : Cli.World Ext := Ex.world3c 40
def cfgW : Cfg := Ex.cfg3
def tagW : Name := Drv.nm "big[0]{16}"
def valW : PyVal := .list Ex.vs16

/-- the model's segment loop run against the reference controller, recording the replies -/
def collectW (req : WriteReq) : Cli.World Ext → List (Nat × Bytes) → List Bytes
  | _, [] => []
  | w, (off, seg) :: rest =>
      match sendUnit hookAll { w with drv := w.drv.nextSeq.2 } w.drv.nextSeq.1
          (Cl.writeFragMsg req.path req.typeBytes req.elements off seg) with
      | (w1, .ok (some raw)) => raw :: collectW req w1 rest
      | _ => []

/-- the 3 replies the reference controller gives to the 3 segments -/
def healthyW : List Bytes :=
  match writeBuildRequests cfgW wW.drv [{ parseTagRequest cfgW.tags true 0 tagW with value := valW }] with
  | (d1, .ok (_, [.writeFrag req])) => collectW req { wW with drv := d1 } (ldaf_segments d1.connectionSize req)
  | _ => []

def okW (r : Except Exn (List LTag)) : Bool :=
  match r with
  | .ok [t] => t.truthy && t.error.isNone && (match t.value with | .list xs => xs.length == 16 | _ => false)
  | _ => false
/-- one Tag with the caller's value and the driver's fixed text -/
def failedW (r : Except Exn (List LTag)) : Bool :=
  match r with
  | .ok [t] => !t.truthy && t.error == some ldaf_fragFailed && (match t.value with | .list xs => xs.length == 16 | _ => false)
  | _ => false

#guard wW.drv.targetIsConnected && wW.drv.connectionSize == 40
#guard healthyW.map (·.length) == [50, 50, 50] && healthyW.all (fun r => (tagResp (some r)).valid)
#guard okW (write hookAll cfgW (withQ wW healthyW) [(tagW, valW)]).2 && okW (write hookAll cfgW wW [(tagW, valW)]).2
#guard (write hookAll cfgW (withQ wW healthyW) [(tagW, valW)]).1.net.sent.length == wW.net.sent.length + 3
-- EVERY reply of the 3, spoilt in EVERY of the 4 ways: the fixed text, the caller's value echoed — and still 3 frames:
-- the driver does not stop at the first refusal
#guard (List.range 3).all fun k => spoil.all fun f =>
  failedW (write hookAll cfgW (withQ wW (setAt healthyW k f)) [(tagW, valW)]).2 &&
  (write hookAll cfgW (withQ wW (setAt healthyW k f)) [(tagW, valW)]).1.net.sent.length == wW.net.sent.length + 3
-- a reply cut inside its extended status does NOT raise here (`response.error` of the single replies is never evaluated)
#guard failedW (write hookAll cfgW (withQ wW (setAt healthyW 1 (fun r => r.take 48 ++ [5]))) [(tagW, valW)]).2
-- extra replies beyond the 3 segments are not read
#guard okW (write hookAll cfgW (withQ wW (healthyW ++ [AnyEx.garbage])) [(tagW, valW)]).2

-- the inputs `hC` excludes — the documented corner `lds_FragSizeErr` of LogixDriverShape, independent of the replies:
-- a connection of exactly / less than the 18 bytes this Write Tag Fragmented request needs besides the value makes
-- `_send_write_fragmented` raise ValueError (`range(0, n, 0)`) / IndexError (`responses[-1]`) before anything is sent
#guard AnyEx.raises (write hookAll cfgW (withQ (Ex.world3c 18) healthyW) [(tagW, valW)]).2 (.foreign "ValueError") &&
  AnyEx.raises (write hookAll cfgW (withQ (Ex.world3c 17) healthyW) [(tagW, valW)]).2 (.foreign "IndexError") &&
  (write hookAll cfgW (withQ (Ex.world3c 18) healthyW) [(tagW, valW)]).1.net.sent.length == (Ex.world3c 18).net.sent.length

private theorem hconnW (raws : List Bytes) : (withQ wW raws).drv.targetIsConnected = true := by
  show wW.drv.targetIsConnected = true
  decide +kernel

/-- `write_frag_any_replies` applies to `write(("big[0]{16}", [0, …, 15]))` over ANY queue of at least 3 replies -/
example (raws : List Bytes) (w' : Cli.World Ext) (r : Except Exn (List LTag)) (hlen : 3 ≤ raws.length)
    (h : write hookAll cfgW (withQ wW raws) [(tagW, valW)] = (w', r)) :
    (∃ t, r = .ok [t] ∧ w'.net.sent.length = wW.net.sent.length + 3 ∧ t.value = valW ∧
      (t.error = none ↔ ∀ raw ∈ raws.take 3, StatusWordsOk .connected raw) ∧
      (t.error = none ∨ t.error = some ldaf_fragFailed) ∧
      (t.truthy = true → ∀ raw ∈ raws.take 3, StatusWordsOk .connected raw)) ∨
    (∃ e, r = .error e ∧ (e = .comm ∨ e = .data) ∧ e.isLibrary = true) := by
  obtain ⟨d1, ps', req, hb, hv, hC, hn⟩ := ldaf_of_isSingleWriteFrag 3
    (writeBuildRequests cfgW wW.drv [{ parseTagRequest cfgW.tags true 0 tagW with value := valW }]) (by decide +kernel)
  have := write_frag_any_replies hookAll cfgW (withQ wW raws) w' raws [] tagW valW d1 ps' req r (hconnW raws)
    (withQ_pending wW raws) hb hv hC (by rw [hn]; exact hlen) h
  rw [hn] at this
  exact this

/-- the concrete consequence for the queue whose SECOND reply is cut at 47 bytes: the fixed text, 3 frames -/
example (w' : Cli.World Ext) (r : Except Exn (List LTag))
    (h : write hookAll cfgW (withQ wW (setAt healthyW 1 (fun r => r.take 47))) [(tagW, valW)] = (w', r)) :
    (∃ t, r = .ok [t] ∧ w'.net.sent.length = wW.net.sent.length + 3 ∧ t.error = some ldaf_fragFailed) ∨
    (∃ e, r = .error e ∧ (e = .comm ∨ e = .data) ∧ e.isLibrary = true) := by
  obtain ⟨d1, ps', req, hb, hv, hC, hn⟩ := ldaf_of_isSingleWriteFrag 3
    (writeBuildRequests cfgW wW.drv [{ parseTagRequest cfgW.tags true 0 tagW with value := valW }]) (by decide +kernel)
  have hl : (setAt healthyW 1 (fun r => r.take 47)).length = 3 := by decide +kernel
  have hbad : ldaf_allValid ((setAt healthyW 1 (fun r => r.take 47)).take 3) = false := by decide +kernel
  rcases write_frag_any_replies hookAll cfgW (withQ wW _) w' _ [] tagW valW d1 ps' req r (hconnW _)
    (withQ_pending wW _) hb hv hC (by rw [hn, hl]; exact Nat.le_refl _) h with ⟨t, h1, h2, _, h4, h5, _⟩ | h1
  · rw [hn] at h2 h4
    refine .inl ⟨t, h1, h2, ?_⟩
    rcases h5 with h5 | h5
    · exfalso
      rw [(ldaf_allValid_iff _).2 (h4.1 h5)] at hbad
      cases hbad
    · exact h5
  · exact .inr h1

/-! #### (3) several packets: `read("abc", "xyz", "flt", "cnt", "lim")` over a 50-byte connection (the world `worldN 50`
    of LogixDriverReadN): 3 Multiple Service Packets [abc, xyz], [flt, cnt], [lim] -/

def wP : Cli.World Ext := ExN.worldN 50
def cfgP : Cfg := ExN.cfgN
def tagsP : List Name := ExN.five.map (·.s.name)
def tvsP : List (Name × PyVal) := [(Drv.nm "abc", .int 1), (Drv.nm "xyz", .int 2), (Drv.nm "flt", .float 0), (Drv.nm "cnt", .int 4), (Drv.nm "lim", .int 5)]

/-- `_send_requests` run against the reference controller, recording the replies -/
def collectP : Cli.World Ext → List Request → List Bytes
  | _, [] => []
  | w, q :: qs =>
      match q.lda_msg with
      | some (seq, msg) =>
          (match sendUnit hookAll w seq msg with
           | (w1, .ok (some raw)) => raw :: collectP w1 qs
           | _ => [])
      | none => []

def healthyP : List Bytes :=
  match readBuildRequests cfgP wP.drv (parseRequestedTags cfgP.tags false tagsP) with
  | (d1, .ok qs) => collectP { wP with drv := d1 } qs
  | _ => []
def healthyPW : List Bytes :=
  match writeBuildRequests cfgP wP.drv (lds_wparse cfgP.tags tvsP) with
  | (d1, .ok (_, qs)) => collectP { wP with drv := d1 } qs
  | _ => []

/-- the ways the reply of a Multiple Service Packet is spoilt (its OUTER general status is not looked at by the driver —
    0x1E "embedded service error" is legitimate —, see LogixDriverAnyReply; the embedded status is, below) -/
def spoilP : List (Bytes → Bytes) := [AnyEx.with65, fun r => r.take 47, fun _ => AnyEx.garbage]

/-- which Tags are truthy -/
def truthies (r : Except Exn (List LTag)) : Option (List Bool) :=
  match r with | .ok ts => some (ts.map (·.truthy)) | .error _ => none
/-- every falsy Tag has no value and an error -/
def falsyHaveErrors (r : Except Exn (List LTag)) : Bool :=
  match r with
  | .ok ts => ts.all fun t => t.truthy || (t.error.isSome && (match t.value with | .none => true | _ => false))
  | .error _ => false

#guard healthyP.map (·.length) == [74, 76, 62] && healthyPW.length == 3
-- every request travels in exactly one packet: the request ids of the three packets (`ldaf_PacketsOk_own`)
#guard (match readBuildRequests cfgP wP.drv (parseRequestedTags cfgP.tags false tagsP) with
        | (_, .ok qs) => qs.map (fun q => q.lds_carried.map (·.1)) == [[0, 1], [2, 3], [4]] | _ => false)
#guard truthies (read hookAll cfgP (withQ wP healthyP) tagsP).2 == some [true, true, true, true, true]
#guard (match (read hookAll cfgP (withQ wP healthyP) tagsP).2, (read hookAll cfgP wP tagsP).2 with
        | .ok a, .ok b => a.length == b.length && (a.zip b).all (fun x => tagSame x.1 x.2) | _, _ => false)
-- the reply of packet j spoilt (encapsulation status 0x65, cut at 47 bytes, garbage) fails exactly the requests of
-- packet j — and nothing else
#guard spoilP.all fun f =>
  truthies (read hookAll cfgP (withQ wP (setAt healthyP 0 f)) tagsP).2 == some [false, false, true, true, true] &&
  truthies (read hookAll cfgP (withQ wP (setAt healthyP 1 f)) tagsP).2 == some [true, true, false, false, true] &&
  truthies (read hookAll cfgP (withQ wP (setAt healthyP 2 f)) tagsP).2 == some [true, true, true, true, false]
#guard (List.range 3).all fun k => spoilP.all fun f =>
  falsyHaveErrors (read hookAll cfgP (withQ wP (setAt healthyP k f)) tagsP).2 &&
  (read hookAll cfgP (withQ wP (setAt healthyP k f)) tagsP).1.net.sent.length == wP.net.sent.length + 3
-- the outer general status of a Multiple Service Packet reply is not looked at (`ldaf_PacketOk` does not mention it)
#guard truthies (read hookAll cfgP (withQ wP (setAt healthyP 1 (withStatus 5))) tagsP).2 == some [true, true, true, true, true]
-- an embedded error status in the second packet (general status 5 in the embedded reply of `cnt`): only `cnt` fails
#guard truthies (read hookAll cfgP (withQ wP (setAt healthyP 1 (fun r => r.take 68 ++ [5] ++ r.drop 69))) tagsP).2 ==
  some [true, true, true, false, true]
-- the replies of two packets swapped: the embedded replies are still paired by position — the Tags of [abc, xyz] get the
-- values of [flt, cnt] if they decode; a Tag is judged by the reply that came for ITS packet, right or wrong
#guard falsyHaveErrors (read hookAll cfgP (withQ wP [healthyP[1]!, healthyP[0]!, healthyP[2]!]) tagsP).2
-- writes
#guard truthies (write hookAll cfgP (withQ wP healthyPW) tvsP).2 == some [true, true, true, true, true]
#guard spoilP.all fun f =>
  truthies (write hookAll cfgP (withQ wP (setAt healthyPW 1 f)) tvsP).2 == some [true, true, false, false, true]

private theorem hconnP (raws : List Bytes) : (withQ wP raws).drv.targetIsConnected = true := by
  show wP.drv.targetIsConnected = true
  decide +kernel

/-- `several_packets_any_replies` applies to the read of the five tags over ANY queue of at least 3 replies -/
example (raws : List Bytes) (w' : Cli.World Ext) (r : Except Exn (List LTag)) (hlen : 3 ≤ raws.length)
    (h : read hookAll cfgP (withQ wP raws) tagsP = (w', r)) :
    ∃ qs : List Request, qs.length = 3 ∧
    ((∃ ts, r = .ok ts ∧ ts.length = 5 ∧ w'.net.sent.length = wP.net.sent.length + 3 ∧
      ∀ (i : Nat) (hi : i < ts.length),
      (ts[i].truthy = true → ldaf_PacketsOk qs raws i) ∧
      (¬ ldaf_PacketsOk qs raws i → ts[i].value = .none ∧ ∃ e, ts[i].error = some e ∧ lda_ErrText e) ∧
      (ts[i].truthy = false → ∃ e, ts[i].error = some e ∧ lda_ErrText e)) ∨
    (∃ e, r = .error e ∧ lda_ReplyExn e ∧ e.isLibrary = true)) := by
  obtain ⟨d1, qs, hb, hk, hn⟩ := ldaf_of_isReadPackets 3
    (readBuildRequests cfgP wP.drv (parseRequestedTags cfgP.tags false tagsP)) (by decide +kernel)
  have := several_packets_any_replies hookAll cfgP (withQ wP raws) w' raws [] tagsP d1 qs r (hconnP raws)
    (withQ_pending wP raws) (by decide) hb hk (by rw [hn]; exact hlen) h
  rw [hn] at this
  exact ⟨qs, hn, this⟩

/-- `several_packets_any_replies_write` applies to the write of the five tags over ANY queue of at least 3 replies -/
example (raws : List Bytes) (w' : Cli.World Ext) (r : Except Exn (List LTag)) (hlen : 3 ≤ raws.length)
    (h : write hookAll cfgP (withQ wP raws) tvsP = (w', r)) :
    ∃ qs : List Request, qs.length = 3 ∧
    ((∃ ts, r = .ok ts ∧ ts.length = 5 ∧ w'.net.sent.length = wP.net.sent.length + 3 ∧
      ∀ (i : Nat) (hi : i < ts.length) (hv : i < tvsP.length),
      (ts[i].error = none → ldaf_PacketsOk qs raws i) ∧
      (ts[i].truthy = true → ldaf_PacketsOk qs raws i) ∧
      (¬ ldaf_PacketsOk qs raws i → ∃ e, ts[i].error = some e ∧ lda_ErrText e) ∧
      (ts[i].truthy = false → tvsP[i].2 ≠ .none → ∃ e, ts[i].error = some e ∧ lda_ErrText e)) ∨
    (∃ e, r = .error e ∧ lda_ReplyExn e ∧ e.isLibrary = true)) := by
  obtain ⟨d1, ps', qs, hb, hk, hn⟩ := ldaf_of_isWritePackets 3
    (writeBuildRequests cfgP wP.drv (lds_wparse cfgP.tags tvsP)) (by decide +kernel)
  have := several_packets_any_replies_write hookAll cfgP (withQ wP raws) w' raws [] tvsP d1 ps' qs r (hconnP raws)
    (withQ_pending wP raws) (by decide) hb hk (by rw [hn]; exact hlen) h
  rw [hn] at this
  exact ⟨qs, hn, this⟩

end FragEx

end Pycomm.Lgx.Drv
