/-
  LogixDriver.read / write of PROGRAM-scoped tags (`Program:P.tag`), layers (a), (b), (d):
    (a) `ldp_parse_scalar`: `_parse_tag_request` of `Program:P.tag` — the request string is split at the first dot
        after the program name, the tag database is asked for the whole `Program:P.tag`;
    (b) `ldp_requestPath`: the request path is ALWAYS symbolic (whatever `use_instance_ids` and the instance id of the
        entry) and denotes the two ANSI symbol segments `Program:P`, `tag`;
    (d) `ldp_resolve`, `ldp_symbolOf`, `ldp_readBytes`: the reference controller resolves the first segment to the
        program scope and the second inside that program's symbol table.
-/
import PycommProofs.LogixDriverRead3
import PycommProofs.LogixDriverWrite3
namespace Pycomm.Lgx.Drv
open Pycomm Pycomm.Tgt Pycomm.Path Pycomm.Reply Pycomm.EP Pycomm.Lgx Pycomm.Lgx.E2E

/-- the name of a program scope as the controller lists it: `Program:` followed by the program's name -/
def ldp_prog (P : Name) : Name := Drv.nm "Program:" ++ P

/-- the request string of a program-scoped tag: `Program:P.tag` -/
def ldp_tagStr (P t : Name) : Name := ldp_prog P ++ [46] ++ t

/-! ### characters of a program scope name -/

theorem ldp_prog_chars (P : Name) (hP : PlainIdent P) (c : Nat) (hc : c ∈ ldp_prog P) :
    c ≠ 46 ∧ c ≠ 91 ∧ c ≠ 93 ∧ c ≠ 123 ∧ c ≠ 125 ∧ c < 128 ∧ Path.identChar c = true := by
  simp only [ldp_prog, List.mem_append] at hc
  rcases hc with hc | hc
  · have : c = 80 ∨ c = 114 ∨ c = 111 ∨ c = 103 ∨ c = 97 ∨ c = 109 ∨ c = 58 := by
      have h : c ∈ ([80, 114, 111, 103, 114, 97, 109, 58] : List Nat) := hc
      simp only [List.mem_cons, List.not_mem_nil, or_false] at h
      omega
    simp only [Path.identChar, Bool.or_eq_true, Bool.and_eq_true, decide_eq_true_eq, beq_iff_eq]
    omega
  · have := ldr_ident_facts c (hP.2.2 c hc)
    exact ⟨by omega, by omega, by omega, by omega, by omega, by omega, this.2.2.2.2.2.2.2⟩

theorem ldp_prog_not_mem (P : Name) (hP : PlainIdent P) (c : Nat)
    (hc : c = 46 ∨ c = 91 ∨ c = 93 ∨ c = 123 ∨ c = 125) : c ∉ ldp_prog P := by
  intro hm
  have := ldp_prog_chars P hP c hm
  omega

theorem ldp_prog_length (P : Name) : (ldp_prog P).length = P.length + 8 := by
  simp only [ldp_prog, List.length_append]
  have : (Drv.nm "Program:").length = 8 := by decide
  omega

theorem ldp_prog_ne_nil (P : Name) : ldp_prog P ≠ [] := by
  intro h
  have := ldp_prog_length P
  rw [h] at this
  simp at this

theorem ldp_prog_wf (P : Name) (hP : PlainIdent P) (hPl : P.length ≤ 247) : WfLevel ⟨ldp_prog P, []⟩ :=
  ⟨ldp_prog_ne_nil P, by rw [ldp_prog_length]; omega, fun c hc => (ldp_prog_chars P hP c hc).2.2.2.2.2.2, by simp,
   by simp⟩

theorem ldp_prog_startsWith (P : Name) : PyStr.startsWith (Drv.nm "Program:") (ldp_prog P) = true := by
  have h8 : (Drv.nm "Program:").length = 8 := by decide
  simp [PyStr.startsWith, ldp_prog, h8]

theorem ldp_prog_startsWith' (P : Name) : PyStr.startsWith (Path.nm "Program:") (ldp_prog P) = true :=
  ldp_prog_startsWith P

theorem ldp_prog_isProgramName (P : Name) : isProgramName ((ldp_prog P).map UInt8.ofNat) = true := by
  have e : (ldp_prog P).map UInt8.ofNat =
      [80, 114, 111, 103, 114, 97, 109, 58] ++ P.map UInt8.ofNat := by
    simp only [ldp_prog, List.map_append]
    rfl
  rw [e]
  simp [isProgramName]

theorem ldp_map_toNat (n : Name) (h : ∀ c ∈ n, c < 256) : (n.map UInt8.ofNat).map (·.toNat) = n :=
  ldw3_map_toNat_ofNat n h

theorem ldp_prog_toNat (P : Name) (hP : PlainIdent P) : ((ldp_prog P).map UInt8.ofNat).map (·.toNat) = ldp_prog P :=
  ldp_map_toNat _ (fun c hc => by have := ldp_prog_chars P hP c hc; omega)

/-! ### characters of the request string -/

theorem ldp_tagStr_not_mem (P t : Name) (hP : PlainIdent P) (ht : PlainIdent t) (c : Nat)
    (hc : c = 91 ∨ c = 93 ∨ c = 123 ∨ c = 125) : c ∉ ldp_tagStr P t := by
  intro hm
  simp only [ldp_tagStr, List.mem_append, List.mem_singleton] at hm
  rcases hm with (hm | hm) | hm
  · exact ldp_prog_not_mem P hP c (by omega) hm
  · omega
  · exact ldr_plain_not_mem t ht c (by omega) hm

theorem ldp_split (P t : Name) (hP : PlainIdent P) (ht : PlainIdent t) :
    PyStr.split 46 (ldp_tagStr P t) = [ldp_prog P, t] := by
  have e : ldp_tagStr P t = ldp_prog P ++ 46 :: t := by simp [ldp_tagStr]
  unfold PyStr.split
  rw [e, splitOn_append_sep 46 _ _ (ldp_prog_not_mem P hP 46 (by omega)),
    splitOn_no_sep 46 _ (ldr_plain_not_mem t ht 46 (by omega))]

theorem ldp_indexPartOk_prog (P : Name) (hP : PlainIdent P) : indexPartOk (ldp_prog P) = true := by
  unfold indexPartOk
  rw [ldr_contains_false _ 91 (ldp_prog_not_mem P hP 91 (by omega)),
    ldr_contains_false _ 93 (ldp_prog_not_mem P hP 93 (by omega))]
  simp

theorem ldp_stripArray (P t : Name) (hP : PlainIdent P) (ht : PlainIdent t) :
    stripArray (ldp_tagStr P t) = ldp_tagStr P t := by
  unfold stripArray
  rw [find_none 91 _ (ldp_tagStr_not_mem P t hP ht 91 (by omega))]

/-! ### (a) parsing -/

/-- the parsed request of a program-scoped scalar tag -/
def ldp_parsed (rid : Nat) (P t : Name) (info : TagInfo) : Drv.Parsed :=
  { requestId := rid, requestTag := ldp_tagStr P t, userTag := ldp_tagStr P t, plcTag := ldp_tagStr P t, bit := none,
    elements := 1, info := some info, boolElements := none }

/-- (a) `_parse_tag_request` of `Program:P.tag` when the tag database knows the key `Program:P.tag` as something other
    than a DWORD: the program name and the first attribute are joined into the base tag, the request addresses the
    whole string, one element, no bit number -/
theorem ldp_parse_scalar (db : TagDb) (write : Bool) (rid : Nat) (P t : Name) (info : TagInfo)
    (hP : PlainIdent P) (ht : PlainIdent t) (hget : db.get? (ldp_tagStr P t) = some info) (hnd : isDword info = false) :
    parseTagRequest db write rid (ldp_tagStr P t) = ldp_parsed rid P t info := by
  have hse : splitElements (ldp_tagStr P t) = .ok (ldp_tagStr P t, 1, true) :=
    ldr2_splitElements_none _ (ldp_tagStr_not_mem P t hP ht 123 (by omega))
  have hscoped : lds_scoped (ldp_prog P) [t] = some (ldp_tagStr P t, []) := by
    unfold lds_scoped
    rw [ldp_prog_startsWith P]
    rfl
  have hgi : getTagInfo db (ldp_tagStr P t) [] = .ok (some info) := by
    unfold getTagInfo
    rw [ldp_stripArray P t hP ht, hget]
    simp
  rw [lds_parse_unfold, hse]
  simp only [Int.reduceLE, and_self, decide_true, Bool.not_true, Bool.false_eq_true, if_false,
    ldp_split P t hP ht, List.find?_cons, ldp_indexPartOk_prog P hP, ldr_indexPartOk t ht, List.find?_nil, hscoped,
    ldr2_bitSplit_none]
  unfold lds_tail
  simp only [hgi, lds_bitBad, hnd, Bool.false_eq_true, if_false, ldp_parsed]

/-! ### (b) the request path -/

/-- for a program-scoped tag `tag_request_path` ignores the instance id: the path is symbolic whatever
    `use_instance_ids` says and whatever instance id the entry of the tag database carries -/
theorem ldp_tagRequestPath_symbolic (P t : Name) (hP : PlainIdent P) (ht : PlainIdent t) (iid : Option Nat)
    (useIds : Bool) :
    tagRequestPath (ldp_tagStr P t) iid useIds = tagRequestPath (ldp_tagStr P t) none false := by
  unfold tagRequestPath
  rw [ldp_split P t hP ht]
  simp only [ldp_prog_startsWith' P, Bool.not_true, Bool.and_false, Bool.false_and, Bool.false_eq_true, if_false]

/-- what the request path of `Program:P.tag` must denote for the controller: the two names -/
def ldp_segs (P t : Name) : List PSeg :=
  [PSeg.symbol ((ldp_prog P).map UInt8.ofNat), PSeg.symbol (t.map UInt8.ofNat)]

/-- (b, path) `tag_request_path` of `Program:P.tag` with ANY entry of the tag database and ANY setting of
    `use_instance_ids`: it exists, is short, and the controller's strict parser reads it as the two names -/
theorem ldp_requestPath (cfg : Cfg) (P t : Name) (info : TagInfo) (hP : PlainIdent P) (hPl : P.length ≤ 247)
    (ht : PlainIdent t) (hlen : P.length + t.length ≤ 496) :
    ∃ path, requestPathOf cfg (ldp_tagStr P t) info = .ok path ∧
      path.length ≤ P.length + t.length + 15 ∧ Denotes path (ldp_segs P t) := by
  have hw : ∀ l ∈ [(⟨ldp_prog P, []⟩ : TagLevel), ⟨t, []⟩], WfLevel l := by
    intro l hl
    simp only [List.mem_cons, List.not_mem_nil, or_false] at hl
    rcases hl with rfl | rfl
    · exact ldp_prog_wf P hP hPl
    · exact ldr_plain_wf t ht
  have hrt : renderTag [(⟨ldp_prog P, []⟩ : TagLevel), ⟨t, []⟩] = ldp_tagStr P t := by
    simp [renderTag, joinWith, renderLevel, ldp_tagStr]
  have htl := ht.2.1
  obtain ⟨bs, hb, hp⟩ := tag_path_denotes [(⟨ldp_prog P, []⟩ : TagLevel), ⟨t, []⟩] (by simp) hw
    (by simp only [List.map_cons, List.map_nil, List.sum_cons, List.sum_nil, List.length_nil, ldp_prog_length]; omega)
  rw [hrt] at hb
  have hall := encAll_levels [(⟨ldp_prog P, []⟩ : TagLevel), ⟨t, []⟩] hw
  have hsz : ([(⟨ldp_prog P, []⟩ : TagLevel), ⟨t, []⟩].map fun l => 2 + l.name.length + 1 + 6 * l.idx.length).sum =
      P.length + t.length + 14 := by
    simp only [List.map_cons, List.map_nil, List.sum_cons, List.sum_nil, List.length_nil, ldp_prog_length]; omega
  rw [hsz] at hall
  refine ⟨bs, ?_, ?_, ?_⟩
  · unfold requestPathOf
    rw [ldp_tagRequestPath_symbolic P t hP ht, hb]
  · -- the length: the same bytes come out of `encEpath` on the level segments
    have hsplit := ldp_split P t hP ht
    have hfind : findTagIndex (ldp_prog P) = (ldp_prog P, []) := by
      unfold findTagIndex
      rw [find_none 91 _ (ldp_prog_not_mem P hP 91 (by omega))]
    have hfind2 : findTagIndex t = (t, []) := by
      unfold findTagIndex
      rw [find_none 91 t (ldr_plain_not_mem t ht 91 (by omega))]
    have hb2 : encEpath true ([(⟨ldp_prog P, []⟩ : TagLevel), ⟨t, []⟩].flatMap levelSrc) true false = .ok bs := by
      have := hb
      simp only [tagRequestPath, hsplit, hfind, hfind2, indexSegs, attrSegs, bind, Except.bind, Bool.false_and,
        Bool.false_eq_true, if_false, List.append_nil, List.nil_append, List.cons_append] at this
      have e : [(⟨ldp_prog P, []⟩ : TagLevel), ⟨t, []⟩].flatMap levelSrc = [Seg.dataStr (ldp_prog P), Seg.dataStr t] := by
        simp [levelSrc, idxSrc]
      rw [e]
      generalize encEpath true [Seg.dataStr (ldp_prog P), Seg.dataStr t] true false = r at this
      cases r with
      | error x => cases this
      | ok y => simp only [Except.ok.injEq, Option.some.injEq] at this; rw [this]
    have := ldr_encEpath_len hall hb2
    omega
  · simpa [Denotes, levelSegs, ldp_segs] using hp

/-! ### (d) addressing -/

/-- the program scope `Program:P` with the symbol table `syms` is the first (hence by `hprogU` the only) scope of that
    name the controller holds -/
theorem ldp_find_prog (p : Project) (pn : Name) (syms : List Symbol) (hprog : (pn, syms) ∈ p.programs)
    (hprogU : ∀ pr ∈ p.programs, pr.1 = pn → pr = (pn, syms)) :
    p.programs.find? (·.1 == pn) = some (pn, syms) := by
  apply ldr_find_unique _ _ (pn, syms) hprog (by simp)
  intro x hx hpx
  exact hprogU x hx (by simpa using hpx)

theorem ldp_find_name (syms : List Symbol) (s : Symbol) (hs : s ∈ syms)
    (hbytes : ∀ s' ∈ syms, ∀ ch ∈ s'.name, ch < 256)
    (huniq : ∀ s' ∈ syms, s'.name = s.name → s' = s) :
    syms.find? (fun s' => s'.name.map (fun c => UInt8.ofNat c) == s.name.map UInt8.ofNat) = some s := by
  apply ldr_find_unique _ _ s hs (by simp)
  intro x hx hpx
  apply huniq x hx
  exact ldr_map_ofNat_inj _ _ (hbytes x hx) (hbytes s hs) (by simpa using hpx)

theorem ldp_find_inst (syms : List Symbol) (s : Symbol) (hs : s ∈ syms)
    (huniq : ∀ s' ∈ syms, s'.inst = s.inst → s' = s) :
    syms.find? (fun s' => s'.inst == s.inst) = some s := by
  apply ldr_find_unique _ _ s hs (by simp)
  intro x hx hpx
  exact huniq x hx (by simpa using hpx)

/-- the location a whole elementary symbol of the program scope `pn` resolves to -/
def ldp_loc (pn : Name) (s : Symbol) (c : Nat) : Loc :=
  { symInst := s.inst, scope := some pn, offset := 0, ty := .atomic c, avail := dimsProduct s.dims }

/-- (d, addressing) the two names resolve to the symbol `s` of the program's symbol table — the controller scope is
    not consulted (no hypothesis mentions it) -/
theorem ldp_resolve (p : Project) (P : Name) (syms : List Symbol) (s : Symbol) (c sz : Nat)
    (hP : PlainIdent P) (hprog : (ldp_prog P, syms) ∈ p.programs)
    (hprogU : ∀ pr ∈ p.programs, pr.1 = ldp_prog P → pr = (ldp_prog P, syms))
    (hs : s ∈ syms) (hbytes : ∀ s' ∈ syms, ∀ ch ∈ s'.name, ch < 256)
    (huniqN : ∀ s' ∈ syms, s'.name = s.name → s' = s)
    (hty : elTyOfWord s.symbolType = .atomic c) (hsz : atomicSize c = some sz) (hmem : s.mem ≠ []) :
    resolve p (ldp_segs P s.name) = .ok (ldp_loc (ldp_prog P) s c) := by
  have hme : s.mem.isEmpty = false := by
    cases h : s.mem with
    | nil => exact absurd h hmem
    | cons _ _ => rfl
  have hel : p.elSize (.atomic c) = some sz := hsz
  unfold resolve ldp_segs
  simp only [ldp_prog_isProgramName P, if_true, ldp_prog_toNat P hP, Project.findSymbol,
    ldp_find_prog p _ syms hprog hprogU, Option.map_some, Option.bind_some, ldp_find_name syms s hs hbytes huniqN, hme,
    Bool.false_eq_true, if_false, hty, hel, takeIndices, List.length_nil, Nat.zero_add, resolveMembers, Nat.zero_mul,
    ldp_loc]

/-- (d) the symbol behind that location -/
theorem ldp_symbolOf (p : Project) (pn : Name) (syms : List Symbol) (s : Symbol) (c : Nat)
    (hprog : (pn, syms) ∈ p.programs) (hprogU : ∀ pr ∈ p.programs, pr.1 = pn → pr = (pn, syms))
    (hs : s ∈ syms) (huniqI : ∀ s' ∈ syms, s'.inst = s.inst → s' = s) :
    p.symbolOf (ldp_loc pn s c) = some s := by
  simp only [Project.symbolOf, Project.findSymbol, ldp_loc, ldp_find_prog p pn syms hprog hprogU, Option.map_some,
    Option.bind_some, ldp_find_inst syms s hs huniqI]

/-- (d, memory) the bytes of one element there are the program symbol's memory -/
theorem ldp_readBytes (p : Project) (pn : Name) (syms : List Symbol) (s : Symbol) (c sz : Nat)
    (hprog : (pn, syms) ∈ p.programs) (hprogU : ∀ pr ∈ p.programs, pr.1 = pn → pr = (pn, syms))
    (hs : s ∈ syms) (huniqI : ∀ s' ∈ syms, s'.inst = s.inst → s' = s)
    (hsz : atomicSize c = some sz) (hlen : s.mem.length = sz) :
    readBytes p (ldp_loc pn s c) 1 = some s.mem := by
  have hel : p.elSize (.atomic c) = some sz := hsz
  have hsym := ldp_symbolOf p pn syms s c hprog hprogU hs huniqI
  unfold readBytes
  rw [hsym]
  simp only [ldp_loc, hel, Nat.zero_add, Nat.one_mul, hlen, Nat.le_refl, if_true, List.drop_zero]
  rw [← hlen, List.take_length]

end Pycomm.Lgx.Drv
