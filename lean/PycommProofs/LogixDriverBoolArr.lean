/-
  C01 / C02 at the driver level for BOOL arrays (tags the tag database lists with data type DWORD: `dim` 32-bit words
  holding `32 * dim` BOOLs, BOOL `k` = bit `k % 32` of the little-endian DWORD `k / 32`): `LogixDriver.read` /
  `LogixDriver.write` of `name[i]`, `name[i]{n}`, `name`, `name{n}` through the whole stack of the model.

  READ  (logix_driver.py `_parse_tag_request`, `read`): the request always addresses DWORD 0 (`name[0]`, or `name` when no
        index was written) and asks for `(i + n + 31) / 32` DWORDs — up to the one holding BOOL `i + n - 1` —, the reply is
        decoded into `32 * words` bools and `value[i : i + n]` is cut out.
  WRITE the request addresses DWORD `i / 32`, `encode_value` insists on `i % 32 = 0` and packs the bools 32 per DWORD.

  Helper files: LDBool1 (read: `ldb_parse_read`, `ldb_readResult_one/many`, `ldb_flat_window`, `ldb_read_request`,
  `ldb_read_bools`), LDBool2 (write: `ldb_bit_written`, `ldb_parse_write`, `ldb_write_unaligned`, `ldb_chunks_length`,
  `ldb_encode_bits_length`, `ldb_encodeValue_partial`), LDBool3 (the aligned write whose count is no multiple of 32:
  `ldb_writeTag_short`, `ldb_sendUnit_write_short`, `ldb_write_partial`).
-/
import PycommProofs.LDBool1
import PycommProofs.LDBool2
import PycommProofs.LDBool3
namespace Pycomm.Lgx.Drv
open Pycomm Pycomm.Tgt Pycomm.Path Pycomm.Reply Pycomm.Encap Pycomm.Lgx Pycomm.Lgx.E2E

theorem ldb_tagStr_plain0 (name : Name) : ldr2_tagStr ⟨name, []⟩ none none = name := by
  simp [ldr2_tagStr, renderLevel]

theorem ldb_range_one (f : Nat → PyVal) : ldr2_value ((List.range 1).map f) = f 0 := rfl

theorem ldb_words_aligned (i n : Nat) (hi : i % 32 = 0) (hn : n % 32 = 0) : ldb_words i n = i / 32 + n / 32 := by
  unfold ldb_words; omega

/-- the BOOLs `[i, i + n)` read back from a memory into which exactly these BOOLs were written (whole DWORDs) -/
theorem ldb_window_written (mem bytes : Bytes) (i n : Nat) (bools : List Bool) (hi : i % 32 = 0) (hn : n % 32 = 0)
    (hl : bools.length = n) (hbl : bytes.length = n / 32 * 4) (hfit : i / 32 * 4 + n / 32 * 4 ≤ mem.length)
    (hbits : ∀ j b, j < n / 32 → b < 32 → (leVal ((bytes.drop (4 * j)).take 4)).testBit b = bools.getD (32 * j + b) false) :
    ((List.range n).map fun k => PyVal.bool (ldb_bit (Lgx.splice mem (i / 32 * 4) bytes) (i + k))) =
      bools.map PyVal.bool := by
  apply List.ext_getElem?
  intro k
  by_cases hk : k < n
  · rw [List.getElem?_map, List.getElem?_range hk, List.getElem?_map, Option.map_some,
      ldb_bit_written mem bytes (i / 32) (n / 32) bools hbl hfit hbits (i + k), if_pos (by omega)]
    have e : i + k - 32 * (i / 32) = k := by omega
    rw [e, List.getElem?_eq_getElem (by omega), Option.map_some, List.getD_eq_getElem?_getD,
      List.getElem?_eq_getElem (by omega)]
    rfl
  · rw [List.getElem?_eq_none (by simp; omega), List.getElem?_eq_none (by simp; omega)]

-- PROPERTY THEOREMS

/-- C01, the window arithmetic of a BOOL-array read: for `n ≥ 1` BOOLs from BOOL `i`, the `(i + n + 31) / 32` DWORDs the
    driver asks for (from DWORD 0) cover every requested BOOL (`i + n ≤ 32 · words`), one DWORD fewer would not
    (`32 · (words − 1) < i + n`: exactly the DWORDs up to the one holding BOOL `i + n − 1`), and they lie inside a tag
    of `dim` DWORDs whenever the requested BOOLs do. This holds for unaligned ranges crossing any number of DWORD
    boundaries (`flags[31]{2}`: 2 DWORDs; `flags[33]{63}`: 3 DWORDs). -/
theorem bool_array_read_words_suffice (i n dim : Nat) (hn : 1 ≤ n) :
    i + n ≤ 32 * ((i + n + 31) / 32) ∧ 32 * ((i + n + 31) / 32 - 1) < i + n ∧
      (i + n ≤ 32 * dim → (i + n + 31) / 32 ≤ dim) := by
  omega

-- STATEMENT CHANGED: "for any n ≥ 1 the value is the list of n bits, typed BOOL[n]" is false of the model for n = 1:
-- `read("flags[5]{1}")` yields the BOOL itself (`.bool true`, type `BOOL`), not `[True]` / `BOOL[1]` (`#guard` and
-- `example` below). The list form is stated for n ≥ 2 here, the `{1}` form in `read_bool_array_slice_one_e2e`.
/-- C01, driver level, BOOL-array slice: reading `n ≥ 2` BOOLs from BOOL `i` (`i + n ≤ 32 * dim`, ANY `i` — aligned or
    not, the range may cross any number of DWORD boundaries) of a controller-scope BOOL array — a one-dimensional
    DWORD array tag of `dim` words — requested as `name[i]{n}`, on a healthy connected driver:
    * the request built is ONE plain Read Tag addressed at `name[0]` asking for `(i + n + 31) / 32` DWORDs (first
      conjunct), and that many DWORDs cover the BOOLs `[i, i + n)` and exist in the tag (second, third conjunct);
    * the result is one error-free Tag named `name[i]` (without the `{n}` suffix), typed `BOOL[n]`, whose value is the
      list of the `n` BOOLs `i … i + n − 1` of the tag's memory, `ldb_bit s.mem k` = bit `k % 32` of the little-endian
      DWORD `k / 32`;
    * one frame is written, one sequence number drawn, the controller's project is unchanged, the world is healthy.

    Hypotheses as in `read_bool_array_element_e2e` (`hw` … `hinfo`), and `hn`, `hn16` (the BOOL count fits the request
    string's 16-bit count), `hin` (inside the array), `hw16` (the DWORD count fits the request's 16-bit element count;
    a larger one is refused by the parser with "Array index out of range"), `hC`, `hT` (the DWORDs read and the small
    request fit the connection). -/
theorem read_bool_array_slice_e2e (cfg : Cfg) (w : Cli.World Ext) (sess : Nat) (cidb : Bytes) (conn : Conn)
    (st : LState) (s : Symbol) (info : TagInfo) (dim i n : Nat)
    (hw : ldr_Healthy w sess cidb conn) (hlogix : w.net.target.ext.logix = some st)
    (hs : s ∈ st.proj.controller)
    (hbytes : ∀ s' ∈ st.proj.controller, ∀ ch ∈ s'.name, ch < 256)
    (huniqN : ∀ s' ∈ st.proj.controller, s'.name = s.name → s' = s)
    (huniqI : ∀ s' ∈ st.proj.controller, s'.inst = s.inst → s' = s)
    (hid : PlainIdent s.name) (hinst : s.inst < 2 ^ 32)
    (hty : elTyOfWord s.symbolType = .atomic 0xD3)
    (hdims : s.dims.filter (· != 0) = [dim]) (hlen : s.mem.length = dim * 4)
    (hget : cfg.tags.get? s.name = some info)
    (hinfo : ldr_InfoOf info (Drv.nm "DWORD") (.arr (.fixed dim) (.bits .udint)) s.inst)
    (hn : 2 ≤ n) (hn16 : n ≤ 65535) (hin : i + n ≤ 32 * dim) (hw16 : (i + n + 31) / 32 ≤ 65535)
    (hC : (i + n + 31) / 32 * 4 + s.name.length + 26 ≤ w.drv.connectionSize)
    (hT : (i + n + 31) / 32 * 4 + s.name.length + 26 ≤ conn.size) :
    (∃ path, readBuildRequests cfg w.drv
        (parseRequestedTags cfg.tags false [s.name ++ [91] ++ decRender i ++ [93] ++ [123] ++ decRender n ++ [125]]) =
        (w.drv.nextSeq.2, .ok [Request.read { seq := w.drv.nextSeq.1, tag := s.name ++ Drv.nm "[0]",
                                              elements := (i + n + 31) / 32, info := info, rid := 0, path := path }])) ∧
    i + n ≤ 32 * ((i + n + 31) / 32) ∧ (i + n + 31) / 32 ≤ dim ∧
    ∃ w' frm, read hookAll cfg w [s.name ++ [91] ++ decRender i ++ [93] ++ [123] ++ decRender n ++ [125]] =
        (w', .ok [{ tag := s.name ++ [91] ++ decRender i ++ [93],
                    value := .list ((List.range n).map fun k => PyVal.bool (ldb_bit s.mem (i + k))),
                    type := some (Drv.nm "BOOL[" ++ renderDec (n : Int) ++ [93]), error := none }]) ∧
      w'.drv = w.drv.nextSeq.2 ∧ w'.net.sent = w.net.sent ++ [frm] ∧
      w'.net.target.ext = { w.net.target.ext with logix := some { st with ctr := st.ctr + 1 } } ∧
      ldr_Healthy w' sess cidb { conn with lastSeq := some w.drv.nextSeq.1 } := by
  have hi32 : i < 2 ^ 32 := by omega
  refine ⟨?_, by omega, by omega, ?_⟩
  · obtain ⟨path, _, hb⟩ := ldb_read_request cfg w.drv s info dim [i] i (some n) (Or.inl rfl) hid hinst hget hinfo hi32
      hn16 hw16 hC
    rw [ldr2_tagStr_slice, List.map_cons, List.map_nil, ← ldr2_zeroIdx] at hb
    exact ⟨path, hb⟩
  · have h := ldb_read_bools cfg w sess cidb conn st s info dim [i] i (some n) (Or.inl rfl) hw hlogix hs hbytes huniqN
      huniqI hid hinst hty hdims hlen hget hinfo (by simpa using (by omega : 1 ≤ n)) hn16 hin hw16 hC hT
    rw [ldr2_tagStr_slice, ldr2_renderLevel_elem, Option.getD_some, ldb_typeStr_many n hn,
      ldr2_value_many _ (by simp; exact hn)] at h
    exact h

/-- C01, driver level, BOOL-array slice of ONE: `name[i]{1}` behaves like `name[i]` — the result is the BOOL itself
    (not a one-element list), typed `BOOL`; the request asks for `i / 32 + 1` DWORDs from `name[0]`. -/
theorem read_bool_array_slice_one_e2e (cfg : Cfg) (w : Cli.World Ext) (sess : Nat) (cidb : Bytes) (conn : Conn)
    (st : LState) (s : Symbol) (info : TagInfo) (dim i : Nat)
    (hw : ldr_Healthy w sess cidb conn) (hlogix : w.net.target.ext.logix = some st)
    (hs : s ∈ st.proj.controller)
    (hbytes : ∀ s' ∈ st.proj.controller, ∀ ch ∈ s'.name, ch < 256)
    (huniqN : ∀ s' ∈ st.proj.controller, s'.name = s.name → s' = s)
    (huniqI : ∀ s' ∈ st.proj.controller, s'.inst = s.inst → s' = s)
    (hid : PlainIdent s.name) (hinst : s.inst < 2 ^ 32)
    (hty : elTyOfWord s.symbolType = .atomic 0xD3)
    (hdims : s.dims.filter (· != 0) = [dim]) (hlen : s.mem.length = dim * 4)
    (hget : cfg.tags.get? s.name = some info)
    (hinfo : ldr_InfoOf info (Drv.nm "DWORD") (.arr (.fixed dim) (.bits .udint)) s.inst)
    (hi : i < 32 * dim) (hw16 : i / 32 + 1 ≤ 65535)
    (hC : (i / 32 + 1) * 4 + s.name.length + 26 ≤ w.drv.connectionSize)
    (hT : (i / 32 + 1) * 4 + s.name.length + 26 ≤ conn.size) :
    ∃ w' frm, read hookAll cfg w [s.name ++ [91] ++ decRender i ++ [93] ++ [123] ++ decRender 1 ++ [125]] =
        (w', .ok [{ tag := s.name ++ [91] ++ decRender i ++ [93], value := .bool (ldb_bit s.mem i),
                    type := some (Drv.nm "BOOL"), error := none }]) ∧
      w'.drv = w.drv.nextSeq.2 ∧ w'.net.sent = w.net.sent ++ [frm] ∧
      w'.net.target.ext = { w.net.target.ext with logix := some { st with ctr := st.ctr + 1 } } ∧
      ldr_Healthy w' sess cidb { conn with lastSeq := some w.drv.nextSeq.1 } := by
  have hwd : ldb_words i 1 = i / 32 + 1 := by unfold ldb_words; omega
  have h := ldb_read_bools cfg w sess cidb conn st s info dim [i] i (some 1) (Or.inl rfl) hw hlogix hs hbytes huniqN
    huniqI hid hinst hty hdims hlen hget hinfo (by simp) (by simp) (by simpa using (by omega : i + 1 ≤ 32 * dim))
    (by rw [Option.getD_some, hwd]; exact hw16) (by rw [Option.getD_some, hwd]; exact hC)
    (by rw [Option.getD_some, hwd]; exact hT)
  rw [ldr2_tagStr_slice, ldr2_renderLevel_elem, Option.getD_some, ldb_typeStr_one, ldb_range_one] at h
  exact h

-- STATEMENT CHANGED: "read('flags') returns the full bool list" is false of the model (and of the library:
-- `_parse_tag_request` sets elements = 1, bool_elements = None, and `read` takes `result.value[bit or 0]`):
-- `read("flags")` of the BOOL[96] tag below yields `.bool true` typed `BOOL` (`#guard` and `example` below). The whole
-- array is `read("flags{96}")`, see `read_bool_array_count_e2e` / `read_bool_array_all_e2e`.
/-- C01, driver level, BOOL array WITHOUT index and count: `read("name")` of a BOOL array returns its FIRST BOOL only
    (bit 0 of DWORD 0) as a Tag named `name` typed `BOOL` — not the array; one DWORD is read at `name` (first
    conjunct). -/
theorem read_bool_array_whole_e2e (cfg : Cfg) (w : Cli.World Ext) (sess : Nat) (cidb : Bytes) (conn : Conn)
    (st : LState) (s : Symbol) (info : TagInfo) (dim : Nat)
    (hw : ldr_Healthy w sess cidb conn) (hlogix : w.net.target.ext.logix = some st)
    (hs : s ∈ st.proj.controller)
    (hbytes : ∀ s' ∈ st.proj.controller, ∀ ch ∈ s'.name, ch < 256)
    (huniqN : ∀ s' ∈ st.proj.controller, s'.name = s.name → s' = s)
    (huniqI : ∀ s' ∈ st.proj.controller, s'.inst = s.inst → s' = s)
    (hid : PlainIdent s.name) (hinst : s.inst < 2 ^ 32)
    (hty : elTyOfWord s.symbolType = .atomic 0xD3)
    (hdims : s.dims.filter (· != 0) = [dim]) (hlen : s.mem.length = dim * 4)
    (hget : cfg.tags.get? s.name = some info)
    (hinfo : ldr_InfoOf info (Drv.nm "DWORD") (.arr (.fixed dim) (.bits .udint)) s.inst)
    (hdim : 1 ≤ dim)
    (hC : s.name.length + 30 ≤ w.drv.connectionSize) (hT : s.name.length + 30 ≤ conn.size) :
    (∃ path, readBuildRequests cfg w.drv (parseRequestedTags cfg.tags false [s.name]) =
        (w.drv.nextSeq.2, .ok [Request.read { seq := w.drv.nextSeq.1, tag := s.name, elements := 1, info := info,
                                              rid := 0, path := path }])) ∧
    ∃ w' frm, read hookAll cfg w [s.name] =
        (w', .ok [{ tag := s.name, value := .bool (ldb_bit s.mem 0), type := some (Drv.nm "BOOL"), error := none }]) ∧
      w'.drv = w.drv.nextSeq.2 ∧ w'.net.sent = w.net.sent ++ [frm] ∧
      w'.net.target.ext = { w.net.target.ext with logix := some { st with ctr := st.ctr + 1 } } ∧
      ldr_Healthy w' sess cidb { conn with lastSeq := some w.drv.nextSeq.1 } := by
  have hwd : ldb_words 0 1 = 1 := by decide
  refine ⟨?_, ?_⟩
  · obtain ⟨path, _, hb⟩ := ldb_read_request cfg w.drv s info dim [] 0 none (Or.inr ⟨rfl, rfl⟩) hid hinst hget hinfo
      (by decide) (by decide) (by decide) (by rw [Option.getD_none, hwd]; omega)
    rw [ldb_tagStr_plain0, List.map_nil, ldb_renderLevel_nil, Option.getD_none, hwd] at hb
    exact ⟨path, hb⟩
  · have h := ldb_read_bools cfg w sess cidb conn st s info dim [] 0 none (Or.inr ⟨rfl, rfl⟩) hw hlogix hs hbytes huniqN
      huniqI hid hinst hty hdims hlen hget hinfo (by decide) (by decide) (by rw [Option.getD_none]; omega) (by decide)
      (by rw [Option.getD_none, hwd]; omega) (by rw [Option.getD_none, hwd]; omega)
    rw [ldb_tagStr_plain0, ldb_renderLevel_nil, Option.getD_none, ldb_typeStr_one, ldb_range_one] at h
    exact h

/-- C01, driver level, BOOL array with a count but no index: `read("name{n}")` (`2 ≤ n ≤ 32 * dim`) returns the FIRST
    `n` BOOLs — `n` counts BOOLs, not DWORDs — as a Tag named `name` typed `BOOL[n]`; the request asks for
    `(n + 31) / 32` DWORDs at `name` (first conjunct). -/
theorem read_bool_array_count_e2e (cfg : Cfg) (w : Cli.World Ext) (sess : Nat) (cidb : Bytes) (conn : Conn)
    (st : LState) (s : Symbol) (info : TagInfo) (dim n : Nat)
    (hw : ldr_Healthy w sess cidb conn) (hlogix : w.net.target.ext.logix = some st)
    (hs : s ∈ st.proj.controller)
    (hbytes : ∀ s' ∈ st.proj.controller, ∀ ch ∈ s'.name, ch < 256)
    (huniqN : ∀ s' ∈ st.proj.controller, s'.name = s.name → s' = s)
    (huniqI : ∀ s' ∈ st.proj.controller, s'.inst = s.inst → s' = s)
    (hid : PlainIdent s.name) (hinst : s.inst < 2 ^ 32)
    (hty : elTyOfWord s.symbolType = .atomic 0xD3)
    (hdims : s.dims.filter (· != 0) = [dim]) (hlen : s.mem.length = dim * 4)
    (hget : cfg.tags.get? s.name = some info)
    (hinfo : ldr_InfoOf info (Drv.nm "DWORD") (.arr (.fixed dim) (.bits .udint)) s.inst)
    (hn : 2 ≤ n) (hn16 : n ≤ 65535) (hin : n ≤ 32 * dim)
    (hC : (n + 31) / 32 * 4 + s.name.length + 26 ≤ w.drv.connectionSize)
    (hT : (n + 31) / 32 * 4 + s.name.length + 26 ≤ conn.size) :
    (∃ path, readBuildRequests cfg w.drv (parseRequestedTags cfg.tags false [s.name ++ [123] ++ decRender n ++ [125]]) =
        (w.drv.nextSeq.2, .ok [Request.read { seq := w.drv.nextSeq.1, tag := s.name, elements := (n + 31) / 32,
                                              info := info, rid := 0, path := path }])) ∧
    ∃ w' frm, read hookAll cfg w [s.name ++ [123] ++ decRender n ++ [125]] =
        (w', .ok [{ tag := s.name, value := .list ((List.range n).map fun k => PyVal.bool (ldb_bit s.mem k)),
                    type := some (Drv.nm "BOOL[" ++ renderDec (n : Int) ++ [93]), error := none }]) ∧
      w'.drv = w.drv.nextSeq.2 ∧ w'.net.sent = w.net.sent ++ [frm] ∧
      w'.net.target.ext = { w.net.target.ext with logix := some { st with ctr := st.ctr + 1 } } ∧
      ldr_Healthy w' sess cidb { conn with lastSeq := some w.drv.nextSeq.1 } := by
  have hwd : ldb_words 0 n = (n + 31) / 32 := by unfold ldb_words; omega
  refine ⟨?_, ?_⟩
  · obtain ⟨path, _, hb⟩ := ldb_read_request cfg w.drv s info dim [] 0 (some n) (Or.inr ⟨rfl, rfl⟩) hid hinst hget hinfo
      (by decide) hn16 (by rw [Option.getD_some, hwd]; omega) (by rw [Option.getD_some, hwd]; exact hC)
    rw [ldr2_tagStr_slice0, List.map_nil, ldb_renderLevel_nil, Option.getD_some, hwd] at hb
    exact ⟨path, hb⟩
  · have h := ldb_read_bools cfg w sess cidb conn st s info dim [] 0 (some n) (Or.inr ⟨rfl, rfl⟩) hw hlogix hs hbytes huniqN
      huniqI hid hinst hty hdims hlen hget hinfo (by simpa using (by omega : 1 ≤ n)) hn16 (by simpa using hin)
      (by rw [Option.getD_some, hwd]; omega) (by rw [Option.getD_some, hwd]; exact hC)
      (by rw [Option.getD_some, hwd]; exact hT)
    rw [ldr2_tagStr_slice0, ldb_renderLevel_nil, Option.getD_some, ldb_typeStr_many n hn,
      ldr2_value_many _ (by simp; exact hn)] at h
    simp only [Nat.zero_add] at h
    exact h

/-- C01, driver level, the WHOLE BOOL array: `read("name{32·dim}")` returns all `32 * dim` BOOLs of the tag, typed
    `BOOL[32·dim]`, with one Read Tag of `dim` DWORDs. The BOOL count must fit the 16-bit count of the request string
    (`h16`): a BOOL array of more than 65535 BOOLs (2047 DWORDs) cannot be read whole by one request string. -/
theorem read_bool_array_all_e2e (cfg : Cfg) (w : Cli.World Ext) (sess : Nat) (cidb : Bytes) (conn : Conn)
    (st : LState) (s : Symbol) (info : TagInfo) (dim : Nat)
    (hw : ldr_Healthy w sess cidb conn) (hlogix : w.net.target.ext.logix = some st)
    (hs : s ∈ st.proj.controller)
    (hbytes : ∀ s' ∈ st.proj.controller, ∀ ch ∈ s'.name, ch < 256)
    (huniqN : ∀ s' ∈ st.proj.controller, s'.name = s.name → s' = s)
    (huniqI : ∀ s' ∈ st.proj.controller, s'.inst = s.inst → s' = s)
    (hid : PlainIdent s.name) (hinst : s.inst < 2 ^ 32)
    (hty : elTyOfWord s.symbolType = .atomic 0xD3)
    (hdims : s.dims.filter (· != 0) = [dim]) (hlen : s.mem.length = dim * 4)
    (hget : cfg.tags.get? s.name = some info)
    (hinfo : ldr_InfoOf info (Drv.nm "DWORD") (.arr (.fixed dim) (.bits .udint)) s.inst)
    (hdim : 1 ≤ dim) (h16 : 32 * dim ≤ 65535)
    (hC : dim * 4 + s.name.length + 26 ≤ w.drv.connectionSize)
    (hT : dim * 4 + s.name.length + 26 ≤ conn.size) :
    ∃ w' frm, read hookAll cfg w [s.name ++ [123] ++ decRender (32 * dim) ++ [125]] =
        (w', .ok [{ tag := s.name, value := .list ((List.range (32 * dim)).map fun k => PyVal.bool (ldb_bit s.mem k)),
                    type := some (Drv.nm "BOOL[" ++ renderDec ((32 * dim : Nat) : Int) ++ [93]), error := none }]) ∧
      w'.drv = w.drv.nextSeq.2 ∧ w'.net.sent = w.net.sent ++ [frm] ∧
      w'.net.target.ext = { w.net.target.ext with logix := some { st with ctr := st.ctr + 1 } } ∧
      ldr_Healthy w' sess cidb { conn with lastSeq := some w.drv.nextSeq.1 } := by
  have hwd : (32 * dim + 31) / 32 = dim := by omega
  exact (read_bool_array_count_e2e cfg w sess cidb conn st s info dim (32 * dim) hw hlogix hs hbytes huniqN huniqI hid hinst
    hty hdims hlen hget hinfo (by omega) h16 (Nat.le_refl _) (by rw [hwd]; exact hC) (by rw [hwd]; exact hT)).2

/-- C02, driver level, aligned BOOL-array slice: writing `n` BOOLs from BOOL `i` with `i % 32 = 0`, `n % 32 = 0`, `n ≥ 32`
    (`i + n ≤ 32 * dim`) of a controller-scope BOOL array, requested as `name[i]{n}` with a list of exactly `n` bools,
    returns one error-free Tag named `name[i]` carrying the caller's list, typed `BOOL[n]`. ONE plain Write Tag of
    `n / 32` DWORDs at `name[i / 32]` is sent (one frame, one sequence number), and the controller's project afterwards
    is `written st.proj loc (i / 32 * 4) bytes` for the location `loc` of DWORD `i / 32`, where `bytes` — the codec's
    encoding of the bools, which exists — are `n / 32` DWORDs whose DWORD `j` has bit `b` equal to bool `32 * j + b`.
    What that project is, BOOL by BOOL: `write_bool_array_slice_effect`.

    Hypotheses as in `read_bool_array_slice_e2e`, and `hw16`: the parser counts the DWORDs from DWORD 0 up to the last
    addressed one (`(i + n) / 32`, what a read needs) and refuses the request when that exceeds 65535 (see the
    STATEMENT CHANGED note at `write_bool_array_aligned_e2e`); `hC`: the single-request path counts the value twice. -/
theorem write_bool_array_slice_e2e (cfg : Cfg) (w : Cli.World Ext) (sess : Nat) (cidb : Bytes) (conn : Conn)
    (st : LState) (s : Symbol) (info : TagInfo) (dim i n : Nat) (bools : List Bool)
    (hw : ldr_Healthy w sess cidb conn) (hlogix : w.net.target.ext.logix = some st)
    (hs : s ∈ st.proj.controller)
    (hbytes : ∀ s' ∈ st.proj.controller, ∀ ch ∈ s'.name, ch < 256)
    (huniqN : ∀ s' ∈ st.proj.controller, s'.name = s.name → s' = s)
    (huniqI : ∀ s' ∈ st.proj.controller, s'.inst = s.inst → s' = s)
    (hid : PlainIdent s.name) (hinst : s.inst < 2 ^ 32)
    (hty : elTyOfWord s.symbolType = .atomic 0xD3)
    (hdims : s.dims.filter (· != 0) = [dim]) (hlen : s.mem.length = dim * 4)
    (hget : cfg.tags.get? s.name = some info)
    (hinfo : ldr_InfoOf info (Drv.nm "DWORD") (.arr (.fixed dim) (.bits .udint)) s.inst)
    (hi : i % 32 = 0) (hn32 : n % 32 = 0) (hn : 1 ≤ n) (hn16 : n ≤ 65535) (hin : i + n ≤ 32 * dim)
    (hw16 : (i + n) / 32 ≤ 65535) (hl : bools.length = n)
    (hC : 2 * (n / 32 * 4) + s.name.length + 26 ≤ w.drv.connectionSize)
    (hT : n / 32 * 4 + s.name.length + 26 ≤ conn.size) :
    ∃ w' frm bytes, write hookAll cfg w
        [(s.name ++ [91] ++ decRender i ++ [93] ++ [123] ++ decRender n ++ [125], .list (bools.map PyVal.bool))] =
        (w', .ok [{ tag := s.name ++ [91] ++ decRender i ++ [93], value := .list (bools.map PyVal.bool),
                    type := some (Drv.nm "BOOL[" ++ renderDec (n : Int) ++ [93]), error := none }]) ∧
      w'.drv = w.drv.nextSeq.2 ∧ w'.net.sent = w.net.sent ++ [frm] ∧
      w'.net.target.ext =
        { w.net.target.ext with
          logix := some { st with proj := written st.proj (ldr2_locAt s 0xD3 4 (i / 32) dim) (i / 32 * 4) bytes } } ∧
      encode (.arr (.fixed n) (.bits .udint)) (.list (bools.map PyVal.bool)) = .ok bytes ∧
      bytes.length = n / 32 * 4 ∧
      (∀ j b, j < n / 32 → b < 32 → (leVal ((bytes.drop (4 * j)).take 4)).testBit b = bools.getD (32 * j + b) false) ∧
      ldr_Healthy w' sess cidb { conn with lastSeq := some w.drv.nextSeq.1 } := by
  have hk : 32 * (i / 32) = i := by omega
  have hm : 32 * (n / 32) = n := by omega
  obtain ⟨bytes, henc, _⟩ := ldb_encode_bits_length n bools hl
  have h := write_bool_array_aligned_e2e cfg w sess cidb conn st s info dim (i / 32) (n / 32) bools bytes hw hlogix hs hbytes
    huniqN huniqI hid hinst hty hdims hlen hget hinfo (by omega) (by omega) (by omega) (by omega) (by rw [hm]; exact hl)
    (by rw [hm]; exact henc) hC hT
  rw [hk, hm] at h
  obtain ⟨w', frm, h1, h2, h3, h4, h5, h6, h7⟩ := h
  exact ⟨w', frm, bytes, h1, h2, h3, h4, henc, h5, h6, h7⟩

/-- C02, what the project after `write_bool_array_slice_e2e` is, for `bytes` of `n / 32` DWORDs holding the bools
    (`hbl`, `hbits`: the last conjuncts of that theorem): it is `ldw2_proj p s (i / 32 * 4) bytes`, in which
    * templates, program scopes, the number and order of the controller-scope symbols are unchanged; every other
      controller-scope symbol is unchanged byte for byte; the written symbol keeps name, instance id, type word,
      dimensions and the length of its memory;
    * BOOL `k` of the tag (any `k`) is afterwards `bools[k − i]` for `i ≤ k < i + n` and its old value otherwise;
    * exactly the DWORDs `i / 32 … (i + n) / 32 − 1` were replaced: every DWORD `q` outside that range is unchanged;
    * ONE write-log entry `(instance, i / 32 * 4, n / 32 * 4)` was appended: the write was applied exactly once. -/
theorem write_bool_array_slice_effect (p : Project) (s : Symbol) (dim i n : Nat) (bools : List Bool) (bytes : Bytes)
    (huniqI : ∀ s' ∈ p.controller, s'.inst = s.inst → s' = s)
    (hlen : s.mem.length = dim * 4) (hi : i % 32 = 0) (hn32 : n % 32 = 0) (hin : i + n ≤ 32 * dim)
    (hbl : bytes.length = n / 32 * 4)
    (hbits : ∀ j b, j < n / 32 → b < 32 → (leVal ((bytes.drop (4 * j)).take 4)).testBit b = bools.getD (32 * j + b) false) :
    written p (ldr2_locAt s 0xD3 4 (i / 32) dim) (i / 32 * 4) bytes = ldw2_proj p s (i / 32 * 4) bytes ∧
    (ldw2_proj p s (i / 32 * 4) bytes).templates = p.templates ∧
    (ldw2_proj p s (i / 32 * 4) bytes).programs = p.programs ∧
    (ldw2_proj p s (i / 32 * 4) bytes).controller.length = p.controller.length ∧
    (∀ (j : Nat) (x : Symbol), p.controller[j]? = some x →
        (ldw2_proj p s (i / 32 * 4) bytes).controller[j]? =
          some (if x.inst = s.inst then ldw2_sym s (i / 32 * 4) bytes else x) ∧
        (x.inst = s.inst → x = s)) ∧
    ((ldw2_sym s (i / 32 * 4) bytes).inst = s.inst ∧ (ldw2_sym s (i / 32 * 4) bytes).name = s.name ∧
      (ldw2_sym s (i / 32 * 4) bytes).symbolType = s.symbolType ∧ (ldw2_sym s (i / 32 * 4) bytes).dims = s.dims) ∧
    (ldw2_sym s (i / 32 * 4) bytes).mem.length = s.mem.length ∧
    (∀ k, ldb_bit (ldw2_sym s (i / 32 * 4) bytes).mem k =
        if i ≤ k ∧ k < i + n then bools.getD (k - i) false else ldb_bit s.mem k) ∧
    (∀ q, (q < i / 32 ∨ (i + n) / 32 ≤ q) →
        ((ldw2_sym s (i / 32 * 4) bytes).mem.drop (4 * q)).take 4 = (s.mem.drop (4 * q)).take 4) ∧
    (ldw2_proj p s (i / 32 * 4) bytes).writeLog = p.writeLog ++ [(s.inst, i / 32 * 4, n / 32 * 4)] := by
  have hfit : i / 32 * 4 + n / 32 * 4 ≤ s.mem.length := by omega
  obtain ⟨h0, h1, h2, h3, h4, h5, h6, _, _, h9⟩ := write_atomic_elements_effect p s 0xD3 4 dim (i / 32) (n / 32) bytes huniqI
    hlen (by omega) hbl
  refine ⟨h0, h1, h2, h3, h4, h5, h6, ?_, ?_, h9⟩
  · intro k
    have hb := ldb_bit_written s.mem bytes (i / 32) (n / 32) bools hbl hfit hbits k
    have e1 : 32 * (i / 32) = i := by omega
    have e2 : 32 * (n / 32) = n := by omega
    rw [e1, e2] at hb
    exact hb
  · intro q hq
    have hwd := ldb_splice_word s.mem bytes (i / 32) (n / 32) q hbl hfit
    rw [if_neg (by omega)] at hwd
    exact hwd

/-- C02, driver level, unaligned BOOL-array slice: `write(("name[i]{n}", value))` with `i % 32 ≠ 0` and `n ≥ 2` on a
    connected driver is refused before anything is built or sent: the world is unchanged (no frame, no sequence
    number), the result is one FALSY Tag (value None, type None) named like the request INCLUDING the `{n}` suffix,
    whose error is the driver's message for the single-request path,
    "Invalid Tag Request - RequestError('Unable to create a writable value')" — the specific message of
    `encode_value` ("BOOL arrays only support writing full DWORDs, indexes must be multiples of 32") is wrapped away.
    This holds for every value except `bytes` (`hv`: a `bytes` value is passed through `encode_value` unchecked), and
    needs only the tag database (`hget`, `hd`), not the controller. (A call with several tags yields
    "Error encoding value - …" instead, `#guard` below; `n = 1` or no count is a bit write — a read-modify-write
    request that is NOT refused.) -/
theorem write_bool_array_unaligned_refused (cfg : Cfg) (w : Cli.World Ext) (name : Name) (info : TagInfo) (i n : Nat)
    (v : PyVal)
    (hconn : w.drv.targetIsConnected = true) (hid : PlainIdent name)
    (hget : cfg.tags.get? name = some info) (hd : isDword info = true)
    (hi : i % 32 ≠ 0) (hn : 2 ≤ n) (hn16 : n ≤ 65535) (hw16 : (i + n + 31) / 32 ≤ 65535) (hv : ∀ b, v ≠ .bytes b) :
    write hookAll cfg w [(name ++ [91] ++ decRender i ++ [93] ++ [123] ++ decRender n ++ [125], v)] =
      (w, .ok [{ tag := name ++ [91] ++ decRender i ++ [93] ++ [123] ++ decRender n ++ [125], value := .none,
                 type := none,
                 error := some (.text (Drv.nm "Invalid Tag Request - RequestError('Unable to create a writable value')")) }]) ∧
    ({ tag := name ++ [91] ++ decRender i ++ [93] ++ [123] ++ decRender n ++ [125], value := .none, type := none,
       error := some (.text (Drv.nm "Invalid Tag Request - RequestError('Unable to create a writable value')")) } : LTag).truthy
      = false := by
  have h := ldb_write_unaligned cfg w name info i n v hconn hid hget hd hi hn hn16 hw16 hv
  rw [ldr2_tagStr_slice] at h
  exact ⟨h, rfl⟩

/-- C02, the corner `n % 32 ≠ 0` of an ALIGNED BOOL-array write `name[i]{n}` (`i % 32 = 0`, `n ≥ 2`, exactly `n` bools):
    `encode_value` does NOT refuse it. `Array(n, DWORD).encode` compares the number of bools with the number of
    ELEMENTS and then packs `len(values) // 32` DWORDs, so it succeeds for every `n`, silently dropping the trailing
    `n % 32` bools: the Write Tag request that is built declares `(n + 31) / 32` DWORDs (the parsed element count minus
    `i / 32`) but carries only `n / 32` DWORDs of data — for `n < 32` no data at all. What happens then is up to the
    controller; the reference controller answers "Insufficient command data" and changes nothing (`#guard`s below:
    `flags[0]{10}`, `flags[0]{40}`, `flags[32]{40}`), so the call returns a falsy Tag — but only after a malformed request was
    sent. -/
theorem write_bool_array_partial_word_encoding (name : Name) (i n : Nat) (info : TagInfo) (dim : Nat) (bools : List Bool)
    (hi : i % 32 = 0) (hn : 2 ≤ n) (hdn : info.core.dataTypeName = Drv.nm "DWORD")
    (hty : info.core.ty = .arr (.fixed dim) (.bits .udint)) (hl : bools.length = n) :
    ∃ bytes, encodeValue (ldb_parsedWrite name i n info (.list (bools.map PyVal.bool))) info =
        ({ ldb_parsedWrite name i n info (.list (bools.map PyVal.bool)) with
           elements := (((n + 31) / 32 : Nat) : Int) }, some bytes) ∧
      bytes.length = n / 32 * 4 ∧ (n % 32 ≠ 0 → bytes.length < (n + 31) / 32 * 4) :=  by
  obtain ⟨bytes, h1, h2⟩ := ldb_encodeValue_partial name i n info dim bools hi hn hdn hty hl
  exact ⟨bytes, h1, h2, by intro h; omega⟩

/-- C02, driver level, the same corner end to end: `write(("name[i]{n}", bools))` with `i % 32 = 0`, `n ≥ 2`, `n % 32 ≠ 0`,
    exactly `n` bools, inside the array, on a healthy connected driver in front of the reference controller: the driver
    does NOT refuse the request; it draws a sequence number and sends ONE frame (the Write Tag of
    `write_bool_array_partial_word_encoding`: `(n + 31) / 32` DWORDs declared, `n / 32` carried); the controller
    answers status 0x13 and its whole state is unchanged (no BOOL written, nothing logged); the result is one FALSY
    Tag named `name[i]` that nevertheless carries the caller's list and the type string `BOOL[n]`, with the error
    "Insufficient command data". No BOOL of the request is written — not even the `32 · (n / 32)` leading ones. -/
theorem write_bool_array_partial_word_e2e (cfg : Cfg) (w : Cli.World Ext) (sess : Nat) (cidb : Bytes) (conn : Conn)
    (st : LState) (s : Symbol) (info : TagInfo) (dim i n : Nat) (bools : List Bool)
    (hw : ldr_Healthy w sess cidb conn) (hlogix : w.net.target.ext.logix = some st)
    (hs : s ∈ st.proj.controller)
    (hbytes : ∀ s' ∈ st.proj.controller, ∀ ch ∈ s'.name, ch < 256)
    (huniqN : ∀ s' ∈ st.proj.controller, s'.name = s.name → s' = s)
    (huniqI : ∀ s' ∈ st.proj.controller, s'.inst = s.inst → s' = s)
    (hid : PlainIdent s.name) (hinst : s.inst < 2 ^ 32)
    (hty : elTyOfWord s.symbolType = .atomic 0xD3)
    (hdims : s.dims.filter (· != 0) = [dim]) (hlen : s.mem.length = dim * 4)
    (hget : cfg.tags.get? s.name = some info)
    (hinfo : ldr_InfoOf info (Drv.nm "DWORD") (.arr (.fixed dim) (.bits .udint)) s.inst)
    (hi : i % 32 = 0) (hn : 2 ≤ n) (hn32 : n % 32 ≠ 0) (hn16 : n ≤ 65535) (hin : i + n ≤ 32 * dim)
    (hw16 : (i + n + 31) / 32 ≤ 65535) (hl : bools.length = n)
    (hC : 2 * (n / 32 * 4) + s.name.length + 26 ≤ w.drv.connectionSize)
    (hT : n / 32 * 4 + s.name.length + 26 ≤ conn.size) :
    ∃ w' frm, write hookAll cfg w
        [(s.name ++ [91] ++ decRender i ++ [93] ++ [123] ++ decRender n ++ [125], .list (bools.map PyVal.bool))] =
        (w', .ok [{ tag := s.name ++ [91] ++ decRender i ++ [93], value := .list (bools.map PyVal.bool),
                    type := some (Drv.nm "BOOL[" ++ renderDec (n : Int) ++ [93]),
                    error := some (.reply (.text (Drv.nm "Insufficient command data"))) }]) ∧
      ({ tag := s.name ++ [91] ++ decRender i ++ [93], value := .list (bools.map PyVal.bool),
         type := some (Drv.nm "BOOL[" ++ renderDec (n : Int) ++ [93]),
         error := some (.reply (.text (Drv.nm "Insufficient command data"))) } : LTag).truthy = false ∧
      w'.drv = w.drv.nextSeq.2 ∧ w'.net.sent = w.net.sent ++ [frm] ∧
      w'.net.target.ext = w.net.target.ext ∧
      ldr_Healthy w' sess cidb { conn with lastSeq := some w.drv.nextSeq.1 } := by
  obtain ⟨w', frm, h1, h2, h3, h4, h5⟩ := ldb_write_partial cfg w sess cidb conn st s info dim i n bools hw hlogix hs hbytes
    huniqN huniqI hid hinst hty hdims hlen hget hinfo hi hn hn32 hn16 hin hw16 hl hC hT
  rw [ldr2_tagStr_slice, ldr2_renderLevel_elem] at h1
  exact ⟨w', frm, h1, rfl, h2, h3, h4, h5⟩

/-- C02 + C01, driver level, read-back of an aligned BOOL-array slice: `write(("name[i]{n}", bools))` (`i % 32 = 0`,
    `n % 32 = 0`, `n ≥ 32`, exactly `n` bools) followed by `read("name[i]{n}")` returns the written bools, typed
    `BOOL[n]`. Two frames are written; the controller's project after both calls is the one after the write (its
    schedule counter advanced by the read). Hypotheses as in `write_bool_array_slice_e2e`; the READ addresses the array
    from DWORD 0, so the connection must hold `(i + n) / 32` DWORDs (`hC`, `hT`), not only the `n / 32` written ones. -/
theorem write_then_read_bool_array_e2e (cfg : Cfg) (w : Cli.World Ext) (sess : Nat) (cidb : Bytes) (conn : Conn)
    (st : LState) (s : Symbol) (info : TagInfo) (dim i n : Nat) (bools : List Bool)
    (hw : ldr_Healthy w sess cidb conn) (hlogix : w.net.target.ext.logix = some st)
    (hs : s ∈ st.proj.controller)
    (hbytes : ∀ s' ∈ st.proj.controller, ∀ ch ∈ s'.name, ch < 256)
    (huniqN : ∀ s' ∈ st.proj.controller, s'.name = s.name → s' = s)
    (huniqI : ∀ s' ∈ st.proj.controller, s'.inst = s.inst → s' = s)
    (hid : PlainIdent s.name) (hinst : s.inst < 2 ^ 32)
    (hty : elTyOfWord s.symbolType = .atomic 0xD3)
    (hdims : s.dims.filter (· != 0) = [dim]) (hlen : s.mem.length = dim * 4)
    (hget : cfg.tags.get? s.name = some info)
    (hinfo : ldr_InfoOf info (Drv.nm "DWORD") (.arr (.fixed dim) (.bits .udint)) s.inst)
    (hi : i % 32 = 0) (hn32 : n % 32 = 0) (hn : 1 ≤ n) (hn16 : n ≤ 65535) (hin : i + n ≤ 32 * dim)
    (hw16 : (i + n) / 32 ≤ 65535) (hl : bools.length = n)
    (hC : 2 * (n / 32 * 4) + s.name.length + 26 ≤ w.drv.connectionSize)
    (hCr : (i + n) / 32 * 4 + s.name.length + 26 ≤ w.drv.connectionSize)
    (hT : (i + n) / 32 * 4 + s.name.length + 26 ≤ conn.size) :
    ∃ w1 w2 frm1 frm2 bytes,
      write hookAll cfg w
        [(s.name ++ [91] ++ decRender i ++ [93] ++ [123] ++ decRender n ++ [125], .list (bools.map PyVal.bool))] =
        (w1, .ok [{ tag := s.name ++ [91] ++ decRender i ++ [93], value := .list (bools.map PyVal.bool),
                    type := some (Drv.nm "BOOL[" ++ renderDec (n : Int) ++ [93]), error := none }]) ∧
      read hookAll cfg w1 [s.name ++ [91] ++ decRender i ++ [93] ++ [123] ++ decRender n ++ [125]] =
        (w2, .ok [{ tag := s.name ++ [91] ++ decRender i ++ [93], value := .list (bools.map PyVal.bool),
                    type := some (Drv.nm "BOOL[" ++ renderDec (n : Int) ++ [93]), error := none }]) ∧
      w2.net.sent = w.net.sent ++ [frm1, frm2] ∧
      w2.net.target.ext =
        { w.net.target.ext with
          logix := some { st with proj := ldw2_proj st.proj s (i / 32 * 4) bytes, ctr := st.ctr + 1 } } ∧
      ldr_Healthy w2 sess cidb { conn with lastSeq := some w.drv.nextSeq.2.nextSeq.1 } := by
  have hn2 : 32 ≤ n := by omega
  have hsum : (i + n) / 32 = i / 32 + n / 32 := by omega
  obtain ⟨w1, frm1, bytes, hwr, hd1, hsent1, hext1, _, hbl, hbits, hh1⟩ := write_bool_array_slice_e2e cfg w sess cidb conn st s
    info dim i n bools hw hlogix hs hbytes huniqN huniqI hid hinst hty hdims hlen hget hinfo hi hn32 hn hn16 hin hw16 hl hC
    (by omega)
  rw [ldw2_written_eq st.proj s (ldr2_locAt s 0xD3 4 (i / 32) dim) (i / 32 * 4) bytes rfl rfl] at hext1
  have hlogix1 : w1.net.target.ext.logix = some { st with proj := ldw2_proj st.proj s (i / 32 * 4) bytes } := by rw [hext1]
  have hcs : w1.drv.connectionSize = w.drv.connectionSize := by rw [hd1, (Cli.lcs_nextSeq w.drv).2]
  have hfit : i / 32 * 4 + bytes.length ≤ s.mem.length := by omega
  have hwd : (i + n + 31) / 32 = (i + n) / 32 := by omega
  obtain ⟨_, _, _, w2, frm2, hrd, hd2, hsent2, hext2, hh2⟩ := read_bool_array_slice_e2e cfg w1 sess cidb
    { conn with lastSeq := some w.drv.nextSeq.1 } { st with proj := ldw2_proj st.proj s (i / 32 * 4) bytes }
    (ldw2_sym s (i / 32 * 4) bytes) info dim i n hh1 hlogix1
    (ldw2_mem_ctl st.proj.controller s (i / 32 * 4) bytes hs)
    (ldw2_ctl_bytes st.proj.controller s.inst (i / 32 * 4) bytes hbytes)
    (ldw2_ctl_uniqN st.proj.controller s (i / 32 * 4) bytes huniqN)
    (ldw2_ctl_uniqI st.proj.controller s (i / 32 * 4) bytes huniqI) hid hinst hty hdims
    (by rw [← hlen]; exact (splice_frame s.mem bytes (i / 32 * 4) hfit).1) hget hinfo (by omega) hn16 hin
    (by rw [hwd]; exact hw16) (by rw [hwd, hcs]; exact hCr) (by rw [hwd]; exact hT)
  have hval : ((List.range n).map fun k => PyVal.bool (ldb_bit (ldw2_sym s (i / 32 * 4) bytes).mem (i + k))) =
      bools.map PyVal.bool :=
    ldb_window_written s.mem bytes i n bools hi hn32 hl hbl (by omega) hbits
  rw [hval] at hrd
  refine ⟨w1, w2, frm1, frm2, bytes, hwr, hrd, ?_, ?_, ?_⟩
  · rw [hsent2, hsent1, List.append_assoc]; rfl
  · rw [hext2, hext1]
  · rw [hd1] at hh2; exact hh2

/-! ### non-vacuity: all hypotheses instantiated on a concrete project (`abc : DINT`, `flags : BOOL[96]`) and a world
    obtained by running the model (`open()`, Forward Open) -/

namespace ExBool
open Ex

/-- `flags : BOOL[96]` (three DWORDs): 0xDEADBEEF, 0x12345678, 0x80000001 -/
def symFlags : Symbol :=
  { inst := 21, name := Drv.nm "flags", symbolType := 0x20D3, dims := [3, 0, 0], attr3 := 0, attr5 := 0, attr6 := 2 ^ 26,
    access := 0, mem := [0xEF, 0xBE, 0xAD, 0xDE, 0x78, 0x56, 0x34, 0x12, 0x01, 0, 0, 0x80] }
def projB : Project := { templates := [], controller := [sym, symFlags], programs := [] }
def stateB : LState := { proj := projB }
def worldB0 : Cli.World Ext := { drv := {}, net := { target := { base := base, ext := { logix := some stateB } } } }
/-- after `open()` and the Forward Open: the model is run -/
def worldB : Cli.World Ext :=
  (Cli.ensureForwardOpen hookAll Cli.FUEL (Cli.openDrv hookAll worldB0 [1, 2, 3, 4, 5, 6, 7, 8]).1).1
/-- the driver configuration after the tag upload -/
def cfgB : Cfg := { tags := (tagDbOf projB false).getD [] }
def infoFlags : TagInfo :=
  .mk { tagType := .atomic, dataTypeName := Drv.nm "DWORD", ty := .arr (.fixed 3) (.bits .udint), dim := 1,
        dimensions := [3, 0, 0], instanceId := some 21 } .nil

/-- the bools of a list value -/
def boolsOf : PyVal → Option (List Bool)
  | .list xs => xs.mapM fun x => match x with | .bool b => some b | _ => none
  | _ => none

/-- "0110…" → bools -/
def bs (str : String) : List Bool := str.toList.map (· == '1')

/-- one Tag, error-free, with this name and type, whose value is this list of bools -/
def okBools (r : Except Exn (List LTag)) (tag ty : String) (expect : List Bool) : Bool :=
  match r with
  | .ok [t] => t.tag == Drv.nm tag && t.type == some (Drv.nm ty) && t.error.isNone && boolsOf t.value == some expect
  | _ => false

/-- the specification side: BOOLs `[i, i + n)` of the memory -/
def window (i n : Nat) : List Bool := (List.range n).map fun k => ldb_bit symFlags.mem (i + k)

def errText (r : Except Exn (List LTag)) : Option (Name × Bool × String) :=
  match r with
  | .ok [t] => some (t.tag, t.truthy, match t.error with
      | some (.text e) => "text:" ++ String.ofList (e.map Char.ofNat)
      | some (.reply (.text e)) => "reply:" ++ String.ofList (e.map Char.ofNat)
      | some _ => "other" | none => "-")
  | _ => none

-- evaluation checks of the run (interpreter): the model run against the specification (`window`) and against literals
#guard worldB.drv.targetIsConnected && worldB.drv.session == some 4097 && worldB.drv.targetCid == some [238, 255, 192, 0]
#guard worldB.net.target.base.sessions == [4097] && worldB.net.target.base.conns == [conn]
#guard okBools (read hookAll cfgB worldB [Drv.nm "flags[31]{2}"]).2 "flags[31]" "BOOL[2]" (window 31 2)
#guard okBools (read hookAll cfgB worldB [Drv.nm "flags[31]{2}"]).2 "flags[31]" "BOOL[2]" (bs "10")
#guard okBools (read hookAll cfgB worldB [Drv.nm "flags[10]{30}"]).2 "flags[10]" "BOOL[30]" (window 10 30)
#guard okBools (read hookAll cfgB worldB [Drv.nm "flags[10]{30}"]).2 "flags[10]" "BOOL[30]" (bs "111101101101010111101100011110")
#guard okBools (read hookAll cfgB worldB [Drv.nm "flags[33]{63}"]).2 "flags[33]" "BOOL[63]" (window 33 63)
#guard okBools (read hookAll cfgB worldB [Drv.nm "flags[33]{63}"]).2 "flags[33]" "BOOL[63]"
  (bs "001111001101010001011000100100010000000000000000000000000000001")
#guard okBools (read hookAll cfgB worldB [Drv.nm "flags[1]{64}"]).2 "flags[1]" "BOOL[64]" (window 1 64)
#guard okBools (read hookAll cfgB worldB [Drv.nm "flags{96}"]).2 "flags" "BOOL[96]" (window 0 96)
#guard okBools (read hookAll cfgB worldB [Drv.nm "flags{3}"]).2 "flags" "BOOL[3]" (bs "111")
-- `flags[33]{64}` asks for BOOLs 33 … 96 of a 96-BOOL array: 4 DWORDs are requested from a 3-DWORD tag, the controller
-- refuses (hypothesis `hin` of `read_bool_array_slice_e2e` excludes it); so does `flags[96]`
#guard errText (read hookAll cfgB worldB [Drv.nm "flags[33]{64}"]).2 ==
  some (Drv.nm "flags[33]", false, "reply:General Error (see extended status) - Access beyond end of the object  (ff, 2105)")
#guard errText (read hookAll cfgB worldB [Drv.nm "flags[96]"]).2 ==
  some (Drv.nm "flags[96]", false, "reply:General Error (see extended status) - Access beyond end of the object  (ff, 2105)")
-- the `{1}` and no-count forms yield ONE BOOL, typed `BOOL` (STATEMENT CHANGED notes above)
#guard ok1 (read hookAll cfgB worldB [Drv.nm "flags[5]{1}"]).2 "flags[5]" "BOOL" (fun v => match v with | .bool true => true | _ => false)
#guard ok1 (read hookAll cfgB worldB [Drv.nm "flags[4]{1}"]).2 "flags[4]" "BOOL" (fun v => match v with | .bool false => true | _ => false)
#guard ok1 (read hookAll cfgB worldB [Drv.nm "flags"]).2 "flags" "BOOL" (fun v => match v with | .bool true => true | _ => false)
#guard ok1 (read hookAll cfgB worldB [Drv.nm "flags{1}"]).2 "flags" "BOOL" (fun v => match v with | .bool true => true | _ => false)
#guard ok1 (read hookAll cfgB worldB [Drv.nm "flags[95]"]).2 "flags[95]" "BOOL" (fun v => match v with | .bool true => true | _ => false)
-- the index bound of the parser: 65536 DWORDs would be needed
#guard errText (read hookAll cfgB worldB [Drv.nm "flags[2097120]"]).2 ==
  some (Drv.nm "flags[2097120]", false, "text:Array index out of range: 2097120")

/-- tags and outcome of a `write` call on `worldB`: per Tag (name, type, truthy, error), then the memory of `flags`, the
    write log, frames written and sequence numbers drawn -/
def wout (tvs : List (Name × PyVal)) :
    Option (List (Name × Option Name × Bool × String) × Bytes × List (Nat × Nat × Nat) × Nat × Nat) :=
  match write hookAll cfgB worldB tvs with
  | (w', .ok ts) =>
      w'.net.target.ext.logix.map fun (st' : LState) =>
        (ts.map fun t => (t.tag, t.type, t.truthy, ((errText (.ok [t])).map (·.2.2)).getD ""),
         ((st'.proj.controller.map (fun (y : Symbol) => y.mem)).getD 1 []), st'.proj.writeLog,
         w'.net.sent.length - worldB.net.sent.length, w'.drv.seqVal - worldB.drv.seqVal)
  | _ => none

/-- the pattern True, False, False, True, … -/
def pat (n : Nat) : List Bool := (List.range n).map fun k => k % 3 == 0
def patV (n : Nat) : PyVal := .list ((pat n).map PyVal.bool)

#guard wout [(Drv.nm "flags[32]{64}", patV 64)] ==
  some ([(Drv.nm "flags[32]", some (Drv.nm "BOOL[64]"), true, "-")],
        [0xEF, 0xBE, 0xAD, 0xDE, 73, 146, 36, 73, 146, 36, 73, 146], [(21, 4, 8)], 1, 1)
#guard wout [(Drv.nm "flags[0]{32}", patV 32)] ==
  some ([(Drv.nm "flags[0]", some (Drv.nm "BOOL[32]"), true, "-")],
        [73, 146, 36, 73, 0x78, 0x56, 0x34, 0x12, 0x01, 0, 0, 0x80], [(21, 0, 4)], 1, 1)
-- an index that is no multiple of 32: refused locally, nothing sent, nothing drawn
#guard wout [(Drv.nm "flags[31]{32}", patV 32)] ==
  some ([(Drv.nm "flags[31]{32}", none, false, "text:Invalid Tag Request - RequestError('Unable to create a writable value')")],
        symFlags.mem, [], 0, 0)
-- … in a call with several tags the message differs, the other write goes through
#guard wout [(Drv.nm "flags[31]{32}", patV 32), (Drv.nm "abc", .int 1)] ==
  some ([(Drv.nm "flags[31]{32}", none, false, "text:Error encoding value - RequestError('Unable to create a writable value')"),
         (Drv.nm "abc", some (Drv.nm "DINT"), true, "-")],
        symFlags.mem, [(7, 0, 4)], 1, 2)
-- … but ONE BOOL at an unaligned index is a read-modify-write request and goes through (bit 1 of DWORD 1: 0x78 → 0x7A)
#guard wout [(Drv.nm "flags[33]", .bool true)] ==
  some ([(Drv.nm "flags[33]", some (Drv.nm "BOOL"), true, "-")],
        [0xEF, 0xBE, 0xAD, 0xDE, 0x7A, 0x56, 0x34, 0x12, 0x01, 0, 0, 0x80], [(21, 4, 4)], 1, 1)
-- a count that is no multiple of 32 (aligned index): NOT refused locally; a Write Tag declaring ⌈n/32⌉ DWORDs with
-- ⌊n/32⌋ DWORDs of data is sent (one frame, one sequence number), the reference controller answers "Insufficient
-- command data" and changes nothing; the Tag carries the caller's value and `BOOL[n]` but is falsy
#guard wout [(Drv.nm "flags[0]{10}", patV 10)] ==
  some ([(Drv.nm "flags[0]", some (Drv.nm "BOOL[10]"), false, "reply:Insufficient command data")], symFlags.mem, [], 1, 1)
#guard wout [(Drv.nm "flags[0]{40}", patV 40)] ==
  some ([(Drv.nm "flags[0]", some (Drv.nm "BOOL[40]"), false, "reply:Insufficient command data")], symFlags.mem, [], 1, 1)
#guard wout [(Drv.nm "flags[32]{40}", patV 40)] ==
  some ([(Drv.nm "flags[32]", some (Drv.nm "BOOL[40]"), false, "reply:Insufficient command data")], symFlags.mem, [], 1, 1)
-- the bytes `encode_value` produces in that corner: none for 10 bools, one DWORD for 40 bools
#guard (encodeValue (ldb_parsedWrite (Drv.nm "flags") 0 10 infoFlags (patV 10)) infoFlags).2 == some []
#guard (encodeValue (ldb_parsedWrite (Drv.nm "flags") 0 40 infoFlags (patV 40)) infoFlags).2 == some [73, 146, 36, 73]
#guard (encodeValue (ldb_parsedWrite (Drv.nm "flags") 0 40 infoFlags (patV 40)) infoFlags).1.elements == 2
-- observation: a list LONGER than the count is cut to the count; a shorter one is refused locally
#guard wout [(Drv.nm "flags[0]{32}", patV 40)] ==
  some ([(Drv.nm "flags[0]", some (Drv.nm "BOOL[32]"), true, "-")],
        [73, 146, 36, 73, 0x78, 0x56, 0x34, 0x12, 0x01, 0, 0, 0x80], [(21, 0, 4)], 1, 1)
#guard wout [(Drv.nm "flags[0]{32}", patV 31)] ==
  some ([(Drv.nm "flags[0]{32}", none, false, "text:Invalid Tag Request - RequestError('Unable to create a writable value')")],
        symFlags.mem, [], 0, 0)
-- observation (not a theorem): the un-indexed forms on the write side: `flags{96}` writes the whole array, `flags{32}` the
-- first DWORD; `flags` with a 32-bool list writes the first DWORD too, typed `DWORD`
#guard wout [(Drv.nm "flags{96}", patV 96)] ==
  some ([(Drv.nm "flags", some (Drv.nm "BOOL[96]"), true, "-")],
        [73, 146, 36, 73, 146, 36, 73, 146, 36, 73, 146, 36], [(21, 0, 12)], 1, 1)
#guard wout [(Drv.nm "flags", patV 32)] ==
  some ([(Drv.nm "flags", some (Drv.nm "DWORD"), true, "-")],
        [73, 146, 36, 73, 0x78, 0x56, 0x34, 0x12, 0x01, 0, 0, 0x80], [(21, 0, 4)], 1, 1)
-- read-back by running the model
#guard okBools (read hookAll cfgB (write hookAll cfgB worldB [(Drv.nm "flags[32]{64}", patV 64)]).1 [Drv.nm "flags[32]{64}"]).2
  "flags[32]" "BOOL[64]" (pat 64)

private theorem healthyB : ldr_Healthy worldB 4097 [238, 255, 192, 0] conn :=
  ⟨by decide +kernel, by decide +kernel, by decide +kernel, by decide +kernel, by decide +kernel, by decide,
   by decide +kernel, by decide +kernel, by decide, by decide +kernel, by decide +kernel, by decide +kernel⟩

private theorem mem_ctlB (s' : Symbol) (h : s' ∈ projB.controller) : s' = sym ∨ s' = symFlags := by
  simpa [projB] using h

private theorem bytesB (s' : Symbol) (h : s' ∈ stateB.proj.controller) : ∀ ch ∈ s'.name, ch < 256 := by
  rcases mem_ctlB s' h with rfl | rfl <;> decide

private theorem uniqNB (s' : Symbol) (h : s' ∈ stateB.proj.controller) (e : s'.name = symFlags.name) : s' = symFlags := by
  rcases mem_ctlB s' h with rfl | rfl
  · exfalso; revert e; decide
  · rfl

private theorem uniqIB (s' : Symbol) (h : s' ∈ stateB.proj.controller) (e : s'.inst = symFlags.inst) : s' = symFlags := by
  rcases mem_ctlB s' h with rfl | rfl
  · exfalso; revert e; decide
  · rfl

private theorem hsFlags : symFlags ∈ stateB.proj.controller := by simp [stateB, projB]

private theorem windowVal (i n : Nat) (expect : List Bool) (h : window i n = expect) :
    ((List.range n).map fun k => PyVal.bool (ldb_bit symFlags.mem (i + k))) = expect.map PyVal.bool := by
  rw [← h, window, List.map_map]; rfl

/-- `bool_array_read_words_suffice` on `flags[31]{2}`: 2 DWORDs -/
example : 31 + 2 ≤ 32 * 2 ∧ 32 * (2 - 1) < 31 + 2 ∧ (31 + 2 ≤ 32 * 3 → 2 ≤ 3) :=
  bool_array_read_words_suffice 31 2 3 (by decide)

/-- every hypothesis of `read_bool_array_slice_e2e` holds for the concrete world: `read("flags[31]{2}")` (unaligned,
    crossing the first DWORD boundary) asks for 2 DWORDs at `flags[0]` and returns [True, False] as `BOOL[2]` -/
example : (∃ path, readBuildRequests cfgB worldB.drv (parseRequestedTags cfgB.tags false [Drv.nm "flags[31]{2}"]) =
        (worldB.drv.nextSeq.2, .ok [Request.read { seq := worldB.drv.nextSeq.1, tag := Drv.nm "flags[0]", elements := 2,
                                                   info := infoFlags, rid := 0, path := path }])) ∧
    ∃ w' frm, read hookAll cfgB worldB [Drv.nm "flags[31]{2}"] =
      (w', .ok [{ tag := Drv.nm "flags[31]", value := .list [.bool true, .bool false], type := some (Drv.nm "BOOL[2]"),
                  error := none }]) ∧
    w'.drv = worldB.drv.nextSeq.2 ∧ w'.net.sent = worldB.net.sent ++ [frm] ∧
    w'.net.target.ext = { worldB.net.target.ext with logix := some { stateB with ctr := stateB.ctr + 1 } } ∧
    ldr_Healthy w' 4097 [238, 255, 192, 0] { conn with lastSeq := some worldB.drv.nextSeq.1 } := by
  have h := read_bool_array_slice_e2e cfgB worldB 4097 [238, 255, 192, 0] conn stateB symFlags infoFlags 3 31 2
      healthyB (by rfl) hsFlags bytesB uniqNB uniqIB
      ⟨by decide, by decide, by decide⟩ (by decide)
      (by decide) (by decide) (by decide)                        -- hty hdims hlen
      (by rfl) ⟨rfl, rfl, rfl, rfl, rfl⟩                         -- hget hinfo
      (by decide) (by decide) (by decide) (by decide)            -- hn hn16 hin hw16
      (by decide +kernel) (by decide)                            -- hC hT
  rw [show symFlags.name ++ [91] ++ decRender 31 ++ [93] ++ [123] ++ decRender 2 ++ [125] = Drv.nm "flags[31]{2}" from by
    rw [ldr2_decRender_two 31 (by omega) (by omega), ldr2_decRender_small 2 (by omega)]; rfl] at h
  rw [show symFlags.name ++ [91] ++ decRender 31 ++ [93] = Drv.nm "flags[31]" from by
    rw [ldr2_decRender_two 31 (by omega) (by omega)]; rfl] at h
  rw [windowVal 31 2 [true, false] (by decide)] at h
  rw [show Drv.nm "BOOL[" ++ renderDec ((2 : Nat) : Int) ++ [93] = Drv.nm "BOOL[2]" from by decide] at h
  exact ⟨h.1, h.2.2.2⟩

/-- … `read("flags[10]{30}")`: unaligned, ends inside DWORD 1, 2 DWORDs requested -/
example : ∃ w' frm, read hookAll cfgB worldB [Drv.nm "flags[10]{30}"] =
      (w', .ok [{ tag := Drv.nm "flags[10]", value := .list ((bs "111101101101010111101100011110").map PyVal.bool),
                  type := some (Drv.nm "BOOL[30]"), error := none }]) ∧
    w'.drv = worldB.drv.nextSeq.2 ∧ w'.net.sent = worldB.net.sent ++ [frm] ∧
    w'.net.target.ext = { worldB.net.target.ext with logix := some { stateB with ctr := stateB.ctr + 1 } } ∧
    ldr_Healthy w' 4097 [238, 255, 192, 0] { conn with lastSeq := some worldB.drv.nextSeq.1 } := by
  have h := read_bool_array_slice_e2e cfgB worldB 4097 [238, 255, 192, 0] conn stateB symFlags infoFlags 3 10 30
      healthyB (by rfl) hsFlags bytesB uniqNB uniqIB
      ⟨by decide, by decide, by decide⟩ (by decide)
      (by decide) (by decide) (by decide) (by rfl) ⟨rfl, rfl, rfl, rfl, rfl⟩
      (by decide) (by decide) (by decide) (by decide) (by decide +kernel) (by decide)
  rw [show symFlags.name ++ [91] ++ decRender 10 ++ [93] ++ [123] ++ decRender 30 ++ [125] = Drv.nm "flags[10]{30}" from by
    rw [ldr2_decRender_two 10 (by omega) (by omega), ldr2_decRender_two 30 (by omega) (by omega)]; rfl] at h
  rw [show symFlags.name ++ [91] ++ decRender 10 ++ [93] = Drv.nm "flags[10]" from by
    rw [ldr2_decRender_two 10 (by omega) (by omega)]; rfl] at h
  rw [windowVal 10 30 (bs "111101101101010111101100011110") (by decide +kernel)] at h
  rw [show Drv.nm "BOOL[" ++ renderDec ((30 : Nat) : Int) ++ [93] = Drv.nm "BOOL[30]" from by decide] at h
  exact h.2.2.2

/-- … `read("flags[33]{63}")`: unaligned, crosses the DWORD boundary at 64 and ends with the last BOOL of the array;
    3 DWORDs are requested -/
example : (∃ path, readBuildRequests cfgB worldB.drv (parseRequestedTags cfgB.tags false [Drv.nm "flags[33]{63}"]) =
        (worldB.drv.nextSeq.2, .ok [Request.read { seq := worldB.drv.nextSeq.1, tag := Drv.nm "flags[0]", elements := 3,
                                                   info := infoFlags, rid := 0, path := path }])) ∧
    ∃ w' frm, read hookAll cfgB worldB [Drv.nm "flags[33]{63}"] =
      (w', .ok [{ tag := Drv.nm "flags[33]",
                  value := .list ((bs "001111001101010001011000100100010000000000000000000000000000001").map PyVal.bool),
                  type := some (Drv.nm "BOOL[63]"), error := none }]) ∧
    w'.drv = worldB.drv.nextSeq.2 ∧ w'.net.sent = worldB.net.sent ++ [frm] ∧
    w'.net.target.ext = { worldB.net.target.ext with logix := some { stateB with ctr := stateB.ctr + 1 } } ∧
    ldr_Healthy w' 4097 [238, 255, 192, 0] { conn with lastSeq := some worldB.drv.nextSeq.1 } := by
  have h := read_bool_array_slice_e2e cfgB worldB 4097 [238, 255, 192, 0] conn stateB symFlags infoFlags 3 33 63
      healthyB (by rfl) hsFlags bytesB uniqNB uniqIB
      ⟨by decide, by decide, by decide⟩ (by decide)
      (by decide) (by decide) (by decide) (by rfl) ⟨rfl, rfl, rfl, rfl, rfl⟩
      (by decide) (by decide) (by decide) (by decide) (by decide +kernel) (by decide)
  rw [show symFlags.name ++ [91] ++ decRender 33 ++ [93] ++ [123] ++ decRender 63 ++ [125] = Drv.nm "flags[33]{63}" from by
    rw [ldr2_decRender_two 33 (by omega) (by omega), ldr2_decRender_two 63 (by omega) (by omega)]; rfl] at h
  rw [show symFlags.name ++ [91] ++ decRender 33 ++ [93] = Drv.nm "flags[33]" from by
    rw [ldr2_decRender_two 33 (by omega) (by omega)]; rfl] at h
  rw [windowVal 33 63 (bs "001111001101010001011000100100010000000000000000000000000000001") (by decide +kernel)] at h
  rw [show Drv.nm "BOOL[" ++ renderDec ((63 : Nat) : Int) ++ [93] = Drv.nm "BOOL[63]" from by decide] at h
  exact ⟨h.1, h.2.2.2⟩

/-- … of `read_bool_array_slice_one_e2e`: `read("flags[5]{1}")` returns the BOOL itself (bit 5 of 0xDEADBEEF: True) -/
example : ∃ w' frm, read hookAll cfgB worldB [Drv.nm "flags[5]{1}"] =
      (w', .ok [{ tag := Drv.nm "flags[5]", value := .bool true, type := some (Drv.nm "BOOL"), error := none }]) ∧
    w'.drv = worldB.drv.nextSeq.2 ∧ w'.net.sent = worldB.net.sent ++ [frm] ∧
    w'.net.target.ext = { worldB.net.target.ext with logix := some { stateB with ctr := stateB.ctr + 1 } } ∧
    ldr_Healthy w' 4097 [238, 255, 192, 0] { conn with lastSeq := some worldB.drv.nextSeq.1 } := by
  have h := read_bool_array_slice_one_e2e cfgB worldB 4097 [238, 255, 192, 0] conn stateB symFlags infoFlags 3 5
      healthyB (by rfl) hsFlags bytesB uniqNB uniqIB
      ⟨by decide, by decide, by decide⟩ (by decide)
      (by decide) (by decide) (by decide) (by rfl) ⟨rfl, rfl, rfl, rfl, rfl⟩
      (by decide) (by decide) (by decide +kernel) (by decide)
  rw [show symFlags.name ++ [91] ++ decRender 5 ++ [93] ++ [123] ++ decRender 1 ++ [125] = Drv.nm "flags[5]{1}" from by
    rw [ldr2_decRender_small 5 (by omega), ldr2_decRender_small 1 (by omega)]; rfl] at h
  rw [show symFlags.name ++ [91] ++ decRender 5 ++ [93] = Drv.nm "flags[5]" from by
    rw [ldr2_decRender_small 5 (by omega)]; rfl] at h
  rw [show ldb_bit symFlags.mem 5 = true from by decide] at h
  exact h

/-- … of `read_bool_array_whole_e2e`: `read("flags")` reads ONE DWORD and returns BOOL 0 only -/
example : (∃ path, readBuildRequests cfgB worldB.drv (parseRequestedTags cfgB.tags false [Drv.nm "flags"]) =
        (worldB.drv.nextSeq.2, .ok [Request.read { seq := worldB.drv.nextSeq.1, tag := Drv.nm "flags", elements := 1,
                                                   info := infoFlags, rid := 0, path := path }])) ∧
    ∃ w' frm, read hookAll cfgB worldB [Drv.nm "flags"] =
      (w', .ok [{ tag := Drv.nm "flags", value := .bool true, type := some (Drv.nm "BOOL"), error := none }]) ∧
    w'.drv = worldB.drv.nextSeq.2 ∧ w'.net.sent = worldB.net.sent ++ [frm] ∧
    w'.net.target.ext = { worldB.net.target.ext with logix := some { stateB with ctr := stateB.ctr + 1 } } ∧
    ldr_Healthy w' 4097 [238, 255, 192, 0] { conn with lastSeq := some worldB.drv.nextSeq.1 } := by
  have h := read_bool_array_whole_e2e cfgB worldB 4097 [238, 255, 192, 0] conn stateB symFlags infoFlags 3
      healthyB (by rfl) hsFlags bytesB uniqNB uniqIB
      ⟨by decide, by decide, by decide⟩ (by decide)
      (by decide) (by decide) (by decide) (by rfl) ⟨rfl, rfl, rfl, rfl, rfl⟩
      (by decide) (by decide +kernel) (by decide)
  rw [show symFlags.name = Drv.nm "flags" from rfl] at h
  rw [show ldb_bit symFlags.mem 0 = true from by decide] at h
  exact h

/-- … of `read_bool_array_count_e2e`: `read("flags{3}")` returns the first 3 BOOLs (not 3 DWORDs) -/
example : ∃ w' frm, read hookAll cfgB worldB [Drv.nm "flags{3}"] =
      (w', .ok [{ tag := Drv.nm "flags", value := .list [.bool true, .bool true, .bool true],
                  type := some (Drv.nm "BOOL[3]"), error := none }]) ∧
    w'.drv = worldB.drv.nextSeq.2 ∧ w'.net.sent = worldB.net.sent ++ [frm] ∧
    w'.net.target.ext = { worldB.net.target.ext with logix := some { stateB with ctr := stateB.ctr + 1 } } ∧
    ldr_Healthy w' 4097 [238, 255, 192, 0] { conn with lastSeq := some worldB.drv.nextSeq.1 } := by
  have h := (read_bool_array_count_e2e cfgB worldB 4097 [238, 255, 192, 0] conn stateB symFlags infoFlags 3 3
      healthyB (by rfl) hsFlags bytesB uniqNB uniqIB
      ⟨by decide, by decide, by decide⟩ (by decide)
      (by decide) (by decide) (by decide) (by rfl) ⟨rfl, rfl, rfl, rfl, rfl⟩
      (by decide) (by decide) (by decide) (by decide +kernel) (by decide)).2
  rw [show symFlags.name ++ [123] ++ decRender 3 ++ [125] = Drv.nm "flags{3}" from by
    rw [ldr2_decRender_small 3 (by omega)]; rfl] at h
  rw [show symFlags.name = Drv.nm "flags" from rfl] at h
  have hv := windowVal 0 3 [true, true, true] (by decide)
  simp only [Nat.zero_add] at hv
  rw [hv] at h
  rw [show Drv.nm "BOOL[" ++ renderDec ((3 : Nat) : Int) ++ [93] = Drv.nm "BOOL[3]" from by decide] at h
  exact h

/-- … of `read_bool_array_all_e2e`: `read("flags{96}")` returns all 96 BOOLs -/
example : ∃ w' frm, read hookAll cfgB worldB [Drv.nm "flags{96}"] =
      (w', .ok [{ tag := Drv.nm "flags", value := .list ((window 0 96).map PyVal.bool),
                  type := some (Drv.nm "BOOL[96]"), error := none }]) ∧
    w'.drv = worldB.drv.nextSeq.2 ∧ w'.net.sent = worldB.net.sent ++ [frm] ∧
    w'.net.target.ext = { worldB.net.target.ext with logix := some { stateB with ctr := stateB.ctr + 1 } } ∧
    ldr_Healthy w' 4097 [238, 255, 192, 0] { conn with lastSeq := some worldB.drv.nextSeq.1 } := by
  have h := read_bool_array_all_e2e cfgB worldB 4097 [238, 255, 192, 0] conn stateB symFlags infoFlags 3
      healthyB (by rfl) hsFlags bytesB uniqNB uniqIB
      ⟨by decide, by decide, by decide⟩ (by decide)
      (by decide) (by decide) (by decide) (by rfl) ⟨rfl, rfl, rfl, rfl, rfl⟩
      (by decide) (by decide) (by decide +kernel) (by decide)
  rw [show symFlags.name ++ [123] ++ decRender (32 * 3) ++ [125] = Drv.nm "flags{96}" from by
    rw [ldr2_decRender_two (32 * 3) (by omega) (by omega)]; rfl] at h
  rw [show symFlags.name = Drv.nm "flags" from rfl] at h
  have hv := windowVal 0 96 (window 0 96) rfl
  simp only [Nat.zero_add] at hv
  rw [show (32 * 3 : Nat) = 96 from rfl, hv] at h
  rw [show Drv.nm "BOOL[" ++ renderDec ((96 : Nat) : Int) ++ [93] = Drv.nm "BOOL[96]" from by decide] at h
  exact h

private theorem enc64 : encode (.arr (.fixed 64) (.bits .udint)) (.list ((pat 64).map PyVal.bool)) =
    .ok [73, 146, 36, 73, 146, 36, 73, 146] := by rfl

/-- … of `write_bool_array_slice_e2e`: `write(("flags[32]{64}", pattern))` writes DWORDs 1 and 2 with ONE Write Tag of two
    DWORDs at `flags[1]` -/
example : ∃ w' frm, write hookAll cfgB worldB [(Drv.nm "flags[32]{64}", patV 64)] =
      (w', .ok [{ tag := Drv.nm "flags[32]", value := patV 64, type := some (Drv.nm "BOOL[64]"), error := none }]) ∧
    w'.drv = worldB.drv.nextSeq.2 ∧ w'.net.sent = worldB.net.sent ++ [frm] ∧
    w'.net.target.ext =
      { worldB.net.target.ext with
        logix := some { stateB with
          proj := written stateB.proj (ldr2_locAt symFlags 0xD3 4 1 3) 4 [73, 146, 36, 73, 146, 36, 73, 146] } } ∧
    ldr_Healthy w' 4097 [238, 255, 192, 0] { conn with lastSeq := some worldB.drv.nextSeq.1 } := by
  obtain ⟨w', frm, bytes, h1, h2, h3, h4, henc, _, _, h8⟩ := write_bool_array_slice_e2e cfgB worldB 4097 [238, 255, 192, 0] conn
      stateB symFlags infoFlags 3 32 64 (pat 64)
      healthyB (by rfl) hsFlags bytesB uniqNB uniqIB
      ⟨by decide, by decide, by decide⟩ (by decide)
      (by decide) (by decide) (by decide) (by rfl) ⟨rfl, rfl, rfl, rfl, rfl⟩
      (by decide) (by decide) (by decide) (by decide) (by decide) (by decide) (by decide)   -- hi hn32 hn hn16 hin hw16 hl
      (by decide +kernel) (by decide)
  have hb : bytes = [73, 146, 36, 73, 146, 36, 73, 146] := by
    rw [enc64] at henc
    exact (Except.ok.inj henc).symm
  subst hb
  rw [show symFlags.name ++ [91] ++ decRender 32 ++ [93] ++ [123] ++ decRender 64 ++ [125] = Drv.nm "flags[32]{64}" from by
    rw [ldr2_decRender_two 32 (by omega) (by omega), ldr2_decRender_two 64 (by omega) (by omega)]; rfl] at h1
  rw [show symFlags.name ++ [91] ++ decRender 32 ++ [93] = Drv.nm "flags[32]" from by
    rw [ldr2_decRender_two 32 (by omega) (by omega)]; rfl] at h1
  rw [show Drv.nm "BOOL[" ++ renderDec ((64 : Nat) : Int) ++ [93] = Drv.nm "BOOL[64]" from by decide] at h1
  exact ⟨w', frm, h1, h2, h3, h4, h8⟩

/-- the memory afterwards: only the bytes 4..11 of `flags` (DWORDs 1 and 2) changed, one write logged -/
example : written stateB.proj (ldr2_locAt symFlags 0xD3 4 1 3) 4 [73, 146, 36, 73, 146, 36, 73, 146] =
    { projB with
      controller := [sym, { symFlags with mem := [0xEF, 0xBE, 0xAD, 0xDE, 73, 146, 36, 73, 146, 36, 73, 146] }],
      writeLog := [(21, 4, 8)] } := rfl

/-- … of `write_bool_array_slice_effect`: BOOL by BOOL -/
example : ∀ k, ldb_bit (ldw2_sym symFlags (32 / 32 * 4) [73, 146, 36, 73, 146, 36, 73, 146]).mem k =
    if 32 ≤ k ∧ k < 32 + 64 then (pat 64).getD (k - 32) false else ldb_bit symFlags.mem k :=
  (write_bool_array_slice_effect projB symFlags 3 32 64 (pat 64) [73, 146, 36, 73, 146, 36, 73, 146]
    (fun s' h e => uniqIB s' h e) (by decide) (by decide) (by decide) (by decide) (by decide)
    (by
      intro j b hj hb
      have hj' : j = 0 ∨ j = 1 := by omega
      rcases hj' with rfl | rfl <;> (revert b; decide))).2.2.2.2.2.2.2.1

/-- … of `write_bool_array_unaligned_refused`: `write(("flags[31]{32}", pattern))` is refused, the world is unchanged -/
example : write hookAll cfgB worldB [(Drv.nm "flags[31]{32}", patV 32)] =
    (worldB, .ok [{ tag := Drv.nm "flags[31]{32}", value := .none, type := none,
                    error := some (.text (Drv.nm "Invalid Tag Request - RequestError('Unable to create a writable value')")) }]) := by
  have h := (write_bool_array_unaligned_refused cfgB worldB (Drv.nm "flags") infoFlags 31 32 (patV 32)
    healthyB.connected ⟨by decide, by decide, by decide⟩ (by rfl) (by rfl) (by decide) (by decide) (by decide) (by decide)
    (by intro b hb; cases hb)).1
  rw [show Drv.nm "flags" ++ [91] ++ decRender 31 ++ [93] ++ [123] ++ decRender 32 ++ [125] = Drv.nm "flags[31]{32}" from by
    rw [ldr2_decRender_two 31 (by omega) (by omega), ldr2_decRender_two 32 (by omega) (by omega)]; rfl] at h
  exact h

/-- … of `write_bool_array_partial_word_encoding`: `flags[0]{10}` with 10 bools: one DWORD declared, no data -/
example : ∃ bytes, encodeValue (ldb_parsedWrite (Drv.nm "flags") 0 10 infoFlags (patV 10)) infoFlags =
      ({ ldb_parsedWrite (Drv.nm "flags") 0 10 infoFlags (patV 10) with elements := 1 }, some bytes) ∧
    bytes.length = 0 := by
  obtain ⟨bytes, h1, h2, _⟩ := write_bool_array_partial_word_encoding (Drv.nm "flags") 0 10 infoFlags 3 (pat 10) (by decide)
    (by decide) rfl rfl (by decide)
  exact ⟨bytes, h1, h2⟩

/-- … of `write_bool_array_partial_word_e2e`: `write(("flags[0]{40}", 40 bools))` sends one frame and comes back falsy
    with "Insufficient command data"; the controller is untouched -/
example : ∃ w' frm, write hookAll cfgB worldB [(Drv.nm "flags[0]{40}", patV 40)] =
      (w', .ok [{ tag := Drv.nm "flags[0]", value := patV 40, type := some (Drv.nm "BOOL[40]"),
                  error := some (.reply (.text (Drv.nm "Insufficient command data"))) }]) ∧
    w'.drv = worldB.drv.nextSeq.2 ∧ w'.net.sent = worldB.net.sent ++ [frm] ∧
    w'.net.target.ext = worldB.net.target.ext ∧
    ldr_Healthy w' 4097 [238, 255, 192, 0] { conn with lastSeq := some worldB.drv.nextSeq.1 } := by
  obtain ⟨w', frm, h1, _, h2, h3, h4, h5⟩ := write_bool_array_partial_word_e2e cfgB worldB 4097 [238, 255, 192, 0] conn
      stateB symFlags infoFlags 3 0 40 (pat 40)
      healthyB (by rfl) hsFlags bytesB uniqNB uniqIB
      ⟨by decide, by decide, by decide⟩ (by decide)
      (by decide) (by decide) (by decide) (by rfl) ⟨rfl, rfl, rfl, rfl, rfl⟩
      (by decide) (by decide) (by decide) (by decide) (by decide) (by decide) (by decide)
      (by decide +kernel) (by decide)
  rw [show symFlags.name ++ [91] ++ decRender 0 ++ [93] ++ [123] ++ decRender 40 ++ [125] = Drv.nm "flags[0]{40}" from by
    rw [ldr2_decRender_small 0 (by omega), ldr2_decRender_two 40 (by omega) (by omega)]; rfl] at h1
  rw [show symFlags.name ++ [91] ++ decRender 0 ++ [93] = Drv.nm "flags[0]" from by
    rw [ldr2_decRender_small 0 (by omega)]; rfl] at h1
  rw [show Drv.nm "BOOL[" ++ renderDec ((40 : Nat) : Int) ++ [93] = Drv.nm "BOOL[40]" from by decide] at h1
  exact ⟨w', frm, h1, h2, h3, h4, h5⟩

/-- … of `write_then_read_bool_array_e2e`: `write(("flags[32]{64}", pattern))`, then `read("flags[32]{64}")` returns the
    pattern -/
example : ∃ w1 w2 frm1 frm2,
    write hookAll cfgB worldB [(Drv.nm "flags[32]{64}", patV 64)] =
      (w1, .ok [{ tag := Drv.nm "flags[32]", value := patV 64, type := some (Drv.nm "BOOL[64]"), error := none }]) ∧
    read hookAll cfgB w1 [Drv.nm "flags[32]{64}"] =
      (w2, .ok [{ tag := Drv.nm "flags[32]", value := patV 64, type := some (Drv.nm "BOOL[64]"), error := none }]) ∧
    w2.net.sent = worldB.net.sent ++ [frm1, frm2] ∧
    ldr_Healthy w2 4097 [238, 255, 192, 0] { conn with lastSeq := some worldB.drv.nextSeq.2.nextSeq.1 } := by
  obtain ⟨w1, w2, frm1, frm2, _, h1, h2, h3, _, h5⟩ := write_then_read_bool_array_e2e cfgB worldB 4097 [238, 255, 192, 0] conn
      stateB symFlags infoFlags 3 32 64 (pat 64)
      healthyB (by rfl) hsFlags bytesB uniqNB uniqIB
      ⟨by decide, by decide, by decide⟩ (by decide)
      (by decide) (by decide) (by decide) (by rfl) ⟨rfl, rfl, rfl, rfl, rfl⟩
      (by decide) (by decide) (by decide) (by decide) (by decide) (by decide) (by decide)
      (by decide +kernel) (by decide +kernel) (by decide)
  rw [show symFlags.name ++ [91] ++ decRender 32 ++ [93] ++ [123] ++ decRender 64 ++ [125] = Drv.nm "flags[32]{64}" from by
    rw [ldr2_decRender_two 32 (by omega) (by omega), ldr2_decRender_two 64 (by omega) (by omega)]; rfl] at h1 h2
  rw [show symFlags.name ++ [91] ++ decRender 32 ++ [93] = Drv.nm "flags[32]" from by
    rw [ldr2_decRender_two 32 (by omega) (by omega)]; rfl] at h1 h2
  rw [show Drv.nm "BOOL[" ++ renderDec ((64 : Nat) : Int) ++ [93] = Drv.nm "BOOL[64]" from by decide] at h1 h2
  exact ⟨w1, w2, frm1, frm2, h1, h2, h3, h5⟩

end ExBool

end Pycomm.Lgx.Drv
