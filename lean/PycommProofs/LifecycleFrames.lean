/-
  C11 at DRIVER level: every message the driver writes to the socket — in EVERY history of public calls, under every
  fault plan and every target policy — is exactly one well-formed encapsulation frame that carries a session handle
  and (for SendUnitData) a connection id the TARGET granted before.

  EncapProofs.lean proves C11 for the request builder (`Encap.buildRequest` with arbitrary driver attributes).  Here
  the builder theorems are lifted to the driver running against the reference target: whatever `sendReq` appends to
  `net.sent` is a frame built from the driver's attributes of that moment, and an invariant of driver ‖ target
  (LCFr1.lean: `lcfr_Inv`) ties those attributes to what the target granted, as recorded in its event log.
  The invariant is preserved by open / close / generic_message (LCFr2.lean), by the connected requests of
  `LogixDriver.read` / `write`, `SLCDriver.read` / `write` and by the uploads (LCFr3.lean) — for ALL generic_message
  arguments: unlike the C10 theorems no `AvoidsCM` hypothesis is needed (a Forward Open / Forward Close the
  application sends by hand through generic_message changes what the target holds, not the well-formedness of what
  the driver writes).
-/
import PycommProofs.LCFr3
import PycommProofs.LCFr4
import PycommProofs.LifecycleProofs
import PycommProofs.LifecycleLogix
import PycommProofs.LifecycleUpload
import PycommProofs.LifecycleSlc
namespace Pycomm.Cli
open Pycomm.Tgt Pycomm.Encap Pycomm.Path

/-- a fresh world satisfies the invariant; the connection-id counter of the target starts where it stands -/
theorem lcfr_fresh {σ} (w : World σ) (hf : Fresh w) : lcfr_I w.net.target.base.nextCid w := by
  obtain ⟨f1, f2, f3, f4, f5, f6, f7, f8, f9, g1, g2, g3, g4, g5, f10, f11, f12, f13, f14, f15, f16, f17, f18⟩ := hf
  refine ⟨⟨f8, f9, ⟨?_, f17⟩, ?_, ?_, ?_, ?_⟩, fun _ => f13⟩
  · rw [f12]
    show _ = (_ + 0 * 0x10001) % 2 ^ 32
    rw [Nat.zero_mul, Nat.add_zero, Nat.mod_eq_of_lt f18]
  · intro s h h0
    rw [f2] at h
    exact absurd (Option.some.inj h).symm h0
  · intro c h
    rw [f5] at h
    cases h
  · intro h
    rw [f4] at h
    cases h
  · rw [f14]
    exact .nil _

/-! ### the invariant along histories of the four call alphabets -/

theorem lcfr_call {σ} (hook : ObjHook σ) (hh : HookOk hook) (cid0 : Nat) (w : World σ) (c : Call)
    (hi : lcfr_I cid0 w) : lcfr_I cid0 (call hook w c).1 := by
  cases c with
  | «open» rnd =>
    have := lcfr_openDrv hook hh cid0 w rnd hi.1 hi.2
    simp only [call]
    generalize openDrv hook w rnd = r at this ⊢
    obtain ⟨w', o⟩ := r
    cases o <;> exact this
  | close =>
    have := lcfr_closeDrv hook hh cid0 w hi.1 hi.2
    simp only [call]
    generalize closeDrv hook w = r at this ⊢
    obtain ⟨w', o⟩ := r
    cases o <;> exact this
  | generic a =>
    have := lcfr_cli_generic hook hh cid0 FUEL w a hi.1 hi.2
    simp only [call]
    generalize genericMessage hook FUEL w a = r at this ⊢
    obtain ⟨w', o⟩ := r
    cases o <;> exact this

theorem lcfr_run {σ} (hook : ObjHook σ) (hh : HookOk hook) (cid0 : Nat) (calls : List Call) :
    ∀ w : World σ, lcfr_I cid0 w → lcfr_I cid0 (run hook w calls) := by
  induction calls with
  | nil => intro w hi; exact hi
  | cons c cs ih => intro w hi; exact ih _ (lcfr_call hook hh cid0 w c hi)

theorem lcfr_lcall {σ} (hook : ObjHook σ) (hh : HookOk hook) (cid0 : Nat) (w : World σ) (c : LCall)
    (hi : lcfr_I cid0 w) : lcfr_I cid0 (lcallStep hook w c).1 := by
  cases c with
  | «open» rnd => exact lcfr_call hook hh cid0 w (.open rnd) hi
  | close => exact lcfr_call hook hh cid0 w .close hi
  | generic a => exact lcfr_call hook hh cid0 w (.generic a) hi
  | read cfg tags =>
    have := lcfr_read hook hh cid0 cfg w tags hi
    simp only [lcallStep]
    generalize Lgx.Drv.read hook cfg w tags = r at this ⊢
    obtain ⟨w', o⟩ := r
    cases o <;> exact this
  | write cfg tvs =>
    have := lcfr_write hook hh cid0 cfg w tvs hi
    simp only [lcallStep]
    generalize Lgx.Drv.write hook cfg w tvs = r at this ⊢
    obtain ⟨w', o⟩ := r
    cases o <;> exact this

theorem lcfr_lrun {σ} (hook : ObjHook σ) (hh : HookOk hook) (cid0 : Nat) (calls : List LCall) :
    ∀ w : World σ, lcfr_I cid0 w → lcfr_I cid0 (lrun hook w calls) := by
  induction calls with
  | nil => intro w hi; exact hi
  | cons c cs ih => intro w hi; exact ih _ (lcfr_lcall hook hh cid0 w c hi)

theorem lcfr_ucall {σ} (hook : ObjHook σ) (hh : HookOk hook) (cid0 : Nat) (s : World σ × Lgx.Opn.LDrv) (c : UCall)
    (hi : lcfr_I cid0 s.1) : lcfr_I cid0 (ucallStep hook s c).1.1 := by
  cases c with
  | base d => exact lcfr_lcall hook hh cid0 s.1 d hi
  | logixOpen cfg rnd =>
    rw [ucallStep_open_world]
    exact Lgx.Opn.lcu_openLogixSt_closed (lcfr_closed hook hh cid0) cfg s.1 s.2 rnd trivial hi
  | getTagList ap =>
    rw [ucallStep_gtl_world]
    exact Lgx.Opn.lcu_getTagList_closed (lcfr_closed hook hh cid0) s.1 s.2 ap hi

theorem lcfr_urun {σ} (hook : ObjHook σ) (hh : HookOk hook) (cid0 : Nat) (calls : List UCall) :
    ∀ s : World σ × Lgx.Opn.LDrv, lcfr_I cid0 s.1 → lcfr_I cid0 (urun hook s calls).1 := by
  induction calls with
  | nil => intro s hi; exact hi
  | cons c cs ih => intro s hi; exact ih _ (lcfr_ucall hook hh cid0 s c hi)

theorem lcfr_scall {σ} (hook : ObjHook σ) (hh : HookOk hook) (cid0 : Nat) (w : World σ) (c : SCall)
    (hi : lcfr_I cid0 w) : lcfr_I cid0 (scallStep hook w c).1 := by
  cases c with
  | «open» rnd => exact lcfr_call hook hh cid0 w (.open rnd) hi
  | close => exact lcfr_call hook hh cid0 w .close hi
  | generic a => exact lcfr_call hook hh cid0 w (.generic a) hi
  | slcRead ts =>
    have := lcfr_slcRead hook hh cid0 w ts hi
    simp only [scallStep]
    generalize Slc.Drv.slcRead hook w ts = r at this ⊢
    obtain ⟨w', o⟩ := r
    cases o <;> exact this
  | slcWrite avs =>
    have := lcfr_slcWrite hook hh cid0 w avs hi
    simp only [scallStep]
    generalize Slc.Drv.slcWrite hook w avs = r at this ⊢
    obtain ⟨w', o⟩ := r
    cases o <;> exact this

theorem lcfr_srun {σ} (hook : ObjHook σ) (hh : HookOk hook) (cid0 : Nat) (calls : List SCall) :
    ∀ w : World σ, lcfr_I cid0 w → lcfr_I cid0 (srun hook w calls) := by
  induction calls with
  | nil => intro w hi; exact hi
  | cons c cs ih => intro w hi; exact ih _ (lcfr_scall hook hh cid0 w c hi)

/-! ### the healthy invariant (LCFr4.lean) along histories -/

theorem lcfr_H_fresh {σ} (w : World σ) (hf : Fresh w) (hfault : w.net.faults = []) :
    lcfr_H w.net.target.base.nextCid w.net.target.base.policy w := by
  have hi := lcfr_fresh w hf
  have hn := lci_fresh_net w hf
  rw [hfault] at hn
  obtain ⟨f1, f2, f3, f4, f5, f6, f7, f8, f9, g1, g2, g3, g4, g5, f10, f11, f12, f13, f14, f15, f16, f17, f18⟩ := hf
  refine ⟨hi, hn, by rw [f3, f1], ?_, fun _ => f2, ?_⟩
  · intro h
    rw [f1] at h
    cases h
  · intro f hm
    rw [f14] at hm
    cases hm

theorem lcfr_H_lcall {σ} (hook : ObjHook σ) (hh : HookOk hook) (cid0 : Nat) (P : Policy) (hP : P.sessionOk = true)
    (w : World σ) (c : LCall) (h : lcfr_H cid0 P w) : lcfr_H cid0 P (lcallStep hook w c).1 := by
  obtain ⟨k1, k2, k3, k4, k5, _, _⟩ := lcfr_H_call hook hh cid0 P hP w h
  cases c with
  | «open» rnd =>
    have := k1 rnd
    simp only [lcallStep]
    generalize openDrv hook w rnd = r at this ⊢
    obtain ⟨w', o⟩ := r
    cases o <;> exact this
  | close =>
    simp only [lcallStep]
    generalize closeDrv hook w = r at k2 ⊢
    obtain ⟨w', o⟩ := r
    cases o <;> exact k2
  | generic a =>
    have := k3 a
    simp only [lcallStep]
    generalize genericMessage hook FUEL w a = r at this ⊢
    obtain ⟨w', o⟩ := r
    cases o <;> exact this
  | read cfg tags =>
    have := k4 cfg tags
    simp only [lcallStep]
    generalize Lgx.Drv.read hook cfg w tags = r at this ⊢
    obtain ⟨w', o⟩ := r
    cases o <;> exact this
  | write cfg tvs =>
    have := k5 cfg tvs
    simp only [lcallStep]
    generalize Lgx.Drv.write hook cfg w tvs = r at this ⊢
    obtain ⟨w', o⟩ := r
    cases o <;> exact this

theorem lcfr_H_ucall {σ} (hook : ObjHook σ) (hh : HookOk hook) (cid0 : Nat) (P : Policy) (hP : P.sessionOk = true)
    (s : World σ × Lgx.Opn.LDrv) (c : UCall) (h : lcfr_H cid0 P s.1) : lcfr_H cid0 P (ucallStep hook s c).1.1 := by
  cases c with
  | base d => exact lcfr_H_lcall hook hh cid0 P hP s.1 d h
  | logixOpen cfg rnd =>
    rw [ucallStep_open_world]
    exact Lgx.Opn.lcu_openLogixSt_closed (lcfr_H_closed hook hh cid0 P hP) cfg s.1 s.2 rnd trivial h
  | getTagList ap =>
    rw [ucallStep_gtl_world]
    exact Lgx.Opn.lcu_getTagList_closed (lcfr_H_closed hook hh cid0 P hP) s.1 s.2 ap h

theorem lcfr_H_urun {σ} (hook : ObjHook σ) (hh : HookOk hook) (cid0 : Nat) (P : Policy) (hP : P.sessionOk = true)
    (calls : List UCall) :
    ∀ s : World σ × Lgx.Opn.LDrv, lcfr_H cid0 P s.1 → lcfr_H cid0 P (urun hook s calls).1 := by
  induction calls with
  | nil => intro s hi; exact hi
  | cons c cs ih => intro s hi; exact ih _ (lcfr_H_ucall hook hh cid0 P hP s c hi)

theorem lcfr_H_scall {σ} (hook : ObjHook σ) (hh : HookOk hook) (cid0 : Nat) (P : Policy) (hP : P.sessionOk = true)
    (w : World σ) (c : SCall) (h : lcfr_H cid0 P w) : lcfr_H cid0 P (scallStep hook w c).1 := by
  obtain ⟨k1, k2, k3, _, _, k6, k7⟩ := lcfr_H_call hook hh cid0 P hP w h
  cases c with
  | «open» rnd =>
    have := k1 rnd
    simp only [scallStep]
    generalize openDrv hook w rnd = r at this ⊢
    obtain ⟨w', o⟩ := r
    cases o <;> exact this
  | close =>
    simp only [scallStep]
    generalize closeDrv hook w = r at k2 ⊢
    obtain ⟨w', o⟩ := r
    cases o <;> exact k2
  | generic a =>
    have := k3 a
    simp only [scallStep]
    generalize genericMessage hook FUEL w a = r at this ⊢
    obtain ⟨w', o⟩ := r
    cases o <;> exact this
  | slcRead ts =>
    have := k6 ts
    simp only [scallStep]
    generalize Slc.Drv.slcRead hook w ts = r at this ⊢
    obtain ⟨w', o⟩ := r
    cases o <;> exact this
  | slcWrite avs =>
    have := k7 avs
    simp only [scallStep]
    generalize Slc.Drv.slcWrite hook w avs = r at this ⊢
    obtain ⟨w', o⟩ := r
    cases o <;> exact this

theorem lcfr_H_srun {σ} (hook : ObjHook σ) (hh : HookOk hook) (cid0 : Nat) (P : Policy) (hP : P.sessionOk = true)
    (calls : List SCall) : ∀ w : World σ, lcfr_H cid0 P w → lcfr_H cid0 P (srun hook w calls) := by
  induction calls with
  | nil => intro w hi; exact hi
  | cons c cs ih => intro w hi; exact ih _ (lcfr_H_scall hook hh cid0 P hP w c hi)

-- PROPERTY THEOREMS

/-- the session handles the target granted, read from its event log: the handles of the successful RegisterSession
    records (`Event.encap CMD_REGISTER s true` is what `Tgt.handle` logs exactly when it hands out `s`).
    Caveat of reading the log: `HookOk` lets an object hook add events of its own to the log (anything but Forward Open
    records and the two "early unit data" violations), so a hook COULD forge such a record; the hook of the full
    target, `hookAll`, does not touch the base log at all (`hookAll_base`). -/
def grantedSessions (log : List Event) : List Nat :=
  log.filterMap fun e => match e with
    | .encap c s true => if c = CMD_REGISTER then some s else none
    | _ => none

/-- the connection ids the target granted, read from its event log: the target takes the O→T connection id of a
    successful Forward Open from a counter that starts at `cid0` (its `nextCid` in the fresh world) and advances by
    0x10001 (mod 2^32) with every grant, so the `k`-th successful Forward Open record (`Event.fo _ _ true`) stands for
    the id `(cid0 + k * 0x10001) % 2^32` in the Forward Open reply -/
def grantedCids (cid0 : Nat) (log : List Event) : List Nat :=
  (List.range (log.countP fun e => match e with | .fo _ _ true => true | _ => false)).map
    fun k => (cid0 + k * 0x10001) % 2 ^ 32

/-- a byte string written to the socket is one well-formed encapsulation frame, given the session handles and
    connection ids the target has granted:
    * the strict parser accepts it (`parseFrame`: 24-byte header whose length field equals the number of bytes that
      follow), status 0, options 0 (the configured value: `Fresh` says `drv.option = 0`);
    * a non-zero session handle is one the target granted;
    * the command is one of the five operation codes, with the body of that operation: RegisterSession (handle 0,
      protocol version 1 / no option flags), ListIdentity (no body), UnRegisterSession (non-zero handle, no body),
      SendRRData (the strict common-packet parser `parseCpf` yields null address + unconnected data),
      SendUnitData (non-zero handle; `parseCpf` yields a connection address holding a connection id the target
      granted + connected data beginning with the sequence count).
    Session handle 0 is thus possible for RegisterSession, ListIdentity and SendRRData only (for SendRRData see
    `session_zero_only_before_registration`). -/
def FrameOk (sessionsGranted : List Nat) (cids : List Nat) (f : Bytes) : Prop :=
  ∃ fr, parseFrame f = some fr ∧ fr.status = 0 ∧ fr.options = 0 ∧
    (fr.session ≠ 0 → fr.session ∈ sessionsGranted) ∧
    ((fr.command = CMD_REGISTER ∧ fr.session = 0 ∧ fr.body = [1, 0, 0, 0]) ∨
     (fr.command = CMD_LIST_IDENTITY ∧ fr.body = []) ∨
     (fr.command = CMD_UNREGISTER ∧ fr.session ≠ 0 ∧ fr.body = []) ∨
     (fr.command = CMD_SEND_RR ∧ ∃ m, parseCpf fr.body = some (.unconnected m)) ∨
     (fr.command = CMD_SEND_UNIT ∧ fr.session ≠ 0 ∧
        ∃ cid seq m, parseCpf fr.body = some (.connected cid seq m) ∧ cid ∈ cids))

private theorem lcfr_sessions_eq (log : List Event) : lcfr_sessions log = grantedSessions log := rfl
private theorem lcfr_cids_eq (cid0 : Nat) (log : List Event) : lcfr_cids cid0 log = grantedCids cid0 log := rfl

private theorem lcfr_frameOk {cid0 : Nat} {log : List Event} {f : Bytes}
    (h : lcfr_FrameOk (lcfr_sessions log) (lcfr_cids cid0 log) f) :
    FrameOk (grantedSessions log) (grantedCids cid0 log) f := by
  rw [← lcfr_sessions_eq, ← lcfr_cids_eq]
  exact h

/-- what `grantedCids` reads off the log is what the target puts into its Forward Open replies: when the target's
    connection-id counter stands where the log says (`hnc`; true of a fresh world, and kept by every step of the
    target: `lcfr_handle`, LCFr1.lean), a Forward Open answered with general status 0 adds exactly one id `c` to
    `grantedCids`, and the reply data begins with the four bytes of `c` -/
theorem granted_cid_is_in_the_reply (b : Base) (cid0 session : Nat) (large : Bool) (d : Bytes)
    (hnc : b.nextCid = (cid0 + (b.log.countP fun e => match e with | .fo _ _ true => true | _ => false) * 0x10001) % 2 ^ 32)
    (hok : (Tgt.forwardOpen b session large d).2.status = 0) :
    ∃ c rest, (Tgt.forwardOpen b session large d).2.data = leBytes 4 c ++ rest ∧ c < 2 ^ 32 ∧
      grantedCids cid0 (Tgt.forwardOpen b session large d).1.log = grantedCids cid0 b.log ++ [c] := by
  obtain ⟨_, _, k3⟩ := lci_forwardOpen b session large d _ rfl
  rcases k3 with ⟨_, _, _, _, p5⟩ | ⟨r, _, ⟨_, _, _, p5⟩ | ⟨_, _, _, _, p5⟩ | ⟨p2, _, _, _, c, rest, _, _, _, p10⟩⟩
  · rw [p5] at hok; cases hok
  · rcases p5 with p5 | p5 <;> (rw [p5] at hok; cases hok)
  · rw [p5] at hok; cases hok
  · refine ⟨b.nextCid, rest, p10, by rw [hnc]; exact Nat.mod_lt _ (by decide), ?_⟩
    rw [p2]
    unfold grantedCids
    rw [List.countP_cons]
    simp only [if_true]
    rw [List.range_succ, List.map_append, List.map_singleton, ← hnc]

/-- what `grantedSessions` reads off the log is what the target puts into its RegisterSession replies: whenever the
    driver finds the reply to a well-formed RegisterSession frame valid (encapsulation status 0), the handle it takes
    from the reply is recorded as granted in the target's log -/
theorem granted_session_is_in_the_reply {σ} (hook : ObjHook σ) (t : Target σ) (raw : Bytes) (fr : Frame)
    (hp : parseFrame raw = some fr) (hst : fr.status = 0) (hopt : fr.options = 0) (hc : fr.command = CMD_REGISTER)
    (hs : fr.session = 0) (hb : fr.body = [1, 0, 0, 0]) (hns : t.base.nextSession < 2 ^ 32)
    (rep : Bytes) (hrep : (handle hook t raw).2 = some rep) (hv : (Reply.parseRegister (some rep)).valid = true) :
    ∃ s, (Reply.parseRegister (some rep)).session = some s ∧ s ∈ grantedSessions (handle hook t raw).1.base.log := by
  obtain ⟨s, h1, h2⟩ := lcfr_handle_reg hook t raw fr hp hst hopt hc hs hb hns rep hrep hv
  exact ⟨s, h1, (lcfr_mem_sessions _ _).2 h2⟩

/-- C11 at driver level, over the lifecycle alphabet.  For EVERY history of open / close / generic_message calls
    (whatever the arguments — also requests to the Connection Manager), every object hook that leaves the session and
    connection tables alone (`HookOk`), every fault plan and every target policy, starting from a fresh driver: every
    message written to the socket is a well-formed frame (`FrameOk`) whose session handle and connection id were
    granted by the target — as recorded in the target's log at the end of the history.  A frame written before a
    fault is well-formed as well: `net.sent` holds everything `Socket.send` accepted.
    "Granted EARLIER": the statement holds for every history, hence for every prefix of one — what has been written by
    the end of the k-th call carries handles and ids granted by the end of the k-th call (`net.sent` and the log only
    grow); inside a call, `lcfr_built_ok` / `lcfr_sendReq_net` (LCFr1.lean) show that whatever `send` appends is a
    frame acceptable with respect to the target log of the moment BEFORE it is written (the invariant `lcfr_SentOk`
    records exactly this interleaving). -/
theorem all_frames_wf {σ} (hook : ObjHook σ) (hh : HookOk hook) (w : World σ) (hf : Fresh w) (calls : List Call)
    (f : Bytes) (hm : f ∈ (run hook w calls).net.sent) :
    FrameOk (grantedSessions (run hook w calls).net.target.base.log)
      (grantedCids w.net.target.base.nextCid (run hook w calls).net.target.base.log) f :=
  lcfr_frameOk (lcfr_SentOk_all (lcfr_run hook hh _ calls w (lcfr_fresh w hf)).1.sent f hm)

/-- the same over histories with `LogixDriver.read` / `LogixDriver.write` (tag database and options arbitrary per
    call; fragmented transfers and multi-service packets included) -/
theorem all_frames_wf_logix {σ} (hook : ObjHook σ) (hh : HookOk hook) (w : World σ) (hf : Fresh w) (calls : List LCall)
    (f : Bytes) (hm : f ∈ (lrun hook w calls).net.sent) :
    FrameOk (grantedSessions (lrun hook w calls).net.target.base.log)
      (grantedCids w.net.target.base.nextCid (lrun hook w calls).net.target.base.log) f :=
  lcfr_frameOk (lcfr_SentOk_all (lcfr_lrun hook hh _ calls w (lcfr_fresh w hf)).1.sent f hm)

/-- the same over histories with the uploads: `LogixDriver.open()` (`CIPDriver.open`, ListIdentity, `get_plc_info`,
    `get_plc_name`, `get_tag_list`) and `get_tag_list` called again, with arbitrary LogixDriver attributes `l` -/
theorem all_frames_wf_upload {σ} (hook : ObjHook σ) (hh : HookOk hook) (w : World σ) (hf : Fresh w)
    (l : Lgx.Opn.LDrv) (calls : List UCall) (f : Bytes) (hm : f ∈ (urun hook (w, l) calls).1.net.sent) :
    FrameOk (grantedSessions (urun hook (w, l) calls).1.net.target.base.log)
      (grantedCids w.net.target.base.nextCid (urun hook (w, l) calls).1.net.target.base.log) f :=
  lcfr_frameOk (lcfr_SentOk_all (lcfr_urun hook hh _ calls (w, l) (lcfr_fresh w hf)).1.sent f hm)

/-- the same over histories of the SLCDriver: open / close / generic_message / `SLCDriver.read` / `SLCDriver.write` -/
theorem all_frames_wf_slc {σ} (hook : ObjHook σ) (hh : HookOk hook) (w : World σ) (hf : Fresh w) (calls : List SCall)
    (f : Bytes) (hm : f ∈ (srun hook w calls).net.sent) :
    FrameOk (grantedSessions (srun hook w calls).net.target.base.log)
      (grantedCids w.net.target.base.nextCid (srun hook w calls).net.target.base.log) f :=
  lcfr_frameOk (lcfr_SentOk_all (lcfr_srun hook hh _ calls w (lcfr_fresh w hf)).1.sent f hm)

/-- in the words of the property: an acceptable frame has at least the 24 header bytes, and its length field
    (bytes 2–3, little endian) equals the number of bytes that follow the header -/
theorem frameOk_length_field (sessions cids : List Nat) (f : Bytes) (h : FrameOk sessions cids f) :
    24 ≤ f.length ∧ leVal ((f.drop 2).take 2) = f.length - 24 := by
  obtain ⟨fr, hp, _⟩ := h
  obtain ⟨h1, h2, _⟩ := parseFrame_sound f fr hp
  omega

/-- the length field of every frame the driver writes equals the number of bytes that follow the 24-byte header —
    in every history over the largest Logix alphabet, under every fault plan and target policy -/
theorem frame_length_field {σ} (hook : ObjHook σ) (hh : HookOk hook) (w : World σ) (hf : Fresh w)
    (l : Lgx.Opn.LDrv) (calls : List UCall) (f : Bytes) (hm : f ∈ (urun hook (w, l) calls).1.net.sent) :
    24 ≤ f.length ∧ leVal ((f.drop 2).take 2) = f.length - 24 :=
  frameOk_length_field _ _ f (all_frames_wf_upload hook hh w hf l calls f hm)

/-- the same for the histories of the SLCDriver -/
theorem frame_length_field_slc {σ} (hook : ObjHook σ) (hh : HookOk hook) (w : World σ) (hf : Fresh w)
    (calls : List SCall) (f : Bytes) (hm : f ∈ (srun hook w calls).net.sent) :
    24 ≤ f.length ∧ leVal ((f.drop 2).take 2) = f.length - 24 :=
  frameOk_length_field _ _ f (all_frames_wf_slc hook hh w hf calls f hm)

/-- an acceptable frame with session handle 0 is a RegisterSession, a ListIdentity or a SendRRData frame -/
theorem frameOk_session_zero (sessions cids : List Nat) (f : Bytes) (h : FrameOk sessions cids f) (fr : Frame)
    (hp : parseFrame f = some fr) (h0 : fr.session = 0) :
    fr.command = CMD_REGISTER ∨ fr.command = CMD_LIST_IDENTITY ∨ fr.command = CMD_SEND_RR := by
  obtain ⟨fr', hp', _, _, _, hc⟩ := h
  rw [hp] at hp'
  cases hp'
  rcases hc with h | h | h | h | h
  · exact .inl h.1
  · exact .inr (.inl h.1)
  · exact absurd h0 h.2.1
  · exact .inr (.inr h.1)
  · exact absurd h0 h.2.1

-- STATEMENT CHANGED: "no frame other than RegisterSession / ListIdentity carries session 0" is FALSE of the model
-- (and of the library): SendRRData is the third command that can carry handle 0.
-- Exact condition: a SendRRData frame carries handle 0 iff it is written while `drv.session = some 0` on a driver
-- that holds a socket (the header is built from `drv.session`: `parse_built`), i.e. by an UNCONNECTED
-- generic_message (`connected=False`: the application's own call, or `get_plc_info` inside a `LogixDriver.open()`
-- that found `_connection_opened` already set) issued after an `open()` whose registration did not succeed — the
-- target refused it (`open()` returned False), or the reply was lost / the receive raised (`open()` raised
-- CommError) — and before the next `close()`.  `open()` sets `_connection_opened = True` BEFORE it registers and
-- does not reset it when registration fails, so the driver stays "open" with `_session = 0`; a second `open()`
-- returns True at once.  `_forward_open` and `_forward_close` do check `_session == 0` (hence no SendUnitData and
-- no Forward Open with handle 0), `generic_message(connected=False)` → `send` does not.
-- Counterexamples: `FEx.ce_refused`, `FEx.ce_lost` below (#guard).  Positive side, proved:
-- `session_zero_register_only_when_healthy` — with `policy.sessionOk` and an empty fault plan handle 0 occurs on
-- RegisterSession frames only.
-- The real library does the same (/repo/pycomm3/cip_driver.py: `open` l.304–319, `_register_session` l.327–339,
-- `send` l.566–571 passes `self._session` unchecked): after a refused registration
-- `generic_message(..., connected=False)` puts a SendRRData frame with session handle 0 on the wire.
/-- in every history (largest Logix alphabet), every fault plan, every target policy: a written frame with session
    handle 0 is a RegisterSession, a ListIdentity or a SendRRData frame — never UnRegisterSession, never SendUnitData -/
theorem session_zero_only_before_registration {σ} (hook : ObjHook σ) (hh : HookOk hook) (w : World σ) (hf : Fresh w)
    (l : Lgx.Opn.LDrv) (calls : List UCall) (f : Bytes) (hm : f ∈ (urun hook (w, l) calls).1.net.sent)
    (fr : Frame) (hp : parseFrame f = some fr) (h0 : fr.session = 0) :
    fr.command = CMD_REGISTER ∨ fr.command = CMD_LIST_IDENTITY ∨ fr.command = CMD_SEND_RR :=
  frameOk_session_zero _ _ f (all_frames_wf_upload hook hh w hf l calls f hm) fr hp h0

/-- the same for the histories of the SLCDriver -/
theorem session_zero_only_before_registration_slc {σ} (hook : ObjHook σ) (hh : HookOk hook) (w : World σ)
    (hf : Fresh w) (calls : List SCall) (f : Bytes) (hm : f ∈ (srun hook w calls).net.sent)
    (fr : Frame) (hp : parseFrame f = some fr) (h0 : fr.session = 0) :
    fr.command = CMD_REGISTER ∨ fr.command = CMD_LIST_IDENTITY ∨ fr.command = CMD_SEND_RR :=
  frameOk_session_zero _ _ f (all_frames_wf_slc hook hh w hf calls f hm) fr hp h0

/-- the positive side of the exact condition: on a target that accepts sessions (`policy.sessionOk`) and with an empty
    fault plan, in every history (largest Logix alphabet) session handle 0 is carried by RegisterSession frames ONLY —
    every ListIdentity, UnRegisterSession, SendRRData and SendUnitData frame carries a granted, non-zero handle.
    (Whatever the Forward Open policy of the target and whatever the application sends.) -/
theorem session_zero_register_only_when_healthy {σ} (hook : ObjHook σ) (hh : HookOk hook) (w : World σ) (hf : Fresh w)
    (hpol : w.net.target.base.policy.sessionOk = true) (hfault : w.net.faults = [])
    (l : Lgx.Opn.LDrv) (calls : List UCall) (f : Bytes) (hm : f ∈ (urun hook (w, l) calls).1.net.sent)
    (fr : Frame) (hp : parseFrame f = some fr) (h0 : fr.session = 0) : fr.command = CMD_REGISTER :=
  (lcfr_H_urun hook hh _ _ hpol calls (w, l) (lcfr_H_fresh w hf hfault)).z f hm fr hp h0

/-- the same for the histories of the SLCDriver -/
theorem session_zero_register_only_when_healthy_slc {σ} (hook : ObjHook σ) (hh : HookOk hook) (w : World σ)
    (hf : Fresh w) (hpol : w.net.target.base.policy.sessionOk = true) (hfault : w.net.faults = [])
    (calls : List SCall) (f : Bytes) (hm : f ∈ (srun hook w calls).net.sent)
    (fr : Frame) (hp : parseFrame f = some fr) (h0 : fr.session = 0) : fr.command = CMD_REGISTER :=
  (lcfr_H_srun hook hh _ _ hpol calls w (lcfr_H_fresh w hf hfault)).z f hm fr hp h0

/-! ### non-vacuity: concrete histories run through the model

  Worlds: the fresh driver in front of the fresh reference controller of LogixDriverRead.lean (`Lgx.Drv.Ex.world0`:
  one DINT tag `abc`), of LifecycleUpload.lean (`UEx.world0`) and of LifecycleSlc.lean (`SEx.world0`); hook: the full
  target's `hookAll` (`hookAll_ok : HookOk hookAll`).  Every hypothesis of every theorem is discharged (`Fresh` by
  `rfl` / `decide`); the runs are evaluated by the interpreter (`#guard`) and every written frame is checked with
  `frameOkB`, an executable version of `FrameOk` (sound: `frameOkB_sound`). -/

namespace FEx
open Lgx.Drv

/-- executable version of `FrameOk` -/
def frameOkB (sessions cids : List Nat) (f : Bytes) : Bool :=
  match parseFrame f with
  | none => false
  | some fr =>
    fr.status == 0 && fr.options == 0 && (fr.session == 0 || sessions.contains fr.session) &&
    ((fr.command == CMD_REGISTER && fr.session == 0 && fr.body == [1, 0, 0, 0]) ||
     (fr.command == CMD_LIST_IDENTITY && fr.body == []) ||
     (fr.command == CMD_UNREGISTER && fr.session != 0 && fr.body == []) ||
     (fr.command == CMD_SEND_RR && (match parseCpf fr.body with | some (.unconnected _) => true | _ => false)) ||
     (fr.command == CMD_SEND_UNIT && fr.session != 0 &&
        (match parseCpf fr.body with | some (.connected cid _ _) => cids.contains cid | _ => false)))

private theorem frameOkB_sound (sessions cids : List Nat) (f : Bytes) (h : frameOkB sessions cids f = true) :
    FrameOk sessions cids f := by
  unfold frameOkB at h
  cases hp : parseFrame f with
  | none => rw [hp] at h; cases h
  | some fr =>
    rw [hp] at h
    simp only [Bool.and_eq_true, Bool.or_eq_true, beq_iff_eq, bne_iff_ne, ne_eq, List.contains_iff_mem] at h
    obtain ⟨⟨⟨h1, h2⟩, h3⟩, h4⟩ := h
    refine ⟨fr, hp, h1, h2, ?_, ?_⟩
    · intro hne
      rcases h3 with h3 | h3
      · exact absurd h3 hne
      · exact h3
    · rcases h4 with (((h4 | h4) | h4) | h4) | h4
      · exact .inl ⟨h4.1.1, h4.1.2, h4.2⟩
      · exact .inr (.inl h4)
      · exact .inr (.inr (.inl ⟨h4.1.1, h4.1.2, h4.2⟩))
      · refine .inr (.inr (.inr (.inl ⟨h4.1, ?_⟩)))
        obtain ⟨_, h5⟩ := h4
        split at h5
        · rename_i m hm; exact ⟨m, hm⟩
        · cases h5
      · refine .inr (.inr (.inr (.inr ⟨h4.1.1, h4.1.2, ?_⟩)))
        obtain ⟨_, h5⟩ := h4
        split at h5
        · rename_i cid seq m hm
          exact ⟨cid, seq, m, hm, by simpa using h5⟩
        · cases h5

/-- all frames of a world pass the executable check, with respect to what the target's log records as granted
    (`cid0`: the target's connection-id counter in the fresh world) -/
def allOk {σ} (cid0 : Nat) (w : World σ) : Bool :=
  w.net.sent.all (frameOkB (grantedSessions w.net.target.base.log) (grantedCids cid0 w.net.target.base.log))

/-- the command codes of the frames written, in order -/
def cmds {σ} (w : World σ) : List Nat := w.net.sent.map fun f => leVal (f.take 2)

/-- the session handles of the frames written, in order -/
def handles {σ} (w : World σ) : List Nat := w.net.sent.map fun f => leVal ((f.drop 4).take 4)

def idn : GenArgs := { service := 0x01, cls := .bytes [0x01], inst := .bytes [0x01] }
def idnU : GenArgs := { service := 0x01, cls := .bytes [0x01], inst := .bytes [0x01], connected := false }

/-- open, a connected and an unconnected generic_message, a Logix read, close, open again, a write -/
def hist : List LCall :=
  [.open [1, 2, 3, 4, 5, 6, 7, 8],
   .generic idn,
   .generic idnU,
   .read Ex.cfg [Lgx.Drv.nm "abc"],
   .close,
   .open [8, 7, 6, 5, 4, 3, 2, 1],
   .write Ex.cfg [(Lgx.Drv.nm "abc", .int 5)]]

def cid0 : Nat := Ex.world0.net.target.base.nextCid

-- RegisterSession, Forward Open (SendRRData), connected request, unconnected request, connected read,
-- Forward Close (SendRRData), UnRegisterSession; RegisterSession, Forward Open, connected write
#guard cmds (lrun hookAll Ex.world0 hist) == [0x65, 0x6F, 0x70, 0x6F, 0x70, 0x6F, 0x66, 0x65, 0x6F, 0x70]
#guard handles (lrun hookAll Ex.world0 hist) ==
  [0, 0x1001, 0x1001, 0x1001, 0x1001, 0x1001, 0x1001, 0, 0x1112, 0x1112]
#guard grantedSessions (lrun hookAll Ex.world0 hist).net.target.base.log == [0x1112, 0x1001]
#guard grantedCids cid0 (lrun hookAll Ex.world0 hist).net.target.base.log == [0x00C0FFEE, 0x00C1FFEF]
#guard allOk cid0 (lrun hookAll Ex.world0 hist)
-- also with respect to the logs of the moments in between (every prefix of the history)
#guard (List.range (hist.length + 1)).all fun i => allOk cid0 (lrun hookAll Ex.world0 (hist.take i))

/-- the theorems on this history (hypotheses: `hookAll_ok`, `LEx.fresh0`) -/
example : ∀ f ∈ (lrun hookAll Ex.world0 hist).net.sent,
    FrameOk (grantedSessions (lrun hookAll Ex.world0 hist).net.target.base.log)
      (grantedCids cid0 (lrun hookAll Ex.world0 hist).net.target.base.log) f :=
  fun f hm => all_frames_wf_logix hookAll hookAll_ok Ex.world0 LEx.fresh0 hist f hm

/-- the lifecycle alphabet alone -/
def histC : List Call :=
  [.open [1, 2, 3, 4, 5, 6, 7, 8], .generic idn, .generic idnU, .close, .open [8, 7, 6, 5, 4, 3, 2, 1], .generic idn]

#guard cmds (run hookAll Ex.world0 histC) == [0x65, 0x6F, 0x70, 0x6F, 0x6F, 0x66, 0x65, 0x6F, 0x70]
#guard allOk cid0 (run hookAll Ex.world0 histC)

example : ∀ f ∈ (run hookAll Ex.world0 histC).net.sent,
    FrameOk (grantedSessions (run hookAll Ex.world0 histC).net.target.base.log)
      (grantedCids cid0 (run hookAll Ex.world0 histC).net.target.base.log) f :=
  fun f hm => all_frames_wf hookAll hookAll_ok Ex.world0 LEx.fresh0 histC f hm

/-! fault plans and target policies: the same history with a lost request, a raising send, a raising receive; a target
    that refuses the extended Forward Open; a target that refuses both -/

def withFaults (fs : List Fault) : World Ext := { Ex.world0 with net := { Ex.world0.net with faults := fs } }
def withPolicy (p : Policy) : World Ext :=
  { Ex.world0 with net := { Ex.world0.net with target := { Ex.world0.net.target with
      base := { Ex.world0.net.target.base with policy := p } } } }

#guard allOk cid0 (lrun hookAll (withFaults [.sendDrop 2, .recvRaise 4]) hist)
#guard allOk cid0 (lrun hookAll (withFaults [.sendRaise 1, .sendDrop 5, .recvRaise 0]) hist)
#guard allOk cid0 (lrun hookAll (withPolicy { largeFoOk := false }) hist)
#guard allOk cid0 (lrun hookAll (withPolicy { largeFoOk := false, stdFoOk := false }) hist)
#guard allOk cid0 (lrun hookAll (withPolicy { sessionOk := false }) hist)
-- the frames are there: a refused extended Forward Open is followed by the standard one
#guard cmds (lrun hookAll (withPolicy { largeFoOk := false }) (hist.take 2)) == [0x65, 0x6F, 0x6F, 0x70]
#guard cmds (lrun hookAll (withFaults [.sendDrop 2, .recvRaise 4]) hist) == [0x65, 0x6F, 0x70, 0x6F, 0x70, 0x6F, 0x66, 0x65, 0x6F, 0x70]
-- (registration reply lost: nothing but a second RegisterSession until the re-open)
#guard cmds (lrun hookAll (withFaults [.sendRaise 1, .sendDrop 5, .recvRaise 0]) hist) == [0x65, 0x65, 0x6F, 0x70]

/-! the application drives the Connection Manager by hand (excluded by `AvoidsCM` in the C10 theorems, allowed here):
    a hand-made Forward Close behind the driver's back, then more connected requests -/

def fcByHand : GenArgs :=
  { service := 0x4E, cls := .bytes [0x06], inst := .bytes [0x01], connected := false,
    data := [0x0a, 0x05] ++ [0x27, 0x04] ++ [0x09, 0x10] ++ [5, 6, 7, 8], route := .bytes [0x02, 0x00, 0x20, 0x02, 0x24, 0x01] }

def histCM : List LCall :=
  [.open [1, 2, 3, 4, 5, 6, 7, 8], .generic idn, .generic fcByHand, .generic idn, .read Ex.cfg [Lgx.Drv.nm "abc"], .close]

#guard AvoidsCM fcByHand == false
#guard (lrun hookAll Ex.world0 histCM).net.target.base.log.contains (.fc true)
#guard (lrun hookAll Ex.world0 histCM).net.target.base.log.contains (.violation "SendUnitData on a connection that is not open")
#guard allOk cid0 (lrun hookAll Ex.world0 histCM)

/-! the uploads and the SLC driver -/

private theorem ufresh0 : Fresh UEx.world0 :=
  ⟨rfl, rfl, rfl, rfl, rfl, rfl, rfl, rfl, rfl, rfl, rfl, rfl, rfl, rfl, rfl, rfl, rfl, rfl, rfl, rfl,
   by decide, by decide, by decide⟩

private theorem sfresh0 : Fresh SEx.world0 :=
  ⟨rfl, rfl, rfl, rfl, rfl, rfl, rfl, rfl, rfl, rfl, rfl, rfl, rfl, rfl, rfl, rfl, rfl, rfl, rfl, rfl,
   by decide, by decide, by decide⟩

#guard allOk UEx.world0.net.target.base.nextCid (urun hookAll (UEx.world0, {}) UEx.hist).1
-- `LogixDriver.open()` sends a ListIdentity (0x63) frame with the handle just granted
#guard (cmds (urun hookAll (UEx.world0, {}) UEx.hist).1).take 4 == [0x65, 0x63, 0x6F, 0x6F]
#guard 20 < (cmds (urun hookAll (UEx.world0, {}) UEx.hist).1).length

example : ∀ f ∈ (urun hookAll (UEx.world0, {}) UEx.hist).1.net.sent,
    FrameOk (grantedSessions (urun hookAll (UEx.world0, {}) UEx.hist).1.net.target.base.log)
      (grantedCids UEx.world0.net.target.base.nextCid (urun hookAll (UEx.world0, {}) UEx.hist).1.net.target.base.log) f :=
  fun f hm => all_frames_wf_upload hookAll hookAll_ok UEx.world0 ufresh0 {} UEx.hist f hm

example : ∀ f ∈ (urun hookAll (UEx.world0, {}) UEx.hist).1.net.sent,
    24 ≤ f.length ∧ leVal ((f.drop 2).take 2) = f.length - 24 :=
  fun f hm => frame_length_field hookAll hookAll_ok UEx.world0 ufresh0 {} UEx.hist f hm

#guard allOk SEx.world0.net.target.base.nextCid (srun hookAll SEx.world0 SEx.hist)
#guard 10 < (cmds (srun hookAll SEx.world0 SEx.hist)).length

example : ∀ f ∈ (srun hookAll SEx.world0 SEx.hist).net.sent,
    FrameOk (grantedSessions (srun hookAll SEx.world0 SEx.hist).net.target.base.log)
      (grantedCids SEx.world0.net.target.base.nextCid (srun hookAll SEx.world0 SEx.hist).net.target.base.log) f :=
  fun f hm => all_frames_wf_slc hookAll hookAll_ok SEx.world0 sfresh0 SEx.hist f hm

/-! the two theorems about the target's replies, on concrete requests -/

/-- a standard Forward Open request as the driver builds it (size 500, route = message router) -/
def foData : Bytes :=
  [0x0a, 0x05] ++ [0, 0, 0, 0] ++ [1, 2, 3, 4] ++ [0x27, 0x04] ++ [0x09, 0x10] ++ [5, 6, 7, 8] ++ [0x07] ++ [0, 0, 0] ++
  [0x01, 0x40, 0x20, 0x00] ++ [0xF4, 0x43] ++ [0x01, 0x40, 0x20, 0x00] ++ [0xF4, 0x43] ++ [0xa3] ++ [0x02, 0x20, 0x02, 0x24, 0x01]

example : ∃ c rest, (Tgt.forwardOpen Ex.base 0x1001 false foData).2.data = leBytes 4 c ++ rest ∧ c < 2 ^ 32 ∧
    grantedCids 0x00C0FFEE (Tgt.forwardOpen Ex.base 0x1001 false foData).1.log = grantedCids 0x00C0FFEE Ex.base.log ++ [c] :=
  granted_cid_is_in_the_reply Ex.base 0x00C0FFEE 0x1001 false foData (by decide) (by decide)

#guard (Tgt.forwardOpen Ex.base 0x1001 false foData).2.data.take 4 == [0xEE, 0xFF, 0xC0, 0x00]

/-- the RegisterSession frame of a fresh driver -/
def regFrame : Bytes := [0x65, 0, 4, 0] ++ [0, 0, 0, 0] ++ [0, 0, 0, 0] ++ [95, 112, 121, 99, 111, 109, 109, 95] ++ [0, 0, 0, 0] ++ [1, 0, 0, 0]

#guard (openDrv hookAll Ex.world0 [1, 2, 3, 4, 5, 6, 7, 8]).1.net.sent == [regFrame]

example : ∃ s, (Reply.parseRegister (some (Tgt.frame CMD_REGISTER 0x1001 0 [95, 112, 121, 99, 111, 109, 109, 95] [1, 0, 0, 0]))).session = some s ∧
    s ∈ grantedSessions (handle hookAll Ex.world0.net.target regFrame).1.base.log :=
  granted_session_is_in_the_reply hookAll Ex.world0.net.target regFrame
    { command := CMD_REGISTER, session := 0, status := 0, context := [95, 112, 121, 99, 111, 109, 109, 95], options := 0,
      body := [1, 0, 0, 0] } (by decide) rfl rfl rfl rfl rfl (by decide) _ (by rfl) (by decide)

/-! ### the counterexamples of `session_zero_only_before_registration`: SendRRData with session handle 0 -/

/-- the target refuses the registration: `open()` returns False, the driver stays "open" with session 0, and an
    unconnected generic_message goes out as SendRRData with handle 0 (the target answers with status 0x64) -/
def ce_refused : World Ext := lrun hookAll (withPolicy { sessionOk := false }) [.open [1, 2, 3, 4, 5, 6, 7, 8], .generic idnU]

#guard (match (lcallStep hookAll (withPolicy { sessionOk := false }) (.open [1, 2, 3, 4, 5, 6, 7, 8])).2 with
        | .ok => true | _ => false)                 -- open() returned (False), it did not raise
#guard cmds ce_refused == [0x65, 0x6F]
#guard handles ce_refused == [0, 0]
#guard ce_refused.drv.connectionOpened && ce_refused.drv.session == some 0
#guard ce_refused.net.target.base.log.contains (.violation "SendRRData without a registered session")
#guard allOk cid0 ce_refused                        -- still one well-formed frame each

/-- the registration reply is lost (the first receive raises): `open()` raises CommError, the target HAS granted a
    session, the driver does not know it and stays "open" with session 0 -/
def ce_lost : World Ext := lrun hookAll (withFaults [.recvRaise 0]) [.open [1, 2, 3, 4, 5, 6, 7, 8], .generic idnU]

#guard cmds ce_lost == [0x65, 0x6F]
#guard handles ce_lost == [0, 0]
#guard grantedSessions ce_lost.net.target.base.log == [0x1001]

-- after a refused registration a second `open()` returns True without sending anything, and `LogixDriver.open()`
-- goes on with ListIdentity and `get_plc_info` on session 0
#guard cmds (urun hookAll (withPolicy { sessionOk := false }, {})
          [.base (.open [1, 2, 3, 4, 5, 6, 7, 8]), .logixOpen {} [1, 2, 3, 4, 5, 6, 7, 8]]).1 == [0x65, 0x63, 0x6F]
#guard handles (urun hookAll (withPolicy { sessionOk := false }, {})
          [.base (.open [1, 2, 3, 4, 5, 6, 7, 8]), .logixOpen {} [1, 2, 3, 4, 5, 6, 7, 8]]).1 == [0, 0, 0]

/-- the theorem on the counterexample world: handle 0 on a RegisterSession and on a SendRRData frame -/
example : ∀ f ∈ ce_refused.net.sent, ∀ fr, parseFrame f = some fr → fr.session = 0 →
    fr.command = CMD_REGISTER ∨ fr.command = CMD_LIST_IDENTITY ∨ fr.command = CMD_SEND_RR := by
  intro f hm fr hp h0
  have hfr : Fresh (withPolicy { sessionOk := false }) :=
    ⟨rfl, rfl, rfl, rfl, rfl, rfl, rfl, rfl, rfl, rfl, rfl, rfl, rfl, rfl, rfl, rfl, rfl, rfl, rfl, rfl,
     by decide, by decide, by decide⟩
  have e : ce_refused = (urun hookAll (withPolicy { sessionOk := false }, ({} : Lgx.Opn.LDrv))
      ([.open [1, 2, 3, 4, 5, 6, 7, 8], .generic idnU].map UCall.base)).1 := by
    rw [urun_base]; rfl
  rw [e] at hm
  exact session_zero_only_before_registration hookAll hookAll_ok _ hfr {} _ f hm fr hp h0

/-- the healthy theorems on the histories above (`Ex.world0`, `SEx.world0`: default policy, no faults) -/
example : ∀ f ∈ (urun hookAll (Ex.world0, {}) (hist.map .base)).1.net.sent, ∀ fr, parseFrame f = some fr →
    fr.session = 0 → fr.command = CMD_REGISTER :=
  fun f hm fr hp h0 =>
    session_zero_register_only_when_healthy hookAll hookAll_ok Ex.world0 LEx.fresh0 rfl rfl {} (hist.map .base) f hm fr hp h0

example : ∀ f ∈ (srun hookAll SEx.world0 SEx.hist).net.sent, ∀ fr, parseFrame f = some fr →
    fr.session = 0 → fr.command = CMD_REGISTER :=
  fun f hm fr hp h0 =>
    session_zero_register_only_when_healthy_slc hookAll hookAll_ok SEx.world0 sfresh0 rfl rfl SEx.hist f hm fr hp h0

end FEx


end Pycomm.Cli
