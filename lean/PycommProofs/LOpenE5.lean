/-
  LogixDriver.open(), end to end, part 5: `get_tag_list(program='*' | None)` on a healthy connected driver as ONE
  statement for both settings of `init_program_tags`, now also with what the upload leaves in `_info` (programs with
  their routines, tasks, modules): `loe_infoOf`.
-/
import PycommProofs.LogixOpenNested
namespace Pycomm.Lgx.Opn
open Pycomm Pycomm.Tgt Pycomm.Path Pycomm.Reply Pycomm.Encap Pycomm.Lgx Pycomm.Lgx.E2E Pycomm.Lgx.Drv

/-! ### `_info` after the upload -/

/-- what the symbols of one scope add to `_info` (logix_driver.py:570-618; `program` = the scope being uploaded) -/
def loe_noteScope (program : Option Name) (syms : List Symbol) (info : Info) : Info :=
  syms.foldl (fun info s => noteSymbol program info (Up.recOfSymbol false s)) info

/-- `_info` after `get_tag_list`: `programs`, `tasks`, `modules` start empty, the controller scope is noted, then (for
    `program='*'`) every program scope in the order of `Drv.programNames` -/
def loe_infoOf (p : Project) (programTags : Bool) (info0 : Info) : Info :=
  let i1 := loe_noteScope none p.controller { info0 with programs := some [], tasks := some [], modules := some [] }
  if programTags then (programNames p).foldl (fun i pn => loe_noteScope (some pn) (lon_progSyms p pn) i) i1 else i1

/-- the bookkeeping does not look at the external-access attribute -/
theorem loe_noteSymbol_wa (program : Option Name) (info : Info) (wa : Bool) (s : Symbol) :
    noteSymbol program info (Up.recOfSymbol wa s) = noteSymbol program info (Up.recOfSymbol false s) := rfl

theorem loe_noteScope_wa (program : Option Name) (wa : Bool) (syms : List Symbol) (info : Info) :
    syms.foldl (fun info s => noteSymbol program info (Up.recOfSymbol wa s)) info = loe_noteScope program syms info := rfl

/-- the `metas` entries of the whole upload -/
def loe_metasOf (p : Project) (wa programTags : Bool) : List (Name × TagMeta) :=
  metasOfList (lon_metasOfScope wa none p.controller ++
    (if programTags then ((programNames p).map fun pn => lon_metasOfScope wa (some pn) (lon_progSyms p pn)).flatten else []))

/-! ### the loop over the programs, with `_info` -/

theorem loe_programScopes (st : LState) (sess : Nat) (cidb : Bytes) (size : Nat) (wa : Bool) (n : Nat) :
    ∀ (pns : List Name) (S : St Ext) (progs : List (List (Name × TagInfo))),
    lon_Good st sess cidb size S → (lon_keys S.l.info).length = n →
    decide (revisionMajor S.l.info ≥ Gen.MIN_VER_EXTERNAL_ACCESS) = wa → (wa = true → 18 ≤ st.rev) →
    (∀ pn ∈ pns, lon_ProgName size pn) →
    (∀ pr ∈ st.proj.programs, lon_ProgSyms st.proj pr.2) →
    pns.mapM (fun pn =>
      match st.proj.programs.find? (·.1 == Drv.nm "Program:" ++ pn) with
      | none => none
      | some pr => Drv.userTags st.proj (Drv.nm "Program:" ++ pn ++ [46]) pr.2) = some progs →
    ∃ S' xs, programScopes hookAll n S pns = (S', .ok xs) ∧
      xs.map (fun x => (x.1, x.2.1)) = progs.flatten ∧
      xs.map (fun x => (x.1, x.2.2)) = (pns.map fun pn => lon_metasOfScope wa (some pn) (lon_progSyms st.proj pn)).flatten ∧
      lon_Good st sess cidb size S' ∧ lo_Step S S' ∧ lon_keys S'.l.info = lon_keys S.l.info ∧
      S'.l.info = pns.foldl (fun i pn => loe_noteScope (some pn) (lon_progSyms st.proj pn) i) S.l.info := by
  intro pns
  induction pns with
  | nil =>
    intro S progs hg hn _ _ _ _ hm
    simp only [List.mapM_nil, Option.pure_def, Option.some.injEq] at hm
    subst hm
    refine ⟨S, [], ?_, rfl, rfl, hg, lo_Step.refl S, rfl, rfl⟩
    unfold programScopes
    have hn' : (S.l.info.programs.getD []).length = n := by
      have := hn; unfold lon_keys at this; rw [List.length_map] at this; exact this
    rw [if_neg (fun h => h hn')]
  | cons pn pns ih =>
    intro S progs hg hn hwa hrev hpn hps hm
    rw [List.mapM_cons] at hm
    cases hf : st.proj.programs.find? (·.1 == Drv.nm "Program:" ++ pn) with
    | none => rw [hf] at hm; cases hm
    | some pr =>
      rw [hf] at hm
      dsimp only at hm
      cases hy : Drv.userTags st.proj (Drv.nm "Program:" ++ pn ++ [46]) pr.2 with
      | none => rw [hy] at hm; cases hm
      | some ys =>
        cases hr : pns.mapM (fun pn =>
            match st.proj.programs.find? (·.1 == Drv.nm "Program:" ++ pn) with
            | none => none
            | some pr => Drv.userTags st.proj (Drv.nm "Program:" ++ pn ++ [46]) pr.2) with
        | none => rw [hy, hr] at hm; cases hm
        | some rest =>
          rw [hy, hr] at hm
          simp only [Option.bind_eq_bind, Option.bind_some, Option.pure_def, Option.some.injEq] at hm
          subst hm
          have hprog : (st.proj.programs.find? (·.1 == Opn.nm "Program:" ++ pn)).map (·.2) = some pr.2 := by
            have : st.proj.programs.find? (·.1 == Opn.nm "Program:" ++ pn) = some pr := hf
            rw [this]; rfl
          have hps' : lon_progSyms st.proj pn = pr.2 := by
            unfold lon_progSyms
            rw [hprog]
            rfl
          have hsyms := hps pr (List.mem_of_find?_eq_some hf)
          obtain ⟨S1, xs1, hsc, hx1, hx2, hg1, hs1, hi1⟩ := lon_scope_program st sess cidb size S pn pr.2 ys hg
            (by intro h; exact hrev (by rw [← hwa]; exact decide_eq_true h)) (hpn pn List.mem_cons_self) hprog hsyms hy
          rw [hwa] at hx2 hi1
          have hk1 : lon_keys S1.l.info = lon_keys S.l.info := by
            rw [hi1]; exact lon_keys_fold_other (some pn) wa pr.2 hsyms.noprog _
          have hr1 : revisionMajor S1.l.info = revisionMajor S.l.info := by
            rw [hi1]; exact lon_revision_fold (some pn) wa pr.2 _
          obtain ⟨S', xs, hps2, hy1, hy2, hg', hs', hk', hi'⟩ := ih S1 rest hg1 (by rw [hk1]; exact hn) (by rw [hr1]; exact hwa) hrev
            (fun x hx => hpn x (List.mem_cons_of_mem _ hx)) hps hr
          refine ⟨S', xs1 ++ xs, ?_, ?_, ?_, hg', lo_Step.trans hs1 hs', hk'.trans hk1, ?_⟩
          · unfold programScopes
            have hn' : (S.l.info.programs.getD []).length = n := by
              have := hn; unfold lon_keys at this; rw [List.length_map] at this; exact this
            rw [if_neg (fun h => h hn')]
            dsimp only
            rw [hsc]
            dsimp only
            rw [hps2]
            rfl
          · rw [List.map_append, hx1, hy1, List.flatten_cons]
          · rw [List.map_append, hx2, hy2, List.map_cons, List.flatten_cons, hps']
          · rw [hi', List.foldl_cons, hi1, hps']
            rfl

/-! ### `get_tag_list` -/

/-- what the upload of the program scopes needs (only when `init_program_tags` is set) -/
structure loe_Programs (p : Project) (size : Nat) : Prop where
  /-- a program name (the part after `Program:`) is not empty, has no colon, is ASCII, fits a symbolic segment and the
      connection -/
  names : ∀ s ∈ p.controller, PyStr.startsWith (Opn.nm "Program:") s.name = true → lon_ProgName size (s.name.drop 8)
  /-- the symbol table of every program is well-formed, sorted, holds no `Program:` symbol, its structure tags refer to
      templates the client can follow -/
  syms : ∀ pr ∈ p.programs, lon_ProgSyms p pr.2

/-- `get_tag_list(program = '*' if programTags else None)` on a healthy connected driver: the statement of
    `open_tags_nested_project` / `open_tags_program_scopes` for both settings, with `_info` (`loe_infoOf`) -/
theorem loe_getTagList (w : Cli.World Ext) (l : LDrv) (sess : Nat) (cidb : Bytes) (conn : Conn) (st : LState)
    (b : Bool) (db : TagDb)
    (hw : ldr_Healthy w sess cidb conn) (hlogix : w.net.target.ext.logix = some st)
    (hrev : revisionMajor l.info ≥ Gen.MIN_VER_EXTERNAL_ACCESS → 18 ≤ st.rev)
    (hwf : ∀ s ∈ st.proj.controller, Up.WfSymbol s)
    (hsorted : st.proj.controller.Pairwise (fun a b => a.inst < b.inst))
    (hsize : 32 ≤ conn.size) (hfuel : st.proj.controller.length < PAGE_FUEL)
    (hnest : ∀ s ∈ st.proj.controller, K.keepSymbol s.name s.symbolType = true → s.symbolType / 32768 % 2 = 1 →
      lon_NestedTemplate st.proj (s.symbolType % 4096))
    (hprogs : b = true → loe_Programs st.proj conn.size)
    (hdb : tagDbOf st.proj b = some db) :
    ∃ w' l' conn' c, getTagList hookAll w l b = (w', l', .ok ()) ∧
      l'.tags = db ∧
      l'.metas = loe_metasOf st.proj (decide (revisionMajor l.info ≥ Gen.MIN_VER_EXTERNAL_ACCESS)) b ∧
      l'.info = loe_infoOf st.proj b l.info ∧
      l'.micro800 = l.micro800 ∧ l'.useInstanceIds = l.useInstanceIds ∧ l'.cacheLeft = false ∧
      ldr_Healthy w' sess cidb conn' ∧ conn'.size = conn.size ∧ lo_SameDrv w.drv w'.drv ∧
      (∃ frms, w'.net.sent = w.net.sent ++ frms) ∧
      w'.net.target.ext.logix = some { st with ctr := c } := by
  have hfo : Cli.ensureForwardOpen hookAll Cli.FUEL w = (w, .ok ()) := ldr_ensureFO_connected hookAll 7 w hw.connected
  generalize hwa : decide (revisionMajor l.info ≥ Gen.MIN_VER_EXTERNAL_ACCESS) = wa
  have hrev' : wa = true → 18 ≤ st.rev := by
    intro h; rw [← hwa] at h; exact hrev (of_decide_eq_true h)
  have hg0 : lon_Good st sess cidb conn.size ({ w := w, l := { l with cacheLeft := true, info := { l.info with programs := some [], tasks := some [], modules := some [] } } } : St Ext) :=
    ⟨⟨conn, hw, rfl⟩, ⟨st.ctr, hlogix⟩, (fun _ _ h => by cases h), fun _ _ => rfl⟩
  have hwa0 : decide (revisionMajor ({ l.info with programs := some [], tasks := some [], modules := some [] } : Info) ≥
      Gen.MIN_VER_EXTERNAL_ACCESS) = wa := hwa
  cases b with
  | false =>
    obtain ⟨ctl, hctl, hdbe⟩ : ∃ ctl, Drv.userTags st.proj [] st.proj.controller = some ctl ∧ db = TagDb.ofList ctl := by
      unfold tagDbOf at hdb
      cases hctl : Drv.userTags st.proj [] st.proj.controller with
      | none => rw [hctl] at hdb; cases hdb
      | some ctl =>
        rw [hctl] at hdb
        simp only [Bool.not_false, if_true, Option.some.injEq] at hdb
        exact ⟨ctl, rfl, hdb.symm⟩
    obtain ⟨S', xs, hsc, hx1, hx2, hg', hs', hi'⟩ := lon_scope_controller st sess cidb conn.size hsize _ ctl hg0 hrev hwf hsorted
      hfuel hnest hctl
    rw [hwa0] at hx2 hi'
    obtain ⟨conn', hh', hcs'⟩ := hg'.healthy
    obtain ⟨c, hlogix'⟩ := hg'.logix
    refine ⟨S'.w, { S'.l with tags := TagDb.ofList ((xs ++ []).map fun (x : Name × TagInfo × TagMeta) => (x.1, x.2.1)), metas := metasOfList ((xs ++ []).map fun (x : Name × TagInfo × TagMeta) => (x.1, x.2.2)), cacheLeft := false },
      conn', c, ?_, ?_, ?_, ?_, hs'.micro, hs'.ids, rfl, hh', hcs', hs'.drv, hs'.sent, hlogix'⟩
    · unfold getTagList
      rw [hfo]
      dsimp only
      rw [hsc]
      simp only [Bool.false_eq_true, if_false]
    · show TagDb.ofList ((xs ++ []).map fun (x : Name × TagInfo × TagMeta) => (x.1, x.2.1)) = db
      rw [List.append_nil, hx1, hdbe]
    · show metasOfList ((xs ++ []).map fun (x : Name × TagInfo × TagMeta) => (x.1, x.2.2)) = _
      rw [List.append_nil, hx2]
      unfold loe_metasOf
      simp only [Bool.false_eq_true, if_false, List.append_nil]
    · show S'.l.info = _
      rw [hi']
      rfl
  | true =>
    obtain ⟨hpsym, hprogsy⟩ := hprogs rfl
    obtain ⟨ctl, progs, hctl, hpm, hdbe⟩ : ∃ ctl progs, Drv.userTags st.proj [] st.proj.controller = some ctl ∧
        (programNames st.proj).mapM (fun pn =>
          match st.proj.programs.find? (·.1 == Drv.nm "Program:" ++ pn) with
          | none => none
          | some pr => Drv.userTags st.proj (Drv.nm "Program:" ++ pn ++ [46]) pr.2) = some progs ∧
        db = TagDb.ofList (ctl ++ progs.flatten) := by
      unfold tagDbOf at hdb
      cases hctl : Drv.userTags st.proj [] st.proj.controller with
      | none => rw [hctl] at hdb; cases hdb
      | some ctl =>
        rw [hctl] at hdb
        simp only [Bool.not_true, Bool.false_eq_true, if_false] at hdb
        split at hdb
        · cases hdb
        · rename_i progs hpm
          simp only [Option.some.injEq] at hdb
          exact ⟨ctl, progs, rfl, hpm, hdb.symm⟩
    obtain ⟨S1, xs1, hsc, hx1, hx2, hg1, hs1, hi1⟩ := lon_scope_controller st sess cidb conn.size hsize _ ctl hg0 hrev hwf hsorted
      hfuel hnest hctl
    rw [hwa0] at hx2 hi1
    have hkeys : lon_keys S1.l.info = programNames st.proj := by
      rw [hi1, lon_keys_fold_controller]
      show List.foldl lon_ins [] _ = _
      rw [lon_ins_foldl_nil]
      unfold programNames
      congr 1
      apply List.map_congr_left
      intro s hs
      obtain ⟨hsm, hsp⟩ := List.mem_filter.1 hs
      exact lon_pyRemove_program s.name hsp (hpsym s hsm hsp).colon
    have hr1 : revisionMajor S1.l.info = revisionMajor l.info := by
      rw [hi1]; exact lon_revision_fold none wa st.proj.controller _
    have hpn : ∀ pn ∈ programNames st.proj, lon_ProgName conn.size pn := by
      intro pn hp
      unfold programNames at hp
      rw [List.mem_eraseDups] at hp
      obtain ⟨s, hs, rfl⟩ := List.mem_map.1 hp
      obtain ⟨hsm, hsp⟩ := List.mem_filter.1 hs
      exact hpsym s hsm hsp
    obtain ⟨S2, xs2, hps, hy1, hy2, hg2, hs2, hk2, hi2⟩ := loe_programScopes st sess cidb conn.size wa (programNames st.proj).length
      (programNames st.proj) S1 progs hg1 (by rw [hkeys]) (by rw [hr1]; exact hwa) hrev' hpn hprogsy hpm
    obtain ⟨conn', hh', hcs'⟩ := hg2.healthy
    obtain ⟨c, hlogix'⟩ := hg2.logix
    have hs12 := lo_Step.trans hs1 hs2
    refine ⟨S2.w, { S2.l with tags := TagDb.ofList ((xs1 ++ xs2).map fun (x : Name × TagInfo × TagMeta) => (x.1, x.2.1)), metas := metasOfList ((xs1 ++ xs2).map fun (x : Name × TagInfo × TagMeta) => (x.1, x.2.2)), cacheLeft := false },
      conn', c, ?_, ?_, ?_, ?_, hs12.micro, hs12.ids, rfl, hh', hcs', hs12.drv, hs12.sent, hlogix'⟩
    · unfold getTagList
      rw [hfo]
      dsimp only
      rw [hsc]
      dsimp only
      have hprogsEq : (S1.l.info.programs.getD []).map (·.1) = programNames st.proj := hkeys
      rw [hprogsEq]
      simp only [if_true]
      rw [hps]
    · show TagDb.ofList ((xs1 ++ xs2).map fun (x : Name × TagInfo × TagMeta) => (x.1, x.2.1)) = db
      rw [List.map_append, hx1, hy1, hdbe]
    · show metasOfList ((xs1 ++ xs2).map fun (x : Name × TagInfo × TagMeta) => (x.1, x.2.2)) = _
      rw [List.map_append, hx2, hy2]
      unfold loe_metasOf
      simp only [if_true]
    · show S2.l.info = _
      rw [hi2, hi1]
      rfl

end Pycomm.Lgx.Opn
