/-
  Helper lemmas for the C03 proofs (shape of the results of `LogixDriver.read` / `LogixDriver.write`):
  the parser is position-wise, what a parsed request looks like, what the request builders carry,
  what `_send_requests` may put into the result table.
-/
import PycommModel.Logix.Driver
import PycommProofs.LCBasic
namespace Pycomm.Lgx.Drv
open Pycomm.Tgt Pycomm.Path Pycomm.Reply

/-! ### `parseRequestedTags` is position-wise -/

theorem lds_parse_length (db : TagDb) (rw : Bool) (tags : List Name) :
    (parseRequestedTags db rw tags).length = tags.length := by
  simp [parseRequestedTags]

theorem lds_parse_getElem? (db : TagDb) (rw : Bool) (tags : List Name) (i : Nat) :
    (parseRequestedTags db rw tags)[i]? = tags[i]?.map (parseTagRequest db rw i) := by
  unfold parseRequestedTags
  rw [List.getElem?_map]
  by_cases h : i < tags.length
  · have h1 : ((List.range tags.length).zip tags)[i]? = some (i, tags[i]) := by
      rw [List.getElem?_eq_getElem (by simp [h])]
      simp
    rw [h1, List.getElem?_eq_getElem h]; rfl
  · have h1 : ((List.range tags.length).zip tags)[i]? = none := by
      apply List.getElem?_eq_none; simp; omega
    rw [h1, List.getElem?_eq_none (by omega)]; rfl

theorem lds_parse_getElem (db : TagDb) (rw : Bool) (tags : List Name) (i : Nat) (h : i < tags.length) :
    (parseRequestedTags db rw tags)[i]'(by rw [lds_parse_length]; exact h) = parseTagRequest db rw i tags[i] := by
  have := lds_parse_getElem? db rw tags i
  rw [List.getElem?_eq_getElem (by rw [lds_parse_length]; exact h), List.getElem?_eq_getElem h] at this
  simpa using this

/-! ### the element-count suffix -/

theorem lds_splitOn_ne_nil (sep : Nat) (s : List Nat) : splitOn sep s ≠ [] := by
  cases s with
  | nil => simp [splitOn]
  | cons c cs =>
    simp only [splitOn]
    split
    · simp
    · split <;> simp

theorem lds_splitOn_one (sep : Nat) (s b : List Nat) (h : splitOn sep s = [b]) : s = b ∧ sep ∉ b := by
  induction s generalizing b with
  | nil => simp [splitOn] at h; subst h; simp
  | cons c cs ih =>
    simp only [splitOn] at h
    split at h
    · next hn => exact absurd hn (lds_splitOn_ne_nil sep cs)
    · next hd tl hcs =>
      split at h
      · simp at h
      · next hc =>
        simp only [List.cons.injEq] at h
        obtain ⟨rfl, rfl⟩ := h
        obtain ⟨rfl, hm⟩ := ih hd hcs
        refine ⟨rfl, ?_⟩
        intro hmem
        rcases List.mem_cons.1 hmem with e | e
        · exact hc e.symm
        · exact hm e

theorem lds_splitOn_two (sep : Nat) (s a b : List Nat) (h : splitOn sep s = [a, b]) :
    s = a ++ sep :: b ∧ sep ∉ a ∧ sep ∉ b := by
  induction s generalizing a with
  | nil => simp [splitOn] at h
  | cons c cs ih =>
    simp only [splitOn] at h
    split at h
    · next hn => exact absurd hn (lds_splitOn_ne_nil sep cs)
    · next hd tl hcs =>
      split at h
      · next hc =>
        simp only [List.cons.injEq] at h
        obtain ⟨rfl, rfl, rfl⟩ := h
        obtain ⟨rfl, hm⟩ := lds_splitOn_one sep cs hd hcs
        subst hc
        exact ⟨rfl, by simp, hm⟩
      · next hc =>
        simp only [List.cons.injEq] at h
        obtain ⟨rfl, rfl⟩ := h
        obtain ⟨rfl, hma, hmb⟩ := ih hd hcs
        refine ⟨rfl, ?_, hmb⟩
        intro hmem
        rcases List.mem_cons.1 hmem with e | e
        · exact hc e.symm
        · exact hma e

theorem lds_getLast_split (l : List Nat) (x : Nat) (h : l.getLast? = some x) : l = l.take (l.length - 1) ++ [x] := by
  obtain ⟨ys, rfl⟩ := List.getLast?_eq_some_iff.1 h
  simp

/-- what `splitElements` accepts: no suffix (the tag is returned as it is), or `tag{digits}` -/
theorem lds_splitElements_ok (t u : Name) (n : Int) (impl : Bool) (h : splitElements t = .ok (u, n, impl)) :
    (impl = true ∧ u = t ∧ n = 1 ∧ ¬ (t.getLast? = some 125 ∧ 123 ∈ t)) ∨
    (impl = false ∧ 123 ∉ u ∧ ∃ ds, t = u ++ 123 :: ds ++ [125] ∧ 123 ∉ ds ∧ PyStr.pyInt ds = some n) := by
  unfold splitElements at h
  split at h
  · next hc =>
    split at h
    · next a tmp hsp =>
      split at h
      · next v hv =>
        cases h
        obtain ⟨rfl, hma, hmb⟩ := lds_splitOn_two 123 t u tmp hsp
        refine .inr ⟨rfl, hma, tmp.take (tmp.length - 1), ?_, ?_, hv⟩
        · simp only [Bool.and_eq_true, beq_iff_eq] at hc
          have hl := hc.1
          cases tmp with
          | nil => simp at hl
          | cons c cs =>
            have hl2 : (c :: cs).getLast? = some 125 := by
              simpa [List.getLast?_append, List.getLast?_cons_cons] using hl
            have := lds_getLast_split (c :: cs) 125 hl2
            rw [List.append_assoc, List.cons_append, ← this]
        · intro hm; exact hmb (List.mem_of_mem_take hm)
      · cases h
    · cases h
  · next hc =>
    cases h
    refine .inl ⟨rfl, rfl, rfl, ?_⟩
    intro ⟨h1, h2⟩
    apply hc
    simp [h1, h2]

/-- the tag returned by `splitElements` has no element-count suffix left: splitting it again changes nothing -/
theorem lds_splitElements_fix (t u : Name) (n : Int) (impl : Bool) (h : splitElements t = .ok (u, n, impl)) :
    splitElements u = .ok (u, 1, true) := by
  rcases lds_splitElements_ok t u n impl h with ⟨_, rfl, _, hc⟩ | ⟨_, hm, _⟩
  · unfold splitElements
    rw [if_neg]
    intro hh; apply hc
    simpa using hh
  · unfold splitElements
    rw [if_neg]
    intro hh
    simp only [Bool.and_eq_true, List.contains_iff_mem] at hh
    exact hm hh.2

/-! ### the index of a BOOL-array request -/

theorem lds_splitOn_no_sep (sep : Nat) (s : List Nat) (h : sep ∉ s) : splitOn sep s = [s] := by
  induction s with
  | nil => simp [splitOn]
  | cons c cs ih =>
    have hc : ¬ c = sep := fun e => h (by simp [e])
    have := ih (fun hm => h (by simp [hm]))
    simp [splitOn, this, hc]

theorem lds_splitOn_append_sep (sep : Nat) (a r : List Nat) :
    splitOn sep (a ++ sep :: r) = splitOn sep a ++ splitOn sep r := by
  induction a with
  | nil =>
    simp only [List.nil_append, splitOn]
    cases hs : splitOn sep r with
    | nil => exact absurd hs (lds_splitOn_ne_nil sep r)
    | cons h t => simp
  | cons c a ih =>
    simp only [List.cons_append, splitOn]
    rw [ih]
    cases ha : splitOn sep a with
    | nil => exact absurd ha (lds_splitOn_ne_nil sep a)
    | cons h t =>
      simp only [List.cons_append]
      split <;> rfl

theorem lds_last_occurrence (sep : Nat) (s : List Nat) (h : sep ∈ s) : ∃ a b, s = a ++ sep :: b ∧ sep ∉ b := by
  induction s with
  | nil => cases h
  | cons c cs ih =>
    by_cases hm : sep ∈ cs
    · obtain ⟨a, b, rfl, hb⟩ := ih hm
      exact ⟨c :: a, b, rfl, hb⟩
    · rcases List.mem_cons.1 h with rfl | h'
      · exact ⟨[], cs, rfl, hm⟩
      · exact absurd h' hm

/-- the part after the last separator -/
theorem lds_last_part (sep : Nat) (s : List Nat) :
    ∃ P L X, s = P ++ L ∧ sep ∉ L ∧ (P = [] ∨ P.getLast? = some sep) ∧ splitOn sep s = X ++ [L] ∧
      (∀ x ∈ X, x ∈ splitOn sep s) ∧ ∀ L', sep ∉ L' → splitOn sep (P ++ L') = X ++ [L'] := by
  by_cases h : sep ∈ s
  · obtain ⟨a, b, rfl, hb⟩ := lds_last_occurrence sep s h
    refine ⟨a ++ [sep], b, splitOn sep a, by simp, hb, .inr (by simp), ?_, ?_, ?_⟩
    · rw [lds_splitOn_append_sep, lds_splitOn_no_sep sep b hb]
    · intro x hx; rw [lds_splitOn_append_sep]; exact List.mem_append_left _ hx
    · intro L' hL'
      rw [List.append_assoc, List.singleton_append, lds_splitOn_append_sep, lds_splitOn_no_sep sep L' hL']
  · exact ⟨[], s, [], rfl, h, .inl rfl, by simpa using lds_splitOn_no_sep sep s h, by simp,
      fun L' hL' => by simpa using lds_splitOn_no_sep sep L' hL'⟩

theorem lds_takeWhile_stop (p : Nat → Bool) (l r : List Nat) (c : Nat) (hl : ∀ x ∈ l, p x = true) (hc : p c = false) :
    (l ++ c :: r).takeWhile p = l ∧ (l ++ c :: r).dropWhile p = c :: r := by
  induction l with
  | nil => simp [hc]
  | cons x xs ih =>
    have hx := hl x (by simp)
    have := ih (fun y hy => hl y (by simp [hy]))
    simp [hx, this]

theorem lds_rsplit1 (sep : Nat) (a b : List Nat) (h : sep ∉ b) : PyStr.rsplit1 sep (a ++ sep :: b) = [a, b] := by
  unfold PyStr.rsplit1 PyStr.find
  have hrev : (a ++ sep :: b).reverse = b.reverse ++ sep :: a.reverse := by simp
  have htw := (lds_takeWhile_stop (· != sep) b.reverse a.reverse sep
    (by intro x hx; simp at hx ⊢; intro e; exact h (e ▸ hx)) (by simp)).1
  rw [hrev, htw]
  simp only [List.length_reverse, List.length_append, List.length_cons]
  rw [if_pos (by omega)]
  simp only
  have e1 : a.length + (b.length + 1) - b.length - 1 = a.length := by omega
  have e2 : a.length + (b.length + 1) - b.length = a.length + 1 := by omega
  rw [e1, e2]
  simp

theorem lds_mem_splitOn (sep : Nat) (s : List Nat) (c : Nat) (h : c ∈ s) :
    c = sep ∨ ∃ piece ∈ splitOn sep s, c ∈ piece := by
  induction s with
  | nil => cases h
  | cons x xs ih =>
    simp only [splitOn]
    cases hs : splitOn sep xs with
    | nil => exact absurd hs (lds_splitOn_ne_nil sep xs)
    | cons hd tl =>
      dsimp only
      rcases List.mem_cons.1 h with rfl | h'
      · by_cases hc : c = sep
        · exact .inl hc
        · rw [if_neg hc]; exact .inr ⟨c :: hd, by simp, by simp⟩
      · rcases ih h' with e | ⟨piece, hp, hcp⟩
        · exact .inl e
        · rw [hs] at hp
          refine .inr ?_
          split
          · exact ⟨piece, List.mem_cons_of_mem _ hp, hcp⟩
          · rcases List.mem_cons.1 hp with rfl | hp'
            · exact ⟨x :: piece, by simp, List.mem_cons_of_mem _ hcp⟩
            · exact ⟨piece, by simp [hp'], hcp⟩

theorem lds_mem_dropWhile_or (p : Nat → Bool) (s : List Nat) (c : Nat) (h : c ∈ s) : p c = true ∨ c ∈ s.dropWhile p := by
  induction s with
  | nil => cases h
  | cons x xs ih =>
    by_cases hx : p x = true
    · rcases List.mem_cons.1 h with rfl | h'
      · exact .inl hx
      · rw [List.dropWhile_cons_of_pos hx]; exact ih h'
    · rw [List.dropWhile_cons_of_neg hx]; exact .inr h

theorem lds_mem_strip_or (s : List Nat) (c : Nat) (h : c ∈ s) : PyStr.isSpaceC c = true ∨ c ∈ PyStr.strip s := by
  unfold PyStr.strip PyStr.rstrip PyStr.lstrip
  rcases lds_mem_dropWhile_or PyStr.isSpaceC s c h with h1 | h1
  · exact .inl h1
  · rcases lds_mem_dropWhile_or PyStr.isSpaceC (s.dropWhile PyStr.isSpaceC).reverse c (by simpa using h1) with h2 | h2
    · exact .inl h2
    · exact .inr (by simpa using h2)

theorem lds_mem_of_strip (s : List Nat) (c : Nat) (h : c ∈ PyStr.strip s) : c ∈ s := by
  unfold PyStr.strip PyStr.rstrip PyStr.lstrip at h
  have h1 : c ∈ (s.dropWhile PyStr.isSpaceC).reverse.dropWhile PyStr.isSpaceC := by simpa using h
  have h2 := (List.dropWhile_sublist _).subset h1
  have h3 : c ∈ s.dropWhile PyStr.isSpaceC := by simpa using h2
  exact (List.dropWhile_sublist _).subset h3

/-- the characters of an index list the parser accepts: digits, commas, white space -/
theorem lds_index_chars (X : List Nat) (h : ∀ piece ∈ splitOn 44 X, PyStr.isDigit (PyStr.strip piece) = true) :
    ∀ c ∈ X, c = 44 ∨ PyStr.isSpaceC c = true ∨ PyStr.isDigitC c = true := by
  intro c hc
  rcases lds_mem_splitOn 44 X c hc with e | ⟨piece, hp, hcp⟩
  · exact .inl e
  · rcases lds_mem_strip_or piece c hcp with h1 | h1
    · exact .inr (.inl h1)
    · have := h piece hp
      simp only [PyStr.isDigit, Bool.and_eq_true, List.all_eq_true] at this
      exact .inr (.inr (this.2 c h1))

theorem lds_pyInt_nonneg (s : List Nat) (i : Int) (h : PyStr.pyInt s = some i) (hm : 45 ∉ s) : 0 ≤ i := by
  unfold PyStr.pyInt at h
  have hm' : 45 ∉ PyStr.strip s := fun hh => hm (lds_mem_of_strip s 45 hh)
  generalize PyStr.strip s = t at h hm'
  dsimp only at h
  split at h
  · split at h
    · cases h
    · simp only [Option.some.injEq] at h
      subst h
      split
      · exact absurd (by simp) hm'
      · simp
      · simp
  · cases h

theorem lds_mem_takeWhile (p : Nat → Bool) (l : List Nat) (x : Nat) (h : x ∈ l.takeWhile p) : p x = true := by
  induction l with
  | nil => simp at h
  | cons a l ih =>
    simp only [List.takeWhile_cons] at h
    split at h
    · rcases List.mem_cons.1 h with rfl | h
      · assumption
      · exact ih h
    · simp at h

/-- a part the index validation accepts and that ends with `]` is `name[index]` -/
theorem lds_indexPartOk_unpack (L : List Nat) (h : indexPartOk L = true) (hl : L.getLast? = some 93) :
    ∃ name index, L = name ++ 91 :: index ++ [93] ∧ 91 ∉ name ∧ name ≠ [] ∧
      ∀ piece ∈ splitOn 44 index, PyStr.isDigit (PyStr.strip piece) = true := by
  have h93 : 93 ∈ L := List.mem_of_getLast? hl
  unfold indexPartOk at h
  rw [if_neg (by simp [h93])] at h
  simp only [Bool.and_eq_true, Bool.not_eq_true', List.isEmpty_eq_false_iff, beq_iff_eq, List.all_eq_true] at h
  obtain ⟨⟨hname, hlast⟩, hpieces⟩ := h
  have hsplit : L = L.takeWhile (· != 91) ++ L.dropWhile (· != 91) := (List.takeWhile_append_dropWhile).symm
  cases hd : L.dropWhile (· != 91) with
  | nil => rw [hd] at hlast; simp at hlast
  | cons r0 index0 =>
    rw [hd] at hlast hpieces
    simp only [List.drop_succ_cons, List.drop_zero] at hlast hpieces
    have hr0 : r0 = 91 := by
      have := List.head_dropWhile_not (· != 91) (l := L) (by rw [hd]; simp)
      simp only [hd, List.head_cons] at this
      simpa using this
    subst hr0
    have hidx := lds_getLast_split index0 93 hlast
    refine ⟨L.takeWhile (· != 91), index0.take (index0.length - 1), ?_, ?_, hname, hpieces⟩
    · rw [List.append_assoc, List.cons_append, ← hidx, ← hd]; exact hsplit
    · intro hm
      have := lds_mem_takeWhile (· != 91) L 91 hm
      simp at this

theorem lds_index_char_ne (c : Nat) (h : c = 44 ∨ PyStr.isSpaceC c = true ∨ PyStr.isDigitC c = true) :
    c ≠ 91 ∧ c ≠ 45 ∧ c ≠ 46 ∧ c ≠ 93 := by
  rcases h with rfl | h | h
  · decide
  · simp only [PyStr.isSpaceC, Bool.or_eq_true, beq_iff_eq, Bool.and_eq_true, decide_eq_true_eq] at h
    omega
  · simp only [PyStr.isDigitC, Bool.and_eq_true, decide_eq_true_eq] at h
    omega

/-- the shape of a tag whose array index `getArrayIndex` finds, after the index validation of the parser -/
theorem lds_getArrayIndex_shape (tag t : Name) (i : Int)
    (hparts : ∀ part ∈ PyStr.split 46 tag, indexPartOk part = true)
    (h : getArrayIndex tag = some (t, some i)) :
    ∃ P X name index,
      tag = P ++ (name ++ 91 :: index ++ [93]) ∧ t = P ++ name ∧ 46 ∉ name ∧ 91 ∉ name ∧ name ≠ [] ∧
      PyStr.pyInt index = some i ∧
      (∀ c ∈ index, c = 44 ∨ PyStr.isSpaceC c = true ∨ PyStr.isDigitC c = true) ∧
      PyStr.split 46 tag = X ++ [name ++ 91 :: index ++ [93]] ∧ (∀ x ∈ X, x ∈ PyStr.split 46 tag) ∧
      ∀ L', 46 ∉ L' → PyStr.split 46 (P ++ L') = X ++ [L'] := by
  unfold getArrayIndex at h
  split at h
  · next hc =>
    simp only [Bool.and_eq_true, beq_iff_eq] at hc
    obtain ⟨P, L, X, htag, hL, hP, hsplit, hX, hrepl⟩ := lds_last_part 46 tag
    have hLne : L ≠ [] := by
      intro hLe
      subst hLe
      rw [List.append_nil] at htag
      subst htag
      rcases hP with rfl | hP
      · simp at hc
      · rw [hc.1] at hP; cases hP
    have hLlast : L.getLast? = some 93 := by
      have := hc.1
      rw [htag, List.getLast?_append] at this
      cases hl : L.getLast? with
      | none => exact absurd (List.getLast?_eq_none_iff.1 hl) hLne
      | some x => rw [hl] at this; simpa using this
    have hLok : indexPartOk L = true := hparts L (by unfold PyStr.split; rw [hsplit]; simp)
    obtain ⟨name, index, rfl, hn91, hnne, hpieces⟩ := lds_indexPartOk_unpack L hLok hLlast
    have hchars := lds_index_chars index hpieces
    have h91 : 91 ∉ index ++ [93] := by
      intro hm
      rcases List.mem_append.1 hm with hm | hm
      · exact (lds_index_char_ne 91 (hchars 91 hm)).1 rfl
      · simp at hm
    have hrs : PyStr.rsplit1 91 tag = [P ++ name, index ++ [93]] := by
      rw [htag, ← lds_rsplit1 91 (P ++ name) (index ++ [93]) h91]
      simp
    rw [hrs] at h
    dsimp only at h
    have htake : (index ++ [93]).take ((index ++ [93]).length - 1) = index := by simp
    rw [htake] at h
    split at h
    · next v hv =>
      simp only [Option.some.injEq, Prod.mk.injEq] at h
      obtain ⟨rfl, rfl⟩ := h
      refine ⟨P, X, name, index, htag, rfl, ?_, hn91, hnne, hv, hchars, hsplit, hX, hrepl⟩
      intro hm; exact hL (by simp [hm])
    · cases h
  · simp only [Option.some.injEq, Prod.mk.injEq] at h
    cases h.2

/-- the index of an accepted BOOL-array request is not negative -/
theorem lds_getArrayIndex_nonneg (tag t : Name) (i : Int)
    (hparts : ∀ part ∈ PyStr.split 46 tag, indexPartOk part = true)
    (h : getArrayIndex tag = some (t, some i)) : 0 ≤ i := by
  obtain ⟨P, X, name, index, _, _, _, _, _, hv, hchars, _⟩ := lds_getArrayIndex_shape tag t i hparts h
  exact lds_pyInt_nonneg index i hv (fun hm => (lds_index_char_ne 45 (hchars 45 hm)).2.1 rfl)

theorem lds_splitOn_mem_no_sep (sep : Nat) (s : List Nat) : ∀ x ∈ splitOn sep s, sep ∉ x := by
  induction s with
  | nil => intro x hx; simp [splitOn] at hx; subst hx; simp
  | cons c cs ih =>
    intro x hx
    simp only [splitOn] at hx
    cases hs : splitOn sep cs with
    | nil => exact absurd hs (lds_splitOn_ne_nil sep cs)
    | cons hd tl =>
      rw [hs] at hx ih
      dsimp only at hx
      split at hx
      · rcases List.mem_cons.1 hx with rfl | hx
        · simp
        · exact ih x hx
      · next hc =>
        rcases List.mem_cons.1 hx with rfl | hx
        · intro hm
          rcases List.mem_cons.1 hm with e | hm
          · exact hc e.symm
          · exact ih hd (by simp) hm
        · exact ih x (by simp [hx])

theorem lds_split_foldl (rest : List Name) (h : ∀ y ∈ rest, 46 ∉ y) :
    ∀ x : Name, splitOn 46 (rest.foldl (fun acc y => acc ++ [46] ++ y) x) = splitOn 46 x ++ rest := by
  induction rest with
  | nil => intro x; simp
  | cons y ys ih =>
    intro x
    rw [List.foldl_cons, ih (fun z hz => h z (by simp [hz]))]
    have : x ++ [46] ++ y = x ++ 46 :: y := by simp
    rw [this, lds_splitOn_append_sep, lds_splitOn_no_sep 46 y (h y (by simp))]
    simp

theorem lds_split_joinDot (xs : List Name) (hne : xs ≠ []) (h : ∀ y ∈ xs, 46 ∉ y) : splitOn 46 (joinDot xs) = xs := by
  cases xs with
  | nil => exact absurd rfl hne
  | cons x rest =>
    unfold joinDot
    rw [lds_split_foldl rest (fun y hy => h y (by simp [hy])), lds_splitOn_no_sep 46 x (h x (by simp))]
    rfl

/-! ### `parseTagRequest`, restructured -/

/-- the bit-number split of `_parse_tag_request`: (bit, attrs, tag without the bit number) -/
def lds_bitSplit (tag base : Name) (attrs1 : List Name) : Option Int × List Name × Name :=
  match attrs1.getLast? with
  | some l =>
      if PyStr.isDigit l then
        let as := attrs1.dropLast
        (some (PyStr.decVal l : Int), as, if as.isEmpty then base else base ++ [46] ++ joinDot as)
      else (none, attrs1, tag)
  | none => (none, attrs1, tag)

def lds_scoped (base0 : Name) (attrs0 : List Name) : Option (Name × List Name) :=
  if PyStr.startsWith (nm "Program:") base0 then
    match attrs0 with
    | a :: rest => some (base0 ++ [46] ++ a, rest)
    | [] => none
  else some (base0, attrs0)

/-- a bit number addresses one bit of an integer -/
def lds_bitBad (info : TagInfo) (bit : Option Int) : Bool :=
  match bit with
  | none => false
  | some b => info.core.tagType != .atomic ||
      (match intBits info.core.dataTypeName with | some w => decide ((w : Int) ≤ b) | none => true)

/-- the part of `_parse_tag_request` after the bit-number split -/
def lds_tail (db : TagDb) (write : Bool) (rid : Nat) (tag0 tag : Name) (elements : Int) (implicit : Bool)
    (base : Name) (bit : Option Int) (attrs : List Name) (tag1 : Name) : Parsed :=
  let fail (e : TagErr) : Parsed := { requestId := rid, requestTag := tag0, error := some e }
  match getTagInfo db base attrs with
  | .error e => fail e
  | .ok none => fail (failedParse tag1)
  | .ok (some info) =>
    if lds_bitBad info bit then
      fail (.text (nm "Invalid bit number for a " ++ info.core.dataTypeName ++ nm ": " ++ pyStrInt (bit.getD 0)))
    else
    if isDword info then
      match getArrayIndex tag1 with
      | none => fail (failedParse tag1)
      | some (t, idx) =>
          let plc := match idx with
            | some i => if write then t ++ [91] ++ pyStrInt (i / 32) ++ [93] else t ++ nm "[0]"
            | none => tag1
          let total : Int := idx.getD 0 + elements
          let words : Int := total / 32 + (if total % 32 ≠ 0 then 1 else 0)
          if words > 65535 then fail (.text (nm "Array index out of range: " ++ pyStrInt (idx.getD 0))) else
          { requestId := rid, requestTag := tag0, userTag := tag, plcTag := plc, bit := idx,
            elements := words, info := some info,
            boolElements := if implicit || elements == 1 then none else some elements }
    else
      { requestId := rid, requestTag := tag0, userTag := tag, plcTag := tag1, bit := bit, elements := elements,
        info := some info, boolElements := none }

theorem lds_parse_unfold (db : TagDb) (write : Bool) (rid : Nat) (tag0 : Name) :
    parseTagRequest db write rid tag0 =
      match splitElements tag0 with
      | .error e => { requestId := rid, requestTag := tag0, error := some e }
      | .ok (tag, elements, implicit) =>
        if !(0 ≤ elements ∧ elements ≤ 65535) then
          { requestId := rid, requestTag := tag0, error := some (.text (nm "Element count out of range: " ++ pyStrInt elements)) }
        else
        match (PyStr.split 46 tag).find? (fun part => !indexPartOk part) with
        | some part => { requestId := rid, requestTag := tag0, error := some (.text (nm "Invalid array index: " ++ part)) }
        | none =>
        match PyStr.split 46 tag with
        | [] => { requestId := rid, requestTag := tag0, error := some (failedParse tag) }
        | base0 :: attrs0 =>
          match lds_scoped base0 attrs0 with
          | none => { requestId := rid, requestTag := tag0, error := some (failedParse tag) }
          | some (base, attrs1) =>
              lds_tail db write rid tag0 tag elements implicit base (lds_bitSplit tag base attrs1).1
                (lds_bitSplit tag base attrs1).2.1 (lds_bitSplit tag base attrs1).2.2 := by
  rfl
/-- a `Tag.error` of the request parser: a non-empty text -/
def lds_TextErr (e : TagErr) : Prop := ∃ s, e = .text s ∧ s ≠ []

theorem lds_getTagInfo_err (db : TagDb) (base : Name) (attrs : List Name) (e : TagErr)
    (h : getTagInfo db base attrs = .error e) : lds_TextErr e := by
  unfold getTagInfo at h
  cases hd : db.get? (stripArray base) with
  | none => simp only [hd] at h; cases h; exact ⟨_, rfl, by simp [nm]⟩
  | some data =>
    simp only [hd] at h
    split at h
    · cases h
    · split at h
      · cases h
      · cases h
      · cases h; exact ⟨_, rfl, by simp [nm]⟩
      · cases h; exact ⟨_, rfl, by simp [nm]⟩

theorem lds_failedParse_text (t : Name) : lds_TextErr (failedParse t) := ⟨_, rfl, by simp [nm]⟩

theorem lds_intBits_dword : intBits (nm "DWORD") = none := by decide

theorem lds_isDword_name (info : TagInfo) (h : isDword info = true) : info.core.dataTypeName = nm "DWORD" := by
  unfold isDword at h
  simp only [Bool.and_eq_true, beq_iff_eq] at h
  exact h.2

theorem lds_tail_cases (db : TagDb) (write : Bool) (rid : Nat) (tag0 tag : Name) (elements : Int) (implicit : Bool)
    (base : Name) (bit : Option Int) (attrs : List Name) (tag1 : Name) :
    (∃ e, lds_tail db write rid tag0 tag elements implicit base bit attrs tag1
        = { requestId := rid, requestTag := tag0, error := some e } ∧ lds_TextErr e) ∨
    (∃ info, getTagInfo db base attrs = .ok (some info) ∧
      ((isDword info = false ∧ lds_bitBad info bit = false ∧
          lds_tail db write rid tag0 tag elements implicit base bit attrs tag1
          = { requestId := rid, requestTag := tag0, userTag := tag, plcTag := tag1, bit := bit, elements := elements,
              info := some info, boolElements := none }) ∨
       (isDword info = true ∧ bit = none ∧ ∃ t idx, getArrayIndex tag1 = some (t, idx) ∧
          (idx.getD 0 + elements) / 32 + (if (idx.getD 0 + elements) % 32 ≠ 0 then 1 else 0) ≤ 65535 ∧
          lds_tail db write rid tag0 tag elements implicit base bit attrs tag1
          = { requestId := rid, requestTag := tag0, userTag := tag,
              plcTag := (match idx with
                | some i => if write then t ++ [91] ++ pyStrInt (i / 32) ++ [93] else t ++ nm "[0]"
                | none => tag1),
              bit := idx,
              elements := (idx.getD 0 + elements) / 32 + (if (idx.getD 0 + elements) % 32 ≠ 0 then 1 else 0),
              info := some info,
              boolElements := if implicit || elements == 1 then none else some elements }))) := by
  unfold lds_tail
  cases hg : getTagInfo db base attrs with
  | error e => exact .inl ⟨e, rfl, lds_getTagInfo_err _ _ _ _ hg⟩
  | ok oi =>
    cases oi with
    | none => exact .inl ⟨_, rfl, lds_failedParse_text _⟩
    | some info =>
      dsimp only
      by_cases hb : lds_bitBad info bit = true
      · rw [if_pos hb]
        exact .inl ⟨_, rfl, _, rfl, by simp [nm]⟩
      · rw [if_neg hb]
        by_cases hd : isDword info = true
        · rw [if_pos hd]
          have hbit : bit = none := by
            cases bit with
            | none => rfl
            | some b =>
              exfalso; apply hb
              simp only [lds_bitBad, lds_isDword_name info hd, lds_intBits_dword, Bool.or_true]
          cases ha : getArrayIndex tag1 with
          | none => exact .inl ⟨_, rfl, lds_failedParse_text _⟩
          | some x =>
            obtain ⟨t, idx⟩ := x
            dsimp only
            by_cases hw : (idx.getD 0 + elements) / 32 + (if (idx.getD 0 + elements) % 32 ≠ 0 then 1 else 0) > 65535
            · rw [if_pos hw]
              exact .inl ⟨_, rfl, _, rfl, by simp [nm]⟩
            · rw [if_neg hw]
              exact .inr ⟨info, rfl, .inr ⟨hd, hbit, t, idx, rfl, by omega, rfl⟩⟩
        · rw [if_neg hd]
          exact .inr ⟨info, rfl, .inl ⟨by simpa using hd, by simpa using hb, rfl⟩⟩

theorem lds_bitSplit_none (tag base : Name) (attrs1 : List Name)
    (h : (lds_bitSplit tag base attrs1).1 = none) : (lds_bitSplit tag base attrs1).2.2 = tag := by
  unfold lds_bitSplit at h ⊢
  cases hg : attrs1.getLast? with
  | none => rfl
  | some l =>
    simp only [hg] at h ⊢
    by_cases hd : PyStr.isDigit l = true
    · simp only [hd, if_true] at h; cases h
    · simp only [hd]; rfl

theorem lds_bitSplit_nonneg (tag base : Name) (attrs1 : List Name) (b : Int)
    (h : (lds_bitSplit tag base attrs1).1 = some b) : 0 ≤ b := by
  unfold lds_bitSplit at h
  cases hg : attrs1.getLast? with
  | none => simp only [hg] at h; cases h
  | some l =>
    simp only [hg] at h
    by_cases hd : PyStr.isDigit l = true
    · simp only [hd, if_true, Option.some.injEq] at h; subst h; simp
    · simp only [hd] at h; cases h

/-- the tag without its bit number consists of parts of the tag -/
theorem lds_bitSplit_parts (tag base0 : Name) (attrs0 : List Name) (base : Name) (attrs1 : List Name)
    (hsp : PyStr.split 46 tag = base0 :: attrs0) (hsc : lds_scoped base0 attrs0 = some (base, attrs1)) :
    ∀ part ∈ PyStr.split 46 (lds_bitSplit tag base attrs1).2.2, part ∈ PyStr.split 46 tag := by
  have hfree : ∀ x ∈ base0 :: attrs0, 46 ∉ x := by
    intro x hx; rw [← hsp] at hx; exact lds_splitOn_mem_no_sep 46 tag x hx
  have hbase : (∀ part ∈ PyStr.split 46 base, part ∈ base0 :: attrs0) ∧ ∀ a ∈ attrs1, a ∈ base0 :: attrs0 := by
    unfold lds_scoped at hsc
    split at hsc
    · cases attrs0 with
      | nil => cases hsc
      | cons a rest =>
        simp only [Option.some.injEq, Prod.mk.injEq] at hsc
        obtain ⟨rfl, rfl⟩ := hsc
        constructor
        · intro part hp
          have : base0 ++ [46] ++ a = base0 ++ 46 :: a := by simp
          unfold PyStr.split at hp
          rw [this, lds_splitOn_append_sep, lds_splitOn_no_sep 46 base0 (hfree base0 (by simp)),
            lds_splitOn_no_sep 46 a (hfree a (by simp))] at hp
          simp only [List.cons_append, List.nil_append, List.mem_cons, List.not_mem_nil, or_false] at hp
          rcases hp with rfl | rfl <;> simp
        · intro x hx; simp [hx]
    · simp only [Option.some.injEq, Prod.mk.injEq] at hsc
      obtain ⟨rfl, rfl⟩ := hsc
      constructor
      · intro part hp
        unfold PyStr.split at hp
        rw [lds_splitOn_no_sep 46 base0 (hfree base0 (by simp))] at hp
        simp only [List.mem_singleton] at hp; subst hp; simp
      · intro x hx; simp [hx]
  intro part hp
  rw [hsp]
  unfold lds_bitSplit at hp
  cases hg : attrs1.getLast? with
  | none => rw [hg] at hp; dsimp only at hp; rw [hsp] at hp; exact hp
  | some l =>
    rw [hg] at hp
    dsimp only at hp
    by_cases hd : PyStr.isDigit l = true
    · rw [if_pos hd] at hp
      dsimp only at hp
      by_cases has : attrs1.dropLast.isEmpty = true
      · rw [if_pos has] at hp
        exact hbase.1 part hp
      · rw [if_neg has] at hp
        have hne : attrs1.dropLast ≠ [] := by simpa using has
        have hsub : ∀ y ∈ attrs1.dropLast, y ∈ base0 :: attrs0 :=
          fun y hy => hbase.2 y ((List.dropLast_sublist _).subset hy)
        have : base ++ [46] ++ joinDot attrs1.dropLast = base ++ 46 :: joinDot attrs1.dropLast := by simp
        unfold PyStr.split at hp
        rw [this, lds_splitOn_append_sep, lds_split_joinDot _ hne (fun y hy => hfree y (hsub y hy))] at hp
        rcases List.mem_append.1 hp with hp | hp
        · exact hbase.1 part hp
        · exact hsub part hp
    · rw [if_neg hd] at hp
      dsimp only at hp; rw [hsp] at hp; exact hp
/-- the two shapes of a parsed request -/
theorem lds_parse_cases (db : TagDb) (write : Bool) (rid : Nat) (tag0 : Name) :
    (∃ e, parseTagRequest db write rid tag0 = { requestId := rid, requestTag := tag0, error := some e } ∧ lds_TextErr e) ∨
    (∃ tag elements implicit info bit tag1,
      splitElements tag0 = .ok (tag, elements, implicit) ∧ 0 ≤ elements ∧ elements ≤ 65535 ∧ (bit = none → tag1 = tag) ∧
      (∀ part ∈ PyStr.split 46 tag, indexPartOk part = true) ∧ (∀ b, bit = some b → 0 ≤ b) ∧
      (∀ part ∈ PyStr.split 46 tag1, part ∈ PyStr.split 46 tag) ∧
      ((isDword info = false ∧ lds_bitBad info bit = false ∧ parseTagRequest db write rid tag0
          = { requestId := rid, requestTag := tag0, userTag := tag, plcTag := tag1, bit := bit, elements := elements,
              info := some info, boolElements := none }) ∨
       (isDword info = true ∧ ∃ t idx, getArrayIndex tag = some (t, idx) ∧
          (idx.getD 0 + elements) / 32 + (if (idx.getD 0 + elements) % 32 ≠ 0 then 1 else 0) ≤ 65535 ∧
          parseTagRequest db write rid tag0
          = { requestId := rid, requestTag := tag0, userTag := tag,
              plcTag := (match idx with
                | some i => if write then t ++ [91] ++ pyStrInt (i / 32) ++ [93] else t ++ nm "[0]"
                | none => tag),
              bit := idx,
              elements := (idx.getD 0 + elements) / 32 + (if (idx.getD 0 + elements) % 32 ≠ 0 then 1 else 0),
              info := some info,
              boolElements := if implicit || elements == 1 then none else some elements }))) := by
  rw [lds_parse_unfold]
  cases hs : splitElements tag0 with
  | error e =>
    refine .inl ⟨e, rfl, ?_⟩
    unfold splitElements at hs
    split at hs
    · split at hs
      · split at hs
        · cases hs
        · cases hs; exact lds_failedParse_text _
      · cases hs; exact lds_failedParse_text _
    · cases hs
  | ok x =>
    obtain ⟨tag, elements, implicit⟩ := x
    dsimp only
    by_cases hr : (0 ≤ elements ∧ elements ≤ 65535)
    · rw [if_neg (by simp [hr])]
      cases hf : (PyStr.split 46 tag).find? (fun part => !indexPartOk part) with
      | some part => exact .inl ⟨_, rfl, _, rfl, by simp [nm]⟩
      | none =>
        dsimp only
        have hall : ∀ part ∈ PyStr.split 46 tag, indexPartOk part = true := by
          intro part hpart
          have := List.find?_eq_none.1 hf part hpart
          simpa using this
        cases hsp : PyStr.split 46 tag with
        | nil => exact .inl ⟨_, rfl, lds_failedParse_text _⟩
        | cons base0 attrs0 =>
          dsimp only
          cases hsc : lds_scoped base0 attrs0 with
          | none => exact .inl ⟨_, rfl, lds_failedParse_text _⟩
          | some ba =>
            obtain ⟨base, attrs1⟩ := ba
            dsimp only
            have hbn := lds_bitSplit_none tag base attrs1
            have hbp := lds_bitSplit_nonneg tag base attrs1
            have hbq := lds_bitSplit_parts tag base0 attrs0 base attrs1 hsp hsc
            generalize lds_bitSplit tag base attrs1 = trip at hbn hbp hbq ⊢
            obtain ⟨bit, attrs, tag1⟩ := trip
            dsimp only at hbn hbp hbq ⊢
            rcases lds_tail_cases db write rid tag0 tag elements implicit base bit attrs tag1 with
              ⟨e, he, ht⟩ | ⟨info, _, ⟨hd, hbb, he⟩ | ⟨hd, hb, t, idx, ha, hw, he⟩⟩
            · exact .inl ⟨e, he, ht⟩
            · exact .inr ⟨tag, elements, implicit, info, bit, tag1, rfl, hr.1, hr.2, hbn, hsp ▸ hall, hbp, hbq,
                .inl ⟨hd, hbb, he⟩⟩
            · have := hbn hb; subst this
              exact .inr ⟨tag1, elements, implicit, info, bit, tag1, rfl, hr.1, hr.2, hbn, hsp ▸ hall, hbp, hbq,
                .inr ⟨hd, t, idx, ha, hw, he⟩⟩
    · rw [if_pos (by simp [hr])]
      exact .inl ⟨_, rfl, _, rfl, by simp [nm]⟩

/-- a request the parser accepted: `tag` = the request without its element count `n`, `info` = the tag definition -/
structure lds_POk (tag0 : Name) (p : Parsed) (tag : Name) (n : Int) (impl : Bool) (info : TagInfo) : Prop where
  split : splitElements tag0 = .ok (tag, n, impl)
  range : 0 ≤ n ∧ n ≤ 65535
  err : p.error = none
  utag : p.userTag = tag
  hinfo : p.info = some info
  plcOfBit : p.bit = none → p.plcTag = tag
  plain : isDword info = false → p.elements = n ∧ p.boolElements = none ∧ lds_bitBad info p.bit = false ∧
    ∀ b, p.bit = some b → 0 ≤ b
  parts : ∀ part ∈ PyStr.split 46 tag, indexPartOk part = true
  dword : isDword info = true →
    (∃ t, getArrayIndex tag = some (t, p.bit)) ∧
    p.elements = (p.bit.getD 0 + n) / 32 + (if (p.bit.getD 0 + n) % 32 ≠ 0 then 1 else 0) ∧
    p.elements ≤ 65535

theorem lds_parse_rid (db : TagDb) (write : Bool) (rid : Nat) (tag0 : Name) :
    (parseTagRequest db write rid tag0).requestId = rid := by
  rcases lds_parse_cases db write rid tag0 with ⟨e, he, _⟩ | ⟨_, _, _, _, _, _, _, _, _, _, _, _, _, ⟨_, _, he⟩ | ⟨_, _, _, _, _, he⟩⟩ <;>
    rw [he]

theorem lds_parse_rtag (db : TagDb) (write : Bool) (rid : Nat) (tag0 : Name) :
    (parseTagRequest db write rid tag0).requestTag = tag0 := by
  rcases lds_parse_cases db write rid tag0 with ⟨e, he, _⟩ | ⟨_, _, _, _, _, _, _, _, _, _, _, _, _, ⟨_, _, he⟩ | ⟨_, _, _, _, _, he⟩⟩ <;>
    rw [he]

/-- a parse error is a non-empty text, and the parsed request is nothing but the request and the error -/
theorem lds_parse_err (db : TagDb) (write : Bool) (rid : Nat) (tag0 : Name) (e : TagErr)
    (h : (parseTagRequest db write rid tag0).error = some e) :
    parseTagRequest db write rid tag0 = { requestId := rid, requestTag := tag0, error := some e } ∧ lds_TextErr e := by
  rcases lds_parse_cases db write rid tag0 with ⟨e', he, ht⟩ | ⟨_, _, _, _, _, _, _, _, _, _, _, _, _, ⟨_, _, he⟩ | ⟨_, _, _, _, _, he⟩⟩
  · rw [he] at h; cases h; exact ⟨he, ht⟩
  · rw [he] at h; cases h
  · rw [he] at h; cases h

theorem lds_parse_ok (db : TagDb) (write : Bool) (rid : Nat) (tag0 : Name)
    (h : (parseTagRequest db write rid tag0).error = none) :
    ∃ tag n impl info, lds_POk tag0 (parseTagRequest db write rid tag0) tag n impl info := by
  rcases lds_parse_cases db write rid tag0 with ⟨e', he, ht⟩ |
    ⟨tag, n, impl, info, bit, tag1, hs, h0, h1, hb, hparts, hbp, _, ⟨hd, hbb, he⟩ | ⟨hd, t, idx, ha, hw, he⟩⟩
  · rw [he] at h; cases h
  · refine ⟨tag, n, impl, info, ?_⟩
    rw [he]
    exact ⟨hs, ⟨h0, h1⟩, rfl, rfl, rfl, hb, fun _ => ⟨rfl, rfl, hbb, hbp⟩, hparts,
      fun hd' => by (rw [hd] at hd'; cases hd')⟩
  · refine ⟨tag, n, impl, info, ?_⟩
    rw [he]
    refine ⟨hs, ⟨h0, h1⟩, rfl, rfl, rfl, ?_, fun hd' => by (rw [hd] at hd'; cases hd'), hparts,
      fun _ => ⟨⟨t, ha⟩, rfl, hw⟩⟩
    intro hi; dsimp only at hi; subst hi; rfl

/-- the index of an accepted BOOL-array request is not negative -/
theorem lds_POk_idx_nonneg (tag0 : Name) (p : Parsed) (tag : Name) (n : Int) (impl : Bool) (info : TagInfo)
    (h : lds_POk tag0 p tag n impl info) (hd : isDword info = true) : 0 ≤ p.bit.getD 0 := by
  obtain ⟨⟨t, ht⟩, _, _⟩ := h.dword hd
  cases hb : p.bit with
  | none => simp
  | some i =>
    rw [hb] at ht
    simpa using lds_getArrayIndex_nonneg tag t i h.parts ht

/-- the element count of an accepted request fits the UINT of the request: for a plain request by the range check
    of the `{n}` suffix, for a BOOL-array request by the check of the word count (and the index is not negative) -/
theorem lds_POk_elements_range (tag0 : Name) (p : Parsed) (tag : Name) (n : Int) (impl : Bool) (info : TagInfo)
    (h : lds_POk tag0 p tag n impl info) : 0 ≤ p.elements ∧ p.elements ≤ 65535 := by
  cases hdw : isDword info with
  | false => rw [(h.plain hdw).1]; exact h.range
  | true =>
    obtain ⟨_, he, hle⟩ := h.dword hdw
    refine ⟨?_, hle⟩
    have h0 := lds_POk_idx_nonneg tag0 p tag n impl info h hdw
    have := h.range
    rw [he]
    split <;> omega

/-! ### what the request builders carry -/

/-- the (request id, tag) pairs a packet carries: the requests it will answer -/
def Request.lds_carried : Request → List (Nat × Name)
  | .read r | .readFrag r => [(r.rid, r.tag)]
  | .write r | .writeFrag r => [(r.rid, r.tag)]
  | .rmw r => r.requestIds.map fun id => (id, r.tag)
  | .multiRead _ rs => rs.map fun r => (r.rid, r.tag)
  | .multiWrite _ rs => rs.map fun r => (r.rid, r.tag)

/-- the keys under which `_send_requests` stores the Tags of a packet, with the name of the stored Tag -/
def Request.lds_resKeys : Request → List (Int × Name)
  | .read r | .readFrag r => [((r.rid : Int), r.tag)]
  | .write r | .writeFrag r => [((r.rid : Int), r.tag)]
  | .rmw r => [(r.rid, r.tag)]
  | .multiRead _ rs => rs.map fun r => ((r.rid : Int), r.tag)
  | .multiWrite _ rs => rs.map fun r => ((r.rid : Int), r.tag)

/-- `k` = (request id, addressed tag) of a request of `ps` that the parser accepted -/
def lds_Live (ps : List Parsed) (k : Nat × Name) : Prop :=
  ∃ p ∈ ps, p.error = none ∧ p.requestId = k.1 ∧ p.plcTag = k.2

theorem lds_Live_cons (p : Parsed) (ps : List Parsed) (k : Nat × Name) (h : lds_Live ps k) : lds_Live (p :: ps) k := by
  obtain ⟨q, hq, h1⟩ := h
  exact ⟨q, List.mem_cons_of_mem _ hq, h1⟩

theorem lds_mkReadReq_ok (cfg : Cfg) (d d1 : Cli.Drv) (p : Parsed) (info : TagInfo) (req : ReadReq)
    (h : mkReadReq cfg d p info = (d1, .ok req)) : req.rid = p.requestId ∧ req.tag = p.plcTag := by
  unfold mkReadReq at h
  dsimp only at h
  split at h
  · cases h
  · cases h
  · cases h; exact ⟨rfl, rfl⟩

theorem lds_refresh_read (d : Cli.Drv) (r : ReadReq) : (r.refresh d).2.rid = r.rid ∧ (r.refresh d).2.tag = r.tag :=
  ⟨rfl, rfl⟩

theorem lds_readBuildLive_live (cfg : Cfg) (C : Nat) (multi : Bool) (ps : List Parsed) :
    ∀ (d d' : Cli.Drv) (items : List (ReadReq × Nat × Bool)),
      readBuildLive cfg C multi d ps = (d', .ok items) → ∀ x ∈ items, lds_Live ps (x.1.rid, x.1.tag) := by
  induction ps with
  | nil =>
    intro d d' items h x hx
    simp only [readBuildLive] at h
    cases h; cases hx
  | cons p rest ih =>
    intro d d' items h x hx
    rw [readBuildLive] at h
    split at h
    · next info he hi =>
      rcases hm : mkReadReq cfg d p info with ⟨d1, r⟩
      rw [hm] at h
      dsimp only at h
      cases r with
      | error e => cases h
      | ok req =>
        dsimp only at h
        obtain ⟨hrid, htag⟩ := lds_mkReadReq_ok cfg d d1 p info req hm
        generalize hfr : (if (if multi = true then decide (req.returnSize + K.OVERHEAD > C) else decide (req.returnSize > C)) = true
          then req.refresh d1 else (d1, req)) = fr at h
        have hfr2 : fr.2.rid = p.requestId ∧ fr.2.tag = p.plcTag := by
          have hb : ∀ b : Bool, (if b = true then req.refresh d1 else (d1, req)).2.rid = req.rid ∧
              (if b = true then req.refresh d1 else (d1, req)).2.tag = req.tag := by
            intro b; cases b <;> exact ⟨rfl, rfl⟩
          rw [← hfr, (hb _).1, (hb _).2]; exact ⟨hrid, htag⟩
        obtain ⟨d2, req2⟩ := fr
        dsimp only at h hfr2
        rcases hrec : readBuildLive cfg C multi d2 rest with ⟨d3, more⟩
        rw [hrec] at h
        dsimp only at h
        cases more with
        | error e => cases h
        | ok xs =>
          simp only [Except.map, Prod.mk.injEq, Except.ok.injEq] at h
          obtain ⟨_, rfl⟩ := h
          rcases List.mem_cons.1 hx with rfl | hx
          · exact ⟨p, List.mem_cons_self, he, hfr2.1.symm, hfr2.2.symm⟩
          · exact lds_Live_cons _ _ _ (ih d2 d3 xs hrec x hx)
    · exact lds_Live_cons _ _ _ (ih d d' items h x hx)

theorem lds_drawSeqs_snd {α} (xs : List α) : ∀ (d : Cli.Drv), (drawSeqs d xs).2.map (·.2) = xs := by
  induction xs with
  | nil => intro d; rfl
  | cons x rest ih =>
    intro d
    simp only [drawSeqs, List.map_cons, List.cons.injEq, true_and]
    exact ih _

def Request.lds_isRmw : Request → Bool
  | .rmw _ => true
  | _ => false

def Request.lds_isReadKind : Request → Bool
  | .read _ | .readFrag _ | .multiRead _ _ => true
  | _ => false

theorem lds_isRmw_of_readKind (q : Request) (h : q.lds_isReadKind = true) : q.lds_isRmw = false := by
  cases q <;> simp [Request.lds_isReadKind, Request.lds_isRmw] at h ⊢

theorem lds_resKeys_carried (q : Request) (h : q.lds_isRmw = false) :
    q.lds_resKeys = q.lds_carried.map fun k => ((k.1 : Int), k.2) := by
  cases q <;> simp [Request.lds_isRmw, Request.lds_resKeys, Request.lds_carried] at h ⊢

/-- `_read_build_requests`: every tag request inside a built packet is the request of a tag the parser accepted
    (its id and its addressed tag); in particular no packet carries the id of a request whose parse failed -/
theorem lds_readBuild_carried (cfg : Cfg) (d d' : Cli.Drv) (ps : List Parsed) (reqs : List Request)
    (h : readBuildRequests cfg d ps = (d', .ok reqs)) :
    ∀ q ∈ reqs, q.lds_isReadKind = true ∧ ∀ k ∈ q.lds_carried, lds_Live ps k := by
  unfold readBuildRequests at h
  dsimp only at h
  split at h
  · rcases hl : readBuildLive cfg d.connectionSize true d ps with ⟨d1, live⟩
    rw [hl] at h
    dsimp only at h
    cases live with
    | error e => cases h
    | ok items =>
      dsimp only at h
      have hlive := lds_readBuildLive_live cfg _ true ps d d1 items hl
      simp only [Prod.mk.injEq, Except.ok.injEq] at h
      obtain ⟨_, rfl⟩ := h
      intro q hq
      rcases List.mem_append.1 hq with hq | hq
      · obtain ⟨m, hm, rfl⟩ := List.mem_map.1 hq
        refine ⟨rfl, ?_⟩
        intro k hk
        simp only [Request.lds_carried, List.mem_map] at hk
        obtain ⟨r, hr, rfl⟩ := hk
        have hm2 : m.2 ∈ (drawSeqs d1 _).2.map (·.2) := List.mem_map.2 ⟨m, hm, rfl⟩
        rw [lds_drawSeqs_snd] at hm2
        obtain ⟨g, _, hg⟩ := List.mem_map.1 hm2
        rw [← hg] at hr
        obtain ⟨id, _, hid⟩ := List.mem_filterMap.1 hr
        cases hf : items.find? (fun x => x.1.rid == id) with
        | none => rw [hf] at hid; cases hid
        | some x =>
          rw [hf] at hid
          simp only [Option.map_some, Option.some.injEq] at hid
          subst hid
          exact hlive x (List.mem_of_find?_eq_some hf)
      · obtain ⟨x, hx, rfl⟩ := List.mem_map.1 hq
        refine ⟨rfl, ?_⟩
        intro k hk
        simp only [Request.lds_carried, List.mem_singleton] at hk
        subst hk
        exact hlive x (List.mem_filter.1 hx).1
  · rcases hl : readBuildLive cfg d.connectionSize false d ps with ⟨d1, live⟩
    rw [hl] at h
    dsimp only at h
    cases live with
    | error e => cases h
    | ok items =>
      have hlive := lds_readBuildLive_live cfg _ false ps d d1 items hl
      simp only [Except.map, Prod.mk.injEq, Except.ok.injEq] at h
      obtain ⟨_, rfl⟩ := h
      intro q hq
      obtain ⟨x, hx, rfl⟩ := List.mem_map.1 hq
      split
      · refine ⟨rfl, ?_⟩
        intro k hk
        simp only [Request.lds_carried, List.mem_singleton] at hk
        subst hk
        exact hlive x hx
      · refine ⟨rfl, ?_⟩
        intro k hk
        simp only [Request.lds_carried, List.mem_singleton] at hk
        subst hk
        exact hlive x hx

/-! ### what `_send_requests` stores in `results` -/

theorem lds_set_mem (rs : Results) (k : Int) (t : LTag) (x : Int × LTag) (h : x ∈ rs.set k t) :
    x ∈ rs ∨ x = (k, t) := by
  unfold Results.set at h
  split at h
  · obtain ⟨y, hy, rfl⟩ := List.mem_map.1 h
    split
    · exact .inr rfl
    · exact .inl hy
  · rcases List.mem_append.1 h with h | h
    · exact .inl h
    · exact .inr (by simpa using h)

theorem lds_readTag_tag (req : ReadReq) (r : Resp) (v : PyVal) (dt : Option Name) (t : LTag)
    (h : readTag req r v dt = .ok t) : t.tag = req.tag := by
  unfold readTag at h
  split at h
  · cases h
  · cases h; split <;> rfl

theorem lds_writeTag_tag (tag : Name) (value : PyVal) (dtn : Name) (r : Resp) (t : LTag)
    (h : writeTag tag value dtn r = .ok t) : t.tag = tag := by
  unfold writeTag at h
  split at h
  · cases h
  · cases h; split <;> rfl

theorem lds_multiPacketError_err (r : Resp) (e : Exn) (h : multiPacketError r = .error e) : r.error = .error e := by
  unfold multiPacketError at h
  split at h
  · cases h
  · split at h
    · cases h
    · exact h

theorem lds_multiFailAll_keys (err : TagErr) (l : List (Int × Name)) :
    ∀ (rs : Results), ∀ kt ∈ multiFailAll rs err l, kt ∈ rs ∨ ∃ x ∈ l, kt.1 = x.1 ∧ kt.2.tag = x.2 := by
  induction l with
  | nil => intro rs kt hkt; exact .inl hkt
  | cons x rest ih =>
    intro rs kt hkt
    obtain ⟨rid, tag⟩ := x
    rw [multiFailAll] at hkt
    rcases ih _ kt hkt with h1 | ⟨y, hy, h2⟩
    · rcases lds_set_mem _ _ _ _ h1 with h1 | rfl
      · exact .inl h1
      · exact .inr ⟨(rid, tag), List.mem_cons_self, rfl, rfl⟩
    · exact .inr ⟨y, List.mem_cons_of_mem _ hy, h2⟩

theorem lds_multiRead_keys (l : List (ReadReq × Option Bytes)) :
    ∀ (rs rs' : Results), multiReadResults rs l = .ok rs' →
      ∀ kt ∈ rs', kt ∈ rs ∨ ∃ x ∈ l, kt.1 = (x.1.rid : Int) ∧ kt.2.tag = x.1.tag := by
  induction l with
  | nil => intro rs rs' h kt hkt; simp only [multiReadResults] at h; cases h; exact .inl hkt
  | cons x rest ih =>
    intro rs rs' h kt hkt
    obtain ⟨req, raw⟩ := x
    rw [multiReadResults] at h
    dsimp only at h
    split at h
    · rcases ih _ _ h kt hkt with h1 | ⟨y, hy, h2⟩
      · rcases lds_set_mem _ _ _ _ h1 with h1 | rfl
        · exact .inl h1
        · exact .inr ⟨(req, raw), List.mem_cons_self, rfl, rfl⟩
      · exact .inr ⟨y, List.mem_cons_of_mem _ hy, h2⟩
    · split at h
      · cases h
      · rcases ih _ _ h kt hkt with h1 | ⟨y, hy, h2⟩
        · rcases lds_set_mem _ _ _ _ h1 with h1 | rfl
          · exact .inl h1
          · exact .inr ⟨(req, raw), List.mem_cons_self, rfl, rfl⟩
        · exact .inr ⟨y, List.mem_cons_of_mem _ hy, h2⟩

theorem lds_multiWrite_keys (l : List (WriteReq × Option Bytes)) :
    ∀ (rs rs' : Results), multiWriteResults rs l = .ok rs' →
      ∀ kt ∈ rs', kt ∈ rs ∨ ∃ x ∈ l, kt.1 = (x.1.rid : Int) ∧ kt.2.tag = x.1.tag := by
  induction l with
  | nil => intro rs rs' h kt hkt; simp only [multiWriteResults] at h; cases h; exact .inl hkt
  | cons x rest ih =>
    intro rs rs' h kt hkt
    obtain ⟨req, raw⟩ := x
    rw [multiWriteResults] at h
    split at h
    · rcases ih _ _ h kt hkt with h1 | ⟨y, hy, h2⟩
      · rcases lds_set_mem _ _ _ _ h1 with h1 | rfl
        · exact .inl h1
        · exact .inr ⟨(req, raw), List.mem_cons_self, rfl, rfl⟩
      · exact .inr ⟨y, List.mem_cons_of_mem _ hy, h2⟩
    · split at h
      · cases h
      · rcases ih _ _ h kt hkt with h1 | ⟨y, hy, h2⟩
        · rcases lds_set_mem _ _ _ _ h1 with h1 | rfl
          · exact .inl h1
          · exact .inr ⟨(req, raw), List.mem_cons_self, rfl, rfl⟩
        · exact .inr ⟨y, List.mem_cons_of_mem _ hy, h2⟩

/-- a Tag stored by one iteration of `_send_requests` is keyed and named by a tag request of the packet -/
theorem lds_sendRequest_keys {σ} (hook : ObjHook σ) (w w' : Cli.World σ) (rs rs' : Results) (q : Request)
    (h : sendRequest hook w rs q = (w', .ok rs')) :
    ∀ kt ∈ rs', kt ∈ rs ∨ (kt.1, kt.2.tag) ∈ q.lds_resKeys := by
  intro kt hkt
  have single : ∀ (k : Int) (tag : Name) (r : Except Exn LTag) (ht : ∀ t, r = .ok t → t.tag = tag),
      (r.map fun t => rs.set k t) = .ok rs' → kt ∈ rs ∨ (kt.1, kt.2.tag) = (k, tag) := by
    intro k tag r ht hr
    cases r with
    | error e => cases hr
    | ok t =>
      simp only [Except.map, Except.ok.injEq] at hr
      subst hr
      rcases lds_set_mem _ _ _ _ hkt with h1 | rfl
      · exact .inl h1
      · exact .inr (by rw [ht t rfl])
  cases q with
  | read req =>
    simp only [sendRequest] at h
    split at h
    · cases h
    · simp only [Prod.mk.injEq] at h
      rcases single req.rid req.tag _ (fun t => lds_readTag_tag _ _ _ _ t) h.2 with h1 | h1
      · exact .inl h1
      · exact .inr (by simp [Request.lds_resKeys, h1])
  | readFrag req =>
    simp only [sendRequest] at h
    split at h
    · cases h
    · simp only [Prod.mk.injEq] at h
      rcases single req.rid req.tag _ (fun t => lds_readTag_tag _ _ _ _ t) h.2 with h1 | h1
      · exact .inl h1
      · exact .inr (by simp [Request.lds_resKeys, h1])
  | write req =>
    simp only [sendRequest] at h
    split at h
    · cases h
    · simp only [Prod.mk.injEq] at h
      rcases single req.rid req.tag _ (fun t => lds_writeTag_tag _ _ _ _ t) h.2 with h1 | h1
      · exact .inl h1
      · exact .inr (by simp [Request.lds_resKeys, h1])
  | writeFrag req =>
    simp only [sendRequest] at h
    split at h
    · cases h
    · simp only [Prod.mk.injEq] at h
      rcases single req.rid req.tag _ (fun t => lds_writeTag_tag _ _ _ _ t) h.2 with h1 | h1
      · exact .inl h1
      · exact .inr (by simp [Request.lds_resKeys, h1])
  | rmw req =>
    simp only [sendRequest] at h
    split at h
    · cases h
    · split at h
      · cases h
      · simp only [Prod.mk.injEq] at h
        rcases single req.rid req.tag _ (fun t => lds_writeTag_tag _ _ _ _ t) h.2 with h1 | h1
        · exact .inl h1
        · exact .inr (by simp [Request.lds_resKeys, h1])
  | multiRead seq reqs =>
    simp only [sendRequest] at h
    split at h
    · cases h
    · split at h
      · cases h
      · simp only [Prod.mk.injEq, Except.ok.injEq] at h
        rw [← h.2] at hkt
        rcases lds_multiFailAll_keys _ _ _ kt hkt with h1 | ⟨y, hy, h1, h2⟩
        · exact .inl h1
        · refine .inr ?_
          obtain ⟨x, hx, rfl⟩ := List.mem_map.1 hy
          simp only [Request.lds_resKeys, List.mem_map]
          exact ⟨x.1, (List.of_mem_zip hx).1, by rw [h1, h2]⟩
      · simp only [Prod.mk.injEq] at h
        rcases lds_multiRead_keys _ _ _ h.2 kt hkt with h1 | ⟨x, hx, h1, h2⟩
        · exact .inl h1
        · refine .inr ?_
          simp only [Request.lds_resKeys, List.mem_map]
          exact ⟨x.1, (List.of_mem_zip hx).1, by rw [h1, h2]⟩
  | multiWrite seq reqs =>
    simp only [sendRequest] at h
    split at h
    · cases h
    · split at h
      · cases h
      · simp only [Prod.mk.injEq, Except.ok.injEq] at h
        rw [← h.2] at hkt
        rcases lds_multiFailAll_keys _ _ _ kt hkt with h1 | ⟨y, hy, h1, h2⟩
        · exact .inl h1
        · refine .inr ?_
          obtain ⟨x, hx, rfl⟩ := List.mem_map.1 hy
          simp only [Request.lds_resKeys, List.mem_map]
          exact ⟨x.1, (List.of_mem_zip hx).1, by rw [h1, h2]⟩
      · simp only [Prod.mk.injEq] at h
        rcases lds_multiWrite_keys _ _ _ h.2 kt hkt with h1 | ⟨x, hx, h1, h2⟩
        · exact .inl h1
        · refine .inr ?_
          simp only [Request.lds_resKeys, List.mem_map]
          exact ⟨x.1, (List.of_mem_zip hx).1, by rw [h1, h2]⟩

theorem lds_sendRequests_keys {σ} (hook : ObjHook σ) (reqs : List Request) :
    ∀ (w w' : Cli.World σ) (rs rs' : Results), sendRequests hook w rs reqs = (w', .ok rs') →
      ∀ kt ∈ rs', kt ∈ rs ∨ ∃ q ∈ reqs, (kt.1, kt.2.tag) ∈ q.lds_resKeys := by
  induction reqs with
  | nil => intro w w' rs rs' h kt hkt; simp only [sendRequests, Prod.mk.injEq, Except.ok.injEq] at h; rw [← h.2] at hkt; exact .inl hkt
  | cons q rest ih =>
    intro w w' rs rs' h kt hkt
    rw [sendRequests] at h
    rcases hq : sendRequest hook w rs q with ⟨w1, r⟩
    rw [hq] at h
    dsimp only at h
    cases r with
    | error e => cases h
    | ok rs1 =>
      dsimp only at h
      rcases ih _ _ _ _ h kt hkt with h1 | ⟨q', hq', h1⟩
      · rcases lds_sendRequest_keys hook w w1 rs rs1 q hq kt h1 with h2 | h2
        · exact .inl h2
        · exact .inr ⟨q, List.mem_cons_self, h2⟩
      · exact .inr ⟨q', List.mem_cons_of_mem _ hq', h1⟩

/-! ### `read`: the steps of a call that returns, and the result of one request -/

theorem lds_get?_mem (rs : Results) (k : Int) (t : LTag) (h : rs.get? k = some t) : (k, t) ∈ rs := by
  unfold Results.get? at h
  cases hf : rs.find? (fun x => x.1 == k) with
  | none => rw [hf] at h; cases h
  | some x =>
    rw [hf] at h
    simp only [Option.map_some, Option.some.injEq] at h
    have hk := List.find?_some hf
    simp only [beq_iff_eq] at hk
    have := List.mem_of_find?_eq_some hf
    obtain ⟨a, b⟩ := x
    dsimp only at h hk
    subst h; subst hk
    exact this

/-- the Tags in the result table of a `read` are keyed and named by accepted requests -/
theorem lds_read_table {σ} (hook : ObjHook σ) (cfg : Cfg) (d d1 : Cli.Drv) (ps : List Parsed) (reqs : List Request)
    (w w2 : Cli.World σ) (rs : Results)
    (hb : readBuildRequests cfg d ps = (d1, .ok reqs)) (hs : sendRequests hook w [] reqs = (w2, .ok rs))
    (k : Int) (t : LTag) (h : rs.get? k = some t) : ∃ k' : Nat, k = (k' : Int) ∧ lds_Live ps (k', t.tag) := by
  rcases lds_sendRequests_keys hook reqs w w2 [] rs hs (k, t) (lds_get?_mem rs k t h) with h1 | ⟨q, hq, h1⟩
  · cases h1
  · obtain ⟨hr, hc⟩ := lds_readBuild_carried cfg d d1 ps reqs hb q hq
    rw [lds_resKeys_carried q (lds_isRmw_of_readKind q hr)] at h1
    obtain ⟨k', hk', he⟩ := List.mem_map.1 h1
    simp only [Prod.mk.injEq] at he
    refine ⟨k'.1, he.1.symm, ?_⟩
    rw [← he.2]
    exact hc k' hk'

/-- the steps of a `read` that returns -/
theorem lds_read_ok {σ} (hook : ObjHook σ) (cfg : Cfg) (w w' : Cli.World σ) (tags : List Name) (res : List LTag)
    (h : read hook cfg w tags = (w', .ok res)) :
    ∃ w0 u d1 reqs rs,
      Cli.ensureForwardOpen hook Cli.FUEL w = (w0, .ok u) ∧
      readBuildRequests cfg w0.drv (parseRequestedTags cfg.tags false tags) = (d1, .ok reqs) ∧
      sendRequests hook { w0 with drv := d1 } [] reqs = (w', .ok rs) ∧
      tags ≠ [] ∧
      res = (parseRequestedTags cfg.tags false tags).map fun p => readResult p rs := by
  unfold read at h
  generalize Cli.ensureForwardOpen hook Cli.FUEL w = r at h ⊢
  obtain ⟨w0, pre⟩ := r
  dsimp only at h
  cases pre with
  | error e => cases h
  | ok u =>
    dsimp only at h
    rcases hb : readBuildRequests cfg w0.drv (parseRequestedTags cfg.tags false tags) with ⟨d1, reqs⟩
    rw [hb] at h
    dsimp only at h
    cases reqs with
    | error e => cases h
    | ok reqs =>
      dsimp only at h
      rcases hs : sendRequests hook { w0 with drv := d1 } [] reqs with ⟨w2, rs⟩
      rw [hs] at h
      dsimp only at h
      cases rs with
      | error e => cases h
      | ok rs =>
        dsimp only at h
        split at h
        · cases h
        · next hne =>
          simp only [Prod.mk.injEq, Except.ok.injEq] at h
          obtain ⟨rfl, rfl⟩ := h
          exact ⟨w0, u, d1, reqs, rs, rfl, hb, hs, by simpa using hne, rfl⟩

theorem lds_readResult_err (p : Parsed) (rs : Results) (e : TagErr) (h : p.error = some e) :
    readResult p rs = { tag := p.requestTag, value := .none, type := none, error := some e } := by
  unfold readResult; rw [h]

/-- the name of the Tag `read` returns for one request: the request string (then the Tag is falsy with an error),
    the request without its element count, or the name of the Tag found in the result table -/
theorem lds_readResult_tag (p : Parsed) (rs : Results) :
    ((readResult p rs).tag = p.requestTag ∧ (readResult p rs).value = .none ∧ (readResult p rs).error ≠ none) ∨
    (readResult p rs).tag = p.userTag ∨
    (p.error = none ∧ p.bit = none ∧ (∃ info, p.info = some info ∧ info.core.dataTypeName ≠ nm "DWORD") ∧
      rs.get? p.requestId = some (readResult p rs)) := by
  unfold readResult
  cases he : p.error with
  | some e => exact .inl ⟨rfl, rfl, by simp⟩
  | none =>
    dsimp only
    cases hg : rs.get? p.requestId with
    | none => exact .inl ⟨rfl, rfl, by simp [invalidTag]⟩
    | some result =>
      cases hi : p.info with
      | none => exact .inl ⟨rfl, rfl, by simp [invalidTag]⟩
      | some info =>
        dsimp only
        split
        · split
          · next hnd =>
            cases hb : p.bit with
            | some bit =>
              dsimp only
              split
              · exact .inr (.inl rfl)
              · exact .inl ⟨rfl, rfl, by simp [invalidTag]⟩
            | none =>
              exact .inr (.inr ⟨rfl, rfl, ⟨info, rfl, by simpa using hnd⟩, rfl⟩)
          · split
            · exact .inl ⟨rfl, rfl, by simp [invalidTag]⟩
            · split
              · exact .inr (.inl rfl)
              · split
                · exact .inr (.inl rfl)
                · exact .inl ⟨rfl, rfl, by simp [invalidTag]⟩
        · exact .inr (.inl rfl)

/-! ### the write builders -/

theorem lds_encodeValue_fst (p : Parsed) (info : TagInfo) :
    (encodeValue p info).1 = p ∨ (encodeValue p info).1 = { p with elements := p.elements - p.bit.getD 0 / 32 } := by
  unfold encodeValue
  split
  · exact .inl rfl
  · dsimp only
    split
    · exact .inl rfl
    · repeat' split
      all_goals first | exact .inl rfl | exact .inr rfl

/-- `q` is `p` after the write builders: only the element count and the error may have changed, and an error
    only from "none" to a non-empty text -/
structure lds_Stable (p q : Parsed) : Prop where
  rid : q.requestId = p.requestId
  rtag : q.requestTag = p.requestTag
  utag : q.userTag = p.userTag
  ptag : q.plcTag = p.plcTag
  bit : q.bit = p.bit
  info : q.info = p.info
  be : q.boolElements = p.boolElements
  value : q.value = p.value
  keep : ∀ e, p.error = some e → q = p
  errs : ∀ e, q.error = some e → p.error = some e ∨ lds_TextErr e

theorem lds_Stable_refl (p : Parsed) : lds_Stable p p :=
  ⟨rfl, rfl, rfl, rfl, rfl, rfl, rfl, rfl, fun _ _ => rfl, fun _ h => .inl h⟩

theorem lds_Stable_encode (p : Parsed) (info : TagInfo) (he : p.error = none) :
    lds_Stable p (encodeValue p info).1 ∧ (encodeValue p info).1.error = none := by
  rcases lds_encodeValue_fst p info with h | h <;> rw [h]
  · exact ⟨lds_Stable_refl p, he⟩
  · exact ⟨⟨rfl, rfl, rfl, rfl, rfl, rfl, rfl, rfl, fun e h' => by (rw [he] at h'; cases h'),
      fun e h' => .inl h'⟩, he⟩

theorem lds_Stable_encode_err (p : Parsed) (info : TagInfo) (he : p.error = none) (s : Name) (hs : s ≠ []) :
    lds_Stable p { (encodeValue p info).1 with error := some (.text s) } := by
  have h1 := (lds_Stable_encode p info he).1
  exact ⟨h1.rid, h1.rtag, h1.utag, h1.ptag, h1.bit, h1.info, h1.be, h1.value,
    fun e h' => by (rw [he] at h'; cases h'), fun e h' => .inr ⟨s, by (cases h'; rfl), hs⟩⟩

/-- request ids are positions (what `parseRequestedTags` delivers) -/
def lds_IdsPos (ps : List Parsed) : Prop := ∀ i (h : i < ps.length), ps[i].requestId = i

/-- the builder's copy `acc` of the parsed requests `ps` -/
def lds_Inv (ps acc : List Parsed) : Prop :=
  acc.length = ps.length ∧ ∀ i (h : i < ps.length) (h' : i < acc.length), lds_Stable ps[i] acc[i]

theorem lds_Inv_refl (ps : List Parsed) : lds_Inv ps ps := ⟨rfl, fun _ _ _ => lds_Stable_refl _⟩

theorem lds_Inv_replace (ps acc : List Parsed) (hpos : lds_IdsPos ps) (hinv : lds_Inv ps acc)
    (p p' : Parsed) (hp : p ∈ ps) (hst : lds_Stable p p') : lds_Inv ps (replaceParsed acc p') := by
  obtain ⟨hl, hi⟩ := hinv
  refine ⟨by simp [replaceParsed, hl], ?_⟩
  intro i h h'
  have h'' : i < acc.length := by rw [hl]; exact h
  simp only [replaceParsed, List.getElem_map]
  split
  · next heq =>
    simp only [beq_iff_eq] at heq
    obtain ⟨j, hj, rfl⟩ := List.getElem_of_mem hp
    have e1 := (hi i h h'').rid
    rw [heq, hst.rid, hpos j hj, hpos i h] at e1
    subst e1
    exact hst
  · exact hi i h h''

theorem lds_mkWriteReq_ok (cfg : Cfg) (d d1 : Cli.Drv) (p : Parsed) (info : TagInfo) (v : Bytes) (req : WriteReq)
    (h : mkWriteReq cfg d p info v = (d1, .ok req)) : req.rid = p.requestId ∧ req.tag = p.plcTag := by
  unfold mkWriteReq at h
  dsimp only at h
  split at h
  · cases h
  · cases h
  · cases h; exact ⟨rfl, rfl⟩

theorem lds_mkRmwReq_ok (cfg : Cfg) (d d1 : Cli.Drv) (p : Parsed) (info : TagInfo) (rid : Int) (r : RmwReq)
    (h : mkRmwReq cfg d p info rid = (d1, .ok r)) : r.tag = p.plcTag ∧ r.requestIds = [] := by
  unfold mkRmwReq at h
  dsimp only at h
  split at h
  · cases h
  · split at h
    · cases h
    · cases h; exact ⟨rfl, rfl⟩

theorem lds_refresh_write (b : Bool) (d : Cli.Drv) (r : WriteReq) :
    (if b = true then r.refresh d else (d, r)).2.rid = r.rid ∧ (if b = true then r.refresh d else (d, r)).2.tag = r.tag := by
  cases b <;> exact ⟨rfl, rfl⟩

/-- `ps`-liveness of what a `WriteBuild` holds -/
def lds_WBLive (ps : List Parsed) (b : WriteBuild) : Prop :=
  (∀ x ∈ b.writes, lds_Live ps (x.1.rid, x.1.tag)) ∧ (∀ r ∈ b.rmws, ∀ id ∈ r.requestIds, lds_Live ps (id, r.tag))

theorem lds_writeBuildLive_inv (cfg : Cfg) (C : Nat) (ps : List Parsed) (hpos : lds_IdsPos ps) (rest : List Parsed) :
    ∀ (d d' : Cli.Drv) (acc b : WriteBuild), (∀ p ∈ rest, p ∈ ps) →
      writeBuildLive cfg C d acc rest = (d', .ok b) → lds_Inv ps acc.parsed → lds_WBLive ps acc →
      lds_Inv ps b.parsed ∧ lds_WBLive ps b := by
  induction rest with
  | nil =>
    intro d d' acc b _ h hinv hl
    simp only [writeBuildLive, Prod.mk.injEq, Except.ok.injEq] at h
    rw [← h.2]; exact ⟨hinv, hl⟩
  | cons p rest ih =>
    intro d d' acc b hsub h hinv hl
    have hp : p ∈ ps := hsub p List.mem_cons_self
    have hsub' : ∀ q ∈ rest, q ∈ ps := fun q hq => hsub q (List.mem_cons_of_mem _ hq)
    rw [writeBuildLive] at h
    split at h
    · next info he hi =>
      have hlive : lds_Live ps (p.requestId, p.plcTag) := ⟨p, hp, he, rfl, rfl⟩
      split at h
      · -- a bit write
        split at h
        · next r hf =>
          have hr := List.mem_of_find?_eq_some hf
          have htag : r.tag = p.plcTag := by simpa using List.find?_some hf
          refine ih _ _ _ _ hsub' h hinv ⟨hl.1, ?_⟩
          intro x hx id hid
          obtain ⟨y, hy, rfl⟩ := List.mem_map.1 hx
          by_cases hyt : (y.tag == p.plcTag) = true
          · rw [if_pos hyt] at hid ⊢
            simp only [RmwReq.setBit, List.mem_append, List.mem_singleton] at hid
            rcases hid with hid | rfl
            · exact hl.2 r hr id hid
            · show lds_Live ps (p.requestId, r.tag)
              rw [htag]; exact hlive
          · rw [if_neg hyt] at hid ⊢
            exact hl.2 y hy id hid
        · rcases hm : mkRmwReq cfg d p info (-(1 + (acc.rmws.length : Int))) with ⟨d1, r⟩
          rw [hm] at h
          dsimp only at h
          cases r with
          | error e => cases h
          | ok r =>
            dsimp only at h
            obtain ⟨htag, hids⟩ := lds_mkRmwReq_ok cfg d d1 p info _ r hm
            refine ih _ _ _ _ hsub' h hinv ⟨hl.1, ?_⟩
            intro x hx id hid
            rcases List.mem_append.1 hx with hx | hx
            · exact hl.2 x hx id hid
            · simp only [List.mem_singleton] at hx
              subst hx
              simp only [RmwReq.setBit, hids, List.nil_append, List.mem_singleton] at hid
              subst hid
              show lds_Live ps (p.requestId, r.tag)
              rw [htag]; exact hlive
      · -- a value write
        obtain ⟨hst, herr⟩ := lds_Stable_encode p info he
        rcases hev : encodeValue p info with ⟨p1, enc⟩
        rw [hev] at h hst herr
        dsimp only at h hst herr
        cases enc with
        | none =>
          dsimp only at h
          refine ih _ _ _ _ hsub' h ?_ hl
          have := lds_Stable_encode_err p info he (nm "Error encoding value - " ++ unableToWrite) (by simp [nm])
          rw [hev] at this
          exact lds_Inv_replace ps acc.parsed hpos hinv p _ hp this
        | some value =>
          dsimp only at h
          rcases hm : mkWriteReq cfg d p1 info value with ⟨d1, r⟩
          rw [hm] at h
          dsimp only at h
          cases r with
          | error e => cases h
          | ok req =>
            dsimp only at h
            obtain ⟨hrid, htag⟩ := lds_mkWriteReq_ok cfg d d1 p1 info value req hm
            refine ih _ _ _ _ hsub' h (lds_Inv_replace ps acc.parsed hpos hinv p p1 hp hst) ⟨?_, hl.2⟩
            intro x hx
            rcases List.mem_append.1 hx with hx | hx
            · exact hl.1 x hx
            · simp only [List.mem_singleton] at hx
              subst hx
              dsimp only
              rw [(lds_refresh_write _ d1 req).1, (lds_refresh_write _ d1 req).2, hrid, htag, hst.rid, hst.ptag]
              exact hlive
    · exact ih _ _ _ _ hsub' h hinv hl

theorem lds_writeBuildSingles_inv (cfg : Cfg) (C : Nat) (ps : List Parsed) (hpos : lds_IdsPos ps) (rest : List Parsed) :
    ∀ (d d' : Cli.Drv) (acc ps' : List Parsed) (reqs : List Request), (∀ p ∈ rest, p ∈ ps) →
      writeBuildSingles cfg C d acc rest = (d', .ok (ps', reqs)) → lds_Inv ps acc →
      lds_Inv ps ps' ∧ ∀ q ∈ reqs, ∀ k ∈ q.lds_carried, lds_Live ps k := by
  induction rest with
  | nil =>
    intro d d' acc ps' reqs _ h hinv
    simp only [writeBuildSingles, Prod.mk.injEq, Except.ok.injEq] at h
    obtain ⟨_, rfl, rfl⟩ := h
    exact ⟨hinv, fun q hq => by cases hq⟩
  | cons p rest ih =>
    intro d d' acc ps' reqs hsub h hinv
    have hp : p ∈ ps := hsub p List.mem_cons_self
    have hsub' : ∀ q ∈ rest, q ∈ ps := fun q hq => hsub q (List.mem_cons_of_mem _ hq)
    rw [writeBuildSingles] at h
    split at h
    · next info he hi =>
      have hlive : lds_Live ps (p.requestId, p.plcTag) := ⟨p, hp, he, rfl, rfl⟩
      split at h
      · rcases hm : mkRmwReq cfg d p info (-(1 + (p.requestId : Int))) with ⟨d1, r⟩
        rw [hm] at h
        dsimp only at h
        cases r with
        | error e => cases h
        | ok r =>
          dsimp only at h
          obtain ⟨htag, hids⟩ := lds_mkRmwReq_ok cfg d d1 p info _ r hm
          rcases hrec : writeBuildSingles cfg C d1 acc rest with ⟨d2, more⟩
          rw [hrec] at h
          dsimp only at h
          cases more with
          | error e => cases h
          | ok x =>
            obtain ⟨xs, xr⟩ := x
            simp only [Except.map, Prod.mk.injEq, Except.ok.injEq] at h
            obtain ⟨_, rfl, rfl⟩ := h
            obtain ⟨h1, h2⟩ := ih _ _ _ _ _ hsub' hrec hinv
            refine ⟨h1, ?_⟩
            intro q hq k hk
            rcases List.mem_cons.1 hq with rfl | hq
            · simp only [Request.lds_carried, RmwReq.setBit, hids, List.nil_append, List.map_cons, List.map_nil,
                List.mem_singleton] at hk
              subst hk
              rw [htag]; exact hlive
            · exact h2 q hq k hk
      · obtain ⟨hst, herr⟩ := lds_Stable_encode p info he
        rcases hev : encodeValue p info with ⟨p1, enc⟩
        rw [hev] at h hst herr
        dsimp only at h hst herr
        cases enc with
        | none =>
          dsimp only at h
          refine ih _ _ _ _ _ hsub' h ?_
          have := lds_Stable_encode_err p info he (nm "Invalid Tag Request - " ++ unableToWrite) (by simp [nm])
          rw [hev] at this
          exact lds_Inv_replace ps acc hpos hinv p _ hp this
        | some value =>
          dsimp only at h
          rcases hm : mkWriteReq cfg d p1 info value with ⟨d1, r⟩
          rw [hm] at h
          dsimp only at h
          cases r with
          | error e => cases h
          | ok req =>
            dsimp only at h
            obtain ⟨hrid, htag⟩ := lds_mkWriteReq_ok cfg d d1 p1 info value req hm
            generalize hfr : (if decide (value.length + req.messageLen > C) = true then req.refresh d1 else (d1, req)) = fr at h
            have hfr2 : fr.2.rid = p.requestId ∧ fr.2.tag = p.plcTag := by
              rw [← hfr, (lds_refresh_write _ d1 req).1, (lds_refresh_write _ d1 req).2, hrid, htag, hst.rid, hst.ptag]
              exact ⟨rfl, rfl⟩
            obtain ⟨d2, req2⟩ := fr
            dsimp only at h hfr2
            rcases hrec : writeBuildSingles cfg C d2 (replaceParsed acc p1) rest with ⟨d3, more⟩
            rw [hrec] at h
            dsimp only at h
            cases more with
            | error e => cases h
            | ok x =>
              obtain ⟨xs, xr⟩ := x
              simp only [Except.map, Prod.mk.injEq, Except.ok.injEq] at h
              obtain ⟨_, rfl, rfl⟩ := h
              obtain ⟨h1, h2⟩ := ih _ _ _ _ _ hsub' hrec (lds_Inv_replace ps acc hpos hinv p p1 hp hst)
              refine ⟨h1, ?_⟩
              intro q hq k hk
              rcases List.mem_cons.1 hq with rfl | hq
              · have : k = (req2.rid, req2.tag) := by
                  split at hk <;> simpa [Request.lds_carried] using hk
                rw [this, hfr2.1, hfr2.2]; exact hlive
              · exact h2 q hq k hk
    · exact ih _ _ _ _ _ hsub' h hinv

/-- `_write_build_requests`: the parsed requests it hands back are the given ones up to element count and added
    (non-empty) errors, and every tag request inside a built packet is the request of an accepted tag -/
theorem lds_writeBuild_inv (cfg : Cfg) (d d' : Cli.Drv) (ps ps' : List Parsed) (reqs : List Request)
    (hpos : lds_IdsPos ps) (h : writeBuildRequests cfg d ps = (d', .ok (ps', reqs))) :
    lds_Inv ps ps' ∧ ∀ q ∈ reqs, ∀ k ∈ q.lds_carried, lds_Live ps k := by
  unfold writeBuildRequests at h
  dsimp only at h
  split at h
  · rcases hl : writeBuildLive cfg d.connectionSize d { parsed := ps } ps with ⟨d1, b⟩
    rw [hl] at h
    dsimp only at h
    cases b with
    | error e => cases h
    | ok b =>
      dsimp only at h
      simp only [Prod.mk.injEq, Except.ok.injEq] at h
      obtain ⟨_, rfl, rfl⟩ := h
      obtain ⟨h1, h2, h3⟩ := lds_writeBuildLive_inv cfg _ ps hpos ps d d1 { parsed := ps } b (fun _ h => h) hl
        (lds_Inv_refl ps) ⟨fun x hx => (by cases hx), fun r hr => (by cases hr)⟩
      refine ⟨h1, ?_⟩
      intro q hq k hk
      rcases List.mem_append.1 hq with hq | hq
      · rcases List.mem_append.1 hq with hq | hq
        · obtain ⟨m, hm, rfl⟩ := List.mem_map.1 hq
          simp only [Request.lds_carried, List.mem_map] at hk
          obtain ⟨r, hr, rfl⟩ := hk
          have hm2 : m.2 ∈ (drawSeqs d1 _).2.map (·.2) := List.mem_map.2 ⟨m, hm, rfl⟩
          rw [lds_drawSeqs_snd] at hm2
          obtain ⟨g, _, hg⟩ := List.mem_map.1 hm2
          rw [← hg] at hr
          obtain ⟨id, _, hid⟩ := List.mem_filterMap.1 hr
          have hmem := List.mem_of_find?_eq_some hid
          obtain ⟨x, hx, rfl⟩ := List.mem_map.1 hmem
          exact h2 x (List.mem_filter.1 hx).1
        · obtain ⟨x, hx, rfl⟩ := List.mem_map.1 hq
          simp only [Request.lds_carried, List.mem_singleton] at hk
          subst hk
          exact h2 x (List.mem_filter.1 hx).1
      · obtain ⟨r, hr, rfl⟩ := List.mem_map.1 hq
        simp only [Request.lds_carried, List.mem_map] at hk
        obtain ⟨id, hid, rfl⟩ := hk
        exact h3 r hr id hid
  · exact lds_writeBuildSingles_inv cfg _ ps hpos ps d d' ps ps' reqs (fun _ h => h) h (lds_Inv_refl ps)

/-! ### `write`: the parsed (tag, value) pairs, the steps of a call that returns, the result of one request -/

/-- the parsed requests of `write`: every parsed tag with the caller's value -/
def lds_wparse (db : TagDb) (tvs : List (Name × PyVal)) : List Parsed :=
  ((parseRequestedTags db true (tvs.map (·.1))).zip (tvs.map (·.2))).map fun x => { x.1 with value := x.2 }

theorem lds_wparse_length (db : TagDb) (tvs : List (Name × PyVal)) : (lds_wparse db tvs).length = tvs.length := by
  simp [lds_wparse, lds_parse_length]

theorem lds_wparse_getElem (db : TagDb) (tvs : List (Name × PyVal)) (i : Nat) (h : i < tvs.length) :
    (lds_wparse db tvs)[i]'(by rw [lds_wparse_length]; exact h)
      = { parseTagRequest db true i tvs[i].1 with value := tvs[i].2 } := by
  simp only [lds_wparse, List.getElem_map, List.getElem_zip]
  rw [lds_parse_getElem db true (tvs.map (·.1)) i (by simpa using h)]
  simp

theorem lds_parse_idsPos (db : TagDb) (rw : Bool) (tags : List Name) : lds_IdsPos (parseRequestedTags db rw tags) := by
  intro i h
  have h' : i < tags.length := by rw [lds_parse_length] at h; exact h
  rw [lds_parse_getElem db rw tags i h', lds_parse_rid]

theorem lds_wparse_idsPos (db : TagDb) (tvs : List (Name × PyVal)) : lds_IdsPos (lds_wparse db tvs) := by
  intro i h
  have h' : i < tvs.length := by rw [lds_wparse_length] at h; exact h
  rw [lds_wparse_getElem db tvs i h']
  exact lds_parse_rid _ _ _ _

/-- the steps of a `write` that returns -/
theorem lds_write_ok {σ} (hook : ObjHook σ) (cfg : Cfg) (w w' : Cli.World σ) (tvs : List (Name × PyVal)) (res : List LTag)
    (h : write hook cfg w tvs = (w', .ok res)) :
    ∃ w0 u d1 ps' reqs rs rs',
      Cli.ensureForwardOpen hook Cli.FUEL w = (w0, .ok u) ∧
      writeBuildRequests cfg w0.drv (lds_wparse cfg.tags tvs) = (d1, .ok (ps', reqs)) ∧
      sendRequests hook { w0 with drv := d1 } [] reqs = (w', .ok rs) ∧
      fanOutRmw rs reqs = some rs' ∧
      tvs ≠ [] ∧
      res = ps'.map fun p => writeResult p rs' := by
  unfold write at h
  generalize Cli.ensureForwardOpen hook Cli.FUEL w = r at h ⊢
  obtain ⟨w0, pre⟩ := r
  dsimp only at h
  cases pre with
  | error e => cases h
  | ok u =>
    dsimp only at h
    rcases hb : writeBuildRequests cfg w0.drv (lds_wparse cfg.tags tvs) with ⟨d1, built⟩
    unfold lds_wparse at hb
    rw [hb] at h
    dsimp only at h
    cases built with
    | error e => cases h
    | ok x =>
      obtain ⟨ps', reqs⟩ := x
      dsimp only at h
      rcases hs : sendRequests hook { w0 with drv := d1 } [] reqs with ⟨w2, rs⟩
      rw [hs] at h
      dsimp only at h
      cases rs with
      | error e => cases h
      | ok rs =>
        dsimp only at h
        cases hf : fanOutRmw rs reqs with
        | none => rw [hf] at h; cases h
        | some rs' =>
          rw [hf] at h
          dsimp only at h
          split at h
          · cases h
          · next hne =>
            simp only [Prod.mk.injEq, Except.ok.injEq] at h
            obtain ⟨rfl, rfl⟩ := h
            exact ⟨w0, u, d1, ps', reqs, rs, rs', rfl, hb, hs, hf, by simpa using hne, rfl⟩

theorem lds_writeResult_err (p : Parsed) (rs : Results) (e : TagErr) (h : p.error = some e) :
    writeResult p rs = { tag := p.requestTag, value := .none, type := none, error := some e } := by
  unfold writeResult; rw [h]

/-- the name of the Tag `write` returns for one request: the request string (then the Tag is falsy with an error) or
    the request without its element count -/
theorem lds_writeResult_tag (p : Parsed) (rs : Results) :
    ((writeResult p rs).tag = p.requestTag ∧ (writeResult p rs).value = .none ∧ (writeResult p rs).error ≠ none) ∨
    ((writeResult p rs).tag = p.userTag ∧ p.error = none ∧ (writeResult p rs).value = p.value) := by
  unfold writeResult
  cases he : p.error with
  | some e => exact .inl ⟨rfl, rfl, by simp⟩
  | none =>
    dsimp only
    cases hg : rs.get? p.requestId with
    | none => exact .inl ⟨rfl, rfl, by simp [invalidTag]⟩
    | some result =>
      cases hi : p.info with
      | none => exact .inl ⟨rfl, rfl, by simp [invalidTag]⟩
      | some info => exact .inr ⟨rfl, rfl, rfl⟩

/-! ### where an exception of `read` can come from -/

/-- an exception raised while sending: the transport (`CIPDriver.send` of a connected request), the fuel of the
    read fragment loop, or `response.error` raising while it reads the extended status of a failed reply -/
def lds_SendErr {σ} (hook : ObjHook σ) (e : Exn) : Prop :=
  (∃ (w : Cli.World σ) (seq : Nat) (msg : Bytes), (Cli.sendReq hook w (.sendUnit seq msg) false).2 = .error e) ∨
  e = .hang ∨
  (∃ r : Resp, r.error = .error e)

theorem lds_mkReadReq_err (cfg : Cfg) (d d1 : Cli.Drv) (p : Parsed) (info : TagInfo) (e : Exn)
    (h : mkReadReq cfg d p info = (d1, .error e)) :
    requestPathOf cfg p.plcTag info = .error e ∨ elementsNat p.elements = .error e := by
  unfold mkReadReq at h
  dsimp only at h
  split at h
  · next he => cases h; exact .inl he
  · cases h; rename_i he; exact .inr he
  · cases h

theorem lds_readBuildLive_err (cfg : Cfg) (C : Nat) (multi : Bool) (ps : List Parsed) :
    ∀ (d d' : Cli.Drv) (e : Exn), readBuildLive cfg C multi d ps = (d', .error e) →
      ∃ p ∈ ps, p.error = none ∧ ∃ info, p.info = some info ∧
        (requestPathOf cfg p.plcTag info = .error e ∨ elementsNat p.elements = .error e) := by
  induction ps with
  | nil => intro d d' e h; simp only [readBuildLive] at h; cases h
  | cons p rest ih =>
    intro d d' e h
    rw [readBuildLive] at h
    split at h
    · next info he hi =>
      rcases hm : mkReadReq cfg d p info with ⟨d1, r⟩
      rw [hm] at h
      dsimp only at h
      cases r with
      | error e' =>
        simp only [Prod.mk.injEq, Except.error.injEq] at h
        obtain ⟨_, rfl⟩ := h
        exact ⟨p, List.mem_cons_self, he, info, hi, lds_mkReadReq_err cfg d d1 p info e' hm⟩
      | ok req =>
        dsimp only at h
        generalize (if (if multi = true then decide (req.returnSize + K.OVERHEAD > C) else decide (req.returnSize > C)) = true
          then req.refresh d1 else (d1, req)) = fr at h
        obtain ⟨d2, req2⟩ := fr
        dsimp only at h
        rcases hrec : readBuildLive cfg C multi d2 rest with ⟨d3, more⟩
        rw [hrec] at h
        dsimp only at h
        cases more with
        | ok xs => cases h
        | error e' =>
          simp only [Except.map, Prod.mk.injEq, Except.error.injEq] at h
          obtain ⟨_, rfl⟩ := h
          obtain ⟨q, hq, h1⟩ := ih _ _ _ hrec
          exact ⟨q, List.mem_cons_of_mem _ hq, h1⟩
    · obtain ⟨q, hq, h1⟩ := ih _ _ _ h
      exact ⟨q, List.mem_cons_of_mem _ hq, h1⟩

/-- `_read_build_requests` raises only from building the packet of an accepted request: its request path or its
    element count -/
theorem lds_readBuild_err (cfg : Cfg) (d d' : Cli.Drv) (ps : List Parsed) (e : Exn)
    (h : readBuildRequests cfg d ps = (d', .error e)) :
    ∃ p ∈ ps, p.error = none ∧ ∃ info, p.info = some info ∧
      (requestPathOf cfg p.plcTag info = .error e ∨ elementsNat p.elements = .error e) := by
  unfold readBuildRequests at h
  dsimp only at h
  split at h
  · rcases hl : readBuildLive cfg d.connectionSize true d ps with ⟨d1, live⟩
    rw [hl] at h
    dsimp only at h
    cases live with
    | error e' =>
      simp only [Prod.mk.injEq, Except.error.injEq] at h
      obtain ⟨_, rfl⟩ := h
      exact lds_readBuildLive_err cfg _ true ps d d1 e' hl
    | ok items => cases h
  · rcases hl : readBuildLive cfg d.connectionSize false d ps with ⟨d1, live⟩
    rw [hl] at h
    dsimp only at h
    cases live with
    | error e' =>
      simp only [Except.map, Prod.mk.injEq, Except.error.injEq] at h
      obtain ⟨_, rfl⟩ := h
      exact lds_readBuildLive_err cfg _ false ps d d1 e' hl
    | ok items => cases h

theorem lds_readTag_err (req : ReadReq) (r : Resp) (v : PyVal) (dt : Option Name) (e : Exn)
    (h : readTag req r v dt = .error e) : r.error = .error e := by
  unfold readTag at h
  split at h
  · next he => cases h; exact he
  · cases h

theorem lds_readFragLoop_err {σ} (hook : ObjHook σ) (req : ReadReq) (fuel : Nat) :
    ∀ (w : Cli.World σ) (seq off : Nat) (acc : Bytes) (allOk : Bool) (e : Exn),
      (readFragLoop hook req fuel w seq off acc allOk).2 = .error e → lds_SendErr hook e := by
  induction fuel with
  | zero => intro w seq off acc allOk e h; simp only [readFragLoop] at h; cases h; exact .inr (.inl rfl)
  | succ n ih =>
    intro w seq off acc allOk e h
    rw [readFragLoop] at h
    rcases hs : sendUnit hook w seq (Cl.readFragMsg req.path req.elements off) with ⟨w1, r⟩
    rw [hs] at h
    dsimp only at h
    cases r with
    | error e' =>
      simp only [Except.error.injEq] at h
      subst h
      exact .inl ⟨w, seq, _, by unfold sendUnit at hs; rw [hs]⟩
    | ok raw =>
      dsimp only at h
      split at h
      · split at h
        · next he => cases h; exact .inr (.inr ⟨_, he⟩)
        · cases h
      · split at h
        · exact ih _ _ _ _ _ _ h
        · split at h
          · next he => cases h; exact .inr (.inr ⟨_, he⟩)
          · split at h
            · split at h <;> cases h
            · cases h

theorem lds_multiRead_err (l : List (ReadReq × Option Bytes)) :
    ∀ (rs : Results) (e : Exn), multiReadResults rs l = .error e → ∃ r : Resp, r.error = .error e := by
  induction l with
  | nil => intro rs e h; simp only [multiReadResults] at h; cases h
  | cons x rest ih =>
    intro rs e h
    obtain ⟨req, raw⟩ := x
    rw [multiReadResults] at h
    dsimp only at h
    split at h
    · exact ih _ _ h
    · split at h
      · next he => cases h; exact ⟨_, he⟩
      · exact ih _ _ h

/-- an exception of one iteration of `_send_requests` over a read packet -/
theorem lds_sendRequest_read_err {σ} (hook : ObjHook σ) (w w' : Cli.World σ) (rs : Results) (q : Request) (e : Exn)
    (hk : q.lds_isReadKind = true) (h : sendRequest hook w rs q = (w', .error e)) : lds_SendErr hook e := by
  have tr : ∀ (seq : Nat) (msg : Bytes) (e' : Exn), (sendUnit hook w seq msg).2 = .error e' → lds_SendErr hook e' :=
    fun seq msg e' hs => .inl ⟨w, seq, msg, hs⟩
  have tagErr : ∀ (req : ReadReq) (r : Resp) (v : PyVal) (dt : Option Name),
      ((readTag req r v dt).map fun t => rs.set req.rid t) = .error e → lds_SendErr hook e := by
    intro req r v dt hh
    cases hr : readTag req r v dt with
    | ok t => rw [hr] at hh; cases hh
    | error e' =>
      rw [hr] at hh
      simp only [Except.map, Except.error.injEq] at hh
      subst hh
      exact .inr (.inr ⟨r, lds_readTag_err _ _ _ _ _ hr⟩)
  cases q with
  | read req =>
    simp only [sendRequest] at h
    split at h
    · next hs => simp only [Prod.mk.injEq, Except.error.injEq] at h; rw [← h.2]; exact tr _ _ _ hs
    · simp only [Prod.mk.injEq] at h; exact tagErr _ _ _ _ h.2
  | readFrag req =>
    simp only [sendRequest] at h
    split at h
    · next hs =>
      simp only [Prod.mk.injEq, Except.error.injEq] at h
      rw [← h.2]
      exact lds_readFragLoop_err hook req _ _ _ _ _ _ _ hs
    · simp only [Prod.mk.injEq] at h; exact tagErr _ _ _ _ h.2
  | multiRead seq reqs =>
    simp only [sendRequest] at h
    split at h
    · next hs => simp only [Prod.mk.injEq, Except.error.injEq] at h; rw [← h.2]; exact tr _ _ _ hs
    · split at h
      · next hm =>
        simp only [Prod.mk.injEq, Except.error.injEq] at h; rw [← h.2]
        exact .inr (.inr ⟨_, lds_multiPacketError_err _ _ hm⟩)
      · cases h
      · simp only [Prod.mk.injEq] at h
        exact .inr (.inr (lds_multiRead_err _ _ _ h.2))
  | write _ => cases hk
  | writeFrag _ => cases hk
  | rmw _ => cases hk
  | multiWrite _ _ => cases hk

theorem lds_sendRequests_read_err {σ} (hook : ObjHook σ) (reqs : List Request) :
    ∀ (w w' : Cli.World σ) (rs : Results) (e : Exn), (∀ q ∈ reqs, q.lds_isReadKind = true) →
      sendRequests hook w rs reqs = (w', .error e) → lds_SendErr hook e := by
  induction reqs with
  | nil => intro w w' rs e _ h; simp only [sendRequests] at h; cases h
  | cons q rest ih =>
    intro w w' rs e hk h
    rw [sendRequests] at h
    rcases hq : sendRequest hook w rs q with ⟨w1, r⟩
    rw [hq] at h
    dsimp only at h
    cases r with
    | error e' =>
      simp only [Prod.mk.injEq, Except.error.injEq] at h
      obtain ⟨_, rfl⟩ := h
      exact lds_sendRequest_read_err hook w w1 rs q e' (hk q List.mem_cons_self) hq
    | ok rs1 =>
      exact ih _ _ _ _ (fun q' hq' => hk q' (List.mem_cons_of_mem _ hq')) h

/-- the exception classes of `lds_SendErr` -/
theorem lds_SendErr_class {σ} (hook : ObjHook σ) (e : Exn) (h : lds_SendErr hook e) :
    e = .comm ∨ e = .data ∨ e = .bufferEmpty ∨ e = .hang := by
  rcases h with ⟨w, seq, msg, h⟩ | rfl | ⟨r, h⟩
  · rcases Cli.lc_sendReq_err hook w _ false e h with rfl | rfl
    · exact .inl rfl
    · exact .inr (.inl rfl)
  · exact .inr (.inr (.inr rfl))
  · unfold Resp.error at h
    cases hc : errorCip r.raw .connected r.p r.valid with
    | ok v => rw [hc] at h; cases h
    | error e' =>
      rw [hc] at h
      simp only [Except.map, Except.error.injEq] at h
      subst h
      rcases Cli.lc_errorCip_err _ _ _ _ _ hc with rfl | rfl
      · exact .inr (.inr (.inl rfl))
      · exact .inr (.inl rfl)

/-! ### the builders skip the requests whose parse failed -/

theorem lds_readBuildLive_filter (cfg : Cfg) (C : Nat) (multi : Bool) (ps : List Parsed) :
    ∀ d : Cli.Drv, readBuildLive cfg C multi d ps = readBuildLive cfg C multi d (ps.filter fun p => p.error.isNone) := by
  induction ps with
  | nil => intro d; rfl
  | cons p rest ih =>
    intro d
    cases he : p.error with
    | some e =>
      rw [List.filter_cons_of_neg (by simp [he]), readBuildLive]
      simp only [he]
      exact ih d
    | none =>
      rw [List.filter_cons_of_pos (by simp [he]), readBuildLive, readBuildLive]
      simp only [he]
      cases p.info with
      | none => exact ih d
      | some info =>
        dsimp only
        rcases mkReadReq cfg d p info with ⟨d1, r⟩
        cases r with
        | error e => rfl
        | ok req =>
          dsimp only
          rw [ih]

theorem lds_writeBuildLive_filter (cfg : Cfg) (C : Nat) (ps : List Parsed) :
    ∀ (d : Cli.Drv) (acc : WriteBuild),
      writeBuildLive cfg C d acc ps = writeBuildLive cfg C d acc (ps.filter fun p => p.error.isNone) := by
  induction ps with
  | nil => intro d acc; rfl
  | cons p rest ih =>
    intro d acc
    cases he : p.error with
    | some e =>
      rw [List.filter_cons_of_neg (by simp [he]), writeBuildLive]
      simp only [he]
      exact ih d acc
    | none =>
      rw [List.filter_cons_of_pos (by simp [he]), writeBuildLive, writeBuildLive]
      simp only [he]
      cases p.info with
      | none => exact ih d acc
      | some info =>
        dsimp only
        split
        · split
          · exact ih _ _
          · rcases mkRmwReq cfg d p info _ with ⟨d1, r⟩
            cases r with
            | error e => rfl
            | ok r => exact ih _ _
        · rcases encodeValue p info with ⟨p1, enc⟩
          cases enc with
          | none => exact ih _ _
          | some value =>
            dsimp only
            rcases mkWriteReq cfg d p1 info value with ⟨d1, r⟩
            cases r with
            | error e => rfl
            | ok req => exact ih _ _

theorem lds_writeBuildSingles_filter (cfg : Cfg) (C : Nat) (ps : List Parsed) :
    ∀ (d : Cli.Drv) (acc : List Parsed),
      writeBuildSingles cfg C d acc ps = writeBuildSingles cfg C d acc (ps.filter fun p => p.error.isNone) := by
  induction ps with
  | nil => intro d acc; rfl
  | cons p rest ih =>
    intro d acc
    cases he : p.error with
    | some e =>
      rw [List.filter_cons_of_neg (by simp [he]), writeBuildSingles]
      simp only [he]
      exact ih d acc
    | none =>
      rw [List.filter_cons_of_pos (by simp [he]), writeBuildSingles, writeBuildSingles]
      simp only [he]
      cases p.info with
      | none => exact ih d acc
      | some info =>
        dsimp only
        split
        · rcases mkRmwReq cfg d p info _ with ⟨d1, r⟩
          cases r with
          | error e => rfl
          | ok r => dsimp only; rw [ih]
        · rcases encodeValue p info with ⟨p1, enc⟩
          cases enc with
          | none => exact ih _ _
          | some value =>
            dsimp only
            rcases mkWriteReq cfg d p1 info value with ⟨d1, r⟩
            cases r with
            | error e => rfl
            | ok req => dsimp only; rw [ih]

/-! ### exception classes of the request path -/

theorem lds_indexSegs_err (xs : List Name) (e : Exn) (h : indexSegs xs = .error e) : e = .foreign "ValueError" := by
  induction xs with
  | nil => simp [indexSegs] at h
  | cons x rest ih =>
    simp only [indexSegs] at h
    split at h
    · cases h; rfl
    · cases hr : indexSegs rest with
      | error e' =>
        rw [hr] at h
        simp only [bind, Except.bind, Except.error.injEq] at h
        subst h; exact ih hr
      | ok v => rw [hr] at h; simp [bind, Except.bind] at h

theorem lds_attrSegs_err (xs : List Name) (e : Exn) (h : attrSegs xs = .error e) : e = .foreign "ValueError" := by
  induction xs with
  | nil => simp [attrSegs] at h
  | cons x rest ih =>
    simp only [attrSegs] at h
    cases hi : indexSegs (findTagIndex x).2 with
    | error e' =>
      rw [hi] at h
      simp only [bind, Except.bind, Except.error.injEq] at h
      subst h; exact lds_indexSegs_err _ _ hi
    | ok v =>
      rw [hi] at h
      cases hr : attrSegs rest with
      | error e' =>
        rw [hr] at h
        simp only [bind, Except.bind, Except.error.injEq] at h
        subst h; exact ih hr
      | ok v' => rw [hr] at h; simp [bind, Except.bind] at h

/-- `tag_request_path` of the model raises a DataError (a name or the path too long for its length byte) or the
    ValueError of `int()` on an index; it never returns None -/
theorem lds_requestPathOf_err (cfg : Cfg) (tag : Name) (info : TagInfo) (e : Exn)
    (h : requestPathOf cfg tag info = .error e) : e = .data ∨ e = .foreign "ValueError" := by
  unfold requestPathOf at h
  cases ht : tagRequestPath tag info.core.instanceId cfg.useInstanceIds with
  | ok v =>
    rw [ht] at h
    cases v with
    | some b => cases h
    | none =>
      exfalso
      unfold tagRequestPath at ht
      split at ht
      · next hs => exact lds_splitOn_ne_nil 46 tag hs
      · dsimp only at ht
        split at ht
        · cases ht
        · cases ht
        · split at ht <;> cases ht
  | error e' =>
    rw [ht] at h
    simp only [Except.error.injEq] at h
    subst h
    unfold tagRequestPath at ht
    split at ht
    · cases ht
    · dsimp only at ht
      split at ht
      · next hi => cases ht; exact .inr (lds_indexSegs_err _ _ hi)
      · cases ht; rename_i ha; exact .inr (lds_attrSegs_err _ _ ha)
      · split at ht
        · cases ht
        · next he => cases ht; exact .inl (Cli.lc_encEpath_err _ _ _ _ _ he)

/-! ### where an exception of `write` can come from -/

theorem lds_POk_value (tag0 : Name) (p : Parsed) (tag : Name) (n : Int) (impl : Bool) (info : TagInfo) (v : PyVal)
    (h : lds_POk tag0 p tag n impl info) : lds_POk tag0 { p with value := v } tag n impl info :=
  ⟨h.split, h.range, h.err, h.utag, h.hinfo, h.plcOfBit, h.plain, h.parts, h.dword⟩

theorem lds_typeEntry_dword : (typeEntryOfName (nm "DWORD")).isSome = true := by decide

/-- the data type of a bit request has an entry in `DataTypes` (`ReadModifyWriteRequestPacket` finds its size) -/
theorem lds_POk_bit_entry (tag0 : Name) (p : Parsed) (tag : Name) (n : Int) (impl : Bool) (info : TagInfo)
    (h : lds_POk tag0 p tag n impl info) (b : Int) (hb : p.bit = some b) :
    (typeEntryOfName info.core.dataTypeName).isSome = true := by
  cases hd : isDword info with
  | true => rw [lds_isDword_name info hd]; exact lds_typeEntry_dword
  | false =>
    have hbb := (h.plain hd).2.2.1
    rw [hb] at hbb
    simp only [lds_bitBad, Bool.or_eq_false_iff] at hbb
    have h2 := hbb.2
    cases hi : intBits info.core.dataTypeName with
    | none => rw [hi] at h2; simp at h2
    | some w =>
      unfold intBits at hi
      split at hi
      · cases ht : typeEntryOfName info.core.dataTypeName with
        | none => rw [ht] at hi; simp at hi
        | some x => rfl
      · cases hi

theorem lds_encodeValue_fst' (p : Parsed) (info : TagInfo) :
    (encodeValue p info).1 = p ∨
    ((info.core.dataTypeName == nm "DWORD") = true ∧
      (encodeValue p info).1 = { p with elements := p.elements - p.bit.getD 0 / 32 }) := by
  unfold encodeValue
  split
  · exact .inl rfl
  · dsimp only
    split
    · exact .inl rfl
    · by_cases hd : (info.core.dataTypeName == nm "DWORD") = true
      · rw [if_pos hd]
        repeat' split
        all_goals exact .inr ⟨hd, rfl⟩
      · rw [if_neg hd]
        repeat' split
        all_goals exact .inl rfl

/-- the element count `encode_value` leaves in an accepted request still fits the UINT of the request -/
theorem lds_POk_encode_range (tag0 : Name) (p : Parsed) (tag : Name) (n : Int) (impl : Bool) (info : TagInfo)
    (h : lds_POk tag0 p tag n impl info) :
    0 ≤ (encodeValue p info).1.elements ∧ (encodeValue p info).1.elements ≤ 65535 := by
  have hr := lds_POk_elements_range tag0 p tag n impl info h
  rcases lds_encodeValue_fst' p info with he | ⟨hname, he⟩
  · rw [he]; exact hr
  · rw [he]
    dsimp only
    cases hd : isDword info with
    | true =>
      obtain ⟨_, hel, hle⟩ := h.dword hd
      have h0 := lds_POk_idx_nonneg tag0 p tag n impl info h hd
      have hn := h.range
      rw [hel] at hle ⊢
      split <;> split at hle <;> omega
    | false =>
      have hbb := (h.plain hd).2.2.1
      have hb : p.bit = none := by
        cases hb : p.bit with
        | none => rfl
        | some b =>
          exfalso
          rw [hb] at hbb
          simp only [lds_bitBad, Bool.or_eq_false_iff] at hbb
          have hta := hbb.1
          unfold isDword at hd
          rw [hname, Bool.and_true] at hd
          simp only [bne_eq_false_iff_eq] at hta
          rw [hta] at hd
          simp at hd
      rw [hb]
      simpa using hr

/-- what can go wrong while the packet of one accepted write request `p` is built -/
def lds_WBuildErr (cfg : Cfg) (p : Parsed) (info : TagInfo) (e : Exn) : Prop :=
  requestPathOf cfg p.plcTag info = .error e ∨
  (p.bit.isSome = true ∧ typeEntryOfName info.core.dataTypeName = none) ∨
  elementsNat (encodeValue p info).1.elements = .error e

theorem lds_mkWriteReq_err (cfg : Cfg) (d d1 : Cli.Drv) (p : Parsed) (info : TagInfo) (v : Bytes) (e : Exn)
    (h : mkWriteReq cfg d p info v = (d1, .error e)) :
    requestPathOf cfg p.plcTag info = .error e ∨ elementsNat p.elements = .error e := by
  unfold mkWriteReq at h
  dsimp only at h
  split at h
  · next he => cases h; exact .inl he
  · cases h; rename_i he; exact .inr he
  · cases h

theorem lds_mkRmwReq_err (cfg : Cfg) (d d1 : Cli.Drv) (p : Parsed) (info : TagInfo) (rid : Int) (e : Exn)
    (h : mkRmwReq cfg d p info rid = (d1, .error e)) :
    requestPathOf cfg p.plcTag info = .error e ∨ typeEntryOfName info.core.dataTypeName = none := by
  unfold mkRmwReq at h
  dsimp only at h
  split at h
  · next he => cases h; exact .inl he
  · split at h
    · next ht => exact .inr ht
    · cases h

theorem lds_encode_plcTag (p : Parsed) (info : TagInfo) : (encodeValue p info).1.plcTag = p.plcTag := by
  rcases lds_encodeValue_fst p info with h | h <;> rw [h]

theorem lds_writeBuildLive_err (cfg : Cfg) (C : Nat) (rest : List Parsed) :
    ∀ (d d' : Cli.Drv) (acc : WriteBuild) (e : Exn), writeBuildLive cfg C d acc rest = (d', .error e) →
      ∃ p ∈ rest, p.error = none ∧ ∃ info, p.info = some info ∧ lds_WBuildErr cfg p info e := by
  induction rest with
  | nil => intro d d' acc e h; simp only [writeBuildLive] at h; cases h
  | cons p rest ih =>
    intro d d' acc e h
    have lift : (∃ q ∈ rest, q.error = none ∧ ∃ info, q.info = some info ∧ lds_WBuildErr cfg q info e) →
        ∃ q ∈ p :: rest, q.error = none ∧ ∃ info, q.info = some info ∧ lds_WBuildErr cfg q info e :=
      fun ⟨q, hq, h1⟩ => ⟨q, List.mem_cons_of_mem _ hq, h1⟩
    rw [writeBuildLive] at h
    split at h
    · next info he hi =>
      split at h
      · next hbw =>
        have hbit : p.bit.isSome = true := by
          unfold Parsed.isBitWrite at hbw; simp only [Bool.and_eq_true] at hbw; exact hbw.1
        split at h
        · exact lift (ih _ _ _ _ h)
        · rcases hm : mkRmwReq cfg d p info (-(1 + (acc.rmws.length : Int))) with ⟨d1, r⟩
          rw [hm] at h
          dsimp only at h
          cases r with
          | error e' =>
            simp only [Prod.mk.injEq, Except.error.injEq] at h
            obtain ⟨_, rfl⟩ := h
            refine ⟨p, List.mem_cons_self, he, info, hi, ?_⟩
            rcases lds_mkRmwReq_err cfg d d1 p info _ e' hm with h1 | h1
            · exact .inl h1
            · exact .inr (.inl ⟨hbit, h1⟩)
          | ok r => exact lift (ih _ _ _ _ h)
      · rcases hev : encodeValue p info with ⟨p1, enc⟩
        have hp1 : p1 = (encodeValue p info).1 := by rw [hev]
        rw [hev] at h
        dsimp only at h
        cases enc with
        | none => exact lift (ih _ _ _ _ h)
        | some value =>
          dsimp only at h
          rcases hm : mkWriteReq cfg d p1 info value with ⟨d1, r⟩
          rw [hm] at h
          dsimp only at h
          cases r with
          | error e' =>
            simp only [Prod.mk.injEq, Except.error.injEq] at h
            obtain ⟨_, rfl⟩ := h
            refine ⟨p, List.mem_cons_self, he, info, hi, ?_⟩
            rcases lds_mkWriteReq_err cfg d d1 p1 info value e' hm with h1 | h1
            · exact .inl (by rw [hp1, lds_encode_plcTag] at h1; exact h1)
            · exact .inr (.inr (by rw [hp1] at h1; exact h1))
          | ok req => exact lift (ih _ _ _ _ h)
    · exact lift (ih _ _ _ _ h)

theorem lds_writeBuildSingles_err (cfg : Cfg) (C : Nat) (rest : List Parsed) :
    ∀ (d d' : Cli.Drv) (acc : List Parsed) (e : Exn), writeBuildSingles cfg C d acc rest = (d', .error e) →
      ∃ p ∈ rest, p.error = none ∧ ∃ info, p.info = some info ∧ lds_WBuildErr cfg p info e := by
  induction rest with
  | nil => intro d d' acc e h; simp only [writeBuildSingles] at h; cases h
  | cons p rest ih =>
    intro d d' acc e h
    have lift : (∃ q ∈ rest, q.error = none ∧ ∃ info, q.info = some info ∧ lds_WBuildErr cfg q info e) →
        ∃ q ∈ p :: rest, q.error = none ∧ ∃ info, q.info = some info ∧ lds_WBuildErr cfg q info e :=
      fun ⟨q, hq, h1⟩ => ⟨q, List.mem_cons_of_mem _ hq, h1⟩
    rw [writeBuildSingles] at h
    split at h
    · next info he hi =>
      split at h
      · next hbw =>
        have hbit : p.bit.isSome = true := by
          unfold Parsed.isBitWrite at hbw; simp only [Bool.and_eq_true] at hbw; exact hbw.1
        rcases hm : mkRmwReq cfg d p info (-(1 + (p.requestId : Int))) with ⟨d1, r⟩
        rw [hm] at h
        dsimp only at h
        cases r with
        | error e' =>
          simp only [Prod.mk.injEq, Except.error.injEq] at h
          obtain ⟨_, rfl⟩ := h
          refine ⟨p, List.mem_cons_self, he, info, hi, ?_⟩
          rcases lds_mkRmwReq_err cfg d d1 p info _ e' hm with h1 | h1
          · exact .inl h1
          · exact .inr (.inl ⟨hbit, h1⟩)
        | ok r =>
          dsimp only at h
          rcases hrec : writeBuildSingles cfg C d1 acc rest with ⟨d2, more⟩
          rw [hrec] at h
          dsimp only at h
          cases more with
          | ok x => cases h
          | error e' =>
            simp only [Except.map, Prod.mk.injEq, Except.error.injEq] at h
            obtain ⟨_, rfl⟩ := h
            exact lift (ih _ _ _ _ hrec)
      · rcases hev : encodeValue p info with ⟨p1, enc⟩
        have hp1 : p1 = (encodeValue p info).1 := by rw [hev]
        rw [hev] at h
        dsimp only at h
        cases enc with
        | none => exact lift (ih _ _ _ _ h)
        | some value =>
          dsimp only at h
          rcases hm : mkWriteReq cfg d p1 info value with ⟨d1, r⟩
          rw [hm] at h
          dsimp only at h
          cases r with
          | error e' =>
            simp only [Prod.mk.injEq, Except.error.injEq] at h
            obtain ⟨_, rfl⟩ := h
            refine ⟨p, List.mem_cons_self, he, info, hi, ?_⟩
            rcases lds_mkWriteReq_err cfg d d1 p1 info value e' hm with h1 | h1
            · exact .inl (by rw [hp1, lds_encode_plcTag] at h1; exact h1)
            · exact .inr (.inr (by rw [hp1] at h1; exact h1))
          | ok req =>
            dsimp only at h
            generalize (if decide (value.length + req.messageLen > C) = true then req.refresh d1 else (d1, req)) = fr at h
            obtain ⟨d2, req2⟩ := fr
            dsimp only at h
            rcases hrec : writeBuildSingles cfg C d2 (replaceParsed acc p1) rest with ⟨d3, more⟩
            rw [hrec] at h
            dsimp only at h
            cases more with
            | ok x => cases h
            | error e' =>
              simp only [Except.map, Prod.mk.injEq, Except.error.injEq] at h
              obtain ⟨_, rfl⟩ := h
              exact lift (ih _ _ _ _ hrec)
    · exact lift (ih _ _ _ _ h)

/-- `_write_build_requests` raises only from building the packet of an accepted request -/
theorem lds_writeBuild_err (cfg : Cfg) (d d' : Cli.Drv) (ps : List Parsed) (e : Exn)
    (h : writeBuildRequests cfg d ps = (d', .error e)) :
    ∃ p ∈ ps, p.error = none ∧ ∃ info, p.info = some info ∧ lds_WBuildErr cfg p info e := by
  unfold writeBuildRequests at h
  dsimp only at h
  split at h
  · rcases hl : writeBuildLive cfg d.connectionSize d { parsed := ps } ps with ⟨d1, b⟩
    rw [hl] at h
    dsimp only at h
    cases b with
    | error e' =>
      simp only [Prod.mk.injEq, Except.error.injEq] at h
      obtain ⟨_, rfl⟩ := h
      exact lds_writeBuildLive_err cfg _ ps _ _ _ _ hl
    | ok b => cases h
  · exact lds_writeBuildSingles_err cfg _ ps _ _ _ _ h

/-- the foreign exceptions of `_send_write_fragmented` for a request `r` sent over a connection of size `C`:
    an empty value or a segment size ≤ 0 leave `responses` empty (`responses[-1]`) or make `range` fail -/
def lds_FragSizeErr (C : Nat) (r : WriteReq) (e : Exn) : Prop :=
  (r.value = [] ∧ e = .foreign "IndexError") ∨
  (C = 2 + 1 + r.path.length + r.typeBytes.length + 2 + 4 ∧ e = .foreign "ValueError") ∨
  (C < 2 + 1 + r.path.length + r.typeBytes.length + 2 + 4 ∧ e = .foreign "IndexError")

/-- an exception raised while the packets of a `write` are sent -/
def lds_WSendErr {σ} (hook : ObjHook σ) (reqs : List Request) (e : Exn) : Prop :=
  lds_SendErr hook e ∨
  (∃ r, Request.rmw r ∈ reqs ∧ rmwMessage r = .error e) ∨
  (∃ r C, Request.writeFrag r ∈ reqs ∧ lds_FragSizeErr C r e)

theorem lds_writeTag_err (tag : Name) (value : PyVal) (dtn : Name) (r : Resp) (e : Exn)
    (h : writeTag tag value dtn r = .error e) : r.error = .error e := by
  unfold writeTag at h
  split at h
  · next he => cases h; exact he
  · cases h

theorem lds_multiWrite_err (l : List (WriteReq × Option Bytes)) :
    ∀ (rs : Results) (e : Exn), multiWriteResults rs l = .error e → ∃ r : Resp, r.error = .error e := by
  induction l with
  | nil => intro rs e h; simp only [multiWriteResults] at h; cases h
  | cons x rest ih =>
    intro rs e h
    obtain ⟨req, raw⟩ := x
    rw [multiWriteResults] at h
    split at h
    · exact ih _ _ h
    · split at h
      · next he => cases h; exact ⟨_, he⟩
      · exact ih _ _ h

theorem lds_writeFragSend_err {σ} (hook : ObjHook σ) (req : WriteReq) (segs : List (Nat × Bytes)) :
    ∀ (w : Cli.World σ) (allOk : Bool) (last : Option Resp) (e : Exn),
      (writeFragSend hook req w segs allOk last).2 = .error e → lds_SendErr hook e := by
  induction segs with
  | nil => intro w allOk last e h; simp only [writeFragSend] at h; cases h
  | cons x rest ih =>
    intro w allOk last e h
    obtain ⟨off, seg⟩ := x
    rw [writeFragSend] at h
    dsimp only at h
    split at h
    · next w1 e' hs =>
      simp only [Except.error.injEq] at h
      subst h
      exact .inl ⟨_, _, _, by unfold sendUnit at hs; rw [hs]⟩
    · exact ih _ _ _ _ h

theorem lds_sendWriteFragmented_err {σ} (hook : ObjHook σ) (w : Cli.World σ) (req : WriteReq) (e : Exn)
    (h : (sendWriteFragmented hook w req).2 = .error e) :
    lds_SendErr hook e ∨ lds_FragSizeErr w.drv.connectionSize req e := by
  unfold sendWriteFragmented at h
  dsimp only at h
  split at h
  · next hv => cases h; exact .inr (.inl ⟨by simpa using hv, rfl⟩)
  · split at h
    · next hc => cases h; exact .inr (.inr (.inl ⟨hc, rfl⟩))
    · split at h
      · next hc => cases h; exact .inr (.inr (.inr ⟨hc, rfl⟩))
      · split at h
        · next w1 e' hs =>
          simp only [Except.error.injEq] at h
          subst h
          exact .inl (lds_writeFragSend_err hook req _ _ _ _ _ (by rw [hs]))
        · split at h <;> cases h

/-- an exception of one iteration of `_send_requests` -/
theorem lds_sendRequest_err {σ} (hook : ObjHook σ) (w w' : Cli.World σ) (rs : Results) (q : Request) (e : Exn)
    (h : sendRequest hook w rs q = (w', .error e)) : lds_WSendErr hook [q] e := by
  by_cases hk : q.lds_isReadKind = true
  · exact .inl (lds_sendRequest_read_err hook w w' rs q e hk h)
  have tr : ∀ (seq : Nat) (msg : Bytes) (e' : Exn), (sendUnit hook w seq msg).2 = .error e' → lds_SendErr hook e' :=
    fun seq msg e' hs => .inl ⟨w, seq, msg, hs⟩
  have tagErr : ∀ (tag : Name) (v : PyVal) (dtn : Name) (r : Resp) (k : Int),
      ((writeTag tag v dtn r).map fun t => rs.set k t) = .error e → lds_SendErr hook e := by
    intro tag v dtn r k hh
    cases hr : writeTag tag v dtn r with
    | ok t => rw [hr] at hh; cases hh
    | error e' =>
      rw [hr] at hh
      simp only [Except.map, Except.error.injEq] at hh
      subst hh
      exact .inr (.inr ⟨r, lds_writeTag_err _ _ _ _ _ hr⟩)
  cases q with
  | read _ => exact absurd rfl hk
  | readFrag _ => exact absurd rfl hk
  | multiRead _ _ => exact absurd rfl hk
  | write req =>
    simp only [sendRequest] at h
    split at h
    · next hs => simp only [Prod.mk.injEq, Except.error.injEq] at h; rw [← h.2]; exact .inl (tr _ _ _ hs)
    · simp only [Prod.mk.injEq] at h; exact .inl (tagErr _ _ _ _ _ h.2)
  | writeFrag req =>
    simp only [sendRequest] at h
    split at h
    · next hs =>
      simp only [Prod.mk.injEq, Except.error.injEq] at h
      rw [← h.2]
      rcases lds_sendWriteFragmented_err hook w req _ hs with h1 | h1
      · exact .inl h1
      · exact .inr (.inr ⟨req, _, List.mem_singleton.2 rfl, h1⟩)
    · simp only [Prod.mk.injEq] at h; exact .inl (tagErr _ _ _ _ _ h.2)
  | rmw req =>
    simp only [sendRequest] at h
    split at h
    · next hm =>
      simp only [Prod.mk.injEq, Except.error.injEq] at h
      rw [← h.2]
      exact .inr (.inl ⟨req, List.mem_singleton.2 rfl, hm⟩)
    · split at h
      · next hs => simp only [Prod.mk.injEq, Except.error.injEq] at h; rw [← h.2]; exact .inl (tr _ _ _ hs)
      · simp only [Prod.mk.injEq] at h; exact .inl (tagErr _ _ _ _ _ h.2)
  | multiWrite seq reqs =>
    simp only [sendRequest] at h
    split at h
    · next hs => simp only [Prod.mk.injEq, Except.error.injEq] at h; rw [← h.2]; exact .inl (tr _ _ _ hs)
    · split at h
      · next hm =>
        simp only [Prod.mk.injEq, Except.error.injEq] at h; rw [← h.2]
        exact .inl (.inr (.inr ⟨_, lds_multiPacketError_err _ _ hm⟩))
      · cases h
      · simp only [Prod.mk.injEq] at h
        exact .inl (.inr (.inr (lds_multiWrite_err _ _ _ h.2)))

theorem lds_WSendErr_mono {σ} (hook : ObjHook σ) (l1 l2 : List Request) (e : Exn) (hsub : ∀ q ∈ l1, q ∈ l2)
    (h : lds_WSendErr hook l1 e) : lds_WSendErr hook l2 e := by
  rcases h with h | ⟨r, hr, h⟩ | ⟨r, C, hr, h⟩
  · exact .inl h
  · exact .inr (.inl ⟨r, hsub _ hr, h⟩)
  · exact .inr (.inr ⟨r, C, hsub _ hr, h⟩)

theorem lds_sendRequests_err {σ} (hook : ObjHook σ) (reqs : List Request) :
    ∀ (w w' : Cli.World σ) (rs : Results) (e : Exn),
      sendRequests hook w rs reqs = (w', .error e) → lds_WSendErr hook reqs e := by
  induction reqs with
  | nil => intro w w' rs e h; simp only [sendRequests] at h; cases h
  | cons q rest ih =>
    intro w w' rs e h
    rw [sendRequests] at h
    rcases hq : sendRequest hook w rs q with ⟨w1, r⟩
    rw [hq] at h
    dsimp only at h
    cases r with
    | error e' =>
      simp only [Prod.mk.injEq, Except.error.injEq] at h
      obtain ⟨_, rfl⟩ := h
      exact lds_WSendErr_mono hook [q] _ _ (fun x hx => by rw [List.mem_singleton.1 hx]; exact List.mem_cons_self)
        (lds_sendRequest_err hook w w1 rs q e' hq)
    | ok rs1 =>
      exact lds_WSendErr_mono hook rest _ _ (fun x hx => List.mem_cons_of_mem _ hx) (ih _ _ _ _ h)

/-! ### index strings `tag_request_path` can convert -/

/-- `int()` succeeds on every index of the part: `tag_request_path` raises no ValueError for it -/
def lds_Fine (part : Name) : Prop := ∃ v, indexSegs (findTagIndex part).2 = .ok v

theorem lds_digitsUnderscore_digits (cs : List Nat) :
    ∀ b : Bool, (∀ c ∈ cs, PyStr.isDigitC c = true) → (cs ≠ [] ∨ b = true) → PyStr.digitsUnderscore cs b = some cs := by
  induction cs with
  | nil => intro b _ h; rcases h with h | h; exact absurd rfl h; simp [PyStr.digitsUnderscore, h]
  | cons c cs ih =>
    intro b hd _
    have hc := hd c (by simp)
    simp only [PyStr.digitsUnderscore, hc, if_true]
    rw [ih true (fun x hx => hd x (by simp [hx])) (.inr rfl)]
    rfl

theorem lds_pyInt_digits (s : List Nat) (h : PyStr.isDigit (PyStr.strip s) = true) : ∃ v, PyStr.pyInt s = some v := by
  unfold PyStr.pyInt
  generalize PyStr.strip s = t at h
  simp only [PyStr.isDigit, Bool.and_eq_true, Bool.not_eq_true', List.isEmpty_eq_false_iff, List.all_eq_true] at h
  obtain ⟨hne, hall⟩ := h
  cases t with
  | nil => exact absurd rfl hne
  | cons c cs =>
    have hc := hall c (by simp)
    have hc' : c ≠ 45 ∧ c ≠ 43 := by
      simp only [PyStr.isDigitC, Bool.and_eq_true, decide_eq_true_eq] at hc; omega
    have hdu := lds_digitsUnderscore_digits (c :: cs) false hall (.inl (by simp))
    dsimp only
    split
    · next ds heq =>
      split
      · next hemp =>
        exfalso
        split at heq
        · next heq2 => cases heq2; exact hc'.1 rfl
        · next heq2 => cases heq2; exact hc'.2 rfl
        · dsimp only at heq
          rw [hdu] at heq; cases heq; simp at hemp
      · exact ⟨_, rfl⟩
    · next heq =>
      exfalso
      split at heq
      · next heq2 => cases heq2; exact hc'.1 rfl
      · next heq2 => cases heq2; exact hc'.2 rfl
      · dsimp only at heq
        rw [hdu] at heq; cases heq

theorem lds_find_stop (c : Nat) (l r : List Nat) (h : c ∉ l) : PyStr.find c (l ++ c :: r) = some l.length := by
  unfold PyStr.find
  rw [(lds_takeWhile_stop (· != c) l r c (by intro x hx; simp; intro e; exact h (e ▸ hx)) (by simp)).1]
  simp

theorem lds_findTagIndex_shape (name idx : List Nat) (hn : 91 ∉ name) :
    findTagIndex (name ++ 91 :: idx ++ [93]) = (name, PyStr.split 44 idx) := by
  unfold findTagIndex
  have e0 : name ++ 91 :: idx ++ [93] = name ++ 91 :: (idx ++ [93]) := by simp
  rw [e0, lds_find_stop 91 name (idx ++ [93]) hn]
  dsimp only
  have e1 : (name ++ 91 :: (idx ++ [93])).take ((name ++ 91 :: (idx ++ [93])).length - 1) = name ++ 91 :: idx := by
    have : name ++ 91 :: (idx ++ [93]) = (name ++ 91 :: idx) ++ [93] := by simp
    rw [this, ← List.dropLast_eq_take, List.dropLast_concat]
  rw [e1, lds_find_stop 91 name idx hn]
  simp

theorem lds_indexSegs_ok (xs : List Name) (h : ∀ x ∈ xs, ∃ v, PyStr.pyInt x = some v) : ∃ v, indexSegs xs = .ok v := by
  induction xs with
  | nil => exact ⟨[], rfl⟩
  | cons x rest ih =>
    obtain ⟨v, hv⟩ := h x (by simp)
    obtain ⟨r, hr⟩ := ih (fun y hy => h y (by simp [hy]))
    simp only [indexSegs, hv, hr]
    exact ⟨_, rfl⟩

theorem lds_fine_of_shape (name idx : List Nat) (hn : 91 ∉ name)
    (hidx : ∀ piece ∈ splitOn 44 idx, PyStr.isDigit (PyStr.strip piece) = true) :
    lds_Fine (name ++ 91 :: idx ++ [93]) := by
  unfold lds_Fine
  rw [lds_findTagIndex_shape name idx hn]
  exact lds_indexSegs_ok _ (fun x hx => lds_pyInt_digits x (hidx x hx))

/-- generalisation of `lds_indexPartOk_unpack`: any accepted part that mentions a bracket -/
theorem lds_indexPartOk_unpack' (L : List Nat) (h : indexPartOk L = true)
    (hbr : (L.contains 91 || L.contains 93) = true) :
    ∃ name index, L = name ++ 91 :: index ++ [93] ∧ 91 ∉ name ∧ name ≠ [] ∧
      ∀ piece ∈ splitOn 44 index, PyStr.isDigit (PyStr.strip piece) = true := by
  unfold indexPartOk at h
  rw [if_neg (by rw [hbr]; simp)] at h
  simp only [Bool.and_eq_true, Bool.not_eq_true', List.isEmpty_eq_false_iff, beq_iff_eq, List.all_eq_true] at h
  obtain ⟨⟨hname, hlast⟩, hpieces⟩ := h
  have hsplit : L = L.takeWhile (· != 91) ++ L.dropWhile (· != 91) := (List.takeWhile_append_dropWhile).symm
  cases hd : L.dropWhile (· != 91) with
  | nil => rw [hd] at hlast; simp at hlast
  | cons r0 index0 =>
    rw [hd] at hlast hpieces
    simp only [List.drop_succ_cons, List.drop_zero] at hlast hpieces
    have hr0 : r0 = 91 := by
      have := List.head_dropWhile_not (· != 91) (l := L) (by rw [hd]; simp)
      simp only [hd, List.head_cons] at this
      simpa using this
    subst hr0
    have hidx := lds_getLast_split index0 93 hlast
    refine ⟨L.takeWhile (· != 91), index0.take (index0.length - 1), ?_, ?_, hname, hpieces⟩
    · rw [List.append_assoc, List.cons_append, ← hidx, ← hd]; exact hsplit
    · intro hm
      have := lds_mem_takeWhile (· != 91) L 91 hm
      simp at this

theorem lds_takeWhile_all (p : Nat → Bool) (l : List Nat) (h : ∀ x ∈ l, p x = true) : l.takeWhile p = l := by
  induction l with
  | nil => rfl
  | cons x xs ih =>
    rw [List.takeWhile_cons_of_pos (h x (by simp)), ih (fun y hy => h y (by simp [hy]))]

/-- a part the index validation of the parser accepts converts -/
theorem lds_fine_of_ok (part : Name) (h : indexPartOk part = true) : lds_Fine part := by
  by_cases hbr : (part.contains 91 || part.contains 93) = true
  · obtain ⟨name, idx, rfl, hn, _, hp⟩ := lds_indexPartOk_unpack' part h hbr
    exact lds_fine_of_shape name idx hn hp
  · unfold lds_Fine findTagIndex PyStr.find
    have h91 : 91 ∉ part := by
      intro hm; apply hbr; simp [hm]
    have : part.takeWhile (· != 91) = part := by
      apply lds_takeWhile_all
      intro x hx; simp; intro e; exact h91 (e ▸ hx)
    rw [this]
    simp only [Nat.lt_irrefl, if_false]
    exact ⟨[], rfl⟩

theorem lds_strip_digits (ds : List Nat) (h : ∀ c ∈ ds, PyStr.isDigitC c = true) : PyStr.strip ds = ds := by
  have hns : ∀ c ∈ ds, PyStr.isSpaceC c = false := by
    intro c hc
    have := h c hc
    simp only [PyStr.isDigitC, Bool.and_eq_true, decide_eq_true_eq] at this
    simp only [PyStr.isSpaceC, Bool.or_eq_false_iff, beq_eq_false_iff_ne, Bool.and_eq_false_iff, decide_eq_false_iff_not]
    omega
  have hdw : ∀ l : List Nat, (∀ c ∈ l, PyStr.isSpaceC c = false) → l.dropWhile PyStr.isSpaceC = l := by
    intro l hl
    cases l with
    | nil => rfl
    | cons x xs => rw [List.dropWhile_cons_of_neg (by simp [hl x (by simp)])]
  unfold PyStr.strip PyStr.rstrip PyStr.lstrip
  rw [hdw ds hns, hdw ds.reverse (fun c hc => hns c (by simpa using hc))]
  simp

/-- `name[digits]` converts -/
theorem lds_fine_digits (name ds : List Nat) (hn : 91 ∉ name) (hne : ds ≠ []) (hd : ∀ c ∈ ds, PyStr.isDigitC c = true) :
    lds_Fine (name ++ 91 :: ds ++ [93]) := by
  apply lds_fine_of_shape name ds hn
  have h44 : 44 ∉ ds := by
    intro hm
    have := hd 44 hm
    simp [PyStr.isDigitC] at this
  rw [lds_splitOn_no_sep 44 ds h44]
  intro piece hp
  rw [List.mem_singleton.1 hp, lds_strip_digits ds hd]
  simp only [PyStr.isDigit, Bool.and_eq_true, Bool.not_eq_true', List.isEmpty_eq_false_iff, List.all_eq_true]
  exact ⟨hne, hd⟩

theorem lds_attrSegs_ok (xs : List Name) (h : ∀ x ∈ xs, lds_Fine x) : ∃ v, attrSegs xs = .ok v := by
  induction xs with
  | nil => exact ⟨[], rfl⟩
  | cons x rest ih =>
    obtain ⟨v, hv⟩ := h x (by simp)
    obtain ⟨r, hr⟩ := ih (fun y hy => h y (by simp [hy]))
    simp only [attrSegs, hv, hr]
    exact ⟨_, rfl⟩

/-- when every part of the tag converts, `tag_request_path` raises a DataError at most -/
theorem lds_requestPathOf_fine (cfg : Cfg) (tag : Name) (info : TagInfo) (e : Exn)
    (hf : ∀ part ∈ PyStr.split 46 tag, lds_Fine part)
    (h : requestPathOf cfg tag info = .error e) : e = .data := by
  rcases lds_requestPathOf_err cfg tag info e h with h1 | h1
  · exact h1
  · exfalso
    subst h1
    unfold requestPathOf at h
    cases ht : tagRequestPath tag info.core.instanceId cfg.useInstanceIds with
    | ok v =>
      rw [ht] at h
      cases v with
      | some b => cases h
      | none => simp at h
    | error e' =>
      rw [ht] at h
      simp only [Except.error.injEq] at h
      subst h
      unfold tagRequestPath at ht
      cases hs : PyStr.split 46 tag with
      | nil => rw [hs] at ht; cases ht
      | cons base attrs =>
        rw [hs] at ht hf
        dsimp only at ht
        obtain ⟨v1, hv1⟩ := hf base (by simp)
        obtain ⟨v2, hv2⟩ := lds_attrSegs_ok attrs (fun x hx => hf x (by simp [hx]))
        rw [hv1, hv2] at ht
        dsimp only at ht
        split at ht
        · cases ht
        · next he =>
          cases ht
          have := Cli.lc_encEpath_err _ _ _ _ _ he
          cases this

theorem lds_pyStrInt_digits (k : Int) (hk : 0 ≤ k) :
    pyStrInt k ≠ [] ∧ ∀ c ∈ pyStrInt k, PyStr.isDigitC c = true := by
  obtain ⟨m, rfl⟩ := Int.eq_ofNat_of_zero_le hk
  have hs : toString ((m : Nat) : Int) = toString m := rfl
  unfold pyStrInt
  rw [hs]
  have hl : (toString m).toList = Nat.toDigits 10 m := Nat.toList_repr
  rw [hl]
  constructor
  · simp [Nat.toDigits_ne_nil]
  · intro c hc
    obtain ⟨ch, hch, rfl⟩ := List.mem_map.1 hc
    have := Nat.isDigit_of_mem_toDigits (by decide) (by decide) hch
    simp only [Char.isDigit, Bool.and_eq_true, decide_eq_true_eq] at this
    simp only [PyStr.isDigitC, Bool.and_eq_true, decide_eq_true_eq]
    have h1 : ch.val.toNat = ch.toNat := rfl
    obtain ⟨t1, t2⟩ := this
    have t1' : ('0' : Char).val ≤ ch.val := t1
    rw [UInt32.le_iff_toNat_le] at t1' t2
    have e0 : ('0' : Char).val.toNat = 48 := rfl
    have e9 : ('9' : Char).val.toNat = 57 := rfl
    rw [e0] at t1'; rw [e9] at t2
    rw [← h1]; exact ⟨t1', t2⟩

/-- every part of the tag an accepted request addresses has indexes `tag_request_path` can convert -/
theorem lds_parse_plc_fine (db : TagDb) (write : Bool) (rid : Nat) (tag0 : Name)
    (he : (parseTagRequest db write rid tag0).error = none) :
    ∀ part ∈ PyStr.split 46 (parseTagRequest db write rid tag0).plcTag, lds_Fine part := by
  rcases lds_parse_cases db write rid tag0 with ⟨e', hp, _⟩ |
    ⟨tag, n, impl, info, bit, tag1, hs, h0, h1, hb, hparts, hbp, hsub, ⟨hd, hbb, hp⟩ | ⟨hd, t, idx, ha, hw, hp⟩⟩
  · rw [hp] at he; cases he
  · rw [hp]
    intro part hpart
    exact lds_fine_of_ok part (hparts part (hsub part hpart))
  · rw [hp]
    dsimp only
    cases idx with
    | none => intro part hpart; exact lds_fine_of_ok part (hparts part hpart)
    | some i =>
      dsimp only
      obtain ⟨P, X, name, index, htag, ht, hn46, hn91, hnne, hv, hchars, hsplit, hX, hrepl⟩ :=
        lds_getArrayIndex_shape tag t i hparts ha
      have hi0 : 0 ≤ i := lds_getArrayIndex_nonneg tag t i hparts ha
      have key : ∀ ds : List Nat, ds ≠ [] → (∀ c ∈ ds, PyStr.isDigitC c = true) →
          ∀ part ∈ PyStr.split 46 (t ++ 91 :: ds ++ [93]), lds_Fine part := by
        intro ds hne hds part hpart
        have h46 : 46 ∉ name ++ 91 :: ds ++ [93] := by
          intro hm
          simp only [List.mem_append, List.mem_cons, List.not_mem_nil, or_false] at hm
          rcases hm with (hm | hm | hm) | hm
          · exact hn46 hm
          · cases hm
          · have := hds 46 hm; simp [PyStr.isDigitC] at this
          · cases hm
        have hrw : t ++ 91 :: ds ++ [93] = P ++ (name ++ 91 :: ds ++ [93]) := by rw [ht]; simp
        rw [hrw, hrepl _ h46] at hpart
        rcases List.mem_append.1 hpart with hx | hx
        · exact lds_fine_of_ok part (hparts part (hX part hx))
        · rw [List.mem_singleton.1 hx]
          exact lds_fine_digits name ds hn91 hne hds
      cases write with
      | true =>
        have hk : 0 ≤ i / 32 := Int.ediv_nonneg hi0 (by decide)
        obtain ⟨hne, hds⟩ := lds_pyStrInt_digits (i / 32) hk
        have : t ++ [91] ++ pyStrInt (i / 32) ++ [93] = t ++ 91 :: pyStrInt (i / 32) ++ [93] := by simp
        simp only [if_true]
        rw [this]
        exact key _ hne hds
      | false =>
        have : t ++ nm "[0]" = t ++ 91 :: [48] ++ [93] := by
          have : nm "[0]" = [91, 48, 93] := by decide
          rw [this]; simp
        simp only [Bool.false_eq_true, if_false]
        rw [this]
        exact key [48] (by simp) (by intro c hc; simp at hc; subst hc; decide)

end Pycomm.Lgx.Drv
