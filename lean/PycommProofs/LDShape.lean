/-
  Helper lemmas for the C03 proofs (shape of the results of `LogixDriver.read` / `LogixDriver.write`):
  the parser is position-wise, what a parsed request looks like, what the request builders carry,
  what `_send_requests` may put into the result table.
-/
import PycommModel.Logix.Driver
import PycommProofs.LCBasic
namespace Pycomm.Lgx.Drv
open Pycomm.Tgt Pycomm.Path Pycomm.Reply

/-! ### `parseRequestedTags` is position-wise -/

theorem lds_parse_length (db : TagDb) (rw : Bool) (tags : List Name) :
    (parseRequestedTags db rw tags).length = tags.length := by
  simp [parseRequestedTags]

theorem lds_parse_getElem? (db : TagDb) (rw : Bool) (tags : List Name) (i : Nat) :
    (parseRequestedTags db rw tags)[i]? = tags[i]?.map (parseTagRequest db rw i) := by
  unfold parseRequestedTags
  rw [List.getElem?_map]
  by_cases h : i < tags.length
  · have h1 : ((List.range tags.length).zip tags)[i]? = some (i, tags[i]) := by
      rw [List.getElem?_eq_getElem (by simp [h])]
      simp
    rw [h1, List.getElem?_eq_getElem h]; rfl
  · have h1 : ((List.range tags.length).zip tags)[i]? = none := by
      apply List.getElem?_eq_none; simp; omega
    rw [h1, List.getElem?_eq_none (by omega)]; rfl

theorem lds_parse_getElem (db : TagDb) (rw : Bool) (tags : List Name) (i : Nat) (h : i < tags.length) :
    (parseRequestedTags db rw tags)[i]'(by rw [lds_parse_length]; exact h) = parseTagRequest db rw i tags[i] := by
  have := lds_parse_getElem? db rw tags i
  rw [List.getElem?_eq_getElem (by rw [lds_parse_length]; exact h), List.getElem?_eq_getElem h] at this
  simpa using this

/-! ### `parseTagRequest`, restructured -/

/-- the bit-number split of `_parse_tag_request`: (bit, attrs, tag without the bit number) -/
def lds_bitSplit (tag base : Name) (attrs1 : List Name) : Option Int × List Name × Name :=
  match attrs1.getLast? with
  | some l =>
      if PyStr.isDigit l then
        let as := attrs1.dropLast
        (some (PyStr.decVal l : Int), as, if as.isEmpty then base else base ++ [46] ++ joinDot as)
      else (none, attrs1, tag)
  | none => (none, attrs1, tag)

def lds_scoped (base0 : Name) (attrs0 : List Name) : Option (Name × List Name) :=
  if PyStr.startsWith (nm "Program:") base0 then
    match attrs0 with
    | a :: rest => some (base0 ++ [46] ++ a, rest)
    | [] => none
  else some (base0, attrs0)

/-- a bit number addresses one bit of an integer -/
def lds_bitBad (info : TagInfo) (bit : Option Int) : Bool :=
  match bit with
  | none => false
  | some b => info.core.tagType != .atomic ||
      (match intBits info.core.dataTypeName with | some w => decide ((w : Int) ≤ b) | none => true)

/-- the part of `_parse_tag_request` after the bit-number split -/
def lds_tail (db : TagDb) (write : Bool) (rid : Nat) (tag0 tag : Name) (elements : Int) (implicit : Bool)
    (base : Name) (bit : Option Int) (attrs : List Name) (tag1 : Name) : Parsed :=
  let fail (e : TagErr) : Parsed := { requestId := rid, requestTag := tag0, error := some e }
  match getTagInfo db base attrs with
  | .error e => fail e
  | .ok none => fail (failedParse tag1)
  | .ok (some info) =>
    if lds_bitBad info bit then
      fail (.text (nm "Invalid bit number for a " ++ info.core.dataTypeName ++ nm ": " ++ pyStrInt (bit.getD 0)))
    else
    if isDword info then
      match getArrayIndex tag1 with
      | none => fail (failedParse tag1)
      | some (t, idx) =>
          let plc := match idx with
            | some i => if write then t ++ [91] ++ pyStrInt (i / 32) ++ [93] else t ++ nm "[0]"
            | none => tag1
          let total : Int := idx.getD 0 + elements
          { requestId := rid, requestTag := tag0, userTag := tag, plcTag := plc, bit := idx,
            elements := total / 32 + (if total % 32 ≠ 0 then 1 else 0), info := some info,
            boolElements := if implicit || elements == 1 then none else some elements }
    else
      { requestId := rid, requestTag := tag0, userTag := tag, plcTag := tag1, bit := bit, elements := elements,
        info := some info, boolElements := none }

theorem lds_parse_unfold (db : TagDb) (write : Bool) (rid : Nat) (tag0 : Name) :
    parseTagRequest db write rid tag0 =
      match splitElements tag0 with
      | .error e => { requestId := rid, requestTag := tag0, error := some e }
      | .ok (tag, elements, implicit) =>
        if !(0 ≤ elements ∧ elements ≤ 65535) then
          { requestId := rid, requestTag := tag0, error := some (.text (nm "Element count out of range: " ++ pyStrInt elements)) }
        else
        match (PyStr.split 46 tag).find? (fun part => !indexPartOk part) with
        | some part => { requestId := rid, requestTag := tag0, error := some (.text (nm "Invalid array index: " ++ part)) }
        | none =>
        match PyStr.split 46 tag with
        | [] => { requestId := rid, requestTag := tag0, error := some (failedParse tag) }
        | base0 :: attrs0 =>
          match lds_scoped base0 attrs0 with
          | none => { requestId := rid, requestTag := tag0, error := some (failedParse tag) }
          | some (base, attrs1) =>
              lds_tail db write rid tag0 tag elements implicit base (lds_bitSplit tag base attrs1).1
                (lds_bitSplit tag base attrs1).2.1 (lds_bitSplit tag base attrs1).2.2 := by
  rfl
/-- a `Tag.error` of the request parser: a non-empty text -/
def lds_TextErr (e : TagErr) : Prop := ∃ s, e = .text s ∧ s ≠ []

theorem lds_getTagInfo_err (db : TagDb) (base : Name) (attrs : List Name) (e : TagErr)
    (h : getTagInfo db base attrs = .error e) : lds_TextErr e := by
  unfold getTagInfo at h
  cases hd : db.get? (stripArray base) with
  | none => simp only [hd] at h; cases h; exact ⟨_, rfl, by simp [nm]⟩
  | some data =>
    simp only [hd] at h
    split at h
    · cases h
    · split at h
      · cases h
      · cases h
      · cases h; exact ⟨_, rfl, by simp [nm]⟩
      · cases h; exact ⟨_, rfl, by simp [nm]⟩

theorem lds_failedParse_text (t : Name) : lds_TextErr (failedParse t) := ⟨_, rfl, by simp [nm]⟩

theorem lds_intBits_dword : intBits (nm "DWORD") = none := by decide

theorem lds_isDword_name (info : TagInfo) (h : isDword info = true) : info.core.dataTypeName = nm "DWORD" := by
  unfold isDword at h
  simp only [Bool.and_eq_true, beq_iff_eq] at h
  exact h.2

theorem lds_tail_cases (db : TagDb) (write : Bool) (rid : Nat) (tag0 tag : Name) (elements : Int) (implicit : Bool)
    (base : Name) (bit : Option Int) (attrs : List Name) (tag1 : Name) :
    (∃ e, lds_tail db write rid tag0 tag elements implicit base bit attrs tag1
        = { requestId := rid, requestTag := tag0, error := some e } ∧ lds_TextErr e) ∨
    (∃ info, getTagInfo db base attrs = .ok (some info) ∧
      ((isDword info = false ∧ lds_tail db write rid tag0 tag elements implicit base bit attrs tag1
          = { requestId := rid, requestTag := tag0, userTag := tag, plcTag := tag1, bit := bit, elements := elements,
              info := some info, boolElements := none }) ∨
       (isDword info = true ∧ bit = none ∧ ∃ t idx, getArrayIndex tag1 = some (t, idx) ∧
          lds_tail db write rid tag0 tag elements implicit base bit attrs tag1
          = { requestId := rid, requestTag := tag0, userTag := tag,
              plcTag := (match idx with
                | some i => if write then t ++ [91] ++ pyStrInt (i / 32) ++ [93] else t ++ nm "[0]"
                | none => tag1),
              bit := idx,
              elements := (idx.getD 0 + elements) / 32 + (if (idx.getD 0 + elements) % 32 ≠ 0 then 1 else 0),
              info := some info,
              boolElements := if implicit || elements == 1 then none else some elements }))) := by
  unfold lds_tail
  cases hg : getTagInfo db base attrs with
  | error e => exact .inl ⟨e, rfl, lds_getTagInfo_err _ _ _ _ hg⟩
  | ok oi =>
    cases oi with
    | none => exact .inl ⟨_, rfl, lds_failedParse_text _⟩
    | some info =>
      dsimp only
      by_cases hb : lds_bitBad info bit = true
      · rw [if_pos hb]
        exact .inl ⟨_, rfl, _, rfl, by simp [nm]⟩
      · rw [if_neg hb]
        by_cases hd : isDword info = true
        · rw [if_pos hd]
          have hbit : bit = none := by
            cases bit with
            | none => rfl
            | some b =>
              exfalso; apply hb
              simp only [lds_bitBad, lds_isDword_name info hd, lds_intBits_dword, Bool.or_true]
          cases ha : getArrayIndex tag1 with
          | none => exact .inl ⟨_, rfl, lds_failedParse_text _⟩
          | some x =>
            obtain ⟨t, idx⟩ := x
            exact .inr ⟨info, rfl, .inr ⟨hd, hbit, t, idx, rfl, rfl⟩⟩
        · rw [if_neg hd]
          exact .inr ⟨info, rfl, .inl ⟨by simpa using hd, rfl⟩⟩

theorem lds_bitSplit_none (tag base : Name) (attrs1 : List Name)
    (h : (lds_bitSplit tag base attrs1).1 = none) : (lds_bitSplit tag base attrs1).2.2 = tag := by
  unfold lds_bitSplit at h ⊢
  cases hg : attrs1.getLast? with
  | none => rfl
  | some l =>
    simp only [hg] at h ⊢
    by_cases hd : PyStr.isDigit l = true
    · simp only [hd, if_true] at h; cases h
    · simp only [hd]; rfl

/-- the two shapes of a parsed request -/
theorem lds_parse_cases (db : TagDb) (write : Bool) (rid : Nat) (tag0 : Name) :
    (∃ e, parseTagRequest db write rid tag0 = { requestId := rid, requestTag := tag0, error := some e } ∧ lds_TextErr e) ∨
    (∃ tag elements implicit info bit tag1,
      splitElements tag0 = .ok (tag, elements, implicit) ∧ 0 ≤ elements ∧ elements ≤ 65535 ∧ (bit = none → tag1 = tag) ∧
      ((isDword info = false ∧ parseTagRequest db write rid tag0
          = { requestId := rid, requestTag := tag0, userTag := tag, plcTag := tag1, bit := bit, elements := elements,
              info := some info, boolElements := none }) ∨
       (isDword info = true ∧ ∃ t idx, getArrayIndex tag = some (t, idx) ∧
          parseTagRequest db write rid tag0
          = { requestId := rid, requestTag := tag0, userTag := tag,
              plcTag := (match idx with
                | some i => if write then t ++ [91] ++ pyStrInt (i / 32) ++ [93] else t ++ nm "[0]"
                | none => tag),
              bit := idx,
              elements := (idx.getD 0 + elements) / 32 + (if (idx.getD 0 + elements) % 32 ≠ 0 then 1 else 0),
              info := some info,
              boolElements := if implicit || elements == 1 then none else some elements }))) := by
  rw [lds_parse_unfold]
  cases hs : splitElements tag0 with
  | error e =>
    refine .inl ⟨e, rfl, ?_⟩
    unfold splitElements at hs
    split at hs
    · split at hs
      · split at hs
        · cases hs
        · cases hs; exact lds_failedParse_text _
      · cases hs; exact lds_failedParse_text _
    · cases hs
  | ok x =>
    obtain ⟨tag, elements, implicit⟩ := x
    dsimp only
    by_cases hr : (0 ≤ elements ∧ elements ≤ 65535)
    · rw [if_neg (by simp [hr])]
      cases hf : (PyStr.split 46 tag).find? (fun part => !indexPartOk part) with
      | some part => exact .inl ⟨_, rfl, _, rfl, by simp [nm]⟩
      | none =>
        dsimp only
        cases hsp : PyStr.split 46 tag with
        | nil => exact .inl ⟨_, rfl, lds_failedParse_text _⟩
        | cons base0 attrs0 =>
          dsimp only
          cases hsc : lds_scoped base0 attrs0 with
          | none => exact .inl ⟨_, rfl, lds_failedParse_text _⟩
          | some ba =>
            obtain ⟨base, attrs1⟩ := ba
            dsimp only
            have hbn := lds_bitSplit_none tag base attrs1
            generalize lds_bitSplit tag base attrs1 = trip at hbn ⊢
            obtain ⟨bit, attrs, tag1⟩ := trip
            dsimp only at hbn ⊢
            rcases lds_tail_cases db write rid tag0 tag elements implicit base bit attrs tag1 with
              ⟨e, he, ht⟩ | ⟨info, _, ⟨hd, he⟩ | ⟨hd, hb, t, idx, ha, he⟩⟩
            · exact .inl ⟨e, he, ht⟩
            · exact .inr ⟨tag, elements, implicit, info, bit, tag1, rfl, hr.1, hr.2, hbn, .inl ⟨hd, he⟩⟩
            · have := hbn hb; subst this
              exact .inr ⟨tag1, elements, implicit, info, bit, tag1, rfl, hr.1, hr.2, hbn, .inr ⟨hd, t, idx, ha, he⟩⟩
    · rw [if_pos (by simp [hr])]
      exact .inl ⟨_, rfl, _, rfl, by simp [nm]⟩

/-! ### the element-count suffix -/

theorem lds_splitOn_ne_nil (sep : Nat) (s : List Nat) : splitOn sep s ≠ [] := by
  cases s with
  | nil => simp [splitOn]
  | cons c cs =>
    simp only [splitOn]
    split
    · simp
    · split <;> simp

theorem lds_splitOn_one (sep : Nat) (s b : List Nat) (h : splitOn sep s = [b]) : s = b ∧ sep ∉ b := by
  induction s generalizing b with
  | nil => simp [splitOn] at h; subst h; simp
  | cons c cs ih =>
    simp only [splitOn] at h
    split at h
    · next hn => exact absurd hn (lds_splitOn_ne_nil sep cs)
    · next hd tl hcs =>
      split at h
      · simp at h
      · next hc =>
        simp only [List.cons.injEq] at h
        obtain ⟨rfl, rfl⟩ := h
        obtain ⟨rfl, hm⟩ := ih hd hcs
        refine ⟨rfl, ?_⟩
        intro hmem
        rcases List.mem_cons.1 hmem with e | e
        · exact hc e.symm
        · exact hm e

theorem lds_splitOn_two (sep : Nat) (s a b : List Nat) (h : splitOn sep s = [a, b]) :
    s = a ++ sep :: b ∧ sep ∉ a ∧ sep ∉ b := by
  induction s generalizing a with
  | nil => simp [splitOn] at h
  | cons c cs ih =>
    simp only [splitOn] at h
    split at h
    · next hn => exact absurd hn (lds_splitOn_ne_nil sep cs)
    · next hd tl hcs =>
      split at h
      · next hc =>
        simp only [List.cons.injEq] at h
        obtain ⟨rfl, rfl, rfl⟩ := h
        obtain ⟨rfl, hm⟩ := lds_splitOn_one sep cs hd hcs
        subst hc
        exact ⟨rfl, by simp, hm⟩
      · next hc =>
        simp only [List.cons.injEq] at h
        obtain ⟨rfl, rfl⟩ := h
        obtain ⟨rfl, hma, hmb⟩ := ih hd hcs
        refine ⟨rfl, ?_, hmb⟩
        intro hmem
        rcases List.mem_cons.1 hmem with e | e
        · exact hc e.symm
        · exact hma e

theorem lds_getLast_split (l : List Nat) (x : Nat) (h : l.getLast? = some x) : l = l.take (l.length - 1) ++ [x] := by
  obtain ⟨ys, rfl⟩ := List.getLast?_eq_some_iff.1 h
  simp

/-- what `splitElements` accepts: no suffix (the tag is returned as it is), or `tag{digits}` -/
theorem lds_splitElements_ok (t u : Name) (n : Int) (impl : Bool) (h : splitElements t = .ok (u, n, impl)) :
    (impl = true ∧ u = t ∧ n = 1 ∧ ¬ (t.getLast? = some 125 ∧ 123 ∈ t)) ∨
    (impl = false ∧ 123 ∉ u ∧ ∃ ds, t = u ++ 123 :: ds ++ [125] ∧ 123 ∉ ds ∧ PyStr.pyInt ds = some n) := by
  unfold splitElements at h
  split at h
  · next hc =>
    split at h
    · next a tmp hsp =>
      split at h
      · next v hv =>
        cases h
        obtain ⟨rfl, hma, hmb⟩ := lds_splitOn_two 123 t u tmp hsp
        refine .inr ⟨rfl, hma, tmp.take (tmp.length - 1), ?_, ?_, hv⟩
        · simp only [Bool.and_eq_true, beq_iff_eq] at hc
          have hl := hc.1
          cases tmp with
          | nil => simp at hl
          | cons c cs =>
            have hl2 : (c :: cs).getLast? = some 125 := by
              simpa [List.getLast?_append, List.getLast?_cons_cons] using hl
            have := lds_getLast_split (c :: cs) 125 hl2
            rw [List.append_assoc, List.cons_append, ← this]
        · intro hm; exact hmb (List.mem_of_mem_take hm)
      · cases h
    · cases h
  · next hc =>
    cases h
    refine .inl ⟨rfl, rfl, rfl, ?_⟩
    intro ⟨h1, h2⟩
    apply hc
    simp [h1, h2]

/-- the tag returned by `splitElements` has no element-count suffix left: splitting it again changes nothing -/
theorem lds_splitElements_fix (t u : Name) (n : Int) (impl : Bool) (h : splitElements t = .ok (u, n, impl)) :
    splitElements u = .ok (u, 1, true) := by
  rcases lds_splitElements_ok t u n impl h with ⟨_, rfl, _, hc⟩ | ⟨_, hm, _⟩
  · unfold splitElements
    rw [if_neg]
    intro hh; apply hc
    simpa using hh
  · unfold splitElements
    rw [if_neg]
    intro hh
    simp only [Bool.and_eq_true, List.contains_iff_mem] at hh
    exact hm hh.2

/-- a request the parser accepted: `tag` = the request without its element count `n`, `info` = the tag definition -/
structure lds_POk (tag0 : Name) (p : Parsed) (tag : Name) (n : Int) (impl : Bool) (info : TagInfo) : Prop where
  split : splitElements tag0 = .ok (tag, n, impl)
  range : 0 ≤ n ∧ n ≤ 65535
  err : p.error = none
  utag : p.userTag = tag
  hinfo : p.info = some info
  plcOfBit : p.bit = none → p.plcTag = tag
  plain : isDword info = false → p.elements = n ∧ p.boolElements = none
  dword : isDword info = true →
    p.elements = (p.bit.getD 0 + n) / 32 + (if (p.bit.getD 0 + n) % 32 ≠ 0 then 1 else 0)

theorem lds_parse_rid (db : TagDb) (write : Bool) (rid : Nat) (tag0 : Name) :
    (parseTagRequest db write rid tag0).requestId = rid := by
  rcases lds_parse_cases db write rid tag0 with ⟨e, he, _⟩ | ⟨_, _, _, _, _, _, _, _, _, _, ⟨_, he⟩ | ⟨_, _, _, _, he⟩⟩ <;>
    rw [he]

theorem lds_parse_rtag (db : TagDb) (write : Bool) (rid : Nat) (tag0 : Name) :
    (parseTagRequest db write rid tag0).requestTag = tag0 := by
  rcases lds_parse_cases db write rid tag0 with ⟨e, he, _⟩ | ⟨_, _, _, _, _, _, _, _, _, _, ⟨_, he⟩ | ⟨_, _, _, _, he⟩⟩ <;>
    rw [he]

/-- a parse error is a non-empty text, and the parsed request is nothing but the request and the error -/
theorem lds_parse_err (db : TagDb) (write : Bool) (rid : Nat) (tag0 : Name) (e : TagErr)
    (h : (parseTagRequest db write rid tag0).error = some e) :
    parseTagRequest db write rid tag0 = { requestId := rid, requestTag := tag0, error := some e } ∧ lds_TextErr e := by
  rcases lds_parse_cases db write rid tag0 with ⟨e', he, ht⟩ | ⟨_, _, _, _, _, _, _, _, _, _, ⟨_, he⟩ | ⟨_, _, _, _, he⟩⟩
  · rw [he] at h; cases h; exact ⟨he, ht⟩
  · rw [he] at h; cases h
  · rw [he] at h; cases h

theorem lds_parse_ok (db : TagDb) (write : Bool) (rid : Nat) (tag0 : Name)
    (h : (parseTagRequest db write rid tag0).error = none) :
    ∃ tag n impl info, lds_POk tag0 (parseTagRequest db write rid tag0) tag n impl info := by
  rcases lds_parse_cases db write rid tag0 with ⟨e', he, ht⟩ |
    ⟨tag, n, impl, info, bit, tag1, hs, h0, h1, hb, ⟨hd, he⟩ | ⟨hd, t, idx, ha, he⟩⟩
  · rw [he] at h; cases h
  · refine ⟨tag, n, impl, info, ?_⟩
    rw [he]
    exact ⟨hs, ⟨h0, h1⟩, rfl, rfl, rfl, hb, fun _ => ⟨rfl, rfl⟩, fun hd' => by (rw [hd] at hd'; cases hd')⟩
  · refine ⟨tag, n, impl, info, ?_⟩
    rw [he]
    refine ⟨hs, ⟨h0, h1⟩, rfl, rfl, rfl, ?_, fun hd' => by (rw [hd] at hd'; cases hd'), fun _ => rfl⟩
    intro hi; dsimp only at hi; subst hi; rfl

/-- after the range check of the parser, the element count of an accepted request fits a UINT, except for a
    BOOL-array request with an explicit index -/
theorem lds_POk_elements_range (tag0 : Name) (p : Parsed) (tag : Name) (n : Int) (impl : Bool) (info : TagInfo)
    (h : lds_POk tag0 p tag n impl info) (hd : isDword info = false ∨ p.bit = none) :
    0 ≤ p.elements ∧ p.elements ≤ 65535 := by
  cases hdw : isDword info with
  | false => rw [(h.plain hdw).1]; exact h.range
  | true =>
    rcases hd with hd | hd
    · rw [hdw] at hd; cases hd
    · have := h.dword hdw
      rw [hd] at this
      simp only [Option.getD_none, Int.zero_add] at this
      rw [this]
      have := h.range
      split <;> omega

/-! ### what the request builders carry -/

/-- the (request id, tag) pairs a packet carries: the requests it will answer -/
def Request.lds_carried : Request → List (Nat × Name)
  | .read r | .readFrag r => [(r.rid, r.tag)]
  | .write r | .writeFrag r => [(r.rid, r.tag)]
  | .rmw r => r.requestIds.map fun id => (id, r.tag)
  | .multiRead _ rs => rs.map fun r => (r.rid, r.tag)
  | .multiWrite _ rs => rs.map fun r => (r.rid, r.tag)

/-- the keys under which `_send_requests` stores the Tags of a packet, with the name of the stored Tag -/
def Request.lds_resKeys : Request → List (Int × Name)
  | .read r | .readFrag r => [((r.rid : Int), r.tag)]
  | .write r | .writeFrag r => [((r.rid : Int), r.tag)]
  | .rmw r => [(r.rid, r.tag)]
  | .multiRead _ rs => rs.map fun r => ((r.rid : Int), r.tag)
  | .multiWrite _ rs => rs.map fun r => ((r.rid : Int), r.tag)

/-- `k` = (request id, addressed tag) of a request of `ps` that the parser accepted -/
def lds_Live (ps : List Parsed) (k : Nat × Name) : Prop :=
  ∃ p ∈ ps, p.error = none ∧ p.requestId = k.1 ∧ p.plcTag = k.2

theorem lds_Live_cons (p : Parsed) (ps : List Parsed) (k : Nat × Name) (h : lds_Live ps k) : lds_Live (p :: ps) k := by
  obtain ⟨q, hq, h1⟩ := h
  exact ⟨q, List.mem_cons_of_mem _ hq, h1⟩

theorem lds_mkReadReq_ok (cfg : Cfg) (d d1 : Cli.Drv) (p : Parsed) (info : TagInfo) (req : ReadReq)
    (h : mkReadReq cfg d p info = (d1, .ok req)) : req.rid = p.requestId ∧ req.tag = p.plcTag := by
  unfold mkReadReq at h
  dsimp only at h
  split at h
  · cases h
  · cases h
  · cases h; exact ⟨rfl, rfl⟩

theorem lds_refresh_read (d : Cli.Drv) (r : ReadReq) : (r.refresh d).2.rid = r.rid ∧ (r.refresh d).2.tag = r.tag :=
  ⟨rfl, rfl⟩

theorem lds_readBuildLive_live (cfg : Cfg) (C : Nat) (multi : Bool) (ps : List Parsed) :
    ∀ (d d' : Cli.Drv) (items : List (ReadReq × Nat × Bool)),
      readBuildLive cfg C multi d ps = (d', .ok items) → ∀ x ∈ items, lds_Live ps (x.1.rid, x.1.tag) := by
  induction ps with
  | nil =>
    intro d d' items h x hx
    simp only [readBuildLive] at h
    cases h; cases hx
  | cons p rest ih =>
    intro d d' items h x hx
    rw [readBuildLive] at h
    split at h
    · next info he hi =>
      rcases hm : mkReadReq cfg d p info with ⟨d1, r⟩
      rw [hm] at h
      dsimp only at h
      cases r with
      | error e => cases h
      | ok req =>
        dsimp only at h
        obtain ⟨hrid, htag⟩ := lds_mkReadReq_ok cfg d d1 p info req hm
        generalize hfr : (if (if multi = true then decide (req.returnSize + K.OVERHEAD > C) else decide (req.returnSize > C)) = true
          then req.refresh d1 else (d1, req)) = fr at h
        have hfr2 : fr.2.rid = p.requestId ∧ fr.2.tag = p.plcTag := by
          have hb : ∀ b : Bool, (if b = true then req.refresh d1 else (d1, req)).2.rid = req.rid ∧
              (if b = true then req.refresh d1 else (d1, req)).2.tag = req.tag := by
            intro b; cases b <;> exact ⟨rfl, rfl⟩
          rw [← hfr, (hb _).1, (hb _).2]; exact ⟨hrid, htag⟩
        obtain ⟨d2, req2⟩ := fr
        dsimp only at h hfr2
        rcases hrec : readBuildLive cfg C multi d2 rest with ⟨d3, more⟩
        rw [hrec] at h
        dsimp only at h
        cases more with
        | error e => cases h
        | ok xs =>
          simp only [Except.map, Prod.mk.injEq, Except.ok.injEq] at h
          obtain ⟨_, rfl⟩ := h
          rcases List.mem_cons.1 hx with rfl | hx
          · exact ⟨p, List.mem_cons_self, he, hfr2.1.symm, hfr2.2.symm⟩
          · exact lds_Live_cons _ _ _ (ih d2 d3 xs hrec x hx)
    · exact lds_Live_cons _ _ _ (ih d d' items h x hx)

theorem lds_drawSeqs_snd {α} (xs : List α) : ∀ (d : Cli.Drv), (drawSeqs d xs).2.map (·.2) = xs := by
  induction xs with
  | nil => intro d; rfl
  | cons x rest ih =>
    intro d
    simp only [drawSeqs, List.map_cons, List.cons.injEq, true_and]
    exact ih _

def Request.lds_isRmw : Request → Bool
  | .rmw _ => true
  | _ => false

def Request.lds_isReadKind : Request → Bool
  | .read _ | .readFrag _ | .multiRead _ _ => true
  | _ => false

theorem lds_isRmw_of_readKind (q : Request) (h : q.lds_isReadKind = true) : q.lds_isRmw = false := by
  cases q <;> simp [Request.lds_isReadKind, Request.lds_isRmw] at h ⊢

theorem lds_resKeys_carried (q : Request) (h : q.lds_isRmw = false) :
    q.lds_resKeys = q.lds_carried.map fun k => ((k.1 : Int), k.2) := by
  cases q <;> simp [Request.lds_isRmw, Request.lds_resKeys, Request.lds_carried] at h ⊢

/-- `_read_build_requests`: every tag request inside a built packet is the request of a tag the parser accepted
    (its id and its addressed tag); in particular no packet carries the id of a request whose parse failed -/
theorem lds_readBuild_carried (cfg : Cfg) (d d' : Cli.Drv) (ps : List Parsed) (reqs : List Request)
    (h : readBuildRequests cfg d ps = (d', .ok reqs)) :
    ∀ q ∈ reqs, q.lds_isReadKind = true ∧ ∀ k ∈ q.lds_carried, lds_Live ps k := by
  unfold readBuildRequests at h
  dsimp only at h
  split at h
  · rcases hl : readBuildLive cfg d.connectionSize true d ps with ⟨d1, live⟩
    rw [hl] at h
    dsimp only at h
    cases live with
    | error e => cases h
    | ok items =>
      dsimp only at h
      have hlive := lds_readBuildLive_live cfg _ true ps d d1 items hl
      simp only [Prod.mk.injEq, Except.ok.injEq] at h
      obtain ⟨_, rfl⟩ := h
      intro q hq
      rcases List.mem_append.1 hq with hq | hq
      · obtain ⟨m, hm, rfl⟩ := List.mem_map.1 hq
        refine ⟨rfl, ?_⟩
        intro k hk
        simp only [Request.lds_carried, List.mem_map] at hk
        obtain ⟨r, hr, rfl⟩ := hk
        have hm2 : m.2 ∈ (drawSeqs d1 _).2.map (·.2) := List.mem_map.2 ⟨m, hm, rfl⟩
        rw [lds_drawSeqs_snd] at hm2
        obtain ⟨g, _, hg⟩ := List.mem_map.1 hm2
        rw [← hg] at hr
        obtain ⟨id, _, hid⟩ := List.mem_filterMap.1 hr
        cases hf : items.find? (fun x => x.1.rid == id) with
        | none => rw [hf] at hid; cases hid
        | some x =>
          rw [hf] at hid
          simp only [Option.map_some, Option.some.injEq] at hid
          subst hid
          exact hlive x (List.mem_of_find?_eq_some hf)
      · obtain ⟨x, hx, rfl⟩ := List.mem_map.1 hq
        refine ⟨rfl, ?_⟩
        intro k hk
        simp only [Request.lds_carried, List.mem_singleton] at hk
        subst hk
        exact hlive x (List.mem_filter.1 hx).1
  · rcases hl : readBuildLive cfg d.connectionSize false d ps with ⟨d1, live⟩
    rw [hl] at h
    dsimp only at h
    cases live with
    | error e => cases h
    | ok items =>
      have hlive := lds_readBuildLive_live cfg _ false ps d d1 items hl
      simp only [Except.map, Prod.mk.injEq, Except.ok.injEq] at h
      obtain ⟨_, rfl⟩ := h
      intro q hq
      obtain ⟨x, hx, rfl⟩ := List.mem_map.1 hq
      split
      · refine ⟨rfl, ?_⟩
        intro k hk
        simp only [Request.lds_carried, List.mem_singleton] at hk
        subst hk
        exact hlive x hx
      · refine ⟨rfl, ?_⟩
        intro k hk
        simp only [Request.lds_carried, List.mem_singleton] at hk
        subst hk
        exact hlive x hx

/-! ### what `_send_requests` stores in `results` -/

theorem lds_set_mem (rs : Results) (k : Int) (t : LTag) (x : Int × LTag) (h : x ∈ rs.set k t) :
    x ∈ rs ∨ x = (k, t) := by
  unfold Results.set at h
  split at h
  · obtain ⟨y, hy, rfl⟩ := List.mem_map.1 h
    split
    · exact .inr rfl
    · exact .inl hy
  · rcases List.mem_append.1 h with h | h
    · exact .inl h
    · exact .inr (by simpa using h)

theorem lds_readTag_tag (req : ReadReq) (r : Resp) (v : PyVal) (dt : Option Name) (t : LTag)
    (h : readTag req r v dt = .ok t) : t.tag = req.tag := by
  unfold readTag at h
  split at h
  · cases h
  · cases h; split <;> rfl

theorem lds_writeTag_tag (tag : Name) (value : PyVal) (dtn : Name) (r : Resp) (t : LTag)
    (h : writeTag tag value dtn r = .ok t) : t.tag = tag := by
  unfold writeTag at h
  split at h
  · cases h
  · cases h; split <;> rfl

theorem lds_multiRead_keys (l : List (ReadReq × Option Bytes)) :
    ∀ (rs rs' : Results), multiReadResults rs l = .ok rs' →
      ∀ kt ∈ rs', kt ∈ rs ∨ ∃ x ∈ l, kt.1 = (x.1.rid : Int) ∧ kt.2.tag = x.1.tag := by
  induction l with
  | nil => intro rs rs' h kt hkt; simp only [multiReadResults] at h; cases h; exact .inl hkt
  | cons x rest ih =>
    intro rs rs' h kt hkt
    obtain ⟨req, raw⟩ := x
    rw [multiReadResults] at h
    dsimp only at h
    split at h
    · rcases ih _ _ h kt hkt with h1 | ⟨y, hy, h2⟩
      · rcases lds_set_mem _ _ _ _ h1 with h1 | rfl
        · exact .inl h1
        · exact .inr ⟨(req, raw), List.mem_cons_self, rfl, rfl⟩
      · exact .inr ⟨y, List.mem_cons_of_mem _ hy, h2⟩
    · split at h
      · cases h
      · rcases ih _ _ h kt hkt with h1 | ⟨y, hy, h2⟩
        · rcases lds_set_mem _ _ _ _ h1 with h1 | rfl
          · exact .inl h1
          · exact .inr ⟨(req, raw), List.mem_cons_self, rfl, rfl⟩
        · exact .inr ⟨y, List.mem_cons_of_mem _ hy, h2⟩

theorem lds_multiWrite_keys (l : List (WriteReq × Option Bytes)) :
    ∀ (rs rs' : Results), multiWriteResults rs l = .ok rs' →
      ∀ kt ∈ rs', kt ∈ rs ∨ ∃ x ∈ l, kt.1 = (x.1.rid : Int) ∧ kt.2.tag = x.1.tag := by
  induction l with
  | nil => intro rs rs' h kt hkt; simp only [multiWriteResults] at h; cases h; exact .inl hkt
  | cons x rest ih =>
    intro rs rs' h kt hkt
    obtain ⟨req, raw⟩ := x
    rw [multiWriteResults] at h
    split at h
    · rcases ih _ _ h kt hkt with h1 | ⟨y, hy, h2⟩
      · rcases lds_set_mem _ _ _ _ h1 with h1 | rfl
        · exact .inl h1
        · exact .inr ⟨(req, raw), List.mem_cons_self, rfl, rfl⟩
      · exact .inr ⟨y, List.mem_cons_of_mem _ hy, h2⟩
    · split at h
      · cases h
      · rcases ih _ _ h kt hkt with h1 | ⟨y, hy, h2⟩
        · rcases lds_set_mem _ _ _ _ h1 with h1 | rfl
          · exact .inl h1
          · exact .inr ⟨(req, raw), List.mem_cons_self, rfl, rfl⟩
        · exact .inr ⟨y, List.mem_cons_of_mem _ hy, h2⟩

/-- a Tag stored by one iteration of `_send_requests` is keyed and named by a tag request of the packet -/
theorem lds_sendRequest_keys {σ} (hook : ObjHook σ) (w w' : Cli.World σ) (rs rs' : Results) (q : Request)
    (h : sendRequest hook w rs q = (w', .ok rs')) :
    ∀ kt ∈ rs', kt ∈ rs ∨ (kt.1, kt.2.tag) ∈ q.lds_resKeys := by
  intro kt hkt
  have single : ∀ (k : Int) (tag : Name) (r : Except Exn LTag) (ht : ∀ t, r = .ok t → t.tag = tag),
      (r.map fun t => rs.set k t) = .ok rs' → kt ∈ rs ∨ (kt.1, kt.2.tag) = (k, tag) := by
    intro k tag r ht hr
    cases r with
    | error e => cases hr
    | ok t =>
      simp only [Except.map, Except.ok.injEq] at hr
      subst hr
      rcases lds_set_mem _ _ _ _ hkt with h1 | rfl
      · exact .inl h1
      · exact .inr (by rw [ht t rfl])
  cases q with
  | read req =>
    simp only [sendRequest] at h
    split at h
    · cases h
    · simp only [Prod.mk.injEq] at h
      rcases single req.rid req.tag _ (fun t => lds_readTag_tag _ _ _ _ t) h.2 with h1 | h1
      · exact .inl h1
      · exact .inr (by simp [Request.lds_resKeys, h1])
  | readFrag req =>
    simp only [sendRequest] at h
    split at h
    · cases h
    · simp only [Prod.mk.injEq] at h
      rcases single req.rid req.tag _ (fun t => lds_readTag_tag _ _ _ _ t) h.2 with h1 | h1
      · exact .inl h1
      · exact .inr (by simp [Request.lds_resKeys, h1])
  | write req =>
    simp only [sendRequest] at h
    split at h
    · cases h
    · simp only [Prod.mk.injEq] at h
      rcases single req.rid req.tag _ (fun t => lds_writeTag_tag _ _ _ _ t) h.2 with h1 | h1
      · exact .inl h1
      · exact .inr (by simp [Request.lds_resKeys, h1])
  | writeFrag req =>
    simp only [sendRequest] at h
    split at h
    · cases h
    · simp only [Prod.mk.injEq] at h
      rcases single req.rid req.tag _ (fun t => lds_writeTag_tag _ _ _ _ t) h.2 with h1 | h1
      · exact .inl h1
      · exact .inr (by simp [Request.lds_resKeys, h1])
  | rmw req =>
    simp only [sendRequest] at h
    split at h
    · cases h
    · split at h
      · cases h
      · simp only [Prod.mk.injEq] at h
        rcases single req.rid req.tag _ (fun t => lds_writeTag_tag _ _ _ _ t) h.2 with h1 | h1
        · exact .inl h1
        · exact .inr (by simp [Request.lds_resKeys, h1])
  | multiRead seq reqs =>
    simp only [sendRequest] at h
    split at h
    · cases h
    · simp only [Prod.mk.injEq] at h
      rcases lds_multiRead_keys _ _ _ h.2 kt hkt with h1 | ⟨x, hx, h1, h2⟩
      · exact .inl h1
      · refine .inr ?_
        simp only [Request.lds_resKeys, List.mem_map]
        exact ⟨x.1, (List.of_mem_zip hx).1, by rw [h1, h2]⟩
  | multiWrite seq reqs =>
    simp only [sendRequest] at h
    split at h
    · cases h
    · simp only [Prod.mk.injEq] at h
      rcases lds_multiWrite_keys _ _ _ h.2 kt hkt with h1 | ⟨x, hx, h1, h2⟩
      · exact .inl h1
      · refine .inr ?_
        simp only [Request.lds_resKeys, List.mem_map]
        exact ⟨x.1, (List.of_mem_zip hx).1, by rw [h1, h2]⟩

theorem lds_sendRequests_keys {σ} (hook : ObjHook σ) (reqs : List Request) :
    ∀ (w w' : Cli.World σ) (rs rs' : Results), sendRequests hook w rs reqs = (w', .ok rs') →
      ∀ kt ∈ rs', kt ∈ rs ∨ ∃ q ∈ reqs, (kt.1, kt.2.tag) ∈ q.lds_resKeys := by
  induction reqs with
  | nil => intro w w' rs rs' h kt hkt; simp only [sendRequests, Prod.mk.injEq, Except.ok.injEq] at h; rw [← h.2] at hkt; exact .inl hkt
  | cons q rest ih =>
    intro w w' rs rs' h kt hkt
    rw [sendRequests] at h
    rcases hq : sendRequest hook w rs q with ⟨w1, r⟩
    rw [hq] at h
    dsimp only at h
    cases r with
    | error e => cases h
    | ok rs1 =>
      dsimp only at h
      rcases ih _ _ _ _ h kt hkt with h1 | ⟨q', hq', h1⟩
      · rcases lds_sendRequest_keys hook w w1 rs rs1 q hq kt h1 with h2 | h2
        · exact .inl h2
        · exact .inr ⟨q, List.mem_cons_self, h2⟩
      · exact .inr ⟨q', List.mem_cons_of_mem _ hq', h1⟩

/-! ### `read`: the steps of a call that returns, and the result of one request -/

theorem lds_get?_mem (rs : Results) (k : Int) (t : LTag) (h : rs.get? k = some t) : (k, t) ∈ rs := by
  unfold Results.get? at h
  cases hf : rs.find? (fun x => x.1 == k) with
  | none => rw [hf] at h; cases h
  | some x =>
    rw [hf] at h
    simp only [Option.map_some, Option.some.injEq] at h
    have hk := List.find?_some hf
    simp only [beq_iff_eq] at hk
    have := List.mem_of_find?_eq_some hf
    obtain ⟨a, b⟩ := x
    dsimp only at h hk
    subst h; subst hk
    exact this

/-- the Tags in the result table of a `read` are keyed and named by accepted requests -/
theorem lds_read_table {σ} (hook : ObjHook σ) (cfg : Cfg) (d d1 : Cli.Drv) (ps : List Parsed) (reqs : List Request)
    (w w2 : Cli.World σ) (rs : Results)
    (hb : readBuildRequests cfg d ps = (d1, .ok reqs)) (hs : sendRequests hook w [] reqs = (w2, .ok rs))
    (k : Int) (t : LTag) (h : rs.get? k = some t) : ∃ k' : Nat, k = (k' : Int) ∧ lds_Live ps (k', t.tag) := by
  rcases lds_sendRequests_keys hook reqs w w2 [] rs hs (k, t) (lds_get?_mem rs k t h) with h1 | ⟨q, hq, h1⟩
  · cases h1
  · obtain ⟨hr, hc⟩ := lds_readBuild_carried cfg d d1 ps reqs hb q hq
    rw [lds_resKeys_carried q (lds_isRmw_of_readKind q hr)] at h1
    obtain ⟨k', hk', he⟩ := List.mem_map.1 h1
    simp only [Prod.mk.injEq] at he
    refine ⟨k'.1, he.1.symm, ?_⟩
    rw [← he.2]
    exact hc k' hk'

/-- the steps of a `read` that returns -/
theorem lds_read_ok {σ} (hook : ObjHook σ) (cfg : Cfg) (w w' : Cli.World σ) (tags : List Name) (res : List LTag)
    (h : read hook cfg w tags = (w', .ok res)) :
    ∃ w0 u d1 reqs rs,
      Cli.ensureForwardOpen hook Cli.FUEL w = (w0, .ok u) ∧
      readBuildRequests cfg w0.drv (parseRequestedTags cfg.tags false tags) = (d1, .ok reqs) ∧
      sendRequests hook { w0 with drv := d1 } [] reqs = (w', .ok rs) ∧
      tags ≠ [] ∧
      res = (parseRequestedTags cfg.tags false tags).map fun p => readResult p rs := by
  unfold read at h
  generalize Cli.ensureForwardOpen hook Cli.FUEL w = r at h ⊢
  obtain ⟨w0, pre⟩ := r
  dsimp only at h
  cases pre with
  | error e => cases h
  | ok u =>
    dsimp only at h
    rcases hb : readBuildRequests cfg w0.drv (parseRequestedTags cfg.tags false tags) with ⟨d1, reqs⟩
    rw [hb] at h
    dsimp only at h
    cases reqs with
    | error e => cases h
    | ok reqs =>
      dsimp only at h
      rcases hs : sendRequests hook { w0 with drv := d1 } [] reqs with ⟨w2, rs⟩
      rw [hs] at h
      dsimp only at h
      cases rs with
      | error e => cases h
      | ok rs =>
        dsimp only at h
        split at h
        · cases h
        · next hne =>
          simp only [Prod.mk.injEq, Except.ok.injEq] at h
          obtain ⟨rfl, rfl⟩ := h
          exact ⟨w0, u, d1, reqs, rs, rfl, hb, hs, by simpa using hne, rfl⟩

theorem lds_readResult_err (p : Parsed) (rs : Results) (e : TagErr) (h : p.error = some e) :
    readResult p rs = { tag := p.requestTag, value := .none, type := none, error := some e } := by
  unfold readResult; rw [h]

/-- the name of the Tag `read` returns for one request: the request string (then the Tag is falsy with an error),
    the request without its element count, or the name of the Tag found in the result table -/
theorem lds_readResult_tag (p : Parsed) (rs : Results) :
    ((readResult p rs).tag = p.requestTag ∧ (readResult p rs).value = .none ∧ (readResult p rs).error ≠ none) ∨
    (readResult p rs).tag = p.userTag ∨
    (p.error = none ∧ p.bit = none ∧ (∃ info, p.info = some info ∧ info.core.dataTypeName ≠ nm "DWORD") ∧
      rs.get? p.requestId = some (readResult p rs)) := by
  unfold readResult
  cases he : p.error with
  | some e => exact .inl ⟨rfl, rfl, by simp⟩
  | none =>
    dsimp only
    cases hg : rs.get? p.requestId with
    | none => exact .inl ⟨rfl, rfl, by simp [invalidTag]⟩
    | some result =>
      cases hi : p.info with
      | none => exact .inl ⟨rfl, rfl, by simp [invalidTag]⟩
      | some info =>
        dsimp only
        split
        · split
          · next hnd =>
            cases hb : p.bit with
            | some bit =>
              dsimp only
              split
              · exact .inr (.inl rfl)
              · exact .inl ⟨rfl, rfl, by simp [invalidTag]⟩
            | none =>
              exact .inr (.inr ⟨rfl, rfl, ⟨info, rfl, by simpa using hnd⟩, rfl⟩)
          · split
            · exact .inl ⟨rfl, rfl, by simp [invalidTag]⟩
            · split
              · exact .inr (.inl rfl)
              · split
                · exact .inr (.inl rfl)
                · exact .inl ⟨rfl, rfl, by simp [invalidTag]⟩
        · exact .inr (.inl rfl)

/-! ### the write builders -/

theorem lds_encodeValue_fst (p : Parsed) (info : TagInfo) :
    (encodeValue p info).1 = p ∨ (encodeValue p info).1 = { p with elements := p.elements - p.bit.getD 0 / 32 } := by
  unfold encodeValue
  split
  · exact .inl rfl
  · dsimp only
    split
    · exact .inl rfl
    · repeat' split
      all_goals first | exact .inl rfl | exact .inr rfl

/-- `q` is `p` after the write builders: only the element count and the error may have changed, and an error
    only from "none" to a non-empty text -/
structure lds_Stable (p q : Parsed) : Prop where
  rid : q.requestId = p.requestId
  rtag : q.requestTag = p.requestTag
  utag : q.userTag = p.userTag
  ptag : q.plcTag = p.plcTag
  bit : q.bit = p.bit
  info : q.info = p.info
  be : q.boolElements = p.boolElements
  value : q.value = p.value
  keep : ∀ e, p.error = some e → q = p
  errs : ∀ e, q.error = some e → p.error = some e ∨ lds_TextErr e

theorem lds_Stable_refl (p : Parsed) : lds_Stable p p :=
  ⟨rfl, rfl, rfl, rfl, rfl, rfl, rfl, rfl, fun _ _ => rfl, fun _ h => .inl h⟩

theorem lds_Stable_encode (p : Parsed) (info : TagInfo) (he : p.error = none) :
    lds_Stable p (encodeValue p info).1 ∧ (encodeValue p info).1.error = none := by
  rcases lds_encodeValue_fst p info with h | h <;> rw [h]
  · exact ⟨lds_Stable_refl p, he⟩
  · exact ⟨⟨rfl, rfl, rfl, rfl, rfl, rfl, rfl, rfl, fun e h' => by (rw [he] at h'; cases h'),
      fun e h' => .inl h'⟩, he⟩

theorem lds_Stable_encode_err (p : Parsed) (info : TagInfo) (he : p.error = none) (s : Name) (hs : s ≠ []) :
    lds_Stable p { (encodeValue p info).1 with error := some (.text s) } := by
  have h1 := (lds_Stable_encode p info he).1
  exact ⟨h1.rid, h1.rtag, h1.utag, h1.ptag, h1.bit, h1.info, h1.be, h1.value,
    fun e h' => by (rw [he] at h'; cases h'), fun e h' => .inr ⟨s, by (cases h'; rfl), hs⟩⟩

/-- request ids are positions (what `parseRequestedTags` delivers) -/
def lds_IdsPos (ps : List Parsed) : Prop := ∀ i (h : i < ps.length), ps[i].requestId = i

/-- the builder's copy `acc` of the parsed requests `ps` -/
def lds_Inv (ps acc : List Parsed) : Prop :=
  acc.length = ps.length ∧ ∀ i (h : i < ps.length) (h' : i < acc.length), lds_Stable ps[i] acc[i]

theorem lds_Inv_refl (ps : List Parsed) : lds_Inv ps ps := ⟨rfl, fun _ _ _ => lds_Stable_refl _⟩

theorem lds_Inv_replace (ps acc : List Parsed) (hpos : lds_IdsPos ps) (hinv : lds_Inv ps acc)
    (p p' : Parsed) (hp : p ∈ ps) (hst : lds_Stable p p') : lds_Inv ps (replaceParsed acc p') := by
  obtain ⟨hl, hi⟩ := hinv
  refine ⟨by simp [replaceParsed, hl], ?_⟩
  intro i h h'
  have h'' : i < acc.length := by rw [hl]; exact h
  simp only [replaceParsed, List.getElem_map]
  split
  · next heq =>
    simp only [beq_iff_eq] at heq
    obtain ⟨j, hj, rfl⟩ := List.getElem_of_mem hp
    have e1 := (hi i h h'').rid
    rw [heq, hst.rid, hpos j hj, hpos i h] at e1
    subst e1
    exact hst
  · exact hi i h h''

theorem lds_mkWriteReq_ok (cfg : Cfg) (d d1 : Cli.Drv) (p : Parsed) (info : TagInfo) (v : Bytes) (req : WriteReq)
    (h : mkWriteReq cfg d p info v = (d1, .ok req)) : req.rid = p.requestId ∧ req.tag = p.plcTag := by
  unfold mkWriteReq at h
  dsimp only at h
  split at h
  · cases h
  · cases h
  · cases h; exact ⟨rfl, rfl⟩

theorem lds_mkRmwReq_ok (cfg : Cfg) (d d1 : Cli.Drv) (p : Parsed) (info : TagInfo) (rid : Int) (r : RmwReq)
    (h : mkRmwReq cfg d p info rid = (d1, .ok r)) : r.tag = p.plcTag ∧ r.requestIds = [] := by
  unfold mkRmwReq at h
  dsimp only at h
  split at h
  · cases h
  · split at h
    · cases h
    · cases h; exact ⟨rfl, rfl⟩

theorem lds_refresh_write (b : Bool) (d : Cli.Drv) (r : WriteReq) :
    (if b = true then r.refresh d else (d, r)).2.rid = r.rid ∧ (if b = true then r.refresh d else (d, r)).2.tag = r.tag := by
  cases b <;> exact ⟨rfl, rfl⟩

/-- `ps`-liveness of what a `WriteBuild` holds -/
def lds_WBLive (ps : List Parsed) (b : WriteBuild) : Prop :=
  (∀ x ∈ b.writes, lds_Live ps (x.1.rid, x.1.tag)) ∧ (∀ r ∈ b.rmws, ∀ id ∈ r.requestIds, lds_Live ps (id, r.tag))

theorem lds_writeBuildLive_inv (cfg : Cfg) (C : Nat) (ps : List Parsed) (hpos : lds_IdsPos ps) (rest : List Parsed) :
    ∀ (d d' : Cli.Drv) (acc b : WriteBuild), (∀ p ∈ rest, p ∈ ps) →
      writeBuildLive cfg C d acc rest = (d', .ok b) → lds_Inv ps acc.parsed → lds_WBLive ps acc →
      lds_Inv ps b.parsed ∧ lds_WBLive ps b := by
  induction rest with
  | nil =>
    intro d d' acc b _ h hinv hl
    simp only [writeBuildLive, Prod.mk.injEq, Except.ok.injEq] at h
    rw [← h.2]; exact ⟨hinv, hl⟩
  | cons p rest ih =>
    intro d d' acc b hsub h hinv hl
    have hp : p ∈ ps := hsub p List.mem_cons_self
    have hsub' : ∀ q ∈ rest, q ∈ ps := fun q hq => hsub q (List.mem_cons_of_mem _ hq)
    rw [writeBuildLive] at h
    split at h
    · next info he hi =>
      have hlive : lds_Live ps (p.requestId, p.plcTag) := ⟨p, hp, he, rfl, rfl⟩
      split at h
      · -- a bit write
        split at h
        · next r hf =>
          have hr := List.mem_of_find?_eq_some hf
          have htag : r.tag = p.plcTag := by simpa using List.find?_some hf
          refine ih _ _ _ _ hsub' h hinv ⟨hl.1, ?_⟩
          intro x hx id hid
          obtain ⟨y, hy, rfl⟩ := List.mem_map.1 hx
          by_cases hyt : (y.tag == p.plcTag) = true
          · rw [if_pos hyt] at hid ⊢
            simp only [RmwReq.setBit, List.mem_append, List.mem_singleton] at hid
            rcases hid with hid | rfl
            · exact hl.2 r hr id hid
            · show lds_Live ps (p.requestId, r.tag)
              rw [htag]; exact hlive
          · rw [if_neg hyt] at hid ⊢
            exact hl.2 y hy id hid
        · rcases hm : mkRmwReq cfg d p info (-(1 + (acc.rmws.length : Int))) with ⟨d1, r⟩
          rw [hm] at h
          dsimp only at h
          cases r with
          | error e => cases h
          | ok r =>
            dsimp only at h
            obtain ⟨htag, hids⟩ := lds_mkRmwReq_ok cfg d d1 p info _ r hm
            refine ih _ _ _ _ hsub' h hinv ⟨hl.1, ?_⟩
            intro x hx id hid
            rcases List.mem_append.1 hx with hx | hx
            · exact hl.2 x hx id hid
            · simp only [List.mem_singleton] at hx
              subst hx
              simp only [RmwReq.setBit, hids, List.nil_append, List.mem_singleton] at hid
              subst hid
              show lds_Live ps (p.requestId, r.tag)
              rw [htag]; exact hlive
      · -- a value write
        obtain ⟨hst, herr⟩ := lds_Stable_encode p info he
        rcases hev : encodeValue p info with ⟨p1, enc⟩
        rw [hev] at h hst herr
        dsimp only at h hst herr
        cases enc with
        | none =>
          dsimp only at h
          refine ih _ _ _ _ hsub' h ?_ hl
          have := lds_Stable_encode_err p info he (nm "Error encoding value - " ++ unableToWrite) (by simp [nm])
          rw [hev] at this
          exact lds_Inv_replace ps acc.parsed hpos hinv p _ hp this
        | some value =>
          dsimp only at h
          rcases hm : mkWriteReq cfg d p1 info value with ⟨d1, r⟩
          rw [hm] at h
          dsimp only at h
          cases r with
          | error e => cases h
          | ok req =>
            dsimp only at h
            obtain ⟨hrid, htag⟩ := lds_mkWriteReq_ok cfg d d1 p1 info value req hm
            refine ih _ _ _ _ hsub' h (lds_Inv_replace ps acc.parsed hpos hinv p p1 hp hst) ⟨?_, hl.2⟩
            intro x hx
            rcases List.mem_append.1 hx with hx | hx
            · exact hl.1 x hx
            · simp only [List.mem_singleton] at hx
              subst hx
              dsimp only
              rw [(lds_refresh_write _ d1 req).1, (lds_refresh_write _ d1 req).2, hrid, htag, hst.rid, hst.ptag]
              exact hlive
    · exact ih _ _ _ _ hsub' h hinv hl

theorem lds_writeBuildSingles_inv (cfg : Cfg) (C : Nat) (ps : List Parsed) (hpos : lds_IdsPos ps) (rest : List Parsed) :
    ∀ (d d' : Cli.Drv) (acc ps' : List Parsed) (reqs : List Request), (∀ p ∈ rest, p ∈ ps) →
      writeBuildSingles cfg C d acc rest = (d', .ok (ps', reqs)) → lds_Inv ps acc →
      lds_Inv ps ps' ∧ ∀ q ∈ reqs, ∀ k ∈ q.lds_carried, lds_Live ps k := by
  induction rest with
  | nil =>
    intro d d' acc ps' reqs _ h hinv
    simp only [writeBuildSingles, Prod.mk.injEq, Except.ok.injEq] at h
    obtain ⟨_, rfl, rfl⟩ := h
    exact ⟨hinv, fun q hq => by cases hq⟩
  | cons p rest ih =>
    intro d d' acc ps' reqs hsub h hinv
    have hp : p ∈ ps := hsub p List.mem_cons_self
    have hsub' : ∀ q ∈ rest, q ∈ ps := fun q hq => hsub q (List.mem_cons_of_mem _ hq)
    rw [writeBuildSingles] at h
    split at h
    · next info he hi =>
      have hlive : lds_Live ps (p.requestId, p.plcTag) := ⟨p, hp, he, rfl, rfl⟩
      split at h
      · rcases hm : mkRmwReq cfg d p info (-(1 + (p.requestId : Int))) with ⟨d1, r⟩
        rw [hm] at h
        dsimp only at h
        cases r with
        | error e => cases h
        | ok r =>
          dsimp only at h
          obtain ⟨htag, hids⟩ := lds_mkRmwReq_ok cfg d d1 p info _ r hm
          rcases hrec : writeBuildSingles cfg C d1 acc rest with ⟨d2, more⟩
          rw [hrec] at h
          dsimp only at h
          cases more with
          | error e => cases h
          | ok x =>
            obtain ⟨xs, xr⟩ := x
            simp only [Except.map, Prod.mk.injEq, Except.ok.injEq] at h
            obtain ⟨_, rfl, rfl⟩ := h
            obtain ⟨h1, h2⟩ := ih _ _ _ _ _ hsub' hrec hinv
            refine ⟨h1, ?_⟩
            intro q hq k hk
            rcases List.mem_cons.1 hq with rfl | hq
            · simp only [Request.lds_carried, RmwReq.setBit, hids, List.nil_append, List.map_cons, List.map_nil,
                List.mem_singleton] at hk
              subst hk
              rw [htag]; exact hlive
            · exact h2 q hq k hk
      · obtain ⟨hst, herr⟩ := lds_Stable_encode p info he
        rcases hev : encodeValue p info with ⟨p1, enc⟩
        rw [hev] at h hst herr
        dsimp only at h hst herr
        cases enc with
        | none =>
          dsimp only at h
          refine ih _ _ _ _ _ hsub' h ?_
          have := lds_Stable_encode_err p info he (nm "Invalid Tag Request - " ++ unableToWrite) (by simp [nm])
          rw [hev] at this
          exact lds_Inv_replace ps acc hpos hinv p _ hp this
        | some value =>
          dsimp only at h
          rcases hm : mkWriteReq cfg d p1 info value with ⟨d1, r⟩
          rw [hm] at h
          dsimp only at h
          cases r with
          | error e => cases h
          | ok req =>
            dsimp only at h
            obtain ⟨hrid, htag⟩ := lds_mkWriteReq_ok cfg d d1 p1 info value req hm
            generalize hfr : (if decide (value.length + req.messageLen > C) = true then req.refresh d1 else (d1, req)) = fr at h
            have hfr2 : fr.2.rid = p.requestId ∧ fr.2.tag = p.plcTag := by
              rw [← hfr, (lds_refresh_write _ d1 req).1, (lds_refresh_write _ d1 req).2, hrid, htag, hst.rid, hst.ptag]
              exact ⟨rfl, rfl⟩
            obtain ⟨d2, req2⟩ := fr
            dsimp only at h hfr2
            rcases hrec : writeBuildSingles cfg C d2 (replaceParsed acc p1) rest with ⟨d3, more⟩
            rw [hrec] at h
            dsimp only at h
            cases more with
            | error e => cases h
            | ok x =>
              obtain ⟨xs, xr⟩ := x
              simp only [Except.map, Prod.mk.injEq, Except.ok.injEq] at h
              obtain ⟨_, rfl, rfl⟩ := h
              obtain ⟨h1, h2⟩ := ih _ _ _ _ _ hsub' hrec (lds_Inv_replace ps acc hpos hinv p p1 hp hst)
              refine ⟨h1, ?_⟩
              intro q hq k hk
              rcases List.mem_cons.1 hq with rfl | hq
              · have : k = (req2.rid, req2.tag) := by
                  split at hk <;> simpa [Request.lds_carried] using hk
                rw [this, hfr2.1, hfr2.2]; exact hlive
              · exact h2 q hq k hk
    · exact ih _ _ _ _ _ hsub' h hinv

/-- `_write_build_requests`: the parsed requests it hands back are the given ones up to element count and added
    (non-empty) errors, and every tag request inside a built packet is the request of an accepted tag -/
theorem lds_writeBuild_inv (cfg : Cfg) (d d' : Cli.Drv) (ps ps' : List Parsed) (reqs : List Request)
    (hpos : lds_IdsPos ps) (h : writeBuildRequests cfg d ps = (d', .ok (ps', reqs))) :
    lds_Inv ps ps' ∧ ∀ q ∈ reqs, ∀ k ∈ q.lds_carried, lds_Live ps k := by
  unfold writeBuildRequests at h
  dsimp only at h
  split at h
  · rcases hl : writeBuildLive cfg d.connectionSize d { parsed := ps } ps with ⟨d1, b⟩
    rw [hl] at h
    dsimp only at h
    cases b with
    | error e => cases h
    | ok b =>
      dsimp only at h
      simp only [Prod.mk.injEq, Except.ok.injEq] at h
      obtain ⟨_, rfl, rfl⟩ := h
      obtain ⟨h1, h2, h3⟩ := lds_writeBuildLive_inv cfg _ ps hpos ps d d1 { parsed := ps } b (fun _ h => h) hl
        (lds_Inv_refl ps) ⟨fun x hx => (by cases hx), fun r hr => (by cases hr)⟩
      refine ⟨h1, ?_⟩
      intro q hq k hk
      rcases List.mem_append.1 hq with hq | hq
      · rcases List.mem_append.1 hq with hq | hq
        · obtain ⟨m, hm, rfl⟩ := List.mem_map.1 hq
          simp only [Request.lds_carried, List.mem_map] at hk
          obtain ⟨r, hr, rfl⟩ := hk
          have hm2 : m.2 ∈ (drawSeqs d1 _).2.map (·.2) := List.mem_map.2 ⟨m, hm, rfl⟩
          rw [lds_drawSeqs_snd] at hm2
          obtain ⟨g, _, hg⟩ := List.mem_map.1 hm2
          rw [← hg] at hr
          obtain ⟨id, _, hid⟩ := List.mem_filterMap.1 hr
          have hmem := List.mem_of_find?_eq_some hid
          obtain ⟨x, hx, rfl⟩ := List.mem_map.1 hmem
          exact h2 x (List.mem_filter.1 hx).1
        · obtain ⟨x, hx, rfl⟩ := List.mem_map.1 hq
          simp only [Request.lds_carried, List.mem_singleton] at hk
          subst hk
          exact h2 x (List.mem_filter.1 hx).1
      · obtain ⟨r, hr, rfl⟩ := List.mem_map.1 hq
        simp only [Request.lds_carried, List.mem_map] at hk
        obtain ⟨id, hid, rfl⟩ := hk
        exact h3 r hr id hid
  · exact lds_writeBuildSingles_inv cfg _ ps hpos ps d d' ps ps' reqs (fun _ h => h) h (lds_Inv_refl ps)

/-! ### `write`: the parsed (tag, value) pairs, the steps of a call that returns, the result of one request -/

/-- the parsed requests of `write`: every parsed tag with the caller's value -/
def lds_wparse (db : TagDb) (tvs : List (Name × PyVal)) : List Parsed :=
  ((parseRequestedTags db true (tvs.map (·.1))).zip (tvs.map (·.2))).map fun x => { x.1 with value := x.2 }

theorem lds_wparse_length (db : TagDb) (tvs : List (Name × PyVal)) : (lds_wparse db tvs).length = tvs.length := by
  simp [lds_wparse, lds_parse_length]

theorem lds_wparse_getElem (db : TagDb) (tvs : List (Name × PyVal)) (i : Nat) (h : i < tvs.length) :
    (lds_wparse db tvs)[i]'(by rw [lds_wparse_length]; exact h)
      = { parseTagRequest db true i tvs[i].1 with value := tvs[i].2 } := by
  simp only [lds_wparse, List.getElem_map, List.getElem_zip]
  rw [lds_parse_getElem db true (tvs.map (·.1)) i (by simpa using h)]
  simp

theorem lds_parse_idsPos (db : TagDb) (rw : Bool) (tags : List Name) : lds_IdsPos (parseRequestedTags db rw tags) := by
  intro i h
  have h' : i < tags.length := by rw [lds_parse_length] at h; exact h
  rw [lds_parse_getElem db rw tags i h', lds_parse_rid]

theorem lds_wparse_idsPos (db : TagDb) (tvs : List (Name × PyVal)) : lds_IdsPos (lds_wparse db tvs) := by
  intro i h
  have h' : i < tvs.length := by rw [lds_wparse_length] at h; exact h
  rw [lds_wparse_getElem db tvs i h']
  exact lds_parse_rid _ _ _ _

/-- the steps of a `write` that returns -/
theorem lds_write_ok {σ} (hook : ObjHook σ) (cfg : Cfg) (w w' : Cli.World σ) (tvs : List (Name × PyVal)) (res : List LTag)
    (h : write hook cfg w tvs = (w', .ok res)) :
    ∃ w0 u d1 ps' reqs rs rs',
      Cli.ensureForwardOpen hook Cli.FUEL w = (w0, .ok u) ∧
      writeBuildRequests cfg w0.drv (lds_wparse cfg.tags tvs) = (d1, .ok (ps', reqs)) ∧
      sendRequests hook { w0 with drv := d1 } [] reqs = (w', .ok rs) ∧
      fanOutRmw rs reqs = some rs' ∧
      tvs ≠ [] ∧
      res = ps'.map fun p => writeResult p rs' := by
  unfold write at h
  generalize Cli.ensureForwardOpen hook Cli.FUEL w = r at h ⊢
  obtain ⟨w0, pre⟩ := r
  dsimp only at h
  cases pre with
  | error e => cases h
  | ok u =>
    dsimp only at h
    rcases hb : writeBuildRequests cfg w0.drv (lds_wparse cfg.tags tvs) with ⟨d1, built⟩
    unfold lds_wparse at hb
    rw [hb] at h
    dsimp only at h
    cases built with
    | error e => cases h
    | ok x =>
      obtain ⟨ps', reqs⟩ := x
      dsimp only at h
      rcases hs : sendRequests hook { w0 with drv := d1 } [] reqs with ⟨w2, rs⟩
      rw [hs] at h
      dsimp only at h
      cases rs with
      | error e => cases h
      | ok rs =>
        dsimp only at h
        cases hf : fanOutRmw rs reqs with
        | none => rw [hf] at h; cases h
        | some rs' =>
          rw [hf] at h
          dsimp only at h
          split at h
          · cases h
          · next hne =>
            simp only [Prod.mk.injEq, Except.ok.injEq] at h
            obtain ⟨rfl, rfl⟩ := h
            exact ⟨w0, u, d1, ps', reqs, rs, rs', rfl, hb, hs, hf, by simpa using hne, rfl⟩

theorem lds_writeResult_err (p : Parsed) (rs : Results) (e : TagErr) (h : p.error = some e) :
    writeResult p rs = { tag := p.requestTag, value := .none, type := none, error := some e } := by
  unfold writeResult; rw [h]

/-- the name of the Tag `write` returns for one request: the request string (then the Tag is falsy with an error) or
    the request without its element count -/
theorem lds_writeResult_tag (p : Parsed) (rs : Results) :
    ((writeResult p rs).tag = p.requestTag ∧ (writeResult p rs).value = .none ∧ (writeResult p rs).error ≠ none) ∨
    ((writeResult p rs).tag = p.userTag ∧ p.error = none ∧ (writeResult p rs).value = p.value) := by
  unfold writeResult
  cases he : p.error with
  | some e => exact .inl ⟨rfl, rfl, by simp⟩
  | none =>
    dsimp only
    cases hg : rs.get? p.requestId with
    | none => exact .inl ⟨rfl, rfl, by simp [invalidTag]⟩
    | some result =>
      cases hi : p.info with
      | none => exact .inl ⟨rfl, rfl, by simp [invalidTag]⟩
      | some info => exact .inr ⟨rfl, rfl, rfl⟩

/-! ### where an exception of `read` can come from -/

/-- an exception raised while sending: the transport (`CIPDriver.send` of a connected request), the fuel of the
    read fragment loop, or `response.error` raising while it reads the extended status of a failed reply -/
def lds_SendErr {σ} (hook : ObjHook σ) (e : Exn) : Prop :=
  (∃ (w : Cli.World σ) (seq : Nat) (msg : Bytes), (Cli.sendReq hook w (.sendUnit seq msg) false).2 = .error e) ∨
  e = .hang ∨
  (∃ r : Resp, r.error = .error e)

theorem lds_mkReadReq_err (cfg : Cfg) (d d1 : Cli.Drv) (p : Parsed) (info : TagInfo) (e : Exn)
    (h : mkReadReq cfg d p info = (d1, .error e)) :
    requestPathOf cfg p.plcTag info = .error e ∨ elementsNat p.elements = .error e := by
  unfold mkReadReq at h
  dsimp only at h
  split at h
  · next he => cases h; exact .inl he
  · cases h; rename_i he; exact .inr he
  · cases h

theorem lds_readBuildLive_err (cfg : Cfg) (C : Nat) (multi : Bool) (ps : List Parsed) :
    ∀ (d d' : Cli.Drv) (e : Exn), readBuildLive cfg C multi d ps = (d', .error e) →
      ∃ p ∈ ps, p.error = none ∧ ∃ info, p.info = some info ∧
        (requestPathOf cfg p.plcTag info = .error e ∨ elementsNat p.elements = .error e) := by
  induction ps with
  | nil => intro d d' e h; simp only [readBuildLive] at h; cases h
  | cons p rest ih =>
    intro d d' e h
    rw [readBuildLive] at h
    split at h
    · next info he hi =>
      rcases hm : mkReadReq cfg d p info with ⟨d1, r⟩
      rw [hm] at h
      dsimp only at h
      cases r with
      | error e' =>
        simp only [Prod.mk.injEq, Except.error.injEq] at h
        obtain ⟨_, rfl⟩ := h
        exact ⟨p, List.mem_cons_self, he, info, hi, lds_mkReadReq_err cfg d d1 p info e' hm⟩
      | ok req =>
        dsimp only at h
        generalize (if (if multi = true then decide (req.returnSize + K.OVERHEAD > C) else decide (req.returnSize > C)) = true
          then req.refresh d1 else (d1, req)) = fr at h
        obtain ⟨d2, req2⟩ := fr
        dsimp only at h
        rcases hrec : readBuildLive cfg C multi d2 rest with ⟨d3, more⟩
        rw [hrec] at h
        dsimp only at h
        cases more with
        | ok xs => cases h
        | error e' =>
          simp only [Except.map, Prod.mk.injEq, Except.error.injEq] at h
          obtain ⟨_, rfl⟩ := h
          obtain ⟨q, hq, h1⟩ := ih _ _ _ hrec
          exact ⟨q, List.mem_cons_of_mem _ hq, h1⟩
    · obtain ⟨q, hq, h1⟩ := ih _ _ _ h
      exact ⟨q, List.mem_cons_of_mem _ hq, h1⟩

/-- `_read_build_requests` raises only from building the packet of an accepted request: its request path or its
    element count -/
theorem lds_readBuild_err (cfg : Cfg) (d d' : Cli.Drv) (ps : List Parsed) (e : Exn)
    (h : readBuildRequests cfg d ps = (d', .error e)) :
    ∃ p ∈ ps, p.error = none ∧ ∃ info, p.info = some info ∧
      (requestPathOf cfg p.plcTag info = .error e ∨ elementsNat p.elements = .error e) := by
  unfold readBuildRequests at h
  dsimp only at h
  split at h
  · rcases hl : readBuildLive cfg d.connectionSize true d ps with ⟨d1, live⟩
    rw [hl] at h
    dsimp only at h
    cases live with
    | error e' =>
      simp only [Prod.mk.injEq, Except.error.injEq] at h
      obtain ⟨_, rfl⟩ := h
      exact lds_readBuildLive_err cfg _ true ps d d1 e' hl
    | ok items => cases h
  · rcases hl : readBuildLive cfg d.connectionSize false d ps with ⟨d1, live⟩
    rw [hl] at h
    dsimp only at h
    cases live with
    | error e' =>
      simp only [Except.map, Prod.mk.injEq, Except.error.injEq] at h
      obtain ⟨_, rfl⟩ := h
      exact lds_readBuildLive_err cfg _ false ps d d1 e' hl
    | ok items => cases h

theorem lds_readTag_err (req : ReadReq) (r : Resp) (v : PyVal) (dt : Option Name) (e : Exn)
    (h : readTag req r v dt = .error e) : r.error = .error e := by
  unfold readTag at h
  split at h
  · next he => cases h; exact he
  · cases h

theorem lds_readFragLoop_err {σ} (hook : ObjHook σ) (req : ReadReq) (fuel : Nat) :
    ∀ (w : Cli.World σ) (seq off : Nat) (acc : Bytes) (allOk : Bool) (e : Exn),
      (readFragLoop hook req fuel w seq off acc allOk).2 = .error e → lds_SendErr hook e := by
  induction fuel with
  | zero => intro w seq off acc allOk e h; simp only [readFragLoop] at h; cases h; exact .inr (.inl rfl)
  | succ n ih =>
    intro w seq off acc allOk e h
    rw [readFragLoop] at h
    rcases hs : sendUnit hook w seq (Cl.readFragMsg req.path req.elements off) with ⟨w1, r⟩
    rw [hs] at h
    dsimp only at h
    cases r with
    | error e' =>
      simp only [Except.error.injEq] at h
      subst h
      exact .inl ⟨w, seq, _, by unfold sendUnit at hs; rw [hs]⟩
    | ok raw =>
      dsimp only at h
      split at h
      · cases h
      · split at h
        · exact ih _ _ _ _ _ _ h
        · split at h
          · split at h <;> cases h
          · cases h

theorem lds_multiRead_err (l : List (ReadReq × Option Bytes)) :
    ∀ (rs : Results) (e : Exn), multiReadResults rs l = .error e → ∃ r : Resp, r.error = .error e := by
  induction l with
  | nil => intro rs e h; simp only [multiReadResults] at h; cases h
  | cons x rest ih =>
    intro rs e h
    obtain ⟨req, raw⟩ := x
    rw [multiReadResults] at h
    dsimp only at h
    split at h
    · exact ih _ _ h
    · split at h
      · next he => cases h; exact ⟨_, he⟩
      · exact ih _ _ h

/-- an exception of one iteration of `_send_requests` over a read packet -/
theorem lds_sendRequest_read_err {σ} (hook : ObjHook σ) (w w' : Cli.World σ) (rs : Results) (q : Request) (e : Exn)
    (hk : q.lds_isReadKind = true) (h : sendRequest hook w rs q = (w', .error e)) : lds_SendErr hook e := by
  have tr : ∀ (seq : Nat) (msg : Bytes) (e' : Exn), (sendUnit hook w seq msg).2 = .error e' → lds_SendErr hook e' :=
    fun seq msg e' hs => .inl ⟨w, seq, msg, hs⟩
  have tagErr : ∀ (req : ReadReq) (r : Resp) (v : PyVal) (dt : Option Name),
      ((readTag req r v dt).map fun t => rs.set req.rid t) = .error e → lds_SendErr hook e := by
    intro req r v dt hh
    cases hr : readTag req r v dt with
    | ok t => rw [hr] at hh; cases hh
    | error e' =>
      rw [hr] at hh
      simp only [Except.map, Except.error.injEq] at hh
      subst hh
      exact .inr (.inr ⟨r, lds_readTag_err _ _ _ _ _ hr⟩)
  cases q with
  | read req =>
    simp only [sendRequest] at h
    split at h
    · next hs => simp only [Prod.mk.injEq, Except.error.injEq] at h; rw [← h.2]; exact tr _ _ _ hs
    · simp only [Prod.mk.injEq] at h; exact tagErr _ _ _ _ h.2
  | readFrag req =>
    simp only [sendRequest] at h
    split at h
    · next hs =>
      simp only [Prod.mk.injEq, Except.error.injEq] at h
      rw [← h.2]
      exact lds_readFragLoop_err hook req _ _ _ _ _ _ _ hs
    · simp only [Prod.mk.injEq] at h; exact tagErr _ _ _ _ h.2
  | multiRead seq reqs =>
    simp only [sendRequest] at h
    split at h
    · next hs => simp only [Prod.mk.injEq, Except.error.injEq] at h; rw [← h.2]; exact tr _ _ _ hs
    · simp only [Prod.mk.injEq] at h
      exact .inr (.inr (lds_multiRead_err _ _ _ h.2))
  | write _ => cases hk
  | writeFrag _ => cases hk
  | rmw _ => cases hk
  | multiWrite _ _ => cases hk

theorem lds_sendRequests_read_err {σ} (hook : ObjHook σ) (reqs : List Request) :
    ∀ (w w' : Cli.World σ) (rs : Results) (e : Exn), (∀ q ∈ reqs, q.lds_isReadKind = true) →
      sendRequests hook w rs reqs = (w', .error e) → lds_SendErr hook e := by
  induction reqs with
  | nil => intro w w' rs e _ h; simp only [sendRequests] at h; cases h
  | cons q rest ih =>
    intro w w' rs e hk h
    rw [sendRequests] at h
    rcases hq : sendRequest hook w rs q with ⟨w1, r⟩
    rw [hq] at h
    dsimp only at h
    cases r with
    | error e' =>
      simp only [Prod.mk.injEq, Except.error.injEq] at h
      obtain ⟨_, rfl⟩ := h
      exact lds_sendRequest_read_err hook w w1 rs q e' (hk q List.mem_cons_self) hq
    | ok rs1 =>
      exact ih _ _ _ _ (fun q' hq' => hk q' (List.mem_cons_of_mem _ hq')) h

/-- the exception classes of `lds_SendErr` -/
theorem lds_SendErr_class {σ} (hook : ObjHook σ) (e : Exn) (h : lds_SendErr hook e) :
    e = .comm ∨ e = .data ∨ e = .bufferEmpty ∨ e = .hang := by
  rcases h with ⟨w, seq, msg, h⟩ | rfl | ⟨r, h⟩
  · rcases Cli.lc_sendReq_err hook w _ false e h with rfl | rfl
    · exact .inl rfl
    · exact .inr (.inl rfl)
  · exact .inr (.inr (.inr rfl))
  · unfold Resp.error at h
    cases hc : errorCip r.raw .connected r.p r.valid with
    | ok v => rw [hc] at h; cases h
    | error e' =>
      rw [hc] at h
      simp only [Except.map, Except.error.injEq] at h
      subst h
      rcases Cli.lc_errorCip_err _ _ _ _ _ hc with rfl | rfl
      · exact .inr (.inr (.inl rfl))
      · exact .inr (.inl rfl)

/-! ### the builders skip the requests whose parse failed -/

theorem lds_readBuildLive_filter (cfg : Cfg) (C : Nat) (multi : Bool) (ps : List Parsed) :
    ∀ d : Cli.Drv, readBuildLive cfg C multi d ps = readBuildLive cfg C multi d (ps.filter fun p => p.error.isNone) := by
  induction ps with
  | nil => intro d; rfl
  | cons p rest ih =>
    intro d
    cases he : p.error with
    | some e =>
      rw [List.filter_cons_of_neg (by simp [he]), readBuildLive]
      simp only [he]
      exact ih d
    | none =>
      rw [List.filter_cons_of_pos (by simp [he]), readBuildLive, readBuildLive]
      simp only [he]
      cases p.info with
      | none => exact ih d
      | some info =>
        dsimp only
        rcases mkReadReq cfg d p info with ⟨d1, r⟩
        cases r with
        | error e => rfl
        | ok req =>
          dsimp only
          rw [ih]

theorem lds_writeBuildLive_filter (cfg : Cfg) (C : Nat) (ps : List Parsed) :
    ∀ (d : Cli.Drv) (acc : WriteBuild),
      writeBuildLive cfg C d acc ps = writeBuildLive cfg C d acc (ps.filter fun p => p.error.isNone) := by
  induction ps with
  | nil => intro d acc; rfl
  | cons p rest ih =>
    intro d acc
    cases he : p.error with
    | some e =>
      rw [List.filter_cons_of_neg (by simp [he]), writeBuildLive]
      simp only [he]
      exact ih d acc
    | none =>
      rw [List.filter_cons_of_pos (by simp [he]), writeBuildLive, writeBuildLive]
      simp only [he]
      cases p.info with
      | none => exact ih d acc
      | some info =>
        dsimp only
        split
        · split
          · exact ih _ _
          · rcases mkRmwReq cfg d p info _ with ⟨d1, r⟩
            cases r with
            | error e => rfl
            | ok r => exact ih _ _
        · rcases encodeValue p info with ⟨p1, enc⟩
          cases enc with
          | none => exact ih _ _
          | some value =>
            dsimp only
            rcases mkWriteReq cfg d p1 info value with ⟨d1, r⟩
            cases r with
            | error e => rfl
            | ok req => exact ih _ _

theorem lds_writeBuildSingles_filter (cfg : Cfg) (C : Nat) (ps : List Parsed) :
    ∀ (d : Cli.Drv) (acc : List Parsed),
      writeBuildSingles cfg C d acc ps = writeBuildSingles cfg C d acc (ps.filter fun p => p.error.isNone) := by
  induction ps with
  | nil => intro d acc; rfl
  | cons p rest ih =>
    intro d acc
    cases he : p.error with
    | some e =>
      rw [List.filter_cons_of_neg (by simp [he]), writeBuildSingles]
      simp only [he]
      exact ih d acc
    | none =>
      rw [List.filter_cons_of_pos (by simp [he]), writeBuildSingles, writeBuildSingles]
      simp only [he]
      cases p.info with
      | none => exact ih d acc
      | some info =>
        dsimp only
        split
        · rcases mkRmwReq cfg d p info _ with ⟨d1, r⟩
          cases r with
          | error e => rfl
          | ok r => dsimp only; rw [ih]
        · rcases encodeValue p info with ⟨p1, enc⟩
          cases enc with
          | none => exact ih _ _
          | some value =>
            dsimp only
            rcases mkWriteReq cfg d p1 info value with ⟨d1, r⟩
            cases r with
            | error e => rfl
            | ok req => dsimp only; rw [ih]

/-! ### exception classes of the request path -/

theorem lds_indexSegs_err (xs : List Name) (e : Exn) (h : indexSegs xs = .error e) : e = .foreign "ValueError" := by
  induction xs with
  | nil => simp [indexSegs] at h
  | cons x rest ih =>
    simp only [indexSegs] at h
    split at h
    · cases h; rfl
    · cases hr : indexSegs rest with
      | error e' =>
        rw [hr] at h
        simp only [bind, Except.bind, Except.error.injEq] at h
        subst h; exact ih hr
      | ok v => rw [hr] at h; simp [bind, Except.bind] at h

theorem lds_attrSegs_err (xs : List Name) (e : Exn) (h : attrSegs xs = .error e) : e = .foreign "ValueError" := by
  induction xs with
  | nil => simp [attrSegs] at h
  | cons x rest ih =>
    simp only [attrSegs] at h
    cases hi : indexSegs (findTagIndex x).2 with
    | error e' =>
      rw [hi] at h
      simp only [bind, Except.bind, Except.error.injEq] at h
      subst h; exact lds_indexSegs_err _ _ hi
    | ok v =>
      rw [hi] at h
      cases hr : attrSegs rest with
      | error e' =>
        rw [hr] at h
        simp only [bind, Except.bind, Except.error.injEq] at h
        subst h; exact ih hr
      | ok v' => rw [hr] at h; simp [bind, Except.bind] at h

/-- `tag_request_path` of the model raises a DataError (a name or the path too long for its length byte) or the
    ValueError of `int()` on an index; it never returns None -/
theorem lds_requestPathOf_err (cfg : Cfg) (tag : Name) (info : TagInfo) (e : Exn)
    (h : requestPathOf cfg tag info = .error e) : e = .data ∨ e = .foreign "ValueError" := by
  unfold requestPathOf at h
  cases ht : tagRequestPath tag info.core.instanceId cfg.useInstanceIds with
  | ok v =>
    rw [ht] at h
    cases v with
    | some b => cases h
    | none =>
      exfalso
      unfold tagRequestPath at ht
      split at ht
      · next hs => exact lds_splitOn_ne_nil 46 tag hs
      · dsimp only at ht
        split at ht
        · cases ht
        · cases ht
        · split at ht <;> cases ht
  | error e' =>
    rw [ht] at h
    simp only [Except.error.injEq] at h
    subst h
    unfold tagRequestPath at ht
    split at ht
    · cases ht
    · dsimp only at ht
      split at ht
      · next hi => cases ht; exact .inr (lds_indexSegs_err _ _ hi)
      · cases ht; rename_i ha; exact .inr (lds_attrSegs_err _ _ ha)
      · split at ht
        · cases ht
        · next he => cases ht; exact .inl (Cli.lc_encEpath_err _ _ _ _ _ he)

end Pycomm.Lgx.Drv
