/-
  LogixDriver.read of elements of a one-dimensional controller-scope array of an elementary type:
  `name[i]`, `name[i]{n}`, `name{n}` — the layers composed.
-/
import PycommProofs.LDRead2Core
import PycommProofs.LDRead2Addr
import PycommProofs.LDRead2Reply
namespace Pycomm.Lgx.Drv
open Pycomm Pycomm.Tgt Pycomm.Path Pycomm.Reply Pycomm.Encap Pycomm.Lgx Pycomm.Lgx.E2E

theorem ldr2_value_not_none (c : Nat) (t : Ty) (ht : Cl.atomicTy c = some t) (hb : t.isBits = none)
    (vs : List PyVal) (h : ∀ k (hk : k < vs.length), ∃ bs rest, decode t bs = .ok (vs[k], rest)) :
    ldr2_value vs ≠ .none := by
  match vs, h with
  | [], _ => simp [ldr2_value]
  | [v], h =>
    obtain ⟨bs, rest, hd⟩ := h 0 (by simp)
    exact ldr_decode_not_none c t ht hb bs rest v hd
  | _ :: _ :: _, _ => simp [ldr2_value]

/-- `read` of `n ≥ 1` elements from element `i` of a one-dimensional array tag of an elementary type, requested as
    `name[i]` / `name[i]{n}` (`idx = [i]`) or `name` / `name{n}` (`idx = []`, `i = 0`) -/
theorem ldr2_read_array (cfg : Cfg) (w : Cli.World Ext) (sess : Nat) (cidb : Bytes) (conn : Conn)
    (st : LState) (s : Symbol) (info : TagInfo) (c sz dim : Nat) (name : Name) (t : Ty)
    (idx : List Nat) (i : Nat) (cnt : Option Nat) (vs : List PyVal)
    (hidx : idx = [i] ∨ (idx = [] ∧ i = 0))
    (hw : ldr_Healthy w sess cidb conn) (hlogix : w.net.target.ext.logix = some st)
    (hs : s ∈ st.proj.controller)
    (hbytes : ∀ s' ∈ st.proj.controller, ∀ ch ∈ s'.name, ch < 256)
    (huniqN : ∀ s' ∈ st.proj.controller, s'.name = s.name → s' = s)
    (huniqI : ∀ s' ∈ st.proj.controller, s'.inst = s.inst → s' = s)
    (hid : PlainIdent s.name) (hinst : s.inst < 2 ^ 32)
    (hty : elTyOfWord s.symbolType = .atomic c) (hat : atomicOfCode c = some (name, t)) (hb : t.isBits = none)
    (hsz : atomicSize c = some sz)
    (hdims : s.dims.filter (· != 0) = [dim]) (hlen : s.mem.length = dim * sz)
    (hget : cfg.tags.get? s.name = some info) (hinfo : ldr_InfoOf info name (.arr (.fixed dim) t) s.inst)
    (hi32 : i < 2 ^ 32) (hn : 1 ≤ cnt.getD 1) (hn16 : cnt.getD 1 ≤ 65535) (hin : i + cnt.getD 1 ≤ dim)
    (hvs : vs.length = cnt.getD 1)
    (hdec : ∀ k (h : k < vs.length), ∃ rest, decode t (s.mem.drop ((i + k) * sz)) = .ok (vs[k], rest))
    (hC : cnt.getD 1 * sz + s.name.length + 26 ≤ w.drv.connectionSize)
    (hT : cnt.getD 1 * sz + s.name.length + 26 ≤ conn.size) :
    ∃ w' frm, read hookAll cfg w [ldr2_tagStr ⟨s.name, idx⟩ none cnt] =
        (w', .ok [{ tag := renderLevel ⟨s.name, idx⟩, value := ldr2_value vs,
                    type := some (ldr2_typeStr name (cnt.getD 1)), error := none }]) ∧
      w'.drv = w.drv.nextSeq.2 ∧ w'.net.sent = w.net.sent ++ [frm] ∧
      w'.net.target.ext = { w.net.target.ext with logix := some { st with ctr := st.ctr + 1 } } ∧
      ldr_Healthy w' sess cidb { conn with lastSeq := some w.drv.nextSeq.1 } := by
  obtain ⟨haty, hentry, hndw, hpos, hle8⟩ := ldr_atomic_table c sz name t hat hb hsz
  have hl : ldr2_Level ⟨s.name, idx⟩ := by
    refine ⟨hid, ?_, ?_⟩
    · rcases hidx with h | ⟨h, _⟩ <;> rw [h] <;> simp
    · rcases hidx with h | ⟨h, _⟩ <;> rw [h] <;> simp [hi32]
  have hil : idx.length ≤ 1 := by rcases hidx with h | ⟨h, _⟩ <;> rw [h] <;> simp
  -- (a) parsing
  have hnd : isDword info = false := by
    have : (name == nm "DWORD") = false := by simpa using hndw
    simp [isDword, hinfo.typeName, this]
  have hparse := ldr2_parse_unfold cfg.tags false 0 ⟨s.name, idx⟩ none cnt hl
    (by intro n hc; rw [hc] at hn16; simpa using hn16)
  rw [Option.map_none, ldr2_tail_plain cfg.tags false 0 _ _ _ _ ⟨s.name, idx⟩ none info hl hget hnd rfl] at hparse
  -- (b) the path
  obtain ⟨path, hpath, hpl, hden⟩ := ldr2_requestPath cfg ⟨s.name, idx⟩ info s.inst hl hinfo.instanceId hinst
  have hpl' : path.length ≤ s.name.length + 19 := by
    have : path.length ≤ s.name.length + 13 + 6 * idx.length := hpl
    omega
  have hrs : tagReturnSize info (cnt.getD 1) = sz * cnt.getD 1 := by
    simp [tagReturnSize, hinfo.struct, hinfo.typeName, hentry]
  -- (d) the address
  have hmem : s.mem ≠ [] := by
    intro h
    rw [h, List.length_nil] at hlen
    have : 0 < dim * sz := Nat.mul_pos (by omega) hpos
    omega
  have hr : resolve st.proj (ldr_segs s.name s.inst cfg.useInstanceIds ++ idx.map (PSeg.logical 8)) =
      .ok (ldr2_locAt s c sz i dim) := by
    rcases hidx with h | ⟨h, h0⟩
    · rw [h]
      exact ldr2_resolve_elem st.proj s c sz cfg.useInstanceIds i dim hid hs hbytes huniqN huniqI hty hsz hmem hdims (by omega)
    · rw [h, h0, List.map_nil, List.append_nil, ← ldr2_loc_zero s c sz dim hdims]
      exact ldr_resolve st.proj s c sz cfg.useInstanceIds hid hs hbytes huniqN huniqI hty hsz hmem
  have hbts := ldr2_readBytes_elem st.proj s c sz i dim (cnt.getD 1) hs huniqI hsz hlen hin
  -- (e) the reply
  have hreply := ldr2_parseReadReply_arr info c sz dim t name s.mem (i * sz) (cnt.getD 1) vs hinfo.ty hinfo.typeName hndw
    haty hb hsz hn hvs (by
      intro k hk
      obtain ⟨r, hr⟩ := hdec k hk
      refine ⟨r, ?_⟩
      rw [← Nat.add_mul]; exact hr)
  have hbl : ((s.mem.drop (i * sz)).take (cnt.getD 1 * sz)).length ≤ cnt.getD 1 * sz := by
    rw [List.length_take]; exact Nat.min_le_left _ _
  obtain ⟨w', frm, hread, hrest⟩ := ldr2_read_single cfg w sess cidb conn st (ldr2_tagStr ⟨s.name, idx⟩ none cnt) _ info path
    _ (ldr2_locAt s c sz i dim) c (cnt.getD 1) _ _ _ hw hlogix hparse rfl rfl rfl rfl hpath hden
    (by have := hid.2.1; omega) hr rfl
    ⟨hn, by simp only [ldr2_locAt]; omega, by omega⟩ hbts hreply
    (by rw [hrs, Nat.mul_comm]; omega) (by omega) (by omega)
  refine ⟨w', frm, ?_, hrest⟩
  rw [hread]
  have hresult := ldr_readResult
    { requestId := 0, requestTag := ldr2_tagStr ⟨s.name, idx⟩ none cnt, userTag := ldr2_tagStr ⟨s.name, idx⟩ none none,
      plcTag := renderLevel ⟨s.name, idx⟩, bit := none, elements := ((cnt.getD 1 : Nat) : Int), info := some info,
      boolElements := none } info
    { tag := renderLevel ⟨s.name, idx⟩, value := ldr2_value vs, type := some (ldr2_typeStr name (cnt.getD 1)), error := none }
    rfl rfl rfl (by rw [hinfo.typeName]; exact hndw)
    (ldr2_value_not_none c t haty hb vs (fun k hk => by obtain ⟨r, hr⟩ := hdec k hk; exact ⟨_, r, hr⟩)) rfl
  dsimp only at hresult ⊢
  rw [hresult]

end Pycomm.Lgx.Drv
