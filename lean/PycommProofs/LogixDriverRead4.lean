/-
  C01 at the driver level, fourth part: NESTED data. `LogixDriver.read` through the whole stack of the model (tag-string
  parsing, tag database, request building, `CIPDriver.send`, encapsulation, the reference target's encapsulation layer /
  message router / Logix services, reply framing, response classes, value decoding, result assembly) for
    * a member path of ANY depth through nested structure definitions, `outer.inner. … .leaf`, ending at an elementary
      member (induction over the path), with element indexes allowed at every level (`arr[i].m[j].leaf`);
    * a member of an element of an array of structures, `arr[i].member`;
    * a member path that ends at a BOOL member (a bit of a host byte), `outer.inner.flag`;
    * a member path that ends at a structure, `outer.inner`: the nested dict;
    * a whole tag whose definition contains structures and arrays of structures, `outer`: the nested dict;
    * elements of an array of (nested) structures, `arr[i]`, `arr[i]{n}`, `arr{n}`: a dict / a list of dicts.

  Layers (lemmas usable on their own):
    LDRead4A  `ldr4_InfoPath`, `ldr4_recurseAttrs`, `ldr4_getTagInfo`, `ldr4_parse_path`, `ldr4_requestPath`
    LDRead4B  `ldr4_Hop`, `ldr4_HopOk`, `ldr4_Chain`, `ldr4_offset`, `ldr4_resolveMembers`, `ldr4_resolve_path`, `ldr4_readBytes`
    LDRead4C  `ldr4_read_path_any`, `ldr4_LeafOf`, `ldr4_parseReadReply_leaf`, `ldr4_read_path_leaf`
    LDRead4D  `ldr4_Nested`, `ldr4_held`, `ldr4_decode_held`, `ldr4_decodeN_held`
    LDRead4E  `ldr4_parseReadReply_nested_at`, `ldr4_resolve_structElem`, `ldr4_parseReadReply_structArr`, `ldr4_read_structArr`
    LDRead4F  `ldr4_read_levels_core`, `ldr4_resolveMembers_tail`, `ldr4_resolve_path_bool`, `ldr4_read_path_bool`
-/
import PycommProofs.LDRead4E
import PycommProofs.LDRead4F
import PycommProofs.LogixDriverRead3
namespace Pycomm.Lgx.Drv
open Pycomm Pycomm.Tgt Pycomm.Path Pycomm.Reply Pycomm.Encap Pycomm.Lgx Pycomm.Lgx.E2E

/-- bound on the encoded request path of dotted names without indexes: 3 bytes per name + the names -/
def ldr4_namesSize (names : List Name) : Nat := (names.map fun n => n.length + 3).sum

/-! ### what `ldr4_held` says, unfolded -/

/-- a structure is the dict of its visible members … -/
theorem ldr4_held_struct (d : Nat) (ms : TMembers) (bits : List (Name × Nat × Nat)) (priv : List Name) (size : Nat)
    (mem : Bytes) (off : Nat) :
    ldr4_held (d + 1) (.structTag ms bits priv size) mem off = .dict (ldr4_membersAt (ldr4_held d) ms priv mem off) := rfl

/-- … each read at the structure's offset plus the member's offset -/
theorem ldr4_membersAt_cons (f : Ty → Bytes → Nat → PyVal) (name : Name) (t : Ty) (o : Nat) (rest : TMembers)
    (priv : List Name) (mem : Bytes) (off : Nat) (h : priv.contains name = false) :
    ldr4_membersAt f (.cons name t o rest) priv mem off = (name, f t mem (off + o)) :: ldr4_membersAt f rest priv mem off := by
  simp only [ldr4_membersAt, h, Bool.false_eq_true, if_false]

/-- an array is the list of its elements, element `k` read at `k` element widths from the array's offset -/
theorem ldr4_held_arr (d n : Nat) (t : Ty) (mem : Bytes) (off : Nat) :
    ldr4_held (d + 1) (.arr (.fixed n) t) mem off =
      .list ((List.range n).map fun k => ldr4_held d t mem (off + k * (fixedWidth t).getD 0)) := rfl

/-- an elementary value is what the codec decodes from the memory at its offset -/
theorem ldr4_held_leaf (d : Nat) (t : Ty) (h : ldr4_Elem t) (mem : Bytes) (off : Nat) (v : PyVal) (rest : Bytes)
    (hdec : decode t (mem.drop off) = .ok (v, rest)) : ldr4_held d t mem off = v := by
  rw [ldr4_held_elem d t h]
  simp only [ldr4_leafAt, hdec]

/-! ### paths without indexes -/

theorem ldr4_levels_plain (name : Name) (hops : List ldr4_Hop) (h : ∀ h ∈ hops, h.idx = []) :
    (ldr4_levels name [] hops).map renderLevel = name :: hops.map (·.m.name) := by
  simp only [ldr4_levels, List.map_cons, List.map_map, renderLevel, if_true, List.cons.injEq, true_and]
  apply List.map_congr_left
  intro x hx
  simp [Function.comp, ldr4_Hop.level, h x hx, renderLevel]

theorem ldr4_pathStr_plain (name : Name) (hops : List ldr4_Hop) (h : ∀ h ∈ hops, h.idx = []) :
    ldr4_pathStr name [] hops = joinWith 46 (name :: hops.map (·.m.name)) := by
  unfold ldr4_pathStr renderTag
  rw [ldr4_levels_plain name hops h]

theorem ldr4_offset_plain (hops : List ldr4_Hop) (h : ∀ h ∈ hops, h.idx = []) :
    ldr4_offset hops = (hops.map (·.m.offset)).sum := by
  unfold ldr4_offset
  congr 1
  apply List.map_congr_left
  intro x hx
  simp [ldr4_Hop.off, h x hx]

theorem ldr4_pathSize_plain (name : Name) (hops : List ldr4_Hop) (h : ∀ h ∈ hops, h.idx = []) :
    ldr4_pathSize (ldr4_levels name [] hops) = ldr4_namesSize (name :: hops.map (·.m.name)) := by
  unfold ldr4_pathSize ldr4_namesSize ldr4_levels
  simp only [List.map_cons, List.map_map, List.length_nil, Nat.mul_zero, Nat.add_zero, List.sum_cons]
  congr 1
  · omega
  · congr 1
    apply List.map_congr_left
    intro x hx
    simp only [Function.comp, ldr4_Hop.level, h x hx, List.length_nil]
    omega

/-- the row-major linear index of `[i]` in a one-dimensional array -/
theorem ldr4_linearIndex_one (dims : List Nat) (dim i : Nat) (hdims : dims.filter (· != 0) = [dim]) (hi : i < dim) :
    linearIndex dims [i] = some i := by
  unfold linearIndex
  simp only [hdims, List.length_singleton, ne_eq, not_true_eq_false, if_false, List.zip_cons_cons, List.zip_nil_right,
    List.any_cons, List.any_nil, Bool.or_false, decide_eq_true_eq, List.foldl_cons, List.foldl_nil, Nat.zero_mul,
    Nat.zero_add]
  rw [if_neg (by omega)]

/-- what the `internal_tags` say about a scalar structure member: a `struct` entry with its `data_type` dict and
    `type_class`; internal tags carry no instance id -/
structure ldr4_StructMemberOf (leaf : TagInfo) (si : StructInfo) (ty : Ty) : Prop where
  kind : leaf.core.tagType = .struct
  typeName : leaf.core.dataTypeName = si.name
  ty : leaf.core.ty = ty
  instanceId : leaf.core.instanceId = none
  struct : leaf.core.struct = some si

-- PROPERTY THEOREMS

/-- C01, driver level, member paths of ANY depth: `read("tag[i].m1[j]. … .leaf")`, where `tag` is a controller-scope
    structure tag (or, with indexes `idx0`, an element of an array of structures), every `m` is a member of the
    structure definition reached so far (optionally followed by ONE element index when the member is an array) and the
    last member is of an elementary type other than BOOL / bit string, returns one error-free Tag named as requested,
    carrying the leaf's type name and the value the codec decodes from the TAG's memory at byte
        `li · (size of the tag's structure) + Σ (member offset + element index · element size)`
    (`li` = the row-major linear index written after the tag name, 0 without; `ldr4_offset hops`). One plain Read Tag is
    sent whose request path is SYMBOLIC — all names and indexes as written — whatever `use_instance_ids` says (entries of
    `internal_tags` carry no instance id); one frame, one sequence number; project unchanged; world healthy again.

    The path is given by the list `hops` of steps (`ldr4_Hop`: definition, member, index, element size);
    `ldr4_Chain st.proj (.struct tid0) hops (.atomic c)` says that each step is legal from the definition the previous
    one led to (`ldr4_HopOk`: the template exists, the member is in it with a unique byte-string name, it is not a BOOL,
    its element size is known, an index stays inside the member array) and that the last step ends at elementary code `c`.
    The theorem is proved by induction over `hops`: there is no depth bound.

    Hypotheses besides those of `read_struct_member_e2e` on the world and the symbol:
    * `hl0`, `hlv`   tag name and member names are plain identifiers, indexes below 2^32, at most three per level;
    * `hidx`         the indexes after the tag name are a legal index of its dimensions (`linearIndex`), or absent;
    * `hnum`         the last member name is not a number (a trailing all-digit attribute would be a bit number);
    * `hsize`        the request path fits: 3 bytes + the name per level and 6 bytes per index, at most 500 bytes;
    * `hat`, `hb`, `hsz`  `c` is known to the driver's tables as `name` / codec class `t` (not a bit string), `sz` bytes;
    * `hin`          the leaf lies inside the tag's memory;
    * `hget`, `hk`, `hpath`, `hleaf`  the tag database maps the tag name to a `struct` entry whose `internal_tags`,
                     followed along the member names through `struct` entries (`ldr4_InfoPath`), reach an atomic entry
                     of the leaf's type — scalar or `ArrayType` (`ldr4_LeafOf`);
    * `hdec`         `v` is what the codec decodes from the memory at the leaf's offset;
    * `hC`, `hT`     request and answer fit (`path size + 18` bytes suffice). -/
theorem read_member_path_e2e (cfg : Cfg) (w : Cli.World Ext) (sess : Nat) (cidb : Bytes) (conn : Conn)
    (st : LState) (s : Symbol) (tid0 : Nat) (tm0 : Template) (idx0 : List Nat) (li : Nat) (hops : List ldr4_Hop)
    (info leaf : TagInfo) (c sz : Nat) (name : Name) (t : Ty) (v : PyVal) (rest : Bytes)
    (hw : ldr_Healthy w sess cidb conn) (hlogix : w.net.target.ext.logix = some st)
    (hs : s ∈ st.proj.controller)
    (hbytes : ∀ s' ∈ st.proj.controller, ∀ ch ∈ s'.name, ch < 256)
    (huniqN : ∀ s' ∈ st.proj.controller, s'.name = s.name → s' = s)
    (huniqI : ∀ s' ∈ st.proj.controller, s'.inst = s.inst → s' = s)
    (hl0 : ldr2_Level ⟨s.name, idx0⟩)
    (hty : elTyOfWord s.symbolType = .struct tid0) (htm0 : st.proj.template? tid0 = some tm0)
    (hidx : (idx0 = [] ∧ li = 0) ∨ (idx0 ≠ [] ∧ linearIndex s.dims idx0 = some li))
    (hne : hops ≠ []) (hchain : ldr4_Chain st.proj (.struct tid0) hops (.atomic c))
    (hlv : ∀ h ∈ hops, ldr2_Level h.level)
    (hnum : ∀ h, hops.getLast? = some h → PyStr.isDigit h.m.name = false)
    (hsize : ldr4_pathSize (ldr4_levels s.name idx0 hops) ≤ 500)
    (hat : atomicOfCode c = some (name, t)) (hb : t.isBits = none) (hsz : atomicSize c = some sz)
    (hin : li * tm0.size + ldr4_offset hops + sz ≤ s.mem.length)
    (hget : cfg.tags.get? s.name = some info) (hk : info.core.tagType = .struct)
    (hpath : ldr4_InfoPath info.members (hops.map (·.m.name)) leaf) (hleaf : ldr4_LeafOf leaf name t)
    (hdec : decode t (s.mem.drop (li * tm0.size + ldr4_offset hops)) = .ok (v, rest))
    (hC : ldr4_pathSize (ldr4_levels s.name idx0 hops) + 16 ≤ w.drv.connectionSize)
    (hT : ldr4_pathSize (ldr4_levels s.name idx0 hops) + 18 ≤ conn.size) :
    ∃ w' frm, read hookAll cfg w [renderTag (ldr4_levels s.name idx0 hops)] =
        (w', .ok [{ tag := renderTag (ldr4_levels s.name idx0 hops), value := v, type := some name, error := none }]) ∧
      w'.drv = w.drv.nextSeq.2 ∧ w'.net.sent = w.net.sent ++ [frm] ∧
      w'.net.target.ext = { w.net.target.ext with logix := some { st with ctr := st.ctr + 1 } } ∧
      ldr_Healthy w' sess cidb { conn with lastSeq := some w.drv.nextSeq.1 } :=
  ldr4_read_path_leaf cfg w sess cidb conn st s tid0 tm0 idx0 li hops info leaf c sz name t v rest hw hlogix hs hbytes
    huniqN huniqI hl0 hty htm0 hidx hne hchain hlv hnum hsize hat hb hsz hin hget hk hpath hleaf hdec hC hT

/-- C01, driver level, nested structure members to ANY depth: `read("outer.m1.m2. … .leaf")` — the names joined by
    dots, no indexes — for a controller-scope structure tag `outer`, each `m` a member of the structure definition the
    previous name led to, the leaf elementary (not BOOL / bit string): one error-free Tag named as requested with the
    leaf's type name and the value decoded from exactly the leaf's bytes inside the OUTER tag's memory — byte offset =
    the SUM of the member offsets along the path. One plain Read Tag with a symbolic request path; one frame; project
    unchanged; world healthy again. Special case of `read_member_path_e2e` (hypotheses explained there); a member that is
    an array of structures, named without index, stands for its element 0. -/
theorem read_nested_member_e2e (cfg : Cfg) (w : Cli.World Ext) (sess : Nat) (cidb : Bytes) (conn : Conn)
    (st : LState) (s : Symbol) (tid0 : Nat) (hops : List ldr4_Hop)
    (info leaf : TagInfo) (c sz : Nat) (name : Name) (t : Ty) (v : PyVal) (rest : Bytes)
    (hw : ldr_Healthy w sess cidb conn) (hlogix : w.net.target.ext.logix = some st)
    (hs : s ∈ st.proj.controller)
    (hbytes : ∀ s' ∈ st.proj.controller, ∀ ch ∈ s'.name, ch < 256)
    (huniqN : ∀ s' ∈ st.proj.controller, s'.name = s.name → s' = s)
    (huniqI : ∀ s' ∈ st.proj.controller, s'.inst = s.inst → s' = s)
    (hid : PlainIdent s.name) (hty : elTyOfWord s.symbolType = .struct tid0)
    (hne : hops ≠ []) (hchain : ldr4_Chain st.proj (.struct tid0) hops (.atomic c))
    (hplain : ∀ h ∈ hops, h.idx = [] ∧ PlainIdent h.m.name)
    (hnum : ∀ h, hops.getLast? = some h → PyStr.isDigit h.m.name = false)
    (hsize : ldr4_namesSize (s.name :: hops.map (·.m.name)) ≤ 500)
    (hat : atomicOfCode c = some (name, t)) (hb : t.isBits = none) (hsz : atomicSize c = some sz)
    (hin : (hops.map (·.m.offset)).sum + sz ≤ s.mem.length)
    (hget : cfg.tags.get? s.name = some info) (hk : info.core.tagType = .struct)
    (hpath : ldr4_InfoPath info.members (hops.map (·.m.name)) leaf) (hleaf : ldr4_LeafOf leaf name t)
    (hdec : decode t (s.mem.drop (hops.map (·.m.offset)).sum) = .ok (v, rest))
    (hC : ldr4_namesSize (s.name :: hops.map (·.m.name)) + 16 ≤ w.drv.connectionSize)
    (hT : ldr4_namesSize (s.name :: hops.map (·.m.name)) + 18 ≤ conn.size) :
    ∃ w' frm, read hookAll cfg w [joinWith 46 (s.name :: hops.map (·.m.name))] =
        (w', .ok [{ tag := joinWith 46 (s.name :: hops.map (·.m.name)), value := v, type := some name, error := none }]) ∧
      w'.drv = w.drv.nextSeq.2 ∧ w'.net.sent = w.net.sent ++ [frm] ∧
      w'.net.target.ext = { w.net.target.ext with logix := some { st with ctr := st.ctr + 1 } } ∧
      ldr_Healthy w' sess cidb { conn with lastSeq := some w.drv.nextSeq.1 } := by
  have hidxs : ∀ h ∈ hops, h.idx = [] := fun h hh => (hplain h hh).1
  -- the tag's own definition is the one the first step is taken from
  obtain ⟨tm0, htm0⟩ : ∃ tm0, st.proj.template? tid0 = some tm0 := by
    cases hops with
    | nil => exact absurd rfl hne
    | cons h rest' =>
      simp only [ldr4_Chain] at hchain
      obtain ⟨tid, e, hok, _⟩ := hchain
      cases e
      exact ⟨h.tm, hok.tmpl⟩
  have hoff := ldr4_offset_plain hops hidxs
  have hps := ldr4_pathSize_plain s.name hops hidxs
  have h := ldr4_read_path_leaf cfg w sess cidb conn st s tid0 tm0 [] 0 hops info leaf c sz name t v rest hw hlogix hs
    hbytes huniqN huniqI ⟨hid, by simp, by simp⟩ hty htm0 (Or.inl ⟨rfl, rfl⟩) hne hchain
    (fun h hh => ⟨(hplain h hh).2, by simp [ldr4_Hop.level, hidxs h hh], by simp [ldr4_Hop.level, hidxs h hh]⟩)
    hnum (by rw [hps]; exact hsize) hat hb hsz (by rw [hoff]; omega) hget hk hpath hleaf
    (by rw [hoff, Nat.zero_mul, Nat.zero_add]; exact hdec) (by rw [hps]; exact hC) (by rw [hps]; exact hT)
  rw [ldr4_pathStr_plain s.name hops hidxs] at h
  exact h

/-- C01, driver level, depth two spelled out: `read("outer.inner.leaf")` for a controller-scope structure tag `outer`
    of definition `tm1`, its member `inner` = `m1` of structure type `tm2` and the elementary (non-BOOL, non-bit-string)
    member `leaf` = `m2` of THAT definition: the value is decoded at byte `m1.offset + m2.offset` of `outer`'s memory;
    the Tag is named `outer.inner.leaf` and typed like the leaf. The tag database side: the entry of `outer` is a
    `struct` whose `internal_tags` map `inner` to a `struct` entry whose `internal_tags` map `leaf` to an atomic entry
    of that type. (`read_nested_member_e2e` with two steps.) -/
theorem read_nested_member2_e2e (cfg : Cfg) (w : Cli.World Ext) (sess : Nat) (cidb : Bytes) (conn : Conn)
    (st : LState) (s : Symbol) (tid1 tid2 : Nat) (tm1 tm2 : Template) (m1 m2 : MemberDef)
    (info minfo1 leaf : TagInfo) (c sz : Nat) (name : Name) (t : Ty) (v : PyVal) (rest : Bytes)
    (hw : ldr_Healthy w sess cidb conn) (hlogix : w.net.target.ext.logix = some st)
    (hs : s ∈ st.proj.controller)
    (hbytes : ∀ s' ∈ st.proj.controller, ∀ ch ∈ s'.name, ch < 256)
    (huniqN : ∀ s' ∈ st.proj.controller, s'.name = s.name → s' = s)
    (huniqI : ∀ s' ∈ st.proj.controller, s'.inst = s.inst → s' = s)
    (hid : PlainIdent s.name)
    (hty : elTyOfWord s.symbolType = .struct tid1) (htm1 : st.proj.template? tid1 = some tm1)
    (hm1 : m1 ∈ tm1.members) (hm1bytes : ∀ m' ∈ tm1.members, ∀ ch ∈ m'.name, ch < 256)
    (hm1uniq : ∀ m' ∈ tm1.members, m'.name = m1.name → m' = m1) (hm1id : PlainIdent m1.name)
    (hm1ty : elTyOfWord m1.typeWord = .struct tid2) (htm2 : st.proj.template? tid2 = some tm2)
    (hm2 : m2 ∈ tm2.members) (hm2bytes : ∀ m' ∈ tm2.members, ∀ ch ∈ m'.name, ch < 256)
    (hm2uniq : ∀ m' ∈ tm2.members, m'.name = m2.name → m' = m2) (hm2id : PlainIdent m2.name)
    (hnum : PyStr.isDigit m2.name = false)
    (hm2ty : elTyOfWord m2.typeWord = .atomic c) (hnb : c ≠ 0xC1)
    (hat : atomicOfCode c = some (name, t)) (hb : t.isBits = none) (hsz : atomicSize c = some sz)
    (hnl : s.name.length + m1.name.length + m2.name.length ≤ 480)
    (hin : m1.offset + m2.offset + sz ≤ s.mem.length)
    (hget : cfg.tags.get? s.name = some info) (hk : info.core.tagType = .struct)
    (hm1get : info.members.get? m1.name = some minfo1) (hk1 : minfo1.core.tagType = .struct)
    (hm2get : minfo1.members.get? m2.name = some leaf) (hleaf : ldr4_LeafOf leaf name t)
    (hdec : decode t (s.mem.drop (m1.offset + m2.offset)) = .ok (v, rest))
    (hC : s.name.length + m1.name.length + m2.name.length + 25 ≤ w.drv.connectionSize)
    (hT : s.name.length + m1.name.length + m2.name.length + 27 ≤ conn.size) :
    ∃ w' frm, read hookAll cfg w [s.name ++ [46] ++ m1.name ++ [46] ++ m2.name] =
        (w', .ok [{ tag := s.name ++ [46] ++ m1.name ++ [46] ++ m2.name, value := v, type := some name, error := none }]) ∧
      w'.drv = w.drv.nextSeq.2 ∧ w'.net.sent = w.net.sent ++ [frm] ∧
      w'.net.target.ext = { w.net.target.ext with logix := some { st with ctr := st.ctr + 1 } } ∧
      ldr_Healthy w' sess cidb { conn with lastSeq := some w.drv.nextSeq.1 } := by
  have hel1 : st.proj.elSize (elTyOfWord m1.typeWord) = some tm2.size := by simp [hm1ty, Project.elSize, htm2]
  have hel2 : st.proj.elSize (elTyOfWord m2.typeWord) = some sz := by rw [hm2ty]; exact hsz
  have hok1 : ldr4_HopOk st.proj tid1 ⟨tm1, m1, [], tm2.size⟩ :=
    ⟨htm1, hm1, hm1bytes, hm1uniq, (by rw [hm1ty]; intro e; cases e), hel1, Or.inl rfl⟩
  have hok2 : ldr4_HopOk st.proj tid2 ⟨tm2, m2, [], sz⟩ :=
    ⟨htm2, hm2, hm2bytes, hm2uniq, (by rw [hm2ty]; intro e; cases e; exact hnb rfl), hel2, Or.inl rfl⟩
  have hchain : ldr4_Chain st.proj (.struct tid1) [⟨tm1, m1, [], tm2.size⟩, ⟨tm2, m2, [], sz⟩] (.atomic c) :=
    ⟨tid1, rfl, hok1, tid2, hm1ty, hok2, hm2ty.symm⟩
  have h := read_nested_member_e2e cfg w sess cidb conn st s tid1 [⟨tm1, m1, [], tm2.size⟩, ⟨tm2, m2, [], sz⟩] info leaf
    c sz name t v rest hw hlogix hs hbytes huniqN huniqI hid hty (by simp) hchain
    (by intro h hh
        simp only [List.mem_cons, List.not_mem_nil, or_false] at hh
        rcases hh with rfl | rfl
        · exact ⟨rfl, hm1id⟩
        · exact ⟨rfl, hm2id⟩)
    (by intro h hh
        simp only [List.getLast?_cons_cons, List.getLast?_singleton, Option.some.injEq] at hh
        subst hh
        exact hnum)
    (by simp only [ldr4_namesSize, List.map_cons, List.map_nil, List.sum_cons, List.sum_nil]; omega)
    hat hb hsz
    (by simp only [List.map_cons, List.map_nil, List.sum_cons, List.sum_nil]; omega)
    hget hk ⟨minfo1, hm1get, hk1, hm2get⟩ hleaf
    (by simpa [List.map_cons, List.sum_cons] using hdec)
    (by simp only [ldr4_namesSize, List.map_cons, List.map_nil, List.sum_cons, List.sum_nil]; omega)
    (by simp only [ldr4_namesSize, List.map_cons, List.map_nil, List.sum_cons, List.sum_nil]; omega)
  simpa [joinWith] using h

/-- C01, driver level, arrays of structures: `read("arr[i].member")` for a controller-scope ONE-dimensional array
    `arr` of structures of definition `tm` and an elementary (non-BOOL, non-bit-string) member of it: element `i`
    starts at byte `i · (structure size)`, so the value is decoded at byte `i · tm.size + m.offset` of the array's
    memory. The Tag is named `arr[i].member`, typed like the member. One plain Read Tag whose symbolic request path
    carries the name, the index as a member id, and the member name. (`read_member_path_e2e` with one step behind an
    indexed tag; `hdims`, `hi`: one dimension of `dim` elements, `i` inside; the other hypotheses as there.) -/
theorem read_struct_array_element_member_e2e (cfg : Cfg) (w : Cli.World Ext) (sess : Nat) (cidb : Bytes) (conn : Conn)
    (st : LState) (s : Symbol) (tid : Nat) (tm : Template) (m : MemberDef) (dim i : Nat)
    (info leaf : TagInfo) (c sz : Nat) (name : Name) (t : Ty) (v : PyVal) (rest : Bytes)
    (hw : ldr_Healthy w sess cidb conn) (hlogix : w.net.target.ext.logix = some st)
    (hs : s ∈ st.proj.controller)
    (hbytes : ∀ s' ∈ st.proj.controller, ∀ ch ∈ s'.name, ch < 256)
    (huniqN : ∀ s' ∈ st.proj.controller, s'.name = s.name → s' = s)
    (huniqI : ∀ s' ∈ st.proj.controller, s'.inst = s.inst → s' = s)
    (hid : PlainIdent s.name)
    (hty : elTyOfWord s.symbolType = .struct tid) (htm : st.proj.template? tid = some tm)
    (hdims : s.dims.filter (· != 0) = [dim]) (hi : i < dim) (hi32 : i < 2 ^ 32)
    (hm : m ∈ tm.members) (hmbytes : ∀ m' ∈ tm.members, ∀ ch ∈ m'.name, ch < 256)
    (hmuniq : ∀ m' ∈ tm.members, m'.name = m.name → m' = m)
    (hmid : PlainIdent m.name) (hnum : PyStr.isDigit m.name = false)
    (hmty : elTyOfWord m.typeWord = .atomic c) (hnb : c ≠ 0xC1)
    (hat : atomicOfCode c = some (name, t)) (hb : t.isBits = none) (hsz : atomicSize c = some sz)
    (hnl : s.name.length + m.name.length ≤ 480)
    (hin : i * tm.size + m.offset + sz ≤ s.mem.length)
    (hget : cfg.tags.get? s.name = some info) (hk : info.core.tagType = .struct)
    (hmget : info.members.get? m.name = some leaf) (hleaf : ldr4_LeafOf leaf name t)
    (hdec : decode t (s.mem.drop (i * tm.size + m.offset)) = .ok (v, rest))
    (hC : s.name.length + m.name.length + 28 ≤ w.drv.connectionSize)
    (hT : s.name.length + m.name.length + 30 ≤ conn.size) :
    ∃ w' frm, read hookAll cfg w [s.name ++ [91] ++ decRender i ++ [93] ++ [46] ++ m.name] =
        (w', .ok [{ tag := s.name ++ [91] ++ decRender i ++ [93] ++ [46] ++ m.name, value := v, type := some name,
                    error := none }]) ∧
      w'.drv = w.drv.nextSeq.2 ∧ w'.net.sent = w.net.sent ++ [frm] ∧
      w'.net.target.ext = { w.net.target.ext with logix := some { st with ctr := st.ctr + 1 } } ∧
      ldr_Healthy w' sess cidb { conn with lastSeq := some w.drv.nextSeq.1 } := by
  have hel : st.proj.elSize (elTyOfWord m.typeWord) = some sz := by rw [hmty]; exact hsz
  have hok : ldr4_HopOk st.proj tid ⟨tm, m, [], sz⟩ :=
    ⟨htm, hm, hmbytes, hmuniq, (by rw [hmty]; intro e; cases e; exact hnb rfl), hel, Or.inl rfl⟩
  have hchain : ldr4_Chain st.proj (.struct tid) [⟨tm, m, [], sz⟩] (.atomic c) := ⟨tid, rfl, hok, hmty.symm⟩
  have hps : ldr4_pathSize (ldr4_levels s.name [i] [⟨tm, m, [], sz⟩]) = s.name.length + m.name.length + 12 := by
    simp only [ldr4_pathSize, ldr4_levels, ldr4_Hop.level, List.map_cons, List.map_nil, List.sum_cons, List.sum_nil,
      List.length_cons, List.length_nil]
    omega
  have hoff : ldr4_offset [⟨tm, m, [], sz⟩] = m.offset := by simp [ldr4_offset, ldr4_Hop.off]
  have h := ldr4_read_path_leaf cfg w sess cidb conn st s tid tm [i] i [⟨tm, m, [], sz⟩] info leaf c sz name t v rest hw
    hlogix hs hbytes huniqN huniqI ⟨hid, by simp, by simpa using hi32⟩ hty htm
    (Or.inr ⟨by simp, ldr4_linearIndex_one s.dims dim i hdims hi⟩) (by simp) hchain
    (by intro h hh
        simp only [List.mem_cons, List.not_mem_nil, or_false] at hh
        subst hh
        exact ⟨hmid, by simp [ldr4_Hop.level], by simp [ldr4_Hop.level]⟩)
    (by intro h hh
        simp only [List.getLast?_singleton, Option.some.injEq] at hh
        subst hh
        exact hnum)
    (by rw [hps]; omega) hat hb hsz (by rw [hoff]; exact hin) hget hk hmget hleaf (by rw [hoff]; exact hdec)
    (by rw [hps]; omega) (by rw [hps]; omega)
  have hstr : ldr4_pathStr s.name [i] [⟨tm, m, [], sz⟩] = s.name ++ [91] ++ decRender i ++ [93] ++ [46] ++ m.name := by
    simp [ldr4_pathStr, ldr4_levels, renderTag, joinWith, renderLevel, ldr4_Hop.level]
  rw [hstr] at h
  exact h

/-- C01, driver level, BOOL members at any depth: `read("tag[i].m1. … .flag")` where the walk `hops` (possibly empty:
    `tag.flag`) leads to a structure of definition `tmL` and `flag` = `mb` is a BOOL member of it — in a Logix
    structure a BOOL lives in bit `mb.info` of the (hidden) host byte at `mb.offset`: the Tag carries that bit of the
    byte at `li · (structure size) + ldr4_offset hops + mb.offset` of the TAG's memory (`ldr4_bitOf`: byte / 2^bit odd),
    typed `BOOL`. One plain Read Tag with the symbolic path; the controller answers `C1 00` + `FF` / `00`.
    Hypotheses as in `read_member_path_e2e`; `hleaf`: the entry reached is an atomic BOOL entry. -/
theorem read_nested_bool_member_e2e (cfg : Cfg) (w : Cli.World Ext) (sess : Nat) (cidb : Bytes) (conn : Conn)
    (st : LState) (s : Symbol) (tid0 : Nat) (tm0 : Template) (idx0 : List Nat) (li : Nat) (hops : List ldr4_Hop)
    (tidL : Nat) (tmL : Template) (mb : MemberDef) (info leaf : TagInfo)
    (hw : ldr_Healthy w sess cidb conn) (hlogix : w.net.target.ext.logix = some st)
    (hs : s ∈ st.proj.controller)
    (hbytes : ∀ s' ∈ st.proj.controller, ∀ ch ∈ s'.name, ch < 256)
    (huniqN : ∀ s' ∈ st.proj.controller, s'.name = s.name → s' = s)
    (huniqI : ∀ s' ∈ st.proj.controller, s'.inst = s.inst → s' = s)
    (hl0 : ldr2_Level ⟨s.name, idx0⟩)
    (hty : elTyOfWord s.symbolType = .struct tid0) (htm0 : st.proj.template? tid0 = some tm0)
    (hidx : (idx0 = [] ∧ li = 0) ∨ (idx0 ≠ [] ∧ linearIndex s.dims idx0 = some li))
    (hchain : ldr4_Chain st.proj (.struct tid0) hops (.struct tidL)) (htmL : st.proj.template? tidL = some tmL)
    (hlv : ∀ h ∈ hops, ldr2_Level h.level)
    (hmb : mb ∈ tmL.members) (hmbbytes : ∀ m' ∈ tmL.members, ∀ ch ∈ m'.name, ch < 256)
    (hmbuniq : ∀ m' ∈ tmL.members, m'.name = mb.name → m' = mb)
    (hmbid : PlainIdent mb.name) (hnum : PyStr.isDigit mb.name = false)
    (hmbty : elTyOfWord mb.typeWord = .atomic 0xC1)
    (hsize : ldr4_pathSize (ldr4_levels s.name idx0 hops ++ [⟨mb.name, []⟩]) ≤ 500)
    (hin : li * tm0.size + ldr4_offset hops + mb.offset < s.mem.length)
    (hget : cfg.tags.get? s.name = some info) (hk : info.core.tagType = .struct)
    (hpath : ldr4_InfoPath info.members (hops.map (·.m.name) ++ [mb.name]) leaf) (hleaf : ldr4_BoolOf leaf)
    (hC : ldr4_pathSize (ldr4_levels s.name idx0 hops ++ [⟨mb.name, []⟩]) + 9 ≤ w.drv.connectionSize)
    (hT : ldr4_pathSize (ldr4_levels s.name idx0 hops ++ [⟨mb.name, []⟩]) + 11 ≤ conn.size) :
    ∃ w' frm, read hookAll cfg w [renderTag (ldr4_levels s.name idx0 hops ++ [⟨mb.name, []⟩])] =
        (w', .ok [{ tag := renderTag (ldr4_levels s.name idx0 hops ++ [⟨mb.name, []⟩]),
                    value := .bool (ldr4_bitOf s.mem (li * tm0.size + ldr4_offset hops + mb.offset) mb.info),
                    type := some (Drv.nm "BOOL"), error := none }]) ∧
      w'.drv = w.drv.nextSeq.2 ∧ w'.net.sent = w.net.sent ++ [frm] ∧
      w'.net.target.ext = { w.net.target.ext with logix := some { st with ctr := st.ctr + 1 } } ∧
      ldr_Healthy w' sess cidb { conn with lastSeq := some w.drv.nextSeq.1 } :=
  ldr4_read_path_bool cfg w sess cidb conn st s tid0 tm0 idx0 li hops tidL tmL mb info leaf hw hlogix hs hbytes huniqN huniqI
    hl0 hty htm0 hidx hchain htmL hlv hmb hmbbytes hmbuniq hmbid hnum hmbty hsize hin hget hk hpath hleaf hC hT

/-- C01, driver level, a member path that ends at a STRUCTURE: `read("tag[i].m1. … .inner")` where the last member is a
    scalar member of structure type (definition `tmL`) whose entry of `internal_tags` carries a nested `StructTag`
    `type_class` without packed BOOLs (`ldr4_Nested`) and whose visible attributes are its visible members: the Tag
    carries the nested dict the definition dictates for the bytes of the TAG's memory from the member's offset on —
    `ldr4_held`: a structure is the dict of its visible members in definition order, member `m` read at
    `offset + m.offset`; an array member is the list of its elements at `offset + k · element width`; an elementary
    member is what the codec decodes at its offset (`ldr4_held_struct`, `ldr4_held_arr`, `ldr4_held_leaf`) — and the
    structure's type name. One plain Read Tag (symbolic path), answered with the marker `A0 02` + handle and the
    `tmL.size` bytes of the member. Hypotheses on path and world as in `read_member_path_e2e`. -/
theorem read_nested_struct_member_e2e (cfg : Cfg) (w : Cli.World Ext) (sess : Nat) (cidb : Bytes) (conn : Conn)
    (st : LState) (s : Symbol) (tid0 : Nat) (tm0 : Template) (idx0 : List Nat) (li : Nat) (hops : List ldr4_Hop)
    (tidL : Nat) (tmL : Template) (info leaf : TagInfo) (si : StructInfo) (d : Nat) (ms : TMembers) (priv : List Name)
    (hw : ldr_Healthy w sess cidb conn) (hlogix : w.net.target.ext.logix = some st)
    (hs : s ∈ st.proj.controller)
    (hbytes : ∀ s' ∈ st.proj.controller, ∀ ch ∈ s'.name, ch < 256)
    (huniqN : ∀ s' ∈ st.proj.controller, s'.name = s.name → s' = s)
    (huniqI : ∀ s' ∈ st.proj.controller, s'.inst = s.inst → s' = s)
    (hl0 : ldr2_Level ⟨s.name, idx0⟩)
    (hty : elTyOfWord s.symbolType = .struct tid0) (htm0 : st.proj.template? tid0 = some tm0)
    (hidx : (idx0 = [] ∧ li = 0) ∨ (idx0 ≠ [] ∧ linearIndex s.dims idx0 = some li))
    (hne : hops ≠ []) (hchain : ldr4_Chain st.proj (.struct tid0) hops (.struct tidL))
    (htmL : st.proj.template? tidL = some tmL)
    (hlv : ∀ h ∈ hops, ldr2_Level h.level)
    (hnum : ∀ h, hops.getLast? = some h → PyStr.isDigit h.m.name = false)
    (hsize : ldr4_pathSize (ldr4_levels s.name idx0 hops) ≤ 500)
    (hin : li * tm0.size + ldr4_offset hops + tmL.size ≤ s.mem.length)
    (hget : cfg.tags.get? s.name = some info) (hk : info.core.tagType = .struct)
    (hpath : ldr4_InfoPath info.members (hops.map (·.m.name)) leaf)
    (hleaf : ldr4_StructMemberOf leaf si (.structTag ms [] priv tmL.size)) (hsisz : si.size = tmL.size)
    (hnd : si.name ≠ Drv.nm "DWORD")
    (hshape : ldr4_Nested (d + 1) (.structTag ms [] priv tmL.size))
    (hattrs : si.attributes = (ms.visible priv).map (·.1))
    (hC : tmL.size + ldr4_pathSize (ldr4_levels s.name idx0 hops) + 8 ≤ w.drv.connectionSize)
    (hT : tmL.size + ldr4_pathSize (ldr4_levels s.name idx0 hops) + 10 ≤ conn.size) :
    ∃ w' frm, read hookAll cfg w [renderTag (ldr4_levels s.name idx0 hops)] =
        (w', .ok [{ tag := renderTag (ldr4_levels s.name idx0 hops),
                    value := ldr4_held (d + 1) (.structTag ms [] priv tmL.size) s.mem (li * tm0.size + ldr4_offset hops),
                    type := some si.name, error := none }]) ∧
      w'.drv = w.drv.nextSeq.2 ∧ w'.net.sent = w.net.sent ++ [frm] ∧
      w'.net.target.ext = { w.net.target.ext with logix := some { st with ctr := st.ctr + 1 } } ∧
      ldr_Healthy w' sess cidb { conn with lastSeq := some w.drv.nextSeq.1 } := by
  have hpos : 0 < tmL.size := by
    have h := hshape
    simp only [ldr4_Nested] at h
    rcases h with he | ⟨_, _, he, _⟩ | ⟨_, _, _, he, hp, _⟩
    · rcases he with he | ⟨_, he⟩ | he | he <;> cases he
    · cases he
    · cases he; exact hp
  have hel : st.proj.elSize (.struct tidL) = some tmL.size := by simp [Project.elSize, htmL]
  have hreply := ldr4_parseReadReply_nested_at st.proj tidL leaf si d ms priv tmL.size s.mem (li * tm0.size + ldr4_offset hops)
    hleaf.ty hleaf.typeName hleaf.struct hnd hshape hin hattrs
  have hrs : tagReturnSize leaf 1 = tmL.size := by simp [tagReturnSize, hleaf.struct, hsisz]
  exact ldr4_read_path_any cfg w sess cidb conn st s tid0 tm0 idx0 li hops (.struct tidL) info leaf tmL.size _ si.name hw
    hlogix hs hbytes huniqN huniqI hl0 hty htm0 hidx hne hchain hlv hnum hsize (fun b e => by cases e) hel hpos hin hget hk
    hpath (by rw [hleaf.typeName]; exact hnd) hleaf.instanceId hreply (by simp [ldr4_held]) (by rw [hrs]; omega) (by omega)

/-- C01, driver level, whole NESTED structures: `read("outer")` for a controller-scope structure tag whose definition
    contains structure members and arrays (of elementary types or of structures), to any depth — the `type_class` of
    its entry in the tag database is a nested `StructTag` without packed BOOLs (`ldr4_Nested (d + 1)`: members at
    non-decreasing offsets, not overlapping, inside the structure size, distinct names; recursively for the members' own
    classes) of the template's size, and the visible attributes of the data type are its visible members: the Tag carries
    the nested dict the definition dictates for the tag's memory,
        `ldr4_held (d + 1) type_class mem 0`
    — the dict of the visible members in definition order; a member of structure type is again such a dict, read at
    the SUM of the offsets; an array member is the list of its elements; an elementary member is what the codec decodes
    from the memory at its absolute offset — and the name of the structure type. One plain Read Tag; the reply starts
    with the structure marker `A0 02` + handle. Hypotheses on world and symbol as in `read_struct_e2e`.
    (The codec side of this statement is `ldr4_decode_held`; with `structTag_roundtrip_nested` it also says: memory
    that is the encoding of a nested dict reads back as that dict.) -/
theorem read_nested_struct_e2e (cfg : Cfg) (w : Cli.World Ext) (sess : Nat) (cidb : Bytes) (conn : Conn)
    (st : LState) (s : Symbol) (tid : Nat) (tm : Template) (info : TagInfo) (si : StructInfo)
    (d : Nat) (ms : TMembers) (priv : List Name)
    (hw : ldr_Healthy w sess cidb conn) (hlogix : w.net.target.ext.logix = some st)
    (hs : s ∈ st.proj.controller)
    (hbytes : ∀ s' ∈ st.proj.controller, ∀ ch ∈ s'.name, ch < 256)
    (huniqN : ∀ s' ∈ st.proj.controller, s'.name = s.name → s' = s)
    (huniqI : ∀ s' ∈ st.proj.controller, s'.inst = s.inst → s' = s)
    (hid : PlainIdent s.name) (hinst : s.inst < 2 ^ 32)
    (hty : elTyOfWord s.symbolType = .struct tid) (htm : st.proj.template? tid = some tm)
    (hlen : s.mem.length = tm.size) (hpos : 0 < tm.size)
    (hget : cfg.tags.get? s.name = some info) (hinfo : ldr3_StructOf info si (.structTag ms [] priv tm.size) s.inst)
    (hnd : si.name ≠ Drv.nm "DWORD")
    (hshape : ldr4_Nested (d + 1) (.structTag ms [] priv tm.size))
    (hattrs : si.attributes = (ms.visible priv).map (·.1))
    (hC : si.size + s.name.length + 20 ≤ w.drv.connectionSize) (hT : tm.size + s.name.length + 20 ≤ conn.size) :
    ∃ w' frm, read hookAll cfg w [s.name] =
        (w', .ok [{ tag := s.name, value := ldr4_held (d + 1) (.structTag ms [] priv tm.size) s.mem 0,
                    type := some si.name, error := none }]) ∧
      w'.drv = w.drv.nextSeq.2 ∧ w'.net.sent = w.net.sent ++ [frm] ∧
      w'.net.target.ext = { w.net.target.ext with logix := some { st with ctr := st.ctr + 1 } } ∧
      ldr_Healthy w' sess cidb { conn with lastSeq := some w.drv.nextSeq.1 } := by
  have hreply := ldr4_parseReadReply_nested st.proj tid info si d ms priv tm.size s.mem hinfo.ty hinfo.typeName hinfo.struct
    hnd hshape hlen hattrs
  exact ldr3_read_structTag cfg w sess cidb conn st s tid tm info si _ _ _ hw hlogix hs hbytes huniqN huniqI hid hinst hty
    htm hlen hpos hget hinfo hnd hreply (by simp [ldr4_held]) hC hT

/-- C01, driver level, whole nested structures, read-back form (composition with `structTag_roundtrip_nested`; this
    form also covers definitions WITH packed BOOLs): if the memory of a controller-scope structure tag is the
    encoding of a nested template dict `kvs` — `TagDict (TagCanonN n)`: exactly the visible members in definition
    order followed by the BOOL aliases, every member value canonical for its class or again such a dict, to depth `n` —
    under a well-formed layout (`TagLayout`), and the visible attributes of the data type are those keys, then
    `read("outer")` returns exactly that dict, with the name of the structure type. One plain Read Tag.
    Hypotheses on world and symbol as in `read_struct_e2e`. (`TagCanonN` has structures inside structures but no ARRAYS
    of structures as members; for those the decode form `read_nested_struct_e2e` applies.) -/
theorem read_nested_struct_roundtrip_e2e (cfg : Cfg) (w : Cli.World Ext) (sess : Nat) (cidb : Bytes) (conn : Conn)
    (st : LState) (s : Symbol) (tid : Nat) (tm : Template) (info : TagInfo) (si : StructInfo)
    (n : Nat) (ms : TMembers) (bits : List (Name × Nat × Nat)) (priv : List Name) (kvs : List (Name × PyVal))
    (hw : ldr_Healthy w sess cidb conn) (hlogix : w.net.target.ext.logix = some st)
    (hs : s ∈ st.proj.controller)
    (hbytes : ∀ s' ∈ st.proj.controller, ∀ ch ∈ s'.name, ch < 256)
    (huniqN : ∀ s' ∈ st.proj.controller, s'.name = s.name → s' = s)
    (huniqI : ∀ s' ∈ st.proj.controller, s'.inst = s.inst → s' = s)
    (hid : PlainIdent s.name) (hinst : s.inst < 2 ^ 32)
    (hty : elTyOfWord s.symbolType = .struct tid) (htm : st.proj.template? tid = some tm)
    (hget : cfg.tags.get? s.name = some info) (hinfo : ldr3_StructOf info si (.structTag ms bits priv tm.size) s.inst)
    (hnd : si.name ≠ Drv.nm "DWORD")
    (hl : TagLayout ms bits priv tm.size) (hk : TagDict (TagCanonN n) ms bits priv kvs)
    (henc : encode (.structTag ms bits priv tm.size) (.dict kvs) = .ok s.mem)
    (hattrs : si.attributes = (ms.visible priv).map (·.1) ++ bits.map (·.1))
    (hC : si.size + s.name.length + 20 ≤ w.drv.connectionSize) (hT : tm.size + s.name.length + 20 ≤ conn.size) :
    ∃ w' frm, read hookAll cfg w [s.name] =
        (w', .ok [{ tag := s.name, value := .dict kvs, type := some si.name, error := none }]) ∧
      w'.drv = w.drv.nextSeq.2 ∧ w'.net.sent = w.net.sent ++ [frm] ∧
      w'.net.target.ext = { w.net.target.ext with logix := some { st with ctr := st.ctr + 1 } } ∧
      ldr_Healthy w' sess cidb { conn with lastSeq := some w.drv.nextSeq.1 } := by
  have hw' : fixedWidth (.structTag ms bits priv tm.size) = some tm.size := by simp [fixedWidth, hl.size_pos]
  obtain ⟨enc, he, hel, hd⟩ := structTag_roundtrip_nested (n + 1) (.structTag ms bits priv tm.size) (.dict kvs) tm.size
    (Or.inr ⟨ms, bits, priv, tm.size, kvs, rfl, rfl, hl, hk⟩) hw'
  rw [henc] at he
  cases he
  have hdec := hd []
  rw [List.append_nil] at hdec
  have hkeys : kvs.map (·.1) = si.attributes := by rw [hattrs]; exact hk.1
  have hnodup : si.attributes.Nodup := by
    rw [hattrs, List.nodup_append]
    refine ⟨ldr4_visible_nodup ms priv tm.size hl.members, hl.bit_names_nodup, ?_⟩
    intro a ha b hb e
    obtain ⟨m, hm, rfl⟩ := List.mem_map.1 ha
    obtain ⟨b', hb', rfl⟩ := List.mem_map.1 hb
    exact hl.bit_names_fresh b' hb' (by
      rw [← e]; exact List.mem_map.2 ⟨m, (List.mem_filter.1 hm).1, rfl⟩)
  exact read_struct_e2e_flat cfg w sess cidb conn st s tid tm info si ms bits priv tm.size (.dict kvs) kvs [] hw hlogix hs
    hbytes huniqN huniqI hid hinst hty htm hel hl.size_pos hget hinfo hnd hdec rfl hkeys hnodup hC hT

/-- C01, driver level, slices of arrays of structures: `read("arr[i]{n}")` with `n ≥ 2` for a controller-scope
    ONE-dimensional array of `dim` structures (flat or nested: `ldr4_Nested`), `i + n ≤ dim`, when the answer fits the
    connection: ONE error-free Tag named `arr[i]` (without the `{n}` suffix) whose value is the LIST of `n` dicts,
    dict `k` being what the definition dictates (`ldr4_held`) for the bytes of the array's memory from byte
    `(i + k) · (structure size)` on, with type string `T[n]`. One plain Read Tag for `n` elements (request path: the
    symbol instance or name, and the index as member id); the reply carries the marker `A0 02` + handle once, then
    `n · size` bytes. The dicts of array elements are NOT re-keyed by the data type's visible attributes
    (`parse_read_reply` does that for single structures only): each has every non-hidden member, in definition order.
    Hypotheses as in `read_atomic_slice_e2e`, with the structure entry of the tag database (`ldr3_StructOf` with the
    `ArrayType` of the `StructTag`) and `hsisz` the uploaded `structure_size` = the template's size. -/
theorem read_struct_array_slice_e2e (cfg : Cfg) (w : Cli.World Ext) (sess : Nat) (cidb : Bytes) (conn : Conn)
    (st : LState) (s : Symbol) (tid : Nat) (tm : Template) (info : TagInfo) (si : StructInfo) (d dim i n : Nat)
    (ms : TMembers) (priv : List Name)
    (hw : ldr_Healthy w sess cidb conn) (hlogix : w.net.target.ext.logix = some st)
    (hs : s ∈ st.proj.controller)
    (hbytes : ∀ s' ∈ st.proj.controller, ∀ ch ∈ s'.name, ch < 256)
    (huniqN : ∀ s' ∈ st.proj.controller, s'.name = s.name → s' = s)
    (huniqI : ∀ s' ∈ st.proj.controller, s'.inst = s.inst → s' = s)
    (hid : PlainIdent s.name) (hinst : s.inst < 2 ^ 32)
    (hty : elTyOfWord s.symbolType = .struct tid) (htm : st.proj.template? tid = some tm) (hpos : 0 < tm.size)
    (hdims : s.dims.filter (· != 0) = [dim]) (hlen : s.mem.length = dim * tm.size)
    (hget : cfg.tags.get? s.name = some info)
    (hinfo : ldr3_StructOf info si (.arr (.fixed dim) (.structTag ms [] priv tm.size)) s.inst)
    (hsisz : si.size = tm.size) (hnd : si.name ≠ Drv.nm "DWORD")
    (hshape : ldr4_Nested (d + 1) (.structTag ms [] priv tm.size))
    (hi32 : i < 2 ^ 32) (hn : 2 ≤ n) (hn16 : n ≤ 65535) (hin : i + n ≤ dim)
    (hC : n * tm.size + s.name.length + 26 ≤ w.drv.connectionSize)
    (hT : n * tm.size + s.name.length + 26 ≤ conn.size) :
    ∃ w' frm, read hookAll cfg w [s.name ++ [91] ++ decRender i ++ [93] ++ [123] ++ decRender n ++ [125]] =
        (w', .ok [{ tag := s.name ++ [91] ++ decRender i ++ [93],
                    value := .list ((List.range n).map fun k =>
                      ldr4_held (d + 1) (.structTag ms [] priv tm.size) s.mem ((i + k) * tm.size)),
                    type := some (si.name ++ [91] ++ renderDec (n : Nat) ++ [93]), error := none }]) ∧
      w'.drv = w.drv.nextSeq.2 ∧ w'.net.sent = w.net.sent ++ [frm] ∧
      w'.net.target.ext = { w.net.target.ext with logix := some { st with ctr := st.ctr + 1 } } ∧
      ldr_Healthy w' sess cidb { conn with lastSeq := some w.drv.nextSeq.1 } := by
  have h := ldr4_read_structArr cfg w sess cidb conn st s tid tm info si d dim ms priv [i] i (some n) (Or.inl rfl) hw hlogix
    hs hbytes huniqN huniqI hid hinst hty htm hpos hdims hlen hget hinfo hsisz hnd hshape hi32 (by simp; omega) hn16 hin hC hT
  rw [ldr2_tagStr_slice, ldr2_renderLevel_elem] at h
  simp only [Option.getD_some] at h
  rw [ldr4_value_many _ (by simp [ldr4_elems]; omega), ldr2_typeStr_many si.name n hn] at h
  have he : ldr4_elems (d + 1) (.structTag ms [] priv tm.size) tm.size s.mem (i * tm.size) n =
      (List.range n).map fun k => ldr4_held (d + 1) (.structTag ms [] priv tm.size) s.mem ((i + k) * tm.size) := by
    unfold ldr4_elems
    apply List.map_congr_left
    intro k _
    rw [Nat.add_mul]
  rw [he] at h
  exact h

/-- C01, driver level, one element of an array of structures: `read("arr[i]")` returns the dict the definition
    dictates for the bytes from byte `i · (structure size)` on, typed `T`; like the elements of a slice it is not
    re-keyed by the visible attributes -/
theorem read_struct_array_element_e2e (cfg : Cfg) (w : Cli.World Ext) (sess : Nat) (cidb : Bytes) (conn : Conn)
    (st : LState) (s : Symbol) (tid : Nat) (tm : Template) (info : TagInfo) (si : StructInfo) (d dim i : Nat)
    (ms : TMembers) (priv : List Name)
    (hw : ldr_Healthy w sess cidb conn) (hlogix : w.net.target.ext.logix = some st)
    (hs : s ∈ st.proj.controller)
    (hbytes : ∀ s' ∈ st.proj.controller, ∀ ch ∈ s'.name, ch < 256)
    (huniqN : ∀ s' ∈ st.proj.controller, s'.name = s.name → s' = s)
    (huniqI : ∀ s' ∈ st.proj.controller, s'.inst = s.inst → s' = s)
    (hid : PlainIdent s.name) (hinst : s.inst < 2 ^ 32)
    (hty : elTyOfWord s.symbolType = .struct tid) (htm : st.proj.template? tid = some tm) (hpos : 0 < tm.size)
    (hdims : s.dims.filter (· != 0) = [dim]) (hlen : s.mem.length = dim * tm.size)
    (hget : cfg.tags.get? s.name = some info)
    (hinfo : ldr3_StructOf info si (.arr (.fixed dim) (.structTag ms [] priv tm.size)) s.inst)
    (hsisz : si.size = tm.size) (hnd : si.name ≠ Drv.nm "DWORD")
    (hshape : ldr4_Nested (d + 1) (.structTag ms [] priv tm.size))
    (hi32 : i < 2 ^ 32) (hin : i < dim)
    (hC : tm.size + s.name.length + 26 ≤ w.drv.connectionSize)
    (hT : tm.size + s.name.length + 26 ≤ conn.size) :
    ∃ w' frm, read hookAll cfg w [s.name ++ [91] ++ decRender i ++ [93]] =
        (w', .ok [{ tag := s.name ++ [91] ++ decRender i ++ [93],
                    value := ldr4_held (d + 1) (.structTag ms [] priv tm.size) s.mem (i * tm.size),
                    type := some si.name, error := none }]) ∧
      w'.drv = w.drv.nextSeq.2 ∧ w'.net.sent = w.net.sent ++ [frm] ∧
      w'.net.target.ext = { w.net.target.ext with logix := some { st with ctr := st.ctr + 1 } } ∧
      ldr_Healthy w' sess cidb { conn with lastSeq := some w.drv.nextSeq.1 } := by
  have h := ldr4_read_structArr cfg w sess cidb conn st s tid tm info si d dim ms priv [i] i none (Or.inl rfl) hw hlogix
    hs hbytes huniqN huniqI hid hinst hty htm hpos hdims hlen hget hinfo hsisz hnd hshape hi32 (by simp) (by simp)
    (by simp only [Option.getD_none]; omega) (by simpa using hC) (by simpa using hT)
  rw [ldr2_tagStr_elem, ldr2_renderLevel_elem] at h
  simpa [ldr4_elems, ldr2_value, ldr2_typeStr] using h

/-! ### non-vacuity: all hypotheses instantiated on a concrete NESTED project and a world obtained by running the model -/

namespace Ex4
open Pycomm.Lgx.Drv.Ex

/-- template `Inner { x : INT @0; y : REAL @4 }`, 8 bytes -/
def tInner : Template :=
  { id := 0x210, handle := 0x1111, size := 8, nameField := [73, 110, 110, 101, 114, 59, 110],
    members := [⟨Drv.nm "x", 0, 0xC3, 0⟩, ⟨Drv.nm "y", 0, 0xCA, 4⟩] }
/-- template `Outer { a : DINT @0; inn : Inner @4; arr : Inner[2] @12 }`, 28 bytes -/
def tOuter : Template :=
  { id := 0x211, handle := 0x2222, size := 28, nameField := [79, 117, 116, 101, 114, 59, 110],
    members := [⟨Drv.nm "a", 0, 0xC4, 0⟩, ⟨Drv.nm "inn", 0, 0x8210, 4⟩, ⟨Drv.nm "arr", 2, 0x8210, 12⟩] }

/-- template `Mid { a : DINT @0; inn : Inner @4 }`, 12 bytes -/
def tMid : Template :=
  { id := 0x212, handle := 0x3333, size := 12, nameField := [77, 105, 100, 59, 110],
    members := [⟨Drv.nm "a", 0, 0xC4, 0⟩, ⟨Drv.nm "inn", 0, 0x8210, 4⟩] }

/-- the bytes of an `Inner` {x, y} (y given by its IEEE-754 bits) and of an `Outer` {a, inn = {a+1, 1.0}, arr = [{a+2, 2.0}, {a+3, 3.0}]} -/
def innerBytes (x y : Nat) : Bytes := le 2 x ++ [0, 0] ++ le 4 y
def outerBytes (a : Nat) : Bytes :=
  le 4 a ++ innerBytes (a + 1) 0x3F800000 ++ innerBytes (a + 2) 0x40000000 ++ innerBytes (a + 3) 0x40400000

/-- `o1 : Outer`, `oa : Outer[3]`, `ia : Inner[4]`, `m1 : Mid` = {a: 7, inn: {x: 8, y: 1.0}} -/
def symM1 : Symbol :=
  { inst := 33, name := Drv.nm "m1", symbolType := 0x8212, dims := [0, 0, 0], attr3 := 0, attr5 := 0, attr6 := 2 ^ 26,
    access := 0, mem := le 4 7 ++ innerBytes 8 0x3F800000 }
def symO1 : Symbol :=
  { inst := 30, name := Drv.nm "o1", symbolType := 0x8211, dims := [0, 0, 0], attr3 := 0, attr5 := 0, attr6 := 2 ^ 26,
    access := 0, mem := outerBytes 100 }
def symOA : Symbol :=
  { inst := 31, name := Drv.nm "oa", symbolType := 0xA211, dims := [3, 0, 0], attr3 := 0, attr5 := 0, attr6 := 2 ^ 26,
    access := 0, mem := outerBytes 200 ++ outerBytes 300 ++ outerBytes 400 }
def symIA : Symbol :=
  { inst := 32, name := Drv.nm "ia", symbolType := 0xA210, dims := [4, 0, 0], attr3 := 0, attr5 := 0, attr6 := 2 ^ 26,
    access := 0, mem := innerBytes 11 0x3F800000 ++ innerBytes 12 0x40000000 ++ innerBytes 13 0x40400000 ++ innerBytes 14 0x40800000 }
def proj4 : Project :=
  { templates := [tInner, tOuter, tMid], controller := [sym, symO1, symOA, symIA, symM1], programs := [] }
def state4 : LState := { proj := proj4 }
def world04 : Cli.World Ext :=
  { drv := {}, net := { target := { base := base, ext := { logix := some state4 } } } }
/-- after `open()` and the Forward Open of `with_forward_open`: the model is run -/
def world4 : Cli.World Ext :=
  (Cli.ensureForwardOpen hookAll Cli.FUEL (Cli.openDrv hookAll world04 [1, 2, 3, 4, 5, 6, 7, 8]).1).1
/-- the tag database the upload delivers for this project (`open_tags_nested_project`) -/
def cfg4 : Cfg := { tags := (tagDbOf proj4 false).getD [] }

/-- the entries of that database, written out -/
def minfoX : TagInfo :=
  .mk { tagType := .atomic, dataTypeName := Drv.nm "INT", ty := .int .int, offset := some 0, array := some 0 } .nil
def minfoY : TagInfo :=
  .mk { tagType := .atomic, dataTypeName := Drv.nm "REAL", ty := .real, offset := some 4, array := some 0 } .nil
def membersInner : ITags := .cons (Drv.nm "x") minfoX (.cons (Drv.nm "y") minfoY .nil)
def siInner : StructInfo := { name := Drv.nm "Inner", attributes := [Drv.nm "x", Drv.nm "y"], size := 8, handle := 0x1111, string := none }
def msInner : TMembers := .cons (Drv.nm "x") (.int .int) 0 (.cons (Drv.nm "y") .real 4 .nil)
def tyInner : Ty := .structTag msInner [] [] 8
def minfoA : TagInfo :=
  .mk { tagType := .atomic, dataTypeName := Drv.nm "DINT", ty := .int .dint, offset := some 0, array := some 0 } .nil
def minfoInn : TagInfo :=
  .mk { tagType := .struct, dataTypeName := Drv.nm "Inner", ty := tyInner, offset := some 4, array := some 0,
        struct := some siInner } membersInner
def minfoArr : TagInfo :=
  .mk { tagType := .struct, dataTypeName := Drv.nm "Inner", ty := .arr (.fixed 2) tyInner, offset := some 12, array := some 2,
        struct := some siInner } membersInner
def membersOuter : ITags := .cons (Drv.nm "a") minfoA (.cons (Drv.nm "inn") minfoInn (.cons (Drv.nm "arr") minfoArr .nil))
def siOuter : StructInfo :=
  { name := Drv.nm "Outer", attributes := [Drv.nm "a", Drv.nm "inn", Drv.nm "arr"], size := 28, handle := 0x2222, string := none }
def msOuter : TMembers :=
  .cons (Drv.nm "a") (.int .dint) 0 (.cons (Drv.nm "inn") tyInner 4 (.cons (Drv.nm "arr") (.arr (.fixed 2) tyInner) 12 .nil))
def tyOuter : Ty := .structTag msOuter [] [] 28
def infoO1 : TagInfo :=
  .mk { tagType := .struct, dataTypeName := Drv.nm "Outer", ty := tyOuter, dim := 0, dimensions := [0, 0, 0],
        instanceId := some 30, struct := some siOuter } membersOuter
def infoOA : TagInfo :=
  .mk { tagType := .struct, dataTypeName := Drv.nm "Outer", ty := .arr (.fixed 3) tyOuter, dim := 1, dimensions := [3, 0, 0],
        instanceId := some 31, struct := some siOuter } membersOuter
def infoIA : TagInfo :=
  .mk { tagType := .struct, dataTypeName := Drv.nm "Inner", ty := .arr (.fixed 4) tyInner, dim := 1, dimensions := [4, 0, 0],
        instanceId := some 32, struct := some siInner } membersInner

def siMid : StructInfo :=
  { name := Drv.nm "Mid", attributes := [Drv.nm "a", Drv.nm "inn"], size := 12, handle := 0x3333, string := none }
def msMid : TMembers := .cons (Drv.nm "a") (.int .dint) 0 (.cons (Drv.nm "inn") tyInner 4 .nil)
def infoM1 : TagInfo :=
  .mk { tagType := .struct, dataTypeName := Drv.nm "Mid", ty := .structTag msMid [] [] 12, dim := 0, dimensions := [0, 0, 0],
        instanceId := some 33, struct := some siMid } (.cons (Drv.nm "a") minfoA (.cons (Drv.nm "inn") minfoInn .nil))

private theorem getM1 : cfg4.tags.get? (Drv.nm "m1") = some infoM1 := by rfl
private theorem getO1 : cfg4.tags.get? (Drv.nm "o1") = some infoO1 := by rfl
private theorem getOA : cfg4.tags.get? (Drv.nm "oa") = some infoOA := by rfl
private theorem getIA : cfg4.tags.get? (Drv.nm "ia") = some infoIA := by rfl


/-- comparison of Python values through their rendering (for the `#guard`s) -/
def pvEq (a b : PyVal) : Bool := (Std.Format.pretty (repr a)) == (Std.Format.pretty (repr b))
/-- the model run returns one error-free Tag with that name, type and value -/
def okV (r : Except Exn (List LTag)) (tag : String) (ty : String) (v : PyVal) : Bool :=
  ok1 r tag ty (fun x => pvEq x v)

def vInner (x : Int) (y : Nat) : PyVal := .dict [(Drv.nm "x", .int x), (Drv.nm "y", .float y)]
def vOuter (a : Int) : PyVal :=
  .dict [(Drv.nm "a", .int a), (Drv.nm "inn", vInner (a + 1) 4607182418800017408),
         (Drv.nm "arr", .list [vInner (a + 2) 4611686018427387904, vInner (a + 3) 4613937818241073152])]

-- evaluation checks of the run (interpreter): the model run against the right-hand sides of the theorems
#guard world4.drv.targetIsConnected && world4.net.target.base.conns == [conn]
#guard cfg4.tags.map (·.1) == [Drv.nm "abc", Drv.nm "o1", Drv.nm "oa", Drv.nm "ia", Drv.nm "m1"]
#guard okV (read hookAll cfg4 world4 [Drv.nm "o1.inn.x"]).2 "o1.inn.x" "INT" (.int 101)
#guard okV (read hookAll cfg4 world4 [Drv.nm "o1.inn.y"]).2 "o1.inn.y" "REAL" (ldr4_leafAt .real symO1.mem 8)
#guard okV (read hookAll cfg4 world4 [Drv.nm "o1.arr[1].x"]).2 "o1.arr[1].x" "INT" (.int 103)
#guard okV (read hookAll cfg4 world4 [Drv.nm "oa[2].arr[1].x"]).2 "oa[2].arr[1].x" "INT" (ldr4_leafAt (.int .int) symOA.mem 76)
#guard okV (read hookAll cfg4 world4 [Drv.nm "oa[2].arr[1].x"]).2 "oa[2].arr[1].x" "INT" (.int 403)
#guard okV (read hookAll cfg4 world4 [Drv.nm "ia[2].x"]).2 "ia[2].x" "INT" (.int 13)
#guard okV (read hookAll cfg4 world4 [Drv.nm "oa[1].a"]).2 "oa[1].a" "DINT" (.int 300)
#guard okV (read hookAll cfg4 world4 [Drv.nm "o1.inn"]).2 "o1.inn" "Inner" (ldr4_held 1 tyInner symO1.mem 4)
#guard okV (read hookAll cfg4 world4 [Drv.nm "o1"]).2 "o1" "Outer" (ldr4_held 3 tyOuter symO1.mem 0)
#guard pvEq (ldr4_held 3 tyOuter symO1.mem 0) (vOuter 100) && pvEq (ldr4_held 1 tyInner symO1.mem 4) (vInner 101 4607182418800017408)
#guard okV (read hookAll cfg4 world4 [Drv.nm "ia[1]{2}"]).2 "ia[1]" "Inner[2]"
  (.list ((List.range 2).map fun k => ldr4_held 1 tyInner symIA.mem ((1 + k) * 8)))
#guard okV (read hookAll cfg4 world4 [Drv.nm "oa[1]{2}"]).2 "oa[1]" "Outer[2]" (.list [vOuter 300, vOuter 400])
#guard okV (read hookAll cfg4 world4 [Drv.nm "oa[1]"]).2 "oa[1]" "Outer" (ldr4_held 3 tyOuter symOA.mem 28)
#guard (read hookAll cfg4 world4 [Drv.nm "o1.inn.x"]).1.net.sent.length == world4.net.sent.length + 1

private theorem healthy4 : ldr_Healthy world4 4097 [238, 255, 192, 0] conn :=
  ⟨by decide +kernel, by decide +kernel, by decide +kernel, by decide +kernel, by decide +kernel, by decide,
   by decide +kernel, by decide +kernel, by decide, by decide +kernel, by decide +kernel, by decide +kernel⟩

private theorem mem_ctl4 (s' : Symbol) (h : s' ∈ proj4.controller) : s' = sym ∨ s' = symO1 ∨ s' = symOA ∨ s' = symIA ∨ s' = symM1 := by
  simpa [proj4] using h

private theorem bytes4 (s' : Symbol) (h : s' ∈ state4.proj.controller) : ∀ ch ∈ s'.name, ch < 256 := by
  rcases mem_ctl4 s' h with rfl | rfl | rfl | rfl | rfl <;> decide

private theorem uniqN4 (s : Symbol) (hs : s ∈ state4.proj.controller) (s' : Symbol) (h : s' ∈ state4.proj.controller)
    (e : s'.name = s.name) : s' = s := by
  rcases mem_ctl4 s hs with rfl | rfl | rfl | rfl | rfl <;> rcases mem_ctl4 s' h with rfl | rfl | rfl | rfl | rfl <;>
    first | rfl | (exfalso; revert e; decide)

private theorem uniqI4 (s : Symbol) (hs : s ∈ state4.proj.controller) (s' : Symbol) (h : s' ∈ state4.proj.controller)
    (e : s'.inst = s.inst) : s' = s := by
  rcases mem_ctl4 s hs with rfl | rfl | rfl | rfl | rfl <;> rcases mem_ctl4 s' h with rfl | rfl | rfl | rfl | rfl <;>
    first | rfl | (exfalso; revert e; decide)

private theorem hsO1 : symO1 ∈ state4.proj.controller := by simp [state4, proj4]
private theorem hsOA : symOA ∈ state4.proj.controller := by simp [state4, proj4]
private theorem hsIA : symIA ∈ state4.proj.controller := by simp [state4, proj4]
private theorem hsM1 : symM1 ∈ state4.proj.controller := by simp [state4, proj4]

def mA : MemberDef := ⟨Drv.nm "a", 0, 0xC4, 0⟩
def mInn : MemberDef := ⟨Drv.nm "inn", 0, 0x8210, 4⟩
def mArr : MemberDef := ⟨Drv.nm "arr", 2, 0x8210, 12⟩
def mX : MemberDef := ⟨Drv.nm "x", 0, 0xC3, 0⟩
def mY : MemberDef := ⟨Drv.nm "y", 0, 0xCA, 4⟩

private theorem mem_outer (m' : MemberDef) (h : m' ∈ tOuter.members) : m' = mA ∨ m' = mInn ∨ m' = mArr := by
  simpa [tOuter, mA, mInn, mArr] using h
private theorem mem_inner (m' : MemberDef) (h : m' ∈ tInner.members) : m' = mX ∨ m' = mY := by
  simpa [tInner, mX, mY] using h

private theorem outer_bytes (m' : MemberDef) (h : m' ∈ tOuter.members) : ∀ ch ∈ m'.name, ch < 256 := by
  rcases mem_outer m' h with rfl | rfl | rfl <;> decide
private theorem inner_bytes (m' : MemberDef) (h : m' ∈ tInner.members) : ∀ ch ∈ m'.name, ch < 256 := by
  rcases mem_inner m' h with rfl | rfl <;> decide
private theorem outer_uniq (m : MemberDef) (hm : m ∈ tOuter.members) (m' : MemberDef) (h : m' ∈ tOuter.members)
    (e : m'.name = m.name) : m' = m := by
  rcases mem_outer m hm with rfl | rfl | rfl <;> rcases mem_outer m' h with rfl | rfl | rfl <;>
    first | rfl | (exfalso; revert e; decide)
private theorem inner_uniq (m : MemberDef) (hm : m ∈ tInner.members) (m' : MemberDef) (h : m' ∈ tInner.members)
    (e : m'.name = m.name) : m' = m := by
  rcases mem_inner m hm with rfl | rfl <;> rcases mem_inner m' h with rfl | rfl <;>
    first | rfl | (exfalso; revert e; decide)

/-- the shapes of the uploaded type classes -/
private theorem okInner : TagMembersOk 8 msInner 0 := by
  simp [msInner, TagMembersOk, fixedWidth, IntK.size, TMembers.names, TMembers.toList, Drv.nm]
private theorem nestedInner : ldr4_Nested 1 tyInner :=
  Or.inr (Or.inr ⟨msInner, [], 8, rfl, by decide, okInner, by
    intro m hm
    simp only [msInner, TMembers.toList, List.mem_cons, List.not_mem_nil, or_false] at hm
    rcases hm with rfl | rfl
    · exact Or.inr (Or.inl ⟨_, rfl⟩)
    · exact Or.inr (Or.inr (Or.inl rfl))⟩)
private theorem okOuter : TagMembersOk 28 msOuter 0 := by
  simp [msOuter, tyInner, TagMembersOk, fixedWidth, IntK.size, TMembers.names, TMembers.toList, Drv.nm]
private theorem nestedOuter : ldr4_Nested 3 tyOuter :=
  Or.inr (Or.inr ⟨msOuter, [], 28, rfl, by decide, okOuter, by
    intro m hm
    simp only [msOuter, TMembers.toList, List.mem_cons, List.not_mem_nil, or_false] at hm
    rcases hm with rfl | rfl | rfl
    · exact Or.inl (Or.inr (Or.inl ⟨_, rfl⟩))
    · exact ldr4_Nested_mono 1 _ nestedInner
    · exact Or.inr (Or.inl ⟨2, tyInner, rfl, rfl, nestedInner⟩)⟩)



private theorem leafX : ldr4_LeafOf minfoX (Drv.nm "INT") (.int .int) := ⟨rfl, rfl, Or.inl rfl, rfl, rfl⟩
private theorem leafY : ldr4_LeafOf minfoY (Drv.nm "REAL") .real := ⟨rfl, rfl, Or.inl rfl, rfl, rfl⟩

/-- every hypothesis of `read_nested_member2_e2e` holds for the concrete world: `read("o1.inn.x")` returns 101 as `INT`,
    decoded at byte 4 + 0 of `o1` -/
example : ∃ w' frm, read hookAll cfg4 world4 [Drv.nm "o1.inn.x"] =
      (w', .ok [{ tag := Drv.nm "o1.inn.x", value := .int 101, type := some (Drv.nm "INT"), error := none }]) ∧
    w'.drv = world4.drv.nextSeq.2 ∧ w'.net.sent = world4.net.sent ++ [frm] ∧
    w'.net.target.ext = { world4.net.target.ext with logix := some { state4 with ctr := state4.ctr + 1 } } ∧
    ldr_Healthy w' 4097 [238, 255, 192, 0] { conn with lastSeq := some world4.drv.nextSeq.1 } :=
  read_nested_member2_e2e cfg4 world4 4097 [238, 255, 192, 0] conn state4 symO1 0x211 0x210 tOuter tInner mInn mX
    infoO1 minfoInn minfoX 0xC3 2 (Drv.nm "INT") (.int .int) (.int 101) [0, 0, 0, 0, 128, 63, 102, 0, 0, 0, 0, 0, 0, 64, 103, 0, 0, 0, 0, 0, 64, 64]
    healthy4 (by rfl) hsO1 bytes4 (uniqN4 symO1 hsO1) (uniqI4 symO1 hsO1) ⟨by decide, by decide, by decide⟩
    (by decide) (by rfl)                                                   -- hty htm1
    (by simp [tOuter, mInn]) outer_bytes (outer_uniq mInn (by simp [tOuter, mInn])) ⟨by decide, by decide, by decide⟩
    (by decide) (by rfl)                                                   -- hm1ty htm2
    (by simp [tInner, mX]) inner_bytes (inner_uniq mX (by simp [tInner, mX])) ⟨by decide, by decide, by decide⟩
    (by decide) (by decide) (by decide)                                    -- hnum hm2ty hnb
    rfl rfl rfl (by decide) (by decide)                                    -- hat hb hsz hnl hin
    getO1 rfl (by rfl) rfl (by rfl) leafX                                  -- hget hk hm1get hk1 hm2get hleaf
    (by rfl)                                                               -- hdec
    (by decide +kernel) (by decide)

/-- … of `read_nested_member_e2e` (the path as a list of steps): `read("o1.inn.y")` returns 1.0 as `REAL`, decoded at
    byte 4 + 4 -/
example : ∃ w' frm, read hookAll cfg4 world4 [Drv.nm "o1.inn.y"] =
      (w', .ok [{ tag := Drv.nm "o1.inn.y", value := .float 4607182418800017408, type := some (Drv.nm "REAL"), error := none }]) ∧
    w'.drv = world4.drv.nextSeq.2 ∧ w'.net.sent = world4.net.sent ++ [frm] ∧
    w'.net.target.ext = { world4.net.target.ext with logix := some { state4 with ctr := state4.ctr + 1 } } ∧
    ldr_Healthy w' 4097 [238, 255, 192, 0] { conn with lastSeq := some world4.drv.nextSeq.1 } := by
  have hok1 : ldr4_HopOk state4.proj 0x211 ⟨tOuter, mInn, [], 8⟩ :=
    ⟨by rfl, by simp [tOuter, mInn], outer_bytes, outer_uniq mInn (by simp [tOuter, mInn]), by decide, by rfl, Or.inl rfl⟩
  have hok2 : ldr4_HopOk state4.proj 0x210 ⟨tInner, mY, [], 4⟩ :=
    ⟨by rfl, by simp [tInner, mY], inner_bytes, inner_uniq mY (by simp [tInner, mY]), by decide, by rfl, Or.inl rfl⟩
  have h := read_nested_member_e2e cfg4 world4 4097 [238, 255, 192, 0] conn state4 symO1 0x211
    [⟨tOuter, mInn, [], 8⟩, ⟨tInner, mY, [], 4⟩] infoO1 minfoY 0xCA 4 (Drv.nm "REAL") .real (.float 4607182418800017408)
    [102, 0, 0, 0, 0, 0, 0, 64, 103, 0, 0, 0, 0, 0, 64, 64]
    healthy4 (by rfl) hsO1 bytes4 (uniqN4 symO1 hsO1) (uniqI4 symO1 hsO1) ⟨by decide, by decide, by decide⟩
    (by decide) (by simp)
    ⟨0x211, rfl, hok1, 0x210, by decide, hok2, (by show ElTy.atomic 0xCA = elTyOfWord 0xCA; decide)⟩   -- hchain
    (by intro h hh
        simp only [List.mem_cons, List.not_mem_nil, or_false] at hh
        rcases hh with rfl | rfl <;> exact ⟨rfl, by decide, by decide, by decide⟩)
    (by intro h hh
        simp only [List.getLast?_cons_cons, List.getLast?_singleton, Option.some.injEq] at hh
        subst hh; decide)
    (by decide) rfl rfl rfl (by decide)                                    -- hsize hat hb hsz hin
    getO1 rfl ⟨minfoInn, by rfl, rfl, by rfl⟩ leafY                        -- hget hk hpath hleaf
    (by rfl) (by decide +kernel) (by decide)
  exact h


private theorem hokArr1 : ldr4_HopOk state4.proj 0x211 ⟨tOuter, mArr, [1], 8⟩ :=
  ⟨by rfl, by simp [tOuter, mArr], outer_bytes, outer_uniq mArr (by simp [tOuter, mArr]), by decide, by rfl,
   Or.inr ⟨1, rfl, by decide⟩⟩
private theorem hokX : ldr4_HopOk state4.proj 0x210 ⟨tInner, mX, [], 2⟩ :=
  ⟨by rfl, by simp [tInner, mX], inner_bytes, inner_uniq mX (by simp [tInner, mX]), by decide, by rfl, Or.inl rfl⟩
private theorem hokInn : ldr4_HopOk state4.proj 0x211 ⟨tOuter, mInn, [], 8⟩ :=
  ⟨by rfl, by simp [tOuter, mInn], outer_bytes, outer_uniq mInn (by simp [tOuter, mInn]), by decide, by rfl, Or.inl rfl⟩

/-- … of `read_member_path_e2e` (indexes at two levels): `read("oa[2].arr[1].x")` returns 403 as `INT`, decoded at byte
    2 · 28 + (12 + 1 · 8) + 0 = 76 of `oa` -/
example : ∃ w' frm, read hookAll cfg4 world4 [Drv.nm "oa[2].arr[1].x"] =
      (w', .ok [{ tag := Drv.nm "oa[2].arr[1].x", value := .int 403, type := some (Drv.nm "INT"), error := none }]) ∧
    w'.drv = world4.drv.nextSeq.2 ∧ w'.net.sent = world4.net.sent ++ [frm] ∧
    w'.net.target.ext = { world4.net.target.ext with logix := some { state4 with ctr := state4.ctr + 1 } } ∧
    ldr_Healthy w' 4097 [238, 255, 192, 0] { conn with lastSeq := some world4.drv.nextSeq.1 } := by
  have h := read_member_path_e2e cfg4 world4 4097 [238, 255, 192, 0] conn state4 symOA 0x211 tOuter [2] 2
    [⟨tOuter, mArr, [1], 8⟩, ⟨tInner, mX, [], 2⟩] infoOA minfoX 0xC3 2 (Drv.nm "INT") (.int .int) (.int 403) [0, 0, 0, 0, 64, 64]
    healthy4 (by rfl) hsOA bytes4 (uniqN4 symOA hsOA) (uniqI4 symOA hsOA)
    ⟨⟨by decide, by decide, by decide⟩, by decide, by decide⟩              -- hl0
    (by decide) (by rfl)                                                   -- hty htm0
    (Or.inr ⟨by simp, by rfl⟩)                                             -- hidx
    (by simp)
    ⟨0x211, rfl, hokArr1, 0x210, by decide, hokX, (by show ElTy.atomic 0xC3 = elTyOfWord 0xC3; decide)⟩
    (by intro h hh
        simp only [List.mem_cons, List.not_mem_nil, or_false] at hh
        rcases hh with rfl | rfl
        · exact ⟨⟨by decide, by decide, by decide⟩, by decide, by decide⟩
        · exact ⟨⟨by decide, by decide, by decide⟩, by decide, by decide⟩)
    (by intro h hh
        simp only [List.getLast?_cons_cons, List.getLast?_singleton, Option.some.injEq] at hh
        subst hh; decide)
    (by decide) rfl rfl rfl (by decide)                                    -- hsize hat hb hsz hin
    getOA rfl ⟨minfoArr, by rfl, rfl, by rfl⟩ leafX
    (by rfl) (by decide +kernel) (by decide)
  rw [show renderTag (ldr4_levels symOA.name [2] [⟨tOuter, mArr, [1], 8⟩, ⟨tInner, mX, [], 2⟩]) = Drv.nm "oa[2].arr[1].x" from by
    simp only [renderTag, ldr4_levels, ldr4_Hop.level, List.map_cons, List.map_nil, renderLevel, joinWith,
      ldr2_decRender_small 2 (by omega), ldr2_decRender_small 1 (by omega)]
    rfl] at h
  exact h

/-- … of `read_struct_array_element_member_e2e`: `read("ia[2].x")` returns 13 as `INT`, decoded at byte 2 · 8 + 0 of `ia` -/
example : ∃ w' frm, read hookAll cfg4 world4 [Drv.nm "ia[2].x"] =
      (w', .ok [{ tag := Drv.nm "ia[2].x", value := .int 13, type := some (Drv.nm "INT"), error := none }]) ∧
    w'.drv = world4.drv.nextSeq.2 ∧ w'.net.sent = world4.net.sent ++ [frm] ∧
    w'.net.target.ext = { world4.net.target.ext with logix := some { state4 with ctr := state4.ctr + 1 } } ∧
    ldr_Healthy w' 4097 [238, 255, 192, 0] { conn with lastSeq := some world4.drv.nextSeq.1 } := by
  have h := read_struct_array_element_member_e2e cfg4 world4 4097 [238, 255, 192, 0] conn state4 symIA 0x210 tInner mX 4 2
    infoIA minfoX 0xC3 2 (Drv.nm "INT") (.int .int) (.int 13) [0, 0, 0, 0, 64, 64, 14, 0, 0, 0, 0, 0, 128, 64]
    healthy4 (by rfl) hsIA bytes4 (uniqN4 symIA hsIA) (uniqI4 symIA hsIA) ⟨by decide, by decide, by decide⟩
    (by decide) (by rfl) (by decide) (by decide) (by decide)               -- hty htm hdims hi hi32
    (by simp [tInner, mX]) inner_bytes (inner_uniq mX (by simp [tInner, mX])) ⟨by decide, by decide, by decide⟩
    (by decide) (by decide) (by decide)                                    -- hnum hmty hnb
    rfl rfl rfl (by decide) (by decide)                                    -- hat hb hsz hnl hin
    getIA rfl (by rfl) leafX (by rfl) (by decide +kernel) (by decide)
  rw [show symIA.name ++ [91] ++ decRender 2 ++ [93] ++ [46] ++ mX.name = Drv.nm "ia[2].x" from by
    rw [ldr2_decRender_small 2 (by omega)]; rfl] at h
  exact h

/-- … of `read_nested_struct_member_e2e`: `read("o1.inn")` returns the dict {x: 101, y: 1.0} the definition `Inner`
    dictates for the bytes of `o1` from byte 4 on, type `Inner` -/
example : ∃ w' frm, read hookAll cfg4 world4 [Drv.nm "o1.inn"] =
      (w', .ok [{ tag := Drv.nm "o1.inn", value := vInner 101 4607182418800017408, type := some (Drv.nm "Inner"), error := none }]) ∧
    w'.drv = world4.drv.nextSeq.2 ∧ w'.net.sent = world4.net.sent ++ [frm] ∧
    w'.net.target.ext = { world4.net.target.ext with logix := some { state4 with ctr := state4.ctr + 1 } } ∧
    ldr_Healthy w' 4097 [238, 255, 192, 0] { conn with lastSeq := some world4.drv.nextSeq.1 } := by
  have h := read_nested_struct_member_e2e cfg4 world4 4097 [238, 255, 192, 0] conn state4 symO1 0x211 tOuter [] 0
    [⟨tOuter, mInn, [], 8⟩] 0x210 tInner infoO1 minfoInn siInner 0 msInner []
    healthy4 (by rfl) hsO1 bytes4 (uniqN4 symO1 hsO1) (uniqI4 symO1 hsO1)
    ⟨⟨by decide, by decide, by decide⟩, by decide, by decide⟩              -- hl0
    (by decide) (by rfl) (Or.inl ⟨rfl, rfl⟩) (by simp)                     -- hty htm0 hidx hne
    ⟨0x211, rfl, hokInn, (by show ElTy.struct 0x210 = elTyOfWord 0x8210; decide)⟩
    (by rfl)                                                               -- htmL
    (by intro h hh
        simp only [List.mem_cons, List.not_mem_nil, or_false] at hh
        subst hh
        exact ⟨⟨by decide, by decide, by decide⟩, by decide, by decide⟩)
    (by intro h hh
        simp only [List.getLast?_singleton, Option.some.injEq] at hh
        subst hh; decide)
    (by decide) (by decide)                                                -- hsize hin
    getO1 rfl (by rfl) ⟨rfl, rfl, rfl, rfl, rfl⟩ rfl (by decide)           -- hget hk hpath hleaf hsisz hnd
    nestedInner (by rfl)                                                   -- hshape hattrs
    (by decide +kernel) (by decide)
  rw [show renderTag (ldr4_levels symO1.name [] [⟨tOuter, mInn, [], 8⟩]) = Drv.nm "o1.inn" from by rfl] at h
  rw [show ldr4_held (0 + 1) (.structTag msInner [] [] tInner.size) symO1.mem (0 * tOuter.size + ldr4_offset [⟨tOuter, mInn, [], 8⟩]) =
    vInner 101 4607182418800017408 from by rfl] at h
  exact h

/-- … of `read_nested_struct_e2e`: `read("o1")` returns the nested dict
    {a: 100, inn: {x: 101, y: 1.0}, arr: [{x: 102, y: 2.0}, {x: 103, y: 3.0}]}, type `Outer` -/
example : ∃ w' frm, read hookAll cfg4 world4 [Drv.nm "o1"] =
      (w', .ok [{ tag := Drv.nm "o1", value := vOuter 100, type := some (Drv.nm "Outer"), error := none }]) ∧
    w'.drv = world4.drv.nextSeq.2 ∧ w'.net.sent = world4.net.sent ++ [frm] ∧
    w'.net.target.ext = { world4.net.target.ext with logix := some { state4 with ctr := state4.ctr + 1 } } ∧
    ldr_Healthy w' 4097 [238, 255, 192, 0] { conn with lastSeq := some world4.drv.nextSeq.1 } := by
  have h := read_nested_struct_e2e cfg4 world4 4097 [238, 255, 192, 0] conn state4 symO1 0x211 tOuter infoO1 siOuter 2 msOuter []
    healthy4 (by rfl) hsO1 bytes4 (uniqN4 symO1 hsO1) (uniqI4 symO1 hsO1) ⟨by decide, by decide, by decide⟩ (by decide)
    (by decide) (by rfl) (by decide) (by decide)                           -- hty htm hlen hpos
    getO1 ⟨rfl, rfl, rfl, rfl, rfl⟩ (by decide)                            -- hget hinfo hnd
    nestedOuter (by rfl)                                                   -- hshape hattrs
    (by decide +kernel) (by decide)
  rw [show ldr4_held (2 + 1) (.structTag msOuter [] [] tOuter.size) symO1.mem 0 = vOuter 100 from by rfl] at h
  exact h

/-- … of `read_struct_array_slice_e2e`, flat elements: `read("ia[1]{2}")` returns [{x: 12, y: 2.0}, {x: 13, y: 3.0}] as
    `Inner[2]`, Tag name `ia[1]` -/
example : ∃ w' frm, read hookAll cfg4 world4 [Drv.nm "ia[1]{2}"] =
      (w', .ok [{ tag := Drv.nm "ia[1]", value := .list [vInner 12 4611686018427387904, vInner 13 4613937818241073152],
                  type := some (Drv.nm "Inner[2]"), error := none }]) ∧
    w'.drv = world4.drv.nextSeq.2 ∧ w'.net.sent = world4.net.sent ++ [frm] ∧
    w'.net.target.ext = { world4.net.target.ext with logix := some { state4 with ctr := state4.ctr + 1 } } ∧
    ldr_Healthy w' 4097 [238, 255, 192, 0] { conn with lastSeq := some world4.drv.nextSeq.1 } := by
  have h := read_struct_array_slice_e2e cfg4 world4 4097 [238, 255, 192, 0] conn state4 symIA 0x210 tInner infoIA siInner 0 4 1 2
    msInner []
    healthy4 (by rfl) hsIA bytes4 (uniqN4 symIA hsIA) (uniqI4 symIA hsIA) ⟨by decide, by decide, by decide⟩ (by decide)
    (by decide) (by rfl) (by decide) (by decide) (by decide)               -- hty htm hpos hdims hlen
    getIA ⟨rfl, rfl, rfl, rfl, rfl⟩ rfl (by decide) nestedInner            -- hget hinfo hsisz hnd hshape
    (by decide) (by decide) (by decide) (by decide)                        -- hi32 hn hn16 hin
    (by decide +kernel) (by decide)
  rw [show symIA.name ++ [91] ++ decRender 1 ++ [93] ++ [123] ++ decRender 2 ++ [125] = Drv.nm "ia[1]{2}" from by
    rw [ldr2_decRender_small 1 (by omega), ldr2_decRender_small 2 (by omega)]; rfl] at h
  rw [show symIA.name ++ [91] ++ decRender 1 ++ [93] = Drv.nm "ia[1]" from by
    rw [ldr2_decRender_small 1 (by omega)]; rfl] at h
  rw [show siInner.name ++ [91] ++ renderDec ((2 : Nat) : Int) ++ [93] = Drv.nm "Inner[2]" from by decide] at h
  rw [show ((List.range 2).map fun k => ldr4_held (0 + 1) (.structTag msInner [] [] tInner.size) symIA.mem ((1 + k) * tInner.size)) =
    [vInner 12 4611686018427387904, vInner 13 4613937818241073152] from by rfl] at h
  exact h

/-- … of `read_struct_array_slice_e2e`, NESTED elements: `read("oa[1]{2}")` returns the two nested dicts of elements 1
    and 2 as `Outer[2]` -/
example : ∃ w' frm, read hookAll cfg4 world4 [Drv.nm "oa[1]{2}"] =
      (w', .ok [{ tag := Drv.nm "oa[1]", value := .list [vOuter 300, vOuter 400], type := some (Drv.nm "Outer[2]"), error := none }]) ∧
    w'.drv = world4.drv.nextSeq.2 ∧ w'.net.sent = world4.net.sent ++ [frm] ∧
    w'.net.target.ext = { world4.net.target.ext with logix := some { state4 with ctr := state4.ctr + 1 } } ∧
    ldr_Healthy w' 4097 [238, 255, 192, 0] { conn with lastSeq := some world4.drv.nextSeq.1 } := by
  have h := read_struct_array_slice_e2e cfg4 world4 4097 [238, 255, 192, 0] conn state4 symOA 0x211 tOuter infoOA siOuter 2 3 1 2
    msOuter []
    healthy4 (by rfl) hsOA bytes4 (uniqN4 symOA hsOA) (uniqI4 symOA hsOA) ⟨by decide, by decide, by decide⟩ (by decide)
    (by decide) (by rfl) (by decide) (by decide) (by decide)
    getOA ⟨rfl, rfl, rfl, rfl, rfl⟩ rfl (by decide) nestedOuter
    (by decide) (by decide) (by decide) (by decide)
    (by decide +kernel) (by decide)
  rw [show symOA.name ++ [91] ++ decRender 1 ++ [93] ++ [123] ++ decRender 2 ++ [125] = Drv.nm "oa[1]{2}" from by
    rw [ldr2_decRender_small 1 (by omega), ldr2_decRender_small 2 (by omega)]; rfl] at h
  rw [show symOA.name ++ [91] ++ decRender 1 ++ [93] = Drv.nm "oa[1]" from by
    rw [ldr2_decRender_small 1 (by omega)]; rfl] at h
  rw [show siOuter.name ++ [91] ++ renderDec ((2 : Nat) : Int) ++ [93] = Drv.nm "Outer[2]" from by decide] at h
  rw [show ((List.range 2).map fun k => ldr4_held (2 + 1) (.structTag msOuter [] [] tOuter.size) symOA.mem ((1 + k) * tOuter.size)) =
    [vOuter 300, vOuter 400] from by rfl] at h
  exact h

/-- … of `read_struct_array_element_e2e`: `read("oa[1]")` returns the nested dict of element 1, type `Outer` -/
example : ∃ w' frm, read hookAll cfg4 world4 [Drv.nm "oa[1]"] =
      (w', .ok [{ tag := Drv.nm "oa[1]", value := vOuter 300, type := some (Drv.nm "Outer"), error := none }]) ∧
    w'.drv = world4.drv.nextSeq.2 ∧ w'.net.sent = world4.net.sent ++ [frm] ∧
    w'.net.target.ext = { world4.net.target.ext with logix := some { state4 with ctr := state4.ctr + 1 } } ∧
    ldr_Healthy w' 4097 [238, 255, 192, 0] { conn with lastSeq := some world4.drv.nextSeq.1 } := by
  have h := read_struct_array_element_e2e cfg4 world4 4097 [238, 255, 192, 0] conn state4 symOA 0x211 tOuter infoOA siOuter 2 3 1
    msOuter []
    healthy4 (by rfl) hsOA bytes4 (uniqN4 symOA hsOA) (uniqI4 symOA hsOA) ⟨by decide, by decide, by decide⟩ (by decide)
    (by decide) (by rfl) (by decide) (by decide) (by decide)
    getOA ⟨rfl, rfl, rfl, rfl, rfl⟩ rfl (by decide) nestedOuter
    (by decide) (by decide)
    (by decide +kernel) (by decide)
  rw [show symOA.name ++ [91] ++ decRender 1 ++ [93] = Drv.nm "oa[1]" from by
    rw [ldr2_decRender_small 1 (by omega)]; rfl] at h
  rw [show ldr4_held (2 + 1) (.structTag msOuter [] [] tOuter.size) symOA.mem (1 * tOuter.size) = vOuter 300 from by rfl] at h
  exact h

private theorem layoutInner : TagLayout msInner [] [] 8 :=
  { size_pos := by omega, members := okInner, hidden_total := by intro m _ hp; simp at hp, priv_members := by simp,
    bit_names_nodup := by simp, bit_names_fresh := by simp, bit_range := by simp, bit_pos_nodup := by simp,
    bit_hidden := by simp }

private theorem layoutMid : TagLayout msMid [] [] 12 :=
  { size_pos := by omega
    members := by simp [msMid, tyInner, TagMembersOk, fixedWidth, IntK.size, TMembers.names, TMembers.toList, Drv.nm]
    hidden_total := by intro m _ hp; simp at hp
    priv_members := by simp, bit_names_nodup := by simp, bit_names_fresh := by simp, bit_range := by simp,
    bit_pos_nodup := by simp, bit_hidden := by simp }

def kvsInner8 : List (Name × PyVal) := [(Drv.nm "x", .int 8), (Drv.nm "y", .float 4607182418800017408)]
def kvsMid : List (Name × PyVal) := [(Drv.nm "a", .int 7), (Drv.nm "inn", .dict kvsInner8)]

private theorem dictInner8 : TagDict (TagCanonN 0) msInner [] [] kvsInner8 := by
  refine ⟨by simp [TMembers.visible, msInner, kvsInner8, TMembers.toList], ?_, by simp⟩
  intro m hm _
  simp only [msInner, TMembers.toList, List.mem_cons, List.not_mem_nil, or_false] at hm
  rcases hm with rfl | rfl
  · exact ⟨.int 8, by simp [dictGet, kvsInner8, Drv.nm], 8, rfl, by simp [IntK.lo, IntK.hi, IntK.signed, IntK.size]⟩
  · exact ⟨.float 4607182418800017408, by simp [dictGet, kvsInner8, Drv.nm], 4607182418800017408, 0x3F800000, rfl, by decide,
      by rfl, by rfl⟩

private theorem dictMid : TagDict (TagCanonN 1) msMid [] [] kvsMid := by
  refine ⟨by simp [TMembers.visible, msMid, kvsMid, TMembers.toList], ?_, by simp⟩
  intro m hm _
  simp only [msMid, TMembers.toList, List.mem_cons, List.not_mem_nil, or_false] at hm
  rcases hm with rfl | rfl
  · exact ⟨.int 7, by simp [dictGet, kvsMid, Drv.nm], Or.inl ⟨7, rfl, by simp [IntK.lo, IntK.hi, IntK.signed, IntK.size]⟩⟩
  · exact ⟨.dict kvsInner8, by simp [dictGet, kvsMid, Drv.nm], Or.inr ⟨_, _, _, _, _, rfl, rfl, layoutInner, dictInner8⟩⟩

#guard okV (read hookAll cfg4 world4 [Drv.nm "m1"]).2 "m1" "Mid" (.dict kvsMid)

/-- … of `read_nested_struct_roundtrip_e2e`: the memory of `m1` is the encoding of {a: 7, inn: {x: 8, y: 1.0}};
    `read("m1")` returns that dict, type `Mid` -/
example : ∃ w' frm, read hookAll cfg4 world4 [Drv.nm "m1"] =
      (w', .ok [{ tag := Drv.nm "m1", value := .dict kvsMid, type := some (Drv.nm "Mid"), error := none }]) ∧
    w'.drv = world4.drv.nextSeq.2 ∧ w'.net.sent = world4.net.sent ++ [frm] ∧
    w'.net.target.ext = { world4.net.target.ext with logix := some { state4 with ctr := state4.ctr + 1 } } ∧
    ldr_Healthy w' 4097 [238, 255, 192, 0] { conn with lastSeq := some world4.drv.nextSeq.1 } :=
  read_nested_struct_roundtrip_e2e cfg4 world4 4097 [238, 255, 192, 0] conn state4 symM1 0x212 tMid infoM1 siMid 1 msMid [] []
    kvsMid healthy4 (by rfl) hsM1 bytes4 (uniqN4 symM1 hsM1) (uniqI4 symM1 hsM1) ⟨by decide, by decide, by decide⟩ (by decide)
    (by decide) (by rfl)                                                   -- hty htm
    getM1 ⟨rfl, rfl, rfl, rfl, rfl⟩ (by decide)                            -- hget hinfo hnd
    layoutMid dictMid (by rfl) (by rfl)                                    -- hl hk henc hattrs
    (by decide +kernel) (by decide)

/-! #### a second project: structures with packed BOOLs -/

namespace ExB
open Pycomm.Lgx.Drv.Ex

/-- template `In2 { ZZZZZZZZZZIn20 : SINT @0 (hidden host); b0 : BOOL bit 0 @0; b1 : BOOL bit 1 @0; x : INT @2 }`, 4 bytes -/
def tIn2 : Template :=
  { id := 0x220, handle := 0x1111, size := 4, nameField := [73, 110, 50, 59, 110],
    members := [⟨Drv.nm "ZZZZZZZZZZIn20", 0, 0xC2, 0⟩, ⟨Drv.nm "b0", 0, 0xC1, 0⟩, ⟨Drv.nm "b1", 1, 0xC1, 0⟩, ⟨Drv.nm "x", 0, 0xC3, 2⟩] }
/-- template `Out2 { k : DINT @0; in2 : In2 @4; ar2 : In2[1] @8 }`, 12 bytes -/
def tOut2 : Template :=
  { id := 0x221, handle := 0x2222, size := 12, nameField := [79, 117, 116, 50, 59, 110],
    members := [⟨Drv.nm "k", 0, 0xC4, 0⟩, ⟨Drv.nm "in2", 0, 0x8220, 4⟩, ⟨Drv.nm "ar2", 1, 0x8220, 8⟩] }
/-- `q : Out2` = {k: 9, in2: {b0: false, b1: true, x: 55}, ar2: [{b0: true, b1: false, x: 66}]} -/
def symQ : Symbol :=
  { inst := 40, name := Drv.nm "q", symbolType := 0x8221, dims := [0, 0, 0], attr3 := 0, attr5 := 0, attr6 := 2 ^ 26,
    access := 0, mem := [9, 0, 0, 0, 2, 0, 55, 0, 1, 0, 66, 0] }
def projB : Project := { templates := [tIn2, tOut2], controller := [sym, symQ], programs := [] }
def stateB : LState := { proj := projB }
def worldB0 : Cli.World Ext :=
  { drv := {}, net := { target := { base := base, ext := { logix := some stateB } } } }
def worldB : Cli.World Ext :=
  (Cli.ensureForwardOpen hookAll Cli.FUEL (Cli.openDrv hookAll worldB0 [1, 2, 3, 4, 5, 6, 7, 8]).1).1
def cfgB : Cfg := { tags := (tagDbOf projB false).getD [] }
def dfltInfo : TagInfo := .mk { tagType := .atomic, dataTypeName := [], ty := .bool } .nil
/-- the entries of the tag database along `q.in2.b1` -/
def infoQ : TagInfo := (cfgB.tags.get? (Drv.nm "q")).getD dfltInfo
def minfoIn2 : TagInfo := (infoQ.members.get? (Drv.nm "in2")).getD dfltInfo
def leafB1 : TagInfo := (minfoIn2.members.get? (Drv.nm "b1")).getD dfltInfo

#guard Ex4.okV (read hookAll cfgB worldB [Drv.nm "q.in2.b1"]).2 "q.in2.b1" "BOOL" (.bool (ldr4_bitOf symQ.mem 4 1))
#guard Ex4.okV (read hookAll cfgB worldB [Drv.nm "q.in2.b0"]).2 "q.in2.b0" "BOOL" (.bool false)
#guard Ex4.okV (read hookAll cfgB worldB [Drv.nm "q.ar2[0].b0"]).2 "q.ar2[0].b0" "BOOL" (.bool (ldr4_bitOf symQ.mem 8 0))
#guard ldr4_bitOf symQ.mem 4 1 && ldr4_bitOf symQ.mem 8 0 && !ldr4_bitOf symQ.mem 4 0

-- STATEMENT NOTE: `read_nested_struct_e2e` / `read_nested_struct_member_e2e` / `read_struct_array_slice_e2e` ask for type classes
-- WITHOUT packed BOOLs (`ldr4_Nested`: no bit aliases) and `hattrs` (visible attributes = visible members in definition order).
-- These exclude definitions with BOOL members: there the key ORDER depends on how the structure is reached — a structure read
-- on its own is re-keyed by `attributes` (definition order: b0, b1, x), the same structure nested inside another one or as an
-- array element keeps the codec's order (members first, then the BOOL aliases: x, b0, b1). Same keys, same values (Python dicts
-- with different insertion order compare equal); for such definitions `read_struct_e2e` and `read_nested_struct_roundtrip_e2e` apply.
def keysOf (v : PyVal) : List Name := match v with | .dict kvs => kvs.map (·.1) | _ => []
def firstVal (r : Except Exn (List LTag)) : PyVal := match r with | .ok [t] => t.value | _ => .none
#guard keysOf (firstVal (read hookAll cfgB worldB [Drv.nm "q.in2"]).2) == [Drv.nm "b0", Drv.nm "b1", Drv.nm "x"]
#guard (match firstVal (read hookAll cfgB worldB [Drv.nm "q"]).2 with
        | .dict kvs => (dictGet kvs (Drv.nm "in2")).map keysOf == some [Drv.nm "x", Drv.nm "b0", Drv.nm "b1"]
        | _ => false)
#guard keysOf (firstVal (read hookAll cfgB worldB [Drv.nm "q.ar2[0]"]).2) == [Drv.nm "x", Drv.nm "b0", Drv.nm "b1"]

private theorem healthyB : ldr_Healthy worldB 4097 [238, 255, 192, 0] conn :=
  ⟨by decide +kernel, by decide +kernel, by decide +kernel, by decide +kernel, by decide +kernel, by decide,
   by decide +kernel, by decide +kernel, by decide, by decide +kernel, by decide +kernel, by decide +kernel⟩

private theorem mem_ctlB (s' : Symbol) (h : s' ∈ projB.controller) : s' = sym ∨ s' = symQ := by
  simpa [projB] using h
private theorem bytesB (s' : Symbol) (h : s' ∈ stateB.proj.controller) : ∀ ch ∈ s'.name, ch < 256 := by
  rcases mem_ctlB s' h with rfl | rfl <;> decide
private theorem uniqNB (s' : Symbol) (h : s' ∈ stateB.proj.controller) (e : s'.name = symQ.name) : s' = symQ := by
  rcases mem_ctlB s' h with rfl | rfl
  · exfalso; revert e; decide
  · rfl
private theorem uniqIB (s' : Symbol) (h : s' ∈ stateB.proj.controller) (e : s'.inst = symQ.inst) : s' = symQ := by
  rcases mem_ctlB s' h with rfl | rfl
  · exfalso; revert e; decide
  · rfl

def mIn2 : MemberDef := ⟨Drv.nm "in2", 0, 0x8220, 4⟩
def mB1 : MemberDef := ⟨Drv.nm "b1", 1, 0xC1, 0⟩

private theorem mem_out2 (m' : MemberDef) (h : m' ∈ tOut2.members) :
    m' = ⟨Drv.nm "k", 0, 0xC4, 0⟩ ∨ m' = mIn2 ∨ m' = ⟨Drv.nm "ar2", 1, 0x8220, 8⟩ := by
  simpa [tOut2, mIn2] using h
private theorem mem_in2 (m' : MemberDef) (h : m' ∈ tIn2.members) :
    m' = ⟨Drv.nm "ZZZZZZZZZZIn20", 0, 0xC2, 0⟩ ∨ m' = ⟨Drv.nm "b0", 0, 0xC1, 0⟩ ∨ m' = mB1 ∨ m' = ⟨Drv.nm "x", 0, 0xC3, 2⟩ := by
  simpa [tIn2, mB1] using h

/-- every hypothesis of `read_nested_bool_member_e2e` holds for the concrete world: `read("q.in2.b1")` returns `True` as
    `BOOL` — bit 1 of byte 4 + 0 of `q` (value 2) -/
example : ∃ w' frm, read hookAll cfgB worldB [Drv.nm "q.in2.b1"] =
      (w', .ok [{ tag := Drv.nm "q.in2.b1", value := .bool true, type := some (Drv.nm "BOOL"), error := none }]) ∧
    w'.drv = worldB.drv.nextSeq.2 ∧ w'.net.sent = worldB.net.sent ++ [frm] ∧
    w'.net.target.ext = { worldB.net.target.ext with logix := some { stateB with ctr := stateB.ctr + 1 } } ∧
    ldr_Healthy w' 4097 [238, 255, 192, 0] { conn with lastSeq := some worldB.drv.nextSeq.1 } := by
  have hok : ldr4_HopOk stateB.proj 0x221 ⟨tOut2, mIn2, [], 4⟩ :=
    ⟨by rfl, by simp [tOut2, mIn2],
     (by intro m' h; rcases mem_out2 m' h with rfl | rfl | rfl <;> decide),
     (by intro m' h e
         rcases mem_out2 m' h with rfl | rfl | rfl
         · exfalso; revert e; decide
         · rfl
         · exfalso; revert e; decide),
     by decide, by rfl, Or.inl rfl⟩
  have h := read_nested_bool_member_e2e cfgB worldB 4097 [238, 255, 192, 0] conn stateB symQ 0x221 tOut2 [] 0
    [⟨tOut2, mIn2, [], 4⟩] 0x220 tIn2 mB1 infoQ leafB1
    healthyB (by rfl) (by simp [stateB, projB]) bytesB uniqNB uniqIB
    ⟨⟨by decide, by decide, by decide⟩, by decide, by decide⟩              -- hl0
    (by decide) (by rfl) (Or.inl ⟨rfl, rfl⟩)                               -- hty htm0 hidx
    ⟨0x221, rfl, hok, (by show ElTy.struct 0x220 = elTyOfWord 0x8220; decide)⟩ (by rfl)   -- hchain htmL
    (by intro h hh
        simp only [List.mem_cons, List.not_mem_nil, or_false] at hh
        subst hh
        exact ⟨⟨by decide, by decide, by decide⟩, by decide, by decide⟩)
    (by simp [tIn2, mB1])
    (by intro m' h; rcases mem_in2 m' h with rfl | rfl | rfl | rfl <;> decide)
    (by intro m' h e
        rcases mem_in2 m' h with rfl | rfl | rfl | rfl
        · exfalso; revert e; decide
        · exfalso; revert e; decide
        · rfl
        · exfalso; revert e; decide)
    ⟨by decide, by decide, by decide⟩ (by decide) (by decide)              -- hmbid hnum hmbty
    (by decide) (by decide)                                                -- hsize hin
    (by rfl) (by rfl) ⟨minfoIn2, by rfl, by rfl, by rfl⟩ ⟨by rfl, by rfl, by rfl, by rfl, by rfl⟩
    (by decide +kernel) (by decide)
  rw [show renderTag (ldr4_levels symQ.name [] [⟨tOut2, mIn2, [], 4⟩] ++ [⟨mB1.name, []⟩]) = Drv.nm "q.in2.b1" from by rfl] at h
  rw [show ldr4_bitOf symQ.mem (0 * tOut2.size + ldr4_offset [⟨tOut2, mIn2, [], 4⟩] + mB1.offset) mB1.info = true from by decide] at h
  exact h

end ExB

end Ex4
end Pycomm.Lgx.Drv
