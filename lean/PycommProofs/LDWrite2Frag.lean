/-
  LogixDriver.write of ONE request that is too large for one packet: `_write_build_single_request` switches to
  Write Tag Fragmented, `_send_write_fragmented` sends one request per segment; the reference controller accepts
  every segment and the total effect is the value spliced in once.

    effect:   `ldw2_splice_splice`, `ldw2_fragProj`, `ldw2_fragProj_step`
    (b)       `ldw2_build_frag`
    (c)+(d)   `ldw2_frag_loop` (the loop of `_send_write_fragmented` against the controller), `ldw2_sendWriteFragmented`
    composed  `ldw2_write_single_frag`
-/
import PycommProofs.LDWrite2Array
namespace Pycomm.Lgx.Drv
open Pycomm Pycomm.Tgt Pycomm.Path Pycomm.Reply Pycomm.Encap Pycomm.Lgx Pycomm.Lgx.E2E

/-! ### consecutive splices -/

/-- splicing `b` right behind a spliced `a` is splicing `a ++ b` -/
theorem ldw2_splice_splice (m a b : Bytes) (o : Nat) (h : o + a.length + b.length ≤ m.length) :
    splice (splice m o a) (o + a.length) b = splice m o (a ++ b) := by
  have hX : (m.take o ++ a).length = o + a.length := by
    rw [List.length_append, List.length_take]; omega
  unfold splice
  have e1 : (m.take o ++ a ++ m.drop (o + a.length)).take (o + a.length) = m.take o ++ a := by
    rw [← hX]; exact List.take_left'  rfl
  have e2 : (m.take o ++ a ++ m.drop (o + a.length)).drop (o + a.length + b.length) = m.drop (o + a.length + b.length) := by
    rw [List.drop_append, List.drop_of_length_le (by rw [hX]; omega), List.nil_append, hX, List.drop_drop]
    congr 1
    omega
  rw [e1, e2, List.length_append]
  simp only [List.append_assoc, Nat.add_assoc]

/-- the project while a fragmented write of `value` at byte `o` of the symbol `s` is under way: the first `off`
    bytes are in place, `log` has been appended to the write log -/
def ldw2_fragProj (p : Project) (s : Symbol) (o : Nat) (value : Bytes) (off : Nat) (log : List (Nat × Nat × Nat)) : Project :=
  { p with controller := ldw2_ctl p.controller s.inst o (value.take off), writeLog := p.writeLog ++ log }

/-- one more segment -/
theorem ldw2_fragProj_step (p : Project) (s : Symbol) (loc : Loc) (value : Bytes) (off sg : Nat)
    (log : List (Nat × Nat × Nat)) (hi : loc.symInst = s.inst) (hsc : loc.scope = none)
    (huniqI : ∀ s' ∈ p.controller, s'.inst = s.inst → s' = s)
    (hoff : off ≤ value.length) (hmem : loc.offset + value.length ≤ s.mem.length) :
    written (ldw2_fragProj p s loc.offset value off log) loc (loc.offset + off) ((value.drop off).take sg) =
      ldw2_fragProj p s loc.offset value (off + ((value.drop off).take sg).length)
        (log ++ [(s.inst, loc.offset + off, ((value.drop off).take sg).length)]) := by
  have hto : (value.take off).length = off := by rw [List.length_take]; omega
  have htk : value.take off ++ (value.drop off).take sg = value.take (off + ((value.drop off).take sg).length) := by
    rw [List.length_take, List.length_drop]
    rw [List.take_add]
    congr 1
    rw [List.take_eq_take_min, List.length_drop]
  have hsl : ((value.drop off).take sg).length ≤ value.length - off := by
    rw [List.length_take, List.length_drop]; exact Nat.min_le_right _ _
  unfold written logWrite Project.updateSymbol ldw2_fragProj
  rw [hsc, hi]
  simp only [List.append_assoc]
  congr 1
  unfold ldw2_ctl
  rw [List.map_map]
  apply List.map_congr_left
  intro x hx
  simp only [Function.comp]
  by_cases hxi : (x.inst == s.inst) = true
  · have hxs : x = s := huniqI x hx (by simpa using hxi)
    have h1 : ((ldw2_sym x loc.offset (value.take off)).inst == s.inst) = true := hxi
    simp only [hxi, if_true, ldw2_sym]
    congr 1
    have := ldw2_splice_splice x.mem (value.take off) ((value.drop off).take sg) loc.offset
      (by rw [hto, hxs]; omega)
    rw [hto] at this
    rw [this, htk]
  · simp only [hxi]
    simp only [Bool.false_eq_true, if_false, hxi]

/-! ### (b) the single-request path chooses the fragmented service -/

/-- (b) `_write_build_requests` for one error-free parsed request that is not a bit write, whose value encodes and
    whose request reaches the fragmentation threshold of the single-request path
    (`len(value) + len(request.message) > connection size`): TWO sequence numbers are drawn (the Write Tag packet,
    then the Write Tag Fragmented packet made from it), the result is one fragmented write request -/
theorem ldw2_build_frag (cfg : Cfg) (d : Cli.Drv) (p p1 : Parsed) (info : TagInfo) (path value : Bytes) (n : Nat)
    (hp : p.error = none) (hinfo : p.info = some info) (hbw : p.isBitWrite = false)
    (henc : encodeValue p info = (p1, some value)) (hrid : p1.requestId = p.requestId)
    (hel : p1.elements = (n : Int)) (hn : n ≤ 65535)
    (hpath : requestPathOf cfg p1.plcTag info = .ok path)
    (hsize : value.length + (2 + (Cl.writeMsg path (packedTypeOf info) n value).length) > d.connectionSize) :
    writeBuildRequests cfg d [p] =
      (d.nextSeq.2.nextSeq.2, .ok ([p1], [Request.writeFrag
        { seq := d.nextSeq.2.nextSeq.1, tag := p1.plcTag, elements := n, info := info, rid := p1.requestId, path := path,
          typeBytes := packedTypeOf info, value := value }])) := by
  have hel' : elementsNat p1.elements = .ok n := by
    rw [hel]; unfold elementsNat
    rw [if_pos (by omega)]; rfl
  have hrid' : (p.requestId == p1.requestId) = true := by rw [hrid]; simp
  unfold writeBuildRequests
  simp only [List.length_cons, List.length_nil, Nat.zero_add, ne_eq, not_true_eq_false, false_and, if_false,
    writeBuildSingles, hp, hinfo, hbw, Bool.false_eq_true, henc, mkWriteReq, hpath, hel', WriteReq.messageLen, hsize,
    decide_true, if_true, WriteReq.refresh, Except.map, replaceParsed, List.map_cons, List.map_nil, hrid']

/-! ### (c)+(d) the loop of `_send_write_fragmented` -/

/-- a response that lets `_send_requests` record an error-free Tag -/
def ldw2_GoodResp (r : Resp) : Prop := r.valid = true ∧ r.error = .ok none

/-- (c)+(d) the loop of `_send_write_fragmented` over the segments from byte `off` on, on a healthy connection, when
    the controller holds the first `off` bytes already: every segment is sent with a fresh sequence number (one
    frame each) and accepted; afterwards the controller holds the whole value, the write log has grown by one entry
    per segment, and the last response is a good one -/
theorem ldw2_frag_loop (sess : Nat) (cidb : Bytes) (conn : Conn) (st0 : LState) (req : WriteReq) (segs : List PSeg)
    (loc : Loc) (s : Symbol) (c sz sg : Nat)
    (hp : Denotes req.path segs) (hty : loc.ty = .atomic c) (hsc : loc.scope = none) (hi : loc.symInst = s.inst)
    (htb : req.typeBytes = le 2 c)
    (hn : 1 ≤ req.elements ∧ req.elements ≤ loc.avail ∧ req.elements < 65536)
    (hsz : atomicSize c = some sz) (hlen : req.value.length = req.elements * sz) (hl32 : req.value.length < 2 ^ 32)
    (huniqI : ∀ s' ∈ st0.proj.controller, s'.inst = s.inst → s' = s)
    (hmem : loc.offset + req.elements * sz ≤ s.mem.length)
    (hsg : 1 ≤ sg) (hfit : req.path.length + 9 + sg + 2 ≤ conn.size) (hm : req.path.length + 9 + sg ≤ 65400) :
    ∀ (fuel off : Nat) (w : Cli.World Ext) (ls : Option Nat) (log : List (Nat × Nat × Nat)) (allOk : Bool)
      (last : Option Resp),
      ldr_Healthy w sess cidb { conn with lastSeq := ls } →
      w.net.target.ext.logix = some { st0 with proj := ldw2_fragProj st0.proj s loc.offset req.value off log } →
      off ≤ req.value.length → req.value.length - off < fuel →
      resolve (ldw2_fragProj st0.proj s loc.offset req.value off log) segs = .ok loc →
      (∃ s', (ldw2_fragProj st0.proj s loc.offset req.value off log).symbolOf loc = some s' ∧
        s'.mem.length = s.mem.length) →
      (∀ r, last = some r → ldw2_GoodResp r) →
      ∃ (w' : Cli.World Ext) (ls' : Option Nat) (last' : Option Resp) (fs : List Bytes),
        writeFragSend hookAll req w (K.writeSegments sg req.value fuel off) allOk last = (w', .ok (allOk, last')) ∧
        w'.drv = { w.drv with seqVal := w'.drv.seqVal } ∧
        w'.net.sent = w.net.sent ++ fs ∧ fs.length = (K.writeSegments sg req.value fuel off).length ∧
        w'.net.target.ext =
          { w.net.target.ext with
            logix := some { st0 with
              proj := ldw2_fragProj st0.proj s loc.offset req.value req.value.length
                (log ++ (K.writeSegments sg req.value fuel off).map (fun f => (s.inst, loc.offset + f.1, f.2.length))) } } ∧
        ldr_Healthy w' sess cidb { conn with lastSeq := ls' } ∧
        (∀ r, last' = some r → ldw2_GoodResp r) ∧
        (K.writeSegments sg req.value fuel off ≠ [] → last'.isSome = true) := by
  intro fuel
  induction fuel with
  | zero => intro off w ls log allOk last _ _ _ h; omega
  | succ fuel ih =>
    intro off w ls log allOk last hw hlogix hle hf hr hsym hlast
    unfold K.writeSegments
    by_cases hge : off ≥ req.value.length
    · have hoff : off = req.value.length := by omega
      subst hoff
      rw [if_pos hge]
      refine ⟨w, ls, last, [], rfl, rfl, by simp, rfl, ?_, hw, hlast, fun h => absurd rfl h⟩
      have e : w.net.target.ext = { w.net.target.ext with logix := w.net.target.ext.logix } := rfl
      rw [hlogix] at e
      rw [List.map_nil, List.append_nil]
      exact e
    · rw [if_neg hge]
      have hsl : ((req.value.drop off).take sg).length = min sg (req.value.length - off) := by
        simp [List.length_take, List.length_drop]
      have hstep := ldw2_fragProj_step st0.proj s loc req.value off sg log hi hsc huniqI hle (by rw [hlen]; exact hmem)
      generalize hseg : (req.value.drop off).take sg = seg at hsl hstep
      have hne : seg ≠ [] := by intro h; rw [h] at hsl; simp at hsl; omega
      obtain ⟨s', hs', hl'⟩ := hsym
      -- the exchange
      have hex := exchange_writeFrag { st0 with proj := ldw2_fragProj st0.proj s loc.offset req.value off log }
        (conn.size - 2) req.path segs loc req.elements sz off seg s' hp hr (by intro b; rw [hty]; simp) hn hs'
        (by rw [hty]; exact hsz) (by omega) hne (by omega) (by rw [hl']; exact hmem)
      have htb' : typeBytes (ldw2_fragProj st0.proj s loc.offset req.value off log) loc.ty = req.typeBytes := by
        rw [hty, htb]; rfl
      simp only at hex
      rw [htb', hstep] at hex
      have hmsg : Cl.writeFragMsg req.path req.typeBytes req.elements off seg =
          [0x53] ++ req.path ++ (req.typeBytes ++ le 2 req.elements ++ le 4 off ++ seg) := by
        simp only [Cl.writeFragMsg, List.append_assoc]
      have hml : ([0x53] ++ req.path ++ (req.typeBytes ++ le 2 req.elements ++ le 4 off ++ seg) : Bytes).length =
          req.path.length + 9 + seg.length := by
        rw [htb]
        simp only [List.length_append, List.length_cons, List.length_nil, le_length]; omega
      rw [hmsg] at hex
      have hw1 : ldr_Healthy ({ w with drv := w.drv.nextSeq.2 } : Cli.World Ext) sess cidb { conn with lastSeq := ls } :=
        ldr_Healthy_seq hw _ (by rw [(Cli.lcs_nextSeq w.drv).2])
      obtain ⟨w2, frm, hsend, hd2, hsent2, hext2, hh2⟩ := ldw2_sendUnit_tag ({ w with drv := w.drv.nextSeq.2 } : Cli.World Ext)
        sess cidb { conn with lastSeq := ls } _ _ 0x53 req.path _ segs loc w.drv.nextSeq.1 hw1 hlogix hp hr
        (Or.inr (Or.inl rfl)) hex (ldr_nextSeq_lt w.drv) (by rw [hml]; omega)
        (by rw [hml]; show req.path.length + 9 + seg.length + 2 ≤ conn.size; omega)
      rw [← hmsg] at hsend
      obtain ⟨hv, _, herr⟩ := ldr_tagResp_ok 0x53 sess conn.toId w.drv.nextSeq.1 w.drv.nextSeq.2.context [] hw1.ctx8
      -- the rest of the loop
      have hlogix2 : w2.net.target.ext.logix = some { st0 with
          proj := ldw2_fragProj st0.proj s loc.offset req.value (off + seg.length) (log ++ [(s.inst, loc.offset + off, seg.length)]) } := by
        rw [hext2]
      have hr2 : resolve (ldw2_fragProj st0.proj s loc.offset req.value (off + seg.length)
          (log ++ [(s.inst, loc.offset + off, seg.length)])) segs = .ok loc := by
        rw [← hstep]; exact resolve_written _ _ _ _ _ _ hr
      have hsym2 : ∃ s'', (ldw2_fragProj st0.proj s loc.offset req.value (off + seg.length)
          (log ++ [(s.inst, loc.offset + off, seg.length)])).symbolOf loc = some s'' ∧ s''.mem.length = s.mem.length := by
        rw [← hstep]
        refine ⟨_, symbolOf_written _ _ _ _ _ hs', ?_⟩
        show (splice s'.mem (loc.offset + off) seg).length = _
        rw [splice_length, hl']; omega
      obtain ⟨w', ls', last', fs, k1, k2, k3, k4, k5, k6, k7, k8⟩ := ih (off + seg.length) w2 (some w.drv.nextSeq.1)
        (log ++ [(s.inst, loc.offset + off, seg.length)]) allOk
        (some (tagResp (some (frame CMD_SEND_UNIT sess 0 w.drv.nextSeq.2.context
          (cpfReplyConnected conn.toId w.drv.nextSeq.1 (encMRReply 0x53 { status := 0, ext := [], data := [] }))))))
        hh2 hlogix2 (by omega) (by omega) hr2 hsym2
        (by intro r hr'; cases hr'; exact ⟨hv, herr⟩)
      refine ⟨w', ls', last', frm :: fs, ?_, ?_, ?_, ?_, ?_, k6, k7, fun _ => ?_⟩
      · rw [writeFragSend]
        simp only [hsend]
        have e83 : UInt8.toNat 83 = 83 := rfl
        rw [e83, hv, Bool.and_true]
        exact k1
      · rw [k2, hd2]
        rfl
      · rw [k3, hsent2]; simp
      · simp [k4]
      · rw [k5, hext2]
        simp only [List.map_cons, List.append_assoc, List.cons_append, List.nil_append]
      · by_cases hfs : K.writeSegments sg req.value fuel (off + seg.length) = []
        · rw [hfs] at k1
          simp only [writeFragSend, Prod.mk.injEq, Except.ok.injEq] at k1
          rw [← k1.2.2]; rfl
        · exact k8 hfs

theorem ldw2_splice_nil (m : Bytes) (o : Nat) : splice m o [] = m := by
  unfold splice
  rw [List.append_nil, List.length_nil, Nat.add_zero, List.take_append_drop]

/-- nothing written yet -/
theorem ldw2_fragProj_zero (p : Project) (s : Symbol) (o : Nat) (value : Bytes) : ldw2_fragProj p s o value 0 [] = p := by
  unfold ldw2_fragProj ldw2_ctl
  have h : (p.controller.map fun x => if x.inst == s.inst then ldw2_sym x o (value.take 0) else x) = p.controller := by
    have : ∀ x : Symbol, (if x.inst == s.inst then ldw2_sym x o (value.take 0) else x) = x := by
      intro x
      split
      · simp only [ldw2_sym, List.take_zero, ldw2_splice_nil]
      · rfl
    simp only [this, List.map_id']
  rw [h, List.append_nil]

/-- the project after a fragmented write of `value` at byte `o` of the symbol `s`: the bytes spliced in once, one
    write-log entry per segment -/
def ldw2_projFrag (p : Project) (s : Symbol) (o : Nat) (value : Bytes) (frags : List (Nat × Bytes)) : Project :=
  { ldw2_proj p s o value with writeLog := p.writeLog ++ frags.map (fun f => (s.inst, o + f.1, f.2.length)) }

theorem ldw2_fragProj_full (p : Project) (s : Symbol) (o : Nat) (value : Bytes) (frags : List (Nat × Bytes)) :
    ldw2_fragProj p s o value value.length ([] ++ frags.map (fun f => (s.inst, o + f.1, f.2.length))) =
      ldw2_projFrag p s o value frags := by
  unfold ldw2_fragProj ldw2_projFrag ldw2_proj
  rw [List.take_length, List.nil_append]

/-- (c)+(d) `_send_write_fragmented` of a request for `n` elements at a controller-scope elementary location inside
    the symbol `s`, on a healthy connection whose size leaves room for at least one value byte per segment: one
    frame per segment of `K.writeFragments`, all accepted; the response handed back is a good one; the controller's
    project afterwards has the value spliced in once and one write-log entry per segment -/
theorem ldw2_sendWriteFragmented (w : Cli.World Ext) (sess : Nat) (cidb : Bytes) (conn : Conn) (st : LState) (req : WriteReq)
    (segs : List PSeg) (loc : Loc) (s : Symbol) (c sz : Nat)
    (hw : ldr_Healthy w sess cidb conn) (hlogix : w.net.target.ext.logix = some st)
    (hp : Denotes req.path segs) (hr : resolve st.proj segs = .ok loc)
    (hty : loc.ty = .atomic c) (hsc : loc.scope = none) (hi : loc.symInst = s.inst)
    (htb : req.typeBytes = le 2 c)
    (hn : 1 ≤ req.elements ∧ req.elements ≤ loc.avail ∧ req.elements < 65536)
    (hs : s ∈ st.proj.controller) (huniqI : ∀ s' ∈ st.proj.controller, s'.inst = s.inst → s' = s)
    (hsz : atomicSize c = some sz) (hlen : req.value.length = req.elements * sz) (hl32 : req.value.length < 2 ^ 32)
    (hpos : 0 < sz) (hmem : loc.offset + req.elements * sz ≤ s.mem.length)
    (hC1 : req.path.length + 12 ≤ w.drv.connectionSize) (hCT : w.drv.connectionSize ≤ conn.size)
    (hC16 : w.drv.connectionSize ≤ 65400) :
    ∃ (w' : Cli.World Ext) (ls' : Option Nat) (resp : Resp) (fs : List Bytes),
      sendWriteFragmented hookAll w req = (w', .ok resp) ∧ ldw2_GoodResp resp ∧
      w'.drv = { w.drv with seqVal := w'.drv.seqVal } ∧
      w'.net.sent = w.net.sent ++ fs ∧
      fs.length = (K.writeFragments (Cl.writeSegSize w.drv.connectionSize req.path req.typeBytes) req.value).length ∧
      w'.net.target.ext =
        { w.net.target.ext with
          logix := some { st with
            proj := ldw2_projFrag st.proj s loc.offset req.value
              (K.writeFragments (Cl.writeSegSize w.drv.connectionSize req.path req.typeBytes) req.value) } } ∧
      ldr_Healthy w' sess cidb { conn with lastSeq := ls' } := by
  have htl : req.typeBytes.length = 2 := by rw [htb]; exact le_length _ _
  have hsgv : Cl.writeSegSize w.drv.connectionSize req.path req.typeBytes = w.drv.connectionSize - (req.path.length + 11) := by
    unfold Cl.writeSegSize; rw [htl]; omega
  have hsg : 1 ≤ Cl.writeSegSize w.drv.connectionSize req.path req.typeBytes := by rw [hsgv]; omega
  have hvne : req.value ≠ [] := by
    intro h
    rw [h, List.length_nil] at hlen
    have : 0 < req.elements * sz := Nat.mul_pos (by omega) hpos
    omega
  have hwf : K.writeFragments (Cl.writeSegSize w.drv.connectionSize req.path req.typeBytes) req.value =
      K.writeSegments (Cl.writeSegSize w.drv.connectionSize req.path req.typeBytes) req.value (req.value.length + 1) 0 := by
    unfold K.writeFragments; rw [if_neg (by omega)]
  have hsym : st.proj.symbolOf loc = some s := by
    unfold Project.symbolOf Project.findSymbol
    rw [hsc, hi]
    exact ldr_find_inst st.proj s hs huniqI
  have hz := ldw2_fragProj_zero st.proj s loc.offset req.value
  obtain ⟨w', ls', last', fs, k1, k2, k3, k4, k5, k6, k7, k8⟩ := ldw2_frag_loop sess cidb conn st req segs loc s c sz
    (Cl.writeSegSize w.drv.connectionSize req.path req.typeBytes) hp hty hsc hi htb hn hsz hlen hl32 huniqI hmem hsg
    (by rw [hsgv]; omega) (by rw [hsgv]; omega)
    (req.value.length + 1) 0 w conn.lastSeq [] true none hw
    (by rw [hz]; exact hlogix) (Nat.zero_le _) (by omega) (by rw [hz]; exact hr) (by rw [hz]; exact ⟨s, hsym, rfl⟩)
    (by intro r h; cases h)
  have hnn : K.writeSegments (Cl.writeSegSize w.drv.connectionSize req.path req.typeBytes) req.value (req.value.length + 1) 0 ≠ [] := by
    unfold K.writeSegments
    rw [if_neg (by have := List.length_pos_iff.2 hvne; omega)]
    simp
  have hsome := k8 hnn
  cases hl : last' with
  | none => rw [hl] at hsome; cases hsome
  | some resp =>
    refine ⟨w', ls', resp, fs, ?_, k7 resp hl, k2, k3, by rw [hwf]; exact k4, ?_, k6⟩
    · unfold sendWriteFragmented
      have he : req.value.isEmpty = false := by
        cases hv : req.value with
        | nil => exact absurd hv hvne
        | cons _ _ => rfl
      simp only [he, Bool.false_eq_true, if_false]
      rw [if_neg (by rw [htl]; omega), if_neg (by rw [htl]; omega), hwf]
      simp only [k1, hl]
    · rw [k5, hwf, ldw2_fragProj_full]

/-- the Tag `_send_requests` records for a write-type request answered by a good response -/
theorem ldw2_writeTag_good (tag : Name) (value : PyVal) (dt : Name) (r : Resp) (h : ldw2_GoodResp r) :
    writeTag tag value dt r = .ok { tag := tag, value := value, type := some dt, error := none } := by
  unfold writeTag
  simp only [h.2, h.1, if_true]

/-! ### the layers composed -/

/-- `LogixDriver.write` of one `(tag string, value)` pair on a healthy connected driver, when the encoded value is too
    large for the single-request path (`len(value) + len(request.message) > connection size`): the request is sent
    with Write Tag Fragmented, one frame per segment of `K.writeFragments`, all accepted; the result is what the
    result loop of `write` makes of the recorded Tag; `2 + number of segments` sequence numbers are drawn; the
    controller's project afterwards has the value spliced in ONCE and one write-log entry per segment
    (`ldw2_projFrag`); the resulting world is healthy again. -/
theorem ldw2_write_single_frag (cfg : Cfg) (w : Cli.World Ext) (sess : Nat) (cidb : Bytes) (conn : Conn)
    (st : LState) (tag0 : Name) (v : PyVal) (p0 p1 : Parsed) (info : TagInfo) (path : Bytes) (segs : List PSeg) (loc : Loc)
    (s : Symbol) (c sz n : Nat) (bytes : Bytes)
    (hw : ldr_Healthy w sess cidb conn) (hlogix : w.net.target.ext.logix = some st)
    (hparse : parseTagRequest cfg.tags true 0 tag0 = p0)
    (hperr : p0.error = none) (hpinfo : p0.info = some info) (hbw : p0.isBitWrite = false)
    (henc : encodeValue { p0 with value := v } info = (p1, some bytes)) (hrid : p1.requestId = 0) (hrid0 : p0.requestId = 0)
    (hpel : p1.elements = (n : Int))
    (hpath : requestPathOf cfg p1.plcTag info = .ok path) (hden : Denotes path segs)
    (hr : resolve st.proj segs = .ok loc) (hty : loc.ty = .atomic c) (hsc : loc.scope = none) (hi : loc.symInst = s.inst)
    (hpt : packedTypeOf info = le 2 c)
    (hn : 1 ≤ n ∧ n ≤ loc.avail ∧ n < 65536)
    (hs : s ∈ st.proj.controller) (huniqI : ∀ s' ∈ st.proj.controller, s'.inst = s.inst → s' = s)
    (hsz : atomicSize c = some sz) (hpos : 0 < sz)
    (hbl : bytes.length = n * sz) (hmem : loc.offset + n * sz ≤ s.mem.length) (hl32 : bytes.length < 2 ^ 32)
    (hfrag : w.drv.connectionSize < 2 * bytes.length + path.length + 7)
    (hC1 : path.length + 12 ≤ w.drv.connectionSize) (hCT : w.drv.connectionSize ≤ conn.size)
    (hC16 : w.drv.connectionSize ≤ 65400) :
    ∃ (w' : Cli.World Ext) (fs : List Bytes) (ls : Option Nat), write hookAll cfg w [(tag0, v)] =
        (w', .ok [writeResult p1 [((0 : Nat), { tag := p1.plcTag, value := .bytes bytes, type := some info.core.dataTypeName,
                                                error := none })]]) ∧
      w'.drv = { w.drv with seqVal := w'.drv.seqVal } ∧ w'.net.sent = w.net.sent ++ fs ∧
      fs.length = (K.writeFragments (w.drv.connectionSize - (path.length + 11)) bytes).length ∧
      w'.net.target.ext =
        { w.net.target.ext with
          logix := some { st with
            proj := ldw2_projFrag st.proj s loc.offset bytes
              (K.writeFragments (w.drv.connectionSize - (path.length + 11)) bytes) } } ∧
      ldr_Healthy w' sess cidb { conn with lastSeq := ls } := by
  have hparsed : ((parseRequestedTags cfg.tags true ([(tag0, v)].map (·.1))).zip ([(tag0, v)].map (·.2))).map
      (fun x => ({ x.1 with value := x.2 } : Drv.Parsed)) = [{ p0 with value := v }] := by
    show ([parseTagRequest cfg.tags true 0 tag0].zip [v]).map _ = _
    rw [hparse]; rfl
  have hml : (Cl.writeMsg path (packedTypeOf info) n bytes).length = path.length + 5 + bytes.length := by
    rw [hpt]
    simp only [Cl.writeMsg, List.length_append, List.length_cons, List.length_nil, le_length]; omega
  have hbuild := ldw2_build_frag cfg w.drv { p0 with value := v } p1 info path bytes n hperr hpinfo
    (by simpa [Parsed.isBitWrite] using hbw) henc (by rw [hrid]; exact hrid0.symm) hpel (by omega) hpath
    (by rw [hml]; omega)
  rw [hpt] at hbuild
  have hw1 : ldr_Healthy ({ w with drv := w.drv.nextSeq.2.nextSeq.2 } : Cli.World Ext) sess cidb conn :=
    ldr_Healthy_seq hw _ rfl
  have hsgv : Cl.writeSegSize w.drv.connectionSize path (le 2 c) = w.drv.connectionSize - (path.length + 11) := by
    unfold Cl.writeSegSize; rw [le_length]; omega
  obtain ⟨w2, ls, resp, fs, hsend, hgood, hd2, hsent2, hfl, hext2, hh2⟩ := ldw2_sendWriteFragmented
    ({ w with drv := w.drv.nextSeq.2.nextSeq.2 } : Cli.World Ext) sess cidb conn st
    { seq := w.drv.nextSeq.2.nextSeq.1, tag := p1.plcTag, elements := n, info := info, rid := p1.requestId, path := path,
      typeBytes := le 2 c, value := bytes }
    segs loc s c sz hw1 hlogix hden hr hty hsc hi rfl hn hs huniqI hsz hbl hl32 hpos hmem hC1 hCT hC16
  have hcs : w.drv.nextSeq.2.nextSeq.2.connectionSize = w.drv.connectionSize := rfl
  dsimp only at hfl hext2
  rw [hcs, hsgv] at hfl hext2
  have hresp := ldw2_writeTag_good p1.plcTag (.bytes bytes) info.core.dataTypeName resp hgood
  have hfo : Cli.ensureForwardOpen hookAll Cli.FUEL w = (w, .ok ()) := ldr_ensureFO_connected hookAll 7 w hw.connected
  refine ⟨w2, fs, ls, ?_, ?_, hsent2, hfl, hext2, hh2⟩
  · unfold write
    rw [hfo]
    dsimp only
    rw [hparsed, hbuild]
    dsimp only
    unfold sendRequests sendRequest
    dsimp only
    rw [hsend]
    dsimp only
    rw [hresp]
    dsimp only [Except.map]
    unfold sendRequests
    dsimp only [fanOutRmw, List.isEmpty_cons, Bool.false_eq_true, if_false, List.map_cons, List.map_nil,
      Results.set, List.any_nil, List.nil_append]
    simp only [Bool.false_eq_true, if_false, List.map_cons, List.map_nil, hrid]
  · exact hd2.trans rfl

/-- `write` of `n ≥ 1` elements from element `i` of a one-dimensional array tag of an elementary type, requested as
    `name[i]{n}` (`idx = [i]`) or `name{n}` (`idx = []`, `i = 0`), when the `n * sz` bytes `encode_value` yields are too
    many for the single-request path: Write Tag Fragmented, one frame per segment -/
theorem ldw2_write_array_frag (cfg : Cfg) (w : Cli.World Ext) (sess : Nat) (cidb : Bytes) (conn : Conn)
    (st : LState) (s : Symbol) (info : TagInfo) (c sz dim : Nat) (name : Name) (t : Ty)
    (idx : List Nat) (i : Nat) (cnt : Option Nat) (v : PyVal) (bytes : Bytes)
    (hidx : idx = [i] ∨ (idx = [] ∧ i = 0))
    (hw : ldr_Healthy w sess cidb conn) (hlogix : w.net.target.ext.logix = some st)
    (hs : s ∈ st.proj.controller)
    (hbytes : ∀ s' ∈ st.proj.controller, ∀ ch ∈ s'.name, ch < 256)
    (huniqN : ∀ s' ∈ st.proj.controller, s'.name = s.name → s' = s)
    (huniqI : ∀ s' ∈ st.proj.controller, s'.inst = s.inst → s' = s)
    (hid : PlainIdent s.name) (hinst : s.inst < 2 ^ 32)
    (hty : elTyOfWord s.symbolType = .atomic c) (hat : atomicOfCode c = some (name, t)) (hb : t.isBits = none)
    (hsz : atomicSize c = some sz)
    (hdims : s.dims.filter (· != 0) = [dim]) (hlen : s.mem.length = dim * sz)
    (hget : cfg.tags.get? s.name = some info) (hinfo : ldr_InfoOf info name (.arr (.fixed dim) t) s.inst)
    (hi32 : i < 2 ^ 32) (hn : 1 ≤ cnt.getD 1) (hn16 : cnt.getD 1 ≤ 65535) (hin : i + cnt.getD 1 ≤ dim)
    (henc : encodeValue (ldw2_parsedArr s.name idx cnt info v) info = (ldw2_parsedArr s.name idx cnt info v, some bytes))
    (hbl : bytes.length = cnt.getD 1 * sz)
    (hfrag : w.drv.connectionSize < 2 * (cnt.getD 1 * sz) + 7)
    (hC1 : s.name.length + 31 ≤ w.drv.connectionSize) (hCT : w.drv.connectionSize ≤ conn.size)
    (hC16 : w.drv.connectionSize ≤ 65400) :
    ∃ (w' : Cli.World Ext) (fs : List Bytes) (ls : Option Nat) (path : Bytes),
      requestPathOf cfg (renderLevel ⟨s.name, idx⟩) info = .ok path ∧ path.length ≤ s.name.length + 19 ∧
      write hookAll cfg w [(ldr2_tagStr ⟨s.name, idx⟩ none cnt, v)] =
        (w', .ok [{ tag := renderLevel ⟨s.name, idx⟩, value := v,
                    type := some (ldr2_typeStr name (cnt.getD 1)), error := none }]) ∧
      w'.drv = { w.drv with seqVal := w'.drv.seqVal } ∧ w'.net.sent = w.net.sent ++ fs ∧
      fs.length = (K.writeFragments (w.drv.connectionSize - (path.length + 11)) bytes).length ∧
      w'.net.target.ext =
        { w.net.target.ext with
          logix := some { st with
            proj := ldw2_projFrag st.proj s (i * sz) bytes
              (K.writeFragments (w.drv.connectionSize - (path.length + 11)) bytes) } } ∧
      ldr_Healthy w' sess cidb { conn with lastSeq := ls } := by
  obtain ⟨haty, hentry, hndw, hpos, hle8⟩ := ldr_atomic_table c sz name t hat hb hsz
  have hl : ldr2_Level ⟨s.name, idx⟩ := by
    refine ⟨hid, ?_, ?_⟩
    · rcases hidx with h | ⟨h, _⟩ <;> rw [h] <;> simp
    · rcases hidx with h | ⟨h, _⟩ <;> rw [h] <;> simp [hi32]
  have hil : idx.length ≤ 1 := by rcases hidx with h | ⟨h, _⟩ <;> rw [h] <;> simp
  have hnd : isDword info = false := by
    have : (name == nm "DWORD") = false := by simpa using hndw
    simp [isDword, hinfo.typeName, this]
  have hparse := ldr2_parse_unfold cfg.tags true 0 ⟨s.name, idx⟩ none cnt hl
    (by intro n hc; rw [hc] at hn16; simpa using hn16)
  rw [Option.map_none, ldr2_tail_plain cfg.tags true 0 _ _ _ _ ⟨s.name, idx⟩ none info hl hget hnd rfl] at hparse
  obtain ⟨path, hpath, hpl, hden⟩ := ldr2_requestPath cfg ⟨s.name, idx⟩ info s.inst hl hinfo.instanceId hinst
  have hpl' : path.length ≤ s.name.length + 19 := by
    have : path.length ≤ s.name.length + 13 + 6 * idx.length := hpl
    omega
  have hpt : packedTypeOf info = le 2 c := ldw_packedType info name c sz hinfo.struct hinfo.typeName hentry
  have hmem : s.mem ≠ [] := by
    intro h
    rw [h, List.length_nil] at hlen
    have : 0 < dim * sz := Nat.mul_pos (by omega) hpos
    omega
  have hr : resolve st.proj (ldr_segs s.name s.inst cfg.useInstanceIds ++ idx.map (PSeg.logical 8)) =
      .ok (ldr2_locAt s c sz i dim) := by
    rcases hidx with h | ⟨h, h0⟩
    · rw [h]
      exact ldr2_resolve_elem st.proj s c sz cfg.useInstanceIds i dim hid hs hbytes huniqN huniqI hty hsz hmem hdims (by omega)
    · rw [h, h0, List.map_nil, List.append_nil, ← ldr2_loc_zero s c sz dim hdims]
      exact ldr_resolve st.proj s c sz cfg.useInstanceIds hid hs hbytes huniqN huniqI hty hsz hmem
  have hle : i * sz + cnt.getD 1 * sz ≤ s.mem.length := by
    rw [hlen, ← Nat.add_mul]; exact Nat.mul_le_mul_right sz hin
  have hb32 : cnt.getD 1 * sz < 2 ^ 32 := by
    have : cnt.getD 1 * sz ≤ 65535 * 8 := Nat.mul_le_mul hn16 hle8
    omega
  obtain ⟨w', fs, ls, hwrite, hd, hsent, hfl, hext, hh⟩ := ldw2_write_single_frag cfg w sess cidb conn st
    (ldr2_tagStr ⟨s.name, idx⟩ none cnt) v _ (ldw2_parsedArr s.name idx cnt info v) info path _ (ldr2_locAt s c sz i dim) s c sz
    (cnt.getD 1) bytes hw hlogix hparse rfl rfl rfl henc rfl rfl rfl hpath hden hr rfl rfl rfl hpt
    ⟨hn, by simp only [ldr2_locAt]; omega, by omega⟩ hs huniqI hsz hpos hbl hle (by omega) (by omega) (by omega) hCT hC16
  refine ⟨w', fs, ls, path, hpath, hpl', ?_, hd, hsent, hfl, hext, hh⟩
  rw [hwrite]
  have hresult := ldw2_writeResult (ldw2_parsedArr s.name idx cnt info v) info
    { tag := renderLevel ⟨s.name, idx⟩, value := .bytes bytes, type := some info.core.dataTypeName, error := none }
    (cnt.getD 1) rfl rfl rfl rfl rfl rfl
  dsimp only [ldw2_parsedArr] at hresult ⊢
  rw [hresult, hinfo.typeName, ldr2_tagStr_plain]

end Pycomm.Lgx.Drv
