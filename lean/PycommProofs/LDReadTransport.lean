/-
  LogixDriver.read, layer (c): one connected request through `CIPDriver.send` on a healthy open connection:
  the frame reaches the message router of the target on that connection and the framed reply comes back.
-/
import PycommModel.Client
import PycommProofs.EncapProofs
import PycommProofs.LCSeq
namespace Pycomm.Cli
open Pycomm.Tgt Pycomm.Encap Pycomm.Path Pycomm.Reply Pycomm.EN

/-- the target's bookkeeping for a connected data item before the request is executed -/
def ldr_unitBase (b : Base) (session cid seq : Nat) (c : Conn) : Base :=
  let b1 := b.event (.encap CMD_SEND_UNIT session true)
  let b1 := if c.lastSeq == some seq then
      b1.event (.violation s!"sequence count {seq} repeated on consecutive connected messages") else b1
  { b1 with conns := b1.conns.map fun c' => if c'.cid == cid then { c' with lastSeq := some seq } else c' }

/-- … and after it (an oversized reply is recorded as a violation) -/
def ldr_unitAfter {σ} (t1 : Target σ) (c : Conn) (mr : Bytes) : Target σ :=
  if mr.length + 2 > c.size then
    { t1 with base := t1.base.event (.violation s!"connected reply of {mr.length + 2} bytes on a {c.size}-byte connection") }
  else t1

theorem ldr_unitAfter_ext {σ} (t1 : Target σ) (c : Conn) (mr : Bytes) : (ldr_unitAfter t1 c mr).ext = t1.ext := by
  unfold ldr_unitAfter; split <;> rfl

theorem ldr_unitAfter_sessions {σ} (t1 : Target σ) (c : Conn) (mr : Bytes) :
    (ldr_unitAfter t1 c mr).base.sessions = t1.base.sessions := by
  unfold ldr_unitAfter; split <;> rfl

theorem ldr_unitAfter_conns {σ} (t1 : Target σ) (c : Conn) (mr : Bytes) :
    (ldr_unitAfter t1 c mr).base.conns = t1.base.conns := by
  unfold ldr_unitAfter; split <;> rfl

theorem ldr_unitBase_sessions (b : Base) (session cid seq : Nat) (c : Conn) :
    (ldr_unitBase b session cid seq c).sessions = b.sessions := by
  unfold ldr_unitBase; dsimp only; split <;> rfl

theorem ldr_unitBase_conns (b : Base) (session cid seq : Nat) (c : Conn) :
    (ldr_unitBase b session cid seq c).conns =
      b.conns.map fun c' => if c'.cid == cid then { c' with lastSeq := some seq } else c' := by
  unfold ldr_unitBase; dsimp only; split <;> rfl

/-- recording the sequence count on the connection does not disturb the connection lookup -/
theorem ldr_find_seq (l : List Conn) (cid session seq : Nat) (c : Conn)
    (h : l.find? (fun c => c.cid == cid && c.session == session) = some c) :
    (l.map fun c' => if c'.cid == cid then { c' with lastSeq := some seq } else c').find?
        (fun c => c.cid == cid && c.session == session) = some { c with lastSeq := some seq } := by
  induction l with
  | nil => cases h
  | cons a l ih =>
    rw [List.find?_cons] at h
    rw [List.map_cons, List.find?_cons]
    by_cases ha : (a.cid == cid && a.session == session) = true
    · rw [ha] at h
      simp only [Option.some.injEq] at h
      subst h
      have hc : (a.cid == cid) = true := by
        simp only [Bool.and_eq_true] at ha; exact ha.1
      have hs : (a.session == session) = true := by
        simp only [Bool.and_eq_true] at ha; exact ha.2
      simp only [hc, hs, if_true, Bool.and_self]
    · have ha' : (a.cid == cid && a.session == session) = false := by simpa using ha
      rw [ha'] at h
      have : ((if (a.cid == cid) = true then { a with lastSeq := some seq } else a).cid == cid &&
          (if (a.cid == cid) = true then { a with lastSeq := some seq } else a).session == session) = false := by
        split <;> exact ha'
      rw [this]
      exact ih h

/-- what the target does with a SendUnitData frame of a registered session on an open connection whose
    message fits the connection: the message is executed by the message router with the connection's capacity,
    and the reply is framed for the originator's connection id with the same sequence count -/
theorem ldr_handle_unit {σ} (hook : ObjHook σ) (t : Target σ) (raw : Bytes) (f : Frame)
    (cid seq : Nat) (msg : Bytes) (c : Conn)
    (hp : parseFrame raw = some f) (hst : f.status = 0) (hopt : f.options = 0) (hc : f.command = CMD_SEND_UNIT)
    (hs : f.session ∈ t.base.sessions) (hcpf : parseCpf f.body = some (.connected cid seq msg))
    (hfind : t.base.conns.find? (fun c => c.cid == cid && c.session == f.session) = some c)
    (hfit : msg.length + 2 ≤ c.size) :
    handle hook t raw =
      (ldr_unitAfter (execMR hook { t with base := ldr_unitBase t.base f.session cid seq c } f.session
            (some (c.size - 2)) true false [] msg).1 c
          (execMR hook { t with base := ldr_unitBase t.base f.session cid seq c } f.session
            (some (c.size - 2)) true false [] msg).2,
       some (frame CMD_SEND_UNIT f.session 0 f.context (cpfReplyConnected c.toId seq
          (execMR hook { t with base := ldr_unitBase t.base f.session cid seq c } f.session
            (some (c.size - 2)) true false [] msg).2))) := by
  have c1 : ¬ (CMD_SEND_UNIT = CMD_REGISTER) := by decide
  have c2 : ¬ (CMD_SEND_UNIT = CMD_LIST_IDENTITY) := by decide
  have c3 : ¬ (CMD_SEND_UNIT = CMD_UNREGISTER) := by decide
  have c4 : ¬ (CMD_SEND_UNIT = CMD_SEND_RR) := by decide
  have hcon : t.base.sessions.contains f.session = true := by simpa using hs
  have hlen : ¬ (msg.length + 2 > c.size) := by omega
  unfold handle
  simp only [hp]
  rw [if_neg (by simp [hst, hopt])]
  simp only [hc, c1, c2, c3, c4, if_false, if_true, hcon, Bool.not_true, Bool.false_eq_true, hcpf, hfind, hlen]
  rfl

/-- (c) `CIPDriver.send` of a connected request on a healthy open connection without transport faults: exactly
    one frame is written, the target executes exactly the message on the driver's connection, and the reply
    returned is the target's framed answer -/
theorem ldr_sendUnit {σ} (hook : ObjHook σ) (w : World σ) (s : Nat) (cidb : Bytes) (c : Conn) (seq : Nat) (m : Bytes)
    (hctx8 : w.drv.context.length = 8) (hopt : w.drv.option = 0) (hsock : w.drv.hasSock = true)
    (hsess : w.drv.session = some s) (hs32 : s < 2 ^ 32) (hsm : s ∈ w.net.target.base.sessions)
    (hcid : w.drv.targetCid = some cidb) (hcl : cidb.length = 4)
    (hfind : w.net.target.base.conns.find? (fun c => c.cid == leVal cidb && c.session == s) = some c)
    (hpend : w.net.pending = []) (hfaults : w.net.faults = [])
    (hseq : seq < 65536) (hm : m.length ≤ 65400) (hfit : m.length + 2 ≤ c.size) :
    ∃ frm, buildRequest (.sendUnit seq m) w.drv.ctx = .ok frm ∧
      sendReq hook w (.sendUnit seq m) false =
        ({ w with net := { w.net with
              nSend := w.net.nSend + 1, nRecv := w.net.nRecv + 1, sent := w.net.sent ++ [frm], pending := [],
              target := ldr_unitAfter (execMR hook { w.net.target with base := ldr_unitBase w.net.target.base s (leVal cidb) seq c }
                    s (some (c.size - 2)) true false [] m).1 c
                  (execMR hook { w.net.target with base := ldr_unitBase w.net.target.base s (leVal cidb) seq c }
                    s (some (c.size - 2)) true false [] m).2 } },
         .ok (some (frame CMD_SEND_UNIT s 0 w.drv.context (cpfReplyConnected c.toId seq
            (execMR hook { w.net.target with base := ldr_unitBase w.net.target.base s (leVal cidb) seq c }
              s (some (c.size - 2)) true false [] m).2)))) := by
  obtain ⟨frm, hb⟩ := lcs_build_unit w.drv.ctx s hsess hs32 hopt cidb hcid hcl seq hseq m hm
  refine ⟨frm, hb, ?_⟩
  obtain ⟨s2, common, g1, g2, _, g4⟩ := parse_built _ w.drv.ctx frm hctx8 hb
  have g1' : w.drv.ctx.session = some s := hsess
  rw [g1'] at g1; cases g1
  obtain ⟨hseq', hml, _, g2⟩ := g2
  have hcid' : w.drv.ctx.targetCid = some cidb := hcid
  have hcpf : parseCpf common = some (.connected (leVal cidb) seq m) := by
    rw [g2, hcid']; exact parseCpf_connected cidb m seq hcl hseq' hml
  have hopt' : w.drv.ctx.option = 0 := hopt
  have hh := ldr_handle_unit hook w.net.target frm _ (leVal cidb) seq m c g4 rfl hopt' rfl hsm hcpf hfind hfit
  simp only at hh
  unfold sendReq
  rw [hb]
  simp only [hsock, Bool.not_true, Bool.false_eq_true, if_false]
  unfold Net.sockSend
  simp only [hfaults, List.contains_nil, Bool.false_eq_true, if_false, hh, hpend, List.nil_append]
  unfold Net.sockReceive
  simp only [List.contains_nil, Bool.false_eq_true, if_false, dropNones]
  rfl

end Pycomm.Cli
