/-
  LogixDriver.read, layers (e) and (f): the connected reply frame of a successful Read Tag is valid for the
  response classes, `parse_read_reply` decodes the value of an elementary scalar tag, and the result loop of
  `read` hands the Tag to the caller.
-/
import PycommModel.Logix.Driver
import PycommProofs.GenericProofs
import PycommProofs.ReplyProofs
import PycommProofs.LE2RRead
namespace Pycomm.Lgx.Drv
open Pycomm Pycomm.Tgt Pycomm.Path Pycomm.Reply Pycomm.Encap Pycomm.Lgx Pycomm.Lgx.E2E

/-! ### (e) the reply frame -/

/-- the connected reply frame the target builds around a status-0 message-router reply, as the response class
    parses it: no error, status words 0, the service data -/
theorem ldr_parse_connected_reply (svc s toId seq : Nat) (ctx data : Bytes) (hc : ctx.length = 8) :
    ∃ cmd svc', parseCip (some (frame CMD_SEND_UNIT s 0 ctx (cpfReplyConnected toId seq
        (encMRReply svc { status := 0, ext := [], data := data })))) .connected =
      { err := none, command := some cmd, commandStatus := some 0, service := svc', serviceStatus := some 0,
        data := some data } := by
  have hz : leBytes 4 0 = [0, 0, 0, 0] := rfl
  have hsv : 128 ≤ (UInt8.ofNat (svc % 128 + 128)).toNat := by rw [EP.toNat_ofNat]; omega
  have hmr : encMRReply svc { status := 0, ext := [], data := data } =
      [UInt8.ofNat (svc % 128 + 128), 0, 0, 0] ++ data := by
    simp [encMRReply]
  generalize hmrd : encMRReply svc { status := 0, ext := [], data := data } = mr at hmr
  generalize hraw : frame CMD_SEND_UNIT s 0 ctx (cpfReplyConnected toId seq mr) = raw
  -- the two decompositions of the frame
  have hH : (encHeader CMD_SEND_UNIT (cpfReplyConnected toId seq mr).length s 0 ctx ++
        (le 4 0 ++ le 2 0 ++ le 2 2 ++ le 2 ITEM_CONNECTION ++ le 2 4 ++ le 4 toId ++
         le 2 ITEM_CONNECTED_DATA ++ le 2 (mr.length + 2) ++ le 2 seq)).length = Transport.connected.off := by
    simp [encHeader, le, RT.leBytes_length, hc, Transport.off]
  have hraw2 : raw = (encHeader CMD_SEND_UNIT (cpfReplyConnected toId seq mr).length s 0 ctx ++
        (le 4 0 ++ le 2 0 ++ le 2 2 ++ le 2 ITEM_CONNECTION ++ le 2 4 ++ le 4 toId ++
         le 2 ITEM_CONNECTED_DATA ++ le 2 (mr.length + 2) ++ le 2 seq)) ++
        ([UInt8.ofNat (svc % 128 + 128), 0, 0, 0] ++ data) := by
    rw [← hraw]
    simp only [frame, cpfReplyConnected, hmr, List.append_assoc]
  have hraw1 : raw = (le 2 CMD_SEND_UNIT ++ le 2 (cpfReplyConnected toId seq mr).length ++ le 4 s) ++
      ([0, 0, 0, 0] ++ (ctx ++ le 4 0 ++ cpfReplyConnected toId seq mr)) := by
    rw [← hraw]
    simp only [frame, encHeader, le, hz, List.append_assoc]
  obtain ⟨k1, k2, k3⟩ := Cli.parseCip_ok raw .connected _ _ (by simp [le, RT.leBytes_length]) hraw1 _ hsv data _ hH hraw2
  have hlen : Transport.connected.off + 3 ≤ raw.length := by
    rw [hraw2, List.length_append, hH]; simp
  have hget : 128 ≤ (raw.getD Transport.connected.off 0).toNat := by
    rw [hraw2, ← hH]
    simpa [List.getD_eq_getElem?_getD] using hsv
  obtain ⟨svc', _, hp⟩ := RP.parseCip_good .connected raw hlen hget
  rw [hp] at k1 k2 k3 ⊢
  simp only [Option.some.injEq] at k1 k2 k3
  rw [k1, k2, k3]
  exact ⟨_, _, rfl⟩

/-- (e) such a reply is a valid response without error that carries the service data -/
theorem ldr_tagResp_ok (svc s toId seq : Nat) (ctx data : Bytes) (hc : ctx.length = 8) :
    (tagResp (some (frame CMD_SEND_UNIT s 0 ctx (cpfReplyConnected toId seq
        (encMRReply svc { status := 0, ext := [], data := data }))))).valid = true ∧
    (tagResp (some (frame CMD_SEND_UNIT s 0 ctx (cpfReplyConnected toId seq
        (encMRReply svc { status := 0, ext := [], data := data }))))).p.data = some data ∧
    (tagResp (some (frame CMD_SEND_UNIT s 0 ctx (cpfReplyConnected toId seq
        (encMRReply svc { status := 0, ext := [], data := data }))))).error = .ok none := by
  obtain ⟨cmd, svc', hp⟩ := ldr_parse_connected_reply svc s toId seq ctx data hc
  have hv : validCip .connected (parseCip (some (frame CMD_SEND_UNIT s 0 ctx (cpfReplyConnected toId seq
        (encMRReply svc { status := 0, ext := [], data := data })))) .connected) = true := by
    rw [hp]; exact (validCip_record _ _ _ _ _ _).2 ⟨rfl, Or.inl rfl⟩
  unfold Resp.error tagResp
  simp only [hv]
  rw [hp]
  exact ⟨trivial, rfl, by simp [errorCip, Except.map]⟩

/-- the service part of the parse leaves the encapsulation status alone -/
theorem ldr_parseService_commandStatus (raw : Bytes) (off : Nat) (p : Reply.Parsed) :
    (parseService raw off p).commandStatus = p.commandStatus := by
  unfold parseService
  split
  · rfl
  · split <;> rfl

/-- (e) the encapsulation status the response class reads off ANY frame the target builds with status 0 (whatever
    the command, the context and the body): 0 — what `_send_requests` looks at before it takes the embedded replies
    of a Multiple Service Packet apart -/
theorem ldr_tagResp_commandStatus (cmd s : Nat) (ctx body : Bytes) :
    (tagResp (some (frame cmd s 0 ctx body))).p.commandStatus = some 0 := by
  have hz : leBytes 4 0 = [0, 0, 0, 0] := rfl
  have hraw1 : frame cmd s 0 ctx body = (le 2 cmd ++ le 2 body.length ++ le 4 s) ++
      ([0, 0, 0, 0] ++ (ctx ++ le 4 0 ++ body)) := by
    simp only [frame, encHeader, le, hz, List.append_assoc]
  have b1 : Reply.slice (frame cmd s 0 ctx body) 8 12 = [0, 0, 0, 0] := by
    rw [hraw1]
    have := Cli.slice_at (le 2 cmd ++ le 2 body.length ++ le 4 s) ([0, 0, 0, 0] ++ (ctx ++ le 4 0 ++ body)) 8 0 4
      (by simp [le, RT.leBytes_length])
    simp only [Nat.add_zero] at this
    rw [this]; simp [Reply.slice]
  have b5 : decodeIntVal .dint [0, 0, 0, 0] = .ok (0, []) := rfl
  unfold tagResp
  simp only [Reply.parseCip, ldr_parseService_commandStatus, Reply.parseBase, b1, b5]

/-! ### (e) `parse_read_reply` for an elementary scalar -/

/-- the codec classes of the elementary types other than bit strings -/
theorem ldr_atomicTy_shape (c : Nat) (t : Ty) (h : Cl.atomicTy c = some t) (hb : t.isBits = none) :
    t = .bool ∨ (∃ k, t = .int k) ∨ t = .real ∨ t = .lreal := by
  unfold Cl.atomicTy at h
  by_cases h0 : c = 0xC1
  · rw [if_pos h0] at h; injection h with h; subst h; exact Or.inl rfl
  rw [if_neg h0] at h
  by_cases h1 : c = 0xC2
  · rw [if_pos h1] at h; injection h with h; subst h; exact Or.inr (Or.inl ⟨_, rfl⟩)
  rw [if_neg h1] at h
  by_cases h2 : c = 0xC3
  · rw [if_pos h2] at h; injection h with h; subst h; exact Or.inr (Or.inl ⟨_, rfl⟩)
  rw [if_neg h2] at h
  by_cases h3 : c = 0xC4
  · rw [if_pos h3] at h; injection h with h; subst h; exact Or.inr (Or.inl ⟨_, rfl⟩)
  rw [if_neg h3] at h
  by_cases h4 : c = 0xC5
  · rw [if_pos h4] at h; injection h with h; subst h; exact Or.inr (Or.inl ⟨_, rfl⟩)
  rw [if_neg h4] at h
  by_cases h5 : c = 0xC6
  · rw [if_pos h5] at h; injection h with h; subst h; exact Or.inr (Or.inl ⟨_, rfl⟩)
  rw [if_neg h5] at h
  by_cases h6 : c = 0xC7
  · rw [if_pos h6] at h; injection h with h; subst h; exact Or.inr (Or.inl ⟨_, rfl⟩)
  rw [if_neg h6] at h
  by_cases h7 : c = 0xC8
  · rw [if_pos h7] at h; injection h with h; subst h; exact Or.inr (Or.inl ⟨_, rfl⟩)
  rw [if_neg h7] at h
  by_cases h8 : c = 0xC9
  · rw [if_pos h8] at h; injection h with h; subst h; exact Or.inr (Or.inl ⟨_, rfl⟩)
  rw [if_neg h8] at h
  by_cases h9 : c = 0xCA
  · rw [if_pos h9] at h; injection h with h; subst h; exact Or.inr (Or.inr (Or.inl rfl))
  rw [if_neg h9] at h
  by_cases h10 : c = 0xCB
  · rw [if_pos h10] at h; injection h with h; subst h; exact Or.inr (Or.inr (Or.inr rfl))
  rw [if_neg h10] at h
  by_cases hd : c = 0xD3
  · rw [if_pos hd] at h; injection h with h; subst h; simp [Ty.isBits] at hb
  rw [if_neg hd] at h
  injection h

/-- a decoded elementary value is never None -/
theorem ldr_decode_not_none (c : Nat) (t : Ty) (h : Cl.atomicTy c = some t) (hb : t.isBits = none)
    (bs rest : Bytes) (v : PyVal) (hd : decode t bs = .ok (v, rest)) : v ≠ .none := by
  rcases ldr_atomicTy_shape c t h hb with rfl | ⟨k, rfl⟩ | rfl | rfl <;>
    simp only [decode, bind, Except.bind] at hd <;> (split at hd <;> cases hd <;> simp)

/-- (e) `parse_read_reply` of the data of a Read Tag reply for one element of an elementary scalar tag: the value
    is what the codec decodes from the bytes after the type code, the type string is the type name -/
theorem ldr_parseReadReply (info : TagInfo) (c : Nat) (t : Ty) (name : Name) (bs rest : Bytes) (v : PyVal)
    (hty : info.core.ty = t) (hname : info.core.dataTypeName = name) (hnd : name ≠ nm "DWORD")
    (ht : Cl.atomicTy c = some t) (hb : t.isBits = none) (hd : decode t bs = .ok (v, rest)) :
    parseReadReply (le 2 c ++ bs) info 1 = .ok (v, name) := by
  have hc := atomicTy_lt c t ht
  have hstream : (Cl.splitTyped (le 2 c ++ bs)).2 = bs := splitTyped_atomic c t ht bs
  have hstruct : ((le 2 c ++ bs).take 2 == [0xA0, 0x02]) = false := by
    have h0 : c / 256 % 256 = 0 := by omega
    simp [le2_eq, h0]
  have hdw : (name == nm "DWORD") = false := by simpa using hnd
  unfold parseReadReply
  rw [hty, hname]
  rcases ldr_atomicTy_shape c t ht hb with rfl | ⟨k, rfl⟩ | rfl | rfl <;>
    simp [hstream, hstruct, hd, hdw]

/-! ### (e) the response object of a plain read request -/

/-- (e) `ReadTagResponsePacket` over such a reply frame: valid, value decoded, type name, no error; and the Tag
    `_send_requests` records -/
theorem ldr_readResp (req : ReadReq) (c : Nat) (t : Ty) (name : Name) (bs rest : Bytes) (v : PyVal)
    (s toId seq : Nat) (ctx : Bytes) (hc : ctx.length = 8) (hel : req.elements = 1)
    (hty : req.info.core.ty = t) (hname : req.info.core.dataTypeName = name) (hnd : name ≠ nm "DWORD")
    (ht : Cl.atomicTy c = some t) (hb : t.isBits = none) (hd : decode t bs = .ok (v, rest)) :
    readTag req
      (readResp req (some (frame CMD_SEND_UNIT s 0 ctx (cpfReplyConnected toId seq
        (encMRReply 0x4C { status := 0, ext := [], data := le 2 c ++ bs }))))).1
      (readResp req (some (frame CMD_SEND_UNIT s 0 ctx (cpfReplyConnected toId seq
        (encMRReply 0x4C { status := 0, ext := [], data := le 2 c ++ bs }))))).2.1
      (readResp req (some (frame CMD_SEND_UNIT s 0 ctx (cpfReplyConnected toId seq
        (encMRReply 0x4C { status := 0, ext := [], data := le 2 c ++ bs }))))).2.2 =
      .ok { tag := req.tag, value := v, type := some name, error := none } := by
  obtain ⟨h1, h2, h3⟩ := ldr_tagResp_ok 0x4C s toId seq ctx (le 2 c ++ bs) hc
  have hp := ldr_parseReadReply req.info c t name bs rest v hty hname hnd ht hb hd
  unfold readResp
  simp only [h1, if_true, h2, Option.getD_some, hel, hp]
  unfold readTag
  simp only [h3, h1, if_true]

/-! ### (f) result assembly -/

/-- (f) the result loop of `read` for an error-free request without bit number on a non-DWORD tag whose response
    was recorded as a truthy Tag: the Tag itself is returned -/
theorem ldr_readResult (p : Parsed) (info : TagInfo) (t : LTag)
    (herr : p.error = none) (hinfo : p.info = some info) (hbit : p.bit = none)
    (hnd : info.core.dataTypeName ≠ nm "DWORD") (hv : t.value ≠ .none) (hte : t.error = none) :
    readResult p [((p.requestId : Nat), t)] = t := by
  have htr : t.truthy = true := by
    unfold LTag.truthy
    rw [hte]
    cases hval : t.value <;> simp_all
  have hdw : (info.core.dataTypeName != nm "DWORD") = true := by simpa using hnd
  unfold readResult
  simp only [herr, hinfo, Results.get?, List.find?_cons, beq_self_eq_true, Option.map_some, htr, if_true, hdw, hbit]

end Pycomm.Lgx.Drv
