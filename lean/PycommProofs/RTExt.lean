/-
  Helper lemmas for the extended round-trip theorems (C06 extension): STRINGN, IPAddress,
  arrays of bit strings, STRINGI, StructTag.  Everything here is independent of the mutual
  induction `RT.full` (RTMain.lean imports this file for the two new leaf cases).
-/
import PycommProofs.RTLemmas
namespace Pycomm
open Pycomm.RT

/-! ### STRINGN -/

theorem rtx_stringNEnc_cases (c : Nat) (enc : Enc) (h : stringNEnc c = some enc) :
    (c = 1 ∧ enc = .utf8) ∨ (c = 2 ∧ enc = .utf16) ∨ (c = 4 ∧ enc = .utf32) := by
  unfold stringNEnc at h
  split at h
  · left; exact ⟨by assumption, by cases h; rfl⟩
  · split at h
    · right; left; exact ⟨by assumption, by cases h; rfl⟩
    · split at h
      · right; right; exact ⟨by assumption, by cases h; rfl⟩
      · cases h

theorem rtx_stringNEnc_width (c : Nat) (enc : Enc) (h : stringNEnc c = some enc) :
    charWidth enc = c ∧ c < 65536 := by
  rcases rtx_stringNEnc_cases c enc h with ⟨rfl, rfl⟩ | ⟨rfl, rfl⟩ | ⟨rfl, rfl⟩ <;> simp [charWidth]

theorem rtx_uint_hi : IntK.hi .uint = 65535 := by simp [IntK.hi, IntK.signed, IntK.size]

/-- STRINGN with an explicit encoding, used both for the `.stringN c` type and inside STRINGI -/
theorem rtx_stringN_core (c : Nat) (enc : Enc) (cs : Name) (he : stringNEnc c = some enc)
    (htxt : TextOk enc cs) (hlen : cs.length < 65536) :
    ∃ bs, encodeStringN c (.str cs) = .ok bs ∧ (∀ rest, decodeStringN (bs ++ rest) = .ok (.str cs, rest)) ∧
      bs ≠ [] := by
  obtain ⟨hw, hc⟩ := rtx_stringNEnc_width c enc he
  obtain ⟨hp1, hlt1⟩ := packInt_nat .uint c rfl (by rw [rtx_uint_hi]; omega)
  obtain ⟨hp2, hlt2⟩ := packInt_nat .uint cs.length rfl (by rw [rtx_uint_hi]; omega)
  obtain ⟨d, hd, hdl, hdec⟩ := text_roundtrip enc cs htxt
  rw [hw] at hdl
  refine ⟨leBytes IntK.uint.size c ++ leBytes IntK.uint.size cs.length ++ d, ?_, ?_, ?_⟩
  · simp only [encodeStringN, he, bind, Except.bind, hp1, hp2, hd]
  · intro rest
    simp only [decodeStringN, List.append_assoc,
      decodeIntNat_append .uint c (leBytes IntK.uint.size cs.length ++ (d ++ rest)) hlt1,
      decodeIntNat_append .uint cs.length (d ++ rest) hlt2, bind, Except.bind, he]
    by_cases h0 : cs.length = 0
    · have : cs = [] := List.eq_nil_of_length_eq_zero h0
      subst this
      have : d = [] := by simpa [Text.encode] using hd.symm
      subst this
      simp
    · have hdne : d ≠ [] := by
        intro e; rw [e] at hdl
        have h2 : cs.length * c = 0 := by simpa using hdl.symm
        have : 0 < c := by
          rcases rtx_stringNEnc_cases c enc he with ⟨rfl, _⟩ | ⟨rfl, _⟩ | ⟨rfl, _⟩ <;> omega
        rcases Nat.mul_eq_zero.mp h2 with h | h <;> omega
      have hs := streamRead_append d rest (cs.length * c) hdl hdne
      simp only [h0, if_false]
      simp only [hs, hdl, Nat.lt_irrefl, if_false, hdec]
  · have := leBytes_ne_nil IntK.uint.size c (IntK.size_pos .uint)
    simp [this]

theorem rtx_decodeStringN_nil : decodeStringN [] = .error .bufferEmpty := by
  simp only [decodeStringN, decodeIntNat_nil]; rfl

theorem rtx_leaf_stringN (c : Nat) (v : PyVal) (h : Canon (.stringN c) v) : Leaf (.stringN c) v := by
  obtain ⟨enc, cs, he, rfl, htxt, hlen⟩ := h
  obtain ⟨bs, h1, h2, h3⟩ := rtx_stringN_core c enc cs he htxt hlen
  refine ⟨bs, by simp only [encode]; exact h1, ?_, h3, ?_⟩
  · intro rest; simp only [decode]; exact h2 rest
  · simp only [decode]; exact rtx_decodeStringN_nil

/-! ### IPv4 addresses: `parseIPv4 ∘ renderIPv4 = id` on four bytes -/

/-- per octet, by enumeration of the 256 values: the decimal rendering parses back and has no dot -/
theorem rtx_octet : ∀ n, n < 256 →
    (parseOctet (natToDec n) = some n ∧ (natToDec n).all (· != 46) = true) := by
  decide +kernel

theorem rtx_splitOn_ne_nil (sep : Nat) (cs : List Nat) : splitOn sep cs ≠ [] := by
  cases cs with
  | nil => simp [splitOn]
  | cons c cs =>
    rw [splitOn]
    split
    · simp
    · split <;> simp

theorem rtx_splitOn_nosep (sep : Nat) (d : List Nat) (h : d.all (· != sep) = true) :
    splitOn sep d = [d] := by
  induction d with
  | nil => simp [splitOn]
  | cons c d ih =>
    simp only [List.all_cons, Bool.and_eq_true, bne_iff_ne, ne_eq] at h
    rw [splitOn, ih h.2]
    simp [h.1]

theorem rtx_splitOn_append (sep : Nat) (d rest : List Nat) (h : d.all (· != sep) = true) :
    splitOn sep (d ++ sep :: rest) = d :: splitOn sep rest := by
  induction d with
  | nil =>
    simp only [List.nil_append]
    rw [splitOn]
    cases hs : splitOn sep rest with
    | nil => exact absurd hs (rtx_splitOn_ne_nil _ _)
    | cons a t => simp
  | cons c d ih =>
    simp only [List.all_cons, Bool.and_eq_true, bne_iff_ne, ne_eq] at h
    simp only [List.cons_append]
    rw [splitOn, ih h.2]
    simp [h.1]

theorem rtx_parse_render (bs : Bytes) (h : bs.length = 4) :
    parseIPv4 (renderIPv4 bs) = some (bs.map (·.toNat)) := by
  match bs, h with
  | [a, b, c, d], _ =>
    have ha := rtx_octet a.toNat a.toNat_lt
    have hb := rtx_octet b.toNat b.toNat_lt
    have hc := rtx_octet c.toNat c.toNat_lt
    have hd := rtx_octet d.toNat d.toNat_lt
    have hr : renderIPv4 [a, b, c, d] =
        natToDec a.toNat ++ 46 :: (natToDec b.toNat ++ 46 :: (natToDec c.toNat ++ 46 :: natToDec d.toNat)) := by
      simp [renderIPv4]
    have hs : splitOn 46 (renderIPv4 [a, b, c, d]) =
        [natToDec a.toNat, natToDec b.toNat, natToDec c.toNat, natToDec d.toNat] := by
      rw [hr, rtx_splitOn_append 46 _ _ ha.2, rtx_splitOn_append 46 _ _ hb.2,
        rtx_splitOn_append 46 _ _ hc.2, rtx_splitOn_nosep 46 _ hd.2]
    simp [parseIPv4, hs, ha.1, hb.1, hc.1, hd.1]

theorem rtx_ofNat_toNat (bs : Bytes) : (bs.map (·.toNat)).map (fun o => UInt8.ofNat o) = bs := by
  induction bs with
  | nil => rfl
  | cons b bs ih => simp [ih]

theorem rtx_leaf_ip (v : PyVal) (h : Canon .ipAddr v) : Leaf .ipAddr v := by
  obtain ⟨bs, hlen, rfl⟩ := h
  have hne : bs ≠ [] := by intro e; simp [e] at hlen
  refine ⟨bs, ?_, ?_, hne, ?_⟩
  · simp only [encode, encodeIp, rtx_parse_render bs hlen, rtx_ofNat_toNat]
  · intro rest
    have : streamRead (4 : Int) (bs ++ rest) = .ok (bs, rest) := streamRead_append bs rest 4 hlen hne
    simp [decode, decodeIp, this, bind, Except.bind, hlen]
  · simp only [decode, decodeIp, streamRead_nil]; rfl

/-! ### arrays of bit strings -/

/-- one bit string, for ANY host integer type (signedness plays no role in the codec) -/
theorem rtx_bits_rt (k : IntK) (bs : List Bool) (hlen : bs.length = 8 * k.size) :
    ∃ enc, encode (.bits k) (.list (bs.map PyVal.bool)) = .ok enc ∧ enc.length = k.size ∧ enc ≠ [] ∧
      ∀ rest, decode (.bits k) (enc ++ rest) = .ok (.list (bs.map PyVal.bool), rest) := by
  refine ⟨leBytes k.size (bitsToNat (bs.map PyVal.bool)), ?_, leBytes_length _ _,
    leBytes_ne_nil _ _ (IntK.size_pos k), ?_⟩
  · simp [encode, encodeBits, PyVal.iter?, PyVal.seq?, hlen]
  · intro rest
    have hlt : bitsToNat (bs.map PyVal.bool) < 256 ^ k.size := by
      rw [pow_256, ← hlen]; exact bitsToNat_lt bs
    simp only [decode, decodeBits, decodeIntNat_append k _ rest hlt, bind, Except.bind]
    rw [← hlen, natToBits_bitsToNat]

theorem rtx_bits_nil (k : IntK) : decode (.bits k) [] = .error .bufferEmpty := by
  simp only [decode, decodeBits, decodeIntNat_nil]; rfl

/-- a flat list of `n * w` values is cut into `n` chunks of `w` -/
theorem rtx_chunks (w : Nat) (hw : 0 < w) : ∀ (n : Nat) (bools : List Bool) (fuel : Nat),
    bools.length = n * w → n < fuel →
    ∃ cs : List (List Bool), cs.length = n ∧ (∀ c ∈ cs, c.length = w) ∧ cs.flatten = bools ∧
      chunks w (bools.map PyVal.bool) fuel = cs.map (fun c => c.map PyVal.bool)
  | 0, bools, fuel, hl, hf => by
    have : bools = [] := List.eq_nil_of_length_eq_zero (by simpa using hl)
    subst this
    cases fuel with
    | zero => omega
    | succ fuel => exact ⟨[], rfl, by simp, rfl, by simp [chunks]⟩
  | n + 1, bools, fuel, hl, hf => by
    cases fuel with
    | zero => omega
    | succ fuel =>
      have hl' : (bools.drop w).length = n * w := by
        rw [List.length_drop, hl, Nat.succ_mul]; omega
      obtain ⟨cs, h1, h2, h3, h4⟩ := rtx_chunks w hw n (bools.drop w) fuel hl' (by omega)
      have hne : bools ≠ [] := by
        intro e; subst e
        rw [Nat.succ_mul] at hl; simp at hl; omega
      have hwl : w ≤ bools.length := by rw [hl, Nat.succ_mul]; omega
      refine ⟨bools.take w :: cs, by simp [h1], ?_, ?_, ?_⟩
      · intro c hc
        rcases List.mem_cons.1 hc with rfl | hc
        · simp [List.length_take]; omega
        · exact h2 c hc
      · simp [h3]
      · have he : (bools.map PyVal.bool).isEmpty = false := by
          cases bools with
          | nil => exact absurd rfl hne
          | cons _ _ => rfl
        rw [chunks]
        simp only [he, Bool.false_eq_true, if_false, ← List.map_drop, h4, ← List.map_take, List.map_cons]

theorem rtx_flattenBits (cs : List (List Bool)) :
    flattenBits (cs.map fun c => PyVal.list (c.map PyVal.bool)) = cs.flatten.map PyVal.bool := by
  induction cs with
  | nil => rfl
  | cons c cs ih => simp [flattenBits, ih]

theorem rtx_bitchunks_len (k : IntK) (cs : List (List Bool)) (h : ∀ c ∈ cs, c.length = 8 * k.size) :
    ∀ enc, encodeList (encode (.bits k)) (cs.map fun c => PyVal.list (c.map PyVal.bool)) = .ok enc →
      enc.length = cs.length * k.size := by
  induction cs with
  | nil => intro enc he; simp [encodeList] at he; subst he; simp
  | cons c cs ih =>
    intro enc he
    obtain ⟨a, h1, h2, _, _⟩ := rtx_bits_rt k c (h c List.mem_cons_self)
    simp only [List.map_cons, encodeList, h1, bind, Except.bind] at he
    split at he
    · cases he
    · rename_i r hr
      cases he
      have := ih (fun c hc => h c (List.mem_cons_of_mem _ hc)) r hr
      simp [this, h2, Nat.succ_mul]; omega

/-- the chunk lists round-trip element by element -/
theorem rtx_bitchunks (k : IntK) (cs : List (List Bool)) (h : ∀ c ∈ cs, c.length = 8 * k.size) :
    ∃ enc, encodeList (encode (.bits k)) (cs.map fun c => PyVal.list (c.map PyVal.bool)) = .ok enc ∧
      enc.length = cs.length * k.size ∧
      (∀ rest, decodeN (decode (.bits k)) cs.length (enc ++ rest) =
        .ok (cs.map fun c => PyVal.list (c.map PyVal.bool), rest)) ∧
      (∀ fuel, enc.length < fuel → decodeAll (decode (.bits k)) fuel enc =
        .ok (cs.map fun c => PyVal.list (c.map PyVal.bool), [])) := by
  have hall : ∀ x ∈ cs.map (fun c => PyVal.list (c.map PyVal.bool)),
      ∃ bs, encode (.bits k) x = .ok bs ∧ bs ≠ [] ∧ ∀ rest, decode (.bits k) (bs ++ rest) = .ok (x, rest) := by
    intro x hx
    obtain ⟨c, hc, rfl⟩ := List.mem_map.1 hx
    obtain ⟨enc, h1, _, h3, h4⟩ := rtx_bits_rt k c (h c hc)
    exact ⟨enc, h1, h3, h4⟩
  obtain ⟨enc, he, _, hall'⟩ := list_roundtrip_all _ _ _ hall (rtx_bits_nil k)
  obtain ⟨enc', he', hn⟩ := list_roundtrip (encode (.bits k)) (decode (.bits k)) _
    (fun x hx => let ⟨bs, a, _, c⟩ := hall x hx; ⟨bs, a, c⟩)
  rw [he] at he'; cases he'
  refine ⟨enc, he, rtx_bitchunks_len k cs h enc he, ?_, hall'⟩
  · intro rest
    have := hn rest
    simpa using this

/-! ### STRINGI -/

/-- domain of each string class STRINGI can embed (STRINGN is used with character size 1) -/
def StrKind.Dom : StrKind → Name → Prop
  | .string, cs => TextOk .latin1 cs ∧ cs.length < 65536
  | .string2, cs => TextOk .utf16 cs ∧ cs.length < 65536
  | .stringN, cs => TextOk .utf8 cs ∧ cs.length < 65536
  | .shortString, cs => TextOk .latin1 cs ∧ cs.length < 256

/-- one `(string, str_type, lang, char_set)` item of `STRINGI.encode`, as a specification record -/
structure SIItem where
  s : Name
  kind : StrKind
  lang : Name
  cset : Nat

/-- the Python value passed to `STRINGI.encode` for one item (the type is given by its CIP code) -/
def SIItem.val (i : SIItem) : PyVal :=
  .tuple [.str i.s, .int i.kind.code, .str i.lang, .int i.cset]

def SIItem.Ok (i : SIItem) : Prop :=
  i.kind.Dom i.s ∧ i.lang.length = 3 ∧ (∀ c ∈ i.lang, c < 128) ∧ i.cset < 65536

theorem rtx_kind_rt (k : StrKind) (cs : Name) (h : k.Dom cs) :
    ∃ d, k.encode (.str cs) = .ok d ∧ ∀ rest, k.decode (d ++ rest) = .ok (.str cs, rest) := by
  cases k with
  | string =>
    obtain ⟨d, h1, h2, _, _⟩ := leaf_str .uint .latin1 (.str cs)
      ⟨cs, rfl, rfl, h.1, by rw [rtx_uint_hi]; have := h.2; omega⟩
    simp only [encode, decode] at h1 h2
    exact ⟨d, h1, h2⟩
  | string2 =>
    obtain ⟨d, h1, h2, _, _⟩ := leaf_str .uint .utf16 (.str cs)
      ⟨cs, rfl, rfl, h.1, by rw [rtx_uint_hi]; have := h.2; omega⟩
    simp only [encode, decode] at h1 h2
    exact ⟨d, h1, h2⟩
  | stringN =>
    obtain ⟨d, h1, h2, _⟩ := rtx_stringN_core 1 .utf8 cs rfl h.1 h.2
    exact ⟨d, h1, h2⟩
  | shortString =>
    obtain ⟨d, h1, h2, _, _⟩ := leaf_str .usint .latin1 (.str cs)
      ⟨cs, rfl, rfl, h.1, by simp only [IntK.hi, IntK.signed, IntK.size]; have := h.2; simp; omega⟩
    simp only [encode, decode] at h1 h2
    exact ⟨d, h1, h2⟩

theorem rtx_kind_code (k : StrKind) : StrKind.ofCode k.code = some k ∧ k.code < 256 := by
  cases k <;> simp [StrKind.ofCode, StrKind.code]

theorem rtx_lang_bytes (lang : Name) (h : ∀ c ∈ lang, c < 128) :
    Text.decLatin1 (lang.map fun c => UInt8.ofNat c) = lang ∧ isAscii lang = true := by
  induction lang with
  | nil => simp [Text.decLatin1, isAscii]
  | cons c cs ih =>
    have hc := h c List.mem_cons_self
    obtain ⟨h1, h2⟩ := ih (fun x hx => h x (List.mem_cons_of_mem _ hx))
    simp only [Text.decLatin1, isAscii] at *
    simp only [List.map_cons, toNat_ofNat, h1, List.all_cons, h2, Bool.and_true]
    refine ⟨?_, by simpa using hc⟩
    congr 1; omega

/-- one item: its bytes, and one step of the decoding loop -/
theorem rtx_stringI_item (i : SIItem) (h : i.Ok) :
    ∃ bs, encodeStringIItem i.val = .ok bs ∧
      ∀ n rest ss ls cs, decodeStringIItems (n + 1) (bs ++ rest) ss ls cs =
        decodeStringIItems n rest (.str i.s :: ss) (.str i.lang :: ls) (.int i.cset :: cs) := by
  obtain ⟨hdom, hl3, hasc, hcs⟩ := h
  obtain ⟨d, hd1, hd2⟩ := rtx_kind_rt i.kind i.s hdom
  obtain ⟨hk1, hk2⟩ := rtx_kind_code i.kind
  obtain ⟨hlb, hia⟩ := rtx_lang_bytes i.lang hasc
  obtain ⟨hp, hlt⟩ := packInt_nat .uint i.cset rfl (by rw [rtx_uint_hi]; omega)
  have hcode : ¬ ((i.kind.code : Int) < 0) := by omega
  refine ⟨(i.lang.map fun c => UInt8.ofNat c) ++ [UInt8.ofNat i.kind.code] ++ leBytes IntK.uint.size i.cset ++ d,
    ?_, ?_⟩
  · simp only [encodeStringIItem, SIItem.val, PyVal.seq?, Int.toNat_natCast, hk1, hcode, hia,
      Bool.not_true, Bool.false_eq_true, or_self, if_false, hp, hd1, bind, Except.bind]
  · intro n rest ss ls cs
    have hlen : (i.lang.map fun c => UInt8.ofNat c).length = 3 := by simp [hl3]
    have htake : (((i.lang.map fun c => UInt8.ofNat c) ++ [UInt8.ofNat i.kind.code] ++
        leBytes IntK.uint.size i.cset ++ d) ++ rest).take 3 = i.lang.map fun c => UInt8.ofNat c := by
      simp only [List.append_assoc]; exact take_append_len _ _ 3 hlen
    have hdrop : (((i.lang.map fun c => UInt8.ofNat c) ++ [UInt8.ofNat i.kind.code] ++
        leBytes IntK.uint.size i.cset ++ d) ++ rest).drop 3 =
        UInt8.ofNat i.kind.code :: (leBytes IntK.uint.size i.cset ++ (d ++ rest)) := by
      simp only [List.append_assoc]; rw [drop_append_len _ _ 3 hlen]; rfl
    have hemp : (i.lang.map fun c => UInt8.ofNat c).isEmpty = false := by
      cases hm : (i.lang.map fun c => UInt8.ofNat c) with
      | nil => rw [hm] at hlen; simp at hlen
      | cons _ _ => rfl
    have htb : (UInt8.ofNat i.kind.code).toNat = i.kind.code := by rw [toNat_ofNat]; omega
    rw [decodeStringIItems]
    simp only [htake, hdrop, hemp, hlen, Nat.lt_irrefl, Bool.false_eq_true, if_false, htb, hk1,
      decodeIntNat_append .uint i.cset (d ++ rest) hlt, hd2 rest, bind, Except.bind, hlb]

theorem rtx_stringI_items (items : List SIItem) (h : ∀ i ∈ items, i.Ok) :
    ∃ bs, encodeStringIItems (items.map SIItem.val) = .ok bs ∧
      ∀ rest ss ls cs, decodeStringIItems items.length (bs ++ rest) ss ls cs =
        .ok (.tuple [.list (ss.reverse ++ items.map fun i => .str i.s),
                     .list (ls.reverse ++ items.map fun i => .str i.lang),
                     .list (cs.reverse ++ items.map fun i => .int i.cset)], rest) := by
  induction items with
  | nil => exact ⟨[], rfl, by intro rest ss ls cs; simp [decodeStringIItems]⟩
  | cons i items ih =>
    obtain ⟨a, ha, hda⟩ := rtx_stringI_item i (h i List.mem_cons_self)
    obtain ⟨r, hr, hdr⟩ := ih (fun x hx => h x (List.mem_cons_of_mem _ hx))
    refine ⟨a ++ r, ?_, ?_⟩
    · simp only [List.map_cons, encodeStringIItems, ha, hr, bind, Except.bind]
    · intro rest ss ls cs
      simp only [List.length_cons, List.append_assoc, hda, hdr, List.reverse_cons, List.map_cons,
        List.singleton_append]

/-! ### StructTag -/

theorem rtx_splice_length (v enc : Bytes) (off : Nat) (h : off + enc.length ≤ v.length) :
    (splice v off enc).length = v.length := by
  simp only [splice, List.length_append, List.length_take, List.length_drop]; omega

theorem rtx_splice_get (v enc : Bytes) (off : Nat) (h : off + enc.length ≤ v.length) (j : Nat) :
    (splice v off enc)[j]? = if off ≤ j ∧ j < off + enc.length then enc[j - off]? else v[j]? := by
  unfold splice
  have hl : (v.take off).length = off := by rw [List.length_take]; omega
  rw [List.append_assoc, List.getElem?_append, hl]
  by_cases h1 : j < off
  · have : ¬ (off ≤ j ∧ j < off + enc.length) := by omega
    simp only [h1, if_true, this, if_false, List.getElem?_take, if_true]
  · simp only [h1, if_false]
    rw [List.getElem?_append]
    by_cases h2 : j - off < enc.length
    · have : off ≤ j ∧ j < off + enc.length := by omega
      simp only [h2, if_true, this, and_self]
    · have : ¬ (off ≤ j ∧ j < off + enc.length) := by omega
      simp only [h2, if_false, this, List.getElem?_drop]
      congr 1; omega

/-- `enc` sits in `raw` at byte `off` -/
def SliceAt (raw : Bytes) (off : Nat) (enc : Bytes) : Prop :=
  off + enc.length ≤ raw.length ∧ ∀ i, i < enc.length → raw[off + i]? = enc[i]?

theorem rtx_drop_of_slice (raw enc : Bytes) (off : Nat) (h : SliceAt raw off enc) :
    raw.drop off = enc ++ raw.drop (off + enc.length) := by
  apply List.ext_getElem?
  intro i
  rw [List.getElem?_drop, List.getElem?_append]
  by_cases hi : i < enc.length
  · simp only [hi, if_true]; exact h.2 i hi
  · simp only [hi, if_false, List.getElem?_drop]
    congr 1; omega

/-- the bit test `decodeTagBits` performs -/
def tagBit (raw : Bytes) (off bit : Nat) : Bool := (raw.getD off 0).toNat &&& (1 <<< bit) != 0

theorem rtx_bitfact : ∀ old, old < 256 → ∀ bit, bit < 8 → ∀ bit', bit' < 8 → ∀ on : Bool,
    (((UInt8.ofNat (if on then old ||| (1 <<< bit) else old &&& (255 - (1 <<< bit)))).toNat &&& (1 <<< bit') != 0)
      = if bit' = bit then on else (old &&& (1 <<< bit') != 0)) := by
  decide +kernel

theorem rtx_setBitAt (v : Bytes) (off bit : Nat) (on : Bool) (ho : off < v.length) (hb : bit < 8) :
    ∃ v', setBitAt v off bit on = .ok v' ∧ v'.length = v.length ∧
      (∀ j, j ≠ off → v'[j]? = v[j]?) ∧
      (∀ o b, b < 8 → tagBit v' o b = if (o, b) = (off, bit) then on else tagBit v o b) := by
  refine ⟨v.set off (UInt8.ofNat (if on then (v.getD off 0).toNat ||| (1 <<< bit)
      else (v.getD off 0).toNat &&& (255 - (1 <<< bit)))),
    by simp only [setBitAt, ho, hb, and_self, if_true], by simp, ?_, ?_⟩
  · intro j hj
    rw [List.getElem?_set_ne (Ne.symm hj)]
  · intro o b hb'
    by_cases ho' : o = off
    · subst ho'
      have hf := rtx_bitfact (v.getD o 0).toNat (UInt8.toNat_lt _) bit hb b hb' on
      simp only [tagBit, List.getD_eq_getElem?_getD, List.getElem?_set_self ho, Option.getD_some] at hf ⊢
      rw [hf]
      simp
    · have : ¬ ((o, b) = (off, bit)) := by intro e; cases e; exact ho' rfl
      simp only [this, if_false, tagBit, List.getD_eq_getElem?_getD]
      rw [List.getElem?_set_ne (Ne.symm ho')]

theorem rtx_encBits (kvs : List (Name × PyVal)) : ∀ (bits : List (Name × Nat × Nat)) (value : Bytes),
    (∀ b ∈ bits, b.2.1 < value.length ∧ b.2.2 < 8) →
    (∀ b ∈ bits, ∃ x, dictGet kvs b.1 = some (.bool x)) →
    (bits.map (·.2)).Nodup →
    ∃ value', encodeTagBits kvs bits value = .ok value' ∧ value'.length = value.length ∧
      (∀ j, (∀ b ∈ bits, b.2.1 ≠ j) → value'[j]? = value[j]?) ∧
      (∀ o b, b < 8 → (∀ x ∈ bits, x.2 ≠ (o, b)) → tagBit value' o b = tagBit value o b) ∧
      (∀ b ∈ bits, dictGet kvs b.1 = some (.bool (tagBit value' b.2.1 b.2.2)))
  | [], value, _, _, _ => ⟨value, rfl, rfl, fun _ _ => rfl, fun _ _ _ _ => rfl, by simp⟩
  | (nm, off, bit) :: rest, value, hr, hl, hn => by
    obtain ⟨x, hx⟩ := hl (nm, off, bit) List.mem_cons_self
    obtain ⟨ho, hb⟩ := hr (nm, off, bit) List.mem_cons_self
    obtain ⟨v1, hs, hlen1, hget1, hbit1⟩ := rtx_setBitAt value off bit x ho hb
    simp only [List.map_cons, List.nodup_cons] at hn
    obtain ⟨v2, he, hlen2, hget2, hbit2, hlk2⟩ := rtx_encBits kvs rest v1
      (fun b hb => by rw [hlen1]; exact hr b (List.mem_cons_of_mem _ hb))
      (fun b hb => hl b (List.mem_cons_of_mem _ hb)) hn.2
    refine ⟨v2, ?_, by rw [hlen2, hlen1], ?_, ?_, ?_⟩
    · simp only [encodeTagBits, hx, PyVal.truthy, hs, bind, Except.bind, he]
    · intro j hj
      rw [hget2 j (fun b hb => hj b (List.mem_cons_of_mem _ hb)),
        hget1 j (Ne.symm (hj (nm, off, bit) List.mem_cons_self))]
    · intro o b hb' hne
      rw [hbit2 o b hb' (fun y hy => hne y (List.mem_cons_of_mem _ hy)), hbit1 o b hb']
      have : ¬ ((o, b) = (off, bit)) := fun e => hne (nm, off, bit) List.mem_cons_self e.symm
      simp only [this, if_false]
    · intro b hb'
      rcases List.mem_cons.1 hb' with rfl | hb'
      · have h1 : tagBit v2 off bit = tagBit v1 off bit := hbit2 off bit hb (fun y hy e => by
          apply hn.1
          exact List.mem_map.2 ⟨y, hy, e⟩)
        simp only [h1, hbit1 off bit hb, if_true, hx]
      · exact hlk2 b hb'

theorem rtx_decBits (raw : Bytes) : ∀ (bits : List (Name × Nat × Nat)) (acc : List (Name × PyVal)),
    (∀ b ∈ bits, b.2.1 < raw.length) → (bits.map (·.1)).Nodup → (∀ a ∈ acc, ∀ b ∈ bits, a.1 ≠ b.1) →
    decodeTagBits raw bits acc = .ok (acc ++ bits.map (fun b => (b.1, .bool (tagBit raw b.2.1 b.2.2))))
  | [], acc, _, _, _ => by simp [decodeTagBits]
  | (nm, off, bit) :: rest, acc, hr, hn, hf => by
    simp only [List.map_cons, List.nodup_cons] at hn
    have ho := hr (nm, off, bit) List.mem_cons_self
    have hset : dictSet acc nm (.bool (tagBit raw off bit)) = acc ++ [(nm, .bool (tagBit raw off bit))] :=
      dictSet_fresh acc nm _ (fun a ha => hf a ha (nm, off, bit) List.mem_cons_self)
    have ih := rtx_decBits raw rest (acc ++ [(nm, .bool (tagBit raw off bit))])
      (fun b hb => hr b (List.mem_cons_of_mem _ hb)) hn.2 (by
        intro a ha b hb
        rcases List.mem_append.1 ha with ha | ha
        · exact hf a ha b (List.mem_cons_of_mem _ hb)
        · simp only [List.mem_singleton] at ha
          subst ha
          intro e
          exact hn.1 (List.mem_map.2 ⟨b, hb, e.symm⟩))
    rw [decodeTagBits]
    simp only [ho, if_true]
    change decodeTagBits raw rest (dictSet acc nm (.bool (tagBit raw off bit))) = _
    rw [hset, ih]
    simp

def TMembers.toList : TMembers → List (Name × Ty × Nat)
  | .nil => []
  | .cons name t off rest => (name, t, off) :: rest.toList

def TMembers.names (ms : TMembers) : List Name := ms.toList.map (·.1)

/-- members from byte `pos` on: offsets in order, no overlap, fixed widths, inside `size`, distinct names -/
def TagMembersOk (size : Nat) : TMembers → Nat → Prop
  | .nil, _ => True
  | .cons name t off rest, pos =>
      pos ≤ off ∧ name ∉ rest.names ∧
      ∃ w, fixedWidth t = some w ∧ off + w ≤ size ∧ TagMembersOk size rest (off + w)

theorem rtx_okm_lb (size : Nat) : ∀ (ms : TMembers) (pos : Nat), TagMembersOk size ms pos →
    ∀ m ∈ ms.toList, pos ≤ m.2.2
  | .nil, _, _, m, hm => by simp [TMembers.toList] at hm
  | .cons name t off rest, pos, h, m, hm => by
    simp only [TagMembersOk] at h
    obtain ⟨h1, _, w, _, _, h5⟩ := h
    simp only [TMembers.toList, List.mem_cons] at hm
    rcases hm with rfl | hm
    · exact h1
    · have := rtx_okm_lb size rest (off + w) h5 m hm
      omega

/-- what `encode`/`decode` need of a visible member and its value -/
def MemberRT (kvs : List (Name × PyVal)) (m : Name × Ty × Nat) (w : Nat) (v : PyVal) (enc : Bytes) : Prop :=
  dictGet kvs m.1 = some v ∧ encode m.2.1 v = .ok enc ∧ enc.length = w ∧
    ∀ rest, decode m.2.1 (enc ++ rest) = .ok (v, rest)

theorem rtx_encTM (priv : List Name) (size : Nat) (kvs : List (Name × PyVal)) :
    ∀ (ms : TMembers) (pos : Nat) (value : Bytes), TagMembersOk size ms pos → value.length = size →
    (∀ m ∈ ms.toList, m.1 ∉ priv → ∀ w, fixedWidth m.2.1 = some w → ∃ v enc, MemberRT kvs m w v enc) →
    ∃ value', encodeTMembers ms priv kvs value = .ok value' ∧ value'.length = size ∧
      (∀ j, (∀ m ∈ ms.toList, m.1 ∉ priv → ∀ w, fixedWidth m.2.1 = some w → ¬ (m.2.2 ≤ j ∧ j < m.2.2 + w)) →
        value'[j]? = value[j]?) ∧
      (∀ m ∈ ms.toList, m.1 ∉ priv → ∀ w, fixedWidth m.2.1 = some w →
        ∃ v enc, MemberRT kvs m w v enc ∧ SliceAt value' m.2.2 enc)
  | .nil, pos, value, _, hl, _ =>
    ⟨value, by simp [encodeTMembers], hl, fun _ _ => rfl, by simp [TMembers.toList]⟩
  | .cons name t off rest, pos, value, hok, hl, hv => by
    simp only [TagMembersOk] at hok
    obtain ⟨hpos, hfresh, w, hw, hsz, hrest⟩ := hok
    have hvr : ∀ m ∈ rest.toList, m.1 ∉ priv → ∀ w, fixedWidth m.2.1 = some w → ∃ v enc, MemberRT kvs m w v enc :=
      fun m hm => hv m (by simp [TMembers.toList, hm])
    by_cases hp : name ∈ priv
    · obtain ⟨v', h1, h2, h3, h4⟩ := rtx_encTM priv size kvs rest (off + w) value hrest hl hvr
      refine ⟨v', ?_, h2, ?_, ?_⟩
      · rw [encodeTMembers]; simp only [List.contains_iff_mem.2 hp, if_true, h1]
      · intro j hj
        exact h3 j (fun m hm => hj m (by simp [TMembers.toList, hm]))
      · intro m hm hmp
        simp only [TMembers.toList, List.mem_cons] at hm
        rcases hm with rfl | hm
        · exact absurd hp hmp
        · exact h4 m hm hmp
    · obtain ⟨v, enc, hg, he, hel, hd⟩ := hv (name, t, off) (by simp [TMembers.toList]) hp w hw
      have hfit : off + enc.length ≤ value.length := by rw [hel, hl]; exact hsz
      have hl1 : (splice value off enc).length = size := by rw [rtx_splice_length _ _ _ hfit, hl]
      obtain ⟨v', h1, h2, h3, h4⟩ := rtx_encTM priv size kvs rest (off + w) (splice value off enc) hrest hl1 hvr
      have hpc : priv.contains name = false := by
        cases hc : priv.contains name with
        | false => rfl
        | true => exact absurd (List.contains_iff_mem.1 hc) hp
      refine ⟨v', ?_, h2, ?_, ?_⟩
      · rw [encodeTMembers]
        simp only [hpc, Bool.false_eq_true, if_false]
        simp only [hg, argOf_of_fixedWidth t w v hw, he, bind, Except.bind, h1]
      · intro j hj
        rw [h3 j (fun m hm => hj m (by simp [TMembers.toList, hm])), rtx_splice_get _ _ _ hfit]
        have := hj (name, t, off) (by simp [TMembers.toList]) hp w hw
        rw [hel]
        simp only [this, if_false]
      · intro m hm hmp w' hw'
        simp only [TMembers.toList, List.mem_cons] at hm
        rcases hm with rfl | hm
        · rw [hw] at hw'; cases hw'
          refine ⟨v, enc, ⟨hg, he, hel, hd⟩, by rw [h2, hel]; exact hsz, ?_⟩
          intro i hi
          rw [h3 (off + i) (fun m hm hmp w' hw' => by
            have := rtx_okm_lb size rest (off + w) hrest m hm
            omega), rtx_splice_get _ _ _ hfit]
          have : off ≤ off + i ∧ off + i < off + enc.length := by omega
          simp only [this, and_self, if_true]
          congr 1; omega
        · exact h4 m hm hmp w' hw'

/-- the value `decode` finds for a member in `raw` -/
def valAt (raw : Bytes) (m : Name × Ty × Nat) : PyVal :=
  match decode m.2.1 (raw.drop m.2.2) with
  | .ok (v, _) => v
  | .error _ => .none

theorem rtx_decTM (size : Nat) (raw : Bytes) (hraw : raw.length = size) :
    ∀ (ms : TMembers) (pos : Nat) (acc : List (Name × PyVal)), TagMembersOk size ms pos →
    (∀ m ∈ ms.toList, ∀ w, fixedWidth m.2.1 = some w →
      ∃ v, decode m.2.1 (raw.drop m.2.2) = .ok (v, raw.drop (m.2.2 + w))) →
    (∀ a ∈ acc, a.1 ∉ ms.names) →
    decodeTMembers ms raw pos acc = .ok (acc ++ ms.toList.map (fun m => (m.1, valAt raw m)))
  | .nil, pos, acc, _, _, _ => by simp [decodeTMembers, TMembers.toList]
  | .cons name t off rest, pos, acc, hok, hd, hacc => by
    simp only [TagMembersOk] at hok
    obtain ⟨hpos, hfresh, w, hw, hsz, hrest⟩ := hok
    obtain ⟨v, hv⟩ := hd (name, t, off) (by simp [TMembers.toList]) w hw
    have hpos' : (if pos < off then min off raw.length else pos) = off := by
      split
      · rw [hraw]; omega
      · omega
    have hval : valAt raw (name, t, off) = v := by simp only [valAt, hv]
    have hset : dictSet acc name v = acc ++ [(name, v)] := by
      apply dictSet_fresh
      intro a ha e
      exact hacc a ha (by simp [TMembers.names, TMembers.toList, e])
    have hnp : raw.length - (raw.drop (off + w)).length = off + w := by
      rw [List.length_drop, hraw]; omega
    have ih := rtx_decTM size raw hraw rest (off + w) (acc ++ [(name, v)]) hrest
      (fun m hm => hd m (by simp [TMembers.toList, hm])) (by
        intro a ha
        rcases List.mem_append.1 ha with ha | ha
        · have := hacc a ha
          simp only [TMembers.names, TMembers.toList, List.map_cons, List.mem_cons, not_or] at this
          exact this.2
        · simp only [List.mem_singleton] at ha
          subst ha
          exact hfresh)
    rw [decodeTMembers]
    simp only [hpos', hv, hnp, hset, ih, TMembers.toList, List.map_cons, hval]
    simp


theorem rtx_okm_width (size : Nat) : ∀ (ms : TMembers) (pos : Nat), TagMembersOk size ms pos →
    ∀ m ∈ ms.toList, ∃ w, fixedWidth m.2.1 = some w ∧ m.2.2 + w ≤ size
  | .nil, _, _, m, hm => by simp [TMembers.toList] at hm
  | .cons name t off rest, pos, h, m, hm => by
    simp only [TagMembersOk] at h
    obtain ⟨_, _, w, h3, h4, h5⟩ := h
    simp only [TMembers.toList, List.mem_cons] at hm
    rcases hm with rfl | hm
    · exact ⟨w, h3, h4⟩
    · exact rtx_okm_width size rest (off + w) h5 m hm

theorem rtx_okm_nodup (size : Nat) : ∀ (ms : TMembers) (pos : Nat), TagMembersOk size ms pos → ms.names.Nodup
  | .nil, _, _ => by simp [TMembers.names, TMembers.toList]
  | .cons name t off rest, pos, h => by
    simp only [TagMembersOk] at h
    obtain ⟨_, h2, w, _, _, h5⟩ := h
    have := rtx_okm_nodup size rest (off + w) h5
    simp only [TMembers.names, TMembers.toList, List.map_cons, List.nodup_cons] at *
    exact ⟨h2, this⟩

theorem rtx_dictGet_cons_ne (k k' : Name) (v : PyVal) (tl : List (Name × PyVal)) (h : k ≠ k') :
    dictGet ((k, v) :: tl) k' = dictGet tl k' := by
  have : (k == k') = false := by simpa using h
  simp [dictGet, this]

/-- a dict with distinct keys is its key list paired with the lookups -/
theorem rtx_dict_keys (kvs : List (Name × PyVal)) (h : (kvs.map (·.1)).Nodup) :
    kvs = (kvs.map (·.1)).map (fun k => (k, (dictGet kvs k).getD .none)) := by
  induction kvs with
  | nil => rfl
  | cons kv tl ih =>
    obtain ⟨k, v⟩ := kv
    simp only [List.map_cons, List.nodup_cons] at h
    have h1 : dictGet ((k, v) :: tl) k = some v := by simp [dictGet]
    have h2 : (tl.map (·.1)).map (fun k' => (k', (dictGet ((k, v) :: tl) k').getD .none)) =
        (tl.map (·.1)).map (fun k' => (k', (dictGet tl k').getD .none)) := by
      apply List.map_congr_left
      intro k' hk'
      rw [rtx_dictGet_cons_ne k k' v tl (fun e => h.1 (e ▸ hk'))]
    simp only [List.map_cons, h1, Option.getD_some, h2]
    rw [← ih h.2]

/-- every successful-or-not decode of `t` on at least `w` bytes succeeds and consumes exactly `w` -/
def DecTotal (t : Ty) (w : Nat) : Prop :=
  ∀ bs : Bytes, w ≤ bs.length → ∃ v, decode t bs = .ok (v, bs.drop w)

/-- the visible members, in member order -/
def TMembers.visible (ms : TMembers) (priv : List Name) : List (Name × Ty × Nat) :=
  ms.toList.filter (fun m => !priv.contains m.1)

/-- well-formed Logix template layout -/
structure TagLayout (ms : TMembers) (bits : List (Name × Nat × Nat)) (priv : List Name) (size : Nat) : Prop where
  size_pos : 0 < size
  members : TagMembersOk size ms 0
  hidden_total : ∀ m ∈ ms.toList, m.1 ∈ priv → ∀ w, fixedWidth m.2.1 = some w → DecTotal m.2.1 w
  priv_members : ∀ p ∈ priv, p ∈ ms.names
  bit_names_nodup : (bits.map (·.1)).Nodup
  bit_names_fresh : ∀ b ∈ bits, b.1 ∉ ms.names
  bit_range : ∀ b ∈ bits, b.2.1 < size ∧ b.2.2 < 8
  bit_pos_nodup : (bits.map (·.2)).Nodup
  bit_hidden : ∀ b ∈ bits, ∀ m ∈ ms.toList, m.1 ∉ priv → ∀ w, fixedWidth m.2.1 = some w →
    ¬ (m.2.2 ≤ b.2.1 ∧ b.2.1 < m.2.2 + w)

/-- the dict of a template value: visible member names in member order, then the alias names in order;
    member values satisfy `P`, alias values are `bool`s -/
def TagDict (P : Ty → PyVal → Prop) (ms : TMembers) (bits : List (Name × Nat × Nat)) (priv : List Name)
    (kvs : List (Name × PyVal)) : Prop :=
  kvs.map (·.1) = (ms.visible priv).map (·.1) ++ bits.map (·.1) ∧
  (∀ m ∈ ms.toList, m.1 ∉ priv → ∃ v, dictGet kvs m.1 = some v ∧ P m.2.1 v) ∧
  (∀ b ∈ bits, ∃ x, dictGet kvs b.1 = some (.bool x))

theorem rtx_contains_false (priv : List Name) (n : Name) (h : n ∉ priv) : priv.contains n = false := by
  cases hc : priv.contains n with
  | false => rfl
  | true => exact absurd (List.contains_iff_mem.1 hc) h

theorem rtx_structTag (P : Ty → PyVal → Prop)
    (hP : ∀ t v w, P t v → fixedWidth t = some w →
      ∃ enc, encode t v = .ok enc ∧ enc.length = w ∧ ∀ rest, decode t (enc ++ rest) = .ok (v, rest))
    (ms : TMembers) (bits : List (Name × Nat × Nat)) (priv : List Name) (size : Nat)
    (hl : TagLayout ms bits priv size) (kvs : List (Name × PyVal)) (hk : TagDict P ms bits priv kvs) :
    ∃ enc, encode (.structTag ms bits priv size) (.dict kvs) = .ok enc ∧ enc.length = size ∧
      ∀ rest, decode (.structTag ms bits priv size) (enc ++ rest) = .ok (.dict kvs, rest) := by
  obtain ⟨hkeys, hvis, hbit⟩ := hk
  have hzl : (zeros size).length = size := by simp [zeros]
  obtain ⟨v1, he1, hl1, _, hsl1⟩ := rtx_encTM priv size kvs ms 0 (zeros size) hl.members hzl
    (fun m hm hmp w hw => by
      obtain ⟨v, hg, hp⟩ := hvis m hm hmp
      obtain ⟨enc, h1, h2, h3⟩ := hP _ _ _ hp hw
      exact ⟨v, enc, hg, h1, h2, h3⟩)
  obtain ⟨v2, he2, hl2, hun2, _, hlk2⟩ := rtx_encBits kvs bits v1 (by rw [hl1]; exact hl.bit_range) hbit
    hl.bit_pos_nodup
  have hlen : v2.length = size := by rw [hl2, hl1]
  have hne : v2 ≠ [] := by
    intro e; rw [e] at hlen; have := hl.size_pos; simp at hlen; omega
  -- what decode finds at each member
  have hvisdec : ∀ m ∈ ms.toList, m.1 ∉ priv → ∀ w, fixedWidth m.2.1 = some w →
      ∃ v, dictGet kvs m.1 = some v ∧ decode m.2.1 (v2.drop m.2.2) = .ok (v, v2.drop (m.2.2 + w)) := by
    intro m hm hmp w hw
    obtain ⟨v, enc, ⟨hg, _, hel, hd⟩, hsl⟩ := hsl1 m hm hmp w hw
    have hsl2 : SliceAt v2 m.2.2 enc := ⟨by rw [hlen, ← hl1]; exact hsl.1, fun i hi => by
      rw [hun2 (m.2.2 + i) (fun b hb e => hl.bit_hidden b hb m hm hmp w hw (by omega))]
      exact hsl.2 i hi⟩
    exact ⟨v, hg, by rw [rtx_drop_of_slice _ _ _ hsl2, hd, hel]⟩
  have hdm := rtx_decTM size v2 hlen ms 0 [] hl.members (fun m hm w hw => by
    by_cases hmp : m.1 ∈ priv
    · obtain ⟨w', hw', hfit⟩ := rtx_okm_width size ms 0 hl.members m hm
      rw [hw] at hw'; cases hw'
      obtain ⟨v, hv⟩ := hl.hidden_total m hm hmp w hw (v2.drop m.2.2) (by rw [List.length_drop, hlen]; omega)
      rw [List.drop_drop] at hv
      exact ⟨v, hv⟩
    · obtain ⟨v, _, hv⟩ := hvisdec m hm hmp w hw
      exact ⟨v, hv⟩) (by simp)
  have hdb := rtx_decBits v2 bits (ms.toList.map (fun m => (m.1, valAt v2 m)))
    (fun b hb => by rw [hlen]; exact (hl.bit_range b hb).1) hl.bit_names_nodup (by
      intro a ha b hb e
      obtain ⟨m, hm, rfl⟩ := List.mem_map.1 ha
      exact hl.bit_names_fresh b hb (by rw [← e]; exact List.mem_map.2 ⟨m, hm, rfl⟩))
  refine ⟨v2, by simp only [encode, he1, he2], hlen, ?_⟩
  intro rest
  have hs := streamRead_append v2 rest size hlen hne
  simp only [List.nil_append] at hdm
  simp only [decode, hs, hlen, Nat.lt_irrefl, if_false, hdm, hdb]
  refine congrArg (fun d => Except.ok (PyVal.dict d, rest)) ?_
  -- the filtered dict is `kvs`
  have hnd : (kvs.map (·.1)).Nodup := by
    rw [hkeys, List.nodup_append]
    refine ⟨?_, hl.bit_names_nodup, ?_⟩
    · exact ((rtx_okm_nodup size ms 0 hl.members).sublist
        (List.Sublist.map _ (List.filter_sublist)))
    · intro a ha b hb e
      obtain ⟨m, hm, rfl⟩ := List.mem_map.1 ha
      obtain ⟨b', hb', rfl⟩ := List.mem_map.1 hb
      exact hl.bit_names_fresh b' hb' (by
        rw [← e]; exact List.mem_map.2 ⟨m, (List.mem_filter.1 hm).1, rfl⟩)
  rw [rtx_dict_keys kvs hnd, hkeys, List.filter_append, List.map_append, List.map_map, List.map_map,
    List.filter_map]
  have happ : ∀ {α} (a b c d : List α), a = c → b = d → a ++ b = c ++ d := by
    intro α a b c d h1 h2; rw [h1, h2]
  apply happ
  · show List.map _ (ms.visible priv) = _
    apply List.map_congr_left
    intro m hm
    have hm' := List.mem_filter.1 hm
    have hmp : m.1 ∉ priv := by
      intro hp
      have := hm'.2
      simp only [List.contains_iff_mem.2 hp] at this
      cases this
    obtain ⟨w, hw, _⟩ := rtx_okm_width size ms 0 hl.members m hm'.1
    obtain ⟨v, hg, hv⟩ := hvisdec m hm'.1 hmp w hw
    simp only [Function.comp, valAt, hv, hg, Option.getD_some]
  · rw [List.filter_eq_self.2]
    · apply List.map_congr_left
      intro b hb
      simp only [Function.comp, hlk2 b hb, Option.getD_some]
    · intro a ha
      obtain ⟨b, hb, rfl⟩ := List.mem_map.1 ha
      have : b.1 ∉ priv := fun hp => hl.bit_names_fresh b hb (hl.priv_members _ hp)
      simpa using this

/-! ### member types that always decode (hidden hosts) -/

theorem rtx_streamRead_total (n : Nat) (bs : Bytes) (hn : 0 < n) (h : n ≤ bs.length) :
    streamRead (n : Int) bs = .ok (bs.take n, bs.drop n) := by
  have := streamRead_append (bs.take n) (bs.drop n) n (by rw [List.length_take]; omega) (by
    intro e
    have h2 : (bs.take n).length = n := by rw [List.length_take]; omega
    rw [e] at h2; simp at h2; omega)
  rwa [List.take_append_drop] at this

theorem rtx_decodeIntNat_total (k : IntK) (bs : Bytes) (h : k.size ≤ bs.length) :
    decodeIntNat k bs = .ok (leVal (bs.take k.size), bs.drop k.size) := by
  have hl : (bs.take k.size).length = k.size := by rw [List.length_take]; omega
  simp only [decodeIntNat, rtx_streamRead_total k.size bs (IntK.size_pos k) h, bind, Except.bind, hl,
    Nat.lt_irrefl, if_false]

/-- hidden hosts of the usual kinds always decode -/
theorem rtx_total_int (k : IntK) : DecTotal (.int k) k.size := by
  intro bs h
  simp only [decode, decodeIntVal, rtx_decodeIntNat_total k bs h, bind, Except.bind]
  exact ⟨_, rfl⟩

theorem rtx_total_bits (k : IntK) : DecTotal (.bits k) k.size := by
  intro bs h
  simp only [decode, decodeBits, rtx_decodeIntNat_total k bs h, bind, Except.bind]
  exact ⟨_, rfl⟩

theorem rtx_total_bool : DecTotal .bool 1 := by
  intro bs h
  have hs : streamRead 1 bs = .ok (bs.take 1, bs.drop 1) := rtx_streamRead_total 1 bs (by omega) h
  simp only [decode, hs, bind, Except.bind]
  exact ⟨_, rfl⟩

theorem rtx_total_nbytes (n : Nat) (hn : 0 < n) : DecTotal (.nbytes n) n := by
  intro bs h
  have hl : (bs.take n).length = n := by rw [List.length_take]; omega
  simp only [decode, decodeNBytes, rtx_streamRead_total n bs hn h, bind, Except.bind, Int.toNat_natCast, hl,
    Nat.lt_irrefl, and_false, if_false]
  exact ⟨_, rfl⟩

theorem rtx_decodeN_total (t : Ty) (w : Nat) (h : DecTotal t w) : ∀ (n : Nat) (bs : Bytes), w * n ≤ bs.length →
    ∃ vs, decodeN (decode t) n bs = .ok (vs, bs.drop (w * n))
  | 0, bs, _ => ⟨[], by simp [decodeN]⟩
  | n + 1, bs, hl => by
    rw [Nat.mul_succ] at hl
    obtain ⟨v, hv⟩ := h bs (by omega)
    obtain ⟨vs, hvs⟩ := rtx_decodeN_total t w h n (bs.drop w) (by rw [List.length_drop]; omega)
    refine ⟨v :: vs, ?_⟩
    simp only [decodeN, hv, hvs, bind, Except.bind, List.drop_drop, Nat.mul_succ]
    congr 3; omega

theorem rtx_total_arr (t : Ty) (w n : Nat) (h : DecTotal t w) : DecTotal (.arr (.fixed n) t) (w * n) := by
  intro bs hl
  obtain ⟨vs, hvs⟩ := rtx_decodeN_total t w h n bs hl
  simp only [decode, hvs]
  exact ⟨_, rfl⟩

end Pycomm
