/-
  Proofs for C18, extension: status, input/output and timer/counter addresses; the address fields of the
  request; reads decoded against the reference data table; writes read back at the address level.
-/
import PycommProofs.SlcExt
namespace Pycomm.Slc
open Pycomm.PyStr

-- PROPERTY THEOREMS

/-! ### 1. status file -/

-- STATEMENT NOTE: in the bit form with a count, `S:e/b{n}`, the recorded tag text keeps the `{n}` token; every other
-- form (`S:e{n}`, `Xf:e/b{n}`, `I:e/b{n}`) strips it.  `#eval parseTag (nm "S:5/3{4}")` has `tag = "S:5/3{4}"`,
-- `parseTag (nm "N7:5/3{4}")` has `tag = "N7:5/3"`.
/-- status file, all forms `S:e`, `S:e/b`, `S:e{n}`, `S:e/b{n}` (either case of the letter, no file number in the
    text): file 2, exactly that element, bit and count.  Accepted ranges: element 0–255, bit 0–15. -/
theorem parse_status (c e : Nat) (b n : Option Nat) (hc : upperC c = 83) (he : e ≤ 255)
    (hb : ∀ x, b = some x → x ≤ 15) :
    parseTag ([c] ++ [58] ++ dec e ++ bitTok b ++ cntTok n) =
      some { fileType := [83], fileNumber := 2, element := e, subElement := b.getD 0,
             addressField := if b.isSome then 3 else 2, count := n.getD 1,
             tag := [c] ++ [58] ++ dec e ++ bitTok b ++ (if b.isSome then cntTok n else []) } := by
  have e1 : [c] ++ [58] ++ dec e ++ bitTok b ++ cntTok n = c :: 58 :: (dec e ++ (bitTok b ++ cntTok n)) := by simp
  rw [e1]
  rw [slx_parseTag_S c hc _ _ (slx_parseS_shape c hc (dec e) _ _ b n (dig_dec 2 e (by omega))
    (slx_tw_bitTok b _ (slx_tw_cntTok n)) (slx_optBit_tok b n (fun x hx => by have := hb x hx; omega))
    (slx_countToken_tok n))]
  have hbb : b.getD 0 ≤ 15 := by
    cases b with
    | none => simp
    | some x => simpa using hb x rfl
  have hpre : No123 (c :: 58 :: (dec e ++ bitTok b)) :=
    slx_no123_cons (upperC_ne123 (by omega)) (slx_no123_cons (by decide)
      (slx_no123_append (slx_no123_dec e) (slx_no123_bitTok b)))
  have hstrip : stripCount (c :: 58 :: (dec e ++ (bitTok b ++ cntTok n))) = c :: 58 :: (dec e ++ bitTok b) := by
    have := slx_stripCount_tok hpre n
    simpa using this
  simp only [dec_val, hstrip, he, hbb, and_self, if_true]
  cases b <;> simp [bitTok]

/-- `S:e` -/
theorem parse_status_word (c e : Nat) (hc : upperC c = 83) (he : e ≤ 255) :
    parseTag ([c] ++ [58] ++ dec e) =
      some { fileType := [83], fileNumber := 2, element := e, subElement := 0, addressField := 2, count := 1,
             tag := [c] ++ [58] ++ dec e } := by
  simpa [bitTok, cntTok] using parse_status c e none none hc he (by simp)

/-- `S:e/b` -/
theorem parse_status_bit (c e b : Nat) (hc : upperC c = 83) (he : e ≤ 255) (hb : b ≤ 15) :
    parseTag ([c] ++ [58] ++ dec e ++ [47] ++ dec b) =
      some { fileType := [83], fileNumber := 2, element := e, subElement := b, addressField := 3, count := 1,
             tag := [c] ++ [58] ++ dec e ++ [47] ++ dec b } := by
  simpa [bitTok, cntTok] using parse_status c e (some b) none hc he (by simpa using hb)

/-- `S:e{n}` -/
theorem parse_status_count (c e n : Nat) (hc : upperC c = 83) (he : e ≤ 255) :
    parseTag ([c] ++ [58] ++ dec e ++ [123] ++ dec n ++ [125]) =
      some { fileType := [83], fileNumber := 2, element := e, subElement := 0, addressField := 2, count := n,
             tag := [c] ++ [58] ++ dec e } := by
  simpa [bitTok, cntTok] using parse_status c e none (some n) hc he (by simp)

/-- element above 255 (any number of digits), or bit 16–99: rejected, in every form -/
theorem reject_status_out_of_range (c e : Nat) (b n : Option Nat) (hc : upperC c = 83)
    (hb : ∀ x, b = some x → x ≤ 99) (hbad : 256 ≤ e ∨ ∃ x, b = some x ∧ 16 ≤ x) :
    parseTag ([c] ++ [58] ++ dec e ++ bitTok b ++ cntTok n) = none := by
  have e1 : [c] ++ [58] ++ dec e ++ bitTok b ++ cntTok n = c :: 58 :: (dec e ++ (bitTok b ++ cntTok n)) := by simp
  rw [e1]
  by_cases he : e ≤ 999
  · rw [slx_parseTag_S c hc _ _ (slx_parseS_shape c hc (dec e) _ _ b n (dig_dec 2 e (by omega))
      (slx_tw_bitTok b _ (slx_tw_cntTok n)) (slx_optBit_tok b n hb) (slx_countToken_tok n))]
    simp only [dec_val]
    rw [if_neg]
    rcases hbad with h | ⟨x, rfl, hx⟩
    · omega
    · simp only [Option.getD_some]; omega
  · exact slx_parseTag_S_none c hc _ (slx_parseS_long c (dec e) _ (dec_digit e) (slx_dec_len4 e (by omega)))

-- STATEMENT NOTE: the usual spelling of the status file with its file number, `S2:5`, is rejected; only `S:5` is
-- an address (the I/O pattern, by contrast, accepts and ignores file digits).  `#eval parseTag (nm "S2:5")` = `none`.
/-- the status file takes no file number: `S2:5` is no address -/
theorem reject_status_file_number (c f : Nat) (rest : Name) (hc : upperC c = 83) :
    parseTag ([c] ++ dec f ++ rest) = none := by
  cases hd : dec f with
  | nil => exact absurd hd (dec_ne f)
  | cons x t =>
    have hx : isDigitC x = true := dec_digit f x (by rw [hd]; exact List.mem_cons_self)
    have : x ≠ 58 := by
      intro h; subst h; simp [isDigitC] at hx
    exact slx_parseTag_S_nocolon c x hc this _

example : parseTag (nm "s:5/3") =
    some { fileType := nm "S", fileNumber := 2, element := 5, subElement := 3,
           addressField := 3, count := 1, tag := nm "s:5/3" } := by decide
example : parseTag (nm "S:255") =
    some { fileType := nm "S", fileNumber := 2, element := 255, subElement := 0,
           addressField := 2, count := 1, tag := nm "S:255" } := by decide
example : parseTag (nm "S:5{4}") =
    some { fileType := nm "S", fileNumber := 2, element := 5, subElement := 0,
           addressField := 2, count := 4, tag := nm "S:5" } := by decide
example : parseTag (nm "S:5/3{4}") =
    some { fileType := nm "S", fileNumber := 2, element := 5, subElement := 3,
           addressField := 3, count := 4, tag := nm "S:5/3{4}" } := by decide
example : parseTag (nm "S:256") = none := by decide
example : parseTag (nm "S:1000") = none := by decide
example : parseTag (nm "S:1/16") = none := by decide
example : parseTag (nm "S2:5") = none := by decide

/-! ### 2. input / output files -/

-- STATEMENT NOTE: the file-number digits of an I/O address are accepted and ignored: `O…` is file 0 and `I…` is
-- file 1 whatever the text says.  `#eval parseTag (nm "I5:2")` gives file number 1, `parseTag (nm "O3:1")` file 0.
-- STATEMENT NOTE: the position (sub-element, `.s`) of an I/O address is accepted up to 999 without a range check
-- (element and file numbers are limited to 255): `parseTag (nm "I:1.300")` succeeds with `posNumber = 300`.
-- (history) Before the library repair 241f5c3 the request then failed in `addressFields` with a DataError, not with
-- the RequestError of a rejected address; now the position is sent in the extended form `FF 2C 01`.
/-- input / output files, all forms `[IO](nnn)?:e(.s)?(/b)?({n})?`: file 0 for `O`, file 1 for `I` (the optional
    file-number digits are ignored), exactly that element, position, bit and count.
    Accepted ranges: element 0–255, position 0–999, bit 0–15. -/
theorem parse_io (c e : Nat) (df : Name) (s b n : Option Nat) (hc : IsIO c) (hdf : OptDig3 df) (he : e ≤ 255)
    (hs : ∀ x, s = some x → x ≤ 999) (hb : ∀ x, b = some x → x ≤ 15) :
    parseTag ([c] ++ df ++ [58] ++ dec e ++ posTok s ++ bitTok b ++ cntTok n) =
      some { fileType := [upperC c], fileNumber := if upperC c = 79 then 0 else 1, element := e,
             posNumber := s.getD 0, subElement := b.getD 0, addressField := if b.isSome then 3 else 2,
             count := n.getD 1, tag := [c] ++ df ++ [58] ++ dec e ++ posTok s ++ bitTok b } := by
  have e1 : [c] ++ df ++ [58] ++ dec e ++ posTok s ++ bitTok b ++ cntTok n
      = c :: (df ++ 58 :: (dec e ++ (posTok s ++ (bitTok b ++ cntTok n)))) := by simp
  rw [e1]
  rw [slx_parseTag_IO c hc _ _ (slx_parseIO_shape c hc df (dec e) s b n _ _ hdf (dig_dec 2 e (by omega)) hs
    (slx_tw_bitTok b _ (slx_tw_cntTok n)) (slx_bitcnt_no46 b n)
    (slx_optBit_tok b n (fun x hx => by have := hb x hx; omega)) (slx_countToken_tok n))]
  have hbb : b.getD 0 ≤ 15 := by
    cases b with
    | none => simp
    | some x => simpa using hb x rfl
  have hpre : No123 (c :: (df ++ 58 :: (dec e ++ (posTok s ++ bitTok b)))) :=
    slx_no123_cons (slx_isIO_ne123 hc) (slx_no123_append (slx_no123_optdig hdf) (slx_no123_cons (by decide)
      (slx_no123_append (slx_no123_dec e) (slx_no123_append (slx_no123_posTok s) (slx_no123_bitTok b)))))
  have hstrip : stripCount (c :: (df ++ 58 :: (dec e ++ (posTok s ++ (bitTok b ++ cntTok n)))))
      = c :: (df ++ 58 :: (dec e ++ (posTok s ++ bitTok b))) := by
    have := slx_stripCount_tok hpre n
    simpa using this
  simp only [dec_val, hstrip, he, hbb, and_self, if_true]
  simp

/-- `I:e`, `O:e`, `I1:e`, `O0:e` … -/
theorem parse_io_word (c e : Nat) (df : Name) (hc : IsIO c) (hdf : OptDig3 df) (he : e ≤ 255) :
    parseTag ([c] ++ df ++ [58] ++ dec e) =
      some { fileType := [upperC c], fileNumber := if upperC c = 79 then 0 else 1, element := e, posNumber := 0,
             subElement := 0, addressField := 2, count := 1, tag := [c] ++ df ++ [58] ++ dec e } := by
  simpa [posTok, bitTok, cntTok] using parse_io c e df none none none hc hdf he (by simp) (by simp)

/-- `I:e.s` -/
theorem parse_io_subelement (c e s : Nat) (df : Name) (hc : IsIO c) (hdf : OptDig3 df) (he : e ≤ 255) (hs : s ≤ 999) :
    parseTag ([c] ++ df ++ [58] ++ dec e ++ [46] ++ dec s) =
      some { fileType := [upperC c], fileNumber := if upperC c = 79 then 0 else 1, element := e, posNumber := s,
             subElement := 0, addressField := 2, count := 1, tag := [c] ++ df ++ [58] ++ dec e ++ [46] ++ dec s } := by
  simpa [posTok, bitTok, cntTok] using parse_io c e df (some s) none none hc hdf he (by simpa using hs) (by simp)

/-- `I:e/b` and `I:e.s/b` -/
theorem parse_io_bit (c e b : Nat) (df : Name) (s : Option Nat) (hc : IsIO c) (hdf : OptDig3 df) (he : e ≤ 255)
    (hs : ∀ x, s = some x → x ≤ 999) (hb : b ≤ 15) :
    parseTag ([c] ++ df ++ [58] ++ dec e ++ posTok s ++ [47] ++ dec b) =
      some { fileType := [upperC c], fileNumber := if upperC c = 79 then 0 else 1, element := e, posNumber := s.getD 0,
             subElement := b, addressField := 3, count := 1,
             tag := [c] ++ df ++ [58] ++ dec e ++ posTok s ++ [47] ++ dec b } := by
  simpa [bitTok, cntTok] using parse_io c e df s (some b) none hc hdf he hs (by simpa using hb)

/-- `I:e{n}` and `I:e.s{n}` -/
theorem parse_io_count (c e n : Nat) (df : Name) (s : Option Nat) (hc : IsIO c) (hdf : OptDig3 df) (he : e ≤ 255)
    (hs : ∀ x, s = some x → x ≤ 999) :
    parseTag ([c] ++ df ++ [58] ++ dec e ++ posTok s ++ [123] ++ dec n ++ [125]) =
      some { fileType := [upperC c], fileNumber := if upperC c = 79 then 0 else 1, element := e, posNumber := s.getD 0,
             subElement := 0, addressField := 2, count := n, tag := [c] ++ df ++ [58] ++ dec e ++ posTok s } := by
  simpa [bitTok, cntTok] using parse_io c e df s none (some n) hc hdf he hs (by simp)

/-- element above 255 (any number of digits), or bit 16–99: rejected, in every form -/
theorem reject_io_out_of_range (c e : Nat) (df : Name) (s b n : Option Nat) (hc : IsIO c) (hdf : OptDig3 df)
    (hs : ∀ x, s = some x → x ≤ 999) (hb : ∀ x, b = some x → x ≤ 99)
    (hbad : 256 ≤ e ∨ ∃ x, b = some x ∧ 16 ≤ x) :
    parseTag ([c] ++ df ++ [58] ++ dec e ++ posTok s ++ bitTok b ++ cntTok n) = none := by
  have e1 : [c] ++ df ++ [58] ++ dec e ++ posTok s ++ bitTok b ++ cntTok n
      = c :: (df ++ 58 :: (dec e ++ (posTok s ++ (bitTok b ++ cntTok n)))) := by simp
  rw [e1]
  by_cases he : e ≤ 999
  · rw [slx_parseTag_IO c hc _ _ (slx_parseIO_shape c hc df (dec e) s b n _ _ hdf (dig_dec 2 e (by omega)) hs
      (slx_tw_bitTok b _ (slx_tw_cntTok n)) (slx_bitcnt_no46 b n) (slx_optBit_tok b n hb) (slx_countToken_tok n))]
    simp only [dec_val]
    rw [if_neg]
    rcases hbad with h | ⟨x, rfl, hx⟩
    · omega
    · simp only [Option.getD_some]; omega
  · exact slx_parseTag_IO_none c hc _
      (slx_parseIO_long c df (dec e) _ hdf (dec_digit e) (slx_dec_len4 e (by omega)))

example : parseTag (nm "I:2.1/7") =
    some { fileType := nm "I", fileNumber := 1, element := 2, posNumber := 1,
           subElement := 7, addressField := 3, count := 1, tag := nm "I:2.1/7" } := by decide
example : parseTag (nm "o:0") =
    some { fileType := nm "O", fileNumber := 0, element := 0, posNumber := 0,
           subElement := 0, addressField := 2, count := 1, tag := nm "o:0" } := by decide
example : parseTag (nm "I5:2") =
    some { fileType := nm "I", fileNumber := 1, element := 2, posNumber := 0,
           subElement := 0, addressField := 2, count := 1, tag := nm "I5:2" } := by decide
example : parseTag (nm "O3:1/15{2}") =
    some { fileType := nm "O", fileNumber := 0, element := 1, posNumber := 0,
           subElement := 15, addressField := 3, count := 2, tag := nm "O3:1/15" } := by decide
example : parseTag (nm "I:1.300") =
    some { fileType := nm "I", fileNumber := 1, element := 1, posNumber := 300,
           subElement := 0, addressField := 2, count := 1, tag := nm "I:1.300" } := by decide
example : parseTag (nm "I:256") = none := by decide
example : parseTag (nm "I:2550") = none := by decide
example : parseTag (nm "I:1/16") = none := by decide

/-! ### 3. timers / counters -/

/-- the sub-element table of the statements is the regenerated table of the code (`PCCC_CT`) -/
theorem ct_table_eq : ctTable = Gen.pcccCT := slx_ctTable_eq

-- STATEMENT NOTE: the separator between element number and sub-element name is ANY one character (an unescaped `.`
-- in CT_RE), so `T4:2/PRE`, `T4:2xPRE` are addresses.  With a DIGIT in that place the address spells another element
-- than the one parsed: `#eval parseTag (nm "T4:123ACC")` gives element 12 (not 123), `parseTag (nm "T4:1234ACC")`
-- gives element 123.  The theorem below is stated for every non-digit separator; the digit case is shown by examples.
-- STATEMENT NOTE: timer and counter names are not distinguished: `T4:0.CU` (a counter bit on a timer) is accepted
-- as bit 15 (the timer's EN), `C5:0.TT` (a timer bit on a counter) as bit 14 (the counter's CD), `C5:0.EN` as bit 15.
/-- timer / counter sub-elements `[CT]f:e.NAME` (either case of the file letter and of the name): PRE and ACC are
    words 1 and 2 of the element, EN/TT/DN/CU/CD/OV/UN/UA the status bits 15/14/13/15/14/12/11/10 of word 0.
    Accepted ranges: file 1–255, element 0–255.  No `{count}` form. -/
theorem parse_ct_sub (c f e sep v : Nat) (sub : Name) (hc : IsCT c) (hf : 1 ≤ f ∧ f ≤ 255) (he : e ≤ 255)
    (hsep : isDigitC sep = false) (hsub : (sub.map upperC, v) ∈ ctTable) :
    parseTag ([c] ++ dec f ++ [58] ++ dec e ++ [sep] ++ sub) =
      some { fileType := [upperC c], fileNumber := f, element := e, subElement := v, addressField := 3, count := 1,
             tag := [c] ++ dec f ++ [58] ++ dec e ++ [sep] ++ sub } := by
  have e1 : [c] ++ dec f ++ [58] ++ dec e ++ [sep] ++ sub = c :: (dec f ++ 58 :: (dec e ++ sep :: sub)) := by simp
  have hn := slx_ctTable_name hsub
  rw [e1, slx_parseTag_CT c hc, slx_parseCT_some c hc (dec f) _ _ v (dig_dec 2 f (by omega))
    (slx_ctTail_dig (dec e) sub sep v (dig_dec 2 e (by omega)) hsep hn.1 hn.2)]
  simp only [dec_val]
  rw [if_pos (by omega)]

/-- file or element number outside the accepted range: rejected -/
theorem reject_ct_out_of_range (c f e sep v : Nat) (sub : Name) (hc : IsCT c) (hf : f ≤ 999) (he : e ≤ 999)
    (hsep : isDigitC sep = false) (hsub : (sub.map upperC, v) ∈ ctTable)
    (hbad : f = 0 ∨ 256 ≤ f ∨ 256 ≤ e) :
    parseTag ([c] ++ dec f ++ [58] ++ dec e ++ [sep] ++ sub) = none := by
  have e1 : [c] ++ dec f ++ [58] ++ dec e ++ [sep] ++ sub = c :: (dec f ++ 58 :: (dec e ++ sep :: sub)) := by simp
  have hn := slx_ctTable_name hsub
  rw [e1, slx_parseTag_CT c hc, slx_parseCT_some c hc (dec f) _ _ v (dig_dec 2 f (by omega))
    (slx_ctTail_dig (dec e) sub sep v (dig_dec 2 e (by omega)) hsep hn.1 hn.2)]
  simp only [dec_val]
  rw [if_neg (by omega)]

/-- an element number of more than three digits is rejected whatever the sub-element name -/
theorem reject_ct_long_element (c f e : Nat) (sub : Name) (hc : IsCT c) (hf : f ≤ 999) (he : 1000 ≤ e) :
    parseTag ([c] ++ dec f ++ [58] ++ dec e ++ [46] ++ sub) = none := by
  have e1 : [c] ++ dec f ++ [58] ++ dec e ++ [46] ++ sub = c :: (dec f ++ 58 :: (dec e ++ 46 :: sub)) := by simp
  rw [e1, slx_parseTag_CT c hc, slx_parseCT_fail c (dec f) _ (dig_dec 2 f (by omega))
    (slx_ctTail_long (dec e) sub (slx_dec_len4 e he))]

/-- an unknown sub-element name is rejected -/
theorem reject_ct_unknown_sub (c f e : Nat) (sub : Name) (hc : IsCT c) (hf : f ≤ 999)
    (hsub : ctNames.contains (sub.map upperC) = false) :
    parseTag ([c] ++ dec f ++ [58] ++ dec e ++ [46] ++ sub) = none := by
  have e1 : [c] ++ dec f ++ [58] ++ dec e ++ [46] ++ sub = c :: (dec f ++ 58 :: (dec e ++ 46 :: sub)) := by simp
  rw [e1, slx_parseTag_CT c hc, slx_parseCT_fail c (dec f) _ (dig_dec 2 f (by omega))
    (slx_ctTail_dot_none (dec e) sub hsub 3)]

-- STATEMENT NOTE: the "element" form of the property does not exist for timers and counters: a whole element
-- `T4:5` and a numbered bit `T4:5/13` are rejected; only the named sub-elements are addresses, and none takes `{n}`.
-- `#eval parseTag (nm "T4:5")`, `parseTag (nm "T4:5/13")`, `parseTag (nm "T4:0.ACC{2}")` are all `none`.
/-- a timer / counter address without a sub-element name (`T4:5`, the whole element) is no address -/
theorem reject_ct_no_sub (c f e : Nat) (hc : IsCT c) (hf : f ≤ 999) :
    parseTag ([c] ++ dec f ++ [58] ++ dec e) = none := by
  have e1 : [c] ++ dec f ++ [58] ++ dec e = c :: (dec f ++ 58 :: dec e) := by simp
  rw [e1, slx_parseTag_CT c hc, slx_parseCT_fail c (dec f) _ (dig_dec 2 f (by omega))
    (slx_ctTail_digits_none (dec e) (dec_digit e) 3)]

example : parseTag (nm "t4:3.acc") =
    some { fileType := nm "T", fileNumber := 4, element := 3, subElement := 2,
           addressField := 3, count := 1, tag := nm "t4:3.acc" } := by decide
example : parseTag (nm "C5:10.PRE") =
    some { fileType := nm "C", fileNumber := 5, element := 10, subElement := 1,
           addressField := 3, count := 1, tag := nm "C5:10.PRE" } := by decide
example : parseTag (nm "T4:0.Dn") =
    some { fileType := nm "T", fileNumber := 4, element := 0, subElement := 13,
           addressField := 3, count := 1, tag := nm "T4:0.Dn" } := by decide
-- the digit-separator defect: the text spells element 123, element 12 is addressed
example : parseTag (nm "T4:123ACC") =
    some { fileType := nm "T", fileNumber := 4, element := 12, subElement := 2,
           addressField := 3, count := 1, tag := nm "T4:123ACC" } := by decide
example : parseTag (nm "T4:1234ACC") =
    some { fileType := nm "T", fileNumber := 4, element := 123, subElement := 2,
           addressField := 3, count := 1, tag := nm "T4:1234ACC" } := by decide
-- a counter bit on a timer, a timer bit on a counter
example : parseTag (nm "T4:0.CU") =
    some { fileType := nm "T", fileNumber := 4, element := 0, subElement := 15,
           addressField := 3, count := 1, tag := nm "T4:0.CU" } := by decide
example : parseTag (nm "C5:0.TT") =
    some { fileType := nm "C", fileNumber := 5, element := 0, subElement := 14,
           addressField := 3, count := 1, tag := nm "C5:0.TT" } := by decide
example : ((nm "ACC").map upperC, 2) ∈ ctTable ∧ ((nm "acc").map upperC, 2) ∈ ctTable := by decide
example : parseTag (nm "T4:0.XX") = none := by decide
example : parseTag (nm "T0:0.EN") = none := by decide
example : parseTag (nm "T256:0.EN") = none := by decide
example : parseTag (nm "T4:256.EN") = none := by decide
example : parseTag (nm "T4:1000.EN") = none := by decide
example : parseTag (nm "T4:5") = none := by decide
example : parseTag (nm "T4:5/13") = none := by decide
example : parseTag (nm "T4:0.ACC{2}") = none := by decide

/-! ### every accepted address is in range -/

/-- whatever the text, an address that `parse_tag` accepts has file number 0–255, element 0–255, bit / sub-element
    0–15, a word (2) or bit (3) address field, one of the nine file letters, position 0 except for I/O files, and for
    timers and counters one of the sub-element numbers of the table; so every text outside these ranges is rejected -/
theorem parse_accepts_in_range (t : Name) (a : Addr) (h : parseTag t = some a) : InRange a :=
  slx_parseTag_range t a h

example : InRange { fileType := nm "I", fileNumber := 1, element := 2, posNumber := 1, subElement := 7,
                    addressField := 3, count := 1, tag := nm "I:2.1/7" } :=
  parse_accepts_in_range (nm "I:2.1/7") _ (by decide)

/-! ### 4. the address fields of the request -/

/-- the file type codes (regenerated table `PCCC_DATA_TYPE`) -/
theorem type_codes :
    typeCode (nm "N") = 0x89 ∧ typeCode (nm "B") = 0x85 ∧ typeCode (nm "T") = 0x86 ∧ typeCode (nm "C") = 0x87 ∧
    typeCode (nm "S") = 0x84 ∧ typeCode (nm "F") = 0x8A ∧ typeCode (nm "O") = 0x82 ∧ typeCode (nm "I") = 0x83 ∧
    typeCode (nm "L") = 0x91 ∧ ∀ ft, typeCode ft = (lookup ft Gen.pcccDataType).getD 0 := by
  refine ⟨by decide, by decide, by decide, by decide, by decide, by decide, by decide, by decide, by decide, fun _ => rfl⟩

-- STATEMENT NOTE: the fifth byte (sub-element) of a READ request is the I/O POSITION `posNumber`, never `subElement`:
-- bit addresses and timer/counter sub-elements are requested as (element, sub-element 0) and the bit / PRE / ACC
-- is picked out of the reply by `parseReadReply` (consistent, see `read_ct_e2e`).  Write requests use
-- `writeAddressFields` (see `write_address_fields_spec`): the same, except sub-element 1 / 2 for PRE / ACC of T/C.
-- STATEMENT NOTE (history): there was no extended (0xFF + 16-bit) form: every field was one byte.  Element 255 (accepted
-- by the parser) was sent as the single byte 0xFF, which in the DF1 three-address-field format is the escape announcing
-- a 16-bit value (1770-6.5.16: "if the value is greater than 254, set this byte to FF and use the next two bytes"):
-- `(parseTag (nm "N7:255")).map (addressFields · 2)` gave `[2, 7, 0x89, 0xFF, 0]`; the same held for file number 255
-- (`N255:0`) and I/O position 255 (`I:1.255`).  This was true of the model before the library repair 241f5c3; the
-- fields are now written by `packField` (one byte below 255, else 0xFF lo hi) and the target resolves them with
-- `decodeAddress` (see `decode_address_fields`).
/-- the address fields of a request: byte size, file number, file type code, element, sub-element (= I/O position);
    each of the three numbers as `fieldBytes`: one byte below 255, else the three bytes 0xFF, low, high -/
theorem address_fields_spec (a : Addr) (size : Nat) (hs : size ≤ 255) (hf : a.fileNumber < 65536)
    (he : a.element < 65536) (hp : a.posNumber < 65536) :
    addressFields a size = .ok ([UInt8.ofNat size] ++ fieldBytes a.fileNumber ++ [UInt8.ofNat (typeCode a.fileType)] ++
      fieldBytes a.element ++ fieldBytes a.posNumber) :=
  slx_addressFields a size hs hf he hp

/-- the two shapes of a field -/
theorem field_bytes_spec (n : Nat) :
    (n < 255 → fieldBytes n = [UInt8.ofNat n]) ∧
    (255 ≤ n → fieldBytes n = [0xFF, UInt8.ofNat (n % 256), UInt8.ofNat (n / 256)]) := by
  unfold fieldBytes
  constructor
  · intro h; rw [if_pos h]
  · intro h; rw [if_neg (by omega)]

/-- for the address parsed from any text: only the size and the I/O position need a bound -/
theorem address_fields_of_parse (t : Name) (a : Addr) (size : Nat) (h : parseTag t = some a) (hs : size ≤ 255)
    (hp : a.posNumber < 65536) :
    addressFields a size = .ok ([UInt8.ofNat size] ++ fieldBytes a.fileNumber ++ [UInt8.ofNat (typeCode a.fileType)] ++
      fieldBytes a.element ++ fieldBytes a.posNumber) :=
  slx_addressFields a size hs (by have := (slx_parseTag_range t a h).file; omega)
    (by have := (slx_parseTag_range t a h).elem; omega) hp

/-- the key property of the address fields: the reference target (`decodeAddress`, DF1 three-address-field format,
    what `pcccService` runs on the bytes after the function code) resolves the bytes the driver writes to exactly the
    size, file number, file type, element and sub-element of the address - 255 and above included - and is left
    with what follows them -/
theorem decode_address_fields (a : Addr) (size : Nat) (rest : Bytes) (hs : size ≤ 255) (hf : a.fileNumber < 65536)
    (he : a.element < 65536) (hp : a.posNumber < 65536) :
    ∃ fields, addressFields a size = .ok fields ∧
      decodeAddress (fields ++ rest) = some (size, a.fileNumber, typeCode a.fileType, a.element, a.posNumber, rest) :=
  ⟨_, slx_addressFields a size hs hf he hp,
    slx_decodeAddress size a.fileNumber (typeCode a.fileType) a.element a.posNumber rest hs
      (slx_typeCode_le a.fileType) hf he hp⟩

/-- the same for the fields of a write request, whose sub-element is `writeSub` -/
theorem decode_write_address_fields (a : Addr) (size : Nat) (rest : Bytes) (hs : size ≤ 255)
    (hf : a.fileNumber < 65536) (he : a.element < 65536) (hw : writeSub a < 65536) :
    ∃ fields, writeAddressFields a size = .ok fields ∧
      decodeAddress (fields ++ rest) = some (size, a.fileNumber, typeCode a.fileType, a.element, writeSub a, rest) :=
  ⟨_, slx_writeAddressFields a size hs hf he hw,
    slx_decodeAddress size a.fileNumber (typeCode a.fileType) a.element (writeSub a) rest hs
      (slx_typeCode_le a.fileType) hf he hw⟩

-- STATEMENT NOTE: a byte size (element size × count) above 255 is not rejected as an address but fails when the
-- request is packed, with DataError: `N7:0{200}` (size 400).
-- STATEMENT NOTE (history): the same DataError was raised for an I/O position above 255 (`I:1.300`), which the parser
-- accepts up to 999.  This was true of the model before the library repair 241f5c3; such a position is now sent in
-- the extended form (`I:1.300` gives sub-element bytes `FF 2C 01`).
/-- a size above 255 or a number above 65535: no request, DataError -/
theorem address_fields_reject (a : Addr) (size : Nat)
    (h : 256 ≤ size ∨ 65536 ≤ a.fileNumber ∨ 65536 ≤ a.element ∨ 65536 ≤ a.posNumber) :
    addressFields a size = .error .data := by
  unfold addressFields
  by_cases h1 : 256 ≤ size
  · simp only [slx_packUsint_err _ h1, bind, Except.bind]
  · rw [slx_packUsint _ (by omega)]
    by_cases h2 : 65536 ≤ a.fileNumber
    · simp only [slx_packField_err _ h2, bind, Except.bind]
    · rw [slx_packField _ (by omega)]
      by_cases h3 : 65536 ≤ a.element
      · simp only [slx_packField_err _ h3, bind, Except.bind]
      · rw [slx_packField _ (by omega)]
        have h4 : 65536 ≤ a.posNumber := by omega
        simp only [slx_packField_err _ h4, bind, Except.bind]

/-- the address fields of a WRITE request: as for reads, except that the sub-element of a timer / counter preset or
    accumulator is its word number 1 / 2 (since the library repair a70ff1c) -/
theorem write_address_fields_spec (a : Addr) (size : Nat) (hs : size ≤ 255) (hf : a.fileNumber < 65536)
    (he : a.element < 65536) (hp : a.posNumber < 65536) (hsub : a.subElement < 65536) :
    writeAddressFields a size = .ok ([UInt8.ofNat size] ++ fieldBytes a.fileNumber ++
      [UInt8.ofNat (typeCode a.fileType)] ++ fieldBytes a.element ++
      fieldBytes (if (a.fileType = [84] ∨ a.fileType = [67]) ∧ (a.subElement = 1 ∨ a.subElement = 2)
        then a.subElement else a.posNumber)) := by
  rw [← slx_writeSub]
  exact slx_writeAddressFields a size hs hf he (by rw [slx_writeSub]; split <;> assumption)

/-- other than for PRE / ACC of timers and counters, write and read requests carry the same address bytes -/
theorem write_address_fields_eq_read (a : Addr) (size : Nat)
    (h : ¬ ((a.fileType = [84] ∨ a.fileType = [67]) ∧ (a.subElement = 1 ∨ a.subElement = 2))) :
    writeAddressFields a size = addressFields a size := by
  unfold writeAddressFields
  rw [slx_writeSub_pos a h]

example : (parseTag (nm "t4:3.acc")).map (writeAddressFields · 2) = some (.ok [2, 4, 0x86, 3, 2]) := by rfl
example : (parseTag (nm "C5:3.PRE")).map (writeAddressFields · 2) = some (.ok [2, 5, 0x87, 3, 1]) := by rfl
example : (parseTag (nm "T4:3.DN")).map (writeAddressFields · 2) = some (.ok [2, 4, 0x86, 3, 0]) := by rfl
example : (parseTag (nm "I:2.1/7")).map (writeAddressFields · 2) = some (.ok [2, 1, 0x83, 2, 1]) := by rfl
example : (parseTag (nm "N7:5/2")).map (writeAddressFields · 2) = some (.ok [2, 7, 0x89, 5, 0]) := by rfl
example : (parseTag (nm "I:2.1/7")).map (addressFields · 2) = some (.ok [2, 1, 0x83, 2, 1]) := by rfl
example : (parseTag (nm "t4:3.acc")).map (addressFields · 6) = some (.ok [6, 4, 0x86, 3, 0]) := by rfl
example : (parseTag (nm "s:5/3")).map (addressFields · 2) = some (.ok [2, 2, 0x84, 5, 0]) := by rfl
example : (parseTag (nm "N7:254")).map (addressFields · 2) = some (.ok [2, 7, 0x89, 0xFE, 0]) := by rfl
example : (parseTag (nm "N7:255")).map (addressFields · 2) = some (.ok [0x02, 0x07, 0x89, 0xFF, 0xFF, 0x00, 0x00]) := by rfl
example : (parseTag (nm "N255:0")).map (addressFields · 2) = some (.ok [0x02, 0xFF, 0xFF, 0x00, 0x89, 0x00, 0x00]) := by rfl
example : (parseTag (nm "I:1.255")).map (addressFields · 2) = some (.ok [0x02, 0x01, 0x83, 0x01, 0xFF, 0xFF, 0x00]) := by rfl
example : (parseTag (nm "I:1.300")).map (addressFields · 2) = some (.ok [0x02, 0x01, 0x83, 0x01, 0xFF, 0x2C, 0x01]) := by rfl
example : (parseTag (nm "N255:255/3")).map (writeAddressFields · 2)
    = some (.ok [0x02, 0xFF, 0xFF, 0x00, 0x89, 0xFF, 0xFF, 0x00, 0x00]) := by rfl
example : decodeAddress [0x02, 0xFF, 0xFF, 0x00, 0x89, 0xFF, 0xFF, 0x00, 0x00, 0xAA]
    = some (2, 255, 0x89, 255, 0, [0xAA]) := by rfl
example : (parseTag (nm "N7:0{200}")).map (fun a => addressFields a (dataSize a.fileType * a.count))
    = some (.error .data) := by rfl

/-! ### 5. reads decoded against the reference data table

  `readAddr tbl a` is what the reference target returns for the read request the driver builds for `a`
  (`addressFields a (dataSize · count)`, the five bytes decoded by the target, `typedRead`);
  `parseReadReply a` is the driver's decoding of that data. -/

/-- the read request of an address with in-range fields reaches `typedRead` with exactly its numbers -/
theorem read_request_location (tbl : Table) (a : Addr) (hs : dataSize a.fileType * a.count ≤ 255)
    (hf : a.fileNumber ≤ 255) (he : a.element ≤ 255) (hp : a.posNumber < 65536) :
    readAddr tbl a = typedRead tbl (dataSize a.fileType * a.count) a.fileNumber (typeCode a.fileType) a.element
      a.posNumber :=
  slx_readAddr_eq tbl a hs hf he hp

/-- word read (`N7:e`, `B3:e`, `S:e`, `I:e.s`, `O:e` …): the two's complement value of the 2 bytes of that element -/
theorem read_word_e2e (tbl : Table) (a : Addr) (f : SlcFile) (hft : a.fileType ∈ wordFiles)
    (haf : a.addressField = 2) (hc : a.count = 1) (hr : InRange a) (hp : a.posNumber < 65536) (hl : Located tbl a f)
    (hin : 2 * a.element + 2 * a.posNumber + 2 ≤ f.data.length) :
    ∃ data, readAddr tbl a = .ok data ∧
      parseReadReply a data = .ok (.int (int16 (wordAt f.data (2 * a.element + 2 * a.posNumber)))) := by
  obtain ⟨hty, hsz, heb, _, _⟩ := slx_wordFiles hft
  have hoff : byteOffset (typeCode a.fileType) a.element a.posNumber = 2 * a.element + 2 * a.posNumber := by
    simp only [byteOffset, heb]; omega
  have hrd := slx_readAddr_eq tbl a (by rw [hsz, hc]; decide) hr.file hr.elem hp
  rw [hsz, hc, slx_typedRead_ok tbl f 2 _ _ _ _ hl.find hl.ftype (by decide) (by rw [hoff]; exact hin), hoff,
    slx_take2_drop f.data _ hin] at hrd
  exact ⟨_, hrd, slx_reply_word a hty hsz haf _ _⟩

/-- `{n}` read (2 ≤ n ≤ 127): the list of the n consecutive elements starting at e -/
theorem read_count_e2e (tbl : Table) (a : Addr) (f : SlcFile) (hft : a.fileType ∈ wordFiles)
    (haf : a.addressField = 2) (hn : 2 ≤ a.count ∧ a.count ≤ 127) (hr : InRange a) (hp : a.posNumber < 65536)
    (hl : Located tbl a f) (hin : 2 * a.element + 2 * a.posNumber + 2 * a.count ≤ f.data.length) :
    ∃ data, readAddr tbl a = .ok data ∧
      parseReadReply a data = .ok (.list ((List.range a.count).map fun i =>
        PyVal.int (int16 (wordAt f.data (2 * a.element + 2 * a.posNumber + 2 * i))))) := by
  obtain ⟨hty, hsz, heb, _, _⟩ := slx_wordFiles hft
  have hoff : byteOffset (typeCode a.fileType) a.element a.posNumber = 2 * a.element + 2 * a.posNumber := by
    simp only [byteOffset, heb]; omega
  have hrd := slx_readAddr_eq tbl a (by rw [hsz]; omega) hr.file hr.elem hp
  rw [hsz, slx_typedRead_ok tbl f _ _ _ _ _ hl.find hl.ftype (by omega) (by rw [hoff]; exact hin), hoff] at hrd
  refine ⟨_, hrd, ?_⟩
  have hlen : ((f.data.drop (2 * a.element + 2 * a.posNumber)).take (2 * a.count)).length = 2 * a.count := by
    simp only [List.length_take, List.length_drop]; omega
  rw [slx_reply_words a hty hsz haf a.count _ hlen hn.1, slx_words_slice f.data a.count _ hin, List.map_map]
  rfl

/-- bit read (`N7:e/b`, `B3/n`, `S:e/b`, `I:e.s/b` …): bit b of that word -/
theorem read_bit_e2e (tbl : Table) (a : Addr) (f : SlcFile) (hft : a.fileType ∈ wordFiles)
    (haf : a.addressField = 3) (hc : a.count = 1) (hr : InRange a) (hp : a.posNumber < 65536) (hl : Located tbl a f)
    (hin : 2 * a.element + 2 * a.posNumber + 2 ≤ f.data.length) :
    ∃ data, readAddr tbl a = .ok data ∧
      parseReadReply a data = .ok (.bool (wordBit (wordAt f.data (2 * a.element + 2 * a.posNumber)) a.subElement)) := by
  obtain ⟨hty, hsz, heb, h84, h67⟩ := slx_wordFiles hft
  have hoff : byteOffset (typeCode a.fileType) a.element a.posNumber = 2 * a.element + 2 * a.posNumber := by
    simp only [byteOffset, heb]; omega
  have hrd := slx_readAddr_eq tbl a (by rw [hsz, hc]; decide) hr.file hr.elem hp
  rw [hsz, hc, slx_typedRead_ok tbl f 2 _ _ _ _ hl.find hl.ftype (by decide) (by rw [hoff]; exact hin), hoff,
    slx_take2_drop f.data _ hin] at hrd
  refine ⟨_, hrd, ?_⟩
  rw [slx_reply_bit a hty haf ⟨h84, h67⟩ hsz, wordBit, ← slx_intBit16 _ _ (slx_wordAt_lt _ _) hr.sub]
  rfl

/-- timer / counter sub-element read (`T4:e.PRE`, `.ACC`, `.DN` …): the 6-byte element is requested; PRE is its
    word 1, ACC its word 2, a status bit the bit of its word 0 -/
theorem read_ct_e2e (tbl : Table) (a : Addr) (f : SlcFile) (hft : a.fileType = [84] ∨ a.fileType = [67])
    (hr : InRange a) (hl : Located tbl a f) (hin : 6 * a.element + 6 ≤ f.data.length) :
    ∃ data, readAddr tbl a = .ok data ∧
      parseReadReply a data = .ok
        (if a.subElement = 1 then .int (int16 (wordAt f.data (6 * a.element + 2)))
         else if a.subElement = 2 then .int (int16 (wordAt f.data (6 * a.element + 4)))
         else .bool (wordBit (wordAt f.data (6 * a.element)) a.subElement)) := by
  obtain ⟨_, hsz, heb⟩ := slx_ctFiles hft
  obtain ⟨haf, hc, _⟩ := hr.ct hft
  have hpos : a.posNumber = 0 := hr.pos (by rcases hft with h | h <;> simp [h]) (by rcases hft with h | h <;> simp [h])
  have hoff : byteOffset (typeCode a.fileType) a.element a.posNumber = 6 * a.element := by
    simp only [byteOffset, heb, hpos]; omega
  have hrd := slx_readAddr_eq tbl a (by rw [hsz, hc]; decide) hr.file hr.elem (by omega)
  rw [hsz, hc, slx_typedRead_ok tbl f 6 _ _ _ _ hl.find hl.ftype (by decide) (by rw [hoff]; exact hin), hoff,
    slx_take_drop_cons _ _ 5 (by omega), slx_take_drop_cons _ _ 4 (by omega), slx_take_drop_cons _ _ 3 (by omega),
    slx_take_drop_cons _ _ 2 (by omega), slx_take_drop_cons _ _ 1 (by omega), slx_take_drop_cons _ _ 0 (by omega),
    List.take_zero] at hrd
  refine ⟨_, hrd, ?_⟩
  rw [slx_reply_ct a hft haf, wordBit, ← slx_intBit16 _ _ (slx_wordAt_lt _ _) hr.sub]
  rfl

/-- float file read (`F8:e`): the float whose binary32 bits are the 4 bytes of that element -/
theorem read_float_e2e (tbl : Table) (a : Addr) (f : SlcFile) (hft : a.fileType = [70]) (haf : a.addressField = 2)
    (hc : a.count = 1) (hr : InRange a) (hl : Located tbl a f) (hin : 4 * a.element + 4 ≤ f.data.length) :
    ∃ data, readAddr tbl a = .ok data ∧
      parseReadReply a data = .ok (.float (Flt.widen (dwordAt f.data (4 * a.element)))) := by
  have hty : elemTy a.fileType = some .real := by rw [hft]; rfl
  have hsz : dataSize a.fileType = 4 := by rw [hft]; decide
  have heb : elemBytes (typeCode a.fileType) = 4 := by rw [hft]; decide
  have hpos : a.posNumber = 0 := hr.pos (by simp [hft]) (by simp [hft])
  have hoff : byteOffset (typeCode a.fileType) a.element a.posNumber = 4 * a.element := by
    simp only [byteOffset, heb, hpos]; omega
  have hrd := slx_readAddr_eq tbl a (by rw [hsz, hc]; decide) hr.file hr.elem (by omega)
  rw [hsz, hc, slx_typedRead_ok tbl f 4 _ _ _ _ hl.find hl.ftype (by decide) (by rw [hoff]; exact hin), hoff,
    slx_take_drop_cons _ _ 3 (by omega), slx_take_drop_cons _ _ 2 (by omega), slx_take_drop_cons _ _ 1 (by omega),
    slx_take_drop_cons _ _ 0 (by omega), List.take_zero] at hrd
  exact ⟨_, hrd, slx_reply_real a hty hsz haf _ _ _ _⟩

/-- long file read (`L9:e`): the two's complement value of the 4 bytes of that element -/
theorem read_long_e2e (tbl : Table) (a : Addr) (f : SlcFile) (hft : a.fileType = [76]) (haf : a.addressField = 2)
    (hc : a.count = 1) (hr : InRange a) (hl : Located tbl a f) (hin : 4 * a.element + 4 ≤ f.data.length) :
    ∃ data, readAddr tbl a = .ok data ∧
      parseReadReply a data = .ok (.int (int32 (dwordAt f.data (4 * a.element)))) := by
  have hty : elemTy a.fileType = some (.int .dint) := by rw [hft]; rfl
  have hsz : dataSize a.fileType = 4 := by rw [hft]; decide
  have heb : elemBytes (typeCode a.fileType) = 4 := by rw [hft]; decide
  have hpos : a.posNumber = 0 := hr.pos (by simp [hft]) (by simp [hft])
  have hoff : byteOffset (typeCode a.fileType) a.element a.posNumber = 4 * a.element := by
    simp only [byteOffset, heb, hpos]; omega
  have hrd := slx_readAddr_eq tbl a (by rw [hsz, hc]; decide) hr.file hr.elem (by omega)
  rw [hsz, hc, slx_typedRead_ok tbl f 4 _ _ _ _ hl.find hl.ftype (by decide) (by rw [hoff]; exact hin), hoff,
    slx_take_drop_cons _ _ 3 (by omega), slx_take_drop_cons _ _ 2 (by omega), slx_take_drop_cons _ _ 1 (by omega),
    slx_take_drop_cons _ _ 0 (by omega), List.take_zero] at hrd
  exact ⟨_, hrd, slx_reply_dint a hty hsz haf _ _ _ _⟩

example : exRead "N7:0" = some (.ok (.int 0x1234)) := by rfl
example : exRead "N7:1" = some (.ok (.int (-1))) := by rfl
example : exRead "N7:0{3}" = some (.ok (.list [.int 0x1234, .int (-1), .int 8])) := by rfl
example : exRead "N7:2/3" = some (.ok (.bool true)) := by rfl
example : exRead "N7:2/4" = some (.ok (.bool false)) := by rfl
example : exRead "s:0/3" = some (.ok (.bool true)) := by rfl
example : exRead "S:1/15" = some (.ok (.bool true)) := by rfl
example : exRead "I:2.1/7" = some (.ok (.bool true)) := by rfl
example : exRead "t4:1.acc" = some (.ok (.int 300)) := by rfl
example : exRead "T4:1.PRE" = some (.ok (.int 1000)) := by rfl
example : exRead "T4:0.EN" = some (.ok (.bool true)) := by rfl
example : exRead "T4:0.TT" = some (.ok (.bool false)) := by rfl
example : exRead "T4:0.DN" = some (.ok (.bool true)) := by rfl
example : exRead "T4:1.DN" = some (.ok (.bool true)) := by rfl
example : exRead "L9:0" = some (.ok (.int (-2))) := by rfl
example : exRead "F8:0" = some (.ok (.float 0x3FF8000000000000)) := by rfl

-- file number, element and I/O position 255 (extended address fields), on `exTable255` (512-byte files: the
-- evaluation by `rfl` needs a deeper recursion limit)
section
set_option maxRecDepth 20000
example : exRead255 "N255:255" = some (.ok (.int 12345)) := by rfl
example : exRead255 "N255:254" = some (.ok (.int 7)) := by rfl
example : exRead255 "N255:254{2}" = some (.ok (.list [.int 7, .int 12345])) := by rfl
example : exRead255 "N255:255/0" = some (.ok (.bool true)) := by rfl
example : exRead255 "I:0.255" = some (.ok (.int 0x2211)) := by rfl
example : exRead255 "I:1.254/0" = some (.ok (.bool true)) := by rfl
example : exRead255 "T4:255.ACC" = some (.ok (.int 300)) := by rfl
example : exRead255 "T4:255.DN" = some (.ok (.bool true)) := by rfl
end

/-! ### 6. write, then read, at the address level

  `writeAddr tbl a v` is the data table after the reference target served the write request the driver builds
  for address `a` and value `v` (`writeableValue`, `writeAddressFields a (size · count)`, `maskedWrite`). -/

/-- bit write (`N7:e/b`, `B3/n`, `S:e/b`, `I:e.s/b` …): the request succeeds, a read of the same address returns
    the truth value written, every other file is untouched, every other byte of the file is unchanged and every
    other bit of the addressed word keeps its value -/
theorem write_read_bit_e2e (tbl : Table) (a : Addr) (f : SlcFile) (v : PyVal) (hft : a.fileType ∈ wordFiles)
    (haf : a.addressField = 3) (hc : a.count = 1) (hr : InRange a) (hp : a.posNumber < 65536) (hl : Located tbl a f)
    (hu : (tbl.filter (fun g => g.num == a.fileNumber)).length ≤ 1)
    (hin : 2 * a.element + 2 * a.posNumber + 2 ≤ f.data.length) :
    ∃ tbl', writeAddr tbl a v = .ok tbl' ∧
      (∃ data, readAddr tbl' a = .ok data ∧ parseReadReply a data = .ok (.bool v.truthy)) ∧
      tbl'.length = tbl.length ∧
      ∀ (i : Nat) (g0 : SlcFile), tbl[i]? = some g0 → ∃ g, tbl'[i]? = some g ∧ g.num = g0.num ∧ g.ftype = g0.ftype ∧
        (g0.num ≠ a.fileNumber → g = g0) ∧
        (g0.num = a.fileNumber → g.data.length = g0.data.length ∧
          (∀ j, (j < 2 * a.element + 2 * a.posNumber ∨ 2 * a.element + 2 * a.posNumber + 2 ≤ j) →
            g.data[j]? = g0.data[j]?) ∧
          ∀ k, k < 16 → wordBit (wordAt g.data (2 * a.element + 2 * a.posNumber)) k =
            if k = a.subElement then v.truthy else wordBit (wordAt g0.data (2 * a.element + 2 * a.posNumber)) k) := by
  obtain ⟨hty, hsz, heb, h84, h67⟩ := slx_wordFiles hft
  have hoff : byteOffset (typeCode a.fileType) a.element a.posNumber = 2 * a.element + 2 * a.posNumber := by
    simp only [byteOffset, heb]; omega
  have hb : a.subElement < 16 := by have := hr.sub; omega
  -- the request (bit_write_value), the masked word (mask_word_bit) and the frame (write_frame)
  have hW := slx_writeAddr_bit tbl a v haf hc hr.sub (fun h => by rcases h.1 with h' | h' <;> simp [h'] at h84 h67)
    (by rw [hty]; rfl) hr.file hr.elem hp
  obtain ⟨tbl', f', hmw, hfind', hty', hlen', hbits, _, hlenT, hfr⟩ :=
    slx_bit_write_core tbl f a.fileNumber (typeCode a.fileType) a.element a.posNumber a.subElement v.truthy
      hl.find hl.ftype hu hb (by rw [hoff]; exact hin)
  rw [hoff] at hbits hfr
  refine ⟨tbl', by rw [hW, hmw], ?_, hlenT, hfr⟩
  obtain ⟨data, h1, h2⟩ := read_bit_e2e tbl' a f' hft haf hc hr hp ⟨hfind', hty'⟩ (by rw [hlen']; exact hin)
  refine ⟨data, h1, ?_⟩
  rw [h2, hbits a.subElement hb, if_pos rfl]

/-- word write (`N7:e`, `S:e`, `O:e` …) of a 16-bit integer: the request succeeds, a read of the same address
    returns the integer written, every other file is untouched and every other byte of the file is unchanged -/
theorem write_read_word_e2e (tbl : Table) (a : Addr) (f : SlcFile) (x : Int) (hx : -32768 ≤ x ∧ x ≤ 32767)
    (hft : a.fileType ∈ wordFiles) (haf : a.addressField = 2) (hc : a.count = 1) (hr : InRange a)
    (hp : a.posNumber < 65536) (hl : Located tbl a f)
    (hu : (tbl.filter (fun g => g.num == a.fileNumber)).length ≤ 1)
    (hin : 2 * a.element + 2 * a.posNumber + 2 ≤ f.data.length) :
    ∃ tbl', writeAddr tbl a (.int x) = .ok tbl' ∧
      (∃ data, readAddr tbl' a = .ok data ∧ parseReadReply a data = .ok (.int x)) ∧
      tbl'.length = tbl.length ∧
      ∀ (i : Nat) (g0 : SlcFile), tbl[i]? = some g0 → ∃ g, tbl'[i]? = some g ∧ g.num = g0.num ∧ g.ftype = g0.ftype ∧
        (g0.num ≠ a.fileNumber → g = g0) ∧
        (g0.num = a.fileNumber → g.data.length = g0.data.length ∧
          ∀ j, (j < 2 * a.element + 2 * a.posNumber ∨ 2 * a.element + 2 * a.posNumber + 2 ≤ j) →
            g.data[j]? = g0.data[j]?) := by
  obtain ⟨hty, hsz, heb, h84, h67⟩ := slx_wordFiles hft
  have hoff : byteOffset (typeCode a.fileType) a.element a.posNumber = 2 * a.element + 2 * a.posNumber := by
    simp only [byteOffset, heb]; omega
  have hW := slx_writeAddr_word tbl a x hx haf hc hty hsz ⟨h84, h67⟩ hr.file hr.elem hp
  obtain ⟨tbl', f', hmw, hfind', hty', hlen', hword', _, hlenT, hfr⟩ :=
    slx_word_write_core tbl f a.fileNumber (typeCode a.fileType) a.element a.posNumber x hl.find hl.ftype hu
      (by rw [hoff]; exact hin)
  rw [hoff] at hword' hfr
  refine ⟨tbl', by rw [hW, hmw], ?_, hlenT, hfr⟩
  obtain ⟨data, h1, h2⟩ := read_word_e2e tbl' a f' hft haf hc hr hp ⟨hfind', hty'⟩ (by rw [hlen']; exact hin)
  refine ⟨data, h1, ?_⟩
  rw [h2, hword', slx_int16_word16 x hx]

-- STATEMENT NOTE (history): a write of a timer / counter preset or accumulator (`T4:e.PRE`, `T4:e.ACC`, `C5:e.PRE`,
-- `C5:e.ACC`) did NOT change PRE / ACC: the request's sub-element byte was `posNumber` = 0, so the value overwrote
-- word 0 of the element (the control word with the EN/TT/DN bits) and a read of the same address after the write
-- returned the OLD value (theorem `write_ct_sub_lands_on_word0`; `exWrite "T4:1.ACC" (.int 77)` turned the element
-- `[0x00,0x20 | 1000 | 300]` into `[77,0 | 1000 | 300]`).  This was true of the model before the library repair
-- a70ff1c; the write request now uses `writeAddressFields`, whose sub-element byte for PRE / ACC is 1 / 2.
/-- preset / accumulator write (`T4:e.PRE`, `T4:e.ACC`, `C5:e.PRE`, `C5:e.ACC`) of a 16-bit integer: the request
    succeeds, a read of the same address returns the integer written, every other file is untouched and every byte
    of the file outside the word `[6e + 2·sub, 6e + 2·sub + 2)` is unchanged - in particular the control word
    (word 0) and the other one of PRE / ACC -/
theorem write_read_ct_e2e (tbl : Table) (a : Addr) (f : SlcFile) (x : Int) (hx : -32768 ≤ x ∧ x ≤ 32767)
    (hft : a.fileType = [84] ∨ a.fileType = [67]) (hsub : a.subElement = 1 ∨ a.subElement = 2) (hr : InRange a)
    (hl : Located tbl a f) (hu : (tbl.filter (fun g => g.num == a.fileNumber)).length ≤ 1)
    (hin : 6 * a.element + 6 ≤ f.data.length) :
    ∃ tbl', writeAddr tbl a (.int x) = .ok tbl' ∧
      (∃ data, readAddr tbl' a = .ok data ∧ parseReadReply a data = .ok (.int x)) ∧
      tbl'.length = tbl.length ∧
      ∀ (i : Nat) (g0 : SlcFile), tbl[i]? = some g0 → ∃ g, tbl'[i]? = some g ∧ g.num = g0.num ∧ g.ftype = g0.ftype ∧
        (g0.num ≠ a.fileNumber → g = g0) ∧
        (g0.num = a.fileNumber → g.data.length = g0.data.length ∧
          ∀ j, (j < 6 * a.element + 2 * a.subElement ∨ 6 * a.element + 2 * a.subElement + 2 ≤ j) →
            g.data[j]? = g0.data[j]?) := by
  obtain ⟨_, hsz, heb⟩ := slx_ctFiles hft
  obtain ⟨haf, hc, _⟩ := hr.ct hft
  have hoff : byteOffset (typeCode a.fileType) a.element a.subElement = 6 * a.element + 2 * a.subElement := by
    simp only [byteOffset, heb]; omega
  have hW := slx_writeAddr_ct tbl a x hx hft haf hc hsub hr.file hr.elem
  obtain ⟨tbl', f', hmw, hfind', hty', hlen', hword', _, hlenT, hfr⟩ :=
    slx_word_write_core tbl f a.fileNumber (typeCode a.fileType) a.element a.subElement x hl.find hl.ftype hu
      (by rw [hoff]; omega)
  rw [hoff] at hword' hfr
  refine ⟨tbl', by rw [hW, hmw], ?_, hlenT, hfr⟩
  obtain ⟨data, h1, h2⟩ := read_ct_e2e tbl' a f' hft hr ⟨hfind', hty'⟩ (by rw [hlen']; exact hin)
  refine ⟨data, h1, ?_⟩
  rw [h2]
  rcases hsub with h | h
  · rw [h] at hword'
    rw [h, if_pos rfl, hword', slx_int16_word16 x hx]
  · rw [h] at hword'
    rw [h, if_neg (by decide), if_pos rfl, hword', slx_int16_word16 x hx]

/-- status bit write of a timer / counter (`T4:e.EN`, `.TT`, `.DN`, `C5:e.CU`, `.CD`, `.OV`, `.UN`, `.UA`: every
    sub-element other than PRE and ACC): a masked write of bit b of word 0 of the element; the request succeeds, a read
    of the same address returns the truth value written, every other file is untouched, every byte of the file
    outside the control word is unchanged (PRE and ACC in particular) and every other bit of the control word keeps
    its value -/
theorem write_read_ct_bit_e2e (tbl : Table) (a : Addr) (f : SlcFile) (v : PyVal)
    (hft : a.fileType = [84] ∨ a.fileType = [67]) (hsub : a.subElement ≠ 1 ∧ a.subElement ≠ 2) (hr : InRange a)
    (hl : Located tbl a f) (hu : (tbl.filter (fun g => g.num == a.fileNumber)).length ≤ 1)
    (hin : 6 * a.element + 6 ≤ f.data.length) :
    ∃ tbl', writeAddr tbl a v = .ok tbl' ∧
      (∃ data, readAddr tbl' a = .ok data ∧ parseReadReply a data = .ok (.bool v.truthy)) ∧
      tbl'.length = tbl.length ∧
      ∀ (i : Nat) (g0 : SlcFile), tbl[i]? = some g0 → ∃ g, tbl'[i]? = some g ∧ g.num = g0.num ∧ g.ftype = g0.ftype ∧
        (g0.num ≠ a.fileNumber → g = g0) ∧
        (g0.num = a.fileNumber → g.data.length = g0.data.length ∧
          (∀ j, (j < 6 * a.element ∨ 6 * a.element + 2 ≤ j) → g.data[j]? = g0.data[j]?) ∧
          ∀ k, k < 16 → wordBit (wordAt g.data (6 * a.element)) k =
            if k = a.subElement then v.truthy else wordBit (wordAt g0.data (6 * a.element)) k) := by
  obtain ⟨hty, hsz, heb⟩ := slx_ctFiles hft
  obtain ⟨haf, hc, _⟩ := hr.ct hft
  have hpos : a.posNumber = 0 := hr.pos (by rcases hft with h | h <;> simp [h]) (by rcases hft with h | h <;> simp [h])
  have hoff : byteOffset (typeCode a.fileType) a.element a.posNumber = 6 * a.element := by
    simp only [byteOffset, heb, hpos]; omega
  have hb : a.subElement < 16 := by have := hr.sub; omega
  have hW := slx_writeAddr_bit tbl a v haf hc hr.sub (fun h => by rcases h.2 with h' | h' <;> simp [h'] at hsub)
    (by rw [hty]; rfl) hr.file hr.elem (by omega)
  obtain ⟨tbl', f', hmw, hfind', hty', hlen', hbits, _, hlenT, hfr⟩ :=
    slx_bit_write_core tbl f a.fileNumber (typeCode a.fileType) a.element a.posNumber a.subElement v.truthy
      hl.find hl.ftype hu hb (by rw [hoff]; omega)
  rw [hoff] at hbits hfr
  refine ⟨tbl', by rw [hW, hmw], ?_, hlenT, hfr⟩
  obtain ⟨data, h1, h2⟩ := read_ct_e2e tbl' a f' hft hr ⟨hfind', hty'⟩ (by rw [hlen']; exact hin)
  refine ⟨data, h1, ?_⟩
  rw [h2, if_neg hsub.1, if_neg hsub.2, hbits a.subElement hb, if_pos rfl]

example : exWriteRead "s:1/3" (.bool true) = some (.ok (.bool true)) := by rfl
example : exWriteRead "N7:2/3" (.int 0) = some (.ok (.bool false)) := by rfl
example : exWriteRead "I:2.1/7" (.bool false) = some (.ok (.bool false)) := by rfl
example : exWriteRead "N7:1" (.int (-12345)) = some (.ok (.int (-12345))) := by rfl
example : exWrite "N7:2/2" (.bool true) = some (.ok
    [{ num := 7, ftype := 0x89, data := [0x34, 0x12, 0xFF, 0xFF, 0x0C, 0x00] },
     { num := 4, ftype := 0x86, data := [0x00, 0xA0, 100, 0, 42, 0,  0x00, 0x20, 0xE8, 0x03, 0x2C, 0x01] },
     { num := 2, ftype := 0x84, data := [0x08, 0x00, 0x01, 0x80] },
     { num := 1, ftype := 0x83, data := [0, 0, 0, 0, 0, 0, 0x80, 0] },
     { num := 8, ftype := 0x8A, data := [0, 0, 0xC0, 0x3F] },
     { num := 9, ftype := 0x91, data := [0xFE, 0xFF, 0xFF, 0xFF] }]) := by rfl
-- after the repair: ACC of T4:1 (was 300) is written, control word and PRE (1000) are not touched
example : exWrite "T4:1.ACC" (.int 77) = some (.ok
    [{ num := 7, ftype := 0x89, data := [0x34, 0x12, 0xFF, 0xFF, 0x08, 0x00] },
     { num := 4, ftype := 0x86, data := [0x00, 0xA0, 100, 0, 42, 0,  0x00, 0x20, 0xE8, 0x03, 77, 0] },
     { num := 2, ftype := 0x84, data := [0x08, 0x00, 0x01, 0x80] },
     { num := 1, ftype := 0x83, data := [0, 0, 0, 0, 0, 0, 0x80, 0] },
     { num := 8, ftype := 0x8A, data := [0, 0, 0xC0, 0x3F] },
     { num := 9, ftype := 0x91, data := [0xFE, 0xFF, 0xFF, 0xFF] }]) := by rfl
example : exWriteRead "T4:1.ACC" (.int 77) = some (.ok (.int 77)) := by rfl
example : exWriteRead "t4:0.pre" (.int (-5)) = some (.ok (.int (-5))) := by rfl
example : exWriteRead "C4:1.PRE" (.int 9) = some (.error .request) := by rfl   -- file 4 is a timer file: target error
-- status bit: DN (bit 13) of T4:0 cleared, EN (bit 15) kept: control word 0xA000 -> 0x8000
example : exWrite "T4:0.DN" (.bool false) = some (.ok
    [{ num := 7, ftype := 0x89, data := [0x34, 0x12, 0xFF, 0xFF, 0x08, 0x00] },
     { num := 4, ftype := 0x86, data := [0x00, 0x80, 100, 0, 42, 0,  0x00, 0x20, 0xE8, 0x03, 0x2C, 0x01] },
     { num := 2, ftype := 0x84, data := [0x08, 0x00, 0x01, 0x80] },
     { num := 1, ftype := 0x83, data := [0, 0, 0, 0, 0, 0, 0x80, 0] },
     { num := 8, ftype := 0x8A, data := [0, 0, 0xC0, 0x3F] },
     { num := 9, ftype := 0x91, data := [0xFE, 0xFF, 0xFF, 0xFF] }]) := by rfl
example : exWriteRead "T4:0.DN" (.bool false) = some (.ok (.bool false)) := by rfl
example : exWriteRead "T4:1.TT" (.int 1) = some (.ok (.bool true)) := by rfl

section
set_option maxRecDepth 20000
example : exWriteRead255 "N255:255" (.int (-2)) = some (.ok (.int (-2))) := by rfl
example : exWriteRead255 "N255:255/1" (.bool true) = some (.ok (.bool true)) := by rfl
example : exWriteRead255 "I:0.255/4" (.bool false) = some (.ok (.bool false)) := by rfl
example : exWriteRead255 "T4:255.ACC" (.int 77) = some (.ok (.int 77)) := by rfl
example : exWriteRead255 "T4:255.DN" (.bool false) = some (.ok (.bool false)) := by rfl
end

/-! non-vacuity of the end-to-end statements: their hypotheses hold for addresses parsed from text and the
    example table -/

example (a : Addr) (h : parseTag (nm "s:1/3") = some a) (v : PyVal) :
    ∃ tbl', writeAddr exTable a v = .ok tbl' ∧
      ∃ data, readAddr tbl' a = .ok data ∧ parseReadReply a data = .ok (.bool v.truthy) := by
  have hr := parse_accepts_in_range _ a h
  have ha : some a = some { fileType := nm "S", fileNumber := 2, element := 1, subElement := 3, addressField := 3,
                            count := 1, tag := nm "s:1/3" } := h.symm.trans (by decide)
  injection ha with ha
  subst ha
  obtain ⟨tbl', h1, h2, _⟩ := write_read_bit_e2e exTable _ ⟨2, 0x84, [0x08, 0x00, 0x01, 0x80]⟩ v (by decide) rfl rfl hr
    (by decide) ⟨by decide, by decide⟩ (by decide) (by decide)
  exact ⟨tbl', h1, h2⟩

example (a : Addr) (h : parseTag (nm "N7:0{3}") = some a) :
    ∃ data, readAddr exTable a = .ok data ∧
      parseReadReply a data = .ok (.list [.int (int16 0x1234), .int (int16 0xFFFF), .int (int16 8)]) := by
  have hr := parse_accepts_in_range _ a h
  have ha : some a = some { fileType := nm "N", fileNumber := 7, element := 0, subElement := 0, addressField := 2,
                            count := 3, tag := nm "N7:0" } := h.symm.trans (by decide)
  injection ha with ha
  subst ha
  exact read_count_e2e exTable _ ⟨7, 0x89, [0x34, 0x12, 0xFF, 0xFF, 0x08, 0x00]⟩ (by decide) rfl (by decide) hr
    (by decide) ⟨by decide, by decide⟩ (by decide)

example (a : Addr) (h : parseTag (nm "t4:1.acc") = some a) :
    ∃ data, readAddr exTable a = .ok data ∧ parseReadReply a data = .ok (.int (int16 300)) := by
  have hr := parse_accepts_in_range _ a h
  have ha : some a = some { fileType := nm "T", fileNumber := 4, element := 1, subElement := 2, addressField := 3,
                            count := 1, tag := nm "t4:1.acc" } := h.symm.trans (by decide)
  injection ha with ha
  subst ha
  exact read_ct_e2e exTable _ ⟨4, 0x86, [0x00, 0xA0, 100, 0, 42, 0,  0x00, 0x20, 0xE8, 0x03, 0x2C, 0x01]⟩
    (by decide) hr ⟨by decide, by decide⟩ (by decide)

example (a : Addr) (h : parseTag (nm "T4:1.ACC") = some a) :
    ∃ tbl', writeAddr exTable a (.int 77) = .ok tbl' ∧
      ∃ data, readAddr tbl' a = .ok data ∧ parseReadReply a data = .ok (.int 77) := by
  have hr := parse_accepts_in_range _ a h
  have ha : some a = some { fileType := nm "T", fileNumber := 4, element := 1, subElement := 2, addressField := 3,
                            count := 1, tag := nm "T4:1.ACC" } := h.symm.trans (by decide)
  injection ha with ha
  subst ha
  obtain ⟨tbl', h1, h2, _⟩ := write_read_ct_e2e exTable _
    ⟨4, 0x86, [0x00, 0xA0, 100, 0, 42, 0,  0x00, 0x20, 0xE8, 0x03, 0x2C, 0x01]⟩ 77 (by decide) (by decide)
    (by decide) hr ⟨by decide, by decide⟩ (by decide) (by decide)
  exact ⟨tbl', h1, h2⟩

example (a : Addr) (h : parseTag (nm "T4:0.DN") = some a) (v : PyVal) :
    ∃ tbl', writeAddr exTable a v = .ok tbl' ∧
      ∃ data, readAddr tbl' a = .ok data ∧ parseReadReply a data = .ok (.bool v.truthy) := by
  have hr := parse_accepts_in_range _ a h
  have ha : some a = some { fileType := nm "T", fileNumber := 4, element := 0, subElement := 13, addressField := 3,
                            count := 1, tag := nm "T4:0.DN" } := h.symm.trans (by decide)
  injection ha with ha
  subst ha
  obtain ⟨tbl', h1, h2, _⟩ := write_read_ct_bit_e2e exTable _
    ⟨4, 0x86, [0x00, 0xA0, 100, 0, 42, 0,  0x00, 0x20, 0xE8, 0x03, 0x2C, 0x01]⟩ v (by decide) (by decide)
    hr ⟨by decide, by decide⟩ (by decide) (by decide)
  exact ⟨tbl', h1, h2⟩

set_option maxRecDepth 20000 in
example (a : Addr) (h : parseTag (nm "N255:255") = some a) :
    ∃ data, readAddr exTable255 a = .ok data ∧ parseReadReply a data = .ok (.int (int16 0x3039)) := by
  have hr := parse_accepts_in_range _ a h
  have ha : some a = some { fileType := nm "N", fileNumber := 255, element := 255, subElement := 0, addressField := 2,
                            count := 1, tag := nm "N255:255" } := h.symm.trans (by decide)
  injection ha with ha
  subst ha
  exact read_word_e2e exTable255 _ ⟨255, 0x89, List.replicate 508 0 ++ [7, 0, 0x39, 0x30]⟩ (by decide) rfl rfl hr
    (by decide) ⟨rfl, rfl⟩ (by decide)

end Pycomm.Slc
