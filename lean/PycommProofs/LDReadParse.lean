/-
  LogixDriver.read, layer (a): parsing the tag string of a plain identifier (`_parse_tag_request`).
-/
import PycommModel.Logix.Driver
import PycommProofs.EpathProofs
namespace Pycomm.Lgx.Drv
open Pycomm Pycomm.Tgt Pycomm.Path Pycomm.Reply

/-- letters, digits, underscore -/
def ldr_identChar (c : Nat) : Bool :=
  (48 ≤ c && c ≤ 57) || (65 ≤ c && c ≤ 90) || (97 ≤ c && c ≤ 122) || c == 95

/-- a plain identifier: the name of a controller-scope tag without program scope, members, indexes, bit numbers
    or an element count -/
def PlainIdent (n : Name) : Prop := n ≠ [] ∧ n.length ≤ 255 ∧ ∀ c ∈ n, ldr_identChar c = true

theorem ldr_ident_facts (c : Nat) (h : ldr_identChar c = true) :
    c ≠ 46 ∧ c ≠ 58 ∧ c ≠ 91 ∧ c ≠ 93 ∧ c ≠ 123 ∧ c ≠ 125 ∧ c < 128 ∧ Path.identChar c = true := by
  simp only [ldr_identChar, Path.identChar, Bool.or_eq_true, Bool.and_eq_true, decide_eq_true_eq, beq_iff_eq] at h ⊢
  omega

theorem ldr_plain_not_mem (n : Name) (h : PlainIdent n) (c : Nat)
    (hc : c = 46 ∨ c = 58 ∨ c = 91 ∨ c = 93 ∨ c = 123 ∨ c = 125) : c ∉ n := by
  intro hm
  have := ldr_ident_facts c (h.2.2 c hm)
  omega

theorem ldr_plain_wf (n : Name) (h : PlainIdent n) : WfLevel ⟨n, []⟩ :=
  ⟨h.1, h.2.1, fun c hc => (ldr_ident_facts c (h.2.2 c hc)).2.2.2.2.2.2.2, by simp, by simp⟩

theorem ldr_contains_false (n : Name) (c : Nat) (h : c ∉ n) : n.contains c = false := by
  simpa using h

theorem ldr_not_program (n : Name) (h : PlainIdent n) : PyStr.startsWith (nm "Program:") n = false := by
  have h58 : (58 : Nat) ∉ n := ldr_plain_not_mem n h 58 (by omega)
  cases hs : PyStr.startsWith (nm "Program:") n with
  | false => rfl
  | true =>
    exfalso
    apply h58
    have e : n.take (nm "Program:").length = nm "Program:" := by
      simpa [PyStr.startsWith] using hs
    have : (58 : Nat) ∈ n.take (nm "Program:").length := by rw [e]; decide
    exact List.mem_of_mem_take this

theorem ldr_stripArray (n : Name) (h : PlainIdent n) : stripArray n = n := by
  unfold stripArray
  rw [EP.find_none 91 n (ldr_plain_not_mem n h 91 (by omega))]

theorem ldr_split_dot (n : Name) (h : PlainIdent n) : PyStr.split 46 n = [n] :=
  EP.splitOn_no_sep 46 n (ldr_plain_not_mem n h 46 (by omega))

theorem ldr_splitElements (n : Name) (h : PlainIdent n) : splitElements n = .ok (n, 1, true) := by
  unfold splitElements
  rw [ldr_contains_false n 123 (ldr_plain_not_mem n h 123 (by omega))]
  simp

theorem ldr_indexPartOk (n : Name) (h : PlainIdent n) : indexPartOk n = true := by
  unfold indexPartOk
  rw [ldr_contains_false n 91 (ldr_plain_not_mem n h 91 (by omega)),
    ldr_contains_false n 93 (ldr_plain_not_mem n h 93 (by omega))]
  simp

theorem ldr_getTagInfo (db : TagDb) (n : Name) (info : TagInfo) (h : PlainIdent n) (hget : db.get? n = some info) :
    getTagInfo db n [] = .ok (some info) := by
  unfold getTagInfo
  rw [ldr_stripArray n h, hget]
  simp

/-- (a) `_parse_tag_request` of a plain identifier that the tag database knows as something other than a DWORD:
    the request addresses the tag itself, one element, no bit, no error -/
theorem ldr_parse_plain (db : TagDb) (write : Bool) (rid : Nat) (n : Name) (info : TagInfo)
    (hid : PlainIdent n) (hget : db.get? n = some info) (hnd : isDword info = false) :
    parseTagRequest db write rid n =
      { requestId := rid, requestTag := n, userTag := n, plcTag := n, bit := none, elements := 1,
        info := some info, boolElements := none } := by
  unfold parseTagRequest
  simp only [ldr_splitElements n hid, ldr_split_dot n hid, List.find?_cons, ldr_indexPartOk n hid, Bool.not_true,
    List.find?_nil, ldr_not_program n hid, Bool.false_eq_true, if_false, List.getLast?_nil, ldr_getTagInfo db n info hid hget,
    hnd]
  simp

end Pycomm.Lgx.Drv
