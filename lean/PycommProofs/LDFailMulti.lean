/-
  Controller-side failures inside a Multiple Service Packet: `LogixDriver.read(a, b)` of two one-element requests
  that travel in one multi-service packet, for ANY two answers of the controller to the embedded requests — each
  embedded reply is classified on its own, whatever the outer status (0, or 0x1E when an embedded request failed).
-/
import PycommProofs.LDFailRead
import PycommProofs.LDRead2Multi
namespace Pycomm.Lgx.Drv
open Pycomm Pycomm.Tgt Pycomm.Path Pycomm.Reply Pycomm.Encap Pycomm.Lgx Pycomm.Lgx.E2E

theorem ldx_encMRReply_length (svc : Nat) (r : MRReply) :
    (encMRReply svc r).length = 4 + 2 * r.ext.length + r.data.length := by
  simp only [encMRReply, List.length_append, List.length_cons, List.length_nil, ldx_flatten_le2_length]

/-- (e) the data field of the response object over the framed reply to a multi-service request, whatever the outer
    status (0 or 0x1E) -/
theorem ldx_multi_data (s toId seq : Nat) (ctx data : Bytes) (fail : Bool) (hc : ctx.length = 8) :
    (tagResp (some (frame CMD_SEND_UNIT s 0 ctx (cpfReplyConnected toId seq
      (encMRReply 0x0A { status := if fail then 0x1E else 0, data := data }))))).p.data = some data := by
  cases fail with
  | false =>
    simp only [Bool.false_eq_true, if_false]
    exact (ldr_tagResp_ok 0x0A s toId seq ctx data hc).2.1
  | true =>
    simp only [if_true]
    have := (ldx_tagResp_refused 0x0A s toId seq ctx { status := 0x1E, data := data } hc (by simp) (by simp)
      (by simp) (Or.inl (by simp))).2.2
    simpa using this

/-- (c)+(d)+(e) the multi-service packet with two embedded Read Tag requests over the healthy connection: one frame
    is written; `_send_requests` pairs the two requests with the two embedded replies — the answers the controller
    gives to the two requests one after the other — each behind the 46 zero bytes -/
theorem ldx_sendRequest_multi_two (w : Cli.World Ext) (sess : Nat) (cidb : Bytes) (conn : Conn) (st st1 st2 : LState)
    (rs : Results) (seq : Nat) (qa qb : ReadReq) (segsa segsb : List PSeg) (ra rb : MRReply)
    (hw : ldr_Healthy w sess cidb conn) (hlogix : w.net.target.ext.logix = some st)
    (hdena : Denotes qa.path segsa) (hdenb : Denotes qb.path segsb)
    (hexa : Cl.exchange st (conn.size - 2) (Cl.readMsg qa.path qa.elements) = (st1, ra))
    (hexb : Cl.exchange st1 (conn.size - 2) (Cl.readMsg qb.path qb.elements) = (st2, rb))
    (hseq : seq < 65536)
    (hfit : qa.path.length + qb.path.length + 20 ≤ conn.size) (hpl : qa.path.length + qb.path.length ≤ 60000)
    (hrl : ra.ext.length + rb.ext.length + ra.data.length + rb.data.length ≤ 30000) :
    ∃ w' frm, sendRequest hookAll w rs (.multiRead seq [qa, qb]) =
        (w', multiReadResults rs [(qa, some (List.replicate 46 0 ++ encMRReply 0x4C ra)),
                                   (qb, some (List.replicate 46 0 ++ encMRReply 0x4C rb))]) ∧
      w'.drv = w.drv ∧ w'.net.sent = w.net.sent ++ [frm] ∧
      w'.net.target.ext = { w.net.target.ext with logix := some st2 } ∧
      ldr_Healthy w' sess cidb { conn with lastSeq := some seq } := by
  have hmla : (Cl.readMsg qa.path qa.elements).length = qa.path.length + 3 := by simp [Cl.readMsg, le, RT.leBytes_length]
  have hmlb : (Cl.readMsg qb.path qb.elements).length = qb.path.length + 3 := by simp [Cl.readMsg, le, RT.leBytes_length]
  have hqa : parseMR (Cl.readMsg qa.path qa.elements) = some { service := 0x4C, path := segsa, data := le 2 qa.elements } := by
    have := parseMR_msg 0x4C qa.path (le 2 qa.elements) _ hdena
    simpa [Cl.readMsg] using this
  have hqb : parseMR (Cl.readMsg qb.path qb.elements) = some { service := 0x4C, path := segsb, data := le 2 qb.elements } := by
    have := parseMR_msg 0x4C qb.path (le 2 qb.elements) _ hdenb
    simpa [Cl.readMsg] using this
  have hls := ldr2_multi_two st (conn.size - 2) (Cl.readMsg qa.path qa.elements) (Cl.readMsg qb.path qb.elements) _ _
    hqa hqb (by simp) (by simp) (by rw [hmla, hmlb]; omega)
  rw [hexa] at hls
  simp only at hls
  rw [hexb] at hls
  simp only at hls
  have hml : (Cl.multiMsg [Cl.readMsg qa.path qa.elements, Cl.readMsg qb.path qb.elements]).length =
      12 + (qa.path.length + 3) + (qb.path.length + 3) := by
    unfold Cl.multiMsg
    rw [List.length_append, ldr2_packMulti_two_length, hmla, hmlb]
    simp; omega
  obtain ⟨w2, frm, hsend, hd2, hsent2, hext2, hh2⟩ := ldr2_sendUnit_logix w sess cidb conn st seq
    (Cl.multiMsg [Cl.readMsg qa.path qa.elements, Cl.readMsg qb.path qb.elements])
    { service := 0x0A, path := [.logical 0 2, .logical 4 1],
      data := K.packMulti [Cl.readMsg qa.path qa.elements, Cl.readMsg qb.path qb.elements] } _
    hw hlogix (parseMR_multi _)
    (Or.inr ⟨2, 1, [], rfl, by decide, by decide, by decide, by decide, by decide⟩) hls
    hseq (by rw [hml]; omega) (by rw [hml]; omega)
  have hdata := ldx_multi_data sess conn.toId seq w.drv.context
    (K.packMulti [encMRReply 0x4C ra, encMRReply 0x4C rb])
    ([encMRReply 0x4C ra, encMRReply 0x4C rb].any (fun r => r.getD 2 0 != 0)) hw.ctx8
  have hemb : embeddedReplies (some (K.packMulti [encMRReply 0x4C ra, encMRReply 0x4C rb])) =
      [some (List.replicate 46 0 ++ encMRReply 0x4C ra), some (List.replicate 46 0 ++ encMRReply 0x4C rb)] := by
    unfold embeddedReplies
    simp only
    rw [if_neg (by rw [ldr2_packMulti_two_length]; omega),
      K.client_unpacks_packed _ (by simp) (by simp only [List.length_cons, List.length_nil, List.map_cons, List.map_nil,
        List.foldl_cons, List.foldl_nil, ldx_encMRReply_length]; omega)]
    rfl
  refine ⟨w2, frm, ?_, hd2, hsent2, hext2, hh2⟩
  have hmap : ([qa, qb] : List ReadReq).map (fun q => Cl.readMsg q.path q.elements) =
      [Cl.readMsg qa.path qa.elements, Cl.readMsg qb.path qb.elements] := rfl
  rw [← hmap] at hsend
  rw [ldr2_sendRequest_multi w w2 rs seq _ _ hsend (ldr_tagResp_commandStatus _ _ _ _), hdata, hemb]
  rfl

/-- `read(a, b)` of two one-element requests with plain parses (`ldr2_parsedAt`) on a healthy connected driver that is
    not a Micro800, whose estimated replies fit one multi-service packet, for ANY answers `ra`, `rb` of the controller
    to the two embedded Read Tag requests (executed in order): ONE frame is written, three sequence numbers are
    drawn, and the result holds, in request order, what the result loop makes of the two embedded replies. -/
theorem ldx_read_two_general (cfg : Cfg) (w : Cli.World Ext) (sess : Nat) (cidb : Bytes) (conn : Conn)
    (st st1 st2 : LState) (a b : Name) (ia ib : TagInfo) (pa pb : Bytes) (segsa segsb : List PSeg) (ra rb : MRReply)
    (rs : Results)
    (hw : ldr_Healthy w sess cidb conn) (hlogix : w.net.target.ext.logix = some st) (hmicro : cfg.micro800 = false)
    (hparsed : parseRequestedTags cfg.tags false [a, b] = [ldr2_parsedAt 0 a ia, ldr2_parsedAt 1 b ib])
    (hpa : requestPathOf cfg a ia = .ok pa) (hpb : requestPathOf cfg b ib = .ok pb)
    (hdena : Denotes pa segsa) (hdenb : Denotes pb segsb)
    (hexa : Cl.exchange st (conn.size - 2) (Cl.readMsg pa 1) = (st1, ra))
    (hexb : Cl.exchange st1 (conn.size - 2) (Cl.readMsg pb 1) = (st2, rb))
    (hmr : multiReadResults []
      [({ seq := w.drv.nextSeq.1, tag := a, elements := 1, info := ia, rid := 0, path := pa },
          some (List.replicate 46 0 ++ encMRReply 0x4C ra)),
       ({ seq := w.drv.nextSeq.2.nextSeq.1, tag := b, elements := 1, info := ib, rid := 1, path := pb },
          some (List.replicate 46 0 ++ encMRReply 0x4C rb))] = .ok rs)
    (hsize : K.OVERHEAD + ldr2_estimate ia pa + ldr2_estimate ib pb ≤ w.drv.connectionSize)
    (hfit : pa.length + pb.length + 20 ≤ conn.size) (hpl : pa.length + pb.length ≤ 60000)
    (hrl : ra.ext.length + rb.ext.length + ra.data.length + rb.data.length ≤ 30000) :
    ∃ w' frm, read hookAll cfg w [a, b] =
        (w', .ok [readResult (ldr2_parsedAt 0 a ia) rs, readResult (ldr2_parsedAt 1 b ib) rs]) ∧
      w'.drv = w.drv.nextSeq.2.nextSeq.2.nextSeq.2 ∧ w'.net.sent = w.net.sent ++ [frm] ∧
      w'.net.target.ext = { w.net.target.ext with logix := some st2 } ∧
      ldr_Healthy w' sess cidb { conn with lastSeq := some w.drv.nextSeq.2.nextSeq.2.nextSeq.1 } := by
  have hbuild := ldr2_build_two cfg w.drv a b ia ib pa pb hmicro hpa hpb hsize
  have hw1 : ldr_Healthy ({ w with drv := w.drv.nextSeq.2.nextSeq.2.nextSeq.2 } : Cli.World Ext) sess cidb conn :=
    ldr_Healthy_seq hw _ rfl
  obtain ⟨w2, frm, hsend, hd2, hsent2, hext2, hh2⟩ := ldx_sendRequest_multi_two
    ({ w with drv := w.drv.nextSeq.2.nextSeq.2.nextSeq.2 } : Cli.World Ext) sess cidb conn st st1 st2 []
    w.drv.nextSeq.2.nextSeq.2.nextSeq.1
    { seq := w.drv.nextSeq.1, tag := a, elements := 1, info := ia, rid := 0, path := pa }
    { seq := w.drv.nextSeq.2.nextSeq.1, tag := b, elements := 1, info := ib, rid := 1, path := pb }
    segsa segsb ra rb hw1 hlogix hdena hdenb hexa hexb (ldr_nextSeq_lt _) hfit hpl hrl
  have hfo : Cli.ensureForwardOpen hookAll Cli.FUEL w = (w, .ok ()) := ldr_ensureFO_connected hookAll 7 w hw.connected
  refine ⟨w2, frm, ?_, hd2, hsent2, hext2, hh2⟩
  unfold read
  rw [hfo]
  dsimp only
  rw [hparsed, hbuild]
  dsimp only
  unfold sendRequests
  rw [hsend, hmr]
  dsimp only
  unfold sendRequests
  dsimp only [List.isEmpty_cons, Bool.false_eq_true, if_false, List.map_cons, List.map_nil]
  simp only [Bool.false_eq_true, if_false, List.map_cons, List.map_nil]

end Pycomm.Lgx.Drv
