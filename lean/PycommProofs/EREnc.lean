/-
  Every failing encoder fails with DataError.
-/
import PycommProofs.ERBasic
namespace Pycomm.ER

/-- the only error is DataError -/
def EE {α} (x : R α) : Prop := ∀ e, x = .error e → e = .data

theorem EE.bind {α β} {x : R α} {f : α → R β} (hx : EE x) (hf : ∀ a, EE (f a)) : EE (x >>= f) := by
  intro e h
  rcases (bind_err_iff ..).1 h with h | ⟨a, _, h⟩
  · exact hx _ h
  · exact hf _ _ h

theorem EE.ok {α} {a : α} : EE (.ok a : R α) := by intro e h; cases h
theorem EE.err {α} : EE (.error .data : R α) := by intro e h; cases h; rfl

theorem packInt_ee (k : IntK) (v : PyVal) : EE (packInt k v) := by
  unfold packInt
  split
  · split
    · exact EE.ok
    · exact EE.err
  · exact EE.err

theorem packReal_ee (v : PyVal) : EE (packReal v) := by
  intro e h
  cases v <;> simp only [packReal] at h
  all_goals (repeat' split at h)
  all_goals (cases h <;> rfl)

theorem packLReal_ee (v : PyVal) : EE (packLReal v) := by
  intro e h
  cases v <;> simp only [packLReal] at h
  all_goals (repeat' split at h)
  all_goals (cases h <;> rfl)

theorem encodeStr_ee (lenK : IntK) (enc : Enc) (v : PyVal) : EE (encodeStr lenK enc v) := by
  unfold encodeStr
  split
  · refine (packInt_ee _ _).bind fun l => ?_
    split
    · exact EE.ok
    · exact EE.err
  · exact EE.err

theorem encodeStringN_ee (c : Nat) (v : PyVal) : EE (encodeStringN c v) := by
  unfold encodeStringN
  split
  · refine (packInt_ee _ _).bind fun a => (packInt_ee _ _).bind fun l => ?_
    split
    · exact EE.ok
    · exact EE.err
  · exact EE.err

theorem strKindEncode_ee (k : StrKind) (v : PyVal) : EE (k.encode v) := by
  cases k
  · exact encodeStr_ee _ _ _
  · exact encodeStr_ee _ _ _
  · exact encodeStringN_ee _ _
  · exact encodeStr_ee _ _ _

theorem encodeStringIItem_ee (v : PyVal) : EE (encodeStringIItem v) := by
  unfold encodeStringIItem
  split
  · split
    · split
      · exact EE.err
      · exact (packInt_ee _ _).bind fun _ => (strKindEncode_ee _ _).bind fun _ => EE.ok
    · exact EE.err
  · exact EE.err

theorem encodeStringIItems_ee : ∀ xs : List PyVal, EE (encodeStringIItems xs)
  | [] => by rw [encodeStringIItems]; exact EE.ok
  | x :: xs => by
      rw [encodeStringIItems]
      exact (encodeStringIItem_ee x).bind fun _ => (encodeStringIItems_ee xs).bind fun _ => EE.ok

theorem encodeStringI_ee (v : PyVal) : EE (encodeStringI v) := by
  cases v <;> simp only [encodeStringI]
  case list xs => exact (packInt_ee _ _).bind fun _ => (encodeStringIItems_ee _).bind fun _ => EE.ok
  case tuple xs => exact (packInt_ee _ _).bind fun _ => (encodeStringIItems_ee _).bind fun _ => EE.ok
  all_goals exact EE.err

theorem encodeBits_ee (k : IntK) (v : PyVal) : EE (encodeBits k v) := by
  unfold encodeBits
  split
  · split
    · exact EE.ok
    · exact EE.err
  · exact EE.err

theorem encodeNBytes_ee (n : Int) (v : PyVal) : EE (encodeNBytes n v) := by
  intro e h
  cases v <;> simp only [encodeNBytes] at h
  all_goals (repeat' split at h)
  all_goals (cases h <;> rfl)

theorem encodeFixedStr_ee (size : Nat) (lenK : IntK) (v : PyVal) : EE (encodeFixedStr size lenK v) := by
  unfold encodeFixedStr
  split
  · refine (packInt_ee _ _).bind fun l => ?_
    split
    · exact EE.ok
    · exact EE.err
  · exact EE.err

theorem encodeIp_ee (v : PyVal) : EE (encodeIp v) := by
  intro e h
  cases v <;> simp only [encodeIp] at h
  all_goals (repeat' split at h)
  all_goals (cases h <;> rfl)

theorem setBitAt_ee (value : Bytes) (off bit : Nat) (on : Bool) : EE (setBitAt value off bit on) := by
  unfold setBitAt
  intro e h
  repeat' split at h
  all_goals (cases h <;> rfl)

theorem encodeTagBits_ee (kvs : List (Name × PyVal)) : ∀ (bits : List (Name × Nat × Nat)) (value : Bytes),
    EE (encodeTagBits kvs bits value)
  | [], value => by rw [encodeTagBits]; exact EE.ok
  | (nm, off, bit) :: rest, value => by
      rw [encodeTagBits]
      split
      · exact EE.err
      · exact (setBitAt_ee _ _ _ _).bind fun v' => encodeTagBits_ee kvs rest v'

theorem encode_ee (t : Ty) (v : PyVal) : EE (encode t v) := by
  cases t with
  | bool => unfold encode; exact EE.ok
  | int k => unfold encode; exact packInt_ee _ _
  | real => unfold encode; exact packReal_ee _
  | lreal => unfold encode; exact packLReal_ee _
  | dateAndTime =>
    unfold encode
    split
    · exact (packInt_ee _ _).bind fun _ => (packInt_ee _ _).bind fun _ => EE.ok
    · exact (packInt_ee _ _).bind fun _ => (packInt_ee _ _).bind fun _ => EE.ok
    · exact EE.err
  | str lenK enc => unfold encode; exact encodeStr_ee _ _ _
  | stringN c => unfold encode; exact encodeStringN_ee _ _
  | stringI => unfold encode; exact encodeStringI_ee _
  | bits k => unfold encode; exact encodeBits_ee _ _
  | nbytes n => unfold encode; exact encodeNBytes_ee _ _
  | arr len t =>
    intro e h
    cases len <;> unfold encode at h <;> dsimp only at h
    all_goals
      split at h
      · cases h; rfl
      · repeat' split at h
        all_goals (cases h <;> rfl)
  | struct ms =>
    unfold encode
    intro e h
    split at h
    · split at h <;> cases h <;> rfl
    · split at h
      · split at h <;> cases h <;> rfl
      · cases h; rfl
  | fixedStr size lenK => unfold encode; exact encodeFixedStr_ee _ _ _
  | structTag ms bits priv size =>
    unfold encode
    split
    · split
      · exact EE.err
      · exact encodeTagBits_ee _ _ _
    · exact EE.err
  | ipAddr => unfold encode; exact encodeIp_ee _

end Pycomm.ER
