/-
  LogixDriver.write of elements of a one-dimensional controller-scope array of an elementary type:
  `name[i]` with one value, `name[i]{n}` / `name{n}` with a list of `n` values — `encode_value` and the layers
  composed.
-/
import PycommProofs.LDWrite2Core
namespace Pycomm.Lgx.Drv
open Pycomm Pycomm.Tgt Pycomm.Path Pycomm.Reply Pycomm.Encap Pycomm.Lgx Pycomm.Lgx.E2E

/-- the parsed write request for `cnt` elements (default one) from `name[idx]` of a tag that is not a BOOL array -/
def ldw2_parsedArr (name : Name) (idx : List Nat) (cnt : Option Nat) (info : TagInfo) (v : PyVal) : Parsed :=
  { requestId := 0, requestTag := ldr2_tagStr ⟨name, idx⟩ none cnt, userTag := ldr2_tagStr ⟨name, idx⟩ none none,
    plcTag := renderLevel ⟨name, idx⟩, bit := none, elements := ((cnt.getD 1 : Nat) : Int), info := some info,
    boolElements := none, value := v }

/-! ### (b) `encode_value` on an array tag -/

/-- a canonical value of an elementary type is not a sequence -/
theorem ldw2_canon_not_seq (t : Ty) (v : PyVal)
    (hshape : t = .bool ∨ (∃ k, t = .int k) ∨ t = .real ∨ t = .lreal) (hcanon : Canon t v) :
    isNonStrSequence v = false := by
  rcases hshape with rfl | ⟨k, rfl⟩ | rfl | rfl
  · obtain ⟨x, rfl⟩ := hcanon; rfl
  · obtain ⟨x, rfl, _⟩ := hcanon; rfl
  · obtain ⟨x, _, rfl, _⟩ := hcanon; rfl
  · obtain ⟨x, rfl, _⟩ := hcanon; rfl

/-- the codec encodes a one-element array of an elementary type like the element -/
theorem ldw2_encode_arr_one (t : Ty) (v : PyVal) (bytes : Bytes) (hb : t.isBits = none)
    (henc : encode t (argOf t v) = .ok bytes) :
    encode (.arr (.fixed 1) t) (.list [v]) = .ok bytes := by
  have hl : (PyVal.list [v]).len? = some 1 := rfl
  have hs : (PyVal.list [v]).seq? = some [v] := rfl
  unfold encode
  simp only [hl, hs, hb, Nat.lt_irrefl, decide_false, Bool.false_eq_true, if_false, List.take_succ_cons, List.take_zero,
    encodeList, henc, bind, Except.bind, List.append_nil]

/-- (b) `encode_value` of a request for ONE element of an array tag (not a BOOL array) with a canonical scalar value:
    the value is wrapped into a one-element list; the request is unchanged, the bytes are the element's encoding -/
theorem ldw2_encodeValue_elem (p : Parsed) (info : TagInfo) (dim : Nat) (t : Ty) (bytes : Bytes)
    (hnd : info.core.dataTypeName ≠ nm "DWORD") (hty : info.core.ty = .arr (.fixed dim) t)
    (hshape : t = .bool ∨ (∃ k, t = .int k) ∨ t = .real ∨ t = .lreal) (hb : t.isBits = none)
    (hbe : p.boolElements = none) (hel : p.elements = 1)
    (hcanon : Canon t p.value) (henc : encode t p.value = .ok bytes) : encodeValue p info = (p, some bytes) := by
  have hdw : (info.core.dataTypeName == nm "DWORD") = false := by simpa using hnd
  have hns := ldw2_canon_not_seq t p.value hshape hcanon
  have h1 := ldw2_encode_arr_one t p.value bytes hb (by rw [RT.argOf_of_canon t _ hcanon]; exact henc)
  unfold encodeValue
  split
  · rename_i b hv
    exact absurd hv (ldw_canon_not_bytes t p.value hshape hcanon b)
  · simp only [hdw, Bool.false_eq_true, false_and, if_false, hty, hbe, hel, Int.reduceLT, gt_iff_lt, hns, Bool.not_false,
      if_true, encodeArrayLen, Int.one_ne_zero, Int.toNat_one, h1]

/-- (b) `encode_value` of a request for `n ≥ 1` elements of an array tag (not a BOOL array) with a list of exactly `n`
    values: the request is unchanged, the bytes are the codec's encoding of the list as an `n`-element array -/
theorem ldw2_encodeValue_slice (p : Parsed) (info : TagInfo) (dim n : Nat) (t : Ty) (vs : List PyVal) (bytes : Bytes)
    (hnd : info.core.dataTypeName ≠ nm "DWORD") (hty : info.core.ty = .arr (.fixed dim) t)
    (hbe : p.boolElements = none) (hel : p.elements = (n : Int)) (hn : 1 ≤ n)
    (hv : p.value = .list vs) (hvs : vs.length = n)
    (henc : encode (.arr (.fixed n) t) (.list vs) = .ok bytes) : encodeValue p info = (p, some bytes) := by
  have hdw : (info.core.dataTypeName == nm "DWORD") = false := by simpa using hnd
  have hlen : (PyVal.list vs).len? = some n := by rw [← hvs]; rfl
  have hn0 : ¬ ((n : Int) = 0) := by omega
  unfold encodeValue
  rw [hv]
  simp only [hdw, Bool.false_eq_true, false_and, if_false, hty, hbe, hel, hlen, Int.lt_irrefl, gt_iff_lt,
    isNonStrSequence, Bool.not_true, encodeArrayLen, hn0, Int.toNat_natCast]
  by_cases h1 : (1 : Int) < n
  · simp only [h1, if_true, henc]
  · simp only [h1, if_false, henc]

/-! ### the layers composed -/

/-- `write` of `n ≥ 1` elements from element `i` of a one-dimensional array tag of an elementary type, requested as
    `name[i]` / `name[i]{n}` (`idx = [i]`) or `name{n}` (`idx = []`, `i = 0`), when `encode_value` yields the `n * sz`
    bytes `bytes` -/
theorem ldw2_write_array (cfg : Cfg) (w : Cli.World Ext) (sess : Nat) (cidb : Bytes) (conn : Conn)
    (st : LState) (s : Symbol) (info : TagInfo) (c sz dim : Nat) (name : Name) (t : Ty)
    (idx : List Nat) (i : Nat) (cnt : Option Nat) (v : PyVal) (bytes : Bytes)
    (hidx : idx = [i] ∨ (idx = [] ∧ i = 0))
    (hw : ldr_Healthy w sess cidb conn) (hlogix : w.net.target.ext.logix = some st)
    (hs : s ∈ st.proj.controller)
    (hbytes : ∀ s' ∈ st.proj.controller, ∀ ch ∈ s'.name, ch < 256)
    (huniqN : ∀ s' ∈ st.proj.controller, s'.name = s.name → s' = s)
    (huniqI : ∀ s' ∈ st.proj.controller, s'.inst = s.inst → s' = s)
    (hid : PlainIdent s.name) (hinst : s.inst < 2 ^ 32)
    (hty : elTyOfWord s.symbolType = .atomic c) (hat : atomicOfCode c = some (name, t)) (hb : t.isBits = none)
    (hsz : atomicSize c = some sz)
    (hdims : s.dims.filter (· != 0) = [dim]) (hlen : s.mem.length = dim * sz)
    (hget : cfg.tags.get? s.name = some info) (hinfo : ldr_InfoOf info name (.arr (.fixed dim) t) s.inst)
    (hi32 : i < 2 ^ 32) (hn : 1 ≤ cnt.getD 1) (hn16 : cnt.getD 1 ≤ 65535) (hin : i + cnt.getD 1 ≤ dim)
    (henc : encodeValue (ldw2_parsedArr s.name idx cnt info v) info = (ldw2_parsedArr s.name idx cnt info v, some bytes))
    (hbl : bytes.length = cnt.getD 1 * sz) (hb16 : cnt.getD 1 * sz ≤ 64000)
    (hC : 2 * (cnt.getD 1 * sz) + s.name.length + 26 ≤ w.drv.connectionSize)
    (hT : cnt.getD 1 * sz + s.name.length + 26 ≤ conn.size) :
    ∃ w' frm, write hookAll cfg w [(ldr2_tagStr ⟨s.name, idx⟩ none cnt, v)] =
        (w', .ok [{ tag := renderLevel ⟨s.name, idx⟩, value := v,
                    type := some (ldr2_typeStr name (cnt.getD 1)), error := none }]) ∧
      w'.drv = w.drv.nextSeq.2 ∧ w'.net.sent = w.net.sent ++ [frm] ∧
      w'.net.target.ext =
        { w.net.target.ext with logix := some { st with proj := ldw2_proj st.proj s (i * sz) bytes } } ∧
      ldr_Healthy w' sess cidb { conn with lastSeq := some w.drv.nextSeq.1 } := by
  obtain ⟨haty, hentry, hndw, hpos, hle8⟩ := ldr_atomic_table c sz name t hat hb hsz
  have hl : ldr2_Level ⟨s.name, idx⟩ := by
    refine ⟨hid, ?_, ?_⟩
    · rcases hidx with h | ⟨h, _⟩ <;> rw [h] <;> simp
    · rcases hidx with h | ⟨h, _⟩ <;> rw [h] <;> simp [hi32]
  have hil : idx.length ≤ 1 := by rcases hidx with h | ⟨h, _⟩ <;> rw [h] <;> simp
  -- (a) parsing
  have hnd : isDword info = false := by
    have : (name == nm "DWORD") = false := by simpa using hndw
    simp [isDword, hinfo.typeName, this]
  have hparse := ldr2_parse_unfold cfg.tags true 0 ⟨s.name, idx⟩ none cnt hl
    (by intro n hc; rw [hc] at hn16; simpa using hn16)
  rw [Option.map_none, ldr2_tail_plain cfg.tags true 0 _ _ _ _ ⟨s.name, idx⟩ none info hl hget hnd rfl] at hparse
  -- (b) the path
  obtain ⟨path, hpath, hpl, hden⟩ := ldr2_requestPath cfg ⟨s.name, idx⟩ info s.inst hl hinfo.instanceId hinst
  have hpl' : path.length ≤ s.name.length + 19 := by
    have : path.length ≤ s.name.length + 13 + 6 * idx.length := hpl
    omega
  have hpt : packedTypeOf info = le 2 c := ldw_packedType info name c sz hinfo.struct hinfo.typeName hentry
  -- (d) the address
  have hmem : s.mem ≠ [] := by
    intro h
    rw [h, List.length_nil] at hlen
    have : 0 < dim * sz := Nat.mul_pos (by omega) hpos
    omega
  have hr : resolve st.proj (ldr_segs s.name s.inst cfg.useInstanceIds ++ idx.map (PSeg.logical 8)) =
      .ok (ldr2_locAt s c sz i dim) := by
    rcases hidx with h | ⟨h, h0⟩
    · rw [h]
      exact ldr2_resolve_elem st.proj s c sz cfg.useInstanceIds i dim hid hs hbytes huniqN huniqI hty hsz hmem hdims (by omega)
    · rw [h, h0, List.map_nil, List.append_nil, ← ldr2_loc_zero s c sz dim hdims]
      exact ldr_resolve st.proj s c sz cfg.useInstanceIds hid hs hbytes huniqN huniqI hty hsz hmem
  have hsym : st.proj.symbolOf (ldr2_locAt s c sz i dim) = some s := ldr_find_inst st.proj s hs huniqI
  have hle : i * sz + cnt.getD 1 * sz ≤ s.mem.length := by
    rw [hlen, ← Nat.add_mul]; exact Nat.mul_le_mul_right sz hin
  obtain ⟨w', frm, hwrite, hd, hsent, hext, hh⟩ := ldw2_write_single cfg w sess cidb conn st
    (ldr2_tagStr ⟨s.name, idx⟩ none cnt) v _ (ldw2_parsedArr s.name idx cnt info v) info path _ (ldr2_locAt s c sz i dim) s c sz
    (cnt.getD 1) bytes hw hlogix hparse rfl rfl rfl henc rfl rfl rfl hpath hden
    (by have := hid.2.1; omega) hr rfl hpt
    ⟨hn, by simp only [ldr2_locAt]; omega, by omega⟩ hsym hsz hbl hle (by omega) (by omega) (by omega)
  refine ⟨w', frm, ?_, hd, hsent, ?_, hh⟩
  · rw [hwrite]
    have hresult := ldw2_writeResult (ldw2_parsedArr s.name idx cnt info v) info
      { tag := renderLevel ⟨s.name, idx⟩, value := .bytes bytes, type := some info.core.dataTypeName, error := none }
      (cnt.getD 1) rfl rfl rfl rfl rfl rfl
    dsimp only [ldw2_parsedArr] at hresult ⊢
    rw [hresult, hinfo.typeName, ldr2_tagStr_plain]
  · rw [hext, ldw2_written_eq st.proj s (ldr2_locAt s c sz i dim) _ bytes rfl rfl]
    rfl

/-! ### the bytes of an encoded list, element by element -/

/-- the codec encodes an `n`-element array of an elementary type element by element -/
theorem ldw2_encode_arr_list (t : Ty) (vs : List PyVal) (n : Nat) (bytes : Bytes) (hb : t.isBits = none) (hvs : vs.length = n)
    (henc : encode (.arr (.fixed n) t) (.list vs) = .ok bytes) :
    encodeList (fun x => encode t (argOf t x)) vs = .ok bytes := by
  have hl : (PyVal.list vs).len? = some n := by rw [← hvs]; rfl
  have hs : (PyVal.list vs).seq? = some vs := rfl
  have htk : vs.take n = vs := by rw [← hvs]; exact List.take_length
  unfold encode at henc
  simp only [hl, hs, hb, Nat.lt_irrefl, decide_false, Bool.false_eq_true, if_false, htk] at henc
  cases h : encodeList (fun x => encode t (argOf t x)) vs with
  | ok bs => rw [h] at henc; simp only at henc; rw [← henc]
  | error e => rw [h] at henc; simp only at henc; cases henc

/-- when every element encodes to `sz` bytes, the encoding of the list is `|vs| * sz` bytes long and its `k`-th
    chunk of `sz` bytes is the encoding of element `k` -/
theorem ldw2_encodeList_chunks (f : PyVal → R Bytes) (sz : Nat) :
    ∀ (vs : List PyVal) (bytes : Bytes), (∀ x ∈ vs, ∀ e, f x = .ok e → e.length = sz) → encodeList f vs = .ok bytes →
      bytes.length = vs.length * sz ∧
      ∀ k (h : k < vs.length), f vs[k] = .ok ((bytes.drop (k * sz)).take sz) := by
  intro vs
  induction vs with
  | nil =>
    intro bytes _ he
    simp only [encodeList] at he
    cases he
    exact ⟨by simp, fun k h => absurd h (by simp)⟩
  | cons x rest ih =>
    intro bytes hall he
    cases hx : f x with
    | error e => simp [encodeList, hx, bind, Except.bind] at he
    | ok a =>
      cases hr : encodeList f rest with
      | error e => simp [encodeList, hx, hr, bind, Except.bind] at he
      | ok r =>
        have hb : bytes = a ++ r := by
          simp only [encodeList, hx, hr, bind, Except.bind] at he
          cases he; rfl
        have hal : a.length = sz := hall x (by simp) a hx
        obtain ⟨ihl, ihk⟩ := ih r (fun y hy e hye => hall y (List.mem_cons_of_mem _ hy) e hye) hr
        subst hb
        refine ⟨by rw [List.length_append, hal, ihl, List.length_cons, Nat.succ_mul]; omega, ?_⟩
        intro k hk
        cases k with
        | zero =>
          simp only [List.getElem_cons_zero, Nat.zero_mul, List.drop_zero]
          rw [hx, ← hal, List.take_left']
          rfl
        | succ j =>
          have hj : j < rest.length := by simpa using hk
          simp only [List.getElem_cons_succ]
          rw [ihk j hj]
          have hd : (a ++ r).drop ((j + 1) * sz) = r.drop (j * sz) := by
            rw [show (j + 1) * sz = a.length + j * sz from by rw [hal, Nat.succ_mul]; omega, List.drop_append,
              List.drop_of_length_le (by omega), List.nil_append, Nat.add_sub_cancel_left]
          rw [hd]

end Pycomm.Lgx.Drv
