/-
  Proofs for C09 (emitted CIP paths denote the addressed object).
  `parsePadded`/`parseRequestPath` (PycommModel/Epath.lean) is the independent strict parser.
-/
import PycommModel.Epath
namespace Pycomm.Path

/-- spec-side decimal rendering (what a user types for an array index) -/
def decRev (n : Nat) : List Nat :=
  if h : n < 10 then [48 + n] else (48 + n % 10) :: decRev (n / 10)
termination_by n
decreasing_by omega

def decRender (n : Nat) : Name := (decRev n).reverse

/-- one level of a tag: a member/tag name with 0..3 array indices -/
structure TagLevel where
  name : Name
  idx : List Nat

def joinWith (sep : Nat) : List Name → Name
  | [] => []
  | [x] => x
  | x :: rest => x ++ [sep] ++ joinWith sep rest

def renderLevel (l : TagLevel) : Name :=
  if l.idx = [] then l.name else l.name ++ [91] ++ joinWith 44 (l.idx.map decRender) ++ [93]

/-- the documented tag syntax: levels joined by '.' -/
def renderTag (ls : List TagLevel) : Name := joinWith 46 (ls.map renderLevel)

/-- identifier characters (letters, digits, underscore, and ':' for the `Program:` scope) -/
def identChar (c : Nat) : Bool :=
  (48 ≤ c && c ≤ 58) || (65 ≤ c && c ≤ 90) || (97 ≤ c && c ≤ 122) || c == 95

def WfLevel (l : TagLevel) : Prop :=
  l.name ≠ [] ∧ l.name.length ≤ 255 ∧ (∀ c ∈ l.name, identChar c = true) ∧ l.idx.length ≤ 3 ∧ ∀ i ∈ l.idx, i < 2 ^ 32

/-- what the path must denote: the name as an ANSI extended symbol, each index as a member id -/
def levelSegs (l : TagLevel) : List PSeg :=
  PSeg.symbol (l.name.map UInt8.ofNat) :: l.idx.map (PSeg.logical 8)

-- PROPERTY THEOREMS

/-- the generated segment tables have the shape the CIP specification gives them -/
theorem logical_tables_wf :
    Gen.LOGICAL_SEGMENT_TYPE = 32 ∧ Gen.logicalFormat = [(1, 0), (2, 1), (4, 3)] ∧
    (Gen.logicalTypes.all fun e => e.2 % 4 == 0 && e.2 < 32) = true ∧
    lookupName (nm "class_id") Gen.logicalTypes = some 0 ∧
    lookupName (nm "instance_id") Gen.logicalTypes = some 4 ∧
    lookupName (nm "member_id") Gen.logicalTypes = some 8 ∧
    lookupName (nm "attribute_id") Gen.logicalTypes = some 16 := by
  sorry

/-- every logical value below 2^32 of every logical type is emitted as a well-formed padded segment
    (8/16/32-bit format chosen by size, pad byte for the wide formats, even length) that the independent
    parser decodes back to exactly that type and value -/
theorem logical_roundtrip (ltype : Name) (ty : Nat) (hty : lookupName ltype Gen.logicalTypes = some ty)
    (v : Nat) (hv : v < 2 ^ 32) :
    ∃ bs, encLogical (.int v) ltype true = .ok bs ∧ bs.length % 2 = 0 ∧
      ∀ rest fuel, rest.length + bs.length < fuel →
        parsePadded fuel (bs ++ rest) = (parsePadded (fuel - 1) rest).map (PSeg.logical ty v :: ·) := by
  sorry

/-- port segments: port number 1..14 with a one-byte link -/
theorem port_roundtrip_slot (p : Nat) (hp : 1 ≤ p ∧ p ≤ 14) (l : Nat) (hl : l < 256) :
    encPort (.int p) (.int l) = .ok [UInt8.ofNat p, UInt8.ofNat l] ∧
    ∀ rest fuel, rest.length + 2 < fuel →
      parsePadded fuel ([UInt8.ofNat p, UInt8.ofNat l] ++ rest) =
        (parsePadded (fuel - 1) rest).map (PSeg.port p [UInt8.ofNat l] :: ·) := by
  sorry

/-- port segments with an IPv4 link address: extended link, length byte, ASCII address, pad to even -/
theorem port_roundtrip_ip (p : Nat) (hp : 1 ≤ p ∧ p ≤ 14) (s : Name) (octets : List Nat)
    (hip : parseIPv4 s = some octets) (hlen : 1 < s.length ∧ s.length ≤ 255) (hascii : ∀ c ∈ s, c < 128) :
    ∃ bs, encPort (.int p) (.str s) = .ok bs ∧ bs.length % 2 = 0 ∧
      ∀ rest fuel, rest.length + bs.length < fuel →
        parsePadded fuel (bs ++ rest) =
          (parsePadded (fuel - 1) rest).map (PSeg.port p (s.map UInt8.ofNat) :: ·) := by
  sorry

/-- symbolic segments: ANSI extended symbol, length byte, name, pad to even -/
theorem symbol_roundtrip (name : Name) (hlen : name.length ≤ 255) (hascii : ∀ c ∈ name, c < 128) :
    ∃ bs, encDataStr name = .ok bs ∧ bs.length % 2 = 0 ∧
      ∀ rest fuel, rest.length + bs.length < fuel →
        parsePadded fuel (bs ++ rest) =
          (parsePadded (fuel - 1) rest).map (PSeg.symbol (name.map UInt8.ofNat) :: ·) := by
  sorry

/-- word-count prefix: the first byte of a length-prefixed padded path is its length in 16-bit words,
    for any list of logical / port / symbolic segments -/
theorem epath_wordcount (segs : List Seg)
    (bs : Bytes) (h : encEpath true segs true false = .ok bs)
    (heven : ∀ s ∈ segs, ∀ e, encSeg true s = .ok e → e.length % 2 = 0) :
    ∃ body, bs = UInt8.ofNat (body.length / 2) :: body ∧ body.length % 2 = 0 ∧ body.length / 2 < 256 := by
  sorry

/-- class/instance(/attribute) paths of generic messages parse back to exactly those ids -/
theorem request_path_denotes (cls inst attr : Nat) (hc : cls < 2 ^ 32) (hi : inst < 2 ^ 32) (ha : attr < 2 ^ 32) :
    ∃ bs, requestPath (.int cls) (.int inst) (.int attr) = .ok bs ∧
      parseRequestPath bs = some ([PSeg.logical 0 cls, PSeg.logical 4 inst] ++
        (if attr = 0 then [] else [PSeg.logical 16 attr]), []) := by
  sorry

/-- decimal indices are read back exactly -/
theorem pyInt_decRender (n : Nat) : PyStr.pyInt (decRender n) = some (n : Int) := by
  sorry

/-- a rendered level is split into its name and its index strings -/
theorem findTagIndex_render (l : TagLevel) (hw : WfLevel l) :
    findTagIndex (renderLevel l) = (l.name, l.idx.map decRender) := by
  sorry

/-- every tag in the documented syntax (any nesting depth, 0–3 indices per level, symbolic addressing)
    is emitted as a request path that the independent parser decodes to exactly the intended names and indices -/
theorem tag_path_denotes (ls : List TagLevel) (hne : ls ≠ []) (hw : ∀ l ∈ ls, WfLevel l)
    (hsize : (ls.map fun l => 2 + l.name.length + 1 + 6 * l.idx.length).sum ≤ 510) :
    ∃ bs, tagRequestPath (renderTag ls) none false = .ok (some bs) ∧
      parseRequestPath bs = some (ls.flatMap levelSegs, []) := by
  sorry

/-- symbol-instance addressing: class 0x6B + instance id replace the base tag name -/
theorem tag_path_instance (base : TagLevel) (rest : List TagLevel) (inst : Nat)
    (hw : ∀ l ∈ base :: rest, WfLevel l) (hi : 0 < inst ∧ inst < 2 ^ 32)
    (hprog : PyStr.startsWith (nm "Program:") (renderLevel base) = false)
    (hsize : ((base :: rest).map fun l => 2 + l.name.length + 1 + 6 * l.idx.length).sum ≤ 500) :
    ∃ bs, tagRequestPath (renderTag (base :: rest)) (some inst) true = .ok (some bs) ∧
      parseRequestPath bs = some ([PSeg.logical 0 0x6B, PSeg.logical 4 inst] ++ base.idx.map (PSeg.logical 8) ++
        rest.flatMap levelSegs, []) := by
  sorry

end Pycomm.Path
